/-
  C01, second half — COMPLETENESS: every derivation is returned.

  "… every returned tree is a valid derivation [Props/C01.lean] … and every derivation is returned
   (every reachable end position always; every distinct tree whenever the grammar has finitely many).
   This holds under direct, indirect and hidden (through empty/optional prefixes) left recursion, right
   and centre recursion, ambiguity and empty alternatives …"

  Model: ParsleyVerif/Model/Run.lean (`run`).  Specifications: Spec/Derives.lean (`Derives`, the
  declarative meaning) and Spec/DerivesC.lean (`DerivesC`, curtailed derivations: what an un-cached
  top-down evaluation with the curtailment test can find; `Frag`, the fragment).

  FRAGMENT (`Frag`): term, empty, ref, memo, any, seq .seqOf (any Name / ReturnSingle / interpreter),
  optional — the monotone combinators.  Outside it, and not claimed: `choice`, `many`, `sepBy`,
  `seqTry`, `seqFirstOrAll` (first-match / longest-path, non-monotone); `name`, `single`, `suppress`
  (drop results that come with an error — known finding D9); the trims; `eof` and any node whose token
  is "EOF" (a sequence stops enumerating after the first alternative that ends with such a node — so
  the theorems are about the parser BELOW the `Sentence` wrapper).

  The proof splits around `DerivesC`:

  * `c01_reuse_complete`  (A, about the code)  the result cache (`ResultCache.Get`'s context test,
        `Filter(cp)` on save), the curtailing sets (`Union` in any.go / seq.go) and the context reset
        of seq.go never lose a curtailed derivation: a call under context `ctx` that answers with
        curtailing set `cp` returns every tree that is curtailed-derivable under ANY counters that
        dominate `ctx` on `cp`;  `c01_cache_complete`: the cache invariant behind it;
  * `c01_curtailed_covers` (B, combinatorics)  every end position a derivation reaches is reached by a
        curtailed derivation from the empty context;  `c01_curtailed_covers_trees`: in an `Acyclic`
        grammar (the same (memo index, start, end) is never nested in itself) every derivation is a
        curtailed derivation, tree for tree;
  * `c01_complete_ends`, `c01_complete_trees`  the two together, for every fuel with which `run`
        answers, every cache state that satisfies the invariant (the empty one does);
        `c01_ends_exact`, `c01_trees_exact`: with soundness, the returned ends / trees ARE the derivations;
  * `c01_sentence_complete(_parse)`  through the wrapper: `Sentence g` returns a result if some derivation
        of `g` consumes the entire input (C04's open "if" direction, given that `run` answers).

  All hypotheses are local and syntactic: `Frag` (fragment, no "EOF" tokens), `GOK bodyOf` (each
  `Memoize` index wraps one parser), `Core (TermGood cfg)` (no trims; terminals stay inside the file —
  C08's subject), `InFile`.
-/
import ParsleyVerif.Proofs.RunComplete
import ParsleyVerif.Proofs.CurtailTrees
import ParsleyVerif.Proofs.SentenceComplete
import ParsleyVerif.Proofs.Terminal
import ParsleyVerif.Props.C01
namespace PV
open PV.Text

/-- what the completeness theorems ask of a parser: in the fragment, one parser per `Memoize` index,
    terminals that stay inside the file -/
structure CScope (cfg : Cfg) (bodyOf : Nat → G) (g : G) : Prop where
  frag : Frag cfg g
  gok : GOK bodyOf g
  core : g.Core (TermGood cfg)

/-- **(A) cache reuse and curtailing sets never lose a curtailed derivation.**
    `run … g ctx pos st` answered `o`; then for EVERY counter function `c'` with `ctx.get k ≤ c' k` on the
    keys `k` of the returned curtailing set `o.cp` (arbitrary on every other key) every tree with a
    curtailed derivation under `c'` is among the returned alternatives. -/
theorem c01_reuse_complete (cfg : Cfg) (bodyOf : Nat → G) (henv : ∀ g' ∈ cfg.env, Frag cfg g' ∧ GOK bodyOf g')
    (fuel : Nat) (g : G) (ctx : Ctx) (pos : Nat) (st : St) (o : Out) (st' : St)
    (hf : Frag cfg g) (hg : GOK bodyOf g) (hst : CacheC cfg bodyOf st)
    (h : run cfg fuel g ctx pos st = some (o, st')) :
    ∀ (c' : Nat → Nat) (x : Node), (∀ k ∈ o.cp, ctx.get k ≤ c' k) → DerivesC cfg c' g pos x → x ∈ o.res.alts :=
  (run_complete cfg bodyOf henv fuel g ctx pos st o st' hf hg hst h).1

/-- the cache invariant — every stored entry `e` promises, for every `c'` that passes the test of
    `ResultCache.Get` against the STORED context (`∀ (k, v) ∈ e.ctx, v ≤ c' k`), every tree
    curtailed-derivable under `c'` from `memo e.idx` at `e.pos` — is preserved by every call and holds
    of the empty cache -/
theorem c01_cache_complete (cfg : Cfg) (bodyOf : Nat → G) (henv : ∀ g' ∈ cfg.env, Frag cfg g' ∧ GOK bodyOf g')
    (fuel : Nat) (g : G) (ctx : Ctx) (pos : Nat) (st : St) (o : Out) (st' : St)
    (hf : Frag cfg g) (hg : GOK bodyOf g) (hst : CacheC cfg bodyOf st)
    (h : run cfg fuel g ctx pos st = some (o, st')) :
    CacheC cfg bodyOf st' ∧ CacheC cfg bodyOf {} :=
  ⟨(run_complete cfg bodyOf henv fuel g ctx pos st o st' hf hg hst h).2.2, by intro e he; cases he⟩

/-- what `CacheC` says of an entry, spelled out -/
theorem c01_cache_entry (cfg : Cfg) (bodyOf : Nat → G) (st : St) (hst : CacheC cfg bodyOf st)
    (e : CacheEntry) (he : e ∈ st.cache) (c' : Nat → Nat) (x : Node)
    (hpass : ∀ kv ∈ e.ctx, kv.2 ≤ c' kv.1) (hd : DerivesC cfg c' (.memo e.idx (bodyOf e.idx)) e.pos x) :
    x ∈ e.res.alts :=
  (hst e he).complete c' x hpass hd

/-- **(B) every reachable end position has a curtailed derivation from the empty context.** -/
theorem c01_curtailed_covers (cfg : Cfg) (bodyOf : Nat → G) (henv : ∀ g' ∈ cfg.env, CScope cfg bodyOf g')
    (g : G) (hs : CScope cfg bodyOf g) (pos : Nat) (hin : InFile cfg.file pos) (x : Node)
    (h : Derives cfg g pos x) : ∃ y, DerivesC cfg zeroC g pos y ∧ y.rpos = x.rpos :=
  derivesC_of_derives_ends cfg bodyOf (fun g' hg' => ⟨(henv g' hg').frag, (henv g' hg').gok, (henv g' hg').core⟩)
    g hs.frag ⟨hs.gok, hs.core⟩ pos hin x h

/-- **(B), trees**: in an acyclic grammar every derivation is a curtailed derivation — the same tree -/
theorem c01_curtailed_covers_trees (cfg : Cfg) (bodyOf : Nat → G) (henv : ∀ g' ∈ cfg.env, CScope cfg bodyOf g')
    (hac : Acyclic cfg bodyOf) (g : G) (hs : CScope cfg bodyOf g) (pos : Nat) (hin : InFile cfg.file pos) (x : Node)
    (h : Derives cfg g pos x) : DerivesC cfg zeroC g pos x :=
  derivesC_of_derives_tree cfg bodyOf (fun g' hg' => ⟨(henv g' hg').frag, (henv g' hg').gok, (henv g' hg').core⟩)
    hac g hs.frag ⟨hs.gok, hs.core⟩ pos hin x h

/-- a curtailed derivation is a derivation (so (A) and (B) speak about the same trees) -/
theorem c01_curtailed_sound (cfg : Cfg) (bodyOf : Nat → G) (henv : ∀ g' ∈ cfg.env, Frag cfg g' ∧ GOK bodyOf g')
    (fuel : Nat) (g : G) (pos : Nat) (o : Out) (st' : St) (hf : Frag cfg g) (hg : GOK bodyOf g)
    (h : run cfg fuel g [] pos {} = some (o, st')) (x : Node) (hd : DerivesC cfg zeroC g pos x) :
    Derives cfg g pos x := by
  have hx := c01_reuse_complete cfg bodyOf henv fuel g [] pos {} o st' hf hg (by intro e he; cases he) h zeroC x
    (by intro k _; exact Nat.zero_le _) hd
  exact c01_sound cfg bodyOf (fun g' hg' => (henv g' hg').2) fuel g [] pos {} o st' hg (by intro e he; cases he) h x hx

/-- **C01 completeness, end positions.**  Whenever `run` answers — from the empty context, from any
    cache that satisfies the invariant (in particular the empty one) — for every derivation of the
    parser at the call position a tree with the same end position is among the returned alternatives. -/
theorem c01_complete_ends (cfg : Cfg) (bodyOf : Nat → G) (henv : ∀ g' ∈ cfg.env, CScope cfg bodyOf g')
    (g : G) (hs : CScope cfg bodyOf g) (fuel : Nat) (pos : Nat) (hin : InFile cfg.file pos)
    (st : St) (hst : CacheC cfg bodyOf st) (o : Out) (st' : St)
    (h : run cfg fuel g [] pos st = some (o, st')) :
    ∀ x, Derives cfg g pos x → ∃ y ∈ o.res.alts, y.rpos = x.rpos := by
  intro x hx
  obtain ⟨y, hy, he⟩ := c01_curtailed_covers cfg bodyOf henv g hs pos hin x hx
  refine ⟨y, ?_, he⟩
  exact c01_reuse_complete cfg bodyOf (fun g' hg' => ⟨(henv g' hg').frag, (henv g' hg').gok⟩) fuel g [] pos st o st'
    hs.frag hs.gok hst h zeroC y (by intro k _; exact Nat.zero_le _) hy

/-- **C01 completeness, trees.**  In an acyclic grammar every derivation — every distinct tree — is among
    the returned alternatives. -/
theorem c01_complete_trees (cfg : Cfg) (bodyOf : Nat → G) (henv : ∀ g' ∈ cfg.env, CScope cfg bodyOf g')
    (hac : Acyclic cfg bodyOf)
    (g : G) (hs : CScope cfg bodyOf g) (fuel : Nat) (pos : Nat) (hin : InFile cfg.file pos)
    (st : St) (hst : CacheC cfg bodyOf st) (o : Out) (st' : St)
    (h : run cfg fuel g [] pos st = some (o, st')) :
    ∀ x, Derives cfg g pos x → x ∈ o.res.alts := by
  intro x hx
  have hy := c01_curtailed_covers_trees cfg bodyOf henv hac g hs pos hin x hx
  exact c01_reuse_complete cfg bodyOf (fun g' hg' => ⟨(henv g' hg').frag, (henv g' hg').gok⟩) fuel g [] pos st o st'
    hs.frag hs.gok hst h zeroC x (by intro k _; exact Nat.zero_le _) hy

/-- soundness and completeness together: from a fresh context the returned END POSITIONS are exactly
    the end positions of the derivations -/
theorem c01_ends_exact (cfg : Cfg) (bodyOf : Nat → G) (henv : ∀ g' ∈ cfg.env, CScope cfg bodyOf g')
    (g : G) (hs : CScope cfg bodyOf g) (fuel : Nat) (pos : Nat) (hin : InFile cfg.file pos) (o : Out) (st' : St)
    (h : run cfg fuel g [] pos {} = some (o, st')) (e : Nat) :
    (∃ x, Derives cfg g pos x ∧ x.rpos = e) ↔ e ∈ o.res.alts.map Node.rpos := by
  constructor
  · rintro ⟨x, hx, rfl⟩
    obtain ⟨y, hy, he⟩ := c01_complete_ends cfg bodyOf henv g hs fuel pos hin {} (by intro e he; cases he) o st' h x hx
    exact List.mem_map.mpr ⟨y, hy, he⟩
  · intro he
    obtain ⟨y, hy, rfl⟩ := List.mem_map.mp he
    exact ⟨y, c01_sound cfg bodyOf (fun g' hg' => (henv g' hg').gok) fuel g [] pos {} o st' hs.gok
      (by intro e he; cases he) h y hy, rfl⟩

/-- and in an acyclic grammar the returned TREES are exactly the derivations -/
theorem c01_trees_exact (cfg : Cfg) (bodyOf : Nat → G) (henv : ∀ g' ∈ cfg.env, CScope cfg bodyOf g')
    (hac : Acyclic cfg bodyOf)
    (g : G) (hs : CScope cfg bodyOf g) (fuel : Nat) (pos : Nat) (hin : InFile cfg.file pos) (o : Out) (st' : St)
    (h : run cfg fuel g [] pos {} = some (o, st')) (x : Node) :
    Derives cfg g pos x ↔ x ∈ o.res.alts :=
  ⟨c01_complete_trees cfg bodyOf henv hac g hs fuel pos hin {} (by intro e he; cases he) o st' h x,
   c01_sound cfg bodyOf (fun g' hg' => (henv g' hg').gok) fuel g [] pos {} o st' hs.gok (by intro e he; cases he) h x⟩

/-! ### through the `Sentence` wrapper (the "if" half of C04, given that `run` answers) -/

theorem isEOF_hi (cfg : Cfg) : isEOF cfg.file cfg.hi = true := by
  unfold isEOF Cfg.hi
  simp

/-- **Sentence succeeds if some derivation of the operand consumes the entire input** — whenever it
    answers (termination is C02's subject).  `Sentence g = SeqOf(g, End)` stops at the first alternative
    of `g` after which `End` matches; completeness guarantees there is one. -/
theorem c01_sentence_complete (cfg : Cfg) (bodyOf : Nat → G) (henv : ∀ g' ∈ cfg.env, CScope cfg bodyOf g')
    (g : G) (hs : CScope cfg bodyOf g) (fuel : Nat) (pos : Nat) (hin : InFile cfg.file pos)
    (st : St) (hst : CacheC cfg bodyOf st) (o : Out) (st' : St)
    (h : run cfg fuel (G.sentence g) [] pos st = some (o, st'))
    (hex : ∃ x, Derives cfg g pos x ∧ x.rpos = cfg.hi) : o.res.alts ≠ [] ∧ o.err = none := by
  obtain ⟨x, hx, he⟩ := hex
  obtain ⟨y, hy, hye⟩ := c01_curtailed_covers cfg bodyOf henv g hs pos hin x hx
  exact sentence_complete cfg bodyOf (fun g' hg' => ⟨(henv g' hg').frag, (henv g' hg').gok⟩) g hs.frag hs.gok fuel pos st hst
    o st' h y hy (by rw [hye, he]; exact isEOF_hi cfg)

/-- the same for `parsley.Parse(Sentence g)` from a fresh context -/
theorem c01_sentence_complete_parse (cfg : Cfg) (bodyOf : Nat → G) (henv : ∀ g' ∈ cfg.env, CScope cfg bodyOf g')
    (g : G) (hs : CScope cfg bodyOf g) (fuel : Nat) (p : ParseOut)
    (h : parse cfg fuel (G.sentence g) = some p)
    (hex : ∃ x, Derives cfg g (cfg.file.pos 0) x ∧ x.rpos = cfg.hi) : p.err = none ∧ p.res.alts ≠ [] := by
  cases hr : run cfg fuel (G.sentence g) [] (cfg.file.pos 0) {} with
  | none => simp [parse, hr] at h
  | some r =>
    obtain ⟨o, st1⟩ := r
    obtain ⟨h1, h2⟩ := c01_sentence_complete cfg bodyOf henv g hs fuel _ (c01_pre_initial cfg).1 {}
      (by intro e he; cases he) o st1 hr hex
    have hnil : o.res.isNil = false := by
      cases hres : o.res with
      | nil => rw [hres] at h1; exact absurd rfl h1
      | one _ => rfl
      | list _ => rfl
    simp only [parse, hr, hnil, h2, Bool.false_and, Bool.false_eq_true, ↓reduceIte] at h
    cases h
    exact ⟨rfl, h1⟩

/-! ### the hypotheses can be met: rune terminals -/

theorem termGood_rune (cfg : Cfg) (ch : Nat) (name : Bytes) : TermGood cfg (.rune ch name) := by
  intro pos hin
  have hr := readRune_eq cfg.file pos ch hin
  have hlen := rest_length cfg.file pos hin
  have hhi : pos ≤ cfg.hi := hin.2
  constructor
  · intro n hn
    simp only [Terminal.parse, hr] at hn
    cases hw : runeW ch (rest cfg.file pos) with
    | none => simp [hw, nf] at hn
    | some w =>
      simp only [hw] at hn
      injection hn with hn
      subst hn
      obtain ⟨w1, w2⟩ := runeW_bounds ch _ w hw
      refine ⟨rfl, ?_⟩
      simp only [Node.WF]
      unfold Cfg.hi
      omega
  · intro e he
    simp only [Terminal.parse, hr] at he
    cases hw : runeW ch (rest cfg.file pos) with
    | none =>
      simp only [hw, nf] at he
      injection he with he
      subst he
      exact ⟨Nat.le_refl _, hhi⟩
    | some w => simp [hw] at he

theorem fragLocal_rune (cfg : Cfg) (ch : Nat) (name : Bytes) (h : Utf8.encodeRune ch ≠ eofTok) :
    FragLocal cfg (.term (.rune ch name)) := by
  intro pos n hn
  simp only [Terminal.parse] at hn
  split at hn
  · cases hn
  · injection hn with hn; subst hn; exact h
  · simp [nf] at hn

/-- reading the end positions off an evaluation of the model -/
theorem ends_of_eval {cfg : Cfg} {fuel : Nat} {g : G} {pos : Nat} {l : List Nat}
    (h : (run cfg fuel g [] pos {}).map (fun r => r.1.res.alts.map Node.rpos) = some l) :
    ∃ o st', run cfg fuel g [] pos {} = some (o, st') ∧ o.res.alts.map Node.rpos = l := by
  cases hr : run cfg fuel g [] pos {} with
  | none => rw [hr] at h; cases h
  | some r =>
    obtain ⟨o, st'⟩ := r
    rw [hr] at h
    simp only [Option.map_some, Option.some.injEq] at h
    exact ⟨o, st', rfl, h⟩

/-! ### non-vacuity 1: direct left recursion  `P → P b | a`  on "abb" -/

def nvBody : G := .any [.seq .seqOf [.ref 0, .term (.rune 98 [34, 98, 34])] {}, .term (.rune 97 [34, 97, 34])]

theorem nv_scope : ∀ g' ∈ nvCfg.env, CScope nvCfg (fun _ => nvBody) g' := by
  intro g' hg'
  simp only [nvCfg, nvEnv, List.mem_singleton] at hg'
  subst hg'
  refine ⟨?_, ?_, ?_⟩
  · simp only [Frag, G.All, AllList, FragLocal, and_true, true_and]
    exact ⟨⟨by decide, fragLocal_rune _ _ _ (by decide)⟩, fragLocal_rune _ _ _ (by decide)⟩
  · simp [GOK, G.All, AllList, LocalOK, nvBody]
  · simp only [G.Core, CoreList, and_true, true_and]
    exact ⟨termGood_rune _ _ _, termGood_rune _ _ _⟩

theorem nv_root (cfg : Cfg) (bodyOf : Nat → G) : CScope cfg bodyOf (.ref 0) :=
  ⟨by simp [Frag, G.All, FragLocal], by simp [GOK, G.All, LocalOK], by simp [G.Core]⟩

/-- the theorem, instantiated: the derivations of `P` on "abb" end at 2, 3 or 4 and nowhere else —
    obtained from completeness and ONE evaluation of the model -/
theorem nv_ends : ∀ e, (∃ x, Derives nvCfg (.ref 0) 1 x ∧ x.rpos = e) ↔ e ∈ [4, 3, 2] := by
  intro e
  obtain ⟨o, st', hrun, hl⟩ := ends_of_eval (cfg := nvCfg) (fuel := 40) (g := .ref 0) (pos := 1) (l := [4, 3, 2]) (by decide)
  rw [← hl]
  exact c01_ends_exact nvCfg (fun _ => nvBody) nv_scope (.ref 0) (nv_root _ _) 40 1 ⟨by decide, by decide⟩ o st' hrun e

/-- an ASCII rune terminal consumes exactly one byte -/
theorem rune_node_rpos (cfg : Cfg) (ch : Nat) (name : Bytes) (hc : ch < 0x80) (pos : Nat) (hin : InFile cfg.file pos)
    (m : Node) (h : Terminal.parse cfg.params cfg.file (.rune ch name) pos = .node m) : m.rpos = pos + 1 := by
  simp only [Terminal.parse, readRune_eq cfg.file pos ch hin, runeW_ascii ch _ hc] at h
  by_cases hh : (rest cfg.file pos).head? = some ch
  · simp only [hh, ↓reduceIte] at h
    injection h with h
    subst h
    rfl
  · simp [hh, nf] at h

theorem derives_rune_rpos (cfg : Cfg) (ch : Nat) (name : Bytes) (hc : ch < 0x80) (pos : Nat) (hin : InFile cfg.file pos)
    (m : Node) (h : Derives cfg (.term (.rune ch name)) pos m) : m.rpos = pos + 1 := by
  cases h with
  | term hp => exact rune_node_rpos cfg ch name hc pos hin m hp
  | seqfam hs _ _ => simp [G.shape] at hs

/-- `P → P b | a` is acyclic: a nested `P` with the same start ends at least one byte (the `b`) earlier -/
theorem nv_acyclic : Acyclic nvCfg (fun _ => nvBody) := by
  have henv : ∀ g' ∈ nvCfg.env, PosOK nvCfg g' := fun g' hg' => ⟨(nv_scope g' hg').frag, (nv_scope g' hg').core⟩
  intro k pos x hin hc
  generalize he : x.rpos = e at hc
  simp only [nvBody] at hc
  cases hc with
  | any hm hc' =>
    simp only [List.mem_cons, List.not_mem_nil, or_false] at hm
    rcases hm with rfl | rfl
    · cases hc' with
      | seqOf hs hcs hl =>
        rename_i sh nodes
        simp only [G.shape, Option.some.injEq] at hs
        subst hs
        simp only [List.length_cons, List.length_nil, beq_iff_eq] at hl
        cases hcs with
        | head hl0 hcn hds =>
          rename_i g0 n rest
          simp only [List.getElem?_cons_zero, Option.some.injEq] at hl0
          subst hl0
          obtain ⟨b1, b2, b3⟩ := (contains_end_le nvCfg henv k e).1 hcn
            ⟨by simp [Frag, G.All, FragLocal], by simp [G.Core]⟩ hin
          cases hds with
          | nil => simp at hl
          | cons hl1 hdm hds2 =>
            rename_i g1 m rest2
            simp only [Nat.zero_add, List.getElem?_cons_succ, List.getElem?_cons_zero, Option.some.injEq] at hl1
            subst hl1
            have hm := derives_rune_rpos nvCfg 98 _ (by decide) n.rpos (InFile_of_le hin b2 b3) m hdm
            cases hds2 with
            | nil =>
              rw [handleResult_rpos] at he
              simp [endOf] at he
              omega
            | cons hl2 _ _ => simp at hl2
        | tail hl0 hdn hz hcs1 =>
          rename_i g0 n rest
          cases hcs1 with
          | head hl1 hcm _ =>
            simp only [Nat.zero_add, List.getElem?_cons_succ, List.getElem?_cons_zero, Option.some.injEq] at hl1
            subst hl1
            cases hcm
          | tail hl1 hdm hz1 _ =>
            simp only [Nat.zero_add, List.getElem?_cons_succ, List.getElem?_cons_zero, Option.some.injEq] at hl1
            subst hl1
            have hm := derives_rune_rpos nvCfg 98 _ (by decide) n.rpos (by rw [hz]; exact hin) _ hdm
            omega
    · cases hc'

/-- the trees theorem, instantiated: the derivations of `P` on "abb" are exactly the three left-nested
    trees the model returns -/
theorem nv_trees : ∀ x, Derives nvCfg (.ref 0) 1 x ↔ x ∈ [nvABB, nvAB, nvA] := by
  intro x
  have hev : (run nvCfg 40 (.ref 0) [] 1 {}).map (fun r => r.1.res.alts) = some [nvABB, nvAB, nvA] := by rfl
  cases hr : run nvCfg 40 (.ref 0) [] 1 {} with
  | none => rw [hr] at hev; cases hev
  | some r =>
    obtain ⟨o, st'⟩ := r
    rw [hr] at hev
    simp only [Option.map_some, Option.some.injEq] at hev
    rw [← hev]
    exact c01_trees_exact nvCfg (fun _ => nvBody) nv_scope nv_acyclic (.ref 0) (nv_root _ _) 40 1 ⟨by decide, by decide⟩ o st' hr x

/-- through the wrapper: "abb" is a sentence of `P` (the derivation `nvABB` ends at `hi = 4`), so
    `Parse(Sentence P)` succeeds whenever it answers — and it does answer, with that one tree -/
theorem nv_sentence (fuel : Nat) (p : ParseOut) (h : parse nvCfg fuel (G.sentence (.ref 0)) = some p) :
    p.err = none ∧ p.res.alts ≠ [] := by
  refine c01_sentence_complete_parse nvCfg (fun _ => nvBody) nv_scope (.ref 0) (nv_root _ _) fuel p h ?_
  exact ⟨nvABB, ((nv_trees nvABB).mpr (by simp)), rfl⟩

example : (parse nvCfg 40 (G.sentence (.ref 0))).map (fun p => (p.err.isNone, p.res.alts.map Node.rpos)) = some (true, [4]) := by
  decide

/-! ### non-vacuity 2: HIDDEN left recursion  `P → x? P b | a`  on "xabb"
    (the grammar of defect D2: with the pinned `i > 0` reset the invariant — and termination — fail) -/

def hidBody : G :=
  .any [.seq .seqOf [.optional (.term (.rune 120 [34, 120, 34])), .ref 0, .term (.rune 98 [34, 98, 34])] {},
        .term (.rune 97 [34, 97, 34])]
def hidCfg : Cfg :=
  { env := [.memo 0 hidBody], file := { name := "f", data := [120, 97, 98, 98], offset := 1 }, fileSet := {},
    params := { floatOk := fun _ => true, durErr := fun _ => none, regexp := fun _ _ => none } }

theorem hid_scope : ∀ g' ∈ hidCfg.env, CScope hidCfg (fun _ => hidBody) g' := by
  intro g' hg'
  simp only [hidCfg, List.mem_singleton] at hg'
  subst hg'
  refine ⟨?_, ?_, ?_⟩
  · simp only [Frag, G.All, AllList, FragLocal, hidBody, and_true, true_and]
    exact ⟨⟨by decide, fragLocal_rune _ _ _ (by decide), fragLocal_rune _ _ _ (by decide)⟩, fragLocal_rune _ _ _ (by decide)⟩
  · simp [GOK, G.All, AllList, LocalOK, hidBody]
  · simp only [G.Core, CoreList, hidBody, and_true, true_and]
    exact ⟨⟨termGood_rune _ _ _, termGood_rune _ _ _⟩, termGood_rune _ _ _⟩

/-- `P` on "xabb": "xab" (end 4) and "xabb" (end 5), through the optional prefix and through the
    left-recursive alternative with the prefix skipped -/
theorem hid_ends : ∀ e, (∃ x, Derives hidCfg (.ref 0) 1 x ∧ x.rpos = e) ↔ e ∈ [5, 4, 5] := by
  intro e
  obtain ⟨o, st', hrun, hl⟩ := ends_of_eval (cfg := hidCfg) (fuel := 60) (g := .ref 0) (pos := 1) (l := [5, 4, 5]) (by decide)
  rw [← hl]
  exact c01_ends_exact hidCfg (fun _ => hidBody) hid_scope (.ref 0) (nv_root _ _) 60 1 ⟨by decide, by decide⟩ o st' hrun e

/-- `P → x? P b | a` is acyclic too: the nested `P` (after the skipped prefix) ends before the `b` -/
theorem hid_acyclic : Acyclic hidCfg (fun _ => hidBody) := by
  have henv : ∀ g' ∈ hidCfg.env, PosOK hidCfg g' := fun g' hg' => ⟨(hid_scope g' hg').frag, (hid_scope g' hg').core⟩
  intro k pos x hin hc
  generalize he : x.rpos = e at hc
  -- what follows the second element `P`, once a `memo` node with end `e` has been found in it
  have key : ∀ (sh : SeqShape) (p : Nat) (n : Node) (rest : List Node) (pre : List Node),
      sh.lookup 2 = some (.term (.rune 98 [34, 98, 34])) → sh.lookup 3 = none → InFile hidCfg.file p →
      Contains hidCfg k e (.ref 0) p n → DerivesSeq hidCfg sh 2 n.rpos rest →
      pre.length = 1 → (pre ++ n :: rest).length = 3 → endOf pos (pre ++ n :: rest) = e → False := by
    intro sh p n rest pre hk2 hk3 hinp hcn hds hpre hlen hend
    obtain ⟨b1, b2, b3⟩ := (contains_end_le hidCfg henv k e).1 hcn
      ⟨by simp [Frag, G.All, FragLocal], by simp [G.Core]⟩ hinp
    cases hds with
    | nil => simp [hpre] at hlen
    | cons hl2 hdm hds3 =>
      rename_i g2 m rest3
      rw [hk2] at hl2
      injection hl2 with hl2
      subst hl2
      have hm := derives_rune_rpos hidCfg 98 _ (by decide) n.rpos (InFile_of_le hinp b2 b3) m hdm
      cases hds3 with
      | nil =>
        have : endOf pos (pre ++ [n, m]) = m.rpos := by
          have : pre ++ [n, m] = (pre ++ [n]) ++ [m] := by simp
          rw [this, endOf_snoc]
        rw [this] at hend
        omega
      | cons hl3 _ _ => rw [hk3] at hl3; cases hl3
  simp only [hidBody] at hc
  cases hc with
  | any hm hc' =>
    simp only [List.mem_cons, List.not_mem_nil, or_false] at hm
    rcases hm with rfl | rfl
    · cases hc' with
      | seqOf hs hcs hl =>
        rename_i sh nodes
        simp only [G.shape, Option.some.injEq] at hs
        subst hs
        simp only [beq_iff_eq] at hl
        cases hcs with
        | head hl0 hcn hds =>
          -- in the optional prefix: impossible, it is a terminal
          simp only [List.getElem?_cons_zero, Option.some.injEq] at hl0
          subst hl0
          cases hcn with
          | optSome h1 => cases h1
        | tail hl0 hdn hz hcs1 =>
          rename_i g0 n0 rest0
          rw [handleResult_rpos] at he
          cases hcs1 with
          | head hl1 hcn hds =>
            rename_i g1 n1 rest1
            simp only [Nat.zero_add, List.getElem?_cons_succ, List.getElem?_cons_zero, Option.some.injEq] at hl1
            subst hl1
            exact key _ n0.rpos n1 rest1 [n0] rfl rfl (by rw [hz]; exact hin) hcn hds rfl (by simpa using hl) (by simpa using he)
          | tail hl1 hdn1 hz1 hcs2 =>
            rename_i g1 n1 rest1
            cases hcs2 with
            | head hl2 hcm _ =>
              simp only [Nat.zero_add, List.getElem?_cons_succ, List.getElem?_cons_zero, Option.some.injEq] at hl2
              subst hl2
              cases hcm
            | tail hl2 hdm hz2 _ =>
              simp only [Nat.zero_add, List.getElem?_cons_succ, List.getElem?_cons_zero, Option.some.injEq] at hl2
              subst hl2
              have hm := derives_rune_rpos hidCfg 98 _ (by decide) n1.rpos (by rw [hz1, hz]; exact hin) _ hdm
              omega
    · cases hc'

/-- the trees theorem on hidden left recursion: the model returns three trees for `P` on "xabb", and
    they are exactly the derivations -/
theorem hid_trees : ∃ o st', run hidCfg 28 (.ref 0) [] 1 {} = some (o, st') ∧ o.res.alts.length = 3 ∧
    ∀ x, Derives hidCfg (.ref 0) 1 x ↔ x ∈ o.res.alts := by
  have hev : (run hidCfg 28 (.ref 0) [] 1 {}).map (fun r => r.1.res.alts.length) = some 3 := by decide
  cases hr : run hidCfg 28 (.ref 0) [] 1 {} with
  | none => rw [hr] at hev; cases hev
  | some r =>
    obtain ⟨o, st'⟩ := r
    rw [hr] at hev
    simp only [Option.map_some, Option.some.injEq] at hev
    exact ⟨o, st', rfl, hev, fun x =>
      c01_trees_exact hidCfg (fun _ => hidBody) hid_scope hid_acyclic (.ref 0) (nv_root _ _) 28 1 ⟨by decide, by decide⟩ o st' hr x⟩

/-! ### non-vacuity 3: left recursion inside an alternative, cyclic and ambiguous
    `P → (P | a | P?) b`  on "abb" -/

def cycBody : G :=
  .seq .seqOf [.any [.ref 0, .term (.rune 97 [34, 97, 34]), .optional (.ref 0)], .term (.rune 98 [34, 98, 34])] {}
def cycCfg : Cfg :=
  { env := [.memo 0 cycBody], file := { name := "f", data := [97, 98, 98], offset := 1 }, fileSet := {},
    params := { floatOk := fun _ => true, durErr := fun _ => none, regexp := fun _ _ => none } }

theorem cyc_scope : ∀ g' ∈ cycCfg.env, CScope cycCfg (fun _ => cycBody) g' := by
  intro g' hg'
  simp only [cycCfg, List.mem_singleton] at hg'
  subst hg'
  refine ⟨?_, ?_, ?_⟩
  · simp only [Frag, G.All, AllList, FragLocal, cycBody, and_true, true_and]
    exact ⟨by decide, fragLocal_rune _ _ _ (by decide), fragLocal_rune _ _ _ (by decide)⟩
  · simp [GOK, G.All, AllList, LocalOK, cycBody]
  · simp only [G.Core, CoreList, cycBody, and_true, true_and]
    exact ⟨termGood_rune _ _ _, termGood_rune _ _ _⟩

/-- the evaluation of the model on this grammar.  (`decide` cannot be used here: the second call of `P` at
    one position is a cache look-up whose stored context is `Filter(cp)` with `cp` an `IntSet.Union`, and
    `cpUnion` is defined by well-founded recursion, which kernel evaluation does not unfold; the
    evaluation is done by `simp` with the defining equations instead.) -/
theorem cyc_eval : (run cycCfg 23 (.ref 0) [] 1 {}).map (fun r => r.1.res.alts.map Node.rpos) = some [4, 3, 4] := by
  simp [run, cycCfg, cycBody, anyLoop, seqParse, seqAlts, cacheGet, cacheSave, cpUnion, Ctx.get, Ctx.inc, Ctx.filter,
    appendNode, nlAppend, nlAppend1, Terminal.parse, readRune, G.shape, handleResult, St.logEv, St.regCall, St.setError,
    altErr, pickErr, remaining, File.len, File.pos, Facts.curtailSlack, Res.isNil, Res.alts, nf, Node.rpos, Node.isEmptyAt,
    seqTok, eofTok, Node.token, Utf8.encodeRune, Node.pos]

/-- `P` on "abb": "ab" (end 3) and "abb" (end 4, twice: through `P` and through `P?`) -/
theorem cyc_ends : ∀ e, (∃ x, Derives cycCfg (.ref 0) 1 x ∧ x.rpos = e) ↔ e ∈ [4, 3, 4] := by
  intro e
  obtain ⟨o, st', hrun, hl⟩ := ends_of_eval (cfg := cycCfg) (fuel := 23) (g := .ref 0) (pos := 1) (l := [4, 3, 4]) cyc_eval
  rw [← hl]
  exact c01_ends_exact cycCfg (fun _ => cycBody) cyc_scope (.ref 0) (nv_root _ _) 23 1 ⟨by decide, by decide⟩ o st' hrun e


/-! ### a remark on `parsley.Parse`
    The theorems above are about `p.Parse(…)` (`run`).  `parsley.Parse` discards a result that comes
    together with an error (`if err != nil { return nil, … }`), and `Optional` hands its operand's error
    through next to the EMPTY alternative — the same family as known finding D9 (`Name`/`ReturnSingle`
    over `Optional`).  So a bare `Optional` at the ROOT of `parsley.Parse` loses its empty derivation;
    inside `Any`/`SeqOf`, and under `Sentence`, the error is dropped as soon as there is a result. -/

def optCfg : Cfg :=
  { env := [], file := { name := "f", data := [98], offset := 1 }, fileSet := {},
    params := { floatOk := fun _ => true, durErr := fun _ => none, regexp := fun _ _ => none } }

/-- `Optional("a")` on "b": `run` returns the empty alternative (with an error next to it) … -/
example : (run optCfg 5 (.optional (.term (.rune 97 [34, 97, 34]))) [] 1 {}).map
    (fun r => (r.1.res.alts.map Node.rpos, r.1.err.isSome)) = some ([1], true) := by decide
/-- … which `parsley.Parse` turns into a failure, although `Optional("a")` derives the empty tree -/
example : (parse optCfg 5 (.optional (.term (.rune 97 [34, 97, 34])))).map
    (fun p => (p.res.alts.map Node.rpos, p.err.isSome)) = some ([], true) := by decide
example : Derives optCfg (.optional (.term (.rune 97 [34, 97, 34]))) 1 (.empty 1) := .optNone

end PV
