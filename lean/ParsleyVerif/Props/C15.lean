/-
  C15 — IntSet and IntMap are persistent: correct values, never mutated in place.

  Property theorems only.  Model: ParsleyVerif/Model/Data.lean (slice heap + map heap, statement by
  statement transcription of data/intset.go and data/intmap.go); specification:
  ParsleyVerif/Spec/SetSpec.lean (strictly ascending lists / key-sorted association lists, each value
  computed once, purely, when created).
-/
import ParsleyVerif.Proofs.DataInv
import ParsleyVerif.Generated.Facts
namespace PV.Data

theorem runOps_refines (grow : Nat → Nat) (ops : List Op) :
    ∀ (st : St) (sp : List AVal) (outs : List Out), Inv st sp →
      Inv (ops.foldl (fun (p : St × List Out) op => let (st', o) := step grow p.1 op; (st', p.2 ++ [o])) (st, outs)).1
          (ops.foldl (fun (p : List AVal × List Out) op => let (pool', o) := specStep p.1 op; (pool', p.2 ++ [o])) (sp, outs)).1 ∧
      (ops.foldl (fun (p : St × List Out) op => let (st', o) := step grow p.1 op; (st', p.2 ++ [o])) (st, outs)).2 =
      (ops.foldl (fun (p : List AVal × List Out) op => let (pool', o) := specStep p.1 op; (pool', p.2 ++ [o])) (sp, outs)).2 := by
  induction ops with
  | nil => intro st sp outs inv; exact ⟨inv, rfl⟩
  | cons op ops ih =>
    intro st sp outs inv
    obtain ⟨i1, i2⟩ := step_refines grow st sp inv op
    rw [List.foldl_cons, List.foldl_cons]
    have e1 : (let (st', o) := step grow st op; (st', outs ++ [o])) = ((step grow st op).1, outs ++ [(step grow st op).2]) := rfl
    have e2 : (let (pool', o) := specStep sp op; (pool', outs ++ [o])) = ((specStep sp op).1, outs ++ [(specStep sp op).2]) := rfl
    rw [e1, e2, i2]
    exact ih _ _ _ i1

/-- **C15 (refinement, every history, every growth policy).**  After any sequence of operations,
    applied to any previously produced values, every value in the pool — read in the FINAL heap —
    is exactly the value the plain set/map specification computed when it was created, and every
    operation returned what the specification returns.  Equality with the final heap for every
    earlier value is persistence: no operation ever changed a value obtained earlier. -/
theorem c15_refine (grow : Nat → Nat) (ops : List Op) :
    (runOps grow ops).1.pool.map (absVal (runOps grow ops).1) = (specRun ops).1 ∧
    (runOps grow ops).2 = (specRun ops).2 := by
  obtain ⟨inv, ho⟩ := runOps_refines grow ops {} [] [] Inv.init
  exact ⟨inv.abs, ho⟩

/-- the growth policy of `append` is unobservable -/
theorem c15_grow_irrelevant (g1 g2 : Nat → Nat) (ops : List Op) :
    (runOps g1 ops).1.pool.map (absVal (runOps g1 ops).1) = (runOps g2 ops).1.pool.map (absVal (runOps g2 ops).1) ∧
    (runOps g1 ops).2 = (runOps g2 ops).2 := by
  rw [(c15_refine g1 ops).1, (c15_refine g2 ops).1, (c15_refine g1 ops).2, (c15_refine g2 ops).2]
  exact ⟨rfl, rfl⟩

/-- **C15 (order).**  Every set in the pool iterates in strictly ascending order (hence without
    duplicates) and every map has distinct keys, in every reachable state. -/
theorem c15_sorted (grow : Nat → Nat) (ops : List Op) (i : Nat) :
    (∀ s, (runOps grow ops).1.pool[i]? = some (Val.set s) → (view (runOps grow ops).1.heap s).Pairwise (· < ·)) ∧
    (∀ m, (runOps grow ops).1.pool[i]? = some (Val.map m) →
        ((mobj (runOps grow ops).1.maps m).map (·.1)).Pairwise (· < ·)) := by
  obtain ⟨inv, _⟩ := runOps_refines grow ops {} [] [] Inv.init
  exact ⟨fun s h => (inv.setwf i s h).2, fun m h => (inv.mapwf i m h).2⟩

/-- the specification really is the plain set model: membership laws (with `c15_sorted` they pin the value down) -/
theorem c15_spec_membership (l a b : List Int) (v x : Int) (ha : a.Pairwise (· < ·)) (hb : b.Pairwise (· < ·)) :
    (x ∈ sInsert l v ↔ x ∈ l ∨ x = v) ∧ (x ∈ sUnion a b ↔ x ∈ a ∨ x ∈ b) :=
  ⟨mem_sInsert l v x, (sMerge_sorted a b ha hb).2 x⟩

/-- the model can express the defect: with the pinned `Insert` (`i2 := i; i2.insertValue(val)`) an
    earlier value changes (D7: NewIntSet(1,1,3); Insert(2)) — so the theorems above are not artefacts
    of a model without aliasing. -/
theorem c15_pinned_insert_mutates :
    let ops := [Op.newSet [1, 1, 3], Op.insert 0 2]
    let st := (ops.foldl (fun (p : St × List Out) op => let (st', o) := stepPinned (fun c => 2 * c + 1) p.1 op; (st', p.2 ++ [o])) (({} : St), [])).1
    st.pool.map (absVal st) = [AVal.set [1, 2], AVal.set [1, 2, 3]] := by
  decide

/-- non-vacuity: a concrete history with shared values, and what it evaluates to -/
example :
    let ops := [Op.newSet [1, 1, 3], Op.insert 0 2, Op.union 0 1, Op.newMap [(1, 2)], Op.inc 3 1, Op.inc 3 5, Op.filter 5 0]
    (runOps (fun c => 2 * c + 1) ops).1.pool.map (absVal (runOps (fun c => 2 * c + 1) ops).1) =
      [.set [1, 3], .set [1, 2, 3], .set [1, 2, 3], .map [(1, 2)], .map [(1, 3)], .map [(1, 2), (5, 1)], .map [(1, 2)]] := by
  decide

/- (the body texts of IntSet.Insert / insertValue / Union and IntMap.Inc / Filter / clone, formerly pinned here, are subsumed: the
   whole data package is translated from the source on every run and proved equal to the model - Props/C15P.lean, built and
   audited by this property's check) -/

end PV.Data
