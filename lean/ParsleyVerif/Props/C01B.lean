/-
  C01, third part — the NON-MONOTONE operators:

    "… with Choice, Many, SepBy, SeqTry and SeqFirstOrAll following their documented first-match /
     longest-path rules."

  Props/C01.lean proves that every returned tree is a derivation of the MONOTONE reading `Derives` (Choice
  read as Any, repetitions allowed to stop anywhere) and Props/C01C.lean proves completeness for the monotone
  fragment.  Here:

  Specification (Spec/BigStep.lean): `Big cfg g pos R e` — parser `g` at `pos` yields EXACTLY the ordered
  result `R` (`e`: an error is returned next to it) — a cache-free, context-free, fuel-free big-step
  relation written from the operators' documentation: Any merges all alternatives in order (AppendNode),
  Choice takes the first alternative with a result, the Sequence family emits a chain of element results
  only where it cannot be extended and its length is accepted (`BigSeq`), Name / Single drop a result that
  comes with an error (D9).

  Theorems:
  * `c01_bigstep`            every run from the empty context and state in which nothing was curtailed computes
                             `Big` — for the whole combinator set (LeftTrim in mode WsSpacesNl);
    `c01_bigstep_from`       the same from any left-recursion context and any cache that satisfies the
                             invariant "every entry is the exact result of its parser at its position",
                             which is preserved;
    `c01_bigstep_memofree`   without Memoize nothing is ever curtailed: the theorem holds of EVERY run;
  * `big_functional`         `Big` is deterministic, so (`c01_bigstep_exact`) the run's result is THE meaning;
  * `c01_big_derives`        every exact result is a derivation of the monotone reading;
  * the documented rules, as statements about `Big`:
    `c01_choice_first_match` / `c01_choice_first_match_intro` / `c01_choice_none`,
    `c01_seq_longest` (every Sequence-family parser), `c01_many_longest`, `c01_seqtry_rule`,
    `c01_seqfirstorall_rule`, `c01_sepby_odd`, `c01_seqof_full`, `c01_any_two`, `c01_name_drops_optional` (D9).

  SCOPE ("stratified").  `Big` is an inductive definition — a least fixpoint.  A parser that reaches itself
  at the same position without consuming input (left recursion, cyclic rules) has no `Big` result at all, and
  every run of such a parser curtails; its results are produced by the curtailment iteration, which is a
  fixpoint construction that the non-monotone operators do not have in general.  So the exact theorem is
  about runs without curtailment (hypothesis `NoCurtail st'.log`, decidable on every run, implied by the
  absence of Memoize — `c01_bigstep_memofree` — and by left-recursion-freeness, C03); for left-recursive
  grammars the monotone theorems of C01 / C01C speak about the monotone part.
-/
import ParsleyVerif.Proofs.BigStepFun
import ParsleyVerif.Proofs.BigStepRun
import ParsleyVerif.Proofs.BigStepRules
import ParsleyVerif.Proofs.BigStepNoMemo
namespace PV
open PV.Text

/-! ### the implementation computes the big-step semantics -/

/-- **C01, exact semantics, general form**: from ANY left-recursion context and any state whose cache
    holds exact results, a run in which nothing was curtailed returns exactly the big-step result, with an
    error iff the semantics says so, and leaves a cache of exact results. -/
theorem c01_bigstep_from (cfg : Cfg) (hgh : cfg.ghost = true) (bodyOf : Nat → G)
    (henv : ∀ g' ∈ cfg.env, Big.InScope bodyOf g') (g : G) (hg : Big.InScope bodyOf g)
    (fuel : Nat) (ctx : Ctx) (pos : Nat) (st : St) (o : Out) (st' : St)
    (hst : Big.CacheBig cfg bodyOf st) (h : run cfg fuel g ctx pos st = some (o, st')) (hnc : NoCurtail st'.log) :
    Big cfg g pos o.res o.err.isSome ∧ Big.CacheBig cfg bodyOf st' :=
  Big.run_big cfg hgh bodyOf henv fuel g ctx pos st o st' hg h hnc hst

/-- **C01, exact semantics**: a run from the empty context and the empty state in which nothing was
    curtailed computes `Big`. -/
theorem c01_bigstep (cfg : Cfg) (hgh : cfg.ghost = true) (bodyOf : Nat → G)
    (henv : ∀ g' ∈ cfg.env, Big.InScope bodyOf g') (g : G) (hg : Big.InScope bodyOf g)
    (fuel : Nat) (pos : Nat) (o : Out) (st' : St)
    (h : run cfg fuel g [] pos {} = some (o, st')) (hnc : NoCurtail st'.log) :
    Big cfg g pos o.res o.err.isSome :=
  (c01_bigstep_from cfg hgh bodyOf henv g hg fuel [] pos {} o st' (by intro e he; cases he) h hnc).1

/-- the semantics is deterministic -/
theorem big_functional {cfg : Cfg} {g : G} {pos : Nat} {R₁ R₂ : Res} {e₁ e₂ : Bool}
    (h₁ : Big cfg g pos R₁ e₁) (h₂ : Big cfg g pos R₂ e₂) : R₁ = R₂ ∧ e₁ = e₂ :=
  big_fun h₁ h₂

/-- … so what an uncurtailed run returns is THE meaning of the parser at that position -/
theorem c01_bigstep_exact (cfg : Cfg) (hgh : cfg.ghost = true) (bodyOf : Nat → G)
    (henv : ∀ g' ∈ cfg.env, Big.InScope bodyOf g') (g : G) (hg : Big.InScope bodyOf g)
    (fuel : Nat) (pos : Nat) (o : Out) (st' : St)
    (h : run cfg fuel g [] pos {} = some (o, st')) (hnc : NoCurtail st'.log) (R : Res) (e : Bool) :
    Big cfg g pos R e ↔ (R = o.res ∧ e = o.err.isSome) := by
  have hb := c01_bigstep cfg hgh bodyOf henv g hg fuel pos o st' h hnc
  constructor
  · intro h2; exact big_functional h2 hb
  · rintro ⟨rfl, rfl⟩; exact hb

/-- two uncurtailed runs of the same parser at the same position — whatever their fuel, left-recursion
    context and (exact) cache — return the same result -/
theorem c01_bigstep_agree (cfg : Cfg) (hgh : cfg.ghost = true) (bodyOf : Nat → G)
    (henv : ∀ g' ∈ cfg.env, Big.InScope bodyOf g') (g : G) (hg : Big.InScope bodyOf g) (pos : Nat)
    (f₁ f₂ : Nat) (c₁ c₂ : Ctx) (s₁ s₂ : St) (o₁ o₂ : Out) (s₁' s₂' : St)
    (hs₁ : Big.CacheBig cfg bodyOf s₁) (hs₂ : Big.CacheBig cfg bodyOf s₂)
    (h₁ : run cfg f₁ g c₁ pos s₁ = some (o₁, s₁')) (h₂ : run cfg f₂ g c₂ pos s₂ = some (o₂, s₂'))
    (n₁ : NoCurtail s₁'.log) (n₂ : NoCurtail s₂'.log) : o₁.res = o₂.res ∧ o₁.err.isSome = o₂.err.isSome :=
  big_functional (c01_bigstep_from cfg hgh bodyOf henv g hg f₁ c₁ pos s₁ o₁ s₁' hs₁ h₁ n₁).1
    (c01_bigstep_from cfg hgh bodyOf henv g hg f₂ c₂ pos s₂ o₂ s₂' hs₂ h₂ n₂).1

/-- a grammar without Memoize is in scope if it uses LeftTrim only in mode WsSpacesNl -/
def Big.PlainLocal : G → Prop
  | .memo _ _ => False
  | .ltrim _ m => m = .spacesNl
  | _ => True

mutual
theorem Big.all_imp {P Q : G → Prop} (hpq : ∀ g, P g → Q g) : ∀ g : G, g.All P → g.All Q
  | .term _, h => by simp only [G.All] at h ⊢; exact hpq _ h
  | .empty, h => by simp only [G.All] at h ⊢; exact hpq _ h
  | .eof, h => by simp only [G.All] at h ⊢; exact hpq _ h
  | .ref _, h => by simp only [G.All] at h ⊢; exact hpq _ h
  | .memo _ g, h => by simp only [G.All] at h ⊢; exact ⟨hpq _ h.1, Big.all_imp hpq g h.2⟩
  | .any gs, h => by simp only [G.All] at h ⊢; exact ⟨hpq _ h.1, Big.allList_imp hpq gs h.2⟩
  | .choice gs, h => by simp only [G.All] at h ⊢; exact ⟨hpq _ h.1, Big.allList_imp hpq gs h.2⟩
  | .seq _ gs _, h => by simp only [G.All] at h ⊢; exact ⟨hpq _ h.1, Big.allList_imp hpq gs h.2⟩
  | .many g _ _, h => by simp only [G.All] at h ⊢; exact ⟨hpq _ h.1, Big.all_imp hpq g h.2⟩
  | .sepBy v s _ _, h => by
    simp only [G.All] at h ⊢; exact ⟨hpq _ h.1, Big.all_imp hpq v h.2.1, Big.all_imp hpq s h.2.2⟩
  | .optional g, h => by simp only [G.All] at h ⊢; exact ⟨hpq _ h.1, Big.all_imp hpq g h.2⟩
  | .name g _, h => by simp only [G.All] at h ⊢; exact ⟨hpq _ h.1, Big.all_imp hpq g h.2⟩
  | .ltrim g _, h => by simp only [G.All] at h ⊢; exact ⟨hpq _ h.1, Big.all_imp hpq g h.2⟩
  | .rtrim g _, h => by simp only [G.All] at h ⊢; exact ⟨hpq _ h.1, Big.all_imp hpq g h.2⟩
  | .single g, h => by simp only [G.All] at h ⊢; exact ⟨hpq _ h.1, Big.all_imp hpq g h.2⟩
  | .suppress g, h => by simp only [G.All] at h ⊢; exact ⟨hpq _ h.1, Big.all_imp hpq g h.2⟩
theorem Big.allList_imp {P Q : G → Prop} (hpq : ∀ g, P g → Q g) : ∀ gs : List G, AllList P gs → AllList Q gs
  | [], _ => by simp [AllList]
  | g :: gs, h => by
    simp only [AllList] at h ⊢
    exact ⟨Big.all_imp hpq g h.1, Big.allList_imp hpq gs h.2⟩
end

/-- a grammar without Memoize (LeftTrim only in mode WsSpacesNl) -/
def Big.Plain (g : G) : Prop := g.All Big.PlainLocal

theorem Big.Plain.inScope {g : G} (h : Big.Plain g) (bodyOf : Nat → G) : Big.InScope bodyOf g :=
  Big.all_imp (fun g hg => by cases g <;> simp_all [Big.PlainLocal, Big.OKLocal]) g h

theorem Big.Plain.memoFree {g : G} (h : Big.Plain g) : Big.MemoFree g :=
  Big.all_imp (fun g hg => by cases g <;> simp_all [Big.PlainLocal, Big.NoMemoLocal]) g h

/-- **without Memoize the theorem is unconditional**: nothing is ever curtailed, so EVERY run of a
    Memoize-free grammar (from a state whose log has no curtail event, e.g. the empty one; any left-recursion
    context) computes the big-step semantics -/
theorem c01_bigstep_memofree (cfg : Cfg) (hgh : cfg.ghost = true) (henv : ∀ g' ∈ cfg.env, Big.Plain g')
    (g : G) (hg : Big.Plain g) (fuel : Nat) (ctx : Ctx) (pos : Nat) (o : Out) (st' : St)
    (h : run cfg fuel g ctx pos {} = some (o, st')) : Big cfg g pos o.res o.err.isSome := by
  have hnc : NoCurtail st'.log :=
    Big.run_nocurtail cfg (fun g' hg' => (henv g' hg').memoFree) fuel g ctx pos {} o st' hg.memoFree h
      (by intro i p hm; cases hm)
  exact (c01_bigstep_from cfg hgh (fun _ => .empty) (fun g' hg' => (henv g' hg').inScope _) g (hg.inScope _)
    fuel ctx pos {} o st' (by intro e he; cases he) h hnc).1

/-! ### exact results are derivations of the monotone reading -/

theorem c01_big_derives (cfg : Cfg) (g : G) (pos : Nat) (R : Res) (e : Bool) (h : Big cfg g pos R e) :
    ∀ x ∈ R.alts, Derives cfg g pos x :=
  Big.big_derives h

/-! ### Any: all alternatives, in order -/

theorem c01_any_two (cfg : Cfg) (a b : G) (pos : Nat) (R : Res) (e : Bool) :
    Big cfg (.any [a, b]) pos R e ↔
      ∃ Ra ea Rb eb, Big cfg a pos Ra ea ∧ Big cfg b pos Rb eb ∧ R = appendNode Ra Rb ∧
        e = (R.isNil && (ea || eb)) := by
  constructor
  · intro h
    cases h with
    | any h he =>
      cases h with
      | cons ha ht =>
        cases ht with
        | cons hb ht2 =>
          cases ht2
          exact ⟨_, _, _, _, ha, hb, by simp [appendNode], by rw [he]; simp⟩
    | seqfam hs _ _ _ => simp [G.shape] at hs
  · rintro ⟨Ra, ea, Rb, eb, ha, hb, rfl, rfl⟩
    refine .any (e := ea || (eb || false)) (.cons ha (.cons hb ?_)) (by simp)
    have : appendNode (appendNode .nil Ra) Rb = appendNode Ra Rb := by simp [appendNode]
    rw [this]
    exact .nil

/-! ### Choice: first match -/

namespace Big

theorem choice_inv {cfg : Cfg} : ∀ {gs : List G} {pos : Nat} {R : Res} {e : Bool}, BigChoice cfg gs pos R e →
    (R.isNil = false → ∃ gs₁ g gs₂ e0, gs = gs₁ ++ g :: gs₂ ∧ (∀ g' ∈ gs₁, ∃ e', Big cfg g' pos .nil e') ∧
      Big cfg g pos R e0 ∧ e = false) ∧
    (R.isNil = true → ∀ g ∈ gs, ∃ e', Big cfg g pos .nil e')
  | _, _, _, _, .nil => ⟨fun h => by simp [Res.isNil] at h, fun _ g hg => by cases hg⟩
  | _, _, _, _, .hit (g := g) (gs := gs) (e := e) h hn =>
    ⟨fun _ => ⟨[], g, gs, e, rfl, (fun _ hg => by cases hg), h, rfl⟩, fun h1 => by rw [hn] at h1; cases h1⟩
  | _, _, _, _, .skip (g := g) (e1 := e1) h ht => by
    obtain ⟨i1, i2⟩ := choice_inv ht
    refine ⟨fun hn => ?_, fun hn g' hg' => ?_⟩
    · obtain ⟨gs₁, g0, gs₂, e0, rfl, hall, hb, he⟩ := i1 hn
      refine ⟨g :: gs₁, g0, gs₂, e0, rfl, ?_, hb, by simp [hn, he]⟩
      intro g' hg'
      cases hg' with
      | head => exact ⟨e1, h⟩
      | tail _ hm => exact hall g' hm
    · cases hg' with
      | head => exact ⟨e1, h⟩
      | tail _ hm => exact i2 hn g' hm

theorem choice_intro {cfg : Cfg} {pos : Nat} {g : G} {gs₂ : List G} {R : Res} {e0 : Bool}
    (hb : Big cfg g pos R e0) (hn : R.isNil = false) :
    ∀ gs₁ : List G, (∀ g' ∈ gs₁, ∃ e', Big cfg g' pos .nil e') → BigChoice cfg (gs₁ ++ g :: gs₂) pos R false
  | [], _ => .hit hb hn
  | g1 :: gs₁, hall => by
    obtain ⟨e1, h1⟩ := hall g1 (List.mem_cons_self ..)
    have := BigChoice.skip h1 (choice_intro (gs₂ := gs₂) hb hn gs₁ (fun g' hg' => hall g' (List.mem_cons_of_mem _ hg')))
    simpa [hn] using this

end Big

/-- **Choice returns the result of the first alternative that has one, and nothing of the later ones**:
    a non-nil result of `Choice(gs)` is the exact result of some alternative `g`, every alternative BEFORE `g`
    yields nothing, and the alternatives after `g` play no role. -/
theorem c01_choice_first_match (cfg : Cfg) (gs : List G) (pos : Nat) (R : Res) (e : Bool)
    (h : Big cfg (.choice gs) pos R e) (hn : R.isNil = false) :
    ∃ gs₁ g gs₂ e0, gs = gs₁ ++ g :: gs₂ ∧ (∀ g' ∈ gs₁, ∃ e', Big cfg g' pos .nil e') ∧ Big cfg g pos R e0 ∧
      e = false := by
  cases h with
  | choice h => exact (Big.choice_inv h).1 hn
  | seqfam hs _ _ _ => simp [G.shape] at hs

/-- … conversely: if the alternatives before `g` yield nothing and `g` yields `R ≠ nil`, then `Choice` yields
    exactly `R` — WHATEVER the later alternatives `gs₂` are (they need not even have a meaning) -/
theorem c01_choice_first_match_intro (cfg : Cfg) (gs₁ : List G) (g : G) (gs₂ : List G) (pos : Nat) (R : Res) (e0 : Bool)
    (hpre : ∀ g' ∈ gs₁, ∃ e', Big cfg g' pos .nil e') (hb : Big cfg g pos R e0) (hn : R.isNil = false) :
    Big cfg (.choice (gs₁ ++ g :: gs₂)) pos R false :=
  .choice (Big.choice_intro hb hn gs₁ hpre)

/-- Choice yields nothing only if every alternative yields nothing -/
theorem c01_choice_none (cfg : Cfg) (gs : List G) (pos : Nat) (e : Bool) (h : Big cfg (.choice gs) pos .nil e) :
    ∀ g ∈ gs, ∃ e', Big cfg g pos .nil e' := by
  cases h with
  | choice h => exact (Big.choice_inv h).2 rfl
  | seqfam hs _ _ _ => simp [G.shape] at hs

/-! ### the Sequence family: longest path -/

/-- **the longest-path rule, for every Sequence-family parser** (SeqOf, SeqTry, SeqFirstOrAll, Many, SepBy):
    every returned tree is the tree of a chain of exact element results (`Big.Chain`: each node is an
    alternative of the exact result of its element where the previous node ended) whose length the length
    check accepts and which CANNOT BE EXTENDED (`Big.Blocked`: the next element does not exist or yields
    nothing at the end of the chain).  No proper prefix of an extensible chain is ever returned. -/
theorem c01_seq_longest (cfg : Cfg) (g : G) (sh : SeqShape) (hs : g.shape = some sh) (pos : Nat) (R : Res) (e : Bool)
    (h : Big cfg g pos R e) :
    ∀ x ∈ R.alts, ∃ chain, x = handleResult sh (endOf pos chain) chain ∧ Big.Chain cfg sh 0 pos chain ∧
      sh.lenCheck chain.length = true ∧ Big.Blocked cfg sh chain.length (endOf pos chain) :=
  Big.seqfam_maximal h hs

/-- **Many never returns a proper prefix of a chain it could extend**: at the end of every returned chain
    the item yields nothing (and the chain is non-empty unless the empty match is allowed) -/
theorem c01_many_longest (cfg : Cfg) (g : G) (ae : Bool) (o : SeqOpts) (sh : SeqShape)
    (hs : (G.many g ae o).shape = some sh) (pos : Nat) (R : Res) (e : Bool) (h : Big cfg (.many g ae o) pos R e) :
    ∀ x ∈ R.alts, ∃ chain, x = handleResult sh (endOf pos chain) chain ∧ Big.Chain cfg sh 0 pos chain ∧
      (ae = true ∨ chain ≠ []) ∧ ∃ e', Big cfg g (endOf pos chain) .nil e' := by
  intro x hx
  obtain ⟨chain, h1, h2, h3, h4⟩ := c01_seq_longest cfg _ sh hs pos R e h x hx
  simp only [G.shape, Option.some.injEq] at hs
  subst hs
  refine ⟨chain, h1, h2, ?_, ?_⟩
  · simp only [Bool.or_eq_true, decide_eq_true_eq] at h3
    cases h3 with
    | inl h => exact .inl h
    | inr h => exact .inr (by intro hc; rw [hc] at h; simp at h)
  · cases h4 with
    | inl h => simp at h
    | inr h =>
      obtain ⟨g', e', hl, hb⟩ := h
      simp only [Option.some.injEq] at hl
      subst hl
      exact ⟨e', hb⟩

/-- **SeqTry**: every returned tree is a chain of 1 … l element results that stops only where it must: at
    the last element, or where the next element yields nothing -/
theorem c01_seqtry_rule (cfg : Cfg) (gs : List G) (o : SeqOpts) (sh : SeqShape)
    (hs : (G.seq .seqTry gs o).shape = some sh) (pos : Nat) (R : Res) (e : Bool)
    (h : Big cfg (.seq .seqTry gs o) pos R e) :
    ∀ x ∈ R.alts, ∃ chain, x = handleResult sh (endOf pos chain) chain ∧ Big.Chain cfg sh 0 pos chain ∧
      0 < chain.length ∧ chain.length ≤ gs.length ∧
      (chain.length = gs.length ∨ ∃ g' e', gs[chain.length]? = some g' ∧ Big cfg g' (endOf pos chain) .nil e') := by
  intro x hx
  obtain ⟨chain, h1, h2, h3, h4⟩ := c01_seq_longest cfg _ sh hs pos R e h x hx
  simp only [G.shape, Option.some.injEq] at hs
  subst hs
  simp only [Bool.and_eq_true, decide_eq_true_eq] at h3
  refine ⟨chain, h1, h2, h3.1, h3.2, ?_⟩
  cases h4 with
  | inl h =>
    simp only [List.getElem?_eq_none_iff] at h
    exact .inl (by omega)
  | inr h => exact .inr h

/-- **SeqFirstOrAll**: only the first element alone or all elements — and the first alone only if the
    second yields nothing after it (never when the chain could be extended) -/
theorem c01_seqfirstorall_rule (cfg : Cfg) (gs : List G) (o : SeqOpts) (sh : SeqShape)
    (hs : (G.seq .seqFirstOrAll gs o).shape = some sh) (pos : Nat) (R : Res) (e : Bool)
    (h : Big cfg (.seq .seqFirstOrAll gs o) pos R e) :
    ∀ x ∈ R.alts, ∃ chain, x = handleResult sh (endOf pos chain) chain ∧ Big.Chain cfg sh 0 pos chain ∧
      (chain.length = 1 ∨ chain.length = gs.length) ∧
      (gs.length ≤ chain.length ∨ ∃ g' e', gs[chain.length]? = some g' ∧ Big cfg g' (endOf pos chain) .nil e') := by
  intro x hx
  obtain ⟨chain, h1, h2, h3, h4⟩ := c01_seq_longest cfg _ sh hs pos R e h x hx
  simp only [G.shape, Option.some.injEq] at hs
  subst hs
  simp only [Bool.or_eq_true, beq_iff_eq] at h3
  refine ⟨chain, h1, h2, h3, ?_⟩
  cases h4 with
  | inl h =>
    simp only [List.getElem?_eq_none_iff] at h
    exact .inl h
  | inr h => exact .inr h

/-- **SeqOf**: only full chains -/
theorem c01_seqof_full (cfg : Cfg) (gs : List G) (o : SeqOpts) (sh : SeqShape)
    (hs : (G.seq .seqOf gs o).shape = some sh) (pos : Nat) (R : Res) (e : Bool)
    (h : Big cfg (.seq .seqOf gs o) pos R e) :
    ∀ x ∈ R.alts, ∃ chain, x = handleResult sh (endOf pos chain) chain ∧ Big.Chain cfg sh 0 pos chain ∧
      chain.length = gs.length := by
  intro x hx
  obtain ⟨chain, h1, h2, h3, _⟩ := c01_seq_longest cfg _ sh hs pos R e h x hx
  simp only [G.shape, Option.some.injEq] at hs
  subst hs
  exact ⟨chain, h1, h2, by simpa using h3⟩

/-- **SepBy never returns a chain that ends with a separator** (odd lengths only, or the empty match), and
    never one that could be extended: after a returned chain `v s v … v` the SEPARATOR yields nothing.
    (Consequence of the two together: on an input with a dangling separator, `v s v s`, the chain `v s v` is
    not returned — it can be extended — and `v s v s` is not returned either — even length: SepBy yields
    nothing there; see `Big.ex_sepBy_dangling`.) -/
theorem c01_sepby_odd (cfg : Cfg) (v s : G) (ae : Bool) (o : SeqOpts) (sh : SeqShape)
    (hs : (G.sepBy v s ae o).shape = some sh) (pos : Nat) (R : Res) (e : Bool)
    (h : Big cfg (.sepBy v s ae o) pos R e) :
    ∀ x ∈ R.alts, ∃ chain, x = handleResult sh (endOf pos chain) chain ∧ Big.Chain cfg sh 0 pos chain ∧
      ((chain = [] ∧ ae = true ∧ ∃ e', Big cfg v pos .nil e') ∨
       (chain.length % 2 = 1 ∧ ∃ e', Big cfg s (endOf pos chain) .nil e')) := by
  intro x hx
  obtain ⟨chain, h1, h2, h3, h4⟩ := c01_seq_longest cfg _ sh hs pos R e h x hx
  simp only [G.shape, Option.some.injEq] at hs
  subst hs
  refine ⟨chain, h1, h2, ?_⟩
  simp only [Bool.or_eq_true, Bool.and_eq_true, beq_iff_eq] at h3
  cases h4 with
  | inl h => simp only at h; split at h <;> cases h
  | inr h =>
    obtain ⟨g', e', hl, hb⟩ := h
    simp only at hl
    cases h3 with
    | inl h3 =>
      have hc : chain = [] := List.length_eq_zero_iff.mp h3.1
      subst hc
      simp only [List.length_nil, Nat.zero_mod, beq_self_eq_true, ↓reduceIte, Option.some.injEq] at hl
      subst hl
      exact .inl ⟨rfl, h3.2, e', by simpa [endOf] using hb⟩
    | inr h3 =>
      have : (chain.length % 2 == 0) = false := by simp [h3]
      simp only [this, Bool.false_eq_true, ↓reduceIte, Option.some.injEq] at hl
      subst hl
      exact .inr ⟨h3, e', hb⟩

/-! ### Name over Optional (known finding D9), as the semantics sees it -/

/-- when `g` fails with an error, `Optional(g)` yields the empty match NEXT TO that error, and `Name` drops
    it: the exact result of `Name(Optional(g))` is nothing, although its monotone reading derives EMPTY -/
theorem c01_name_drops_optional (cfg : Cfg) (g : G) (nm : Bytes) (pos : Nat) (h : Big cfg g pos .nil true) :
    Big cfg (.name (.optional g) nm) pos .nil true ∧ Derives cfg (.name (.optional g) nm) pos (.empty pos) :=
  ⟨.name (.optional h) rfl rfl, .name .optNone⟩

/-! ### non-vacuity: the rules on concrete grammars

  Each example is obtained TWICE where it is short: from one evaluation of the model through the theorem
  (`Big.of_eval` = `c01_bigstep`), and/or by hand from the rules.  The file starts at offset 1, so "ab"
  occupies positions 1 and 2 and ends at 3.  All of these were replayed on the Go library. -/

namespace Big

def exT (c : Nat) : G := .term (.rune c [34, c, 34])
def exCfg (data : List Nat) (env : List G := []) : Cfg :=
  { env := env, file := { name := "f", data := data, offset := 1 }, fileSet := {},
    params := { floatOk := fun _ => true, durErr := fun _ => none, regexp := fun _ _ => none } }

/-- what an evaluation of the model shows: the result, the error bit, and that nothing was curtailed -/
def exEval (cfg : Cfg) (fuel : Nat) (g : G) (pos : Nat) : Option (Res × Bool × Bool) :=
  (run cfg fuel g [] pos {}).map (fun r => (r.1.res, r.1.err.isSome, decide (NoCurtail r.2.log)))

/-- `c01_bigstep`, packaged for evaluations -/
theorem of_eval {cfg : Cfg} (hgh : cfg.ghost = true) (bodyOf : Nat → G) (henv : ∀ g' ∈ cfg.env, InScope bodyOf g')
    {g : G} (hg : InScope bodyOf g) {fuel pos : Nat} {R : Res} {e : Bool}
    (h : exEval cfg fuel g pos = some (R, e, true)) : Big cfg g pos R e := by
  unfold exEval at h
  cases hr : run cfg fuel g [] pos {} with
  | none => rw [hr] at h; cases h
  | some r =>
    obtain ⟨o, st'⟩ := r
    rw [hr] at h
    simp only [Option.map_some, Option.some.injEq, Prod.mk.injEq, decide_eq_true_eq] at h
    obtain ⟨rfl, rfl, hnc⟩ := h
    exact c01_bigstep cfg hgh bodyOf henv g hg fuel pos o st' hr hnc

def nA (p : Nat) : Node := .term [97] (.rune 97) p (p + 1)
def nB (p : Nat) : Node := .term [98] (.rune 98) p (p + 1)
def nC (p : Nat) : Node := .term [99] (.rune 99) p (p + 1)
def nComma (p : Nat) : Node := .term [44] (.rune 44) p (p + 1)

/-! #### Choice(a, a b) on "ab": only `a` — first match; Any returns both -/

def exAB : G := .seq .seqOf [exT 97, exT 98] {}

theorem ex_choice_first : Big (exCfg [97, 98]) (.choice [exT 97, exAB]) 1 (.one (nA 1)) false :=
  of_eval rfl (fun _ => .empty) (by intro g hg; cases hg)
    (by simp [InScope, G.All, AllList, OKLocal, exT, exAB]) (fuel := 10) (by rfl)

/-- the same by hand: the first alternative matches, the second is not consulted -/
theorem ex_choice_first_by_rules : Big (exCfg [97, 98]) (.choice [exT 97, exAB]) 1 (.one (nA 1)) false :=
  .choice (.hit (.termOk rfl) rfl)

/-- … while the longer match exists: Any returns both, in order -/
theorem ex_any_both : Big (exCfg [97, 98]) (.any [exT 97, exAB]) 1
    (.list [nA 1, .nt seqTok [nA 1, nB 2] 1 3 .none]) false :=
  of_eval rfl (fun _ => .empty) (by intro g hg; cases hg)
    (by simp [InScope, G.All, AllList, OKLocal, exT, exAB]) (fuel := 10) (by rfl)

/-- with the alternatives swapped Choice returns the longer one: the ORDER decides, not the length -/
theorem ex_choice_order : Big (exCfg [97, 98]) (.choice [exAB, exT 97]) 1
    (.one (.nt seqTok [nA 1, nB 2] 1 3 .none)) false :=
  of_eval rfl (fun _ => .empty) (by intro g hg; cases hg)
    (by simp [InScope, G.All, AllList, OKLocal, exT, exAB]) (fuel := 10) (by rfl)

/-! #### Many(a) on "aaa": only the full chain — no proper prefix -/

theorem ex_many_longest : Big (exCfg [97, 97, 97]) (.many (exT 97) true {}) 1
    (.one (.nt manyTok [nA 1, nA 2, nA 3] 1 4 .none)) false :=
  of_eval rfl (fun _ => .empty) (by intro g hg; cases hg)
    (by simp [InScope, G.All, OKLocal, exT]) (fuel := 12) (by rfl)

/-- and by `big_functional` no other result — in particular no shorter chain — is a meaning of Many(a) here -/
theorem ex_many_only (R : Res) (e : Bool) (h : Big (exCfg [97, 97, 97]) (.many (exT 97) true {}) 1 R e) :
    R.alts.map Node.rpos = [4] := by
  obtain ⟨rfl, _⟩ := big_functional h ex_many_longest
  rfl

/-! #### SepBy(a, ',') -/

/-- on "a,a;" the chain `a , a` (odd length; the separator fails after it) -/
theorem ex_sepBy : Big (exCfg [97, 44, 97, 59]) (.sepBy (exT 97) (exT 44) true {}) 1
    (.one (.nt sepByTok [nA 1, nComma 2, nA 3] 1 4 .none)) false :=
  of_eval rfl (fun _ => .empty) (by intro g hg; cases hg)
    (by simp [InScope, G.All, OKLocal, exT]) (fuel := 12) (by rfl)

/-- on "a,a," — a dangling separator — NOTHING: `a , a` can be extended by the comma, so it is not emitted
    (longest path), and `a , a ,` has even length.  SepBy does not "stop before the dangling comma". -/
theorem ex_sepBy_dangling : Big (exCfg [97, 44, 97, 44]) (.sepBy (exT 97) (exT 44) true {}) 1 .nil true :=
  of_eval rfl (fun _ => .empty) (by intro g hg; cases hg)
    (by simp [InScope, G.All, OKLocal, exT]) (fuel := 12) (by rfl)

/-! #### SeqFirstOrAll(a, b, c): length 1 or 3, and length 1 only if `b` fails -/

def exABC (k : SeqKind) : G := .seq k [exT 97, exT 98, exT 99] {}

theorem ex_firstOrAll_all : Big (exCfg [97, 98, 99]) (exABC .seqFirstOrAll) 1
    (.one (.nt seqTok [nA 1, nB 2, nC 3] 1 4 .none)) false :=
  of_eval rfl (fun _ => .empty) (by intro g hg; cases hg)
    (by simp [InScope, G.All, AllList, OKLocal, exT, exABC]) (fuel := 12) (by rfl)

theorem ex_firstOrAll_first : Big (exCfg [97, 120]) (exABC .seqFirstOrAll) 1
    (.one (.nt seqTok [nA 1] 1 2 .none)) false :=
  of_eval rfl (fun _ => .empty) (by intro g hg; cases hg)
    (by simp [InScope, G.All, AllList, OKLocal, exT, exABC]) (fuel := 12) (by rfl)

/-- FINDING (documentation vs code): on "abx" the first element matches and not all do, and the result is
    NOTHING — the chain `a b` is the longest path, its length 2 is rejected, and the shorter chain `a` is not
    emitted because it could be extended.  The doc comment of SeqFirstOrAll ("If it can't match all parsers,
    but it can match the first one it will return with the result of the first one") promises `a` here; the
    documentation of `Seq` ("lenCheck should return true if the longest possible match is valid"), from
    which `Big` is written, and the code agree with each other. -/
theorem ex_firstOrAll_neither : Big (exCfg [97, 98, 120]) (exABC .seqFirstOrAll) 1 .nil true :=
  of_eval rfl (fun _ => .empty) (by intro g hg; cases hg)
    (by simp [InScope, G.All, AllList, OKLocal, exT, exABC]) (fuel := 12) (by rfl)

/-- SeqTry on the same input returns `a b` — and only that, not `a` -/
theorem ex_seqTry : Big (exCfg [97, 98, 120]) (exABC .seqTry) 1
    (.one (.nt seqTok [nA 1, nB 2] 1 3 .none)) false :=
  of_eval rfl (fun _ => .empty) (by intro g hg; cases hg)
    (by simp [InScope, G.All, AllList, OKLocal, exT, exABC]) (fuel := 12) (by rfl)

/-! #### with Memoize: the second use of the rule at the same position is a cache hit -/

def exMemoEnv : List G := [.memo 0 (exT 97)]
def exMemoG : G := .any [.seq .seqOf [.ref 0, exT 98] {}, .seq .seqOf [.ref 0, exT 99] {}]

theorem ex_memo_hit : Big (exCfg [97, 99] exMemoEnv) exMemoG 1 (.one (.nt seqTok [nA 1, nC 2] 1 3 .none)) false :=
  of_eval rfl (fun _ => exT 97)
    (by intro g hg; simp only [exCfg, exMemoEnv, List.mem_singleton] at hg; subst hg
        simp [InScope, G.All, OKLocal, exT])
    (by simp [InScope, G.All, AllList, OKLocal, exT, exMemoG]) (fuel := 12) (by rfl)

/-- the log of that run: one body, one hit, no curtailment -/
example : (run (exCfg [97, 99] exMemoEnv) 12 exMemoG [] 1 {}).map (fun r => (bodyRuns r.2.log 0 1, decide (NoCurtail r.2.log)))
    = some (1, true) := by decide

/-! #### left recursion is outside `Big` — and outside the hypothesis: every such run curtails -/

def exLR : G := .seq .seqOf [.ref 0, exT 98] {}
def exLRBody : G := .any [exLR, exT 97]
/-- `P → P b | a` on "abb" (C01's example) -/
def exLRCfg : Cfg := exCfg [97, 98, 98] [.memo 0 exLRBody]

/-- the run curtails, so `c01_bigstep` does not speak about it (C01 / C01C do: three trees) … -/
example : (run exLRCfg 40 (.ref 0) [] 1 {}).map (fun r => (r.1.res.alts.map Node.rpos, decide (NoCurtail r.2.log)))
    = some ([4, 3, 2], false) := by decide

mutual
theorem ex_lr_big : ∀ {g : G} {pos : Nat} {R : Res} {e : Bool}, Big exLRCfg g pos R e →
    (g = .ref 0 ∨ g = .memo 0 exLRBody ∨ g = exLRBody ∨ g = exLR) → False
  | _, _, _, _, .ref (k := k) hk h, hg => by
    have h0 : k = 0 := by simpa [exLRBody, exLR] using hg
    subst h0
    simp only [exLRCfg, exCfg, List.getElem?_cons_zero, Option.some.injEq] at hk
    exact ex_lr_big h (.inr (.inl hk.symm))
  | _, _, _, _, .refNone (k := k) hk, hg => by
    have h0 : k = 0 := by simpa [exLRBody, exLR] using hg
    subst h0
    simp [exLRCfg, exCfg] at hk
  | _, _, _, _, .memo (g := g) h, hg => by
    have h0 : g = exLRBody := by
      rcases hg with hg | hg | hg | hg
      · cases hg
      · injection hg
      · simp [exLRBody] at hg
      · simp [exLR] at hg
    exact ex_lr_big h (.inr (.inr (.inl h0)))
  | _, _, _, _, .any (gs := gs) h _, hg => by
    have h0 : gs = [exLR, exT 97] := by simpa [exLRBody, exLR] using hg
    exact ex_lr_any h ⟨_, h0⟩
  | _, _, _, _, .seqfam (sh := sh) hs h _ _, hg => by
    rcases hg with hg | hg | hg | hg
    · subst hg; simp [G.shape] at hs
    · subst hg; simp [G.shape] at hs
    · subst hg; simp [G.shape, exLRBody] at hs
    · subst hg
      have hl : sh.lookup 0 = some (.ref 0) := by
        simp only [exLR, G.shape, Option.some.injEq] at hs
        rw [← hs]; rfl
      exact ex_lr_seq h ⟨rfl, hl⟩
  | _, _, _, _, .termOk _, hg => by simp [exLRBody, exLR] at hg
  | _, _, _, _, .termFail _, hg => by simp [exLRBody, exLR] at hg
  | _, _, _, _, .empty, hg => by simp [exLRBody, exLR] at hg
  | _, _, _, _, .eofOk _, hg => by simp [exLRBody, exLR] at hg
  | _, _, _, _, .eofFail _, hg => by simp [exLRBody, exLR] at hg
  | _, _, _, _, .choice _, hg => by simp [exLRBody, exLR] at hg
  | _, _, _, _, .optional _, hg => by simp [exLRBody, exLR] at hg
  | _, _, _, _, .name _ _ _, hg => by simp [exLRBody, exLR] at hg
  | _, _, _, _, .single _ _, hg => by simp [exLRBody, exLR] at hg
  | _, _, _, _, .suppress _, hg => by simp [exLRBody, exLR] at hg
  | _, _, _, _, .ltrimOk _ _, hg => by simp [exLRBody, exLR] at hg
  | _, _, _, _, .ltrimWs _ _ _, hg => by simp [exLRBody, exLR] at hg
  | _, _, _, _, .rtrim _ _ _, hg => by simp [exLRBody, exLR] at hg
termination_by structural _ _ _ _ h => h

theorem ex_lr_any : ∀ {gs : List G} {pos : Nat} {acc R : Res} {e : Bool}, BigAny exLRCfg gs pos acc R e →
    (∃ rest, gs = exLR :: rest) → False
  | _, _, _, _, _, .nil, hg => by obtain ⟨_, hg⟩ := hg; cases hg
  | _, _, _, _, _, .cons h _, hg => by
    obtain ⟨rest, hg⟩ := hg
    injection hg with h1 _
    exact ex_lr_big h (.inr (.inr (.inr h1)))
termination_by structural _ _ _ _ _ h => h

theorem ex_lr_seq : ∀ {sh : SeqShape} {depth : Nat} {nodes : List Node} {pos : Nat} {em : List Node} {stop e : Bool},
    BigSeq exLRCfg sh depth nodes pos em stop e → (depth = 0 ∧ sh.lookup 0 = some (.ref 0)) → False
  | _, _, _, _, _, _, _, .last hl, hd => by rw [hd.1, hd.2] at hl; cases hl
  | _, _, _, _, _, _, _, .fail hl hb, hd => by
    rw [hd.1, hd.2] at hl
    injection hl with hl
    exact ex_lr_big hb (.inl hl.symm)
  | _, _, _, _, _, _, _, .step hl hb _ _, hd => by
    rw [hd.1, hd.2] at hl
    injection hl with hl
    exact ex_lr_big hb (.inl hl.symm)
termination_by structural _ _ _ _ _ _ _ h => h
end

/-- … and `P` has NO big-step meaning (at any position): a derivation of `Big (ref 0)` would contain a
    strictly smaller derivation of `Big (ref 0)` at the same position (through the first element of `P b`) -/
theorem ex_leftrec_no_meaning (pos : Nat) (R : Res) (e : Bool) : ¬ Big exLRCfg (.ref 0) pos R e :=
  fun h => ex_lr_big h (.inl rfl)

end Big

end PV
