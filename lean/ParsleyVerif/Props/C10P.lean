/-
  C10P — the reader's whitespace skipping and position arithmetic (and the file's line table), about the functions
  TRANSLATED from the Go source.

  `factgen -out-prog` translates text/reader.go `SkipWhitespaces`, `Remaining`, `IsEOF`, `Pos` and text/file.go
  `setLines`, `Pos`, `Position`, `Len`, `SetOffset`, statement by statement, into Lean definitions
  (Generated/FactsProg.lean, regenerated from the repository on every run; run-time: the hand-written
  Generated/ProgPrelude.lean).  `c10_translated_functions` says that the hand-written model (Model/Text.lean) and the
  translation compute the same results; `c10p_skipWhitespaces` carries the byte-level specification of C09/C10
  (`wsRun`, `wsVerdict` on the bytes at the cursor) over to the translated function itself.

  `FileRel st F f`: the translated `File` struct `F`, read in state `st`, shows the model file `f` (its byte slice reads
  as the model's bytes; `len`, `offset`, `filename` agree).  Positions are `Nat` in the model, `Int` in the translation;
  the domain is the model's: `offset ≤ pos`.  Interface values (a `parsley.Error`, a `parsley.Position`) are opaque
  records in the translation (`Obj`); `errObj` / `posObj` say which record stands for which model answer.
-/
import ParsleyVerif.Proofs.ProgTieText
import ParsleyVerif.Proofs.ReaderWs
namespace PV.ProgTie
open PV.ProgPrelude PV.FactsProg

/-- **The tie.**  Every text-package function asked for is translated and computes what the model computes. -/
theorem c10_translated_functions (st : St) (F : FactsProg.File) (f : Text.File) (rel : FileRel st F f) :
    textFunctions.all (fun f => FactsProg.translatedProg.contains f) = true ∧
    (∀ p : Nat, f.offset ≤ p → p - f.offset ≤ f.len →
      Reader_Remaining ⟨F⟩ p st = .ok ((Text.remaining f p : Nat) : Int) st) ∧
    (∀ p : Nat, f.offset ≤ p → Reader_IsEOF ⟨F⟩ p st = .ok (Text.isEOF f p) st) ∧
    (∀ cur : Nat, Reader_Pos ⟨F⟩ cur st = .ok ((f.pos cur : Nat) : Int) st ∧
      File_Pos F cur st = .ok ((f.pos cur : Nat) : Int) st) ∧
    (∀ (p : Nat) (mode : Text.WsMode), f.offset ≤ p →
      Reader_SkipWhitespaces ⟨F⟩ p (modeCode mode) st =
        .ok (((Text.skipWhitespaces f p mode).1 : Int), errObj (Text.skipWhitespaces f p mode).2) st) :=
  ⟨tie_text_translated, fun p h1 h2 => tie_Remaining st F f rel p h1 h2, fun p h1 => tie_IsEOF st F f rel p h1,
   fun cur => tie_Pos st F f rel cur, fun p mode h1 => tie_SkipWhitespaces st F f rel p h1 mode⟩

/-- **The tie, file side.**  `setLines` builds the model's line table (in a fresh array, writing to nothing that
    existed); `Position` answers what the model answers — never a panic —, fills the line cache on first use and keeps
    the relation to the model file. -/
theorem c10_translated_file (h : Data.Heap) (mh : Data.MHeap) (g : Nat → Nat) (F : FactsProg.File) (f : Text.File)
    (rel : FileRel ⟨h, mh, g⟩ F f) (hd : F.data.arr < h.length) :
    (∃ (L : Data.Slice) (h' : Data.Heap),
      File_setLines F ⟨h, mh, g⟩ = .ok { F with lines := sl L } ⟨h', mh, g⟩ ∧
      Data.view h' L = f.lines.map Int.ofNat ∧ Data.SWF h' L ∧ Data.Frame h.length h h') ∧
    (∀ (p : Nat), LinesInv ⟨h, mh, g⟩ F f →
      f.position p ≠ .panic ∧
      ∃ (F' : FactsProg.File) (h' : Data.Heap),
        File_Position F p ⟨h, mh, g⟩ = .ok (F', posObj (f.position p)) ⟨h', mh, g⟩ ∧
        FileRel ⟨h', mh, g⟩ F' f ∧ LinesInv ⟨h', mh, g⟩ F' f ∧ Data.Frame h.length h h') :=
  ⟨tie_setLines h mh g F f rel hd, fun p inv => tie_Position h mh g F f rel hd inv p⟩

/-- **SkipWhitespaces (translated)** moves past exactly the whitespace run at the cursor and reports exactly the
    mode's verdict on the bytes there (C09/C10's byte-level specification), changing nothing. -/
theorem c10p_skipWhitespaces (st : St) (F : FactsProg.File) (f : Text.File) (rel : FileRel st F f) (p : Nat)
    (mode : Text.WsMode) (h : Text.InFile f p) (hoff : 1 ≤ f.offset) :
    Reader_SkipWhitespaces ⟨F⟩ p (modeCode mode) st =
      .ok (((p + Text.wsRun (Text.rest f p) : Nat) : Int), errObj (Text.wsVerdict mode p (Text.rest f p))) st := by
  rw [tie_SkipWhitespaces st F f rel p h.1 mode, Text.skipWhitespaces_spec f p mode h hoff]

/-- non-vacuity: a concrete file ("a \n\tb", offset 1) in a concrete state, evaluated by the kernel: whitespace
    skipping in the four modes from position 2, and a position lookup that fills the line cache -/
theorem c10p_example :
    let st : St := { arrays := [[97, 32, 10, 9, 98]], maps := [], grow := fun c => 2 * c + 1 }
    let F : FactsProg.File := { filename := "x", data := { arr := 0, off := 0, len := 5, cap := 5 }, lines := Go.nilSl, len := 5, offset := 1 }
    let run := fun (m : Int) => match Reader_SkipWhitespaces ⟨F⟩ 2 m st with
      | .ok (q, e) _ => (q, e.isNil) | _ => (0, false)
    (run 0, run 1, run 2, run 3) = ((5, false), (5, false), (5, true), (5, true)) ∧
    (match File_Position F 4 st with
      | .ok (F', .mk tag ints strs _) st' => (tag, ints, strs, view st' F'.lines) | _ => ("", [], [], [])) =
      ("text.Position", [2, 2], ["x"], [0, 3]) := by
  decide

end PV.ProgTie
