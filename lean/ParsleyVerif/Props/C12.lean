/-
  C12 — Parsing is invariant under the file's placement in a file set.

  Model: ParsleyVerif/Model/Text.lean, Terminal.lean, Run.lean.  Definitions: ParsleyVerif/Spec/Shift.lean
  (`shiftFile b f` = the file `f` as it is after `SetOffset(f.offset + b)`; `X.shift b` = `X` with `b` added
  to every position it stores and nothing else changed).
  Proofs: ParsleyVerif/Proofs/ShiftPrims.lean (primitives, terminals), ShiftRun.lean (the parser core),
  ShiftGE.lean (no position below the base offset; parsley.Parse), ShiftFileSet.lean (FileSet.Position).

  Domain.  No theorem needs `f.offset ≤ pos`: every primitive computes `cur = pos - offset`, and
  `(pos + b) - (offset + b) = pos - offset` also below the base offset (the model answers `none` = the Go
  cursor is negative, on both sides alike).  What IS needed, and only by SkipWhitespaces and the two
  trim combinators built on it, is `1 ≤ f.offset`: `nlPos == 0` is the "no line break yet" sentinel, and
  with base offset 0 a line break in the very first byte has position 0 (`c12_sentinel`,
  `c12_run_sentinel`).  NewFileSet starts at 1 and NewFile sets offset 1 (`c12_facts`), so offset 0 is
  not reachable through the library.
-/
import ParsleyVerif.Proofs.ShiftGE
import ParsleyVerif.Proofs.ShiftFileSet
namespace PV
open PV.Text

/-- **reader primitives**: on the file placed `b` positions later, asked at the position `b` later, every
    primitive answers the same flag / value / length at a position `b` later.  Remaining and IsEOF answer
    the same. -/
theorem c12_prims (b : Nat) (f : File) (pos : Nat) :
    (∀ ch, readRune (shiftFile b f) (pos + b) ch = (readRune f pos ch).map (shiftP b)) ∧
    (∀ str, matchString (shiftFile b f) (pos + b) str = (matchString f pos str).map (shiftP b)) ∧
    (∀ word, matchWord (shiftFile b f) (pos + b) word = (matchWord f pos word).map (shiftP b)) ∧
    (∀ engine, readRegexp engine (shiftFile b f) (pos + b) = (readRegexp engine f pos).map (shiftP b)) ∧
    (∀ fn, readf fn (shiftFile b f) (pos + b) = (readf fn f pos).map (shiftP b)) ∧
    remaining (shiftFile b f) (pos + b) = remaining f pos ∧
    isEOF (shiftFile b f) (pos + b) = isEOF f pos ∧
    (1 ≤ f.offset → ∀ mode, skipWhitespaces (shiftFile b f) (pos + b) mode = shiftWs b (skipWhitespaces f pos mode)) :=
  ⟨readRune_shift b f pos, matchString_shift b f pos, matchWord_shift b f pos,
   fun e => readRegexp_shift e b f pos, fun fn => readf_shift fn b f pos,
   remaining_shift b f pos, isEOF_shift b f pos, fun h m => skipWhitespaces_shift b f pos m h⟩

/-- the hypothesis `1 ≤ f.offset` of the SkipWhitespaces clause cannot be dropped: a file at base offset 0
    starting with a line break, mode "a new line is required" — at offset 0 the line break is not seen
    (its position is the sentinel), one position later it is -/
theorem c12_sentinel :
    let f : File := { name := "", data := [10], offset := 0 }
    skipWhitespaces f 0 .forceNl = (1, some (1, .forceNlErr)) ∧
    skipWhitespaces (shiftFile 1 f) (0 + 1) .forceNl = (2, none) ∧
    skipWhitespaces (shiftFile 1 f) (0 + 1) .forceNl ≠ shiftWs 1 (skipWhitespaces f 0 .forceNl) := by
  decide

/-- **terminals**: every terminal parser, any parameters -/
theorem c12_terminal (P : Params) (b : Nat) (f : File) (t : Terminal) (pos : Nat) :
    Terminal.parse P (shiftFile b f) t (pos + b) = (Terminal.parse P f t pos).shift b :=
  Terminal.parse_shift P b f t pos

/-- **the parser core**: every grammar (all sixteen constructors of `G`, any grammar table), every
    left-recursion context, every position, every context state (result cache, furthest error, call count,
    ghost fields), every fuel: the run on the shifted file from the shifted state returns the shifted
    outcome and the shifted state — same fuel, same `none`/`some`, same call count, same curtailing
    parsers, same cache keys up to the shift. -/
theorem c12_run (b : Nat) (cfg : Cfg) (hoff : 1 ≤ cfg.file.offset) (fuel : Nat) (g : G) (ctx : Ctx) (pos : Nat) (st : St) :
    run (shiftCfg b cfg) fuel g ctx (pos + b) (st.shift b) =
      (run cfg fuel g ctx pos st).map (fun (o, st') => (o.shift b, st'.shift b)) :=
  run_shift b cfg (wsShift_of_offset b cfg.file hoff) fuel g ctx pos st

/-- what is observable besides the trees: the call count and the curtailing parsers are the same -/
theorem c12_run_calls (b : Nat) (cfg : Cfg) (hoff : 1 ≤ cfg.file.offset) (fuel : Nat) (g : G) (ctx : Ctx) (pos : Nat) (st : St) :
    (run (shiftCfg b cfg) fuel g ctx (pos + b) (st.shift b)).map (fun r => (r.1.cp, r.2.calls)) =
      (run cfg fuel g ctx pos st).map (fun r => (r.1.cp, r.2.calls)) := by
  rw [c12_run b cfg hoff]
  cases run cfg fuel g ctx pos st <;> rfl

/-- `c12_run` without the hypothesis is false, through a trim: base offset 0, input "\n",
    `LeftTrim(Empty, WsSpacesForceNl)` -/
theorem c12_run_sentinel :
    let cfg : Cfg := { env := [], file := { name := "", data := [10], offset := 0 }, fileSet := {},
                       params := { floatOk := fun _ => true, durErr := fun _ => none, regexp := fun _ _ => none } }
    let g : G := .ltrim .empty .forceNl
    run (shiftCfg 1 cfg) 2 g [] (0 + 1) (St.shift 1 {}) ≠
      (run cfg 2 g [] 0 {}).map (fun (o, st') => (o.shift 1, st'.shift 1)) := by
  intro cfg g h
  have := congrArg (fun r => r.map (fun x => x.1.err)) h
  revert this
  decide

/-- nothing the parser core produces lies below the base offset (needed to compare rendered locations:
    the position of the reported error is one of the file's own) -/
theorem c12_positions (cfg : Cfg) (fuel : Nat) (g : G) (ctx : Ctx) (pos : Nat) (st : St) (o : Out) (st' : St)
    (hpos : cfg.file.offset ≤ pos) (hst : st.posGE cfg.file.offset)
    (h : run cfg fuel g ctx pos st = some (o, st')) :
    o.posGE cfg.file.offset ∧ st'.posGE cfg.file.offset :=
  run_ge cfg fuel g ctx pos st o st' hpos hst h

/-- **parsley.Parse**: `fs'` is a file set in which the shifted file renders every one of its positions as
    `cfg.fileSet` renders the corresponding position of the file; then Parse on the shifted file returns the
    shifted tree / the shifted error, the shifted context, and literally the same error text. -/
theorem c12_parse (b : Nat) (cfg : Cfg) (fs' : FileSet) (fuel : Nat) (g : G) (hoff : 1 ≤ cfg.file.offset)
    (hfs : ∀ p, cfg.file.offset ≤ p → fs'.position (p + b) = cfg.fileSet.position p) :
    parse (shiftCfg' b fs' cfg) fuel g = (parse cfg fuel g).map (ParseOut.shift b) :=
  parse_shift b cfg fs' fuel g {} (wsShift_of_offset b cfg.file hoff) (st_default_ge _) hfs

/-- the same from any context state that holds no position below the base offset -/
theorem c12_parse_st (b : Nat) (cfg : Cfg) (fs' : FileSet) (fuel : Nat) (g : G) (st : St) (hoff : 1 ≤ cfg.file.offset)
    (hst : st.posGE cfg.file.offset)
    (hfs : ∀ p, cfg.file.offset ≤ p → fs'.position (p + b) = cfg.fileSet.position p) :
    parse (shiftCfg' b fs' cfg) fuel g (st.shift b) = (parse cfg fuel g st).map (ParseOut.shift b) :=
  parse_shift b cfg fs' fuel g st (wsShift_of_offset b cfg.file hoff) hst hfs

/-- the error text is the same byte string -/
theorem c12_parse_msg (b : Nat) (cfg : Cfg) (fs' : FileSet) (fuel : Nat) (g : G) (hoff : 1 ≤ cfg.file.offset)
    (hfs : ∀ p, cfg.file.offset ≤ p → fs'.position (p + b) = cfg.fileSet.position p) :
    (parse (shiftCfg' b fs' cfg) fuel g).map (·.msg) = (parse cfg fuel g).map (·.msg) := by
  rw [c12_parse b cfg fs' fuel g hoff hfs]
  cases parse cfg fuel g <;> rfl

/-- what that text is: the prefix, the message of the error kind (kinds carry no positions) and, when the
    file set knows the position, " at " and the rendered `file:line:column` -/
theorem c12_parse_msg_form (cfg : Cfg) (fuel : Nat) (g : G) (st : St) (r : ParseOut) (e : Err)
    (h : parse cfg fuel g st = some r) (he : r.err = some e) :
    r.msg = some (failedPrefix ++ errorWithPosition cfg.fileSet e) ∧
    (cfg.fileSet.position e.pos ≠ .unknown →
      errorWithPosition cfg.fileSet e = e.kind.msg ++ tokOf " at " ++ tokOf (cfg.fileSet.position e.pos).render) := by
  constructor
  · unfold parse at h
    simp only [] at h
    split at h
    · cases h
    · split at h
      · cases h; cases he; rfl
      · cases h; cases he
  · intro hne
    unfold errorWithPosition
    split
    · rename_i hu; exact absurd hu hne
    · rfl

/-- **file sets**: the hypothesis of `c12_parse` holds for the file sets the library builds.  The same
    file added to a file set `fs0` and to a file set `fs0'` whose next free position is further on: the
    second copy is the first one shifted by the difference, and FileSet.Position renders every position of
    the file (from its base offset on) identically. -/
theorem c12_fileSet (fs0 fs0' : FileSet) (h : fs0.WF) (h' : fs0'.WF) (f : File) (hle : fs0.pos ≤ fs0'.pos) :
    (fs0'.addFile f).2 = shiftFile (fs0'.pos - fs0.pos) (fs0.addFile f).2 ∧
    ∀ p, (fs0.addFile f).2.offset ≤ p →
      (fs0'.addFile f).1.position (p + (fs0'.pos - fs0.pos)) = (fs0.addFile f).1.position p :=
  FileSet.addFile_shift fs0 fs0' h h' f hle

/-- the file sets in question: NewFileSet(), and whatever AddFile makes of one -/
theorem c12_fileSet_wf : FileSet.WF {} ∧ ∀ (fs : FileSet) (f : File), fs.WF → (fs.addFile f).1.WF :=
  ⟨FileSet.WF_empty, fun fs f h => FileSet.WF_addFile fs h f⟩

/-- **the property, end to end**: a file added alone to a new file set, and the same file added to a file
    set that already holds arbitrary other files; `cfg` is any parser configuration on the first.  Parse
    on the second returns the trees, errors and context shifted by the difference of the base offsets and
    the same error text. -/
theorem c12_parse_placed (fs0' : FileSet) (h' : fs0'.WF) (f : File) (cfg : Cfg) (fuel : Nat) (g : G)
    (hfile : cfg.file = ((({} : FileSet).addFile f).2)) (hset : cfg.fileSet = (({} : FileSet).addFile f).1) :
    parse { cfg with file := (fs0'.addFile f).2, fileSet := (fs0'.addFile f).1 } fuel g =
      (parse cfg fuel g).map (ParseOut.shift (fs0'.pos - Facts.fileSetFirstPos)) := by
  have hle : ({} : FileSet).pos ≤ fs0'.pos := h'.pos
  have hfs := c12_fileSet {} fs0' FileSet.WF_empty h' f hle
  have hoff : 1 ≤ cfg.file.offset := by rw [hfile]; exact Nat.le_refl 1
  have := c12_parse (fs0'.pos - Facts.fileSetFirstPos) cfg (fs0'.addFile f).1 fuel g hoff
    (by intro p hp; rw [hset]; rw [hfile] at hp; exact hfs.2 p hp)
  rw [← this]
  unfold shiftCfg'
  rw [hfs.1, hfile]

/-- the facts the model takes from the source (regenerated on every run) -/
/- (the text of Remaining, IsEOF and of SkipWhitespaces' line-break test, formerly pinned here, is subsumed by the translation tie
   Props/C10P.lean, built and audited by this property's check) -/
theorem c12_facts :
    Facts.fileSetFirstPos = 1 ∧ Facts.fileSetGap = 1 ∧ Facts.newFileOffset = 1 :=
  ⟨rfl, rfl, rfl⟩

/-! ### non-vacuity -/

/-- "a \nb c" -/
def c12Data : Bytes := [97, 32, 10, 98, 32, 99]
def c12Params : Params := { floatOk := fun _ => true, durErr := fun _ => none, regexp := fun _ _ => none }
def c12File (off : Nat) : File := { name := "t", data := c12Data, offset := off }
def c12Cfg (off : Nat) : Cfg := { env := [], file := c12File off, fileSet := {}, params := c12Params }
def c12Tok : G := .any [.term (.rune 97 [39, 97, 39]), .term (.rune 98 [39, 98, 39]), .term (.rune 99 [39, 99, 39])]
/-- memoized tokens, each followed by white space (line breaks allowed), then the end of the input -/
def c12G : G := G.sentence (.many (.memo 0 (.rtrim c12Tok .spacesNl)) false {})
/-- the same where a line break after a token is an error -/
def c12G' : G := G.sentence (.many (.memo 0 (.rtrim c12Tok .spaces)) false {})

example : shiftFile 7 (c12File 1) = c12File 8 := rfl
/-- the primitives at base offsets 1 and 8 -/
example : skipWhitespaces (c12File 1) 2 .spaces = (4, some (3, .spacesErr)) ∧
    skipWhitespaces (c12File 8) 9 .spaces = (11, some (10, .spacesErr)) ∧
    readRune (c12File 1) 4 98 = some (5, true) ∧ readRune (c12File 8) 11 98 = some (12, true) ∧
    remaining (c12File 1) 4 = 3 ∧ remaining (c12File 8) 11 = 3 := by decide
/-- a run of the whole core (sequence, many, memoization, any, right trim, terminals, end of input) at the
    two offsets: it succeeds, the tree spans positions 1–7 resp. 8–14, 18 parser calls both times … -/
example : (run (c12Cfg 1) 20 c12G [] 1 {}).map (fun r => (r.1.res.alts.map Node.pos, r.1.res.alts.map Node.rpos, r.2.calls))
      = some ([1], [7], 18) ∧
    (run (c12Cfg 8) 20 c12G [] 8 {}).map (fun r => (r.1.res.alts.map Node.pos, r.1.res.alts.map Node.rpos, r.2.calls))
      = some ([8], [14], 18) := by decide
/-- … and the two outcomes (trees, cache, furthest error, log) are each other's shift, by evaluation -/
example : run (c12Cfg 8) 20 c12G [] 8 {} = (run (c12Cfg 1) 20 c12G [] 1 {}).map (shiftOS 7) := by rfl
/-- an input that fails with a positioned white space error, at the two offsets -/
example : (run (c12Cfg 1) 20 c12G' [] 1 {}).map (·.1.err) = some (some ⟨3, .ws .spacesErr⟩) ∧
    (run (c12Cfg 8) 20 c12G' [] 8 {}).map (·.1.err) = some (some ⟨10, .ws .spacesErr⟩) := by decide

/-- Parse with real file sets: the file added alone (base offset 1), and added after another file of six
    bytes (base offset 8) -/
def c12Alone : FileSet × File := ({} : FileSet).addFile (newFile "t" c12Data)
def c12Other : FileSet := (({} : FileSet).addFile (newFile "other" [1, 2, 3, 4, 5, 6])).1
def c12Placed : FileSet × File := c12Other.addFile (newFile "t" c12Data)
def c12CfgA : Cfg := { env := [], file := c12Alone.2, fileSet := c12Alone.1, params := c12Params }
def c12CfgP : Cfg := { env := [], file := c12Placed.2, fileSet := c12Placed.1, params := c12Params }

example : c12Alone.2.offset = 1 ∧ c12Placed.2.offset = 8 ∧ c12Other.WF := by
  refine ⟨rfl, rfl, FileSet.WF_addFile _ FileSet.WF_empty _⟩
/-- the reported error is 7 positions apart, the text is the same and names line 1, column 3 -/
example : (parse c12CfgA 20 c12G').map (fun r => (r.err, r.msg)) =
      some (some ⟨3, .ws .spacesErr⟩, some (tokOf "failed to parse the input: new line is not allowed at t:1:3")) ∧
    (parse c12CfgP 20 c12G').map (fun r => (r.err, r.msg)) =
      some (some ⟨10, .ws .spacesErr⟩, some (tokOf "failed to parse the input: new line is not allowed at t:1:3")) := by
  decide +kernel
/-- `c12_parse_placed` applies to this pair -/
example : parse c12CfgP 20 c12G' = (parse c12CfgA 20 c12G').map (ParseOut.shift 7) :=
  c12_parse_placed c12Other (FileSet.WF_addFile _ FileSet.WF_empty _) (newFile "t" c12Data) c12CfgA 20 c12G' rfl rfl

end PV
