/-
  C10 — Whitespace modes are enforced exactly and permitted whitespace is transparent.

  Property theorems only.  Model: `run` on `.ltrim` / `.rtrim` / `.term` / `.seq` and `parse`
  (ParsleyVerif/Model/Run.lean, transcribing text/trim.go, ast.SetReaderPos, combinator/seq.go,
  parsley/parse.go) over `skipWhitespaces` (Model/Text.lean).
  Specification: ParsleyVerif/Spec/TrimSpec.lean — `wsOk m ws` (the property's acceptance rule on the bytes
  `ws = rest f pos` at the cursor, through `wsRun` / `firstBreak` only), `wsFail m pos ws` (the mode's error
  and its position), token sequences (`Tok`, `Deco`, `weave`, `Adm`, `tokNodes`, `endPos`).

  A *token* is `.term t` for an arbitrary terminal `t`, constrained only by what `t.parse` answers at the
  position it is asked to parse; the transparency theorem uses single-byte `terminal.Rune` tokens.
  Every theorem holds for every configuration, left-recursion context and parser state; the driver's work
  budget is either absent (`maxCalls = 0`) or not yet exhausted.  `1 ≤ offset` is what every file of a
  parsley FileSet satisfies (positions start at 1; 0 is the `nlPos == 0` sentinel of SkipWhitespaces).
-/
import ParsleyVerif.Proofs.Trim
import ParsleyVerif.Generated.Facts
namespace PV
open PV.Text

/-! ### the vocabulary is what the property says -/

/-- the mode's error and its position: start of the run / first line break / end of the run.
    `firstBreak` really is the first line break of the run. -/
theorem c10_wsFail_spec (pos : Nat) (ws : Bytes) :
    wsFail .none pos ws = ⟨pos, .ws .noneErr⟩ ∧
    wsFail .forceNl pos ws = ⟨pos + wsRun ws, .ws .forceNlErr⟩ ∧
    (∀ i, firstBreak ws = some i →
      wsFail .spaces pos ws = ⟨pos + i, .ws .spacesErr⟩ ∧
      i < wsRun ws ∧ isBreak (ws.getD i 0) = true ∧ ∀ j, j < i → isBreak (ws.getD j 0) = false) ∧
    ¬ (¬ wsOk .spacesNl ws) := by
  refine ⟨rfl, rfl, ?_, fun h => h trivial⟩
  intro i h
  exact ⟨by simp [wsFail, h], firstBreak_spec ws i h⟩

/-! ### LeftTrim -/

/-- **accept**: the run satisfies the mode and the token matches right after it ⇒ LeftTrim returns the
    token's own node, untouched (its start is the token's first byte, not the start of the whitespace),
    no error, and the parser state is exactly what it was. -/
theorem c10_ltrim_accept (cfg : Cfg) (fuel : Nat) (t : Terminal) (m : WsMode) (ctx : Ctx) (pos : Nat) (st : St) (n : Node)
    (hf : 2 ≤ fuel) (hb : cfg.maxCalls = 0 ∨ st.calls ≤ cfg.maxCalls)
    (hin : InFile cfg.file pos) (hoff : 1 ≤ cfg.file.offset)
    (htok : t.parse cfg.params cfg.file (pos + wsRun (rest cfg.file pos)) = .node n)
    (hok : wsOk m (rest cfg.file pos)) :
    run cfg fuel (.ltrim (.term t) m) ctx pos st = some (⟨.one n, [], none⟩, st) ∧
    n.pos = pos + wsRun (rest cfg.file pos) := by
  obtain ⟨F, rfl⟩ : ∃ F, fuel = F + 2 := ⟨fuel - 2, by omega⟩
  have h := run_ltrim_res cfg (F + 1) (.term t) m ctx pos st st _ _ hb hin hoff (run_term_node cfg F t ctx _ st hb n htok)
  rw [if_pos hok] at h
  obtain ⟨tok, v, r, rfl⟩ := Terminal.parse_node _ _ _ _ _ htok
  exact ⟨h, rfl⟩

/-- **reject**: the token would match, but the run violates the mode ⇒ no result, and the error is that
    mode's whitespace error at the start of the run / the first line break / the end of the run. -/
theorem c10_ltrim_reject (cfg : Cfg) (fuel : Nat) (t : Terminal) (m : WsMode) (ctx : Ctx) (pos : Nat) (st : St) (n : Node)
    (hf : 2 ≤ fuel) (hb : cfg.maxCalls = 0 ∨ st.calls ≤ cfg.maxCalls)
    (hin : InFile cfg.file pos) (hoff : 1 ≤ cfg.file.offset)
    (htok : t.parse cfg.params cfg.file (pos + wsRun (rest cfg.file pos)) = .node n)
    (hok : ¬ wsOk m (rest cfg.file pos)) :
    run cfg fuel (.ltrim (.term t) m) ctx pos st =
      some (⟨.nil, [], some (wsFail m pos (rest cfg.file pos))⟩, st) := by
  obtain ⟨F, rfl⟩ : ∃ F, fuel = F + 2 := ⟨fuel - 2, by omega⟩
  have h := run_ltrim_res cfg (F + 1) (.term t) m ctx pos st st _ _ hb hin hoff (run_term_node cfg F t ctx _ st hb n htok)
  rw [if_neg hok] at h
  exact h

/-- **the token itself fails** with error `e` after the run.  Exactly what the model (trim.go) does:
    an accepted run hands on the token's error unchanged; with a pending whitespace error, a token error
    beyond the token's start is replaced by the whitespace error, a not-found error is moved back to the
    start of the whitespace (the whitespace error is dropped), any other error is handed on.
    The state only gains the ghost log entry of the failed terminal. -/
theorem c10_ltrim_token_fails (cfg : Cfg) (fuel : Nat) (t : Terminal) (m : WsMode) (ctx : Ctx) (pos : Nat) (st : St) (e : Err)
    (hf : 2 ≤ fuel) (hb : cfg.maxCalls = 0 ∨ st.calls ≤ cfg.maxCalls)
    (hin : InFile cfg.file pos) (hoff : 1 ≤ cfg.file.offset)
    (htok : t.parse cfg.params cfg.file (pos + wsRun (rest cfg.file pos)) = .err e) :
    run cfg fuel (.ltrim (.term t) m) ctx pos st =
      some (⟨.nil, [], some (
          if wsOk m (rest cfg.file pos) then e
          else if e.pos > pos + wsRun (rest cfg.file pos) then wsFail m pos (rest cfg.file pos)
          else if e.kind.isNotFound then ⟨pos, e.kind⟩
          else e)⟩, st.logEv cfg (.termFail e.pos e.kind)) := by
  obtain ⟨F, rfl⟩ : ∃ F, fuel = F + 2 := ⟨fuel - 2, by omega⟩
  rw [run_ltrim_err cfg (F + 1) (.term t) m ctx pos st _ _ _ e hb hin hoff (run_term_err cfg F t ctx _ st hb e htok)]
  by_cases h1 : wsOk m (rest cfg.file pos)
  · simp only [if_pos h1]
  · simp only [if_neg h1]
    by_cases h2 : e.pos > pos + wsRun (rest cfg.file pos)
    · simp only [if_pos h2]
    · simp only [if_neg h2]
      by_cases h3 : e.kind.isNotFound = true
      · simp only [if_pos h3]
      · simp only [if_neg h3]

/-- the usual case of the above: the token reports "was expecting …" at its own position.  With an
    accepted run the error stays at the token's position; with a rejected run it is relocated to the
    start of the whitespace and replaces the whitespace error. -/
theorem c10_ltrim_token_notfound (cfg : Cfg) (fuel : Nat) (t : Terminal) (m : WsMode) (ctx : Ctx) (pos : Nat) (st : St) (e : Err)
    (hf : 2 ≤ fuel) (hb : cfg.maxCalls = 0 ∨ st.calls ≤ cfg.maxCalls)
    (hin : InFile cfg.file pos) (hoff : 1 ≤ cfg.file.offset)
    (htok : t.parse cfg.params cfg.file (pos + wsRun (rest cfg.file pos)) = .err e)
    (hpos : e.pos = pos + wsRun (rest cfg.file pos)) (hnf : e.kind.isNotFound = true) :
    run cfg fuel (.ltrim (.term t) m) ctx pos st =
      some (⟨.nil, [], some (if wsOk m (rest cfg.file pos) then e else ⟨pos, e.kind⟩)⟩,
            st.logEv cfg (.termFail e.pos e.kind)) := by
  rw [c10_ltrim_token_fails cfg fuel t m ctx pos st e hf hb hin hoff htok]
  rw [if_neg (show ¬ e.pos > pos + wsRun (rest cfg.file pos) by omega), if_pos hnf]

/-! ### RightTrim -/

/-- **accept**: the token matches with node `n` and the run after it satisfies the mode ⇒ the result is
    `n` with only its end moved past the run; start, token and value are the token's own. -/
theorem c10_rtrim_accept (cfg : Cfg) (fuel : Nat) (t : Terminal) (m : WsMode) (ctx : Ctx) (pos : Nat) (st : St) (n : Node)
    (hf : 2 ≤ fuel) (hb : cfg.maxCalls = 0 ∨ st.calls ≤ cfg.maxCalls)
    (hin : InFile cfg.file n.rpos) (hoff : 1 ≤ cfg.file.offset)
    (htok : t.parse cfg.params cfg.file pos = .node n)
    (hok : wsOk m (rest cfg.file n.rpos)) :
    ∃ tok v, n = .term tok v pos n.rpos ∧
      run cfg fuel (.rtrim (.term t) m) ctx pos st =
        some (⟨.one (.term tok v pos (n.rpos + wsRun (rest cfg.file n.rpos))), [], none⟩, st) := by
  obtain ⟨F, rfl⟩ : ∃ F, fuel = F + 2 := ⟨fuel - 2, by omega⟩
  obtain ⟨tok, v, r, rfl⟩ := Terminal.parse_node _ _ _ _ _ htok
  refine ⟨tok, v, rfl, ?_⟩
  simp only [Node.rpos] at hin hok ⊢
  have h := run_rtrim_term cfg (F + 1) (.term t) m ctx pos st st tok v pos r [] hb hin hoff
    (run_term_node cfg F t ctx _ st hb _ htok)
  rw [if_pos hok] at h
  exact h

/-- **reject**: the run after the token violates the mode ⇒ no result, and the mode's error at the end of
    the token (start of the run) / the first line break / the end of the run. -/
theorem c10_rtrim_reject (cfg : Cfg) (fuel : Nat) (t : Terminal) (m : WsMode) (ctx : Ctx) (pos : Nat) (st : St) (n : Node)
    (hf : 2 ≤ fuel) (hb : cfg.maxCalls = 0 ∨ st.calls ≤ cfg.maxCalls)
    (hin : InFile cfg.file n.rpos) (hoff : 1 ≤ cfg.file.offset)
    (htok : t.parse cfg.params cfg.file pos = .node n)
    (hok : ¬ wsOk m (rest cfg.file n.rpos)) :
    run cfg fuel (.rtrim (.term t) m) ctx pos st =
      some (⟨.nil, [], some (wsFail m n.rpos (rest cfg.file n.rpos))⟩, st) := by
  obtain ⟨F, rfl⟩ : ∃ F, fuel = F + 2 := ⟨fuel - 2, by omega⟩
  obtain ⟨tok, v, r, rfl⟩ := Terminal.parse_node _ _ _ _ _ htok
  simp only [Node.rpos] at hin hok ⊢
  have h := run_rtrim_term cfg (F + 1) (.term t) m ctx pos st st tok v pos r [] hb hin hoff
    (run_term_node cfg F t ctx _ st hb _ htok)
  rw [if_neg hok] at h
  exact h

/-- the token fails under RightTrim: a whitespace error is handed on unchanged; any other error is moved
    past the whitespace at the error's position, whatever the mode (exactly what trim.go does) -/
theorem c10_rtrim_token_fails (cfg : Cfg) (fuel : Nat) (t : Terminal) (m : WsMode) (ctx : Ctx) (pos : Nat) (st : St) (e : Err)
    (hf : 2 ≤ fuel) (hb : cfg.maxCalls = 0 ∨ st.calls ≤ cfg.maxCalls)
    (hin : e.kind.isWs = false → InFile cfg.file e.pos) (hoff : 1 ≤ cfg.file.offset)
    (htok : t.parse cfg.params cfg.file pos = .err e) :
    run cfg fuel (.rtrim (.term t) m) ctx pos st =
      some (⟨.nil, [], some (if e.kind.isWs then e else ⟨e.pos + wsRun (rest cfg.file e.pos), e.kind⟩)⟩,
            st.logEv cfg (.termFail e.pos e.kind)) := by
  obtain ⟨F, rfl⟩ : ∃ F, fuel = F + 2 := ⟨fuel - 2, by omega⟩
  exact run_rtrim_err cfg (F + 1) (.term t) m ctx pos st _ _ _ e hb hin hoff (run_term_err cfg F t ctx _ st hb e htok)

/-- RightTrim never moves a whitespace error of its operand, whatever the operand is (the D10 fix):
    in particular the error of a LeftTrim inside stays where the property puts it -/
theorem c10_rtrim_keeps_ws_error (cfg : Cfg) (fuel : Nat) (g : G) (m : WsMode) (ctx : Ctx) (pos : Nat) (st st' : St)
    (res : Res) (cp : List Nat) (e : Err)
    (hb : cfg.maxCalls = 0 ∨ st.calls ≤ cfg.maxCalls) (hoff : 1 ≤ cfg.file.offset)
    (hrun : run cfg fuel g ctx pos st = some (⟨res, cp, some e⟩, st')) (hws : e.kind.isWs = true) :
    run cfg (fuel + 1) (.rtrim g m) ctx pos st = some (⟨res, cp, some e⟩, st') :=
  run_rtrim_wsErr cfg fuel g m ctx pos st st' res cp e hb hoff hws hrun

/-! ### Trim -/

/-- text.Trim(p) is RightTrim(LeftTrim(p, WsSpacesNl), WsSpacesNl) — the left trim inside — which is the
    term the harness builds for it -/
theorem c10_trim_def (g : G) : g.trim = .rtrim (.ltrim g .spacesNl) .spacesNl ∧ g.trim = (Deco.rl .spacesNl .spacesNl).apply g :=
  ⟨rfl, rfl⟩

/-- Trim accepts any whitespace on both sides: the token found after the leading run keeps its own start
    and value, and its end moves past the trailing run. -/
theorem c10_trim (cfg : Cfg) (fuel : Nat) (t : Terminal) (ctx : Ctx) (pos : Nat) (st : St) (n : Node)
    (hf : 3 ≤ fuel) (hb : cfg.maxCalls = 0 ∨ st.calls ≤ cfg.maxCalls)
    (hin : InFile cfg.file pos) (hinr : InFile cfg.file n.rpos) (hoff : 1 ≤ cfg.file.offset)
    (htok : t.parse cfg.params cfg.file (pos + wsRun (rest cfg.file pos)) = .node n) :
    ∃ tok v, n = .term tok v (pos + wsRun (rest cfg.file pos)) n.rpos ∧
      run cfg fuel (G.trim (.term t)) ctx pos st =
        some (⟨.one (.term tok v (pos + wsRun (rest cfg.file pos)) (n.rpos + wsRun (rest cfg.file n.rpos))), [], none⟩, st) := by
  obtain ⟨F, rfl⟩ : ∃ F, fuel = F + 3 := ⟨fuel - 3, by omega⟩
  obtain ⟨tok, v, r, rfl⟩ := Terminal.parse_node _ _ _ _ _ htok
  refine ⟨tok, v, rfl, ?_⟩
  simp only [Node.rpos] at hinr ⊢
  have h1 := (c10_ltrim_accept cfg (F + 2) t .spacesNl ctx pos st _ (by omega) hb hin hoff htok trivial).1
  have h := run_rtrim_term cfg (F + 2) (.ltrim (.term t) .spacesNl) .spacesNl ctx pos st st tok v _ r [] hb hinr hoff h1
  rw [if_pos (show wsOk .spacesNl _ from trivial)] at h
  exact h

/-! ### all five decorations, uniformly -/

/-- **accept**, any decoration `d` of a token: the token is looked for after the leading run if `d` trims
    on the left, at `pos` itself otherwise; if the left mode (if any) accepts the leading run and the right
    mode (if any) accepts the run after the token, the result is the token's own node — own start, token,
    value — with its end moved past the trailing run exactly when `d` trims on the right. -/
theorem c10_deco_accept (cfg : Cfg) (fuel : Nat) (d : Deco) (t : Terminal) (ctx : Ctx) (pos : Nat) (st : St) (n : Node)
    (hf : 3 ≤ fuel) (hb : cfg.maxCalls = 0 ∨ st.calls ≤ cfg.maxCalls)
    (hin : InFile cfg.file pos) (hoff : 1 ≤ cfg.file.offset)
    (htok : t.parse cfg.params cfg.file
      (pos + (match d.left with | some _ => wsRun (rest cfg.file pos) | none => 0)) = .node n)
    (hl : ∀ lm, d.left = some lm → wsOk lm (rest cfg.file pos))
    (hr : ∀ rm, d.right = some rm → InFile cfg.file n.rpos ∧ wsOk rm (rest cfg.file n.rpos)) :
    ∃ tok v, n = .term tok v (pos + (match d.left with | some _ => wsRun (rest cfg.file pos) | none => 0)) n.rpos ∧
      run cfg fuel (d.apply (.term t)) ctx pos st =
        some (⟨.one (.term tok v (pos + (match d.left with | some _ => wsRun (rest cfg.file pos) | none => 0))
                (n.rpos + (match d.right with | some _ => wsRun (rest cfg.file n.rpos) | none => 0))), [], none⟩, st) := by
  obtain ⟨F, rfl⟩ : ∃ F, fuel = F + 3 := ⟨fuel - 3, by omega⟩
  obtain ⟨tok, v, r, rfl⟩ := Terminal.parse_node _ _ _ _ _ htok
  refine ⟨tok, v, rfl, ?_⟩
  cases d with
  | bare =>
    simp only [Deco.left, Deco.right, Deco.apply, Nat.add_zero, Node.rpos] at htok ⊢
    exact run_term_node cfg (F + 2) t ctx pos st hb _ htok
  | l m =>
    simp only [Deco.left, Deco.right, Deco.apply, Nat.add_zero, Node.rpos] at htok hl ⊢
    have h := run_ltrim_res cfg (F + 2) (.term t) m ctx pos st st _ _ hb hin hoff (run_term_node cfg (F + 1) t ctx _ st hb _ htok)
    rw [if_pos (hl m rfl)] at h
    exact h
  | r m =>
    simp only [Deco.left, Deco.right, Deco.apply, Nat.add_zero, Node.rpos] at htok hr ⊢
    obtain ⟨hinr, hokr⟩ := hr m rfl
    have h := run_rtrim_term cfg (F + 2) (.term t) m ctx pos st st tok v pos r [] hb hinr hoff
      (run_term_node cfg (F + 1) t ctx _ st hb _ htok)
    rw [if_pos hokr] at h
    exact h
  | lr lm rm =>
    simp only [Deco.left, Deco.right, Deco.apply, Node.rpos] at htok hl hr ⊢
    obtain ⟨hinr, hokr⟩ := hr rm rfl
    have h1 := run_rtrim_term cfg (F + 1) (.term t) rm ctx _ st st tok v _ r [] hb hinr hoff
      (run_term_node cfg F t ctx _ st hb _ htok)
    rw [if_pos hokr] at h1
    have h := run_ltrim_res cfg (F + 2) (.rtrim (.term t) rm) lm ctx pos st st _ _ hb hin hoff h1
    rw [if_pos (hl lm rfl)] at h
    exact h
  | rl lm rm =>
    simp only [Deco.left, Deco.right, Deco.apply, Node.rpos] at htok hl hr ⊢
    obtain ⟨hinr, hokr⟩ := hr rm rfl
    have h1 := run_ltrim_res cfg (F + 1) (.term t) lm ctx pos st st _ _ hb hin hoff (run_term_node cfg F t ctx _ st hb _ htok)
    rw [if_pos (hl lm rfl)] at h1
    have h := run_rtrim_term cfg (F + 2) (.ltrim (.term t) lm) rm ctx pos st st tok v _ r [] hb hinr hoff h1
    rw [if_pos hokr] at h
    exact h

/-- **reject on the left**, every decoration with a left mode (`l`, `lr`, `rl`): the token would match after
    the leading run but the run violates the left mode ⇒ no result, and exactly the left mode's error at the
    property's position — also under an outer RightTrim (the D10 fix).
    For LeftTrim∘RightTrim the inner RightTrim has already looked at the trailing run: the statement needs
    that run to be accepted or the token to be non-empty (an empty token whose right mode rejects as well
    reports the right mode's error, see trim.go: `err.Pos() > pos`). -/
theorem c10_deco_reject_left (cfg : Cfg) (fuel : Nat) (d : Deco) (lm : WsMode) (t : Terminal) (ctx : Ctx) (pos : Nat) (st : St) (n : Node)
    (hf : 3 ≤ fuel) (hb : cfg.maxCalls = 0 ∨ st.calls ≤ cfg.maxCalls)
    (hin : InFile cfg.file pos) (hoff : 1 ≤ cfg.file.offset)
    (hd : d.left = some lm)
    (htok : t.parse cfg.params cfg.file (pos + wsRun (rest cfg.file pos)) = .node n)
    (hok : ¬ wsOk lm (rest cfg.file pos))
    (hlr : ∀ rm, d = .lr lm rm →
      InFile cfg.file n.rpos ∧ (pos + wsRun (rest cfg.file pos) < n.rpos ∨ wsOk rm (rest cfg.file n.rpos))) :
    run cfg fuel (d.apply (.term t)) ctx pos st =
      some (⟨.nil, [], some (wsFail lm pos (rest cfg.file pos))⟩, st) := by
  obtain ⟨F, rfl⟩ : ∃ F, fuel = F + 3 := ⟨fuel - 3, by omega⟩
  cases d with
  | bare => simp [Deco.left] at hd
  | r m => simp [Deco.left] at hd
  | l m =>
    simp only [Deco.left, Option.some.injEq] at hd; subst hd
    exact c10_ltrim_reject cfg (F + 3) t m ctx pos st n (by omega) hb hin hoff htok hok
  | rl m rm =>
    simp only [Deco.left, Option.some.injEq] at hd; subst hd
    have h1 := c10_ltrim_reject cfg (F + 2) t m ctx pos st n (by omega) hb hin hoff htok hok
    exact run_rtrim_wsErr cfg (F + 2) (.ltrim (.term t) m) rm ctx pos st st _ _ _ hb hoff (wsFail_isWs _ _ _) h1
  | lr m rm =>
    simp only [Deco.left, Option.some.injEq] at hd; subst hd
    obtain ⟨hinr, hcase⟩ := hlr rm rfl
    obtain ⟨tok, v, r, rfl⟩ := Terminal.parse_node _ _ _ _ _ htok
    simp only [Node.rpos] at hinr hcase
    have h1 := run_rtrim_term cfg (F + 1) (.term t) rm ctx _ st st tok v _ r [] hb hinr hoff
      (run_term_node cfg F t ctx _ st hb _ htok)
    by_cases hokr : wsOk rm (rest cfg.file r)
    · rw [if_pos hokr] at h1
      have h := run_ltrim_res cfg (F + 2) (.rtrim (.term t) rm) m ctx pos st st _ _ hb hin hoff h1
      rw [if_neg hok] at h
      exact h
    · rw [if_neg hokr] at h1
      have hlt : pos + wsRun (rest cfg.file pos) < r := by
        cases hcase with
        | inl h => exact h
        | inr h => exact absurd h hokr
      have hpos : (wsFail rm r (rest cfg.file r)).pos > pos + wsRun (rest cfg.file pos) := by
        cases rm <;> simp only [wsFail] <;> omega
      have h := run_ltrim_err cfg (F + 2) (.rtrim (.term t) rm) m ctx pos st st _ _ _ hb hin hoff h1
      rw [if_neg hok, if_pos hpos] at h
      exact h

/-- **reject on the right**, every decoration with a right mode (`r`, `lr`, `rl`): the left side is absent
    or accepts, the token matches with node `n`, and the run after it violates the right mode ⇒ no result, and
    exactly the right mode's error positioned relative to the end of the token. -/
theorem c10_deco_reject_right (cfg : Cfg) (fuel : Nat) (d : Deco) (rm : WsMode) (t : Terminal) (ctx : Ctx) (pos : Nat) (st : St) (n : Node)
    (hf : 3 ≤ fuel) (hb : cfg.maxCalls = 0 ∨ st.calls ≤ cfg.maxCalls)
    (hin : InFile cfg.file pos) (hinr : InFile cfg.file n.rpos) (hoff : 1 ≤ cfg.file.offset)
    (hd : d.right = some rm)
    (htok : t.parse cfg.params cfg.file
      (pos + (match d.left with | some _ => wsRun (rest cfg.file pos) | none => 0)) = .node n)
    (hl : ∀ lm, d.left = some lm → wsOk lm (rest cfg.file pos))
    (hok : ¬ wsOk rm (rest cfg.file n.rpos)) :
    run cfg fuel (d.apply (.term t)) ctx pos st =
      some (⟨.nil, [], some (wsFail rm n.rpos (rest cfg.file n.rpos))⟩, st) := by
  obtain ⟨F, rfl⟩ : ∃ F, fuel = F + 3 := ⟨fuel - 3, by omega⟩
  cases d with
  | bare => simp [Deco.right] at hd
  | l m => simp [Deco.right] at hd
  | r m =>
    simp only [Deco.right, Option.some.injEq] at hd; subst hd
    simp only [Deco.left, Nat.add_zero] at htok
    exact c10_rtrim_reject cfg (F + 3) t m ctx pos st n (by omega) hb hinr hoff htok hok
  | lr lm m =>
    simp only [Deco.right, Option.some.injEq] at hd; subst hd
    simp only [Deco.left] at htok hl
    have h1 := c10_rtrim_reject cfg (F + 2) t m ctx _ st n (by omega) hb hinr hoff htok hok
    have h := run_ltrim_err cfg (F + 2) (.rtrim (.term t) m) lm ctx pos st st _ _ _ hb hin hoff h1
    rw [if_pos (hl lm rfl)] at h
    exact h
  | rl lm m =>
    simp only [Deco.right, Option.some.injEq] at hd; subst hd
    simp only [Deco.left] at htok hl
    obtain ⟨tok, v, r, rfl⟩ := Terminal.parse_node _ _ _ _ _ htok
    simp only [Node.rpos] at hinr hok ⊢
    have h1 := run_ltrim_res cfg (F + 1) (.term t) lm ctx pos st st _ _ hb hin hoff (run_term_node cfg F t ctx _ st hb _ htok)
    rw [if_pos (hl lm rfl)] at h1
    have h := run_rtrim_term cfg (F + 2) (.ltrim (.term t) lm) m ctx pos st st tok v _ r [] hb hinr hoff h1
    rw [if_neg hok] at h
    exact h

/-! ### Parse -/

/-- parsley.Parse returns a whitespace error as it is, even when the context's furthest error is further
    (for every other error the further context error would be preferred) -/
theorem c10_parse_reports_ws (cfg : Cfg) (fuel : Nat) (g : G) (st st' : St) (o : Out) (e : Err)
    (hrun : run cfg fuel g [] (cfg.file.pos 0) st = some (o, st'))
    (herr : o.err = some e) (hws : e.kind.isWs = true) :
    parse cfg fuel g st =
      some { res := .nil, err := some e, msg := some (failedPrefix ++ errorWithPosition cfg.fileSet e), st := st' } := by
  unfold parse
  simp only [hrun, herr, Option.isNone_some, Bool.and_false, Bool.false_eq_true, if_false, hws, Bool.not_true]

/-- instance: a left-trimmed token at the start of the file whose leading whitespace violates the mode —
    Parse reports exactly that mode's whitespace error, whatever error the context already holds -/
theorem c10_parse_ltrim_reject (cfg : Cfg) (fuel : Nat) (t : Terminal) (m : WsMode) (st : St) (n : Node)
    (hf : 2 ≤ fuel) (hb : cfg.maxCalls = 0 ∨ st.calls ≤ cfg.maxCalls) (hoff : 1 ≤ cfg.file.offset)
    (htok : t.parse cfg.params cfg.file (cfg.file.pos 0 + wsRun (rest cfg.file (cfg.file.pos 0))) = .node n)
    (hok : ¬ wsOk m (rest cfg.file (cfg.file.pos 0))) :
    (parse cfg fuel (.ltrim (.term t) m) st).map (fun p => (p.res.isNil, p.err)) =
      some (true, some (wsFail m (cfg.file.pos 0) (rest cfg.file (cfg.file.pos 0)))) := by
  have hin : InFile cfg.file (cfg.file.pos 0) := by unfold InFile File.pos; omega
  rw [c10_parse_reports_ws cfg fuel _ st st _ _
    (c10_ltrim_reject cfg fuel t m [] _ st n hf hb hin hoff htok hok) rfl (wsFail_isWs _ _ _)]
  rfl

/-! ### transparency -/

/-- **main theorem.**  A SeqOf of trim-decorated single-byte tokens (`Deco`: bare, LeftTrim, RightTrim,
    LeftTrim∘RightTrim, RightTrim∘LeftTrim — text.Trim is the last one with both modes spaces-and-newlines),
    any assignment of the four modes, run at any position where the input reads `weave g0 toks` (leading
    whitespace `g0`, then every token followed by its own whitespace string): if every gap satisfies every
    mode that looks at it (`Adm`), the parse succeeds without error, and the children are exactly
    `tokNodes`: one TerminalNode per token, see `c10_transparent_nodes`.  The root spans from the first
    token's own byte to the end of the last token (past its gap only if it is right-trimmed). -/
theorem c10_transparent (cfg : Cfg) (toks : List Tok) (o : SeqOpts) (g0 : Bytes) (ctx : Ctx) (pos : Nat) (st : St) (fuel : Nat)
    (hmc : cfg.maxCalls = 0) (hoff : 1 ≤ cfg.file.offset)
    (hne : toks ≠ []) (hsingle : o.single = false)
    (hwf : ∀ t ∈ toks, t.wf) (hg0 : ∀ b ∈ g0, isWs b = true)
    (hin : InFile cfg.file pos) (hrest : rest cfg.file pos = weave g0 toks)
    (hadm : Adm g0 toks) (hfuel : toks.length + 4 ≤ fuel) :
    run cfg fuel (.seq .seqOf (toks.map Tok.g) o) ctx pos st =
      some (⟨.one (.nt (o.token.getD seqTok) (tokNodes pos g0 toks) (pos + g0.length) (endPos pos g0 toks) o.interp), [], none⟩,
            { st with calls := st.calls + toks.length }) := by
  rw [run_seqOf_toks cfg hmc hoff toks o g0 ctx pos st fuel _ rfl hwf hg0 hrest hin hadm hfuel]
  cases toks with
  | nil => exact absurd rfl hne
  | cons t r =>
    obtain ⟨n, l, hnl, hpos⟩ := tokNodes_head pos g0 t r
    have hlast := tokNodes_last pos g0 (t :: r) (by simp)
    rw [hnl] at hlast ⊢
    rw [handleResult_cons _ _ n l hsingle, hpos]
    cases hgl : (n :: l).getLast? with
    | none => simp at hgl
    | some x =>
      rw [hgl] at hlast
      simp only [Option.map_some, Option.some.injEq] at hlast
      simp only [Option.getD_some, hlast]

/-- the same through parsley.Parse: the whole file is `weave g0 toks` ⇒ Parse returns that tree and no error -/
theorem c10_transparent_parse (cfg : Cfg) (toks : List Tok) (o : SeqOpts) (g0 : Bytes) (st : St) (fuel : Nat)
    (hmc : cfg.maxCalls = 0) (hoff : 1 ≤ cfg.file.offset)
    (hne : toks ≠ []) (hsingle : o.single = false)
    (hwf : ∀ t ∈ toks, t.wf) (hg0 : ∀ b ∈ g0, isWs b = true)
    (hdata : cfg.file.data = weave g0 toks)
    (hadm : Adm g0 toks) (hfuel : toks.length + 4 ≤ fuel) :
    parse cfg fuel (.seq .seqOf (toks.map Tok.g) o) st =
      some { res := .one (.nt (o.token.getD seqTok) (tokNodes cfg.file.offset g0 toks) (cfg.file.offset + g0.length)
                        (endPos cfg.file.offset g0 toks) o.interp),
             err := none, msg := none, st := { st with calls := st.calls + toks.length } } := by
  have hin : InFile cfg.file (cfg.file.pos 0) := by unfold InFile File.pos; omega
  have hrest : rest cfg.file (cfg.file.pos 0) = weave g0 toks := by
    unfold rest File.pos; simp [hdata]
  unfold parse
  simp only [c10_transparent cfg toks o g0 [] _ st fuel hmc hoff hne hsingle hwf hg0 hin hrest hadm hfuel]
  rfl

/-- what the children are: the i-th child has the bare terminal's token and value whatever the gaps are,
    its `pos` is the position of the token's own first byte (the input byte at that position is the token's
    byte), and its end is one past that byte, plus its own gap exactly when it is right-trimmed. -/
theorem c10_transparent_nodes (pos : Nat) (g0 : Bytes) (toks : List Tok) :
    (tokNodes pos g0 toks).length = toks.length ∧
    (∀ i t, toks[i]? = some t →
      (tokNodes pos g0 toks)[i]? = some (.term (Utf8.encodeRune t.ch) (.rune t.ch)
        (pos + (weave g0 (toks.take i)).length)
        (pos + (weave g0 (toks.take i)).length + 1 + (match t.d.right with | some _ => t.gap.length | none => 0))) ∧
      (weave g0 toks)[(weave g0 (toks.take i)).length]? = some t.ch) ∧
    (tokNodes pos g0 toks).map Node.tv = toks.map (fun t => (Utf8.encodeRune t.ch, some (Val.rune t.ch))) :=
  ⟨tokNodes_length pos g0 toks,
   fun i t h => ⟨tokNodes_get pos g0 toks i t h, weave_byte g0 toks i t h⟩,
   tokNodes_tv pos g0 toks⟩

/-- **inserting permitted whitespace never changes a parse result**: the same decorated tokens with two
    different choices of whitespace (for instance: none at all), in two files at any offsets, both
    admissible for the modes — both parses succeed, with the same root token and interpreter and
    children that agree in number, token and value; only positions differ. -/
theorem c10_transparent_shape (cfg cfg' : Cfg) (toks toks' : List Tok) (o : SeqOpts) (g0 g0' : Bytes)
    (ctx ctx' : Ctx) (pos pos' : Nat) (st st' : St) (fuel : Nat)
    (hsame : toks.map (fun t => (t.ch, t.name, t.d)) = toks'.map (fun t => (t.ch, t.name, t.d)))
    (hne : toks ≠ []) (hsingle : o.single = false)
    (hmc : cfg.maxCalls = 0) (hoff : 1 ≤ cfg.file.offset)
    (hwf : ∀ t ∈ toks, t.wf) (hg0 : ∀ b ∈ g0, isWs b = true)
    (hin : InFile cfg.file pos) (hrest : rest cfg.file pos = weave g0 toks) (hadm : Adm g0 toks)
    (hmc' : cfg'.maxCalls = 0) (hoff' : 1 ≤ cfg'.file.offset)
    (hwf' : ∀ t ∈ toks', t.wf) (hg0' : ∀ b ∈ g0', isWs b = true)
    (hin' : InFile cfg'.file pos') (hrest' : rest cfg'.file pos' = weave g0' toks') (hadm' : Adm g0' toks')
    (hfuel : toks.length + 4 ≤ fuel) :
    ∃ kids kids' p r p' r' s s',
      run cfg fuel (.seq .seqOf (toks.map Tok.g) o) ctx pos st =
        some (⟨.one (.nt (o.token.getD seqTok) kids p r o.interp), [], none⟩, s) ∧
      run cfg' fuel (.seq .seqOf (toks.map Tok.g) o) ctx' pos' st' =
        some (⟨.one (.nt (o.token.getD seqTok) kids' p' r' o.interp), [], none⟩, s') ∧
      kids.map Node.tv = kids'.map Node.tv := by
  have hlen : toks'.length = toks.length := by
    have := congrArg List.length hsame; simpa using this.symm
  have hg : toks.map Tok.g = toks'.map Tok.g := by
    have := congrArg (List.map (fun (x : Nat × Bytes × Deco) => x.2.2.apply (.term (.rune x.1 x.2.1)))) hsame
    simp only [List.map_map, Function.comp_def] at this
    exact this
  have htv : toks.map (fun t => (Utf8.encodeRune t.ch, some (Val.rune t.ch))) =
      toks'.map (fun t => (Utf8.encodeRune t.ch, some (Val.rune t.ch))) := by
    have := congrArg (List.map (fun (x : Nat × Bytes × Deco) => (Utf8.encodeRune x.1, some (Val.rune x.1)))) hsame
    simpa [List.map_map, Function.comp_def] using this
  have hne' : toks' ≠ [] := by
    intro h; rw [h] at hlen; exact hne (List.eq_nil_of_length_eq_zero (by simpa using hlen.symm))
  refine ⟨tokNodes pos g0 toks, tokNodes pos' g0' toks', pos + g0.length, endPos pos g0 toks,
    pos' + g0'.length, endPos pos' g0' toks', { st with calls := st.calls + toks.length },
    { st' with calls := st'.calls + toks'.length },
    c10_transparent cfg toks o g0 ctx pos st fuel hmc hoff hne hsingle hwf hg0 hin hrest hadm hfuel, ?_, ?_⟩
  · rw [hg]
    exact c10_transparent cfg' toks' o g0' ctx' pos' st' fuel hmc' hoff' hne' hsingle hwf' hg0' hin' hrest' hadm' (by omega)
  · rw [tokNodes_tv, tokNodes_tv, htv]

/-! ### facts taken from the source (regenerated on every run) -/

theorem c10_facts : Facts.wsBytes = [32, 9, 10, 12] ∧ Facts.wsBreakBytes = [10, 12] := by decide

/-! ### non-vacuity: a concrete file, every hypothesis discharged, and the model evaluated -/

def c10Params : Params := { floatOk := fun _ => true, durErr := fun _ => none, regexp := fun _ _ => none }
/-- "a \n b" at base offset 1 -/
def c10File : File := { name := "t", data := [97, 32, 10, 32, 98], offset := 1 }
def c10Cfg : Cfg := { env := [], file := c10File, fileSet := {}, params := c10Params }
def c10A : Terminal := .rune 97 [39, 97, 39]
def c10B : Terminal := .rune 98 [39, 98, 39]

theorem c10_nv_in (p : Nat) (h : 1 ≤ p ∧ p ≤ 6) : InFile c10Cfg.file p := by
  unfold InFile File.len c10Cfg c10File; simpa using h

-- LeftTrim at position 2 (the run " \n " of length 3, first break at offset 1, then 'b' at 5)
example : wsRun (rest c10Cfg.file 2) = 3 ∧ firstBreak (rest c10Cfg.file 2) = some 1 := by decide
example : c10B.parse c10Cfg.params c10Cfg.file 5 = .node (.term [98] (.rune 98) 5 6) := rfl

example : run c10Cfg 2 (.ltrim (.term c10B) .spacesNl) [] 2 {} = some (⟨.one (.term [98] (.rune 98) 5 6), [], none⟩, {}) :=
  (c10_ltrim_accept c10Cfg 2 c10B .spacesNl [] 2 {} _ (by decide) (Or.inl rfl) (c10_nv_in 2 (by decide)) (by decide) rfl (by decide)).1


example : run c10Cfg 2 (.ltrim (.term c10B) .forceNl) [] 2 {} = some (⟨.one (.term [98] (.rune 98) 5 6), [], none⟩, {}) :=
  (c10_ltrim_accept c10Cfg 2 c10B .forceNl [] 2 {} _ (by decide) (Or.inl rfl) (c10_nv_in 2 (by decide)) (by decide) rfl (by decide)).1

-- rejected: none at the start of the run (2), spaces at the first line break (3); force-newline at the end of the run " " from 4 (5)
example : run c10Cfg 2 (.ltrim (.term c10B) .none) [] 2 {} = some (⟨.nil, [], some ⟨2, .ws .noneErr⟩⟩, {}) :=
  c10_ltrim_reject c10Cfg 2 c10B .none [] 2 {} _ (by decide) (Or.inl rfl) (c10_nv_in 2 (by decide)) (by decide) rfl (by decide)
example : run c10Cfg 2 (.ltrim (.term c10B) .spaces) [] 2 {} = some (⟨.nil, [], some ⟨3, .ws .spacesErr⟩⟩, {}) :=
  c10_ltrim_reject c10Cfg 2 c10B .spaces [] 2 {} _ (by decide) (Or.inl rfl) (c10_nv_in 2 (by decide)) (by decide) rfl (by decide)
example : run c10Cfg 2 (.ltrim (.term c10B) .forceNl) [] 4 {} = some (⟨.nil, [], some ⟨5, .ws .forceNlErr⟩⟩, {}) :=
  c10_ltrim_reject c10Cfg 2 c10B .forceNl [] 4 {} _ (by decide) (Or.inl rfl) (c10_nv_in 4 (by decide)) (by decide) rfl (by decide)

-- the same three, evaluated directly in the model
example : (run c10Cfg 2 (.ltrim (.term c10B) .none) [] 2 {}).map (fun p => (p.1.res.isNil, p.1.err)) = some (true, some ⟨2, .ws .noneErr⟩) ∧
    (run c10Cfg 2 (.ltrim (.term c10B) .spaces) [] 2 {}).map (fun p => (p.1.res.isNil, p.1.err)) = some (true, some ⟨3, .ws .spacesErr⟩) ∧
    (run c10Cfg 2 (.ltrim (.term c10B) .forceNl) [] 4 {}).map (fun p => (p.1.res.isNil, p.1.err)) = some (true, some ⟨5, .ws .forceNlErr⟩) := by
  decide

-- the token fails ('a' is asked for where 'b' stands): kept at 5 under an accepted run, moved to 2 under a rejected one
example : c10A.parse c10Cfg.params c10Cfg.file 5 = .err ⟨5, .notFound [39, 97, 39]⟩ := rfl
example : (run c10Cfg 2 (.ltrim (.term c10A) .spacesNl) [] 2 {}).map (fun p => p.1.err) = some (some ⟨5, .notFound [39, 97, 39]⟩) ∧
    (run c10Cfg 2 (.ltrim (.term c10A) .spaces) [] 2 {}).map (fun p => p.1.err) = some (some ⟨2, .notFound [39, 97, 39]⟩) := by
  constructor
  · rw [c10_ltrim_token_notfound c10Cfg 2 c10A .spacesNl [] 2 {} _ (by decide) (Or.inl rfl) (c10_nv_in 2 (by decide)) (by decide) rfl (by decide) rfl]
    rfl
  · rw [c10_ltrim_token_notfound c10Cfg 2 c10A .spaces [] 2 {} _ (by decide) (Or.inl rfl) (c10_nv_in 2 (by decide)) (by decide) rfl (by decide) rfl]
    rfl

-- RightTrim of 'a' at 1: the node (1,2) ends at 5 after the run, or is rejected at 2 / 3
example : c10A.parse c10Cfg.params c10Cfg.file 1 = .node (.term [97] (.rune 97) 1 2) := rfl
example : ∃ tok v, Node.term [97] (.rune 97) 1 2 = .term tok v 1 2 ∧
    run c10Cfg 2 (.rtrim (.term c10A) .forceNl) [] 1 {} = some (⟨.one (.term tok v 1 (2 + 3)), [], none⟩, {}) :=
  c10_rtrim_accept c10Cfg 2 c10A .forceNl [] 1 {} _ (by decide) (Or.inl rfl) (c10_nv_in 2 (by decide)) (by decide) rfl (by decide)
example : run c10Cfg 2 (.rtrim (.term c10A) .none) [] 1 {} = some (⟨.nil, [], some ⟨2, .ws .noneErr⟩⟩, {}) :=
  c10_rtrim_reject c10Cfg 2 c10A .none [] 1 {} (.term [97] (.rune 97) 1 2) (by decide) (Or.inl rfl) (c10_nv_in 2 (by decide)) (by decide) rfl (by decide)
example : run c10Cfg 2 (.rtrim (.term c10A) .spaces) [] 1 {} = some (⟨.nil, [], some ⟨3, .ws .spacesErr⟩⟩, {}) :=
  c10_rtrim_reject c10Cfg 2 c10A .spaces [] 1 {} (.term [97] (.rune 97) 1 2) (by decide) (Or.inl rfl) (c10_nv_in 2 (by decide)) (by decide) rfl (by decide)
example : (run c10Cfg 2 (.rtrim (.term c10A) .forceNl) [] 1 {}).map (fun p => (p.1.res.alts.map (fun n => (n.token, n.pos, n.rpos)), p.1.err)) =
    some ([([97], 1, 5)], none) := by decide

-- Parse prefers the whitespace error (at 2) to a further context error (at 5)
def c10CfgWs : Cfg := { c10Cfg with file := { name := "w", data := [32, 98], offset := 1 } }
example : (parse c10CfgWs 2 (.ltrim (.term c10B) .none) { ctxErr := some ⟨3, .notFound [120]⟩ }).map (fun p => (p.res.isNil, p.err)) =
    some (true, some ⟨1, .ws .noneErr⟩) :=
  c10_parse_ltrim_reject c10CfgWs 2 c10B .none _ (.term [98] (.rune 98) 2 3) (by decide) (Or.inl rfl) (by decide) rfl (by decide)


/-- a context error further than the whitespace error also arises inside a parse: the second alternative of
    Any gets as far as position 5 before failing, LeftTrim(none) then rejects the run at 2 -/
def c10Any : G := .seq .seqOf [.any [.term c10A, .seq .seqOf [.term c10A, .term (.rune 32 []), .term (.rune 10 []), .term (.rune 32 []), .term c10A] {}],
  .ltrim (.term c10B) .none] {}
example : (parse c10Cfg 9 c10Any).map (fun p => (p.err, p.st.ctxErr)) =
    some (some ⟨2, .ws .noneErr⟩, some ⟨5, .notFound [39, 97, 39]⟩) := by decide

-- transparency: "a \n b" under RightTrim(a, spaces-and-newlines) · LeftTrim(b, spaces), and under a · LeftTrim(RightTrim(b, none), force-newline)
def c10Toks1 : List Tok := [⟨97, [39, 97, 39], .r .spacesNl, [32, 10, 32]⟩, ⟨98, [39, 98, 39], .l .spaces, []⟩]
def c10Toks2 : List Tok := [⟨97, [39, 97, 39], .bare, [32, 10, 32]⟩, ⟨98, [39, 98, 39], .lr .forceNl .none, []⟩]
/-- the same tokens with no whitespace at all: "ab" -/
def c10Toks0 : List Tok := [⟨97, [39, 97, 39], .r .spacesNl, []⟩, ⟨98, [39, 98, 39], .l .spaces, []⟩]
def c10Cfg0 : Cfg := { c10Cfg with file := { name := "u", data := [97, 98], offset := 8 } }

theorem c10_nv_wf1 : ∀ t ∈ c10Toks1, t.wf := by
  intro t ht; simp only [c10Toks1, List.mem_cons, List.not_mem_nil, or_false] at ht
  rcases ht with rfl | rfl <;> (unfold Tok.wf; decide)
theorem c10_nv_wf2 : ∀ t ∈ c10Toks2, t.wf := by
  intro t ht; simp only [c10Toks2, List.mem_cons, List.not_mem_nil, or_false] at ht
  rcases ht with rfl | rfl <;> (unfold Tok.wf; decide)
theorem c10_nv_wf0 : ∀ t ∈ c10Toks0, t.wf := by
  intro t ht; simp only [c10Toks0, List.mem_cons, List.not_mem_nil, or_false] at ht
  rcases ht with rfl | rfl <;> (unfold Tok.wf; decide)
theorem c10_nv_adm1 : Adm [] c10Toks1 := by
  simp only [c10Toks1, Adm, Deco.left, Deco.right]; decide
theorem c10_nv_adm2 : Adm [] c10Toks2 := by
  simp only [c10Toks2, Adm, Deco.left, Deco.right]; decide
theorem c10_nv_adm0 : Adm [] c10Toks0 := by
  simp only [c10Toks0, Adm, Deco.left, Deco.right]; decide

example : run c10Cfg 6 (.seq .seqOf (c10Toks1.map Tok.g) {}) [] 1 {} =
    some (⟨.one (.nt seqTok [.term [97] (.rune 97) 1 5, .term [98] (.rune 98) 5 6] 1 6 .none), [], none⟩, { calls := 2 }) :=
  c10_transparent c10Cfg c10Toks1 {} [] [] 1 {} 6 rfl (by decide) (by decide) rfl c10_nv_wf1 (by simp) (c10_nv_in 1 (by decide)) rfl c10_nv_adm1 (by decide)
example : run c10Cfg 6 (.seq .seqOf (c10Toks2.map Tok.g) {}) [] 1 {} =
    some (⟨.one (.nt seqTok [.term [97] (.rune 97) 1 2, .term [98] (.rune 98) 5 6] 1 6 .none), [], none⟩, { calls := 2 }) :=
  c10_transparent c10Cfg c10Toks2 {} [] [] 1 {} 6 rfl (by decide) (by decide) rfl c10_nv_wf2 (by simp) (c10_nv_in 1 (by decide)) rfl c10_nv_adm2 (by decide)
example : run c10Cfg0 6 (.seq .seqOf (c10Toks1.map Tok.g) {}) [] 8 {} =
    some (⟨.one (.nt seqTok [.term [97] (.rune 97) 8 9, .term [98] (.rune 98) 9 10] 8 10 .none), [], none⟩, { calls := 2 }) :=
  c10_transparent c10Cfg0 c10Toks0 {} [] [] 8 {} 6 rfl (by decide) (by decide) rfl c10_nv_wf0 (by simp)
    (by unfold InFile File.len c10Cfg0; decide) rfl c10_nv_adm0 (by decide)
-- and a gap that violates a mode that looks at it is not admissible
example : ¬ Adm [] [⟨97, [39, 97, 39], .r .spaces, [32, 10, 32]⟩, ⟨98, [39, 98, 39], .bare, []⟩] := by
  simp only [Adm, Deco.left, Deco.right]; decide


-- "a \n b" and "ab" give the same tokens and values
example : ∃ kids kids' p r p' r' s s',
    run c10Cfg 6 (.seq .seqOf (c10Toks1.map Tok.g) {}) [] 1 {} = some (⟨.one (.nt seqTok kids p r .none), [], none⟩, s) ∧
    run c10Cfg0 6 (.seq .seqOf (c10Toks1.map Tok.g) {}) [] 8 {} = some (⟨.one (.nt seqTok kids' p' r' .none), [], none⟩, s') ∧
    kids.map Node.tv = kids'.map Node.tv :=
  c10_transparent_shape c10Cfg c10Cfg0 c10Toks1 c10Toks0 {} [] [] [] [] 1 8 {} {} 6 rfl (by decide) rfl
    rfl (by decide) c10_nv_wf1 (by simp) (c10_nv_in 1 (by decide)) rfl c10_nv_adm1
    rfl (by decide) c10_nv_wf0 (by simp) (by unfold InFile File.len c10Cfg0; decide) rfl c10_nv_adm0 (by decide)

-- Trim(b) at 2: own start 5, end 6 (end of file, empty trailing run)
example : ∃ tok v, Node.term [98] (.rune 98) 5 6 = .term tok v (2 + 3) 6 ∧
    run c10Cfg 3 (G.trim (.term c10B)) [] 2 {} = some (⟨.one (.term tok v (2 + 3) (6 + 0)), [], none⟩, {}) :=
  c10_trim c10Cfg 3 c10B [] 2 {} (.term [98] (.rune 98) 5 6) (by decide) (Or.inl rfl) (c10_nv_in 2 (by decide)) (c10_nv_in 6 (by decide)) (by decide) rfl

-- RightTrim outermost over a rejecting LeftTrim: the whitespace error stays at the start of the run (2), it is
-- no longer moved past the run (D10, fixed); through the theorem and evaluated directly
example : run c10Cfg 3 ((Deco.rl .none .spacesNl).apply (.term c10B)) [] 2 {} = some (⟨.nil, [], some ⟨2, .ws .noneErr⟩⟩, {}) :=
  c10_deco_reject_left c10Cfg 3 (.rl .none .spacesNl) .none c10B [] 2 {} (.term [98] (.rune 98) 5 6) (by decide) (Or.inl rfl)
    (c10_nv_in 2 (by decide)) (by decide) rfl rfl (by decide) (by intro rm h; cases h)
example : run c10Cfg 3 ((Deco.lr .spaces .spacesNl).apply (.term c10B)) [] 2 {} = some (⟨.nil, [], some ⟨3, .ws .spacesErr⟩⟩, {}) :=
  c10_deco_reject_left c10Cfg 3 (.lr .spaces .spacesNl) .spaces c10B [] 2 {} (.term [98] (.rune 98) 5 6) (by decide) (Or.inl rfl)
    (c10_nv_in 2 (by decide)) (by decide) rfl rfl (by decide)
    (by intro rm h; cases h; exact ⟨c10_nv_in 6 (by decide), Or.inl (by decide)⟩)
example : run c10Cfg 3 ((Deco.rl .spacesNl .spaces).apply (.term c10A)) [] 1 {} = some (⟨.nil, [], some ⟨3, .ws .spacesErr⟩⟩, {}) :=
  c10_deco_reject_right c10Cfg 3 (.rl .spacesNl .spaces) .spaces c10A [] 1 {} (.term [97] (.rune 97) 1 2) (by decide) (Or.inl rfl)
    (c10_nv_in 1 (by decide)) (c10_nv_in 2 (by decide)) (by decide) rfl rfl (by intro lm h; cases h; trivial) (by decide)
example : ∃ tok v, Node.term [98] (.rune 98) 5 6 = .term tok v (2 + 3) 6 ∧
    run c10Cfg 3 ((Deco.lr .forceNl .none).apply (.term c10B)) [] 2 {} = some (⟨.one (.term tok v (2 + 3) (6 + 0)), [], none⟩, {}) :=
  c10_deco_accept c10Cfg 3 (.lr .forceNl .none) c10B [] 2 {} (.term [98] (.rune 98) 5 6) (by decide) (Or.inl rfl)
    (c10_nv_in 2 (by decide)) (by decide) rfl (by intro lm h; cases h; decide)
    (by intro rm h; cases h; exact ⟨c10_nv_in 6 (by decide), by decide⟩)

-- the side condition of `c10_deco_reject_left` for LeftTrim∘RightTrim is needed: an EMPTY token (a regexp matching
-- the empty string) whose right mode rejects as well reports the right mode's error (5), not the left one (2)
example : (run { c10Cfg with params := { c10Params with regexp := fun _ _ => some (0, none) } } 3
      ((Deco.lr .none .forceNl).apply (.term (.regexp 0 [82] [114] false))) [] 2 {}).map (fun p => p.1.err) =
    some (some ⟨5, .ws .forceNlErr⟩) := by decide

/-- the model evaluated (model = trim.go):
    (1) RightTrim around a LeftTrim that rejected its run reports the whitespace error where LeftTrim put it,
        at the start of the run (2), not past it (5) — the positive counterpart of the former D10 witness;
    (2) still outside the theorems' hypotheses: a force-newline LeftTrim after a right-trimmed token looks
        at an empty run and rejects (`Adm` demands that the left mode accepts the empty run there). -/
theorem c10_outside_the_theorems :
    (run c10Cfg 3 (.rtrim (.ltrim (.term c10B) .none) .spacesNl) [] 2 {}).map (fun p => p.1.err) = some (some ⟨2, .ws .noneErr⟩) ∧
    (run c10Cfg 6 (.seq .seqOf [.rtrim (.term c10A) .spacesNl, .ltrim (.term c10B) .forceNl] {}) [] 1 {}).map (fun p => p.1.err) =
      some (some ⟨5, .ws .forceNlErr⟩) := by decide

end PV
