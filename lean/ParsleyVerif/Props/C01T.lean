/-
  C01 / C02 / C04 with the BUILT-IN terminals: the hypothesis `TermGood` of the positional theorems is
  discharged by C08 for every built-in literal parser whose construction parameters are in the documented
  domain (`Terminal.WF`) and whose external regexp engine respects its contract (`LenOk`, `GroupOk`).
  So for grammars over the combinator set whose leaves are ANY of rune, op, word, bool, nil, integer, float,
  string, char, duration, regexp — not only single-byte runes — the span, re-entry and Sentence theorems hold.
-/
import ParsleyVerif.Props.C01
import ParsleyVerif.Props.C02
import ParsleyVerif.Props.C04
import ParsleyVerif.Props.C08
namespace PV
open PV.Text

/-- a built-in terminal used within its documented domain -/
def BuiltinOK (cfg : Cfg) (t : Terminal) : Prop := t.WF ∧ cfg.params.LenOk t ∧ cfg.params.GroupOk t

mutual
theorem G.Core_monoT {P Q : Terminal → Prop} (h : ∀ t, P t → Q t) : ∀ g : G, g.Core P → g.Core Q
  | .term t, hg => by simp only [G.Core] at hg ⊢; exact h t hg
  | .empty, _ => by simp [G.Core]
  | .eof, _ => by simp [G.Core]
  | .ref _, _ => by simp [G.Core]
  | .memo _ g, hg => by simp only [G.Core] at hg ⊢; exact G.Core_monoT h g hg
  | .any gs, hg => by simp only [G.Core] at hg ⊢; exact CoreList_monoT h gs hg
  | .choice gs, hg => by simp only [G.Core] at hg ⊢; exact CoreList_monoT h gs hg
  | .seq _ gs _, hg => by simp only [G.Core] at hg ⊢; exact CoreList_monoT h gs hg
  | .many g _ _, hg => by simp only [G.Core] at hg ⊢; exact G.Core_monoT h g hg
  | .sepBy v s _ _, hg => by simp only [G.Core] at hg ⊢; exact ⟨G.Core_monoT h v hg.1, G.Core_monoT h s hg.2⟩
  | .optional g, hg => by simp only [G.Core] at hg ⊢; exact G.Core_monoT h g hg
  | .name g _, hg => by simp only [G.Core] at hg ⊢; exact G.Core_monoT h g hg
  | .single g, hg => by simp only [G.Core] at hg ⊢; exact G.Core_monoT h g hg
  | .suppress g, hg => by simp only [G.Core] at hg ⊢; exact G.Core_monoT h g hg
  | .ltrim _ _, hg => by simp [G.Core] at hg
  | .rtrim _ _, hg => by simp [G.Core] at hg
theorem CoreList_monoT {P Q : Terminal → Prop} (h : ∀ t, P t → Q t) : ∀ gs : List G, CoreList P gs → CoreList Q gs
  | [], _ => by simp [CoreList]
  | g :: gs, hg => by simp only [CoreList] at hg ⊢; exact ⟨G.Core_monoT h g hg.1, CoreList_monoT h gs hg.2⟩
end

/-- a grammar over built-in terminals is in the scope of the positional theorems -/
theorem scope_of_builtin (cfg : Cfg) (g : G) (hroot : g.Core (BuiltinOK cfg))
    (henv : ∀ g' ∈ cfg.env, g'.Core (BuiltinOK cfg)) : Scope cfg g :=
  ⟨G.Core_monoT (fun t ht => c08_termGood cfg t ht.1 ht.2.1 ht.2.2) g hroot,
   fun g' hg' => G.Core_monoT (fun t ht => c08_termGood cfg t ht.1 ht.2.1 ht.2.2) g' (henv g' hg')⟩

/-- **C01 spans for grammars over any built-in terminals** -/
theorem c01_spans_builtin (cfg : Cfg) (g : G) (hroot : g.Core (BuiltinOK cfg))
    (henv : ∀ g' ∈ cfg.env, g'.Core (BuiltinOK cfg)) (fuel : Nat) (o : Out) (st' : St)
    (h : run cfg fuel g [] (cfg.file.pos 0) {} = some (o, st')) :
    ∀ x ∈ o.res.alts, x.pos = cfg.file.pos 0 ∧ x.WF cfg.hi ∧ x.spell cfg.file = slice cfg.file (cfg.file.pos 0) x.rpos := by
  intro x hx
  obtain ⟨h1, h2, _, _, h5⟩ := c01_spans cfg g (scope_of_builtin cfg g hroot henv) fuel [] _ {} o st' (c01_pre_initial cfg) h x hx
  exact ⟨h1, h2, h5⟩

/-- **C02 re-entry bound for grammars over any built-in terminals** -/
theorem c02_reentry_builtin (cfg : Cfg) (g : G) (hroot : g.Core (BuiltinOK cfg))
    (henv : ∀ g' ∈ cfg.env, g'.Core (BuiltinOK cfg)) (fuel : Nat) (o : Out) (st' : St)
    (h : run cfg fuel g [] (cfg.file.pos 0) {} = some (o, st')) :
    ∀ idx p d, Ev.body idx p d ∈ st'.log → d ≤ remaining cfg.file p + 2 :=
  c02_reentry cfg g (scope_of_builtin cfg g hroot henv) fuel o st' h

/-- non-vacuity: every kind of built-in terminal is admissible for the configuration of Props/C01.lean (whose regexp
    parameter never matches) -/
example : ∀ t ∈ [Terminal.integer, .float, .string true, .char, .duration, .rune 233 [], .op [43] [], .bool [116] [102],
    .regexp 0 [] [] true], BuiltinOK nvCfg t := by
  intro t ht
  simp only [List.mem_cons, List.mem_nil_iff, or_false] at ht
  rcases ht with rfl | rfl | rfl | rfl | rfl | rfl | rfl | rfl | rfl <;>
    simp [BuiltinOK, Terminal.WF, Params.LenOk, Params.GroupOk, nvCfg]

end PV
