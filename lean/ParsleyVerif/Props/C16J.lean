/-
  C16J — the grammar of the C16 theorems IS the grammar examples/json/json.NewParser constructs.

  `Generated/FactsJson.lean` is regenerated from /repo on every run (harness/cmd/factgen/progjson.go): the straight-line
  constructor `NewParser` read as a term of the model's grammar type.  The theorems of C16 (and C02U's termination of the JSON
  grammar) are proved about the closed term `Gjson` of Spec/Json.lean; here the two are proved EQUAL (`rfl` on closed terms —
  no sampling), and the decision theorem is restated about the extracted grammar.  A change of NewParser — an alternative
  reordered, SepBy → SepBy1, another trim mode, another separator or interpreter — makes `c16j_source_grammar` fail.
-/
import ParsleyVerif.Props.C16D
import ParsleyVerif.Generated.FactsJson
namespace PV
open PV.Text

/-- nothing of NewParser was refused by the extractor, and what it read is the grammar of the theorems -/
theorem c16j_source_grammar :
    FactsJson.untranslatedJson = [] ∧ FactsJson.translatedJson = ["NewParser", "Sentence", "Trim"] ∧
    FactsJson.valueRule = Gjson.valueRule ∧ FactsJson.env = Gjson.env :=
  ⟨rfl, rfl, rfl, rfl⟩

/-- `combinator.Sentence` and `text.Trim`, read from the source the same way, are the model's `G.sentence` and the
    `rtrim (ltrim · spacesNl) spacesNl` of the root; the root every C16 theorem parses is `Sentence(Trim(value))` built with
    the SOURCE's two functions -/
theorem c16j_sentence_trim :
    (∀ g, FactsJson.Sentence g = G.sentence g) ∧
    (∀ g, FactsJson.Trim g = .rtrim (.ltrim g .spacesNl) .spacesNl) ∧
    Gjson.root = FactsJson.Sentence (FactsJson.Trim (.ref 0)) :=
  ⟨fun _ => rfl, fun _ => rfl, rfl⟩

/-- the decision theorem of C16, about the grammar the SOURCE constructs: on every input, beyond some fuel, Parse of
    `Sentence(Trim(value))` over the extracted rule answers, accepts exactly the documents of `JLang`, every returned tree
    is the rendering's tree and denotes the document's value, and a document outside the language gives an error -/
theorem c16j_decides_source (cfg : Cfg) (henv : cfg.env = FactsJson.env) (hmc : cfg.maxCalls = 0) (hoff : 1 ≤ cfg.file.offset) :
    ∃ F, ∀ fuel, F ≤ fuel → ∃ p, parse cfg fuel Gjson.root = some p ∧
      (p.err = none ↔ JLang cfg.params cfg.file.data) ∧
      (p.err = none → p.res.alts ≠ [] ∧
        ∀ x ∈ p.res.alts, ∃ lead d trail, WsNlF lead ∧ WsNlF trail ∧ AccDoc.OK cfg.params d ∧
          cfg.file.data = renderAcc lead d trail ∧
          x = sentenceNode (J16Acc.rootTree cfg.file.offset lead d trail) ∧
          jvalOf (J16Acc.rootTree cfg.file.offset lead d trail) = some d.val) ∧
      (¬ JLang cfg.params cfg.file.data → p.res.isNil = true ∧ p.err.isSome ∧ p.msg.isSome) :=
  c16_decides cfg (henv.trans c16j_source_grammar.2.2.2) hmc hoff

/-- non-vacuity: the configuration of the accept example runs the extracted grammar -/
example : (nvJsonCfg [91, 49, 44, 10, 50, 93]).env = FactsJson.env := rfl

end PV
