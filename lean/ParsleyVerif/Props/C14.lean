/-
  C14 — a parser graph can be shared by concurrent parses.                      (claimed as PARTIAL)

  Property theorems only.  Model: ParsleyVerif/Model/Conc.lean; lemmas: ParsleyVerif/Proofs/Conc.lean;
  facts: ParsleyVerif/Generated/FactsConc.lean, regenerated from the source on every run by
  harness/cmd/factgen (conc.go: go/types over the repository's own packages, conservative call graph).

  What is proved
    * the LOGIC of non-interference: for every schedule (any interleaving, fair or not) a run whose steps can
      only see the read-only graph and its own state ends exactly where it ends when executed alone
      (`c14_noninterference`, `c14_noninterference_complete`), and the graph and the index counter are unchanged;
    * the same for a machine with ONE shared heap in which isolation is not built in but is the hypothesis
      "every run reads `own i ∪ ro` only and writes `own i` only, the `own`s are disjoint" (`c14_footprint`,
      `c14_readonly_untouched`) — and that without the hypothesis it fails (`c14_footprint_needed`);
    * an atomic fetch-add hands pairwise distinct parser indexes to any number of concurrent constructions under
      every interleaving (`c14_indices_distinct`, `c14_indices_obtained`); a load followed by a store does not
      (`c14_nonatomic_duplicates`);
    * on the CURRENT source, by `decide` on the regenerated facts (`c14_facts`): the only package level variable
      ever written / address-taken / pointer-called is `combinator.nextParserIndex`, atomically, in the constructor
      `combinator.Memoize` and never at parse time; no parse-time function writes a variable captured from a scope
      that outlives one parse (nothing is stored in the parser graph); every other parse-time write goes to a
      fresh local allocation, to a per-invocation captured variable, or through a root whose static type is in an
      explicit list of per-run object types; the library-allocated ones among these are allocated only in
      functions that run only within a parse.

  What is NOT proved, and cannot be in this model
    * the Go memory model.  A step here is atomic and immediately visible to every later step.  That a program
      whose goroutines have disjoint write footprints over a never-written shared part is data-race-free, and
      therefore sequentially consistent, is Go's DRF-SC guarantee; it is assumed, not derived.
    * real goroutine schedules, preemption points, the race detector's verdict.  The runner's `-race` workload
      covers those at run time; it is evidence, not proof.
    * that `c14_facts` entails the `Footprint` hypothesis for the real program.  The connection is by reading:
      `own i` = the objects of the listed per-run types reachable from run `i`'s context plus its stack,
      `ro` = the parser graph (closures and what they captured) and the package level variables;
      `writes_own` is what `c14_facts` checks syntactically (no write with a `pkgvar` or `captured-shared` root,
      every other root a per-run type); `own_disjoint` is the premise of the property itself ("each with its own
      context, reader and input") together with the allocation-site check.  The extractor sees assignments,
      increment and decrement statements, range-assignments and `append/copy/delete`; it does not see writes made inside the standard library
      on the caller's behalf, `unsafe`, or cgo, and its type-based ownership is not an alias analysis.
-/
import ParsleyVerif.Proofs.Conc
import ParsleyVerif.Generated.Facts
import ParsleyVerif.Generated.FactsConc
namespace PV.Conc

/-- **C14 (non-interference, every schedule).**  Whatever the interleaving, the state of run `i` is the state of
    its solo execution after as many steps as the schedule gave it; the parser graph and the index counter are
    what they were. -/
theorem c14_noninterference {N : Nat} (M : Machine N) (sched : List (Fin N)) (s : State M) (i : Fin N) :
    (M.run sched s).locals i = M.solo i s.graph (occ i sched) (s.locals i) ∧
    (M.run sched s).graph = s.graph ∧ (M.run sched s).counter = s.counter :=
  ⟨Machine.run_locals M i sched s, Machine.run_graph_counter M sched s⟩

/-- **C14 (non-interference, complete schedules).**  If the schedule lets run `i` finish, run `i` ends in the
    final state of its solo execution: that state is reached alone too (`SoloFinal`), and every solo execution
    that finishes — after however many steps — finishes in it. -/
theorem c14_noninterference_complete {N : Nat} (M : Machine N) (sched : List (Fin N)) (s : State M) (i : Fin N)
    (fin : M.step i s.graph ((M.run sched s).locals i) = none) :
    M.SoloFinal i s.graph (s.locals i) ((M.run sched s).locals i) ∧
    ∀ l', M.SoloFinal i s.graph (s.locals i) l' → (M.run sched s).locals i = l' := by
  have e := Machine.run_locals M i sched s
  refine ⟨⟨occ i sched, e.symm, fin⟩, ?_⟩
  rintro l' ⟨n, rfl, hn⟩
  rw [e] at fin ⊢
  exact Machine.solo_final_unique M i s.graph (s.locals i) _ _ fin hn

/-- **C14 (frame rule).**  One shared heap, steps that may touch anything — but under the footprint discipline
    (each run reads `own i ∪ ro`, writes `own i`, the `own`s pairwise disjoint and disjoint from `ro`) the heap
    restricted to `own i ∪ ro` after any interleaving equals the one after run `i`'s solo execution. -/
theorem c14_footprint {N : Nat} {Loc Val : Type} (H : HMachine N Loc Val)
    (own : Fin N → Loc → Prop) (ro : Loc → Prop) (F : H.Footprint own ro)
    (sched : List (Fin N)) (h : Loc → Val) (i : Fin N) :
    ∀ l, own i l ∨ ro l → H.run sched h l = H.solo i (occ i sched) h l :=
  HMachine.run_agree H F i sched h h (HMachine.agree_refl own ro i h)

/-- under the discipline the shared part (the parser graph) is bit-for-bit what it was -/
theorem c14_readonly_untouched {N : Nat} {Loc Val : Type} (H : HMachine N Loc Val)
    (own : Fin N → Loc → Prop) (ro : Loc → Prop) (F : H.Footprint own ro)
    (sched : List (Fin N)) (h : Loc → Val) : ∀ l, ro l → H.run sched h l = h l :=
  HMachine.run_ro H F sched h

/-- the hypothesis of `c14_footprint` is needed: two runs writing one shared cell (`racyHeap`) see each other —
    run 1 alone computes 0·2 = 0, after run 0's step it computes 2, and the two orders disagree -/
theorem c14_footprint_needed :
    racyHeap.solo 1 (occ (1 : Fin 2) [0, 1]) (fun _ => 0) 0 = 0 ∧ racyHeap.run [0, 1] (fun _ => 0) 0 = 2 ∧
    racyHeap.run [1, 0] (fun _ => 0) 0 = 1 := by decide

/-- **C14 (parser indexes).**  `k` concurrent constructions, each drawing its index with one atomic fetch-add,
    under any interleaving (and any repetition): no two constructors hold the same index. -/
theorem c14_indices_distinct (k c₀ : Nat) (sched : List (Fin k)) (i j : Fin k) (a b : Nat) (hij : i ≠ j)
    (hi : (runAtomic sched (CState.init k c₀)).got i = some a)
    (hj : (runAtomic sched (CState.init k c₀)).got j = some b) : a ≠ b :=
  (runAtomic_inv sched _ (init_inv k c₀)).2 i j a b hij hi hj

/-- … and every constructor that was scheduled at all holds one -/
theorem c14_indices_obtained (k c₀ : Nat) (sched : List (Fin k)) (i : Fin k) (hi : i ∈ sched) :
    ((runAtomic sched (CState.init k c₀)).got i).isSome :=
  runAtomic_gets sched i hi _

/-- the contrast: with `tmp := counter` and `counter = tmp + 1` as separate steps there is a schedule of two
    constructions that gives both the same index -/
theorem c14_nonatomic_duplicates :
    ∃ sched : List (Fin 2),
      (runRacy sched (RState.init 2 0)).pc 0 = .done 1 ∧ (runRacy sched (RState.init 2 0)).pc 1 = .done 1 :=
  ⟨[0, 1, 0, 1], by decide⟩

/-! ### the facts -/

/-- Root types through which parse-time code may write, each a type whose every instance belongs to ONE run.

    Handed in by the caller, one per parse (the property's premise "each with its own context, reader and input"):
    * `*parsley.Context` — `&Context{…}` in `parsley.NewContext` (parsley/context.go:24); written: `err`, `callCount`.
    * `parsley.ResultCache` — `make(map[int]map[Pos]*Result)` in `parsley.NewResultCache` (result_cache.go:26),
      called from `NewContext` (context.go:27): the map is a field of that one Context.
    * `*text.Reader` — `&Reader{…, regexpCache: map[string]*regexp.Regexp{}}` in `text.NewReader`
      (text/reader.go:34–36): the regexp cache filled by `getPattern` is per Reader, not per package.
    * `*text.File` — `&File{…}` in `text.NewFile` (text/file.go:29); `lines` is built lazily by `setLines`
      (file.go:48) on the first `Position` call (file.go:73), i.e. possibly DURING a parse when an error is
      positioned.  A File belongs to one run's file set; sharing one File between two concurrent contexts
      would race here and is outside the property's premise.

    Allocated by the library during the parse (checked below against `allocSites`: parse-only functions):
    * `*combinator.sequence` — `&sequence{…}` at the top of `(*Sequence).Parse` (combinator/seq.go:66), one per
      call; the shared `*Sequence` graph node is only read there.
    * `*ast.NonTerminalNode`, `*ast.TerminalNode`, `*terminal.XNode` — `ast.NewNonTerminalNode`
      (nonterminal_node.go:36), `NewEmptyNonTerminalNode` (:47), `ast.NewTerminalNode` (terminal_node.go:32),
      `terminal.NewXNode`: result nodes, created inside parser functions, written by `SetReaderPos`,
      `StaticCheck`, `Transform`.
    * `ast.NodeList`, `*ast.NodeList` — slices: made in `ast.AppendNode` (helpers.go:24), grown by `Append`;
      `Memoize` stores them capacity-clipped (memoize.go:35) in the run's own result cache.  Results of one parse.
    * `data.IntMap` — the only maps written are the fresh ones of `clone` (intmap.go:27), `Inc` (:52, a clone),
      `Filter` (:63, `NewIntMap(nil)`); `*data.IntSet` — `insertValue` is private and is called on the address of
      a local of `NewIntSet` / `Insert` (intset.go:26, :43) whose backing array was made there.  That these
      never write through their argument is C15's theorem (`PV.Data.c15_refine`), with their source pinned by
      `PV.Data.c15_source_facts`. -/
def allowedRootTypes : List String := [
  "*parsley.Context", "parsley.ResultCache", "*text.Reader", "*text.File",
  "*combinator.sequence",
  "*ast.NonTerminalNode", "*ast.TerminalNode", "ast.NodeList", "*ast.NodeList",
  "*terminal.BoolNode", "*terminal.CharNode", "*terminal.FloatNode", "*terminal.IntegerNode",
  "*terminal.NilNode", "*terminal.OpNode", "*terminal.StringNode", "*terminal.TimeDurationNode",
  "data.IntMap", "*data.IntSet"]

/-- the struct types of that list which the library itself allocates: every allocation site must be in a function
    that runs only within a parse (a node or a `sequence` made at construction time would sit in the graph) -/
def perParseStructs : List String := [
  "combinator.sequence", "ast.NonTerminalNode", "ast.TerminalNode",
  "terminal.BoolNode", "terminal.CharNode", "terminal.FloatNode", "terminal.IntegerNode",
  "terminal.NilNode", "terminal.OpNode", "terminal.StringNode", "terminal.TimeDurationNode"]

/-- kinds of write that stay inside one invocation whatever the type -/
def localKinds : List String := ["captured-local", "local-fresh"]

/-- kinds of write that reach memory through a root of a known static type -/
def typedKinds : List String := ["receiver", "param", "local-deref", "captured-local-deref", "call-result"]

/-- **C14 (the source, today).**  See the header.  Every conjunct is decided on the regenerated facts; a
    package-level scratch variable, `errors.As(err, &pkgVar)`, a counter captured by a parser closure, state kept
    on `*Sequence`, a package-level regexp cache, a node preallocated at construction time, or a non-atomic index
    counter each falsify one of them. -/
theorem c14_facts :
    -- package level variables: one access in the whole library, atomic, in a constructor
    (∀ a ∈ FactsConc.pkgVarAccesses, a = ("combinator.nextParserIndex", "atomic", "combinator.Memoize")) ∧
    "combinator.Memoize" ∈ FactsConc.constructionOnlyFuncs ∧
    "combinator.Memoize" ∉ FactsConc.parseTimeFuncs ∧
    -- nothing is stored in the parser graph at parse time
    FactsConc.capturedShared = [] ∧
    -- every parse-time write: invocation-local, or through a per-run type (so never "pkgvar"/"captured-shared")
    (∀ w ∈ FactsConc.parseTimeWrites,
        w.2.2.1 ∈ localKinds ∨ (w.2.2.1 ∈ typedKinds ∧ w.2.2.2 ∈ allowedRootTypes)) ∧
    (∀ t ∈ FactsConc.parseTimeRootTypes, t ∈ allowedRootTypes) ∧
    -- the library-allocated per-run structs are allocated at parse time only, and are allocated somewhere
    (∀ a ∈ FactsConc.allocSites, a.1 ∈ perParseStructs → a.2.2 = "parse") ∧
    (∀ t ∈ perParseStructs, ∃ a ∈ FactsConc.allocSites, a.1 = t) ∧
    -- the extractor found everything it looked for; both generated files agree on the package variables
    FactsConc.extractionProblems = [] ∧
    FactsConc.pkgVars = Facts.pkgVars ∧ FactsConc.pkgVarAccesses = Facts.pkgVarAccesses := by
  decide

/-! ### non-vacuity: concrete machines, concrete schedules, evaluated -/

/-- a 2-run machine and a schedule that finishes both runs: the interleaved result, computed -/
example :
    (exMachine.run [1, 0, 1, 1, 0, 1, 0] exState).locals 0 = (3, 0) ∧
    (exMachine.run [1, 0, 1, 1, 0, 1, 0] exState).locals 1 = (0, 3) ∧
    exMachine.step 0 exState.graph ((exMachine.run [1, 0, 1, 1, 0, 1, 0] exState).locals 0) = none ∧
    exMachine.step 1 exState.graph ((exMachine.run [1, 0, 1, 1, 0, 1, 0] exState).locals 1) = none := by decide

/-- … equals the solo results, computed separately (1 step for run 0, 3 for run 1) -/
example : exMachine.solo 0 3 1 (2, 0) = (3, 0) ∧ exMachine.solo 1 3 3 (2, 0) = (0, 3) := by decide

/-- … and a different schedule of the same runs ends in the same place, as the theorem says it must -/
example :
    (exMachine.run [0, 0, 0, 1, 1, 1, 1, 1] exState).locals 1 = (exMachine.run [1, 0, 1, 1, 0, 1, 0] exState).locals 1 :=
  ((c14_noninterference_complete exMachine _ exState 1 (by decide)).2 (0, 3)
    ⟨3, by decide, by decide⟩).trans
  ((c14_noninterference_complete exMachine _ exState 1 (by decide)).2 (0, 3) ⟨3, by decide, by decide⟩).symm

/-- the `Footprint` hypothesis is satisfiable by a machine that really shares a heap (`exHeap`: both runs read
    location 2, each writes its own cell), so `c14_footprint` is not vacuous … -/
example (sched : List (Fin 2)) (h : Nat → Nat) (i : Fin 2) :
    exHeap.run sched h i.val = exHeap.solo i (occ i sched) h i.val :=
  c14_footprint exHeap exOwn exRo exHeap_footprint sched h i i.val (Or.inl rfl)

/-- … and on a concrete schedule both sides evaluate to the same numbers -/
example :
    exHeap.run [0, 1, 1, 0, 1] (fun l => if l = 2 then 4 else 0) 0 = 8 ∧
    exHeap.run [0, 1, 1, 0, 1] (fun l => if l = 2 then 4 else 0) 1 = 12 ∧
    exHeap.solo 0 2 (fun l => if l = 2 then 4 else 0) 0 = 8 ∧
    exHeap.solo 1 3 (fun l => if l = 2 then 4 else 0) 1 = 12 ∧
    exHeap.run [0, 1, 1, 0, 1] (fun l => if l = 2 then 4 else 0) 2 = 4 := by decide

/-- three constructors, an arbitrary interleaving with repetitions: indexes 8, 9, 10 in schedule order -/
example :
    (runAtomic [2, 0, 2, 1, 0] (CState.init 3 7)).got 2 = some 8 ∧
    (runAtomic [2, 0, 2, 1, 0] (CState.init 3 7)).got 0 = some 9 ∧
    (runAtomic [2, 0, 2, 1, 0] (CState.init 3 7)).got 1 = some 10 := by decide

end PV.Conc
