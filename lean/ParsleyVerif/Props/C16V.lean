/-
  C16, the FULL value theorem — "for every document in the JSON subset the example grammar supports (objects,
  arrays, strings with the standard escapes, integers in int64 range, decimals with a fraction and optional
  exponent, booleans, null, whitespace where the grammar's modes allow it) the example parser evaluates to the
  same value as encoding/json".

  What Props/C16.lean left open (`c16_value_STATEMENT`) is proved here: the parser FINDS the tree of every
  document of the supported subset, for every admissible whitespace layout, and `evaluate` answers the value the
  document denotes.

  Specification (Spec/JsonRender.lean, core only):
  * `JV` abstract values: null | bool | int (i : Int) | dec (sign, integer part, fraction, optional exponent) |
    str (list of `SElem`: plain ASCII byte / `\" \\ \b \f \n \r \t` / `\uXXXX` / raw code point ≥ U+0080) |
    arr | obj (members in source order, duplicate keys allowed);
    `JV.Supported`: integers in [−2⁶³, 2⁶³), decimals `-?(0|[1-9][0-9]*)\.[0-9]+([eE][+-]?[0-9]+)?`, plain bytes
    0x20 … 0x7F other than `"` `\`, `\uXXXX` with 4 hex digits and not a surrogate, raw scalar values ≥ U+0080;
  * `Layout`: a tree of the value's shape with the whitespace of every gap; `Layout.Adm`: before values, keys and
    closers spaces / tabs / LF (`WsNl`), before `,` and `:` spaces / tabs (`WsSp`); the document may be preceded
    and followed by `WsNl` whitespace (`lead`, `trail`: the root is `Sentence(Trim(value))`);
  * `renderJ lead v l trail : Bytes` the document; `treeOf …` the tree the parser must find (all tokens, values,
    positions); `JV.val v : JVal` the JSON value, `denote (JV.val v) : V` the evaluator value (arrays in order,
    objects as Go maps: the last duplicate key wins, `c16_denote_obj`).
    (`JDoc` is value and layout in one tree: `JV.decorate v l`; `renderJ lead v l trail =
    renderDoc lead (v.decorate l) trail`; the theorems are proved over `JDoc` and restated over `JV` × `Layout`.)

  PROVED — for every configuration with the grammar's rules, no work budget, a file whose data is the rendered
  document at ANY base offset ≥ 1, any file set, any ParseFloat that accepts the document's decimal lexemes
  (strconv.ParseFloat is a parameter of the model), every custom-interpreter table:
  * `c16_find_value`     the `value` rule, started at the first byte of a document followed by a delimiter (end of
                         input, whitespace, `,`, `]`, `}`), from EVERY left-recursion context and state, with all
                         sufficiently large fuel, answers exactly the document's tree, no error — stages (i)–(v) of
                         the plan: scalars, flat and nested arrays, objects, arbitrary admissible whitespace;
  * `c16_parse_full`     `parse` returns exactly `Sentence[treeOf …, EOF]`, no error — for all sufficiently large fuel
                         (so the run TERMINATES on these inputs: no appeal to C02T, which excludes trims);
  * `c16_value_full`     `evaluate` answers `.value (denote (JV.val v))`;
  * `c16_tree_value`     the tree denotes the value: `jvalOf (treeOf …) = some (JV.val v)`;
  * `c16_value_full_newFile`  the same for the file text.NewFile makes of the rendered bytes (its CRLF normalisation
                         leaves a rendered document as it is: `c16_render_no_cr`) in a fresh file set — the
                         configuration of the non-vacuity examples of Props/C16.lean.
  Route: forward symbolic execution of `run` (Proofs/J16Run.lean: `Succ` / `Fails` for terminals, Name, Choice's
  first match, LeftTrim, RightTrim, and the Sequence family's longest path `ShChain`), the terminals through their
  byte specifications of C08 (`c08_spec`, `parseInt0_spec`, `unquoteString = Lang.strBody`, UTF-8 round trip),
  structural recursion on the document (Proofs/J16Doc.lean).  `Big` (C01B) is not needed.

  Outside Lean, as before: that `denote (JV.val v)` is what encoding/json (UseNumber) decodes `renderJ …` to — the
  differential stream C16 checks it on every generated document.
-/
import ParsleyVerif.Proofs.J16Root
import ParsleyVerif.Proofs.J16Layout
namespace PV
open PV.Text

/-- the tree the parser must find for `renderJ lead v l trail` in a file with base offset `off`: the value's tree
    starts after the leading whitespace and (RightTrim) ends after the trailing whitespace -/
def treeOf (off : Nat) (lead : Bytes) (v : JV) (l : Layout) (trail : Bytes) : Node :=
  J16.rootTree off lead (v.decorate l) trail

/-! ### the `value` rule finds the tree -/

/-- **C16, completeness of the `value` rule** on the supported subset, at any position, in any context -/
theorem c16_find_value (cfg : Cfg) (henv : cfg.env = Gjson.env) (hmc : cfg.maxCalls = 0) (hoff : 1 ≤ cfg.file.offset)
    (d : JDoc) (hd : d.OK) (hf : d.FloatsOk cfg.params) (pos : Nat) (tail : Bytes)
    (hin : InFile cfg.file pos) (hrest : rest cfg.file pos = d.render ++ tail)
    (htail : ∀ c, tail.head? = some c → c = 32 ∨ c = 9 ∨ c = 10 ∨ c = 44 ∨ c = 93 ∨ c = 125) :
    ∃ F, ∀ fuel, F ≤ fuel → ∀ (ctx : Ctx) (st : St), ∃ st',
      run cfg fuel (.ref 0) ctx pos st = some (⟨.one (d.tree pos), [], none⟩, st') :=
  J16.value_ok ⟨henv, hmc, hoff⟩ d hd hf pos tail ⟨hin, hrest⟩ htail

/-! ### over documents (`JDoc` = value + layout) -/

theorem c16_parse_full_doc (cfg : Cfg) (henv : cfg.env = Gjson.env) (hmc : cfg.maxCalls = 0) (hoff : 1 ≤ cfg.file.offset)
    (lead : Bytes) (d : JDoc) (trail : Bytes) (hd : d.OK) (hlead : WsNl lead) (htrail : WsNl trail)
    (hf : d.FloatsOk cfg.params) (hdata : cfg.file.data = renderDoc lead d trail) :
    ∃ F, ∀ fuel, F ≤ fuel → ∃ st, parse cfg fuel Gjson.root =
      some { res := .one (sentenceNode (J16.rootTree cfg.file.offset lead d trail)), err := none, msg := none, st := st } :=
  J16.parse_of_succ (J16.root_ok ⟨henv, hmc, hoff⟩ lead d trail hd hf hlead htrail hdata)

theorem c16_value_full_doc (cfg : Cfg) (henv : cfg.env = Gjson.env) (hmc : cfg.maxCalls = 0) (hoff : 1 ≤ cfg.file.offset)
    (lead : Bytes) (d : JDoc) (trail : Bytes) (hd : d.OK) (hlead : WsNl lead) (htrail : WsNl trail)
    (hf : d.FloatsOk cfg.params) (hdata : cfg.file.data = renderDoc lead d trail) (ce : CustomEval) :
    ∃ F, ∀ fuel, F ≤ fuel → evaluate cfg ce fuel Gjson.root = some (.value (denote d.val)) := by
  obtain ⟨F, hF⟩ := c16_parse_full_doc cfg henv hmc hoff lead d trail hd hlead htrail hf hdata
  refine ⟨max F ((J16.rootTree cfg.file.offset lead d trail).depth + 2), fun fuel hfuel => ?_⟩
  obtain ⟨st, hp⟩ := hF fuel (by omega)
  exact J16.evaluate_of_parse henv ce _ d.val (J16.jval_rootTree _ lead d trail) fuel (by omega) st hp

/-! ### over abstract values and layouts -/

/-- the tree denotes the value -/
theorem c16_tree_value (off : Nat) (lead : Bytes) (v : JV) (l : Layout) (trail : Bytes) :
    jvalOf (treeOf off lead v l trail) = some v.val := by
  unfold treeOf
  rw [J16.jval_rootTree, J16.decorate_val]

/-- **C16, the parse**: for every supported value and every admissible layout, `parse` on the rendered document
    returns exactly `Sentence[treeOf …, EOF]`, for all sufficiently large fuel -/
theorem c16_parse_full (cfg : Cfg) (henv : cfg.env = Gjson.env) (hmc : cfg.maxCalls = 0) (hoff : 1 ≤ cfg.file.offset)
    (lead : Bytes) (v : JV) (l : Layout) (trail : Bytes) (hv : v.Supported) (hl : l.Adm)
    (hlead : WsNl lead) (htrail : WsNl trail) (hf : v.FloatsOk cfg.params)
    (hdata : cfg.file.data = renderJ lead v l trail) :
    ∃ F, ∀ fuel, F ≤ fuel → ∃ st, parse cfg fuel Gjson.root =
      some { res := .one (sentenceNode (treeOf cfg.file.offset lead v l trail)), err := none, msg := none, st := st } :=
  c16_parse_full_doc cfg henv hmc hoff lead (v.decorate l) trail (J16.decorate_ok v l hv hl) hlead htrail
    (J16.decorate_floats cfg.params v l hf) hdata

/-- **C16, the FULL value theorem**: for every supported value and every admissible layout, `evaluate` on the
    rendered document answers the value the document denotes, for all sufficiently large fuel -/
theorem c16_value_full (cfg : Cfg) (henv : cfg.env = Gjson.env) (hmc : cfg.maxCalls = 0) (hoff : 1 ≤ cfg.file.offset)
    (lead : Bytes) (v : JV) (l : Layout) (trail : Bytes) (hv : v.Supported) (hl : l.Adm)
    (hlead : WsNl lead) (htrail : WsNl trail) (hf : v.FloatsOk cfg.params)
    (hdata : cfg.file.data = renderJ lead v l trail) (ce : CustomEval) :
    ∃ F, ∀ fuel, F ≤ fuel → evaluate cfg ce fuel Gjson.root = some (.value (denote v.val)) := by
  have := c16_value_full_doc cfg henv hmc hoff lead (v.decorate l) trail (J16.decorate_ok v l hv hl) hlead htrail
    (J16.decorate_floats cfg.params v l hf) hdata ce
  rwa [J16.decorate_val] at this

/-! ### the file text.NewFile makes of the rendered bytes -/

/-- a rendered document contains no CR: text.NewFile's `\r\n → \n` leaves it as it is -/
theorem c16_render_no_cr (lead : Bytes) (v : JV) (l : Layout) (trail : Bytes) (hv : v.Supported) (hl : l.Adm)
    (hlead : WsNl lead) (htrail : WsNl trail) : normCRLF (renderJ lead v l trail) = renderJ lead v l trail :=
  J16.normCRLF_renderDoc lead (v.decorate l) trail (J16.decorate_ok v l hv hl) hlead htrail

mutual
theorem j16_floats_doc (P : Params) (h : ∀ x, P.floatOk x = true) : ∀ d : JDoc, d.FloatsOk P
  | .null => by simp only [JDoc.FloatsOk]
  | .bool _ => by simp only [JDoc.FloatsOk]
  | .int _ => by simp only [JDoc.FloatsOk]
  | .dec x => by simp only [JDoc.FloatsOk]; exact h _
  | .str _ => by simp only [JDoc.FloatsOk]
  | .arr items _ => by simp only [JDoc.FloatsOk]; exact j16_floats_items P h items
  | .obj mems _ => by simp only [JDoc.FloatsOk]; exact j16_floats_mems P h mems
theorem j16_floats_items (P : Params) (h : ∀ x, P.floatOk x = true) : ∀ r : JItems, r.FloatsOk P
  | .nil => by simp only [JItems.FloatsOk]
  | .cons _ _ d r => by simp only [JItems.FloatsOk]; exact ⟨j16_floats_doc P h d, j16_floats_items P h r⟩
theorem j16_floats_mems (P : Params) (h : ∀ x, P.floatOk x = true) : ∀ r : JMems, r.FloatsOk P
  | .nil => by simp only [JMems.FloatsOk]
  | .cons _ _ _ _ _ d r => by simp only [JMems.FloatsOk]; exact ⟨j16_floats_doc P h d, j16_floats_mems P h r⟩
end

/-- **C16, the full value theorem on `nvJsonCfg`** (Props/C16.lean: the rendered bytes handed to text.NewFile, the
    file added to a fresh file set, a ParseFloat that accepts everything) -/
theorem c16_value_full_newFile (lead : Bytes) (v : JV) (l : Layout) (trail : Bytes) (hv : v.Supported) (hl : l.Adm)
    (hlead : WsNl lead) (htrail : WsNl trail) (ce : CustomEval) :
    ∃ F, ∀ fuel, F ≤ fuel →
      evaluate (nvJsonCfg (renderJ lead v l trail)) ce fuel Gjson.root = some (.value (denote v.val)) := by
  have hdata : (nvJsonCfg (renderJ lead v l trail)).file.data = renderDoc lead (v.decorate l) trail := by
    show normCRLF (renderJ lead v l trail) = _
    rw [c16_render_no_cr lead v l trail hv hl hlead htrail]; rfl
  have := c16_value_full_doc (nvJsonCfg (renderJ lead v l trail)) rfl rfl (Nat.le_refl 1) lead (v.decorate l) trail
    (J16.decorate_ok v l hv hl) hlead htrail (j16_floats_doc _ (fun _ => rfl) _) hdata ce
  rwa [J16.decorate_val] at this

/-! ### non-vacuity: the theorem instantiated on the document ` [1, 2.5 ,"x\n",true]` of Props/C16.lean -/

def j16_exV : JV :=
  .arr (.cons (.int 1) (.cons (.dec ⟨false, [50], [53], none⟩) (.cons (.str [.plain 120, .esc 110])
    (.cons (.bool true) .nil))))
def j16_exL : Layout :=
  .arr (.cons [] [] .leaf (.cons [] [32] .leaf (.cons [32] [] .leaf (.cons [] [] .leaf .nil)))) []

theorem j16_ex_render : renderJ [32] j16_exV j16_exL [] =
    [32, 91, 49, 44, 32, 50, 46, 53, 32, 44, 34, 120, 92, 110, 34, 44, 116, 114, 117, 101, 93] := by decide +kernel

theorem j16_ex_supported : j16_exV.Supported ∧ j16_exL.Adm ∧ WsNl [32] ∧ WsNl [] := by
  refine ⟨?_, ?_, ?_, ?_⟩
  · simp only [j16_exV, JV.Supported, JVs.Supported, DecLex.OK, AllDigits, StrOK, and_true, true_and]
    refine ⟨by decide, ?_, ?_⟩
    · refine ⟨?_, by simp, by simp, ?_, by simp⟩ <;> (intro b hb; simp at hb; omega)
    · intro e he
      simp only [List.mem_cons, List.not_mem_nil, or_false] at he
      rcases he with rfl | rfl
      · exact ⟨by omega, by omega, by omega, by omega⟩
      · exact .inr (.inr (.inr (.inr (.inl rfl))))
  · simp only [j16_exL, Layout.Adm, LItems.Adm, and_true, true_and]
    refine ⟨⟨?_, ?_, ?_, ?_, ?_, ?_, ?_, ?_⟩, ?_⟩ <;> (intro b hb; simp at hb <;> omega)
  · intro b hb; simp at hb; omega
  · intro b hb; cases hb

/-- the value theorem answers what the kernel computes for this document (Props/C16.lean, second example) -/
theorem c16_value_full_example (ce : CustomEval) :
    ∃ F, ∀ fuel, F ≤ fuel →
      evaluate (nvJsonCfg [32, 91, 49, 44, 32, 50, 46, 53, 32, 44, 34, 120, 92, 110, 34, 44, 116, 114, 117, 101, 93]) ce fuel
        Gjson.root = some (.value (.arr [.int 1, .float [50, 46, 53], .str [120, 10], .bool true])) := by
  have h := c16_value_full_newFile [32] j16_exV j16_exL [] j16_ex_supported.1 j16_ex_supported.2.1
    j16_ex_supported.2.2.1 j16_ex_supported.2.2.2 ce
  rw [j16_ex_render] at h
  have hd : denote j16_exV.val = .arr [.int 1, .float [50, 46, 53], .str [120, 10], .bool true] := by
    simp [j16_exV, JV.val, JVs.vals, denote, denoteList, DecLex.render, DecLex.renderEx, decodeStr, SElem.decode,
      SElem.code, escCode, Utf8.encodeRune]
  rwa [hd] at h

/-! ### … and on `{"k":{"b":-7},"":[]}` (third example of Props/C16.lean), with the empty layout -/

def j16_exV2 : JV :=
  .obj (.cons [.plain 107] (.obj (.cons [.plain 98] (.int (-7)) .nil)) (.cons [] (.arr .nil) .nil))

theorem j16_ex2_render : renderJ [] j16_exV2 .leaf [] =
    [123, 34, 107, 34, 58, 123, 34, 98, 34, 58, 45, 55, 125, 44, 34, 34, 58, 91, 93, 125] := by decide +kernel

theorem j16_ex2_supported : j16_exV2.Supported := by
  simp only [j16_exV2, JV.Supported, JKVs.Supported, JVs.Supported, StrOK, and_true]
  refine ⟨?_, ⟨?_, by decide⟩, ?_⟩
  · intro e he
    simp only [List.mem_singleton] at he
    subst he; exact ⟨by omega, by omega, by omega, by omega⟩
  · intro e he
    simp only [List.mem_singleton] at he
    subst he; exact ⟨by omega, by omega, by omega, by omega⟩
  · intro e he; cases he

theorem c16_value_full_example2 (ce : CustomEval) :
    ∃ F, ∀ fuel, F ≤ fuel →
      evaluate (nvJsonCfg [123, 34, 107, 34, 58, 123, 34, 98, 34, 58, 45, 55, 125, 44, 34, 34, 58, 91, 93, 125]) ce fuel
        Gjson.root = some (.value (.obj [([107], .obj [([98], .int (-7))]), ([], .arr [])])) := by
  have h := c16_value_full_newFile [] j16_exV2 .leaf [] j16_ex2_supported trivial J16.wsNl_nil J16.wsNl_nil ce
  rw [j16_ex2_render] at h
  have hd : denote j16_exV2.val = .obj [([107], .obj [([98], .int (-7))]), ([], .arr [])] := by
    simp [j16_exV2, JV.val, JVs.vals, JKVs.vals, denote, denoteList, denotePairs, mapOfPairs, objSet, decodeStr,
      SElem.decode, SElem.code, Utf8.encodeRune]
  rwa [hd] at h

end PV
