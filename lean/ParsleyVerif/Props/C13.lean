/-
  C13 — Tree passes reach every node once, in the documented order.

  Model: ParsleyVerif/Model/Walk.lean (`walk`, `check`, `transform` over trees `T` with terminal / EMPTY leaves,
  non-terminals of any arity and `ast.NodeList`s; the behaviour of callbacks, checkers and transformers is a
  function parameter, so a failure can be injected at any node) and ParsleyVerif/Model/Eval.lean (`evalNode`).
  Specification: ParsleyVerif/Spec/Postorder.lean.
  Domain of every theorem: all trees, all callbacks / checkers / transformers / capability assignments.
-/
import ParsleyVerif.Proofs.Walk
namespace PV.Walk

/-! ### Walk -/

/-- **Walk**: the callback is called on the nodes in post-order, up to and including the first node on which
    it returns true, and Walk returns whether there was such a node -/
theorem c13_walk (stop : Nat → Bool) (t : T) :
    walk stop t = (takeThrough stop (postorder t), (postorder t).any stop) :=
  walk_spec stop t

/-- `takeThrough` is the longest prefix without a `true`, plus the element after it; and it is a prefix -/
theorem c13_takeThrough {α} (p : α → Bool) (l : List α) :
    takeThrough p l = l.takeWhile (fun a => !p a) ++ (l.dropWhile (fun a => !p a)).head?.toList ∧
    takeThrough p l <+: l :=
  ⟨takeThrough_eq p l, takeThrough_prefix p l⟩

/-- `postorder` in one equation (kids of a list = its first item), and the child sequences are concatenated -/
theorem c13_postorder (t : T) (cs : List T) :
    postorder t = t.kids.flatMap postorder ++ [t.id] ∧ postorderAll cs = cs.flatMap postorder :=
  ⟨postorder_eq t, postorderAll_eq_flatMap cs⟩

/-- a callback that never returns true is called on the whole post-order sequence -/
theorem c13_walk_once (stop : Nat → Bool) (t : T) (h : ∀ i ∈ postorder t, stop i = false) :
    walk stop t = (postorder t, false) := by
  have : (postorder t).any stop = false := by
    rw [List.any_eq_false]; intro i hi; simp [h i hi]
  rw [c13_walk, this, takeThrough_of_none _ _ this]

/-- that sequence holds every node exactly once: it is a rearrangement of the pre-order enumeration `T.ids`
    (so every id occurs as often as there are nodes carrying it), its members are exactly the ids of the nodes
    of the tree, and if the ids are distinct every node's id occurs exactly once -/
theorem c13_walk_every_node (t : T) :
    (postorder t).Perm t.ids ∧
    (∀ i, (postorder t).count i = t.ids.count i) ∧
    (∀ i, i ∈ postorder t ↔ ∃ n, Sub n t ∧ n.id = i) ∧
    (t.ids.Nodup → (postorder t).Nodup ∧ ∀ n, Sub n t → (postorder t).count n.id = 1) := by
  have hp := postorder_perm t
  have hm : ∀ i, i ∈ postorder t ↔ ∃ n, Sub n t ∧ n.id = i := fun i =>
    ⟨sub_of_mem_postorder i t, fun ⟨n, hn, hi⟩ => hi ▸ mem_postorder_of_sub hn⟩
  refine ⟨hp, hp.count_eq, hm, fun hnd => ?_⟩
  have hnd' := hp.nodup_iff.mpr hnd
  refine ⟨hnd', fun n hn => ?_⟩
  rw [hnd'.count, if_pos (mem_postorder_of_sub hn)]

/-- **Walk stops immediately**: if Walk returns true then the trace ends with the first node satisfying the
    callback; no node after it (`post`) is visited -/
theorem c13_walk_stops (stop : Nat → Bool) (t : T) (h : (walk stop t).2 = true) :
    ∃ pre x post, postorder t = pre ++ x :: post ∧ (∀ y ∈ pre, stop y = false) ∧ stop x = true ∧
      (walk stop t).1 = pre ++ [x] := by
  rw [c13_walk] at h ⊢
  exact takeThrough_of_some stop (postorder t) h

/-- and if Walk returns false no visited node satisfied the callback and every node was visited -/
theorem c13_walk_completes (stop : Nat → Bool) (t : T) (h : (walk stop t).2 = false) :
    (walk stop t).1 = postorder t ∧ ∀ y ∈ postorder t, stop y = false := by
  rw [c13_walk] at h ⊢
  refine ⟨takeThrough_of_none _ _ h, ?_⟩
  intro y hy
  have := List.any_eq_false.mp h y hy
  simpa using this

/-! ### StaticCheck -/

/-- **StaticCheck is bottom-up**: the result (annotated tree on success, else the error) is that of
    `checkSpec`, in which a node's checker is called after the whole subtree below the node has been checked and
    is given the node *carrying the checked children*; what it returns is stored as the node's schema -/
theorem c13_check_order (caps : Nat → ICap) (chk : Checker) (t : T) :
    checkSpec caps chk t =
      match check caps chk t with
      | (t', none) => .ok t'
      | (_, some e) => .error e := by
  rw [checkSpec_eq]
  rcases check caps chk t with ⟨_, _ | _⟩ <;> rfl

/-- `checkSpec` on child sequences is `mapM` -/
theorem c13_checkSpecAll (caps : Nat → ICap) (chk : Checker) (cs : List T) :
    checkSpecAll caps chk cs = cs.mapM (checkSpec caps chk) :=
  checkSpecAll_eq_mapM caps chk cs

/-- **first error, by position**: with `verdicts t` the outcomes of the nodes' checks in post-order, StaticCheck
    returns the first error among them, and the tree it leaves behind is the one in which exactly the nodes
    before that position have been checked: the failing node and every node after it keep their old schema.
    (Without an error the position is the number of nodes: everything has been checked.) -/
theorem c13_check_first_error (caps : Nat → ICap) (chk : Checker) (t : T) :
    check caps chk t =
      (checkedPrefix caps chk ((verdicts caps chk t).findIdx Option.isSome) t,
       (verdicts caps chk t).findSome? id) :=
  check_pos caps chk t

/-- the same, spelled out for a failing check: `n` is a position in the post-order sequence, the check at
    position `n` gave the returned error, every check before it succeeded, and only they were recorded -/
theorem c13_check_first_error_pos (caps : Nat → ICap) (chk : Checker) (t : T) (e : Nat)
    (h : (check caps chk t).2 = some e) :
    ∃ n, n < (postorder t).length ∧ (verdicts caps chk t)[n]? = some (some e) ∧
      (∀ j, j < n → (verdicts caps chk t)[j]? = some none) ∧
      (check caps chk t).1 = checkedPrefix caps chk n t := by
  rw [check_pos] at h ⊢
  simp only at h
  have h1 := firstBad_of_some _ e h
  rw [verdicts_length] at h1
  obtain ⟨h2, h3⟩ := first_spec _ e h
  exact ⟨_, h1, h2, h3, rfl⟩

/-- reading aids for the positional statement: `verdicts` is aligned with `postorder`, checking nothing changes
    nothing, and there is nothing to check beyond the last node -/
theorem c13_checkedPrefix (caps : Nat → ICap) (chk : Checker) (t : T) :
    (verdicts caps chk t).length = (postorder t).length ∧
    checkedPrefix caps chk 0 t = t ∧
    (∀ n, (postorder t).length ≤ n → checkedPrefix caps chk n t = checkedPrefix caps chk (postorder t).length t) :=
  ⟨verdicts_length caps chk t, checkedPrefix_zero caps chk t, fun n h => checkedPrefix_sat caps chk t n h⟩

/-- **schemas are recorded**: after a successful StaticCheck every non-terminal whose interpreter is a
    StaticChecker carries the schema the checker returned for that node with its final children, and every
    other node (and everything besides schemas, and the items of a list after the first) is unchanged -/
theorem c13_check_records (caps : Nat → ICap) (chk : Checker) (t : T) (h : (check caps chk t).2 = none) :
    Recorded caps chk t (check caps chk t).1 := by
  apply recorded_of_checkSpec
  rw [checkSpec_eq]
  rcases hc : check caps chk t with ⟨t', _ | e⟩
  · rfl
  · rw [hc] at h; cases h

/-- `RecordedAll` (the relation on child sequences) is `Recorded` child by child -/
theorem c13_recordedAll (caps : Nat → ICap) (chk : Checker) (cs cs' : List T) :
    RecordedAll caps chk cs cs' ↔ cs.length = cs'.length ∧ ∀ p ∈ cs.zip cs', Recorded caps chk p.1 p.2 :=
  recordedAll_iff caps chk cs cs'

/-! ### Transform -/

/-- **Transform** -/
theorem c13_transform (caps : Nat → ICap) (tr : Transformer) (t : T) :
    transform caps tr t = transformSpec caps tr t :=
  transform_spec caps tr t

/-- the same without the specification function: a transformer-capable interpreter gets that very node
    (children untouched) and its answer is the result; otherwise the children are transformed from left to
    right (`mapM`: the first error aborts) and put back; leaves and lists are returned as they are -/
theorem c13_transform_cases (caps : Nat → ICap) (tr : Transformer) :
    (∀ i interp schema cs, transform caps tr (.nt i interp schema cs) =
      match capable (·.transformer) caps interp with
      | some k => tr k (.nt i interp schema cs)
      | none => (.nt i interp schema ·) <$> cs.mapM (transform caps tr)) ∧
    (∀ i, transform caps tr (.leaf i) = .ok (.leaf i)) ∧
    (∀ i items, transform caps tr (.list i items) = .ok (.list i items)) := by
  refine ⟨fun i interp schema cs => ?_, fun i => by simp [transform], fun i items => by simp [transform]⟩
  have : transform caps tr = transformSpec caps tr := funext (transform_spec caps tr)
  rw [transform_spec, transformSpec, transformSpecAll_eq_mapM, this]
  rfl

/-- `capable`: the node has an interpreter and the interpreter has the capability -/
theorem c13_capable (has : ICap → Bool) (caps : Nat → ICap) (interp : Option Nat) (k : Nat) :
    capable has caps interp = some k ↔ interp = some k ∧ has (caps k) = true := by
  cases interp with
  | none => simp
  | some k' =>
    rw [capable_some]
    by_cases h : has (caps k') <;> simp [h]
    · intro h'; subst h'; exact h
    · intro h'; subst h'; simpa using h

/-! ### non-vacuity: a tree with leaves, a list (only its first item is visited), non-terminals with and
    without interpreter / capabilities, an empty non-terminal; failures injected at different nodes -/

def nvTree : T :=
  .nt 10 (some 1) none [.leaf 1, .nt 5 (some 2) (some 77) [.leaf 2, .leaf 3], .list 7 [.nt 6 none none [.leaf 4], .leaf 99], .nt 8 (some 3) none []]

example : postorder nvTree = [1, 2, 3, 5, 4, 6, 7, 8, 10] := by decide
example : nvTree.ids = [10, 1, 5, 2, 3, 7, 6, 4, 8] := by decide
example : walk (fun i => i == 6) nvTree = ([1, 2, 3, 5, 4, 6], true) := by decide
example : walk (fun _ => false) nvTree = ([1, 2, 3, 5, 4, 6, 7, 8, 10], false) := by decide

/-- interpreters 1 and 2 are checkers, 2 and 3 are transformers -/
def nvCaps : Nat → ICap := fun k => ⟨k == 1 || k == 2, k == 2 || k == 3⟩
/-- the checker answers with 100·(its id) + the number of children that already carry a schema; `bad` fails -/
def nvChk (bad : Nat) : Checker := fun k n =>
  if n.id = bad then .error (1000 + n.id) else .ok (some (100 * k + (n.kids.filter (fun c => c.schema.isSome)).length))

example : check nvCaps (nvChk 0) nvTree =
    (.nt 10 (some 1) (some 101) [.leaf 1, .nt 5 (some 2) (some 200) [.leaf 2, .leaf 3], .list 7 [.nt 6 none none [.leaf 4], .leaf 99], .nt 8 (some 3) none []], none) := by
  rfl
example : check nvCaps (nvChk 5) nvTree = (nvTree, some 1005) := by rfl
example : check nvCaps (nvChk 10) nvTree =
    (.nt 10 (some 1) none [.leaf 1, .nt 5 (some 2) (some 200) [.leaf 2, .leaf 3], .list 7 [.nt 6 none none [.leaf 4], .leaf 99], .nt 8 (some 3) none []], some 1010) := by
  rfl
example : verdicts nvCaps (nvChk 10) nvTree = [none, none, none, none, none, none, none, none, some 1010] := by decide

def nvTr (bad : Nat) : Transformer := fun k n => if n.id = bad then .error (2000 + n.id) else .ok (.leaf (k * 1000 + n.id))
example : transform nvCaps (nvTr 0) nvTree =
    .ok (.nt 10 (some 1) none [.leaf 1, .leaf 2005, .list 7 [.nt 6 none none [.leaf 4], .leaf 99], .leaf 3008]) := by rfl
example : transform nvCaps (nvTr 8) nvTree = .error 2008 := by rfl
end PV.Walk

/-! ### evaluation -/
namespace PV
open PV.Text

/-- **the interpreter gets exactly that node**: its children and position, and an evaluator for the nodes below -/
theorem c13_eval_custom (ce : CustomEval) (fuel : Nat) (tok : Bytes) (cs : List Node) (pos rpos id : Nat) :
    evalNode ce (fuel + 1) (.nt tok cs pos rpos (.custom id)) = ce id cs pos (evalNode ce fuel) := by
  simp [evalNode]

/-- Select(i): the value of child `i` (the documented panic if there is none) -/
theorem c13_eval_select (ce : CustomEval) (fuel : Nat) (tok : Bytes) (cs : List Node) (pos rpos i : Nat) :
    evalNode ce (fuel + 1) (.nt tok cs pos rpos (.select i)) =
      match cs[i]? with
      | some c => evalNode ce fuel c
      | none => .panic "node index is out of bounds" := by
  simp only [evalNode]
  cases cs[i]? <;> rfl

/-- Array: the children at indices 0, 2, 4, … are evaluated from left to right, the first failure aborts -/
theorem c13_eval_array (ce : CustomEval) (fuel : Nat) (tok : Bytes) (cs : List Node) (pos rpos : Nat) :
    evalNode ce (fuel + 1) (.nt tok cs pos rpos .array) =
      match evalSeq (evalNode ce fuel) (everySecond cs) with
      | .ok vs => .ok (.arr vs)
      | .error e => e := by
  simp only [evalNode, evalArray_spec]
  cases evalSeq (evalNode ce fuel) (everySecond cs) <;> simp [EvalOut.ofExcept]

/-- Object: from the children at indices 0, 2, 4, … (each a non-terminal) child 0 is the key and child 2 the
    value, evaluated in this order from left to right, the first failure aborts; the result is the map to
    which the pairs have been assigned in this order -/
theorem c13_eval_object (ce : CustomEval) (fuel : Nat) (tok : Bytes) (cs : List Node) (pos rpos : Nat) :
    evalNode ce (fuel + 1) (.nt tok cs pos rpos .object) =
      match kvSeq (evalNode ce fuel) (everySecond cs) with
      | .ok kvs => .ok (.obj (mapOfPairs kvs))
      | .error e => e := by
  simp only [evalNode, evalObject_spec]
  cases kvSeq (evalNode ce fuel) (everySecond cs) <;> simp [EvalOut.ofExcept, mapOfPairs]

/-- the remaining node kinds -/
theorem c13_eval_other (ce : CustomEval) (fuel : Nat) (tok : Bytes) (cs : List Node) (v : Val) (pos rpos : Nat) :
    evalNode ce (fuel + 1) (.term tok v pos rpos) = .ok v.toV ∧
    evalNode ce (fuel + 1) (.empty pos) = .err pos noValueMsg ∧
    evalNode ce (fuel + 1) (.eof pos) = .ok .nil ∧
    evalNode ce (fuel + 1) (.nt tok cs pos rpos .nilI) = .ok .nil ∧
    evalNode ce (fuel + 1) (.nt tok cs pos rpos .none) = .panic "missing interpreter for node" := by
  simp [evalNode]

/-- `everySecond l` has the elements of `l` at the even indices, in order -/
theorem c13_everySecond {α} (l : List α) :
    (everySecond l).length = (l.length + 1) / 2 ∧ ∀ j, (everySecond l)[j]? = l[2 * j]? :=
  ⟨everySecond_length l, everySecond_getElem? l⟩

/-- later duplicate keys overwrite: the map answers for `k` with the value of the *last* pair whose key is
    `k` (and with nothing if there is none); and it holds every key once -/
theorem c13_object_map (kvs : List (Bytes × V)) (k : Bytes) :
    mapGet (mapOfPairs kvs) k = (kvs.reverse.find? (fun kv => kv.1 = k)).map (·.2) ∧
    ((mapOfPairs kvs).map (·.1)).Nodup := by
  refine ⟨?_, foldl_objSet_nodup kvs [] (by simp)⟩
  rw [mapOfPairs, mapGet_foldl]
  cases kvs.reverse.find? (fun kv => decide (kv.1 = k)) <;> simp [mapGet]

/-- fuel is only a recursion bound: any fuel above the nesting depth gives the same value (for custom
    interpreters that use the evaluator they are given only on nodes below their node) -/
theorem c13_eval_fuel (ce : CustomEval) (hce : CustomLocal ce) (fuel fuel' : Nat) (t : Node)
    (h : t.depth < fuel) (h' : t.depth < fuel') : evalNode ce fuel t = evalNode ce fuel' t :=
  evalNode_fuel ce hce fuel fuel' t h h'

/-- reading aid for `c13_eval_fuel`: children are strictly shallower than their parent -/
theorem c13_depth (tok : Bytes) (cs : List Node) (pos rpos : Nat) (i : Interp) (c : Node) (h : c ∈ cs) :
    c.depth < (Node.nt tok cs pos rpos i).depth := by
  have := depth_le_depthAll h
  simp only [Node.depth]; omega

/-- at the root: a single node is evaluated; an `ast.NodeList` has no value (ErrNoValue at its first node) -/
theorem c13_eval_root (ce : CustomEval) (fuel : Nat) (n : Node) (l : List Node) :
    evalRes ce fuel (.one n) = evalNode ce fuel n ∧ evalRes ce fuel (.list (n :: l)) = .err n.pos noValueMsg :=
  ⟨rfl, rfl⟩

/-! ### non-vacuity -/

def nvInt (i : Int) (p : Nat) : Node := .term [] (.int i) p (p + 1)
def nvStr (s : Bytes) (p : Nat) : Node := .term [] (.str s) p (p + 1)
def nvSep (p : Nat) : Node := .term [44] (.rune 44) p (p + 1)
def nvKV (k : Bytes) (v : Int) (p : Nat) : Node := .nt [] [nvStr k p, nvSep (p + 1), nvInt v (p + 2)] p (p + 3) .none
/-- custom interpreter 7: number of children; custom interpreter 8: the value of the last child -/
def nvCe : CustomEval := fun id cs pos ev =>
  if id = 7 then .ok (.int cs.length) else match cs.getLast? with | some c => ev c | none => .err pos []

def nvArr : Node := .nt [] [nvInt 1 0, nvSep 1, nvInt 2 2, nvSep 3, .nt [] [nvInt 5 4, nvInt 6 5] 4 6 (.custom 8)] 0 6 .array
example : evalNode nvCe 3 nvArr = .ok (.arr [.int 1, .int 2, .int 6]) := by rfl
example : evalNode nvCe 3 (.nt [] [nvInt 1 0, .empty 1, .empty 2, nvSep 3, nvInt 4 4] 0 5 .array) = .err 2 noValueMsg := by rfl
example : evalNode nvCe 3 (.nt [] [nvKV [97] 1 0, nvSep 3, nvKV [98] 2 4, nvSep 7, nvKV [97] 3 8] 0 11 .object)
    = .ok (.obj [([97], .int 3), ([98], .int 2)]) := by
  simp [evalNode, evalObject, evalKeyValue, nvKV, nvStr, nvInt, nvSep, objSet, Val.toV]
example : evalNode nvCe 2 (.nt [] [nvInt 1 0, nvInt 2 1] 0 2 (.select 1)) = .ok (.int 2) := by rfl
example : evalNode nvCe 2 (.nt [] [nvInt 1 0, nvInt 2 1] 0 2 (.custom 7)) = .ok (.int 2) := by rfl
example : nvArr.depth = 2 := by decide
example : CustomLocal nvCe := by
  intro id cs pos ev ev' h
  unfold nvCe
  split
  · rfl
  · cases hl : cs.getLast? with
    | none => rfl
    | some c => exact h c (depth_le_depthAll (List.mem_of_getLast? hl))
example : everySecond [0, 1, 2, 3, 4] = [0, 2, 4] := by decide
end PV
