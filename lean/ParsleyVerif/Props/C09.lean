/-
  C09 — Text reader primitives match a byte-level specification and stay in bounds.

  Model: ParsleyVerif/Model/Text.lean (each primitive with its own `cur = pos - offset` and guards, every
  slice index through `[i]?`, `none` = Go run-time panic).  Specification: ParsleyVerif/Spec/ReaderSpec.lean
  (directly over `rest f pos`, the bytes from the position to the end of the file).
  Domain of every theorem: `InFile f pos` (first byte … end of file), any base offset ≥ 1 where the
  `nlPos == 0` sentinel of SkipWhitespaces matters, arguments in each primitive's documented domain.
-/
import ParsleyVerif.Proofs.ReaderWs
import ParsleyVerif.Proofs.Utf8
import ParsleyVerif.Proofs.FactsTieText
namespace PV.Text

/-- ReadRune, ASCII rune -/
theorem c09_readRune_ascii (f : File) (pos ch : Nat) (h : InFile f pos) (hc : ch < 0x80) :
    readRune f pos ch = some (if (rest f pos).head? = some ch then (pos + 1, true) else (pos, false)) :=
  readRune_ascii f pos ch h hc

/-- ReadRune, multi-byte rune: the decoded rune at the cursor must be the one asked for -/
theorem c09_readRune_multibyte (f : File) (pos ch : Nat) (h : InFile f pos) (hc : ¬ ch < 0x80) :
    readRune f pos ch = some (if rest f pos ≠ [] ∧ (Utf8.decodeRune (rest f pos)).1 = ch
      then (pos + (Utf8.decodeRune (rest f pos)).2, true) else (pos, false)) :=
  readRune_multibyte f pos ch h hc

/-- the decoder used there is the inverse of the encoder on every Unicode scalar value -/
theorem c09_decode_encode (c : Nat) (t : Bytes) (h : Utf8.ValidScalar c) :
    Utf8.decodeRune (Utf8.encodeRune c ++ t) = (c, (Utf8.encodeRune c).length) :=
  Utf8.decode_encode c t h

theorem c09_matchString (f : File) (pos : Nat) (s : Bytes) (h : InFile f pos) (hs : s ≠ []) :
    matchString f pos s = some (if s <+: rest f pos then (pos + s.length, true) else (pos, false)) :=
  matchString_spec f pos s h hs

theorem c09_matchWord (f : File) (pos : Nat) (w : Bytes) (h : InFile f pos) (hw : w ≠ []) (ha : ∀ b ∈ w, b < 0x80) :
    matchWord f pos w = some (if w <+: rest f pos ∧ ((rest f pos).drop w.length).head?.all (fun d => !isWordByte d)
      then (pos + w.length, true) else (pos, false)) :=
  matchWord_spec f pos w h hw ha

/-- ReadRegexp for ANY engine that returns a match length within the rest -/
theorem c09_readRegexp (engine : Bytes → Option Nat) (f : File) (pos : Nat) (h : InFile f pos)
    (hc : ∀ r m, engine r = some m → m ≤ r.length) :
    readRegexp engine f pos = some (
      if rest f pos = [] then (pos, none) else
      match engine (rest f pos) with
      | none => (pos, none)
      | some m => (pos + m, some ((rest f pos).take m))) :=
  readRegexp_spec engine f pos h hc

/-- Readf for ANY custom function: the documented contract decides between a result and the documented panic -/
theorem c09_readf (fn : Bytes → Option Bytes × Nat) (f : File) (pos : Nat) (h : InFile f pos) :
    readf fn f pos =
      if rest f pos = [] then some (pos, none) else
      if (fn (rest f pos)).2 = 0 then (if (fn (rest f pos)).1.isSome then none else some (pos, none))
      else if (fn (rest f pos)).2 < ((fn (rest f pos)).1.getD []).length ∨ (fn (rest f pos)).2 > (rest f pos).length then none
      else some (pos + (fn (rest f pos)).2, (fn (rest f pos)).1) :=
  readf_spec fn f pos h

theorem c09_skipWhitespaces (f : File) (pos : Nat) (m : WsMode) (h : InFile f pos) (hoff : 1 ≤ f.offset) :
    skipWhitespaces f pos m = (pos + wsRun (rest f pos), wsVerdict m pos (rest f pos)) :=
  skipWhitespaces_spec f pos m h hoff

theorem c09_remaining (f : File) (pos : Nat) (h : InFile f pos) : remaining f pos = (rest f pos).length :=
  remaining_spec f pos h

theorem c09_isEOF (f : File) (pos : Nat) (h : InFile f pos) : isEOF f pos = true ↔ rest f pos = [] :=
  isEOF_spec f pos h

/-- **bounds**: on a match the new position is the old one plus the matched length and never exceeds the
    end of the file; on a mismatch the original position is returned -/
theorem c09_bounds (f : File) (pos : Nat) (h : InFile f pos) :
    (∀ ch p b, readRune f pos ch = some (p, b) → (b = false → p = pos) ∧ pos ≤ p ∧ p ≤ f.offset + f.len) ∧
    (∀ s p b, s ≠ [] → matchString f pos s = some (p, b) → (b = false → p = pos) ∧ (b = true → p = pos + s.length) ∧ p ≤ f.offset + f.len) ∧
    (∀ w p b, w ≠ [] → (∀ x ∈ w, x < 0x80) → matchWord f pos w = some (p, b) →
        (b = false → p = pos) ∧ (b = true → p = pos + w.length) ∧ p ≤ f.offset + f.len) ∧
    (∀ m, 1 ≤ f.offset → pos ≤ (skipWhitespaces f pos m).1 ∧ (skipWhitespaces f pos m).1 ≤ f.offset + f.len) := by
  have hrl := rest_length f pos h
  have h' := h
  obtain ⟨h1, h2⟩ := h
  refine ⟨?_, ?_, ?_, ?_⟩
  · intro ch p b hr
    by_cases hc : ch < 0x80
    · rw [readRune_ascii f pos ch h' hc] at hr
      split at hr
      · rename_i hh
        cases hr
        have : (rest f pos).length ≥ 1 := by
          cases hrest : rest f pos with
          | nil => simp [hrest] at hh
          | cons _ _ => simp
        refine ⟨by simp, by omega, by omega⟩
      · cases hr; exact ⟨fun _ => rfl, Nat.le_refl _, h2⟩
    · rw [readRune_multibyte f pos ch h' hc] at hr
      split at hr
      · rename_i hh
        cases hr
        have := Utf8.decodeRune_width (rest f pos) hh.1
        refine ⟨by simp, by omega, by omega⟩
      · cases hr; exact ⟨fun _ => rfl, Nat.le_refl _, h2⟩
  · intro s p b hs hr
    rw [matchString_spec f pos s h' hs] at hr
    split at hr
    · rename_i hp
      cases hr
      have := hp.length_le
      refine ⟨by simp, fun _ => rfl, by omega⟩
    · cases hr; exact ⟨fun _ => rfl, by simp, h2⟩
  · intro w p b hw ha hr
    rw [matchWord_spec f pos w h' hw ha] at hr
    split at hr
    · rename_i hp
      cases hr
      have := hp.1.length_le
      refine ⟨by simp, fun _ => rfl, by omega⟩
    · cases hr; exact ⟨fun _ => rfl, by simp, h2⟩
  · intro m hoff
    rw [skipWhitespaces_spec f pos m h' hoff]
    have := wsRun_le (rest f pos)
    simp only []
    omega

/-- **nothing outside the file is read**: on the domain no primitive evaluates an index outside the
    data (the model answers `none` exactly when the Go code would panic on an index) -/
theorem c09_inbounds (f : File) (pos : Nat) (h : InFile f pos) :
    (∀ ch, readRune f pos ch ≠ none) ∧
    (∀ s, s ≠ [] → matchString f pos s ≠ none) ∧
    (∀ w, w ≠ [] → (∀ x ∈ w, x < 0x80) → matchWord f pos w ≠ none) ∧
    (∀ engine, (∀ r m, engine r = some m → m ≤ r.length) → readRegexp engine f pos ≠ none) := by
  refine ⟨?_, ?_, ?_, ?_⟩
  · intro ch
    by_cases hc : ch < 0x80
    · rw [readRune_ascii f pos ch h hc]; simp
    · rw [readRune_multibyte f pos ch h hc]; simp
  · intro s hs; rw [matchString_spec f pos s h hs]; simp
  · intro w hw ha; rw [matchWord_spec f pos w h hw ha]; simp
  · intro e hc; rw [readRegexp_spec e f pos h hc]; simp

/-- non-vacuity: a concrete file at a non-default base offset, a position inside it, and what the primitives answer -/
def nvFile : File := { name := "t", data := [97, 32, 10, 0xC3, 0xA9], offset := 7 }
example : InFile nvFile 8 := by unfold InFile File.len nvFile; decide
example : skipWhitespaces nvFile 8 .spaces = (10, some (9, .spacesErr)) ∧ readRune nvFile 10 233 = some (12, true) ∧
    matchWord nvFile 7 [97] = some (8, true) ∧ remaining nvFile 10 = 2 := by
  decide

/-- the facts the model takes from the source (regenerated on every run) -/
theorem c09_facts :
    Facts.wsBytes = [32, 9, 10, 12] ∧ Facts.wsBreakBytes = [10, 12] ∧
    Facts.regexpWrap = "\"^(?:\"+expr+\")\"" :=
  ⟨by decide, by decide, rfl⟩

/- (the condition lists of ReadRune / MatchString / MatchWord / ReadRegexp / Readf and of SkipWhitespaces, formerly pinned here as
   text, are subsumed: the functions are translated from the source on every run and proved equal to the model - Props/C09P.lean,
   Props/C10P.lean, both built and audited by this property's check; an equivalent rewrite of the source no longer alarms) -/

/-- the expressions of Remaining, IsEOF and isWordCharacter, TRANSLATED from the Go source on every run
    (Generated/FactsFn.lean), are the model's definitions -/
theorem c09_translated_expressions :
    (∀ f pos, remaining f pos = FactsFn.remaining f.len pos f.offset) ∧
    (∀ f pos, isEOF f pos = FactsFn.isEOF f.len pos f.offset) ∧
    (∀ b, isWordByte b = FactsFn.isWordCharacter b) :=
  ⟨PV.tie_remaining, PV.tie_isEOF, PV.tie_isWordByte⟩

end PV.Text
