/-
  C05 — left-recursive expression grammars evaluate like a reference evaluator.

  Model: `run` / `parse` / `evaluate` (Model/Run.lean, Model/Eval.lean) on the closed grammar
  `Garith.env`, `Garith.root` (Spec/Arith.lean):

      expr   := Memoize(Any(SeqOf(expr, addop, term).Bind(custom 0), term))
      term   := Memoize(Any(SeqOf(term, mulop, factor).Bind(custom 0), factor))
      factor := Any(Trim(Integer()), SeqOf(Trim('('), expr, Trim(')')).Bind(Select(1)))
      root   := Sentence(expr)

  exactly the terms the harness sends to the model and builds the real parsers from (stream C05G: the driver
  command `gclosed` compares the received grammar with these closed terms on every run), evaluated with
  `arithCustom` (= `Driver.menuCustom` by `rfl`, Driver/Closed.lean; = the Go closure `arithInterp` of the harness
  by the differential stream C05).

  Reference: `Expr`, `refEval : Expr → Except Nat Int` (left operand, right operand, int64 operation with
  wrap-around; truncated division; division by zero = the position of the operator), `exprOf : Node → Option Expr`.

  PROVED (for every input file, every fuel, every work budget):
  * `c05_tree_shape`    every derivation of the root is `Sentence[e, EOF]` with `e` an expression tree that ends at
                        the end of the input; expression / term / factor trees are characterised by
                        `c05_expr_tree_iff`, `c05_term_tree_iff`, `c05_factor_tree_iff`: left-nested chains
                        `[exprTree, '+'|'-', termTree]`, `[termTree, '*'|'/', factorTree]`, integer leaves and
                        `['(', exprTree, ')']` — precedence and left associativity are properties of the TREE;
  * `c05_parse_tree`    through C01 soundness: every tree `parse` returns has this shape;
  * `c05_eval_total`    an expression tree evaluates to an integer, or to "division by zero" at the position of
                        one of its `/` leaves (where the file has a `/`), or the evaluator's fuel runs out — never
                        "bad operand" / "bad operator" / "missing interpreter" / an out-of-range Select;
  * `c05_value`         homomorphism: `evalNode arithCustom fuel x = embed (refEval e)` for `exprOf x = some e`
                        (`c05_exprOf_total`: every expression tree has one), for every fuel above the depth
                        (`c05_value_any`: for every fuel, unless the fuel runs out);
  * `c05_evaluate`      `evaluate` on the grammar: a parse error, or for a single returned tree the reference
                        value / the positioned reference error of the expression that tree denotes;
  * `c05_no_panic`      `evaluate` never answers a panic other than the model's own "out of fuel";
  * `c05_error_position` the text of a division-by-zero error is `errorWithPosition fileSet ⟨p, "division by zero"⟩`
                        with `p` the position of a `/` leaf of the tree, the very `p` of `refEval`'s error, and
                        the file has `/` at `p` (C11 turns `p` into file:line:column);
  * `c05_reject`        error xor value; a value only with a tree that spans the whole input.

  NOT PROVED — the full statement of DESIGN.md, kept here:

      theorem c05_value_STATEMENT (e : Expr) (ws : WsChoice) :
          evaluate (cfgOf (render e ws)) arithCustom fuel Garith.root
            = some (match refEval e with | .ok v => .value (.int v) | .error p => .error (… at line:col of p))
      theorem c05_reject_STATEMENT : (parse cfg fuel Garith.root).msg = none → ∃ e ws, cfg.file.data = render e ws

  What is missing for `c05_value_STATEMENT` is (a) completeness of `run` on this grammar (the tree of
  `render e ws` IS found despite curtailment: C01 completeness, open) and (b) unambiguity (the sentence result is
  a single tree, and it is the tree of `e`: `c05_evaluate` has a third case, a list of several trees, that only
  unambiguity excludes).  `c05_reject_STATEMENT` is `c05_parse_tree` + the spelling of the leaves (C01 spans do
  not cover trims).  What IS proved is DESIGN.md's `c05_value_partial`: every successful parse evaluates to the
  reference value of the expression its tree denotes.  The differential stream C05 checks the full statement on
  every generated expression (independent recursive-descent evaluator over the text).
-/
import ParsleyVerif.Proofs.ArithShape
import ParsleyVerif.Proofs.ArithEval
import ParsleyVerif.Proofs.ArithParse
import ParsleyVerif.Props.C01
namespace PV
open PV.Text

/-! ### the grammar is within the scope of C01 soundness -/

theorem c05_grammar_ok : (∀ g' ∈ Garith.env, GOK Garith.bodyOf g') ∧ GOK Garith.bodyOf Garith.root := by
  refine ⟨?_, ?_⟩
  · intro g' hg'
    simp only [Garith.env, List.mem_cons, List.not_mem_nil, or_false] at hg'
    rcases hg' with rfl | rfl | rfl <;>
      simp [GOK, G.All, AllList, LocalOK, Garith.expr, Garith.term, Garith.factor, Garith.exprBody, Garith.termBody,
        Garith.exprSeq, Garith.termSeq, Garith.parenSeq, Garith.addop, Garith.mulop, Garith.trim, Garith.rn, Garith.bodyOf]
  · simp [GOK, G.All, AllList, LocalOK, Garith.root, G.sentence]

/-! ### tree shape -/

/-- the tree of `Sentence(p)` around `e` -/
def sentenceNode (e : Node) : Node := .nt seqTok [e, .eof e.rpos] e.pos e.rpos (.select 0)

/-- **C05 tree shape**: every derivation of the root is `Sentence[e, EOF]`, `e` an expression tree ending at the
    end of the input -/
theorem c05_tree_shape (cfg : Cfg) (henv : cfg.env = Garith.env) (pos : Nat) (x : Node)
    (h : Derives cfg Garith.root pos x) :
    ∃ e, IsExprTree cfg.file e ∧ isEOF cfg.file e.rpos = true ∧ x = sentenceNode e := by
  obtain ⟨y, hy, heof, hx⟩ := derives_sentence_inv cfg (.ref 0) pos x h
  exact ⟨y, arith_derives_tree cfg henv 0 (by omega) pos y hy, heof, hx⟩

/-- the same for the three nonterminals -/
theorem c05_nonterminal_trees (cfg : Cfg) (henv : cfg.env = Garith.env) (pos : Nat) (x : Node) :
    (Derives cfg (.ref 0) pos x → IsExprTree cfg.file x) ∧
    (Derives cfg (.ref 1) pos x → IsTermTree cfg.file x) ∧
    (Derives cfg (.ref 2) pos x → IsFactorTree cfg.file x) :=
  ⟨arith_derives_tree cfg henv 0 (by omega) pos x, arith_derives_tree cfg henv 1 (by omega) pos x,
   arith_derives_tree cfg henv 2 (by omega) pos x⟩

theorem IsTree.level_le {f : File} {n : Nat} {x : Node} (h : IsTree f n x) : n ≤ 2 := by
  induction h with
  | int => omega
  | paren => omega
  | bin _ _ _ hl _ _ _ => cases ‹Op› <;> simp [Op.level] at hl <;> omega
  | up _ ih => omega

theorem ofRune_level0 {c : Nat} {o : Op} (h : Op.ofRune c = some o) (hl : o.level = 0) : c = 43 ∨ c = 45 := by
  unfold Op.ofRune at h
  split at h <;> cases h <;> simp [Op.level] at hl <;> simp

theorem ofRune_level1 {c : Nat} {o : Op} (h : Op.ofRune c = some o) (hl : o.level = 1) : c = 42 ∨ c = 47 := by
  unfold Op.ofRune at h
  split at h <;> cases h <;> simp [Op.level] at hl <;> simp

/-- factor trees: an integer leaf, or `['(', exprTree, ')']` under Select(1) -/
theorem c05_factor_tree_iff (f : File) (x : Node) :
    IsFactorTree f x ↔
      (∃ tok v p r, x = .term tok (.int v) p r) ∨
      (∃ tk lp e rp p q, x = .nt tk [lp, e, rp] p q (.select 1) ∧ IsRuneLeaf f 40 lp ∧ IsExprTree f e ∧ IsRuneLeaf f 41 rp) := by
  constructor
  · intro h
    cases h with
    | int => exact .inl ⟨_, _, _, _, rfl⟩
    | paren h1 h2 h3 => exact .inr ⟨_, _, _, _, _, _, rfl, h1, h2, h3⟩
    | bin _ _ _ hl _ => cases ‹Op› <;> simp [Op.level] at hl
    | up h => have := h.level_le; omega
  · rintro (⟨tok, v, p, r, rfl⟩ | ⟨tk, lp, e, rp, p, q, rfl, h1, h2, h3⟩)
    · exact .int
    · exact .paren h1 h2 h3

/-- term trees: `[termTree, '*'|'/', factorTree]` under custom 0, or a factor tree -/
theorem c05_term_tree_iff (f : File) (x : Node) :
    IsTermTree f x ↔
      (∃ tk l c op r p q, x = .nt tk [l, op, r] p q (.custom 0) ∧ IsTermTree f l ∧ (c = 42 ∨ c = 47) ∧
        IsRuneLeaf f c op ∧ IsFactorTree f r) ∨
      IsFactorTree f x := by
  constructor
  · intro h
    cases h with
    | bin h1 h2 h3 hl h4 => exact .inl ⟨_, _, _, _, _, _, _, rfl, h1, ofRune_level1 h3 hl, h2, h4⟩
    | up h => exact .inr h
  · rintro (⟨tk, l, c, op, r, p, q, rfl, h1, hc, h2, h4⟩ | h)
    · rcases hc with rfl | rfl
      · exact .bin (o := .mul) h1 h2 rfl rfl h4
      · exact .bin (o := .div) h1 h2 rfl rfl h4
    · exact .up h

/-- expression trees: `[exprTree, '+'|'-', termTree]` under custom 0, or a term tree -/
theorem c05_expr_tree_iff (f : File) (x : Node) :
    IsExprTree f x ↔
      (∃ tk l c op r p q, x = .nt tk [l, op, r] p q (.custom 0) ∧ IsExprTree f l ∧ (c = 43 ∨ c = 45) ∧
        IsRuneLeaf f c op ∧ IsTermTree f r) ∨
      IsTermTree f x := by
  constructor
  · intro h
    cases h with
    | bin h1 h2 h3 hl h4 => exact .inl ⟨_, _, _, _, _, _, _, rfl, h1, ofRune_level0 h3 hl, h2, h4⟩
    | up h => exact .inr h
  · rintro (⟨tk, l, c, op, r, p, q, rfl, h1, hc, h2, h4⟩ | h)
    · rcases hc with rfl | rfl
      · exact .bin (o := .add) h1 h2 rfl rfl h4
      · exact .bin (o := .sub) h1 h2 rfl rfl h4
    · exact .up h

/-- through C01 soundness: every tree `parse` returns is `Sentence[e, EOF]` over an expression tree that ends at
    the end of the input -/
theorem c05_parse_tree (cfg : Cfg) (henv : cfg.env = Garith.env) (fuel : Nat) (p : ParseOut)
    (h : parse cfg fuel Garith.root = some p) :
    ∀ x ∈ p.res.alts, ∃ e, IsExprTree cfg.file e ∧ isEOF cfg.file e.rpos = true ∧ x = sentenceNode e := by
  intro x hx
  have henv' : ∀ g' ∈ cfg.env, GOK Garith.bodyOf g' := by rw [henv]; exact c05_grammar_ok.1
  exact c05_tree_shape cfg henv _ x (c01_sound_parse cfg Garith.bodyOf henv' fuel _ c05_grammar_ok.2 p h x hx)

/-! ### evaluation of expression trees -/

/-- every expression tree denotes an expression -/
theorem c05_exprOf_total (f : File) (x : Node) (h : IsExprTree f x) : ∃ e, exprOf x = some e :=
  arith_exprOf_some h

/-- **C05 totality**: for every fuel, an expression tree evaluates to an integer, or to "division by zero" at the
    position `p` of one of its `/` leaves (and the file has `/` at `p`), or the fuel runs out (only when the fuel
    does not exceed the depth) — no other outcome, in particular none of the panics -/
theorem c05_eval_total (f : File) (x : Node) (h : IsExprTree f x) (fuel : Nat) :
    (∃ v, evalNode arithCustom fuel x = .ok (.int v)) ∨
    (∃ p, evalNode arithCustom fuel x = .err p (tokOf "division by zero") ∧ DivLeafAt f x p) ∨
    (evalNode arithCustom fuel x = .panic "out of fuel" ∧ fuel ≤ x.depth) :=
  arith_eval_total h fuel

/-- **C05 homomorphism**: with fuel above the depth, an expression tree evaluates to the reference value (or the
    reference error) of the expression it denotes -/
theorem c05_value (f : File) (x : Node) (h : IsExprTree f x) (e : Expr) (he : exprOf x = some e)
    (fuel : Nat) (hd : x.depth < fuel) : evalNode arithCustom fuel x = embed (refEval e) :=
  arith_value h e he fuel hd

/-- for every fuel: the reference outcome, or out of fuel -/
theorem c05_value_any (f : File) (x : Node) (h : IsExprTree f x) (e : Expr) (he : exprOf x = some e) (fuel : Nat) :
    evalNode arithCustom fuel x = embed (refEval e) ∨ evalNode arithCustom fuel x = .panic "out of fuel" :=
  arith_value_any h e he fuel

/-- a reference error is the position of a `/` leaf of the tree, where the file has `/` -/
theorem c05_ref_error_at (f : File) (x : Node) (h : IsExprTree f x) (e : Expr) (he : exprOf x = some e) (q : Nat)
    (hq : refEval e = .error q) : DivLeafAt f x q := by
  have hv := arith_value h e he (x.depth + 1) (by omega)
  rw [hq] at hv
  rcases arith_eval_total h (x.depth + 1) with ⟨v, h1⟩ | ⟨p, h1, h2⟩ | ⟨_, h2⟩
  · rw [hv] at h1; cases h1
  · rw [hv] at h1
    simp only [embed, EvalOut.err.injEq] at h1
    rw [h1.1]; exact h2
  · omega

theorem evalNode_sentenceNode (ce : CustomEval) (fuel : Nat) (e : Node) :
    evalNode ce (fuel + 1) (sentenceNode e) = evalNode ce fuel e := by
  simp [sentenceNode, evalNode]

/-! ### Evaluate -/

/-- **C05, `evaluate` on the grammar** (DESIGN.md's `c05_value_partial`).  Either the parse fails and its error
    is the answer; or it returns a single tree `Sentence[t, EOF]`, `t` an expression tree denoting `e`, and the
    answer is the reference value of `e` / the reference error of `e` rendered with its position (a `/` leaf of
    `t`) / out of fuel; or it returns several trees (not excluded here: that needs unambiguity) and the answer is
    the evaluator's "node does not have a value" error. -/
theorem c05_evaluate (cfg : Cfg) (henv : cfg.env = Garith.env) (fuel : Nat) (out : EvaluateOut)
    (h : evaluate cfg arithCustom fuel Garith.root = some out) :
    ∃ p, parse cfg fuel Garith.root = some p ∧
      ((∃ m, p.msg = some m ∧ out = .error m) ∨
       (p.msg = none ∧ ∃ t e, p.res = .one (sentenceNode t) ∧ IsExprTree cfg.file t ∧ isEOF cfg.file t.rpos = true ∧
          exprOf t = some e ∧
          ((∃ v, refEval e = .ok v ∧ out = .value (.int v)) ∨
           (∃ q, refEval e = .error q ∧ DivLeafAt cfg.file t q ∧
              out = .error (errorWithPosition cfg.fileSet ⟨q, .other (tokOf "division by zero")⟩)) ∨
           (out = .panic "out of fuel" ∧ fuel ≤ t.depth + 1))) ∨
       (p.msg = none ∧ ∃ n l, p.res = .list (n :: l) ∧
          out = .error (errorWithPosition cfg.fileSet ⟨n.pos, .other noValueMsg⟩))) := by
  obtain ⟨p, hp, hcase⟩ := evaluate_cases cfg arithCustom fuel Garith.root out h
  refine ⟨p, hp, ?_⟩
  rcases hcase with hrej | ⟨hok, hev⟩
  · exact .inl hrej
  · have hne := parse_sentence_alts_ne cfg (.ref 0) fuel p hp hok
    have htrees := c05_parse_tree cfg henv fuel p hp
    cases hres : p.res with
    | nil => simp [hres, Res.alts] at hne
    | list l =>
      cases l with
      | nil => simp [hres, Res.alts] at hne
      | cons n l' =>
        refine .inr (.inr ⟨hok, n, l', rfl, ?_⟩)
        rw [hres] at hev
        simp only [evalRes] at hev
        rcases hev with ⟨v, h1, _⟩ | ⟨q, m, h1, h2⟩ | ⟨s, h1, _⟩
        · cases h1
        · cases h1; exact h2
        · cases h1
    | one x =>
      obtain ⟨t, ht, heof, rfl⟩ := htrees x (by simp [hres, Res.alts])
      obtain ⟨e, he⟩ := arith_exprOf_some ht
      refine .inr (.inl ⟨hok, t, e, rfl, ht, heof, he, ?_⟩)
      rw [hres] at hev
      simp only [evalRes] at hev
      cases fuel with
      | zero =>
        rcases hev with ⟨v, h1, _⟩ | ⟨q, m, h1, _⟩ | ⟨s, h1, h2⟩
        · cases h1
        · cases h1
        · simp only [evalNode, EvalOut.panic.injEq] at h1
          subst h1
          exact .inr (.inr ⟨h2, Nat.zero_le _⟩)
      | succ k =>
        rw [evalNode_sentenceNode] at hev
        rcases arith_value_any ht e he k with hv | hv
        · rw [hv] at hev
          cases hr : refEval e with
          | ok v =>
            rw [hr] at hev
            rcases hev with ⟨v', h1, h2⟩ | ⟨q, m, h1, _⟩ | ⟨s, h1, _⟩
            · simp only [embed, EvalOut.ok.injEq] at h1
              subst h1
              exact .inl ⟨v, rfl, h2⟩
            · cases h1
            · cases h1
          | error q =>
            rw [hr] at hev
            rcases hev with ⟨v', h1, _⟩ | ⟨q', m, h1, h2⟩ | ⟨s, h1, _⟩
            · cases h1
            · simp only [embed, EvalOut.err.injEq] at h1
              obtain ⟨rfl, rfl⟩ := h1
              exact .inr (.inl ⟨q, rfl, c05_ref_error_at _ t ht e he q hr, h2⟩)
            · cases h1
        · rw [hv] at hev
          rcases hev with ⟨v', h1, _⟩ | ⟨q', m, h1, _⟩ | ⟨s, h1, h2⟩
          · cases h1
          · cases h1
          · cases h1
            rcases arith_eval_total ht k with ⟨v, h3⟩ | ⟨d, h3, _⟩ | ⟨_, h3⟩
            · rw [hv] at h3; cases h3
            · rw [hv] at h3; cases h3
            · exact .inr (.inr ⟨h2, by omega⟩)

/-- **C05: `evaluate` never panics** on the arithmetic grammar — whatever the input; the model's own
    "out of fuel" aside -/
theorem c05_no_panic (cfg : Cfg) (henv : cfg.env = Garith.env) (fuel : Nat) (s : String)
    (h : evaluate cfg arithCustom fuel Garith.root = some (.panic s)) : s = "out of fuel" := by
  obtain ⟨p, _, hc⟩ := c05_evaluate cfg henv fuel _ h
  rcases hc with ⟨m, _, h1⟩ | ⟨_, t, e, _, _, _, _, h1⟩ | ⟨_, n, l, _, h1⟩
  · cases h1
  · rcases h1 with ⟨v, _, h2⟩ | ⟨q, _, _, h2⟩ | ⟨h2, _⟩
    · cases h2
    · cases h2
    · cases h2; rfl
  · cases h1

/-- **C05: a value is the reference value** of the expression denoted by the tree that was parsed, and that tree
    spans the input to its end -/
theorem c05_value_partial (cfg : Cfg) (henv : cfg.env = Garith.env) (fuel : Nat) (v : V)
    (h : evaluate cfg arithCustom fuel Garith.root = some (.value v)) :
    ∃ p t e i, parse cfg fuel Garith.root = some p ∧ p.res = .one (sentenceNode t) ∧ IsExprTree cfg.file t ∧
      isEOF cfg.file t.rpos = true ∧ exprOf t = some e ∧ refEval e = .ok i ∧ v = .int i := by
  obtain ⟨p, hp, hc⟩ := c05_evaluate cfg henv fuel _ h
  rcases hc with ⟨m, _, h1⟩ | ⟨_, t, e, hres, ht, heof, he, h1⟩ | ⟨_, n, l, _, h1⟩
  · cases h1
  · rcases h1 with ⟨i, hr, h2⟩ | ⟨q, _, _, h2⟩ | ⟨h2, _⟩
    · cases h2; exact ⟨p, t, e, i, hp, hres, ht, heof, he, hr, rfl⟩
    · cases h2
    · cases h2
  · cases h1

/-- **C05 error position**: when the expression the parsed tree denotes divides by zero, the answer is the error
    text "division by zero" rendered by the file set at the position `q` the reference evaluator reports; `q` is
    the position of a `/` leaf of the tree and the file has `/` there -/
theorem c05_error_position (cfg : Cfg) (henv : cfg.env = Garith.env) (fuel : Nat) (p : ParseOut) (t : Node) (e : Expr)
    (q : Nat) (hp : parse cfg fuel Garith.root = some p) (hres : p.res = .one (sentenceNode t))
    (he : exprOf t = some e) (hq : refEval e = .error q) (hfuel : t.depth + 1 < fuel) :
    evaluate cfg arithCustom fuel Garith.root =
      some (.error (errorWithPosition cfg.fileSet ⟨q, .other (tokOf "division by zero")⟩)) ∧
    DivLeafAt cfg.file t q ∧ RuneAt cfg.file 47 q := by
  obtain ⟨t', ht, _, hx⟩ := c05_parse_tree cfg henv fuel p hp (sentenceNode t) (by simp [hres, Res.alts])
  have htt : t' = t := by
    simp only [sentenceNode, Node.nt.injEq, List.cons.injEq] at hx
    exact hx.2.1.1.symm
  subst htt
  have hdiv := c05_ref_error_at _ t' ht e he q hq
  have hat : RuneAt cfg.file 47 q := by
    obtain ⟨_, _, h3⟩ := hdiv
    exact h3
  refine ⟨?_, hdiv, hat⟩
  have hmsg : p.msg = none := by
    rcases c04_xor cfg fuel _ {} p hp with h1 | h1
    · exact h1.2.2
    · rw [hres] at h1; simp [Res.isNil] at h1
  obtain ⟨k, rfl⟩ : ∃ k, fuel = k + 1 := ⟨fuel - 1, by omega⟩
  have hv := arith_value ht e he k (by omega)
  simp only [evaluate, hp, hmsg, hres, evalRes, evalNode_sentenceNode, hv, hq, embed, divZeroMsg]

/-- the text of a positioned error: the message, " at ", and the rendered file position (unknown positions:
    the message alone) — `FileSet.position` is C11's / C12's subject -/
theorem c05_error_text (fs : FileSet) (q : Nat) :
    errorWithPosition fs ⟨q, .other (tokOf "division by zero")⟩ =
      match fs.position q with
      | .unknown => tokOf "division by zero"
      | pr => tokOf "division by zero" ++ tokOf " at " ++ tokOf pr.render := by
  simp only [errorWithPosition, ErrKind.msg]
  cases fs.position q <;> rfl

/-- **C05 reject / accept**: `parse` gives exactly one of tree / error (C04), and a tree only for an input that
    an expression tree spans from the first byte's whitespace to the end of the input -/
theorem c05_reject (cfg : Cfg) (henv : cfg.env = Garith.env) (fuel : Nat) (p : ParseOut)
    (h : parse cfg fuel Garith.root = some p) :
    (p.res.isNil = true ∧ p.err.isSome ∧ p.msg.isSome) ∨
    (p.res.isNil = false ∧ p.err = none ∧ p.msg = none ∧ p.res.alts ≠ [] ∧
      ∀ x ∈ p.res.alts, ∃ e, IsExprTree cfg.file e ∧ isEOF cfg.file e.rpos = true ∧ x = sentenceNode e) := by
  rcases c04_xor cfg fuel _ {} p h with h1 | h1
  · exact .inr ⟨h1.1, h1.2.1, h1.2.2, parse_sentence_alts_ne cfg _ fuel p h h1.2.2, c05_parse_tree cfg henv fuel p h⟩
  · exact .inl h1

/-! ### non-vacuity

  The model's `run` cannot be evaluated by the kernel on this grammar: `cpUnion` (IntSet.Union) is defined by
  well-founded recursion and a nested Memoize forces its value (`Ctx.filter`), so `decide` gets stuck.  The
  examples are therefore kernel-checked at the level of trees — the trees below ARE the ones `parse` returns
  (the `#guard` lines run the model's `evaluate` on the files with the interpreter at build time; they are tests,
  not theorems) — and one complete derivation is exhibited for the hypotheses of `c05_tree_shape`. -/

def nvArithCfg (src : Bytes) : Cfg :=
  let r := ({} : FileSet).addFile (newFile "f" src)
  { env := Garith.env, file := r.2, fileSet := r.1,
    params := { floatOk := fun _ => true, durErr := fun _ => none, regexp := fun _ _ => none } }

def intLeaf (v : Int) (p r : Nat) : Node := .term (tokOf "INTEGER") (.int v) p r
def opLeaf (c p r : Nat) : Node := .term [c] (.rune c) p r
def binNode (l op r : Node) : Node := .nt seqTok [l, op, r] l.pos r.rpos (.custom 0)

/-- `1 + 2 * 3` -/
def nvSrc1 : Bytes := [49, 32, 43, 32, 50, 32, 42, 32, 51]
def nvTree1 : Node := binNode (intLeaf 1 1 3) (opLeaf 43 3 5) (binNode (intLeaf 2 5 7) (opLeaf 42 7 9) (intLeaf 3 9 10))
example : IsExprTree (nvArithCfg nvSrc1).file nvTree1 :=
  .bin (c := 43) (o := .add) (.up (.up .int)) ⟨3, 5, rfl, 4, by decide⟩ rfl rfl
    (.bin (c := 42) (o := .mul) (.up .int) ⟨7, 9, rfl, 8, by decide⟩ rfl rfl .int)
example : exprOf nvTree1 = some (.add (.lit 1) 3 (.mul (.lit 2) 7 (.lit 3))) := by rfl
example : refEval (.add (.lit 1) 3 (.mul (.lit 2) 7 (.lit 3))) = .ok 7 := by rfl
example : evalNode arithCustom 4 (sentenceNode nvTree1) = .ok (.int 7) := by rfl

/-- `(1+2)*3` -/
def nvSrc2 : Bytes := [40, 49, 43, 50, 41, 42, 51]
def nvTree2 : Node :=
  binNode (.nt seqTok [opLeaf 40 1 2, binNode (intLeaf 1 2 3) (opLeaf 43 3 4) (intLeaf 2 4 5), opLeaf 41 5 6] 1 6 (.select 1))
    (opLeaf 42 6 7) (intLeaf 3 7 8)
example : IsExprTree (nvArithCfg nvSrc2).file nvTree2 :=
  .up (.bin (c := 42) (o := .mul)
    (.up (.paren ⟨1, 2, rfl, 2, by decide⟩ (.bin (c := 43) (o := .add) (.up (.up .int)) ⟨3, 4, rfl, 4, by decide⟩ rfl rfl (.up .int))
      ⟨5, 6, rfl, 6, by decide⟩))
    ⟨6, 7, rfl, 7, by decide⟩ rfl rfl .int)
example : exprOf nvTree2 = some (.mul (.paren (.add (.lit 1) 3 (.lit 2))) 6 (.lit 3)) := by rfl
example : refEval (.mul (.paren (.add (.lit 1) 3 (.lit 2))) 6 (.lit 3)) = .ok 9 := by rfl
example : evalNode arithCustom 5 (sentenceNode nvTree2) = .ok (.int 9) := by rfl

/-- `8/2/2` is `(8/2)/2 = 2`, not `8/(2/2) = 8`: the tree is left-nested -/
def nvSrc3 : Bytes := [56, 47, 50, 47, 50]
def nvTree3 : Node := binNode (binNode (intLeaf 8 1 2) (opLeaf 47 2 3) (intLeaf 2 3 4)) (opLeaf 47 4 5) (intLeaf 2 5 6)
example : IsExprTree (nvArithCfg nvSrc3).file nvTree3 :=
  .up (.bin (c := 47) (o := .div) (.bin (c := 47) (o := .div) (.up .int) ⟨2, 3, rfl, 3, by decide⟩ rfl rfl .int) ⟨4, 5, rfl, 5, by decide⟩ rfl rfl .int)
example : exprOf nvTree3 = some (.div (.div (.lit 8) 2 (.lit 2)) 4 (.lit 2)) := by rfl
example : refEval (.div (.div (.lit 8) 2 (.lit 2)) 4 (.lit 2)) = .ok 2 := by rfl
example : evalNode arithCustom 4 (sentenceNode nvTree3) = .ok (.int 2) := by rfl

/-- `7/0`: division by zero at the position of the `/` (position 2 = f:1:2) -/
def nvSrc4 : Bytes := [55, 47, 48]
def nvTree4 : Node := binNode (intLeaf 7 1 2) (opLeaf 47 2 3) (intLeaf 0 3 4)
example : IsExprTree (nvArithCfg nvSrc4).file nvTree4 :=
  .up (.bin (c := 47) (o := .div) (.up .int) ⟨2, 3, rfl, 3, by decide⟩ rfl rfl .int)
example : exprOf nvTree4 = some (.div (.lit 7) 2 (.lit 0)) := by rfl
example : refEval (.div (.lit 7) 2 (.lit 0)) = .error 2 := by rfl
example : evalNode arithCustom 3 (sentenceNode nvTree4) = .err 2 (tokOf "division by zero") := by rfl
example : errorWithPosition (nvArithCfg nvSrc4).fileSet ⟨2, .other (tokOf "division by zero")⟩ =
    tokOf "division by zero at f:1:2" := by decide +kernel
/-- int64 wrap-around: `9223372036854775807 + 1` -/
example : refEval (.add (.lit 9223372036854775807) 0 (.lit 1)) = .ok (-9223372036854775808) := by rfl
/-- truncated division: `-7 / 2 = -3`; `-9223372036854775808 / -1` wraps -/
example : refEval (.div (.lit (-7)) 0 (.lit 2)) = .ok (-3) := by rfl
example : refEval (.div (.lit (-9223372036854775808)) 0 (.lit (-1))) = .ok (-9223372036854775808) := by rfl

/-- a complete derivation: the grammar derives `Sentence[nvTree4, EOF]` from `7/0` -/
example : Derives (nvArithCfg nvSrc4) Garith.root 1 (sentenceNode nvTree4) := by
  have hint : ∀ (p : Nat) (x : Node), Terminal.parse (nvArithCfg nvSrc4).params (nvArithCfg nvSrc4).file .integer
        (skipWhitespaces (nvArithCfg nvSrc4).file p .spacesNl).1 = .node x →
      Derives (nvArithCfg nvSrc4) (.ref 2) p (setRposNode (nvArithCfg nvSrc4).file .spacesNl x none).1 := by
    intro p x hx
    exact .ref (g := Garith.factor) rfl (.any (g := Garith.trim (.term .integer)) (by simp) (.rtrimMove (.ltrim (.term hx))))
  have h7 : Derives (nvArithCfg nvSrc4) (.ref 2) 1 (intLeaf 7 1 2) := hint 1 (intLeaf 7 1 2) rfl
  have h0 : Derives (nvArithCfg nvSrc4) (.ref 2) 3 (intLeaf 0 3 4) := hint 3 (intLeaf 0 3 4) rfl
  have hop : Derives (nvArithCfg nvSrc4) Garith.mulop 2 (opLeaf 47 2 3) :=
    .any (g := Garith.trim (Garith.rn 47)) (by simp)
      (.rtrimMove (x := opLeaf 47 2 3) (.ltrim (.term rfl)))
  have hterm7 : Derives (nvArithCfg nvSrc4) (.ref 1) 1 (intLeaf 7 1 2) :=
    .ref (g := Garith.term) rfl (.memo (.any (g := .ref 2) (by simp) h7))
  have hseq := Derives.seqfam (cfg := nvArithCfg nvSrc4) (g := Garith.termSeq) (pos := 1)
    (nodes := [intLeaf 7 1 2, opLeaf 47 2 3, intLeaf 0 3 4]) rfl (.cons rfl hterm7 (.cons rfl hop (.cons rfl h0 .nil))) rfl
  have hdiv : Derives (nvArithCfg nvSrc4) (.ref 1) 1 nvTree4 :=
    .ref (g := Garith.term) rfl (.memo (.any (g := Garith.termSeq) (by simp) hseq))
  have hexpr : Derives (nvArithCfg nvSrc4) (.ref 0) 1 nvTree4 :=
    .ref (g := Garith.expr) rfl (.memo (.any (g := .ref 1) (by simp) hdiv))
  exact Derives.seqfam (cfg := nvArithCfg nvSrc4) (g := Garith.root) (pos := 1) (nodes := [nvTree4, .eof 4]) rfl
    (.cons rfl hexpr (.cons rfl (.eof rfl) .nil)) rfl

/-! the model itself, run by the interpreter at build time (tests, not theorems) -/
def outIsInt (o : Option EvaluateOut) (i : Int) : Bool :=
  match o with | some (.value (.int j)) => i == j | _ => false
def outIsErr (o : Option EvaluateOut) (m : Bytes) : Bool :=
  match o with | some (.error m') => m == m' | _ => false
def resIsOne (o : Option ParseOut) (f : Node → Bool) : Bool :=
  match o with | some p => (match p.res with | .one x => f x | _ => false) | none => false
#guard outIsInt (evaluate (nvArithCfg nvSrc1) arithCustom 1000 Garith.root) 7
#guard outIsInt (evaluate (nvArithCfg nvSrc2) arithCustom 1000 Garith.root) 9
#guard outIsInt (evaluate (nvArithCfg nvSrc3) arithCustom 1000 Garith.root) 2
#guard outIsErr (evaluate (nvArithCfg nvSrc4) arithCustom 1000 Garith.root) (tokOf "division by zero at f:1:2")
#guard outIsErr (evaluate (nvArithCfg [49, 32, 43]) arithCustom 1000 Garith.root)
  (tokOf "failed to parse the input: was expecting \"(\" at f:1:4")
#guard resIsOne (parse (nvArithCfg nvSrc1) 1000 Garith.root) (fun x => toString (repr x) == toString (repr (sentenceNode nvTree1)))
#guard resIsOne (parse (nvArithCfg nvSrc2) 1000 Garith.root) (fun x => toString (repr x) == toString (repr (sentenceNode nvTree2)))
#guard resIsOne (parse (nvArithCfg nvSrc3) 1000 Garith.root) (fun x => toString (repr x) == toString (repr (sentenceNode nvTree3)))
#guard resIsOne (parse (nvArithCfg nvSrc4) 1000 Garith.root) (fun x => toString (repr x) == toString (repr (sentenceNode nvTree4)))

end PV
