/-
  C04 — the Sentence IFF WITH THE WHITESPACE TRIMS under left recursion.

    "Parse returns a node or an error, never neither; a Sentence-rooted parse succeeds iff the grammar derives
     the WHOLE input."

  Props/C04S.lean left this open (`c04_sentence_iff_trim_STATEMENT`): with the loose reading `Derives` of the trims
  the IF half is false (`c04s_trim_iff_false`), and completeness under left recursion with trims did not exist.
  Props/C01W.lean has since fixed the EXACT meaning of the trims, `DerivesW` (Spec/DerivesW.lean: LeftTrim skips the
  maximal whitespace run and the mode must accept it; RightTrim moves each tree's reader position past the maximal
  run after it and the mode must accept that run), and proved soundness and completeness for it on the fragment

      term, empty, ref, memo, any, seqOf, optional  +  ltrim, rtrim     (every whitespace mode; left recursion over
                                                                       Memoize, also THROUGH a LeftTrim)

  under the scope conditions that exclude the three deviations of text/trim.go (findings F1, F2 and the D9 family of
  Props/C01W.lean).  This file composes:

    Props/C01W.lean   `c01w_sound` (every tree `run` returns is a `DerivesW`),
                      `c01w_sentence_complete_parse` (a `DerivesW` that consumes the input ⟹ Sentence succeeds),
    Props/C02U.lean   `c02u_terminates_parse` (termination with trims, certificate `wfT`),
    Props/C04.lean    `c04_xor` (node xor error),
    Proofs/S04W.lean  NEW: soundness taken THROUGH the wrapper `SeqOf(g, End)` — `End` is outside the fragment — with
                      the returned TREE (`sentence_sound_w`).

  * `c04_sentence_sound_w`     a success of `Parse(Sentence(g))` returns at least one tree, and every returned tree is
        `SEQ[y, EOF(hi)]` from `y.pos` to `hi` with interpreter Select(0), where `y` is an EXACT derivation of `g` from
        the first position that ends at the end of the input `hi`.
        (`c04_sentence_sound_w_eof`: the same under the soundness scope `WScopeS` alone — nothing asked of the
        terminals — with "`End` matches at `y.rpos`" in place of `y.rpos = hi`: a terminal that is not `TermGood` may
        report a reader position beyond the file, and `End` matches there too.)
  * `c04_sentence_iff_trim_answered`   for EVERY fuel with which `Parse` answers: success ⟺ some exact derivation of
        `g` consumes the entire input; the trees; node xor error.  No termination certificate.
  * `c04_sentence_iff_trim`    end to end: with a termination certificate `wfT` there is a fuel from which on `Parse`
        answers, and the above holds of every answer.
  * non-vacuity:  `c04w_lt_iff`     `P → LeftTrim(P) 'b' | 'a'` (memoized; left recursion THROUGH a LeftTrim), EVERY input;
                  `c04w_lt_accept`  "  abb" accepted (from the derivation `lt_derives` of Props/C01W.lean);
                  `c04w_lt_reject`  "  ab a" rejected: ONE evaluation of the model decides that no exact derivation of
                                    `P` consumes it;
                  `c04w_arith_iff`  the arithmetic grammar (every token under `text.Trim`, two left-recursive memoized
                                    rules), EVERY input, any offset, any ParseFloat / regexp engine;
                  `c04w_arith_accept`  "1 + 2 " accepted.
-/
import ParsleyVerif.Proofs.S04W
import ParsleyVerif.Props.C04S
import ParsleyVerif.Props.C01W
namespace PV
open PV.Text PV.C1T PV.WFT

namespace S04W

theorem scopeS_of {cfg : Cfg} {bodyOf : Nat → G} {g : G} (h : WScopeS cfg bodyOf g) : ScopeS cfg bodyOf g :=
  ⟨h.frag, h.sound, h.gok⟩

/-- a successful `Parse(Sentence(g))` in terms of the run it wraps -/
theorem parse_success (cfg : Cfg) (bodyOf : Nat → G) (henv : ∀ g' ∈ cfg.env, WScopeS cfg bodyOf g')
    (g : G) (hs : WScopeS cfg bodyOf g) (fuel : Nat) (p : ParseOut)
    (h : parse cfg fuel (G.sentence g) = some p) (hnone : p.err = none) :
    p.res.alts ≠ [] ∧ ∀ x ∈ p.res.alts, SentW cfg g (cfg.file.pos 0) x := by
  obtain ⟨o, st1, hr, hiff, hres⟩ := S04.parse_cases cfg fuel _ p h
  obtain ⟨hnil, _⟩ := hiff.mp hnone
  rw [hres hnone]
  exact ⟨S04.sentence_alts_ne cfg g fuel _ {} o st1 hr hnil,
    sentence_sound_w cfg bodyOf (fun g' hg' => scopeS_of (henv g' hg')) g (scopeS_of hs) fuel _ {}
      (by intro e he; cases he) o st1 hr⟩

end S04W

open S04W

/-! ## 1. soundness through the wrapper, with the trees -/

/-- **C04 with trims, the ONLY-IF half, soundness scope alone** (`WScopeS`: the fragment with trims, one parser per
    Memoize index, LeftTrim with a rejecting mode over an `ErrFree` operand; nothing is asked of the terminals).
    A success of `Parse(Sentence(g))` returns at least one tree, and every returned tree is the Sentence node over an
    EXACT derivation `y` of `g` from the first position after which `End` matches. -/
theorem c04_sentence_sound_w_eof (cfg : Cfg) (bodyOf : Nat → G) (henv : ∀ g' ∈ cfg.env, WScopeS cfg bodyOf g')
    (g : G) (hs : WScopeS cfg bodyOf g) (fuel : Nat) (p : ParseOut)
    (h : parse cfg fuel (G.sentence g) = some p) (hnone : p.err = none) :
    p.res.alts ≠ [] ∧ ∀ x ∈ p.res.alts, ∃ y, DerivesW cfg g (cfg.file.pos 0) y ∧ isEOF cfg.file y.rpos = true ∧
      x = .nt seqTok [y, .eof y.rpos] y.pos y.rpos (.select 0) :=
  parse_success cfg bodyOf henv g hs fuel p h hnone

/-- **C04 with trims, the ONLY-IF half with the trees.**  `g` and every rule in the soundness scope `WScopeS`, and
    terminals that stay inside the file (`TermsW`, C08's subject — what `WScope` asks).  If `Parse(Sentence(g))`
    succeeds, it returns at least one tree, and every returned tree is `SEQ[y, EOF(hi)]` from `y.pos` to the end of
    the input `hi`, interpreter Select(0), where `y` is an EXACT derivation of `g` from the first position
    (`DerivesW`: maximal whitespace runs, accepted by the modes) that ends at `hi`.  (With a LeftTrim at the top,
    `y.pos` — the root's start — lies after the leading whitespace.) -/
theorem c04_sentence_sound_w (cfg : Cfg) (bodyOf : Nat → G)
    (henv : ∀ g' ∈ cfg.env, WScopeS cfg bodyOf g' ∧ TermsW cfg g')
    (g : G) (hs : WScopeS cfg bodyOf g) (ht : TermsW cfg g) (fuel : Nat) (p : ParseOut)
    (h : parse cfg fuel (G.sentence g) = some p) (hnone : p.err = none) :
    p.res.alts ≠ [] ∧ ∀ x ∈ p.res.alts, ∃ y, DerivesW cfg g (cfg.file.pos 0) y ∧ y.rpos = cfg.hi ∧
      x = .nt seqTok [y, .eof cfg.hi] y.pos cfg.hi (.select 0) := by
  obtain ⟨hne, hall⟩ := parse_success cfg bodyOf (fun g' hg' => (henv g' hg').1) g hs fuel p h hnone
  refine ⟨hne, fun x hx => ?_⟩
  obtain ⟨y, hy, he, hxe⟩ := hall x hx
  obtain ⟨b1, b2, _⟩ := derivesW_pos cfg (fun g' hg' => (henv g' hg').2) hy ht (c01_pre_initial cfg).1
  have hhi : y.rpos = cfg.hi := S04.isEOF_eq_hi he b1 b2
  exact ⟨y, hy, hhi, by rw [hxe, hhi]⟩

/-! ## 2. the iff -/

/-- **C04, Sentence iff WITH the whitespace trims under left recursion, partial correctness**: for EVERY fuel with
    which `Parse` answers.  `g` and every rule in both scopes of Props/C01W.lean (`WScope`: the fragment with trims —
    RightTrim over an `ErrFree` operand, a rejecting mode only over a token —, one parser per Memoize index,
    terminals inside the file; `SoundW`: LeftTrim with a rejecting mode over an `ErrFree` operand).  No termination
    certificate.  Success ⟺ some EXACT derivation of `g` from the first position ends at the end of the input; the
    trees of a success; a node or an error, never neither, never both. -/
theorem c04_sentence_iff_trim_answered (cfg : Cfg) (bodyOf : Nat → G)
    (henv : ∀ g' ∈ cfg.env, WScope cfg bodyOf g' ∧ SoundW cfg g')
    (g : G) (hs : WScope cfg bodyOf g) (hss : SoundW cfg g) (fuel : Nat) (p : ParseOut)
    (h : parse cfg fuel (G.sentence g) = some p) :
    (p.err = none ↔ ∃ x, DerivesW cfg g (cfg.file.pos 0) x ∧ x.rpos = cfg.hi) ∧
    (p.err = none → p.res.alts ≠ [] ∧ ∀ x ∈ p.res.alts, ∃ y, DerivesW cfg g (cfg.file.pos 0) y ∧ y.rpos = cfg.hi ∧
      x = .nt seqTok [y, .eof cfg.hi] y.pos cfg.hi (.select 0)) ∧
    ((p.res.isNil = false ∧ p.err = none ∧ p.msg = none) ∨ (p.res.isNil = true ∧ p.err.isSome ∧ p.msg.isSome)) := by
  have hsound := c04_sentence_sound_w cfg bodyOf
    (fun g' hg' => ⟨⟨(henv g' hg').1.frag, (henv g' hg').2, (henv g' hg').1.gok⟩, (henv g' hg').1.terms⟩)
    g ⟨hs.frag, hss, hs.gok⟩ hs.terms fuel p h
  refine ⟨⟨fun hnone => ?_, fun hex => ?_⟩, hsound, c04_xor cfg fuel _ {} p h⟩
  · obtain ⟨hne, hall⟩ := hsound hnone
    cases hp : p.res.alts with
    | nil => exact absurd hp hne
    | cons x l =>
      obtain ⟨y, hy, hhi, _⟩ := hall x (by rw [hp]; exact List.mem_cons_self ..)
      exact ⟨y, hy, hhi⟩
  · exact (c01w_sentence_complete_parse cfg bodyOf (fun g' hg' => (henv g' hg').1) g hs fuel p h hex).1

/-- **C04, Sentence iff WITH the whitespace trims under left recursion, end to end** — the statement Props/C04S.lean
    left open (`c04_sentence_iff_trim_STATEMENT`), with the exact trim meaning `DerivesW` in place of the loose
    `Derives` for which it is false.  `g` and every rule in both scopes of Props/C01W.lean; `wcert` a termination
    certificate (decidable check `wfT rx`; `RxSound`: a Regexp the certificate declares non-nullable never matches
    the empty string; the driver's work budget is off — the hypotheses of Props/C02U.lean).  Then there is a fuel
    from which on `Parse(Sentence(g))` answers, succeeds exactly when some exact derivation of `g` consumes the
    entire input, a success returns Sentence nodes over such derivations, and a failure carries an error. -/
theorem c04_sentence_iff_trim (wcert : WFCert) (rx : Nat → Bool) (cfg : Cfg) (bodyOf : Nat → G)
    (henv : ∀ g' ∈ cfg.env, WScope cfg bodyOf g' ∧ SoundW cfg g')
    (g : G) (hs : WScope cfg bodyOf g) (hss : SoundW cfg g)
    (hwf : wfT rx wcert cfg.env g = true) (hbudget : cfg.maxCalls = 0) (hrx : RxSound rx cfg.params) :
    ∃ F, ∀ fuel, F ≤ fuel → ∃ p, parse cfg fuel (G.sentence g) = some p ∧
      (p.err = none ↔ ∃ x, DerivesW cfg g (cfg.file.pos 0) x ∧ x.rpos = cfg.hi) ∧
      (p.err = none → p.res.alts ≠ [] ∧ ∀ x ∈ p.res.alts, ∃ y, DerivesW cfg g (cfg.file.pos 0) y ∧ y.rpos = cfg.hi ∧
        x = .nt seqTok [y, .eof cfg.hi] y.pos cfg.hi (.select 0)) ∧
      ((p.res.isNil = false ∧ p.err = none ∧ p.msg = none) ∨ (p.res.isNil = true ∧ p.err.isSome ∧ p.msg.isSome)) := by
  obtain ⟨F, hF⟩ := c02u_terminates_parse rx wcert cfg (G.sentence g) (by rw [S04.wfT_sentence]; exact hwf) hbudget hrx
  refine ⟨F, fun fuel hle => ?_⟩
  have hsome := hF fuel hle
  cases hp : parse cfg fuel (G.sentence g) with
  | none => rw [hp] at hsome; cases hsome
  | some p => exact ⟨p, rfl, c04_sentence_iff_trim_answered cfg bodyOf henv g hs hss fuel p hp⟩

/-- … with every Regexp treated as nullable: no hypothesis on the regexp engine -/
theorem c04_sentence_iff_trim_any_engine (wcert : WFCert) (cfg : Cfg) (bodyOf : Nat → G)
    (henv : ∀ g' ∈ cfg.env, WScope cfg bodyOf g' ∧ SoundW cfg g')
    (g : G) (hs : WScope cfg bodyOf g) (hss : SoundW cfg g)
    (hwf : wfT rxAll wcert cfg.env g = true) (hbudget : cfg.maxCalls = 0) :
    ∃ F, ∀ fuel, F ≤ fuel → ∃ p, parse cfg fuel (G.sentence g) = some p ∧
      (p.err = none ↔ ∃ x, DerivesW cfg g (cfg.file.pos 0) x ∧ x.rpos = cfg.hi) ∧
      (p.err = none → p.res.alts ≠ [] ∧ ∀ x ∈ p.res.alts, ∃ y, DerivesW cfg g (cfg.file.pos 0) y ∧ y.rpos = cfg.hi ∧
        x = .nt seqTok [y, .eof cfg.hi] y.pos cfg.hi (.select 0)) ∧
      ((p.res.isNil = false ∧ p.err = none ∧ p.msg = none) ∨ (p.res.isNil = true ∧ p.err.isSome ∧ p.msg.isSome)) :=
  c04_sentence_iff_trim wcert rxAll cfg bodyOf henv g hs hss hwf hbudget (rxSound_all cfg.params)

/-! ## 3. non-vacuity -/

/-! ### left recursion THROUGH a LeftTrim: `P → LeftTrim(P) 'b' | 'a'` (memoized), EVERY input -/

namespace S04W
open PV.C1TNV

/-- the configuration of Props/C01W.lean with the input as a parameter (`ltD [32, 32, 97, 98, 98]` is `ltCfg`) -/
def ltD (data : Bytes) : Cfg := c1tCfg [.memo 0 ltBody] data

theorem ltD_scope (data : Bytes) : ∀ g' ∈ (ltD data).env, WScope (ltD data) (fun _ => ltBody) g' ∧ SoundW (ltD data) g' := by
  intro g' hg'
  simp only [ltD, c1tCfg, List.mem_singleton] at hg'
  subst hg'
  refine ⟨⟨?_, ?_, ?_⟩, ?_⟩
  · simp only [FragW, G.All, AllList, FragLocalW, ltBody, c1tA, c1tB, and_true, true_and]
    exact ⟨⟨by decide, fragLocal_rune _ _ _ (by decide)⟩, fragLocal_rune _ _ _ (by decide)⟩
  · simp [GOK, G.All, AllList, LocalOK, ltBody, c1tA, c1tB]
  · simp only [TermsW, G.All, AllList, TermsLocalW, ltBody, c1tA, c1tB, and_true, true_and]
    exact ⟨termGood_rune _ _ _, termGood_rune _ _ _⟩
  · simp [SoundW, G.All, AllList, SoundLocalW, ltBody, c1tA, c1tB]

/-- the termination certificate: Memoize index 0, nothing nullable -/
def ltW : WFCert := PV.certOf [] [] [] [0]

theorem ltD_wf (data : Bytes) : wfT rxAll ltW (ltD data).env (.ref 0) = true := by
  show wfT rxAll ltW [.memo 0 ltBody] (.ref 0) = true
  decide

end S04W

open PV.C1TNV in
/-- **the theorem instantiated on `P → LeftTrim(P) 'b' | 'a'`, EVERY input** (file at offset 1): from some fuel on
    `Parse(Sentence(P))` answers, and succeeds exactly when an exact derivation of `P` — the recursive `P` reached
    across skipped whitespace, with the left-recursion counters carried — ends at `1 + length of the input` -/
theorem c04w_lt_iff (data : Bytes) :
    ∃ F, ∀ fuel, F ≤ fuel → ∃ p, parse (ltD data) fuel (G.sentence (.ref 0)) = some p ∧
      (p.err = none ↔ ∃ x, DerivesW (ltD data) (.ref 0) 1 x ∧ x.rpos = 1 + data.length) ∧
      (p.err = none → p.res.alts ≠ [] ∧ ∀ x ∈ p.res.alts, ∃ y, DerivesW (ltD data) (.ref 0) 1 y ∧ y.rpos = 1 + data.length ∧
        x = .nt seqTok [y, .eof (1 + data.length)] y.pos (1 + data.length) (.select 0)) ∧
      ((p.res.isNil = false ∧ p.err = none ∧ p.msg = none) ∨ (p.res.isNil = true ∧ p.err.isSome ∧ p.msg.isSome)) :=
  c04_sentence_iff_trim_any_engine ltW (ltD data) (fun _ => ltBody) (ltD_scope data) (.ref 0)
    (c1t_root _ _ 0).1 (c1t_root (ltD data) (fun _ => ltBody) 0).2 (ltD_wf data) rfl

open PV.C1TNV in
/-- ACCEPTED, derived from the theorem: "  abb" has the exact derivation `((a b) b)` of Props/C01W.lean (`lt_derives`:
    the inner `P` reached across the two blanks), which ends at 6 — so `Parse(Sentence(P))` succeeds for every
    large fuel, and every tree it returns is the Sentence node over an exact derivation that starts at 3 or later -/
theorem c04w_lt_accept :
    ∃ F, ∀ fuel, F ≤ fuel → ∃ p, parse ltCfg fuel (G.sentence (.ref 0)) = some p ∧ p.err = none ∧ p.res.alts ≠ [] ∧
      ∀ x ∈ p.res.alts, ∃ y, DerivesW ltCfg (.ref 0) 1 y ∧ y.rpos = 6 ∧ x = .nt seqTok [y, .eof 6] y.pos 6 (.select 0) := by
  obtain ⟨F, hF⟩ := c04w_lt_iff [32, 32, 97, 98, 98]
  refine ⟨F, fun fuel hle => ?_⟩
  obtain ⟨p, hp, hiff, hroot, _⟩ := hF fuel hle
  have hnone : p.err = none := hiff.mpr ⟨ltABB, lt_derives, rfl⟩
  exact ⟨p, hp, hnone, (hroot hnone).1, (hroot hnone).2⟩

open PV.C1TNV in
set_option maxRecDepth 100000 in
/-- REJECTED, derived from the theorem in the other direction: on "  ab a" ONE evaluation of the model fails, hence
    (partial-correctness iff) NO exact derivation of `P` consumes "  ab a" — a statement about an inductive relation
    over all trees, decided by running the parser —, hence (end-to-end iff) `Parse` fails, with an error, for every
    large fuel -/
theorem c04w_lt_reject :
    (¬ ∃ x, DerivesW (ltD [32, 32, 97, 98, 32, 97]) (.ref 0) 1 x ∧ x.rpos = 7) ∧
    ∃ F, ∀ fuel, F ≤ fuel → ∃ p, parse (ltD [32, 32, 97, 98, 32, 97]) fuel (G.sentence (.ref 0)) = some p ∧
      p.res.isNil = true ∧ p.err.isSome ∧ p.msg.isSome := by
  have hev : (parse (ltD [32, 32, 97, 98, 32, 97]) 60 (G.sentence (.ref 0))).map (fun p => p.err.isNone) = some false := by
    decide
  have hno : ¬ ∃ x, DerivesW (ltD [32, 32, 97, 98, 32, 97]) (.ref 0) 1 x ∧ x.rpos = 7 := by
    intro hex
    cases hp : parse (ltD [32, 32, 97, 98, 32, 97]) 60 (G.sentence (.ref 0)) with
    | none => rw [hp] at hev; cases hev
    | some p =>
      rw [hp] at hev
      have hnone := (c04_sentence_iff_trim_answered (ltD [32, 32, 97, 98, 32, 97]) (fun _ => ltBody) (ltD_scope _) (.ref 0)
        (c1t_root _ _ 0).1 (c1t_root (ltD [32, 32, 97, 98, 32, 97]) (fun _ => ltBody) 0).2 60 p hp).1.mpr hex
      simp [hnone] at hev
  refine ⟨hno, ?_⟩
  obtain ⟨F, hF⟩ := c04w_lt_iff [32, 32, 97, 98, 32, 97]
  refine ⟨F, fun fuel hle => ?_⟩
  obtain ⟨p, hp, hiff, _, hxor⟩ := hF fuel hle
  refine ⟨p, hp, ?_⟩
  cases hxor with
  | inl h1 => exact absurd (hiff.mp h1.2.1) hno
  | inr h1 => exact h1

/-! ### the arithmetic grammar (every token under `text.Trim`, `expr` and `term` left-recursive over Memoize), EVERY input -/

open PV.C1TNV in
/-- **the theorem instantiated on the arithmetic grammar, for EVERY input** — any file, any base offset, any
    ParseFloat / ParseDuration / regexp engine: from some fuel on `Parse(Sentence(expr))` answers, and succeeds
    exactly when an exact derivation of `expr` (blanks, tabs and line breaks allowed around every token, maximal
    runs) consumes the entire input; a success returns the Sentence node over such a derivation -/
theorem c04w_arith_iff (cfg : Cfg) (henv : cfg.env = Garith.env) (hbudget : cfg.maxCalls = 0) :
    ∃ F, ∀ fuel, F ≤ fuel → ∃ p, parse cfg fuel Garith.root = some p ∧
      (p.err = none ↔ ∃ x, DerivesW cfg (.ref 0) (cfg.file.pos 0) x ∧ x.rpos = cfg.hi) ∧
      (p.err = none → p.res.alts ≠ [] ∧ ∀ x ∈ p.res.alts, ∃ y, DerivesW cfg (.ref 0) (cfg.file.pos 0) y ∧ y.rpos = cfg.hi ∧
        x = .nt seqTok [y, .eof cfg.hi] y.pos cfg.hi (.select 0)) ∧
      ((p.res.isNil = false ∧ p.err = none ∧ p.msg = none) ∨ (p.res.isNil = true ∧ p.err.isSome ∧ p.msg.isSome)) :=
  c04_sentence_iff_trim_any_engine C02UNV.arithCert cfg Garith.bodyOf (arith_scopeW cfg henv) (.ref 0)
    (c1t_root _ _ 0).1 (c1t_root cfg Garith.bodyOf 0).2
    (by rw [henv, ← S04.wfT_sentence]; exact C02UNV.wfT_arith) hbudget

/-- … and for every fuel with which it answers, without the termination argument -/
theorem c04w_arith_iff_answered (cfg : Cfg) (henv : cfg.env = Garith.env) (fuel : Nat) (p : ParseOut)
    (h : parse cfg fuel Garith.root = some p) :
    (p.err = none ↔ ∃ x, DerivesW cfg (.ref 0) (cfg.file.pos 0) x ∧ x.rpos = cfg.hi) ∧
    (p.err = none → p.res.alts ≠ [] ∧ ∀ x ∈ p.res.alts, ∃ y, DerivesW cfg (.ref 0) (cfg.file.pos 0) y ∧ y.rpos = cfg.hi ∧
      x = .nt seqTok [y, .eof cfg.hi] y.pos cfg.hi (.select 0)) ∧
    ((p.res.isNil = false ∧ p.err = none ∧ p.msg = none) ∨ (p.res.isNil = true ∧ p.err.isSome ∧ p.msg.isSome)) :=
  c04_sentence_iff_trim_answered cfg Garith.bodyOf (PV.C1TNV.arith_scopeW cfg henv) (.ref 0)
    (PV.C1TNV.c1t_root _ _ 0).1 (PV.C1TNV.c1t_root cfg Garith.bodyOf 0).2 fuel p h

open PV.C1TNV in
/-- ACCEPTED, derived from the theorem: "1 + 2 " has the exact derivation `arTree` of Props/C01W.lean (every leaf's
    reader position past the blanks after it), which ends at 7 -/
theorem c04w_arith_accept :
    ∃ F, ∀ fuel, F ≤ fuel → ∃ p, parse arCfg fuel Garith.root = some p ∧ p.err = none ∧ p.res.alts ≠ [] ∧
      ∀ x ∈ p.res.alts, ∃ y, DerivesW arCfg (.ref 0) 1 y ∧ y.rpos = 7 ∧ x = .nt seqTok [y, .eof 7] y.pos 7 (.select 0) := by
  obtain ⟨F, hF⟩ := c04w_arith_iff arCfg rfl rfl
  refine ⟨F, fun fuel hle => ?_⟩
  obtain ⟨p, hp, hiff, hroot, _⟩ := hF fuel hle
  have hnone : p.err = none := hiff.mpr ⟨arTree, ar_derives, rfl⟩
  exact ⟨p, hp, hnone, (hroot hnone).1, (hroot hnone).2⟩

end PV
