/-
  C13P — the TREE PASSES, about the functions TRANSLATED from the Go source.

  `factgen -out-tree` translates, statement by statement, parsley.Walk / StaticCheck / Transform (parsley/walk.go,
  static_check.go, transform.go), the Walk / StaticCheck / Transform / Children / Schema … methods of ast.NonTerminalNode,
  ast.NodeList, ast.EmptyNode, ast.TerminalNode, parser.EndNode, and the interpreters of ast/interpreter into Lean
  definitions (Generated/FactsTree.lean, regenerated from the repository on every run; run-time: the hand-written
  Generated/TreePrelude.lean).  In the translation a `*ast.NonTerminalNode` is an ADDRESS into a heap and the passes write
  the heap in place (`n.schema = …`, `n.children[i] = …`), as the Go code does; type tests (`node.(Walkable)`,
  `n.interpreter.(parsley.StaticChecker)` …) are tests of the dynamic type, with the set of implementing types computed
  from the method sets on every run; user-defined checkers / transformers are fields of a WORLD parameter.

  Vocabulary (Proofs/TreeTieBasics.lean, TreeTieAbs.lean).  `Sk`: the shape of a tree lying in a heap (addresses of the
  non-terminals, node values of the leaves, node lists); `Shaped h sk`: the heap holds it; `sk.addrs.Nodup`: the tree does
  not share cells; `sk.post`: the node values in post-order; `absT E h sk`: the model tree (`PV.Walk.T`) the heap shows
  (`E.key` names node values, `E.icode` interpreter values; schemas via `decS`); `visit f l`: call `f` on the nodes of `l`
  in order and stop after the first `true`; `sk.fuel`: recursion depth needed (fuel is a bound only: nothing below
  answers "out of fuel").

  * `c13_translated_walk`      Walk, on every shape, for EVERY call-back that leaves the children slices alone: it calls the
                               call-back on exactly the post-order sequence and stops after the first `true` (order,
                               visit-once, stops immediately); against the model: result and call sequence of `walk`;
  * `c13_translated_visits`    that sequence holds every node of the tree exactly once (restated about the translation);
  * `c13_translated_check`     StaticCheck = the model's `check`: the error returned, and the heap afterwards shows the
                               model's annotated tree (schemas stored in the cells); nothing outside the tree is written;
  * `c13_translated_transform` Transform = the model's `transform`, with user transformers assumed to — and Transform
                               proved to — satisfy the contract `TrOut`;
  * `c13_translated_passes`    the three together;
  * `c13p_select_check`        interpreter.Select's StaticCheck: the schema of child i (panic when there is none).
-/
import ParsleyVerif.Proofs.TreeTieTransform
import ParsleyVerif.Proofs.TreeTieExample
namespace PV
open PV.TreeTie PV.FactsTree
open PV.Walk (T ICap Checker Transformer walk check transform postorder)

/-- the functions of the tree passes the translator is asked for -/
def treePassFunctions : List String :=
  ["Walk", "NodeList_Walk", "StaticCheck", "NonTerminalNode_StaticCheck", "Transform", "NonTerminalNode_Transform",
   "NonTerminalNode_Children", "NonTerminalNode_Schema", "NodeList_Schema", "EmptyNode_Schema", "EndNode_Schema",
   "TerminalNode_Schema", "selectInterpreter_StaticCheck"]

/-- everything asked for is translated, and the dynamic types behind the type tests are the expected ones -/
theorem c13p_all_translated :
    treePassFunctions.all (fun f => FactsTree.translatedTree.contains f) = true ∧ FactsTree.untranslatedTree = [] ∧
    FactsTree.typeTests =
      ["parsley.LiteralNode: *ast.TerminalNode",
       "parsley.NodeTransformer: ",
       "parsley.NonLiteralNode: parser.EndNode, *ast.NonTerminalNode",
       "parsley.NonTerminalNode: *ast.NonTerminalNode",
       "parsley.StaticCheckable: *ast.NonTerminalNode",
       "parsley.StaticChecker: interpreter.selectInterpreter",
       "parsley.Transformable: *ast.NonTerminalNode",
       "parsley.Walkable: ast.NodeList"] := by
  decide

/-- **Walk, translated** — (1) for every call-back that does not change which cells there are nor their `children`
    (it may write everything else: StaticCheck's call-back stores schemas), Walk calls it on the nodes of the tree in
    post-order and stops after the first `true`; (2) with the call-back that records the node's id and answers `stop id`:
    the model's `walk` — same result, same sequence of calls. -/
theorem c13_translated_walk (W : TW) (sk : Sk) (fuel : Nat) (s : TSt) (hs : Shaped s.heap sk) (hfu : sk.fuel ≤ fuel) :
    (∀ f : TN → TM Bool, KidStable f → Walk W fuel sk.node f s = visit f sk.post s) ∧
    (∀ (E : Enc) (stop : Nat → Bool),
      Walk W fuel sk.node (logStop E.key stop) s =
        .ok (walk stop (absT E s.heap sk)).2 { s with ext := s.ext ++ (walk stop (absT E s.heap sk)).1.map Int.ofNat }) :=
  ⟨fun f hf => walk_visit W f hf sk fuel s hs hfu, fun E stop => tie_Walk W E stop sk fuel s hs hfu⟩

/-- **every node once, in order** (about the sequence the translated Walk follows): its ids are the model tree's
    post-order; they are a rearrangement of the pre-order enumeration of the nodes; with distinct ids every node's id
    occurs exactly once; and a call-back that never answers `true` is called on all of it -/
theorem c13_translated_visits (W : TW) (E : Enc) (sk : Sk) (fuel : Nat) (s : TSt) (hs : Shaped s.heap sk)
    (hfu : sk.fuel ≤ fuel) :
    sk.post.map E.key = postorder (absT E s.heap sk) ∧
    (sk.post.map E.key).Perm (absT E s.heap sk).ids ∧
    ((absT E s.heap sk).ids.Nodup → (sk.post.map E.key).Nodup) ∧
    (∀ f : TN → TM Bool, KidStable f → (∀ n ∈ sk.post, ∀ s1 b s2, f n s1 = .ok b s2 → b = false) →
      ∀ b s', Walk W fuel sk.node f s = .ok b s' → b = false) := by
  have hp := (postorder_abs E s.heap sk).symm
  refine ⟨hp, hp ▸ PV.Walk.postorder_perm _, fun hnd => hp ▸ (PV.Walk.postorder_perm _).nodup_iff.mpr hnd, ?_⟩
  intro f hf hfalse b s' hw
  rw [walk_visit W f hf sk fuel s hs hfu] at hw
  clear hp hs hfu
  generalize sk.post = l at hfalse hw
  induction l generalizing s with
  | nil => simp [visit] at hw; exact hw.1
  | cons n r ih =>
    simp only [visit, bind_apply] at hw
    cases hx : f n s with
    | ok b1 s1 =>
      rw [hx] at hw
      have := hfalse n (by simp) s b1 s1 hx
      subst this
      simp at hw
      exact ih s1 (fun m hm => hfalse m (by simp [hm])) hw
    | panic => rw [hx] at hw; cases hw
    | nofuel => rw [hx] at hw; cases hw

/-- **StaticCheck, translated, is the model's `check`** — on every tree-shaped heap, with every checker behaviour
    (`CheckWorld`: user-defined checkers answer what the model's `chk` answers and do not write the store; the library's
    own checker interpreter.Select is `chk` on its numbers): the error returned is the model's first error; afterwards
    the heap shows the model's annotated tree (every schema the checkers returned before the first error is STORED in
    its cell, nothing else changed); cells outside the tree are untouched; one escaped variable was allocated. -/
theorem c13_translated_check (W : TW) (E : Enc) (uctx : TValue) (caps : Nat → ICap) (chk : Checker) (sk : Sk) (fuel : Nat)
    (s : TSt) (cw : CheckWorld W E uctx caps chk s.heap sk) (hs : Shaped s.heap sk) (hnd : sk.addrs.Nodup)
    (hfu : sk.fuel ≤ fuel) :
    ∃ s', StaticCheck W fuel uctx sk.node s = .ok (encErrO (check caps chk (absT E s.heap sk)).2) s' ∧
      absT E s'.heap sk = (check caps chk (absT E s.heap sk)).1 ∧
      Shaped s'.heap sk ∧ (∀ b, b ∉ sk.addrs → s'.heap b = s.heap b) ∧
      s'.vars = s.vars ++ [.err (encErrO (check caps chk (absT E s.heap sk)).2)] ∧
      s'.userCtx = s.userCtx ∧ s'.ext = s.ext :=
  tie_StaticCheck W E uctx caps chk sk fuel s cw hs hnd hfu

/-- **Transform, translated, is the model's `transform`** — on every tree-shaped heap, with every transformer behaviour
    satisfying the contract `TrOut` (an error: the model's error code, the cells outside the tree untouched; a success: a
    tree-shaped part of the new heap that shows the model's result, made of cells of the old tree or of fresh ones, the
    other cells untouched): Transform satisfies the same contract against the model's `transform`.  In particular the
    children are transformed BEFORE the result is assembled, left to right, and the first error aborts. -/
theorem c13_translated_transform (W : TW) (E : Enc) (uctx : TValue) (caps : Nat → ICap) (tr : Transformer)
    (tw : TransformWorld W E uctx caps tr) (sk : Sk) (fuel : Nat) (s : TSt) (hs : Shaped s.heap sk) (hnd : sk.addrs.Nodup)
    (hfu : 2 * sk.fuel ≤ fuel) :
    TrOut E s sk (Transform W fuel uctx sk.node s) (transform caps tr (absT E s.heap sk)) :=
  transform_tie W E uctx caps tr tw sk fuel s hs hnd hfu

/-- **the three passes** -/
theorem c13_translated_passes (W : TW) (E : Enc) (uctx : TValue) (sk : Sk) (fuel : Nat) (s : TSt) (hs : Shaped s.heap sk)
    (hnd : sk.addrs.Nodup) (hfu : 2 * sk.fuel ≤ fuel) :
    (∀ f : TN → TM Bool, KidStable f → Walk W fuel sk.node f s = visit f sk.post s) ∧
    (∀ stop : Nat → Bool,
      Walk W fuel sk.node (logStop E.key stop) s =
        .ok (walk stop (absT E s.heap sk)).2 { s with ext := s.ext ++ (walk stop (absT E s.heap sk)).1.map Int.ofNat }) ∧
    (∀ (caps : Nat → ICap) (chk : Checker), CheckWorld W E uctx caps chk s.heap sk →
      ∃ s', StaticCheck W fuel uctx sk.node s = .ok (encErrO (check caps chk (absT E s.heap sk)).2) s' ∧
        absT E s'.heap sk = (check caps chk (absT E s.heap sk)).1 ∧ Shaped s'.heap sk ∧
        (∀ b, b ∉ sk.addrs → s'.heap b = s.heap b)) ∧
    (∀ (caps : Nat → ICap) (tr : Transformer), TransformWorld W E uctx caps tr →
      TrOut E s sk (Transform W fuel uctx sk.node s) (transform caps tr (absT E s.heap sk))) := by
  have hfu1 : sk.fuel ≤ fuel := by omega
  refine ⟨fun f hf => walk_visit W f hf sk fuel s hs hfu1, fun stop => tie_Walk W E stop sk fuel s hs hfu1, ?_, ?_⟩
  · intro caps chk cw
    obtain ⟨s', h1, h2, h3, h4, _⟩ := tie_StaticCheck W E uctx caps chk sk fuel s cw hs hnd hfu1
    exact ⟨s', h1, h2, h3, h4⟩
  · intro caps tr tw
    exact transform_tie W E uctx caps tr tw sk fuel s hs hnd hfu

/-- **interpreter.Select's StaticCheck, translated**: the schema of child `i` (nil for ast.EmptyNode, parser.EndNode and
    ast.NodeList, the stored schema of a terminal / non-terminal), the documented panic when `i` is out of range; the store
    is not written -/
theorem c13p_select_check (W : TW) (i : Int) (u : TValue) (a : PV.TreePrelude.Ptr) (s : TSt) (c : TCell) (hc : s.heap a = some c) :
    selectInterpreter_StaticCheck W ⟨i⟩ u (.ref a) s =
      match (if 0 ≤ i ∧ i < (c.children.length : Int) then (c.children[i.toNat]?).bind (childSchema s.heap) else none) with
      | some v => .ok (v, PV.CorePrelude.Err.nil) s
      | none => .panic :=
  tie_Select_StaticCheck W i u a s c hc

/-! ### non-vacuity: a heap with four non-terminals (one without interpreter over a terminal, a Select node, a node list
    whose first item is a non-terminal with a user-defined checker / transformer, and an empty non-terminal with another
    one), a world whose checkers / transformers succeed or fail (`bad`), the model parameters they realise -/

theorem c13p_nonvacuous (bad : Bool) (u : TValue) :
    CheckWorld (Ex.world bad) Ex.enc u Ex.caps (Ex.chk bad) Ex.st.heap Ex.root ∧
    TransformWorld (Ex.world bad) Ex.enc u Ex.caps (Ex.tr bad) ∧
    Shaped Ex.st.heap Ex.root ∧ Ex.root.addrs.Nodup ∧ Ex.root.addrs = [1, 2, 3, 4] ∧ Ex.root.fuel = 5 ∧
    absT Ex.enc Ex.st.heap Ex.root =
      .nt 1 none none [.leaf 110, .nt 2 (some 0) none [.leaf 112, .leaf 113],
        .list 50 [.nt 3 (some 3) none [.leaf 114], .leaf 111], .nt 4 (some 4) none []] ∧
    Ex.root.post.map Ex.enc.key = [110, 112, 113, 2, 114, 3, 50, 4, 1] :=
  ⟨Ex.checkWorld bad u, Ex.transformWorld bad u, Ex.shaped, Ex.nodup, by decide, by decide, by rfl, by decide⟩

/-- on the example: a failing checker — the translated StaticCheck returns the model's error 9 (raised at node 3, the
    first checker in post-order after Select at node 2), the heap afterwards shows the model's tree; a succeeding one —
    no error, and the schemas are stored -/
theorem c13p_example :
    (∃ s', StaticCheck (Ex.world true) 5 .nil (.ref 1) Ex.st = .ok (encErr 9) s' ∧
      absT Ex.enc s'.heap Ex.root = (check Ex.caps (Ex.chk true) (absT Ex.enc Ex.st.heap Ex.root)).1) ∧
    (∃ s', StaticCheck (Ex.world false) 5 .nil (.ref 1) Ex.st = .ok .nil s' ∧
      absT Ex.enc s'.heap Ex.root =
        .nt 1 none none [.leaf 110, .nt 2 (some 0) none [.leaf 112, .leaf 113],
          .list 50 [.nt 3 (some 3) (some 42) [.leaf 114], .leaf 111], .nt 4 (some 4) (some 42) []]) := by
  constructor
  · obtain ⟨s', h1, h2, _⟩ := tie_StaticCheck (Ex.world true) Ex.enc .nil Ex.caps (Ex.chk true) Ex.root 5 Ex.st
      (Ex.checkWorld true .nil) Ex.shaped Ex.nodup (by decide)
    refine ⟨s', ?_, h2⟩
    rw [show (PV.TreePrelude.Node.ref 1 : TN) = Ex.root.node from rfl, h1]
    rfl
  · obtain ⟨s', h1, h2, _⟩ := tie_StaticCheck (Ex.world false) Ex.enc .nil Ex.caps (Ex.chk false) Ex.root 5 Ex.st
      (Ex.checkWorld false .nil) Ex.shaped Ex.nodup (by decide)
    refine ⟨s', ?_, h2.trans (by rfl)⟩
    rw [show (PV.TreePrelude.Node.ref 1 : TN) = Ex.root.node from rfl, h1]
    rfl

end PV
