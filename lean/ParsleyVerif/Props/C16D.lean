/-
  C16, the DECISION theorem — composition of
  * `c02u_json_terminates` (Props/C02U.lean): the JSON example parser answers on EVERY input beyond some fuel,
  * `c16_accept_iff` / `c16_accepts_only_renderings` / `c16_rejects_outside` (Props/C16A.lean): it answers with a node
    exactly on the document language `JLang`,
  * `parse_mono` (fuel monotonicity).

  For every configuration with the grammar's rules and no work budget there is a fuel beyond which Parse answers, with a
  node iff the input is in `JLang` (then every returned tree is the tree of a document of the language and denotes its
  value), with an error and Parse's message otherwise.
-/
import ParsleyVerif.Props.C16A
import ParsleyVerif.Props.C02U
namespace PV
open PV.Text

theorem c16_decides (cfg : Cfg) (henv : cfg.env = Gjson.env) (hmc : cfg.maxCalls = 0) (hoff : 1 ≤ cfg.file.offset) :
    ∃ F, ∀ fuel, F ≤ fuel → ∃ p, parse cfg fuel Gjson.root = some p ∧
      (p.err = none ↔ JLang cfg.params cfg.file.data) ∧
      (p.err = none → p.res.alts ≠ [] ∧
        ∀ x ∈ p.res.alts, ∃ lead d trail, WsNlF lead ∧ WsNlF trail ∧ AccDoc.OK cfg.params d ∧
          cfg.file.data = renderAcc lead d trail ∧
          x = sentenceNode (J16Acc.rootTree cfg.file.offset lead d trail) ∧
          jvalOf (J16Acc.rootTree cfg.file.offset lead d trail) = some d.val) ∧
      (¬ JLang cfg.params cfg.file.data → p.res.isNil = true ∧ p.err.isSome ∧ p.msg.isSome) := by
  obtain ⟨F, hF⟩ := c02u_json_terminates cfg henv hmc
  refine ⟨F, fun fuel hfuel => ?_⟩
  have hs := hF fuel hfuel
  obtain ⟨p, hp⟩ := Option.isSome_iff_exists.mp hs
  refine ⟨p, hp, ⟨fun hok => ?_, fun hl => ?_⟩, fun hok => ?_, fun hout => ?_⟩
  · exact (c16_accept_iff cfg henv hmc hoff).mp ⟨fuel, p, hp, hok⟩
  · by_cases hok : p.err = none
    · exact hok
    · exfalso
      -- an accepting answer exists at some fuel; by monotonicity the answers agree at the larger of the two fuels
      obtain ⟨f2, p2, hp2, hok2⟩ := (c16_accept_iff cfg henv hmc hoff).mpr hl
      have h1 := parse_mono cfg fuel (max fuel f2) (Nat.le_max_left fuel f2) Gjson.root {} p hp
      have h2 := parse_mono cfg f2 (max fuel f2) (Nat.le_max_right fuel f2) Gjson.root {} p2 hp2
      rw [h1] at h2
      cases h2
      exact hok hok2
  · exact c16_accepts_only_renderings cfg henv hoff fuel p hp hok
  · exact c16_rejects_outside cfg henv hoff hout fuel p hp

/-- non-vacuity: both branches are inhabited (membership facts of Props/C16A.lean): `[1,<LF>2]` is in the language,
    `[1,]` is not — so on `nvJsonCfg` of those bytes the decision theorem gives a node resp. an error beyond some fuel -/
theorem c16_decides_accept_example :
    ∃ F, ∀ fuel, F ≤ fuel → ∃ p, parse (nvJsonCfg [91, 49, 44, 10, 50, 93]) fuel Gjson.root = some p ∧ p.err = none := by
  obtain ⟨F, hF⟩ := c16_decides (nvJsonCfg [91, 49, 44, 10, 50, 93]) rfl rfl (Nat.le_refl 1)
  refine ⟨F, fun fuel h => ?_⟩
  obtain ⟨p, hp, hiff, _, _⟩ := hF fuel h
  exact ⟨p, hp, hiff.mpr (J16Acc.ex_nl_after_comma _)⟩

theorem c16_decides_reject_example :
    ∃ F, ∀ fuel, F ≤ fuel → ∃ p, parse (nvJsonCfg [91, 49, 44, 93]) fuel Gjson.root = some p ∧
      p.res.isNil = true ∧ p.err.isSome ∧ p.msg.isSome := by
  obtain ⟨F, hF⟩ := c16_decides (nvJsonCfg [91, 49, 44, 93]) rfl rfl (Nat.le_refl 1)
  refine ⟨F, fun fuel h => ?_⟩
  obtain ⟨p, hp, _, _, hrej⟩ := hF fuel h
  exact ⟨p, hp, hrej (J16Acc.ex_trailing_comma_out _)⟩

end PV
