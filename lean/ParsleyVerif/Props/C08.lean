/-
  C08 — Built-in literal parsers are total and agree with Go's conversions.

  Property theorems only.  Model: ParsleyVerif/Model/Terminal.lean (`Terminal.parse`, every terminal of
  text/terminal/*.go written with the reader primitives of Model/Text.lean; outcomes `.node`, `.err`,
  `.panic site`).  Specification: Spec/TerminalSpec.lean (`Terminal.spec`, over the bytes from the position
  to the end of the file; `Terminal.WF`, `Params.LenOk`, `Params.GroupOk`), Spec/Lang.lean (the documented
  syntax of the literals as languages, `longestPrefix`, `intValue`), Spec/LangString.lean (escape table,
  string body), Spec/Regex.lean (a generic leftmost-first regular-expression semantics and the five
  expressions as syntax trees whose printed text is the source text).  Domain: `InFile f pos` (first byte … end of file), construction parameters in their
  documented domain (`Terminal.WF`), ANY bytes (no UTF-8 validity, no `< 256` assumption), ANY
  `strconv.ParseFloat` / `time.ParseDuration` answer (`P.floatOk`, `P.durErr` are arbitrary functions), any
  regexp engine whose reported match length lies inside the bytes it was given (`Params.LenOk`; an empty
  match, length 0, is allowed and yields a node of width 0 exactly as reader.go's ReadRegexp does — the
  getPattern check "expression must not match the empty input" is a precondition on the expression, outside
  this model, and does not exclude empty matches on a non-empty rest, e.g. `\b`).
-/
import ParsleyVerif.Proofs.TerminalValue
import ParsleyVerif.Proofs.TerminalStrClean
import ParsleyVerif.Spec.Core
import ParsleyVerif.Proofs.LangChar
import ParsleyVerif.Proofs.LangDuration
import ParsleyVerif.Proofs.Regex
import ParsleyVerif.Generated.Facts
namespace PV
open PV.Text

/-! ## every terminal = its byte-level specification -/

/-- the whole behaviour: node, error, kind, message, positions, value -/
theorem c08_spec (P : Params) (f : File) (t : Terminal) (pos : Nat)
    (h : InFile f pos) (wf : t.WF) (hl : P.LenOk t) :
    Terminal.parse P f t pos = Terminal.spec P (rest f pos) pos t :=
  parse_eq_spec P f t pos h wf hl

/-! ## totality -/

/-- **never panics**: for every terminal with documented construction parameters, every file, every
    position in it, every ParseFloat/ParseDuration behaviour, every in-bounds regexp engine that has the
    capturing group the terminal was built with -/
theorem c08_total (P : Params) (f : File) (t : Terminal) (pos : Nat) (s : String)
    (h : InFile f pos) (wf : t.WF) (hl : P.LenOk t) (hg : P.GroupOk t) :
    Terminal.parse P f t pos ≠ .panic s := by
  rw [c08_spec P f t pos h wf hl]
  intro hp
  have := spec_noPanic P (rest f pos) pos t hg
  rw [hp] at this
  exact this

/-- without `GroupOk` the only panic is the documented one of terminal.Regexp: the expression matched but
    has no capturing group with the requested index -/
theorem c08_panic_only_missing_group (P : Params) (f : File) (t : Terminal) (pos : Nat) (s : String)
    (h : InFile f pos) (wf : t.WF) (hl : P.LenOk t) (hp : Terminal.parse P f t pos = .panic s) :
    s = "Capturing group is invalid" ∧
    ∃ id tok name m, t = .regexp id tok name true ∧ rest f pos ≠ [] ∧ P.regexp id (rest f pos) = some (m, none) := by
  rw [c08_spec P f t pos h wf hl] at hp
  cases t with
  | regexp id tok name g =>
    simp only [Terminal.spec, regexpSpec] at hp
    by_cases hr : rest f pos = []
    · rw [if_pos hr] at hp; simp only [nf, reduceCtorEq] at hp
    · rw [if_neg hr] at hp
      cases hq : P.regexp id (rest f pos) with
      | none => rw [hq] at hp; simp only [nf, reduceCtorEq] at hp
      | some p =>
        obtain ⟨m, gv⟩ := p
        rw [hq] at hp
        cases g with
        | false => simp only [Bool.false_eq_true, if_false, reduceCtorEq] at hp
        | true =>
          cases gv with
          | some gb => simp only [if_true, reduceCtorEq] at hp
          | none =>
            simp only [if_true, TermOut.panic.injEq] at hp
            exact ⟨hp.symm, id, tok, name, m, rfl, hr, hq⟩
  | rune ch name => exact absurd hp (fun hp => by have := spec_noPanic P (rest f pos) pos (.rune ch name) True.intro; rw [hp] at this; exact this)
  | op a b => exact absurd hp (fun hp => by have := spec_noPanic P (rest f pos) pos (.op a b) True.intro; rw [hp] at this; exact this)
  | word a b c => exact absurd hp (fun hp => by have := spec_noPanic P (rest f pos) pos (.word a b c) True.intro; rw [hp] at this; exact this)
  | bool a b => exact absurd hp (fun hp => by have := spec_noPanic P (rest f pos) pos (.bool a b) True.intro; rw [hp] at this; exact this)
  | nil a => exact absurd hp (fun hp => by have := spec_noPanic P (rest f pos) pos (.nil a) True.intro; rw [hp] at this; exact this)
  | integer => exact absurd hp (fun hp => by have := spec_noPanic P (rest f pos) pos .integer True.intro; rw [hp] at this; exact this)
  | float => exact absurd hp (fun hp => by have := spec_noPanic P (rest f pos) pos .float True.intro; rw [hp] at this; exact this)
  | string a => exact absurd hp (fun hp => by have := spec_noPanic P (rest f pos) pos (.string a) True.intro; rw [hp] at this; exact this)
  | char => exact absurd hp (fun hp => by have := spec_noPanic P (rest f pos) pos .char True.intro; rw [hp] at this; exact this)
  | duration => exact absurd hp (fun hp => by have := spec_noPanic P (rest f pos) pos .duration True.intro; rw [hp] at this; exact this)

/-- that panic is reachable (an engine that matches one byte and has no group 1) -/
theorem c08_missing_group_panics :
    let P : Params := { floatOk := fun _ => true, durErr := fun _ => none, regexp := fun _ r => if r = [] then none else some (1, none) }
    let f : File := { name := "", data := [97], offset := 1 }
    InFile f 1 ∧ P.LenOk (.regexp 0 [] [] true) ∧
    Terminal.parse P f (.regexp 0 [] [] true) 1 = .panic "Capturing group is invalid" := by
  refine ⟨by unfold InFile File.len; decide, ?_, rfl⟩
  intro r m g hr
  simp only at hr
  split at hr
  · cases hr
  · rename_i hne
    cases hr
    cases r with
    | nil => exact absurd rfl hne
    | cons _ _ => simp

/-- outside `Terminal.WF`: the empty operator / word is the documented panic of MatchString / MatchWord,
    a non-ASCII word byte the documented panic of MatchWord -/
theorem c08_outside_wf_panics :
    let P : Params := { floatOk := fun _ => true, durErr := fun _ => none, regexp := fun _ _ => none }
    let f : File := { name := "", data := [0xC3, 0xA9], offset := 1 }
    Terminal.parse P f (.op [] []) 1 = .panic "MatchString" ∧
    Terminal.parse P f (.word [] 0 []) 1 = .panic "MatchWord" ∧
    Terminal.parse P f (.word [0xC3, 0xA9] 0 []) 1 = .panic "MatchWord" :=
  ⟨rfl, rfl, rfl⟩

/-- **unquoteString respects the contract of Readf** (string.go as fixed) on every non-empty input: it
    consumes at most the input, the value is not longer than what was consumed, and the answer is (nil, 0) or
    (value, > 0); so neither panic of Readf is reachable from terminal.String -/
theorem c08_unquoteString_contract (b : Bytes) (hb : b ≠ []) :
    (unquoteString b).2 ≤ b.length ∧ ((unquoteString b).1.getD []).length ≤ (unquoteString b).2 ∧
    (((unquoteString b).1 = none ∧ (unquoteString b).2 = 0) ∨
     ((unquoteString b).1.isSome = true ∧ 0 < (unquoteString b).2)) :=
  unquoteString_contract b hb

/-! ## positions -/

/-- a node starts at the offset and ends inside the file -/
theorem c08_node_span (P : Params) (f : File) (t : Terminal) (pos : Nat) (n : Node)
    (h : InFile f pos) (wf : t.WF) (hl : P.LenOk t) (hn : Terminal.parse P f t pos = .node n) :
    n.pos = pos ∧ pos ≤ n.rpos ∧ n.rpos ≤ f.offset + f.len := by
  rw [c08_spec P f t pos h wf hl] at hn
  have := spec_ranged P (rest f pos) pos t hl
  rw [hn] at this
  have hr := rest_length f pos h
  obtain ⟨h1, h2⟩ := h
  simp only [Ranged] at this
  obtain ⟨this, _⟩ := this
  omega

/-- an error is positioned between the offset and the end of the file -/
theorem c08_err_pos (P : Params) (f : File) (t : Terminal) (pos : Nat) (e : Err)
    (h : InFile f pos) (wf : t.WF) (hl : P.LenOk t) (he : Terminal.parse P f t pos = .err e) :
    pos ≤ e.pos ∧ e.pos ≤ f.offset + f.len := by
  rw [c08_spec P f t pos h wf hl] at he
  have := spec_ranged P (rest f pos) pos t hl
  rw [he] at this
  have hr := rest_length f pos h
  obtain ⟨h1, h2⟩ := h
  simp only [Ranged] at this
  omega


/-! ## lexeme and value, terminal by terminal
    `rest f pos` are the bytes from the offset to the end of the file; a node `.term tok val pos (pos + k)`
    has the lexeme `(rest f pos).take k`. -/

/-- Rune: found iff `ReadRune` finds it (`runeW`, characterised below); token = string(ch), value = ch -/
theorem c08_rune_node (P : Params) (f : File) (pos ch : Nat) (name : Bytes) (n : Node) (h : InFile f pos) :
    Terminal.parse P f (.rune ch name) pos = .node n ↔
      ∃ w, runeW ch (rest f pos) = some w ∧ n = .term (Utf8.encodeRune ch) (.rune ch) pos (pos + w) := by
  rw [c08_spec P f (.rune ch name) pos h True.intro True.intro]; exact spec_rune_node P _ pos ch name n

/-- a Unicode scalar value other than U+FFFD is found exactly when its UTF-8 encoding is next, and that
    encoding is the lexeme -/
theorem c08_rune_scalar (ch : Nat) (l : Bytes) (hv : Utf8.ValidScalar ch) (hne : ch ≠ Utf8.runeError) :
    runeW ch l = if Utf8.encodeRune ch <+: l then some (Utf8.encodeRune ch).length else none :=
  runeW_valid ch l hv hne

/-- U+FFFD is found when EF BF BD is next (3 bytes) and ALSO on any byte that does not start a valid
    UTF-8 sequence: then one byte is consumed although the node's token is EF BF BD -/
theorem c08_rune_replacement (l : Bytes) :
    runeW Utf8.runeError l =
      if Utf8.encodeRune Utf8.runeError <+: l then some 3
      else if l ≠ [] ∧ Utf8.decodeRune l = (Utf8.runeError, 1) then some 1 else none :=
  runeW_runeError l

/-- a surrogate or a value above U+10FFFF is never found -/
theorem c08_rune_not_scalar (ch : Nat) (l : Bytes) (h : ¬ Utf8.ValidScalar ch) : runeW ch l = none :=
  runeW_invalid ch l h

/-- Op: lexeme = the operator, value = the operator -/
theorem c08_op_node (P : Params) (f : File) (pos : Nat) (s name : Bytes) (n : Node) (h : InFile f pos) (hs : s ≠ []) :
    Terminal.parse P f (.op s name) pos = .node n ↔
      (rest f pos).take s.length = s ∧ s.length ≤ (rest f pos).length ∧ n = .term s (.str s) pos (pos + s.length) := by
  rw [c08_spec P f (.op s name) pos h hs True.intro, spec_op_node, List.prefix_iff_eq_take]
  constructor
  · rintro ⟨h1, h2⟩; exact ⟨h1.symm, by rw [h1]; simp [List.length_take]; omega, h2⟩
  · rintro ⟨h1, _, h2⟩; exact ⟨h1.symm, h2⟩

/-- Word: lexeme = the word, followed by a non-word byte or the end of input; token = upper-cased word -/
theorem c08_word_node (P : Params) (f : File) (pos : Nat) (w : Bytes) (v : Nat) (name : Bytes) (n : Node)
    (h : InFile f pos) (wf : (Terminal.word w v name).WF) :
    Terminal.parse P f (.word w v name) pos = .node n ↔
      w <+: rest f pos ∧ (((rest f pos).drop w.length).head?.all fun d => !isWordByte d) = true ∧
      n = .term (upperAscii w) (.opaque v) pos (pos + w.length) := by
  rw [c08_spec P f (.word w v name) pos h wf True.intro, spec_word_node, wordAt_iff, and_assoc]

/-- Nil -/
theorem c08_nil_node (P : Params) (f : File) (pos : Nat) (w : Bytes) (n : Node)
    (h : InFile f pos) (wf : (Terminal.nil w).WF) :
    Terminal.parse P f (.nil w) pos = .node n ↔
      w <+: rest f pos ∧ (((rest f pos).drop w.length).head?.all fun d => !isWordByte d) = true ∧
      n = .term (tokOf "NIL") .nil pos (pos + w.length) := by
  rw [c08_spec P f (.nil w) pos h wf True.intro, spec_nil_node, wordAt_iff, and_assoc]

/-- Bool: the true word is tried first -/
theorem c08_bool_node (P : Params) (f : File) (pos : Nat) (t e : Bytes) (n : Node)
    (h : InFile f pos) (wf : (Terminal.bool t e).WF) :
    Terminal.parse P f (.bool t e) pos = .node n ↔
      (wordAt t (rest f pos) = true ∧ n = .term (tokOf "BOOL") (.bool true) pos (pos + t.length)) ∨
      (wordAt t (rest f pos) = false ∧ wordAt e (rest f pos) = true ∧
        n = .term (tokOf "BOOL") (.bool false) pos (pos + e.length)) := by
  rw [c08_spec P f (.bool t e) pos h wf True.intro, spec_bool_node]

/-- `wordAt w l`: `w` is a prefix of `l` and the next byte, if any, is not a word byte -/
theorem c08_wordAt (w l : Bytes) :
    wordAt w l = true ↔ (w <+: l ∧ ((l.drop w.length).head?.all fun d => !isWordByte d) = true) :=
  wordAt_iff w l

/-- Integer, node: the lexeme is what the integer expression matches, the next byte is not `.`, and the
    value is ParseInt(lexeme, 0, 64) -/
theorem c08_integer_node (P : Params) (f : File) (pos : Nat) (n : Node) (h : InFile f pos) :
    Terminal.parse P f .integer pos = .node n ↔
      ∃ k v, integerMatch (rest f pos) = some k ∧ ((rest f pos).drop k).head? ≠ some 46 ∧
        parseInt0 ((rest f pos).take k) = some v ∧ n = .term (tokOf "INTEGER") (.int v) pos (pos + k) := by
  rw [c08_spec P f .integer pos h True.intro True.intro]; exact integerSpec_node _ pos n

/-- Integer, error: "was expecting integer value" at the offset when nothing matches or a `.` follows the
    lexeme; "invalid integer value" at the offset (no panic) when the value does not fit in 64 bits -/
theorem c08_integer_err (P : Params) (f : File) (pos : Nat) (e : Err) (h : InFile f pos) :
    Terminal.parse P f .integer pos = .err e ↔
      (e = ⟨pos, .notFound (tokOf "integer value")⟩ ∧
        (integerMatch (rest f pos) = none ∨
         ∃ k, integerMatch (rest f pos) = some k ∧ ((rest f pos).drop k).head? = some 46)) ∨
      (e = ⟨pos, .other (tokOf "invalid integer value")⟩ ∧
        ∃ k, integerMatch (rest f pos) = some k ∧ ((rest f pos).drop k).head? ≠ some 46 ∧
          parseInt0 ((rest f pos).take k) = none) := by
  rw [c08_spec P f .integer pos h True.intro True.intro]; exact integerSpec_err _ pos e

/-- Float, for EVERY ParseFloat: node with the lexeme as value exactly when ParseFloat accepts the lexeme -/
theorem c08_float_node (P : Params) (f : File) (pos : Nat) (n : Node) (h : InFile f pos) :
    Terminal.parse P f .float pos = .node n ↔
      ∃ k, floatMatch (rest f pos) = some k ∧ P.floatOk ((rest f pos).take k) = true ∧
        n = .term (tokOf "FLOAT") (.float ((rest f pos).take k)) pos (pos + k) := by
  rw [c08_spec P f .float pos h True.intro True.intro]; exact floatSpec_node P _ pos n

theorem c08_float_err (P : Params) (f : File) (pos : Nat) (e : Err) (h : InFile f pos) :
    Terminal.parse P f .float pos = .err e ↔
      (e = ⟨pos, .notFound (tokOf "float value")⟩ ∧ floatMatch (rest f pos) = none) ∨
      (e = ⟨pos, .other (tokOf "invalid float value")⟩ ∧
        ∃ k, floatMatch (rest f pos) = some k ∧ P.floatOk ((rest f pos).take k) = false) := by
  rw [c08_spec P f .float pos h True.intro True.intro]; exact floatSpec_err P _ pos e

/-- TimeDuration, for EVERY ParseDuration: node exactly when ParseDuration accepts the lexeme, otherwise its
    error text at the offset -/
theorem c08_duration_node (P : Params) (f : File) (pos : Nat) (n : Node) (h : InFile f pos) :
    Terminal.parse P f .duration pos = .node n ↔
      ∃ k, durationMatch (rest f pos) = some k ∧ P.durErr ((rest f pos).take k) = none ∧
        n = .term (tokOf "TIME_DURATION") (.dur ((rest f pos).take k)) pos (pos + k) := by
  rw [c08_spec P f .duration pos h True.intro True.intro]; exact durationSpec_node P _ pos n

theorem c08_duration_err (P : Params) (f : File) (pos : Nat) (e : Err) (h : InFile f pos) :
    Terminal.parse P f .duration pos = .err e ↔
      (e = ⟨pos, .notFound (tokOf "time duration")⟩ ∧ durationMatch (rest f pos) = none) ∨
      (∃ k msg, durationMatch (rest f pos) = some k ∧ P.durErr ((rest f pos).take k) = some msg ∧
        e = ⟨pos, .other msg⟩) := by
  rw [c08_spec P f .duration pos h True.intro True.intro]; exact durationSpec_err P _ pos e

/-- Char: `'` body `'` where body is what the char expression matches, and the value is the code point the
    body denotes (`Lang.charValue`: escape table; a raw UTF-8 sequence denotes its rune, an invalid byte U+FFFD) -/
theorem c08_char_node (P : Params) (f : File) (pos : Nat) (n : Node) (h : InFile f pos) :
    Terminal.parse P f .char pos = .node n ↔
      ∃ r k v, rest f pos = 39 :: r ∧ charMatch r = some k ∧ (r.drop k).head? = some 39 ∧
        Lang.charValue (r.take k) = some v ∧ n = .term (tokOf "CHAR") (.rune v) pos (pos + 1 + k + 1) := by
  rw [c08_spec P f .char pos h True.intro True.intro]; exact charSpec_node _ pos n

/-- String: quote, body, the same quote.  Double-quoted body and value: `Lang.strBody`; back-quoted
    (only if allowed): the longest run of bytes other than the back-quote, verbatim -/
theorem c08_string_node (P : Params) (f : File) (pos : Nat) (bq : Bool) (n : Node) (h : InFile f pos) :
    Terminal.parse P f (.string bq) pos = .node n ↔
      ∃ q r, rest f pos = q :: r ∧ (q = 34 ∨ (q = 96 ∧ bq = true)) ∧
        ((r.head? = some q ∧ n = .term (tokOf "STRING") (.str []) pos (pos + 2)) ∨
         (r.head? ≠ some q ∧ r ≠ [] ∧
          ∃ v k, (if q = 34 then Lang.strBody r else backquoteBody r) = (v, k) ∧ (r.drop k).head? = some q ∧
            n = .term (tokOf "STRING") (.str (v.getD [])) pos (pos + 1 + k + 1))) := by
  rw [c08_spec P f (.string bq) pos h True.intro True.intro]; exact stringSpec_node bq _ pos n

/-- the lexeme of the char and string nodes above: opening quote, the `k` body bytes, the closing quote -/
theorem c08_quoted_lexeme (q : Nat) (r : Bytes) (k : Nat) (h : (r.drop k).head? = some q) :
    (q :: r).take (1 + k + 1) = q :: (r.take k ++ [q]) := by
  have e : 1 + k + 1 = (k + 1) + 1 := by omega
  rw [e, List.take_succ_cons, List.take_add_one]
  rw [List.head?_drop] at h
  rw [h]; rfl

/-- Regexp, for EVERY in-bounds engine: the lexeme is the engine's match (possibly empty), the value is the
    match or the requested group; at the end of input nothing is found even if the expression matches "" -/
theorem c08_regexp_node (P : Params) (f : File) (pos id : Nat) (tok name : Bytes) (g : Bool) (n : Node)
    (h : InFile f pos) (hl : P.LenOk (.regexp id tok name g)) :
    Terminal.parse P f (.regexp id tok name g) pos = .node n ↔
      rest f pos ≠ [] ∧ ∃ m gv, P.regexp id (rest f pos) = some (m, gv) ∧
        ((g = false ∧ n = .term tok (.str ((rest f pos).take m)) pos (pos + m)) ∨
         (g = true ∧ ∃ gb, gv = some gb ∧ n = .term tok (.str gb) pos (pos + m))) := by
  rw [c08_spec P f (.regexp id tok name g) pos h True.intro hl]; exact regexpSpec_node P id tok name g _ pos n


/-- an empty match (length 0) of the user expression is a match: reader.go returns an empty non-nil slice and
    terminal.Regexp builds a node of width 0 — the parser succeeds without consuming input -/
theorem c08_regexp_empty_match (P : Params) (f : File) (pos id : Nat) (tok name : Bytes) (g : Option Bytes)
    (h : InFile f pos) (hl : P.LenOk (.regexp id tok name false)) (hne : rest f pos ≠ [])
    (hm : P.regexp id (rest f pos) = some (0, g)) :
    Terminal.parse P f (.regexp id tok name false) pos = .node (.term tok (.str []) pos pos) :=
  (c08_regexp_node P f pos id tok name false _ h hl).mpr ⟨hne, 0, g, hm, Or.inl ⟨rfl, by simp⟩⟩

/-- … except at the end of the input, where ReadRegexp does not consult the engine at all -/
theorem c08_regexp_at_eof (P : Params) (f : File) (pos id : Nat) (tok name : Bytes) (g : Bool)
    (h : InFile f pos) (hl : P.LenOk (.regexp id tok name g)) (he : rest f pos = []) :
    Terminal.parse P f (.regexp id tok name g) pos = .err ⟨pos, .notFound name⟩ := by
  rw [c08_spec P f (.regexp id tok name g) pos h True.intro hl]
  simp only [Terminal.spec, regexpSpec, he, if_true, nf]

/-- parameters and files for the concrete examples (base offset 7) -/
def nvP : Params := { floatOk := fun l => l.length < 6, durErr := fun l => if l.length < 4 then none else some [63], regexp := fun _ _ => none }
def nvF (data : Bytes) : File := { name := "t", data := data, offset := 7 }

/-! ## values -/

/-- **parseInt0_spec**: on a lexeme of the integer syntax ParseInt(·, 0, 64) answers `v` iff `v` is the
    mathematical value of the literal (sign, base 16 after `0x`/`0X`, base 8 after another leading `0`, else
    base 10; positional) and −2⁶³ ≤ v < 2⁶³; otherwise it is the range error -/
theorem c08_parseInt0_spec (l : Bytes) (h : Lang.IsInt l) (v : Int) :
    parseInt0 l = some v ↔ (v = Lang.intValue l ∧ -(2 : Int) ^ 63 ≤ v ∧ v < (2 : Int) ^ 63) :=
  parseInt0_spec l h v

/-- strconv.UnquoteChar as modelled = the escape table: the rune is the code point of the element at the head
    of the input, the tail is the input without the element -/
theorem c08_unquoteChar_table (s : Bytes) (q : Nat) (hq : q = 34 ∨ q = 39) :
    unquoteChar s q = (Lang.escElem q s).map (fun p => (p.1, s.drop p.2)) :=
  unquoteChar_eq s q hq

/-- the acceptance test of terminal.Char (`tail == "" && err == nil`) = the body is exactly one element -/
theorem c08_char_value (body : Bytes) (v : Nat) :
    unquoteChar body 39 = some (v, []) ↔ Lang.charValue body = some v :=
  unquoteChar_charValue body v

/-- the second loop of unquoteString: for each element, in order, the UTF-8 encoding of ITS CODE POINT is
    appended (not the byte an `\x` or octal escape spells), and the elements' widths are consumed -/
theorem c08_unquoteLoop_value (fuel : Nat) (str res : Bytes) :
    unquoteLoop fuel str res =
      (res ++ (Lang.strElems fuel str).flatMap (fun e => Utf8.encodeRune e.1),
       str.drop ((Lang.strElems fuel str).map (·.2)).sum) :=
  unquoteLoop_eq fuel str res

/-- the bound on the number of elements (the input length) is never what stops the loop -/
theorem c08_strElems_complete (n : Nat) (l : Bytes) (h : l.length ≤ n) :
    Lang.strElem (l.drop ((Lang.strElems n l).map (·.2)).sum) = none :=
  strElems_stop n l h

/-- unquoteString = the documented body reader: the run of plain bytes verbatim, then the elements re-encoded -/
theorem c08_unquoteString_value (r : Bytes) : unquoteString r = Lang.strBody r :=
  unquoteString_eq r

/-- `\xHH` in a string denotes the code point 16·H + H … -/
theorem c08_escape_x_codepoint (h1 h2 : Nat) (t : Bytes) (hh1 : Lang.hexDigit h1 = true) (hh2 : Lang.hexDigit h2 = true) :
    Lang.strElem (92 :: 120 :: h1 :: h2 :: t) = some (Lang.digitValue h1 * 16 + Lang.digitValue h2, 4) :=
  strElem_hex_x h1 h2 t hh1 hh2

/-- … so `"\x80"` is the two bytes C2 80, and `"\377"` the two bytes C3 BF -/
theorem c08_escape_x80_two_bytes :
    unquoteString [92, 120, 56, 48, 34] = (some [0xC2, 0x80], 4) ∧
    unquoteString [92, 51, 55, 55, 34] = (some [0xC3, 0xBF], 4) :=
  ⟨rfl, rfl⟩

/-- **no raw line break in a double-quoted body** (string.go as fixed): the bytes the body reader consumes
    never contain a raw LF or CR, for every input -/
theorem c08_string_body_no_raw_linebreak (r : Bytes) :
    ∀ b ∈ r.take (unquoteString r).2, b ≠ 10 ∧ b ≠ 13 := by
  rw [unquoteString_eq]; exact strBody_clean r

/-- … hence the lexeme of a double-quoted String node (quote, body, quote) never contains a raw LF or CR -/
theorem c08_string_no_raw_linebreak (P : Params) (f : File) (pos : Nat) (bq : Bool) (n : Node)
    (h : InFile f pos) (hq : (rest f pos).head? = some 34)
    (hn : Terminal.parse P f (.string bq) pos = .node n) :
    ∀ b ∈ (rest f pos).take (n.rpos - pos), b ≠ 10 ∧ b ≠ 13 := by
  obtain ⟨q, r, hl, _, hc⟩ := (c08_string_node P f pos bq n h).mp hn
  rw [hl] at hq ⊢
  simp only [List.head?_cons, Option.some.injEq] at hq
  subst hq
  rcases hc with ⟨hd, hnode⟩ | ⟨_, _, v, k, hb, hd, hnode⟩
  · subst hnode
    have e : (Node.term (tokOf "STRING") (.str []) pos (pos + 2)).rpos - pos = 2 := by
      show pos + 2 - pos = 2; omega
    rw [e]
    cases r with
    | nil => simp at hd
    | cons c t =>
      simp only [List.head?_cons, Option.some.injEq] at hd
      subst hd
      exact clean_cons (by omega) (clean_cons (by omega) clean_nil)
  · subst hnode
    have e : (Node.term (tokOf "STRING") (.str (v.getD [])) pos (pos + 1 + k + 1)).rpos - pos = 1 + k + 1 := by
      show pos + 1 + k + 1 - pos = 1 + k + 1; omega
    rw [e, c08_quoted_lexeme 34 r k hd]
    simp only [if_true] at hb
    have hk : k = (Lang.strBody r).2 := by rw [hb]
    have hbody : Clean (r.take k) := by rw [hk]; exact strBody_clean r
    exact clean_cons (by omega) (clean_append hbody (clean_cons (by omega) clean_nil))

/-- the two inputs that used to be accepted: `"a\t<LF>"` and `"é<LF>"` now give `was expecting '"'` at the line break -/
theorem c08_string_linebreak_examples :
    Terminal.parse nvP (nvF [34, 97, 92, 116, 10, 34]) (.string false) 7
      = .err ⟨11, .other (tokOf "was expecting '" ++ [34] ++ tokOf "'")⟩ ∧
    Terminal.parse nvP (nvF [34, 0xC3, 0xA9, 10, 34]) (.string false) 7
      = .err ⟨10, .other (tokOf "was expecting '" ++ [34] ++ tokOf "'")⟩ ∧
    unquoteString [97, 92, 116, 10, 34] = (some [97, 9], 3) ∧ unquoteString [0xC3, 0xA9, 10, 34] = (some [0xC3, 0xA9], 2) :=
  ⟨rfl, rfl, rfl, rfl⟩

/-! ## the lexeme is the longest literal of the documented syntax
    `Lang.isInt`, `Lang.isFloat`, `Lang.isDuration`, `Lang.isCharBody`, `Lang.isBackquoteBody` (Spec/Lang.lean) are
    the documented languages, written without any scanning order; the matchers of the model are the
    transcription of what Go's leftmost-first engine does on the five expressions. -/

/-- meaning of `longestPrefix L l = some k`: the prefix of length `k` is in `L` and no longer prefix is -/
theorem c08_longestPrefix_some (L : Bytes → Bool) (l : Bytes) (k : Nat) :
    Lang.longestPrefix L l = some k ↔
      k ≤ l.length ∧ L (l.take k) = true ∧ ∀ j, k < j → j ≤ l.length → L (l.take j) = false :=
  longestPrefix_some

/-- meaning of `longestPrefix L l = none`: no prefix (not even the empty one) is in `L` -/
theorem c08_longestPrefix_none (L : Bytes → Bool) (l : Bytes) :
    Lang.longestPrefix L l = none ↔ ∀ j, j ≤ l.length → L (l.take j) = false :=
  longestPrefix_none

theorem c08_lang_integer (l : Bytes) : integerMatch l = Lang.longestPrefix Lang.isInt l := integerMatch_eq_longest l
theorem c08_lang_float (l : Bytes) : floatMatch l = Lang.longestPrefix Lang.isFloat l := floatMatch_eq_longest l
theorem c08_lang_duration (l : Bytes) : durationMatch l = Lang.longestPrefix Lang.isDuration l := durationMatch_eq_longest l
theorem c08_lang_char (l : Bytes) : charMatch l = Lang.longestPrefix Lang.isCharBody l := charMatch_eq_longest l
theorem c08_lang_backquote (l : Bytes) : backquoteMatch l = Lang.longestPrefix Lang.isBackquoteBody l :=
  backquoteMatch_eq_longest l

/-- what leftmost-first gives on the integer expression: after the optional sign the alternatives
    `[1-9][0-9]*`, `0[xX][0-9a-fA-F]+`, `0[0-7]*` are tried in the order written, the first that matches wins
    with its greedy (longest) match … -/
theorem c08_leftmost_first_integer (l : Bytes) :
    integerMatch l =
      (Lang.firstSome [Lang.longestPrefix Lang.decimalLit (l.drop (signLen l)),
        Lang.longestPrefix Lang.hexLit (l.drop (signLen l)),
        Lang.longestPrefix Lang.octalLit (l.drop (signLen l))]).map (signLen l + ·) :=
  integerMatch_eq_firstSome l

/-- … and where two alternatives match (`0x1F`: hex 4 bytes, octal 1 byte) the earlier one is the longer one,
    which is why first-match and longest-match coincide for this expression -/
theorem c08_hex_before_octal (b : Bytes) (h o : Nat) (hh : Lang.longestPrefix Lang.hexLit b = some h)
    (ho : Lang.longestPrefix Lang.octalLit b = some o) : o = 1 ∧ o < h :=
  hex_before_octal b h o hh ho

/-- the duration units: the first unit of `ns|us|µs|μs|ms|s|m|h`, in the order written, that is a prefix
    (`ms` is listed before `s` and `m`) — and that is also the longest unit that is a prefix -/
theorem c08_leftmost_first_units (l : Bytes) :
    unitLen l = (Lang.firstSome (Lang.units.map (fun u => if u <+: l then some u.length else none))).getD 0 ∧
    Lang.longestPrefix Lang.isUnit l = if unitLen l > 0 then some (unitLen l) else none :=
  ⟨unitLen_eq_firstSome l, longestPrefix_isUnit l⟩

/-- the char expression: the first alternative, in the order written, that has a prefix of the input in it -/
theorem c08_leftmost_first_char (l : Bytes) :
    charMatch l =
      Lang.firstSome [Lang.longestPrefix Lang.isSimpleEscape l, Lang.longestPrefix (Lang.isHexEscape 120 2) l,
        Lang.longestPrefix (Lang.isHexEscape 117 4) l, Lang.longestPrefix (Lang.isHexEscape 85 8) l,
        Lang.longestPrefix Lang.isOneRuneNotQuote l] :=
  charMatch_eq_firstSome l

/-- the iteration bound of the duration matcher (the input length) is never what stops it -/
theorem c08_durItems_fuel (f1 f2 : Nat) (l : Bytes) (h1 : l.length ≤ f1) (h2 : l.length ≤ f2) :
    durItems f1 l = durItems f2 l :=
  durItems_fuel f1 f2 l h1 h2

/-! ## the matchers are Go's leftmost-first semantics of the five expressions
    Spec/Regex.lean: `Rx.Re.run` lists ALL match lengths in the order a backtracking (Perl-like) matcher tries
    them — earlier alternative first, one more iteration first — and `Rx.Re.first` is the first of them, which
    is what a leftmost-first engine reports for an expression anchored at the start.  The five expressions are
    surface-syntax trees (`Rx.integerSx` …); classes carry their items as data, from which both the printed
    text and the byte predicate are computed. -/

/-- the five trees print as the expressions of the Go source (regenerated facts) -/
theorem c08_regex_source :
    String.ofList Rx.integerSx.src = Facts.integerRegexp ∧ String.ofList Rx.floatSx.src = Facts.floatRegexp ∧
    String.ofList Rx.charSx.src = Facts.charRegexp ∧ String.ofList Rx.durationSx.src = Facts.durationRegexp ∧
    String.ofList Rx.backquoteSx.src = Facts.backquoteRegexp :=
  ⟨Rx.integerSx_src, Rx.floatSx_src, Rx.charSx_src, Rx.durationSx_src, Rx.backquoteSx_src⟩

theorem c08_regex_integer (l : Bytes) : integerMatch l = Rx.integerRe.first l := integerMatch_eq_first l
theorem c08_regex_float (l : Bytes) : floatMatch l = Rx.floatRe.first l := floatMatch_eq_first l
theorem c08_regex_duration (l : Bytes) : durationMatch l = Rx.durationRe.first l := durationMatch_eq_first l
theorem c08_regex_char (l : Bytes) : charMatch l = Rx.charRe.first l := charMatch_eq_first l
theorem c08_regex_backquote (l : Bytes) : backquoteMatch l = Rx.backquoteRe.first l := backquoteMatch_eq_first l

/-- the ordered candidate list is exactly the (unordered, fuel-free, textbook) language of the expression … -/
theorem c08_regex_run_language (r : Rx.Re) (f : Nat) (l : Bytes) (k : Nat) (h : l.length ≤ f) :
    k ∈ r.run f l ↔ Rx.Re.Matches r l k :=
  Rx.mem_run_iff r f l k h

/-- … so `first` answers a match, and answers nothing only when nothing matches -/
theorem c08_regex_first (r : Rx.Re) (l : Bytes) :
    (∀ k, r.first l = some k → Rx.Re.Matches r l k) ∧ (r.first l = none ↔ ∀ k, ¬ Rx.Re.Matches r l k) :=
  ⟨fun k h => Rx.first_matches r l k h, Rx.first_none_iff r l⟩

/-- for the five expressions leftmost-first = longest: two independent specifications agree -/
theorem c08_first_eq_longest (l : Bytes) :
    Rx.integerRe.first l = Lang.longestPrefix Lang.isInt l ∧ Rx.floatRe.first l = Lang.longestPrefix Lang.isFloat l ∧
    Rx.durationRe.first l = Lang.longestPrefix Lang.isDuration l ∧ Rx.charRe.first l = Lang.longestPrefix Lang.isCharBody l ∧
    Rx.backquoteRe.first l = Lang.longestPrefix Lang.isBackquoteBody l :=
  ⟨by rw [← integerMatch_eq_first, integerMatch_eq_longest], by rw [← floatMatch_eq_first, floatMatch_eq_longest],
   by rw [← durationMatch_eq_first, durationMatch_eq_longest], by rw [← charMatch_eq_first, charMatch_eq_longest],
   by rw [← backquoteMatch_eq_first, backquoteMatch_eq_longest]⟩

/-- **Integer, everything together**: a node is returned iff the longest prefix of the rest in the integer
    syntax is not followed by `.` and its mathematical value fits in 64 bits; the node spans exactly that
    prefix and carries exactly that value -/
theorem c08_integer_value (P : Params) (f : File) (pos : Nat) (n : Node) (h : InFile f pos) :
    Terminal.parse P f .integer pos = .node n ↔
      ∃ k, Lang.longestPrefix Lang.isInt (rest f pos) = some k ∧ ((rest f pos).drop k).head? ≠ some 46 ∧
        -(2 : Int) ^ 63 ≤ Lang.intValue ((rest f pos).take k) ∧ Lang.intValue ((rest f pos).take k) < (2 : Int) ^ 63 ∧
        n = .term (tokOf "INTEGER") (.int (Lang.intValue ((rest f pos).take k))) pos (pos + k) := by
  rw [c08_integer_node P f pos n h, integerMatch_eq_longest]
  constructor
  · rintro ⟨k, v, hm, hd, hp, hn⟩
    obtain ⟨h1, h2, h3⟩ := (parseInt0_spec _ (longestPrefix_mem hm) v).mp hp
    subst h1
    exact ⟨k, hm, hd, h2, h3, hn⟩
  · rintro ⟨k, hm, hd, h2, h3, hn⟩
    exact ⟨k, _, hm, hd, (parseInt0_spec _ (longestPrefix_mem hm) _).mpr ⟨rfl, h2, h3⟩, hn⟩

/-- **out of range**: "invalid integer value" at the offset — not a panic — exactly when the literal's
    mathematical value is outside [−2⁶³, 2⁶³) -/
theorem c08_integer_out_of_range (P : Params) (f : File) (pos : Nat) (h : InFile f pos) :
    Terminal.parse P f .integer pos = .err ⟨pos, .other (tokOf "invalid integer value")⟩ ↔
      ∃ k, Lang.longestPrefix Lang.isInt (rest f pos) = some k ∧ ((rest f pos).drop k).head? ≠ some 46 ∧
        ¬ (-(2 : Int) ^ 63 ≤ Lang.intValue ((rest f pos).take k) ∧ Lang.intValue ((rest f pos).take k) < (2 : Int) ^ 63) := by
  rw [c08_integer_err P f pos _ h, integerMatch_eq_longest]
  have hnone : ∀ k, Lang.longestPrefix Lang.isInt (rest f pos) = some k →
      (parseInt0 ((rest f pos).take k) = none ↔
        ¬ (-(2 : Int) ^ 63 ≤ Lang.intValue ((rest f pos).take k) ∧ Lang.intValue ((rest f pos).take k) < (2 : Int) ^ 63)) := by
    intro k hm
    have hs := parseInt0_spec _ (longestPrefix_mem hm)
    constructor
    · intro hp hr
      have := (hs _).mpr ⟨rfl, hr.1, hr.2⟩
      rw [hp] at this; cases this
    · intro hr
      cases hp : parseInt0 ((rest f pos).take k) with
      | none => rfl
      | some v =>
        obtain ⟨h1, h2, h3⟩ := (hs v).mp hp
        subst h1
        exact absurd ⟨h2, h3⟩ hr
  constructor
  · rintro (⟨he, _⟩ | ⟨_, k, hm, hd, hp⟩)
    · simp only [Err.mk.injEq, true_and, reduceCtorEq] at he
    · exact ⟨k, hm, hd, (hnone k hm).mp hp⟩
  · rintro ⟨k, hm, hd, hr⟩
    exact Or.inr ⟨rfl, k, hm, hd, (hnone k hm).mpr hr⟩

/-- Float: the lexeme is the longest prefix in the float syntax; value and acceptance are ParseFloat's, for every ParseFloat -/
theorem c08_float_value (P : Params) (f : File) (pos : Nat) (n : Node) (h : InFile f pos) :
    Terminal.parse P f .float pos = .node n ↔
      ∃ k, Lang.longestPrefix Lang.isFloat (rest f pos) = some k ∧ P.floatOk ((rest f pos).take k) = true ∧
        n = .term (tokOf "FLOAT") (.float ((rest f pos).take k)) pos (pos + k) := by
  rw [c08_float_node P f pos n h, floatMatch_eq_longest]

/-- TimeDuration: the lexeme is the longest prefix in the duration syntax; for every ParseDuration -/
theorem c08_duration_value (P : Params) (f : File) (pos : Nat) (n : Node) (h : InFile f pos) :
    Terminal.parse P f .duration pos = .node n ↔
      ∃ k, Lang.longestPrefix Lang.isDuration (rest f pos) = some k ∧ P.durErr ((rest f pos).take k) = none ∧
        n = .term (tokOf "TIME_DURATION") (.dur ((rest f pos).take k)) pos (pos + k) := by
  rw [c08_duration_node P f pos n h, durationMatch_eq_longest]

/-- Char: `'`, the longest prefix in the char-body syntax, `'`; the value is the code point the body denotes -/
theorem c08_char_value_node (P : Params) (f : File) (pos : Nat) (n : Node) (h : InFile f pos) :
    Terminal.parse P f .char pos = .node n ↔
      ∃ r k v, rest f pos = 39 :: r ∧ Lang.longestPrefix Lang.isCharBody r = some k ∧ (r.drop k).head? = some 39 ∧
        Lang.charValue (r.take k) = some v ∧ n = .term (tokOf "CHAR") (.rune v) pos (pos + 1 + k + 1) := by
  rw [c08_char_node P f pos n h]
  simp only [charMatch_eq_longest]

/-- the body of a back-quoted string: the longest non-empty run of bytes other than the back-quote, verbatim -/
theorem c08_backquote_body (r : Bytes) :
    backquoteBody r = match Lang.longestPrefix Lang.isBackquoteBody r with
      | none => (none, 0)
      | some k => (some (r.take k), k) := by
  unfold backquoteBody; rw [backquoteMatch_eq_longest]
  cases Lang.longestPrefix Lang.isBackquoteBody r <;> rfl

/-- the facts the model takes from the source (regenerated on every run): the five expressions handed to
    ReadRegexp, the body of terminal.Integer (look-ahead for '.', ParseInt base 0 / 64 bit, error instead of
    panic) and the body of unquoteString as fixed -/
theorem c08_facts :
    Facts.integerRegexp = "[-+]?(?:[1-9][0-9]*|0[xX][0-9a-fA-F]+|0[0-7]*)" ∧
    Facts.floatRegexp = "[-+]?[0-9]*\\.[0-9]+(?:[eE][-+]?[0-9]+)?" ∧
    Facts.charRegexp = "\\\\[abfnrtv']|\\\\x[0-9a-fA-F]{2,2}|\\\\u[0-9a-fA-F]{4,4}|\\\\U[0-9a-fA-F]{8,8}|[^']" ∧
    Facts.durationRegexp = "[-+]?(?:[0-9]+(?:\\.[0-9]+)?(?:ns|us|µs|μs|ms|s|m|h))+" ∧
    Facts.backquoteRegexp = "[^`]+" :=
  ⟨rfl, rfl, rfl, rfl, rfl⟩

/-! ## non-vacuity: concrete files (base offset 7), evaluated by the kernel -/


example : InFile (nvF [49, 50]) 8 ∧ (Terminal.rune 233 []).WF ∧ (Terminal.word [110, 105, 108] 0 []).WF ∧
    ¬ (Terminal.op [] []).WF ∧ ¬ (Terminal.word [0xC3] 0 []).WF := by
  unfold InFile File.len nvF; decide

/-- "9223372036854775808": out of range, an error at the offset, not a panic; "-9223372036854775808" is the minimum -/
example : Terminal.parse nvP (nvF [57,50,50,51,51,55,50,48,51,54,56,53,52,55,55,53,56,48,56]) .integer 7
    = .err ⟨7, .other (tokOf "invalid integer value")⟩ := rfl
example : Terminal.parse nvP (nvF [45,57,50,50,51,51,55,50,48,51,54,56,53,52,55,55,53,56,48,56]) .integer 7
    = .node (.term (tokOf "INTEGER") (.int (-9223372036854775808)) 7 27) := rfl
/-- "-0x1F." is refused (a '.' follows), "-0x1F " is −31, "0x" is 0 followed by x, "0789" is 07 -/
example : Terminal.parse nvP (nvF [45,48,120,49,70,46]) .integer 7 = .err ⟨7, .notFound (tokOf "integer value")⟩ := rfl
example : Terminal.parse nvP (nvF [45,48,120,49,70,32]) .integer 7 = .node (.term (tokOf "INTEGER") (.int (-31)) 7 12) := rfl
example : Terminal.parse nvP (nvF [48,120]) .integer 7 = .node (.term (tokOf "INTEGER") (.int 0) 7 8) := rfl
example : Terminal.parse nvP (nvF [48,55,56,57]) .integer 7 = .node (.term (tokOf "INTEGER") (.int 7) 7 9) := rfl
/-- float "1.5e3x" accepted by this ParseFloat, "1.5e+30" refused by it: error at the offset -/
example : Terminal.parse nvP (nvF [49,46,53,101,51,120]) .float 7 = .node (.term (tokOf "FLOAT") (.float [49,46,53,101,51]) 7 12) := rfl
example : Terminal.parse nvP (nvF [49,46,53,101,43,51,48]) .float 7 = .err ⟨7, .other (tokOf "invalid float value")⟩ := rfl
/-- duration "1ms" / "1.5h3m" with this ParseDuration -/
example : Terminal.parse nvP (nvF [49,109,115,32]) .duration 7 = .node (.term (tokOf "TIME_DURATION") (.dur [49,109,115]) 7 10) := rfl
example : Terminal.parse nvP (nvF [49,46,53,104,51,109]) .duration 7 = .err ⟨7, .other [63]⟩ := rfl
/-- string with the invalid byte FF: the body stops before it, error positioned there -/
example : Terminal.parse nvP (nvF [34,97,255,98,34]) (.string false) 7
    = .err ⟨9, .other (tokOf "was expecting '" ++ [34] ++ tokOf "'")⟩ := rfl
/-- unterminated and ill-escaped strings, back-quoted string -/
example : Terminal.parse nvP (nvF [34,97,98]) (.string false) 7 = .err ⟨10, .other (tokOf "was expecting '" ++ [34] ++ tokOf "'")⟩ := rfl
example : Terminal.parse nvP (nvF [34,92,113,34]) (.string false) 7 = .err ⟨8, .other (tokOf "was expecting '" ++ [34] ++ tokOf "'")⟩ := rfl
example : Terminal.parse nvP (nvF [34,92,120,56,48,34]) (.string false) 7 = .node (.term (tokOf "STRING") (.str [0xC2, 0x80]) 7 13) := rfl
example : Terminal.parse nvP (nvF [96,97,10,96]) (.string true) 7 = .node (.term (tokOf "STRING") (.str [97, 10]) 7 11) := rfl
/-- char: 'é', '\x41', the lone invalid byte FF (value U+FFFD), a surrogate escape, two characters -/
example : Terminal.parse nvP (nvF [39,0xC3,0xA9,39]) .char 7 = .node (.term (tokOf "CHAR") (.rune 233) 7 11) := rfl
example : Terminal.parse nvP (nvF [39,92,120,52,49,39]) .char 7 = .node (.term (tokOf "CHAR") (.rune 65) 7 13) := rfl
example : Terminal.parse nvP (nvF [39,255,39]) .char 7 = .node (.term (tokOf "CHAR") (.rune 0xFFFD) 7 10) := rfl
example : Terminal.parse nvP (nvF [39,92,117,68,56,48,48,39]) .char 7 = .err ⟨15, .other (tokOf "invalid character value")⟩ := rfl
example : Terminal.parse nvP (nvF [39,97,98,39]) .char 7 = .err ⟨9, .other (tokOf "was expecting \"'\"")⟩ := rfl
/-- rune U+FFFD on the invalid byte FF: one byte consumed, token EF BF BD -/
example : Terminal.parse nvP (nvF [255]) (.rune 0xFFFD []) 7 = .node (.term [0xEF, 0xBF, 0xBD] (.rune 0xFFFD) 7 8) := rfl
/-- word boundary: `true` does not match `truex`; at the end of the file it does -/
example : Terminal.parse nvP (nvF [116,114,117,101,120]) (.bool [116,114,117,101] [102]) 7 = .err ⟨7, .notFound (tokOf "boolean")⟩ := rfl
example : Terminal.parse nvP (nvF [120,116,114,117,101]) (.bool [116,114,117,101] [102]) 8 = .node (.term (tokOf "BOOL") (.bool true) 8 12) := rfl


/-! ## for the parser-core theorems -/

/-- every built-in terminal with documented construction parameters is `TermGood` (Spec/Core.lean): at every
    position of the file a returned node is a terminal leaf starting at the call position and lying within the
    file, a returned error is positioned between the call position and the end of the file -/
theorem c08_termGood (cfg : Cfg) (t : Terminal) (wf : t.WF) (hl : cfg.params.LenOk t) (_hg : cfg.params.GroupOk t) :
    TermGood cfg t := by
  intro pos h
  have hs := c08_spec cfg.params cfg.file t pos h wf hl
  have hr := spec_ranged cfg.params (rest cfg.file pos) pos t hl
  have hlen := rest_length cfg.file pos h
  obtain ⟨h1, h2⟩ := h
  constructor
  · intro n hn
    rw [hs] at hn
    rw [hn] at hr
    obtain ⟨⟨e1, e2, e3⟩, tok, v, p, r, rfl⟩ := hr
    refine ⟨e1, ?_⟩
    show p ≤ r ∧ r ≤ cfg.hi
    have e1' : p = pos := e1
    have e2' : pos ≤ r := e2
    have e3' : r ≤ pos + (rest cfg.file pos).length := e3
    unfold Cfg.hi
    omega
  · intro e he
    rw [hs] at he
    rw [he] at hr
    obtain ⟨e1, e2⟩ := hr
    unfold Cfg.hi
    omega

end PV
