/-
  C15P — the C15 set/map laws, about the functions TRANSLATED from the Go source.

  `factgen -out-prog` translates data/intset.go and data/intmap.go, statement by statement, into Lean definitions
  (Generated/FactsProg.lean, regenerated from the repository on every run; run-time: the hand-written
  Generated/ProgPrelude.lean).  `c15_translated_functions` says that the hand-written model (Model/Data.lean) and the
  translation are the same functions on heaps; the remaining theorems carry what Props/C15.lean proves about the
  model over to the translated functions themselves: the value is the specification's (SetSpec: `sInsert`, `sMerge`,
  `mInc`, `mFilter`), sets stay strictly ascending, union is commutative and idempotent, and no operation writes to
  anything that existed before it (`Frame` / `MFrame`: the receiver and every earlier value read the same afterwards).

  Hypotheses, all of them facts the library maintains (C15's `Inv`): a slice is well formed in its heap (`SWF`: it points
  into the heap, len ≤ cap = the array's size); where `sort.SearchInts` is involved (insertValue, Insert) the set is
  strictly ascending — the prelude gives SearchInts its documented meaning, which presupposes that.  Union, Get, clone,
  Inc and Filter are tied unconditionally (well-formedness apart).
-/
import ParsleyVerif.Proofs.ProgTie
import ParsleyVerif.Proofs.DataInv
namespace PV.ProgTie
open PV.ProgPrelude PV.FactsProg

/-- **The tie.**  Every data-package function asked for is translated, and on every well-formed heap the translated
    function ends normally (no panic, fuel suffices) with exactly the model's heap and result. -/
theorem c15_translated_functions (g : Nat → Nat) (h : Data.Heap) (mh : Data.MHeap) :
    dataFunctions.all (fun f => FactsProg.translatedProg.contains f) = true ∧
    (∀ s, IntSet_Len ⟨sl s⟩ ⟨h, mh, g⟩ = .ok (s.len : Int) ⟨h, mh, g⟩) ∧
    (∀ s v, Data.SWF h s → (Data.view h s).Pairwise (· < ·) →
      IntSet_insertValue ⟨sl s⟩ v ⟨h, mh, g⟩ =
        .ok ⟨sl (Data.insertValue g h s v).2⟩ ⟨(Data.insertValue g h s v).1, mh, g⟩) ∧
    (∀ s v, Data.SWF h s → (Data.view h s).Pairwise (· < ·) →
      IntSet_Insert ⟨sl s⟩ v ⟨h, mh, g⟩ = .ok ⟨sl (Data.insert g h s v).2⟩ ⟨(Data.insert g h s v).1, mh, g⟩) ∧
    (∀ s s2, Data.SWF h s → Data.SWF h s2 →
      IntSet_Union ⟨sl s⟩ ⟨sl s2⟩ ⟨h, mh, g⟩ = .ok ⟨sl (Data.union g h s s2).2⟩ ⟨(Data.union g h s s2).1, mh, g⟩) ∧
    (∀ vs, Data.SWF h vs →
      NewIntSet (sl vs) ⟨h, mh, g⟩ =
        .ok ⟨sl (Data.newIntSet g h (Data.view h vs)).2⟩ ⟨(Data.newIntSet g h (Data.view h vs)).1, mh, g⟩) ∧
    (∀ i k, IntMap_Get ⟨some i⟩ k ⟨h, mh, g⟩ = .ok (Data.get mh i k) ⟨h, mh, g⟩) ∧
    (∀ i, IntMap_clone ⟨some i⟩ ⟨h, mh, g⟩ = .ok ⟨some (Data.mclone mh i).2⟩ ⟨h, (Data.mclone mh i).1, g⟩) ∧
    (∀ i k, IntMap_Inc ⟨some i⟩ k ⟨h, mh, g⟩ = .ok ⟨some (Data.inc mh i k).2⟩ ⟨h, (Data.inc mh i k).1, g⟩) ∧
    (∀ i keys, Data.SWF h keys →
      IntMap_Filter ⟨some i⟩ ⟨sl keys⟩ ⟨h, mh, g⟩ =
        .ok ⟨some (Data.filter mh i (Data.view h keys)).2⟩ ⟨h, (Data.filter mh i (Data.view h keys)).1, g⟩) :=
  ⟨tie_data_translated, fun s => tie_Len s _, fun s v w hs => tie_insertValue g h mh s v w hs,
   fun s v w hs => tie_Insert g h mh s v w hs, fun s s2 w w2 => tie_Union g h mh s s2 w w2,
   fun vs wv => tie_NewIntSet g h mh vs wv,
   fun i k => tie_Get h mh g i k, fun i => tie_clone h mh g i, fun i k => tie_Inc h mh g i k,
   fun i keys w => tie_Filter h mh g i keys w⟩

/-- **Insert (translated)** returns a fresh, well-formed set with the specification's value — strictly ascending, the
    old members plus `v` — and never mutates its receiver: every array that existed before (`Frame`), the receiver's
    included, is untouched, cell for cell. -/
theorem c15p_insert (g : Nat → Nat) (h : Data.Heap) (mh : Data.MHeap) (s : Data.Slice) (v : Int)
    (w : Data.SWF h s) (hs : (Data.view h s).Pairwise (· < ·)) :
    ∃ (r : Data.Slice) (h' : Data.Heap),
      IntSet_Insert ⟨sl s⟩ v ⟨h, mh, g⟩ = .ok ⟨sl r⟩ ⟨h', mh, g⟩ ∧
      Data.SWF h' r ∧ Data.view h' r = Data.sInsert (Data.view h s) v ∧
      (Data.view h' r).Pairwise (· < ·) ∧ (∀ x, x ∈ Data.view h' r ↔ x ∈ Data.view h s ∨ x = v) ∧
      Data.Frame h.length h h' ∧ Data.view h' s = Data.view h s := by
  obtain ⟨i1, i2, i3⟩ := Data.insert_spec g h s v w hs
  refine ⟨_, _, tie_Insert g h mh s v w hs, i1, i2, ?_, ?_, i3, i3.view_eq s w.1⟩
  · rw [i2]; exact Data.sInsert_sorted _ _ hs
  · intro x; rw [i2]; exact Data.mem_sInsert _ _ _

/-- **NewIntSet (translated)**, called with a slice reading as `values`, returns a fresh set with the specification's
    value (`sOfList`: the values inserted one by one — strictly ascending, duplicates dropped) and writes to nothing
    that existed, the argument slice included. -/
theorem c15p_newIntSet (g : Nat → Nat) (h : Data.Heap) (mh : Data.MHeap) (vs : Data.Slice) (wv : Data.SWF h vs) :
    ∃ (r : Data.Slice) (h' : Data.Heap),
      NewIntSet (sl vs) ⟨h, mh, g⟩ = .ok ⟨sl r⟩ ⟨h', mh, g⟩ ∧
      Data.SWF h' r ∧ Data.view h' r = Data.sOfList (Data.view h vs) ∧ (Data.view h' r).Pairwise (· < ·) ∧
      Data.Frame h.length h h' ∧ Data.view h' vs = Data.view h vs := by
  obtain ⟨n1, n2, n3⟩ := Data.newIntSet_spec g h (Data.view h vs)
  refine ⟨_, _, tie_NewIntSet g h mh vs wv, n1, n2, ?_, n3, n3.view_eq vs wv.1⟩
  rw [n2]; exact Data.sOfList_sorted _

/-- **Union (translated)** returns the merge of its operands and writes to nothing that existed; on strictly ascending
    operands the result is strictly ascending (sorted, no duplicates) and has exactly the members of both. -/
theorem c15p_union (g : Nat → Nat) (h : Data.Heap) (mh : Data.MHeap) (s s2 : Data.Slice)
    (w : Data.SWF h s) (w2 : Data.SWF h s2) :
    ∃ (r : Data.Slice) (h' : Data.Heap),
      IntSet_Union ⟨sl s⟩ ⟨sl s2⟩ ⟨h, mh, g⟩ = .ok ⟨sl r⟩ ⟨h', mh, g⟩ ∧
      Data.SWF h' r ∧ Data.view h' r = Data.sMerge (Data.view h s) (Data.view h s2) ∧
      Data.Frame h.length h h' ∧ Data.view h' s = Data.view h s ∧ Data.view h' s2 = Data.view h s2 ∧
      ((Data.view h s).Pairwise (· < ·) → (Data.view h s2).Pairwise (· < ·) →
        (Data.view h' r).Pairwise (· < ·) ∧ ∀ x, x ∈ Data.view h' r ↔ x ∈ Data.view h s ∨ x ∈ Data.view h s2) := by
  obtain ⟨u1, u2, u3⟩ := Data.union_spec g h s s2 w w2
  refine ⟨_, _, tie_Union g h mh s s2 w w2, u1, u2, u3, u3.view_eq s w.1, u3.view_eq s2 w2.1, ?_⟩
  intro hs hs2
  rw [u2]
  exact Data.sMerge_sorted _ _ hs hs2

/-- two strictly ascending lists with the same members are equal -/
theorem sorted_ext : ∀ (a b : List Int), a.Pairwise (· < ·) → b.Pairwise (· < ·) → (∀ x, x ∈ a ↔ x ∈ b) → a = b := by
  intro a
  induction a with
  | nil =>
    intro b _ _ hm
    cases b with
    | nil => rfl
    | cons y ys => exact absurd ((hm y).mpr (by simp)) (by simp)
  | cons x xs ih =>
    intro b ha hb hm
    cases b with
    | nil => exact absurd ((hm x).mp (by simp)) (by simp)
    | cons y ys =>
      have hx := List.pairwise_cons.mp ha
      have hy := List.pairwise_cons.mp hb
      have hxy : x = y := by
        have m1 := (hm x).mp (by simp)
        have m2 := (hm y).mpr (by simp)
        rcases List.mem_cons.mp m1 with e | e
        · exact e
        · rcases List.mem_cons.mp m2 with e' | e'
          · exact e'.symm
          · have := hy.1 x e; have := hx.1 y e'; omega
      subst hxy
      congr 1
      apply ih ys hx.2 hy.2
      intro z
      constructor
      · intro hz
        rcases List.mem_cons.mp ((hm z).mp (List.mem_cons_of_mem _ hz)) with e | e
        · have := hx.1 z hz; omega
        · exact e
      · intro hz
        rcases List.mem_cons.mp ((hm z).mpr (List.mem_cons_of_mem _ hz)) with e | e
        · have := hy.1 z hz; omega
        · exact e

/-- **Union (translated) is commutative and idempotent** on sets (strictly ascending slices): `a ∪ b` and `b ∪ a`
    read the same, and `a ∪ a` reads as `a`. -/
theorem c15p_union_comm_idem (g : Nat → Nat) (h : Data.Heap) (mh : Data.MHeap) (s s2 : Data.Slice)
    (w : Data.SWF h s) (w2 : Data.SWF h s2)
    (hs : (Data.view h s).Pairwise (· < ·)) (hs2 : (Data.view h s2).Pairwise (· < ·)) :
    (∃ r1 h1 r2 h2,
      IntSet_Union ⟨sl s⟩ ⟨sl s2⟩ ⟨h, mh, g⟩ = .ok ⟨sl r1⟩ ⟨h1, mh, g⟩ ∧
      IntSet_Union ⟨sl s2⟩ ⟨sl s⟩ ⟨h, mh, g⟩ = .ok ⟨sl r2⟩ ⟨h2, mh, g⟩ ∧
      Data.view h1 r1 = Data.view h2 r2) ∧
    (∃ r h', IntSet_Union ⟨sl s⟩ ⟨sl s⟩ ⟨h, mh, g⟩ = .ok ⟨sl r⟩ ⟨h', mh, g⟩ ∧ Data.view h' r = Data.view h s) := by
  obtain ⟨r1, h1, e1, _, _, _, _, _, p1⟩ := c15p_union g h mh s s2 w w2
  obtain ⟨r2, h2, e2, _, _, _, _, _, p2⟩ := c15p_union g h mh s2 s w2 w
  obtain ⟨r3, h3, e3, _, _, _, _, _, p3⟩ := c15p_union g h mh s s w w
  obtain ⟨a1, m1⟩ := p1 hs hs2
  obtain ⟨a2, m2⟩ := p2 hs2 hs
  obtain ⟨a3, m3⟩ := p3 hs hs
  refine ⟨⟨r1, h1, r2, h2, e1, e2, sorted_ext _ _ a1 a2 ?_⟩, ⟨r3, h3, e3, sorted_ext _ _ a3 hs ?_⟩⟩
  · intro x; rw [m1, m2]; exact Or.comm
  · intro x; rw [m3]; exact or_self_iff

/-- **Inc (translated)** returns a fresh map holding the specification's value (`mInc`: the count of `k` one up, or 1),
    keys still ascending, and changes no map that existed (`MFrame`), the receiver included; the slice heap is
    untouched. -/
theorem c15p_inc (g : Nat → Nat) (h : Data.Heap) (mh : Data.MHeap) (i : Nat) (k : Int)
    (hs : Data.MSorted (Data.mobj mh i)) :
    ∃ (mh' : Data.MHeap),
      IntMap_Inc ⟨some i⟩ k ⟨h, mh, g⟩ = .ok ⟨some mh.length⟩ ⟨h, mh', g⟩ ∧
      Data.mobj mh' mh.length = Data.mInc (Data.mobj mh i) k ∧ Data.MSorted (Data.mobj mh' mh.length) ∧
      Data.MFrame mh mh' ∧ (i < mh.length → Data.mobj mh' i = Data.mobj mh i) := by
  obtain ⟨j1, j2, j3, _⟩ := Data.inc_spec mh i k hs
  refine ⟨_, ?_, j2, ?_, j3, fun hi => j3.2 i hi⟩
  · rw [tie_Inc, j1]
  · rw [j2]; exact Data.mInc_sorted _ _ hs

/-- **Filter (translated)** returns a fresh map holding the specification's value (`mFilter`: the entries whose key is in
    the set), keys ascending, and changes no map that existed. -/
theorem c15p_filter (g : Nat → Nat) (h : Data.Heap) (mh : Data.MHeap) (i : Nat) (keys : Data.Slice)
    (hi : i < mh.length) (w : Data.SWF h keys) :
    ∃ (mh' : Data.MHeap),
      IntMap_Filter ⟨some i⟩ ⟨sl keys⟩ ⟨h, mh, g⟩ = .ok ⟨some mh.length⟩ ⟨h, mh', g⟩ ∧
      Data.mobj mh' mh.length = Data.mFilter (Data.mobj mh i) (Data.view h keys) ∧
      Data.MSorted (Data.mobj mh' mh.length) ∧ Data.MFrame mh mh' ∧ Data.mobj mh' i = Data.mobj mh i := by
  obtain ⟨j1, j2, j3, _⟩ := Data.filter_spec mh i hi (Data.view h keys)
  refine ⟨_, ?_, j2, ?_, j3, j3.2 i hi⟩
  · rw [tie_Filter h mh g i keys w, j1]
  · rw [j2]; exact Data.mFilter_sorted _ _

/-- **Get (translated)** reads the stored value, 0 for an absent key, and changes nothing. -/
theorem c15p_get (g : Nat → Nat) (h : Data.Heap) (mh : Data.MHeap) (i : Nat) (k : Int) :
    IntMap_Get ⟨some i⟩ k ⟨h, mh, g⟩ = .ok ((Data.mget (Data.mobj mh i) k).getD 0) ⟨h, mh, g⟩ :=
  tie_Get h mh g i k

/-- non-vacuity: the translated functions run on a concrete heap (a set with spare capacity, so an in-place append is
    possible; a shared map), evaluated by the kernel -/
theorem c15p_example :
    let st : St := { arrays := [[1, 3, 5, 0], [2, 3, 6]], maps := [[(1, 2), (4, 1)]], grow := fun c => 2 * c + 1 }
    let a : IntSet := ⟨{ arr := 0, off := 0, len := 3, cap := 4 }⟩
    let b : IntSet := ⟨{ arr := 1, off := 0, len := 3, cap := 3 }⟩
    (match IntSet_Insert a 4 st with | .ok r st' => (view st' r.data, view st' a.data) | _ => ([], [])) = ([1, 3, 4, 5], [1, 3, 5]) ∧
    (match IntSet_Union a b st with | .ok r st' => (view st' r.data, st'.arrays.take 2) | _ => ([], [])) =
      ([1, 2, 3, 5, 6], [[1, 3, 5, 0], [2, 3, 6]]) ∧
    (match IntMap_Inc ⟨some 0⟩ 4 st with | .ok _ st' => st'.maps | _ => []) = [[(1, 2), (4, 1)], [(1, 2), (4, 2)]] ∧
    (match IntMap_Filter ⟨some 0⟩ a st with | .ok _ st' => st'.maps | _ => []) = [[(1, 2), (4, 1)], [(1, 2)]] := by
  decide

end PV.ProgTie
