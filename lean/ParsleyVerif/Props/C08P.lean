/-
  C08P — text/terminal/string.go `unquoteString`, about the function TRANSLATED from the Go source.

  `factgen -out-prog` translates the 48-line body of `unquoteString` (the scan for the first special byte, then the
  rune-by-rune loop around strconv.UnquoteChar) statement by statement into Lean (Generated/FactsProg.lean:
  `unquoteString`, `unquoteString_loop1`, `unquoteString_loop2`; two fuelled loops over the array heap of
  Generated/ProgPrelude.lean, `make`, `append(res, b[0:i]...)`, `append(res, string(ch)...)`, `string(b[i:])`).
  strconv.UnquoteChar is NOT given a meaning by the prelude: it is the field `unquoteChar` of the world `X : Ext`, and
  `UnquoteRel X` is the assumption that, for the quote `"`, it answers what the model's transcription
  (Model/Terminal.lean `unquoteChar`) answers.

  `c08_translated_unquoteString`: under that assumption the translated function computes the model's `unquoteString`
  (`FnRel`: on every non-nil, well-formed slice showing non-empty bytes `bs` it returns — never a panic, never out of
  fuel, writing to nothing that existed — a slice showing `(unquoteString bs).1` (nil for `none`) and the length
  `(unquoteString bs).2`).  Hence (`c08p_readf_unquoteString`) `tr.Readf(pos, unquoteString)` as translated is the
  model's `readf unquoteString` and never reaches either panic of Readf, and (`c08p_no_raw_linebreak`) the bytes the
  translated function consumes never contain a raw CR or LF.
-/
import ParsleyVerif.Proofs.TxtTieUnquote
import ParsleyVerif.Props.C08
import ParsleyVerif.Props.C09P
namespace PV.TxtTie
open PV.ProgPrelude PV.FactsProg PV.ProgTie

/-- **The tie.**  `unquoteString` is translated (both loops), and for every world whose UnquoteChar is the model's it
    computes the model's `unquoteString`. -/
theorem c08_translated_unquoteString :
    FactsProg.translatedProg.contains "unquoteString" = true ∧
    ∀ (X : Ext), UnquoteRel X → FnRel (FactsProg.unquoteString X) PV.unquoteString :=
  ⟨by decide, fun X hX => tie_unquoteString X hX⟩

/-- the same, spelled out: the outcome of the translated function on a slice `s` that shows the non-empty bytes `bs` -/
theorem c08p_unquoteString (X : Ext) (hX : UnquoteRel X) (st : ProgPrelude.St) (s : Sl) (bs : Text.Bytes)
    (hv : view st s = ints bs) (hl : s.len = bs.length) (hne : bs ≠ []) (hnil : s.isNil = false) (hcap : s.len ≤ s.cap) :
    ∃ (v : Sl) (st' : ProgPrelude.St),
      FactsProg.unquoteString X s st = .ok (v, ((PV.unquoteString bs).2 : Int)) st' ∧ Grows st st' ∧
      (match (PV.unquoteString bs).1 with
        | none => v.isNil = true ∧ v.len = 0
        | some val => v.isNil = false ∧ view st' v = ints val ∧ v.len = val.length) := by
  obtain ⟨v, st', e, g, vr⟩ := tie_unquoteString X hX st s bs hv hl hne hnil hcap
  refine ⟨v, st', e, g, ?_⟩
  cases h : (PV.unquoteString bs).1 with
  | none => rw [h] at vr; exact vr
  | some val => rw [h] at vr; exact vr

/-- **Readf(pos, unquoteString), translated**: it is the model's `readf unquoteString` for every position at or above
    the base offset, and for a position in the file it returns — neither panic of Readf is reachable — a position in
    [pos, end of file] -/
theorem c08p_readf_unquoteString (X : Ext) (hX : UnquoteRel X) (st : ProgPrelude.St) (F : FactsProg.File) (f : Text.File)
    (rel : FileRel st F f) (wf : SlWF F.data) (p : Nat) :
    (f.offset ≤ p → AgreesPS (Reader_Readf ⟨F⟩ p (FactsProg.unquoteString X) st) (Text.readf PV.unquoteString f p) st) ∧
    (Text.InFile f p → ∃ (q : Nat) (v : Sl) (st' : ProgPrelude.St),
      Reader_Readf ⟨F⟩ p (FactsProg.unquoteString X) st = .ok ((q : Int), v) st' ∧ Grows st st' ∧
      p ≤ q ∧ q ≤ f.offset + f.len ∧ (v.isNil = true → q = p)) := by
  have tie := fun h => tie_Readf _ _ (tie_unquoteString X hX) st F f rel wf p h
  refine ⟨tie, fun h => ?_⟩
  have t := tie h.1
  have h2 := h.2
  have hrl := Text.rest_length f p h
  rw [Text.c09_readf PV.unquoteString f p h] at t
  by_cases hr : Text.rest f p = []
  · rw [if_pos hr] at t
    obtain ⟨v, st', e, g, vr⟩ := t
    exact ⟨p, v, st', e, g, Nat.le_refl _, h2, fun _ => rfl⟩
  · rw [if_neg hr] at t
    obtain ⟨c1, c2, c3⟩ := c08_unquoteString_contract (Text.rest f p) hr
    rcases c3 with ⟨c3, c4⟩ | ⟨c3, c4⟩
    · rw [if_pos c4, c3] at t
      simp only [Option.isSome_none, Bool.false_eq_true, if_false] at t
      obtain ⟨v, st', e, g, vr⟩ := t
      exact ⟨p, v, st', e, g, Nat.le_refl _, h2, fun _ => rfl⟩
    · rw [if_neg (by omega), if_neg (by omega)] at t
      obtain ⟨v, st', e, g, vr⟩ := t
      refine ⟨p + (PV.unquoteString (Text.rest f p)).2, v, st', e, g, by omega, by omega, fun hn => ?_⟩
      cases hval : (PV.unquoteString (Text.rest f p)).1 with
      | none => rw [hval] at c3; cases c3
      | some val => rw [hval] at vr; rw [vr.1] at hn; cases hn

/-- **no raw line break (string.go as fixed), translated**: the bytes the translated function consumes never contain a
    raw LF or CR — the count it returns is the model's, for which C08 proves it -/
theorem c08p_no_raw_linebreak (X : Ext) (hX : UnquoteRel X) (st : ProgPrelude.St) (s : Sl) (bs : Text.Bytes)
    (hv : view st s = ints bs) (hl : s.len = bs.length) (hne : bs ≠ []) (hnil : s.isNil = false) (hcap : s.len ≤ s.cap) :
    ∃ (v : Sl) (n : Nat) (st' : ProgPrelude.St), FactsProg.unquoteString X s st = .ok (v, (n : Int)) st' ∧
      n ≤ bs.length ∧ ∀ b ∈ bs.take n, b ≠ 10 ∧ b ≠ 13 := by
  obtain ⟨v, st', e, _, _⟩ := tie_unquoteString X hX st s bs hv hl hne hnil hcap
  exact ⟨v, _, st', e, (c08_unquoteString_contract bs hne).1, c08_string_body_no_raw_linebreak bs⟩

/-! non-vacuity: a world whose UnquoteChar IS the model's transcription satisfies `UnquoteRel`; with it the translated
    function is run by the kernel on `ab\tc"x` (an escape), on `ab` LF `c` (a raw line break ends the literal) and on
    `"` (nothing before the quote) -/

def modelExt : Ext :=
  { findIndex := fun _ _ => none,
    unquoteChar := fun s q => (PV.unquoteChar (s.map Int.toNat) q.toNat).map (fun r => ((r.1 : Int), false, ints r.2)) }

theorem c08p_modelExt_rel : UnquoteRel modelExt := by
  intro s
  have e : (34 : Int).toNat = 34 := rfl
  simp only [modelExt, ints_toNat, e, Option.map_map]
  cases PV.unquoteChar s 34 <;> rfl

def c08pRun (bytes : List Int) : Option (List Int × Int) :=
  let st : ProgPrelude.St := { arrays := [bytes], maps := [], grow := fun c => 2 * c + 1 }
  match FactsProg.unquoteString modelExt { arr := 0, off := 0, len := bytes.length, cap := bytes.length } st with
  | .ok (v, n) st' => some (view st' v, n)
  | _ => none

theorem c08p_example :
    c08pRun [97, 98, 92, 116, 99, 34, 120] = some ([97, 98, 9, 99], 5) ∧
    c08pRun [97, 98, 10, 99] = some ([97, 98], 2) ∧
    c08pRun [92, 110, 13, 99] = some ([10], 2) ∧
    c08pRun [34] = some ([], 0) := by
  decide

end PV.TxtTie
