/-
  C08Q — the TERMINAL PARSERS of text/terminal, about the closures TRANSLATED from the Go source.

  `factgen -out-term` translates, statement by statement, the function literals returned by `Rune`, `Op`, `Word`, `Bool`,
  `Nil`, `Integer`, `Float`, `Char`, `String`, `TimeDuration` and `Regexp` (rune.go, op.go, word.go, bool.go, nil.go,
  integer.go, float.go, char.go, string.go, time_duration.go, regexp.go) into Lean definitions `Rune_parse` … `Regexp_parse`
  (Generated/FactsTerm.lean, regenerated from the repository on every run; run-time: the hand-written
  Generated/TermPrelude.lean on top of Generated/CorePrelude.lean).  The variables a closure captures (the constructor's
  parameters and `notFoundErr`, `token`, computed before the `return`) are parameters of the generated function; the
  statements before the `return` are translated as `Rune_new` … `Regexp_new`, which answer those variables.  The typed
  node constructors (`NewIntegerNode` …, `ast.NewTerminalNode`) are prelude functions building a leaf of the dynamic node
  type with token and value attached.

  THE WORLD.  A closure calls the reader (`ReadRune`, `MatchString`, `MatchWord`, `ReadRegexp`, `ReadRegexpSubmatch`,
  `Readf(…, unquoteString)`) and four library functions (`strconv.ParseInt`, `ParseFloat`, `UnquoteChar`,
  `time.ParseDuration`) through the parameter `T : TWorld`.  The CONTRACTS (Proofs/TermTieBasics.lean):
    * `TWorldRel T cfg`: the reader's methods answer what the model's functions of Model/Text.lean answer on `cfg.file`,
      a Go panic exactly where the model says `none` (proved of the TRANSLATED reader in Props/C09P.lean, of the translated
      `unquoteString` in Props/C08P.lean); `ReadRegexp` with the TEXT of one of the five literal expressions — the printed
      syntax trees of Spec/Regex.lean — finds what the hand-written matcher finds (= the leftmost-first semantics of the
      expression: `c08_regex_integer` …); `ParseInt(lexeme, 0, 64)` on a lexeme of the integer syntax is `parseInt0`
      (= the mathematical value with the 64-bit range check: `c08_parseInt0_spec`); `ParseFloat(lexeme, 64)` fails exactly
      when `Params.floatOk` is false and `ParseDuration(lexeme)` fails with the text `Params.durErr` gives (their values stay
      symbolic — the lexeme —, as in the model); `UnquoteChar(s, '\'')` is `unquoteChar s 39` (`c08_unquoteChar_table`).
    * `RegexpRel T cfg id rx gi`: for the user expression the model calls `id`, written `rx` in the Go program and used with
      the group index `gi`: `ReadRegexp` / `ReadRegexpSubmatch` find the match `Params.regexp id` reports; the group `gi`
      of the submatches is the group whose value it reports, out of range when it reports none.

  PROVED
    * `c08q_all_translated`        everything asked for is translated;
    * `c08_translated_terminals`   for EVERY built-in terminal `t` of Model/Terminal.lean, every position, every state: the
                                   translated closure instantiated with `t`'s construction parameters (`termClosure`)
                                   computes `Terminal.parse` — the same node (kind, token, value, positions), the same
                                   error (kind, message, position), the state untouched, and a Go panic exactly where the
                                   model says `.panic` (`CorrT`), incl. the documented panics: the empty Op / Word, a
                                   non-ASCII word byte, the invalid capturing group (`c08q_documented_panics`);
    * `c08q_constructors`          the construction-time statements of the constructors (`X_new`) compute exactly the
                                   captured values the closures are instantiated with; their documented panics;
    * `c08q_leaf`                  in C01P's vocabulary: the closure corresponds (`Corr`) to `run cfg (fuel+1) (.term t)`
                                   wherever the model's terminal does not panic; `termLeaf` — the closure with a panic
                                   reported as the model reports it, an error VALUE — satisfies `AgreesF … (.term t)` at
                                   every position, which is what the closed world needs (Props/C01R.lean); for documented
                                   parameters and a position in the file the leaf IS the closure;
    * two facts of Props/C08.lean restated about the translated code: `c08q_total` (never a panic except the documented
      one of Regexp: `c08q_panic_only_missing_group`) and `c08q_node_span` (`c08_node_span`).
-/
import ParsleyVerif.Proofs.TermWorld
import ParsleyVerif.Proofs.TermTieCtor
namespace PV
open PV.CoreTie PV.TermTie PV.FactsTerm PV.Text

/-- the closures (`X_parse`) and construction-time parts (`X_new`) the translator is asked for -/
def termFunctions : List String :=
  ["Rune_parse", "Op_parse", "Word_parse", "Bool_parse", "Nil_parse", "Integer_parse", "Float_parse", "Char_parse",
   "String_parse", "TimeDuration_parse", "Regexp_parse",
   "Rune_new", "Op_new", "Word_new", "Bool_new", "Nil_new", "Integer_new", "Float_new", "Char_new", "String_new",
   "TimeDuration_new", "Regexp_new"]

/-- everything asked for is translated -/
theorem c08q_all_translated :
    termFunctions.all (fun f => FactsTerm.translatedTerm.contains f) = true ∧ FactsTerm.untranslatedTerm = [] := by
  decide

/-- **The tie of the terminals.**  For every world within the contracts, every built-in terminal, every schema value,
    left-recursion context, position and state: the translated closure, instantiated with the terminal's construction
    parameters, computes the model's `Terminal.parse`:
      `.node n`  ↦  `.ok (eNode n, [], nil) s`   (the leaf with the model's token, value and positions; the state unchanged)
      `.err e`   ↦  `.ok (nil, [], eErr1 e) s`   (the model's error kind, message and position)
      `.panic _` ↦  `.panic`                      (a Go run-time panic) -/
theorem c08_translated_terminals {σ : Type} (T : TWorld) (cfg : Cfg) (hT : TWorldRel T cfg) (X : RxNames)
    (schema : CorePrelude.Opaque) (t : Terminal) (hX : RegexpOK T cfg X t) (m : IntMap) (pos : Nat) (s : σ) :
    CorrT (termClosure T X schema t m (pos : Int) s) s (t.parse cfg.params cfg.file pos) :=
  tie_terminal T cfg hT X schema t hX m pos s

/-- what `termClosure` is, terminal by terminal: the generated function applied to the construction parameters -/
theorem c08q_closure {σ : Type} (T : TWorld) (X : RxNames) (schema : CorePrelude.Opaque) :
    (∀ ch name, termClosure (σ := σ) T X schema (.rune ch name) = Rune_parse T (ch : Int) name) ∧
    (∀ op name, termClosure (σ := σ) T X schema (.op op name) = Op_parse T op name) ∧
    (∀ w v name, termClosure (σ := σ) T X schema (.word w v name) =
      Word_parse T schema w (eVal (.opaque v)) name (upperAscii w)) ∧
    (∀ ts fs, termClosure (σ := σ) T X schema (.bool ts fs) = Bool_parse T schema ts fs (CorePrelude.Go.str "boolean")) ∧
    (∀ w, termClosure (σ := σ) T X schema (.nil w) = Nil_parse T schema w w) ∧
    termClosure (σ := σ) T X schema .integer = Integer_parse T schema (CorePrelude.Go.str "integer value") ∧
    termClosure (σ := σ) T X schema .float = Float_parse T schema (CorePrelude.Go.str "float value") ∧
    (∀ bq, termClosure (σ := σ) T X schema (.string bq) = String_parse T schema bq (CorePrelude.Go.str "string literal")) ∧
    termClosure (σ := σ) T X schema .char = Char_parse T schema (CorePrelude.Go.str "char literal") ∧
    termClosure (σ := σ) T X schema .duration = TimeDuration_parse T schema (CorePrelude.Go.str "time duration") ∧
    (∀ id tok name g, termClosure (σ := σ) T X schema (.regexp id tok name g) =
      Regexp_parse T schema tok (X.text id) (X.group id g) name) :=
  ⟨fun _ _ => rfl, fun _ _ => rfl, fun _ _ _ => rfl, fun _ _ => rfl, fun _ => rfl, rfl, rfl, fun _ => rfl, rfl, rfl,
   fun _ _ _ _ => rfl⟩

/-- **the constructors.**  `X_new` is the translation of the statements of the constructor X before its `return` (they run
    once, when the grammar is built, and define the variables the closure captures); `termNew` runs `X_new` and answers
    the closure `X_parse` over what it computed.  For a terminal of the model with documented construction parameters whose
    recorded name is the one the constructor computes (`NamesOK`: strconv.Quote of the rune / operator / word; the model
    takes the quoted name as a parameter) the translated constructor RETURNS exactly the closure `termClosure` that
    `c08_translated_terminals` is about — in particular the messages "boolean", "integer value", "float value",
    "string literal", "char literal", "time duration" and Word's upper-cased token are the source's.  The documented panics
    of the constructors: the empty operator, word, true / false string, nil string. -/
theorem c08q_constructors {σ : Type} (T : TWorld) (cfg : Cfg) (hT : TWorldRel T cfg) (X : RxNames)
    (schema : CorePrelude.Opaque) (s : σ) :
    (∀ t : Terminal, t.WF → NamesOK T t → termNew T X schema t s = .ok (termClosure T X schema t) s) ∧
    Op_new T [] s = .panic ∧ (∀ v, Word_new T schema [] v s = .panic) ∧
    (∀ fs, Bool_new T schema [] fs s = .panic) ∧ (∀ ts, Bool_new T schema ts [] s = .panic) ∧
    Nil_new T schema [] s = .panic :=
  ⟨fun t wf hn => tie_new T cfg hT X schema t wf hn s, new_panics T schema s⟩

/-- **the documented panics, about the translated closures**: the empty operator and the empty word (MatchString /
    MatchWord refuse the empty string), and terminal.Regexp with a group index the expression does not have — each a Go
    panic of the translated closure, at every position the reader accepts -/
theorem c08q_documented_panics {σ : Type} (T : TWorld) (cfg : Cfg) (hT : TWorldRel T cfg) (schema : CorePrelude.Opaque)
    (m : IntMap) (pos : Nat) (s : σ) :
    (∀ name, Op_parse T [] name m (pos : Int) s = .panic) ∧
    (∀ v name tok, Word_parse T schema [] v name tok m (pos : Int) s = .panic) ∧
    (∀ id tok name rx gi ml, RegexpRel T cfg id rx gi → gi ≠ 0 → InFile cfg.file pos → rest cfg.file pos ≠ [] →
      cfg.params.regexp id (rest cfg.file pos) = some (ml, none) → ml ≤ (rest cfg.file pos).length →
      Regexp_parse T schema tok rx gi name m (pos : Int) s = .panic) := by
  refine ⟨fun name => ?_, fun v name tok => ?_, fun id tok name rx gi ml hR hne hin hr hp hml => ?_⟩
  · have h := tie_Op T cfg hT [] name m pos s
    have e : (Terminal.op [] name).parse cfg.params cfg.file pos = .panic "MatchString" := by
      simp [Terminal.parse, matchString]
    rw [e] at h
    exact h
  · unfold Word_parse
    simp [bindT, hT.matchWord, matchWord, callT_none]
  · have h := tie_Regexp T cfg schema id tok name rx gi true hR (by simp [hne]) m pos s
    have e : (Terminal.regexp id tok name true).parse cfg.params cfg.file pos = .panic "Capturing group is invalid" := by
      have h1 : ¬ pos < cfg.file.offset := by have := hin.1; omega
      have hlen := rest_length cfg.file pos hin
      have h2 : ¬ pos - cfg.file.offset ≥ cfg.file.len := by
        intro hge
        apply hr
        unfold rest
        exact List.drop_eq_nil_of_le (by unfold File.len at hge; omega)
      unfold rest at hp hml
      have h3 : ¬ (pos - cfg.file.offset + ml > cfg.file.data.length) := by
        rw [List.length_drop] at hml
        unfold File.len at h2
        omega
      simp [Terminal.parse, readRegexp, h1, h2, hp, h3]
    rw [e] at h
    exact h

/-- **in the parser core's vocabulary** (Props/C01P.lean): (1) wherever the model's terminal does not panic, the translated
    closure corresponds to `run cfg (fuel+1) (.term t)`; (2) the leaf `termLeaf` — the translated closure, a Go panic
    inside it reported as the model reports it (an error value of kind panic) — agrees with `run` on the terminal at EVERY
    position; (3) where the closure does not panic the leaf is the closure -/
theorem c08q_leaf (T : TWorld) (cfg : Cfg) (h0 : cfg.maxCalls = 0) (hT : TWorldRel T cfg) (X : RxNames)
    (schema : CorePrelude.Opaque) (t : Terminal) (hX : RegexpOK T cfg X t) (fuel : Nat) :
    (∀ (m : IntMap) (c : Ctx) (pos : Nat) (s : FactsCore.Context) (st : St), StRel s st →
      (∀ site, t.parse cfg.params cfg.file pos ≠ .panic site) →
      Corr (termClosure T X schema t m (pos : Int) s) (run cfg (fuel + 1) (.term t) c pos st)) ∧
    AgreesF (termLeaf cfg T X schema t) cfg (fuel + 1) (.term t) ∧
    (∀ (m : IntMap) (pos : Int) (s : FactsCore.Context), termClosure T X schema t m pos s ≠ .panic →
      termLeaf cfg T X schema t m pos s = termClosure T X schema t m pos s) :=
  ⟨fun m c pos s st hs hnp => tie_term_corr T cfg h0 hT X schema t hX fuel m c pos s st hs hnp,
   tie_leaf T cfg h0 hT X schema t hX fuel,
   fun m pos s h => leaf_eq_of_not_panic cfg T X schema t m pos s h⟩

/-- **C08 totality, of the translated closures**: for every terminal with documented construction parameters, every file,
    every position in it, every ParseFloat / ParseDuration behaviour, every in-bounds regexp engine that has the capturing
    group the terminal was built with, the translated closure RETURNS: a leaf with a nil error, or a nil node with an error;
    the curtailing set is empty and the state untouched.  Never a panic, never out of fuel. -/
theorem c08q_total {σ : Type} (T : TWorld) (cfg : Cfg) (hT : TWorldRel T cfg) (X : RxNames) (schema : CorePrelude.Opaque)
    (t : Terminal) (hX : RegexpOK T cfg X t) (m : IntMap) (pos : Nat) (s : σ)
    (h : InFile cfg.file pos) (wf : t.WF) (hl : cfg.params.LenOk t) (hg : cfg.params.GroupOk t) :
    ∃ (n : CNode) (e : CErr), termClosure T X schema t m (pos : Int) s = .ok (n, [], e) s ∧
      ((n.isNil = false ∧ e.isNil = true) ∨ (n.isNil = true ∧ e.isNil = false)) := by
  rcases closure_total T cfg hT X schema t hX m pos s h wf hl hg with ⟨n, -, e⟩ | ⟨er, -, e⟩
  · exact ⟨_, _, e, .inl ⟨eNode_isNil n, rfl⟩⟩
  · exact ⟨_, _, e, .inr ⟨rfl, rfl⟩⟩

/-- without `GroupOk` the only panic is the documented one of terminal.Regexp: the expression matched but has no capturing
    group with the requested index -/
theorem c08q_panic_only_missing_group {σ : Type} (T : TWorld) (cfg : Cfg) (hT : TWorldRel T cfg) (X : RxNames)
    (schema : CorePrelude.Opaque) (t : Terminal) (hX : RegexpOK T cfg X t) (m : IntMap) (pos : Nat) (s : σ)
    (h : InFile cfg.file pos) (wf : t.WF) (hl : cfg.params.LenOk t)
    (hp : termClosure T X schema t m (pos : Int) s = .panic) :
    ∃ id tok name ml, t = .regexp id tok name true ∧ rest cfg.file pos ≠ [] ∧
      cfg.params.regexp id (rest cfg.file pos) = some (ml, none) :=
  closure_panic_only_missing_group T cfg hT X schema t hX m pos s h wf hl hp

/-- **C08 node span, of the translated closures** (`c08_node_span`): a node a translated closure returns is a leaf that
    starts at the position the closure was called at and ends inside the file -/
theorem c08q_node_span {σ : Type} (T : TWorld) (cfg : Cfg) (hT : TWorldRel T cfg) (X : RxNames) (schema : CorePrelude.Opaque)
    (t : Terminal) (hX : RegexpOK T cfg X t) (m : IntMap) (pos : Nat) (s s' : σ) (n : CNode) (cp : IntSet) (e : CErr)
    (h : InFile cfg.file pos) (wf : t.WF) (hl : cfg.params.LenOk t)
    (hr : termClosure T X schema t m (pos : Int) s = .ok (n, cp, e) s') (hn : n.isNil = false) :
    ∃ (tok : Bytes) (v : CorePrelude.Opaque) (rp : Nat), n = .leaf tok v (pos : Int) (rp : Int) ∧ pos ≤ rp ∧
      rp ≤ cfg.file.offset + cfg.file.len ∧ cp = [] ∧ e = .nil ∧ s' = s :=
  closure_node_span T cfg hT X schema t hX m pos s s' n cp e h wf hl hr hn

/-! ### non-vacuity: a world within the contracts, and the translated closures RUN

    `CWT.tWorld cfg` (Proofs/TermWorld.lean) is built from the configuration (the model's file functions, `parseInt0`, the
    parameters) and satisfies `TWorldRel` and `RegexpRel` for every configuration — so every hypothesis of the theorems
    above is satisfiable, for every file and every engine.  On the file `12.5 "a\tb" 0x1F` (base offset 1) the translated
    closures are evaluated by the kernel. -/

theorem c08q_nonvacuous (cfg : Cfg) :
    TWorldRel (CWT.tWorld cfg) cfg ∧ (∀ t, RegexpOK (CWT.tWorld cfg) cfg CWT.cwNames t) :=
  ⟨CWT.tWorld_rel cfg, CWT.tWorld_regexpOK cfg⟩

def c08qCfg : Cfg :=
  { env := [], file := { name := "t", data := [49, 50, 46, 53, 32, 34, 97, 92, 116, 98, 34, 32, 48, 120, 49, 70], offset := 1 },
    fileSet := {}, params := { floatOk := fun _ => true, durErr := fun _ => none, regexp := fun _ _ => none } }

/-- what a closure answers: (token, value, pos, readerPos) of the leaf, or the position of the error -/
def c08qShow (r : CorePrelude.Res Unit (CNode × IntSet × CErr)) : Option (Bytes × List Int × Int × Int) ⊕ Option Int :=
  match r with
  | .ok (.leaf tok v p rp, _, _) _ => .inl (some (tok, v, p, rp))
  | .ok (_, _, .mk p _) _ => .inr (some p)
  | _ => .inr none

theorem c08q_example :
    -- Float at 1: "12.5", the symbolic value is the lexeme; Integer at 1: refused because of the '.' look-ahead
    c08qShow (Float_parse (CWT.tWorld c08qCfg) [] [] [] 1 ()) = .inl (some (tokOf "FLOAT", [3, 49, 50, 46, 53], 1, 5)) ∧
    c08qShow (Integer_parse (CWT.tWorld c08qCfg) [] [] [] 1 ()) = .inr (some 1) ∧
    -- String at 6: "a\tb" with the escape decoded
    c08qShow (String_parse (CWT.tWorld c08qCfg) [] false [] [] 6 ()) = .inl (some (tokOf "STRING", [1, 97, 9, 98], 6, 12)) ∧
    -- Integer at 13: 0x1F = 31
    c08qShow (Integer_parse (CWT.tWorld c08qCfg) [] [] [] 13 ()) = .inl (some (tokOf "INTEGER", [2, 31], 13, 17)) ∧
    -- Op with the empty operator: the documented panic
    c08qShow (Op_parse (CWT.tWorld c08qCfg) [] [] [] 1 ()) = .inr none := by
  refine ⟨?_, ?_, ?_, ?_, ?_⟩ <;> with_unfolding_all decide

end PV
