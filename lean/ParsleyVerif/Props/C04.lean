/-
  C04 — Parse yields a node or an error, never neither; Sentence means whole input.

  Model: `parse` (parsley.Parse: the error preference rule, the synthesised error of fix D3),
  `evaluate` / `evalNode` (parsley.Evaluate, EvaluateNode, the interpreters with their panics as explicit
  outcomes), `G.sentence` (combinator.Sentence = SeqOf(p, End) with Select(0)).

  * `c04_xor`            for EVERY grammar, input, fuel and initial state: exactly one of node / error;
  * `c04_sentence_sound` a Sentence-rooted success starts at the first byte, ends at end of input, and its
                         first child is a derivation of the wrapped parser consuming the whole input;
  * `c04_sentence_only_if` hence: Sentence succeeds ONLY IF some derivation consumes the entire input;
  * `c04_eval`           Evaluate never panics on a tree whose non-terminals all carry an applicable
                         interpreter (Select within range, Object over key/value nodes with string keys,
                         Array, Nil, custom interpreters that do not panic themselves);
  * `c04_eval_needs_interpreter` without an interpreter it does (the documented panic) — the hypothesis
                         is not idle.

  The IF direction of the Sentence iff is proved in Props/C01C.lean for the monotone fragment
  (`c01_sentence_complete_parse`: whenever Parse answers and a derivation consumes the whole input, it
  succeeds; with `c02_terminates` it does answer).  Outside that fragment the harness's derivation oracle
  decides it on every run (bounded exploration; known finding D9 for Name/Single over Optional).
-/
import ParsleyVerif.Proofs.Sentence
import ParsleyVerif.Generated.Facts
namespace PV
open PV.Text

/-- **C04 (node xor error)** — all grammars, all inputs, any initial state -/
theorem c04_xor (cfg : Cfg) (fuel : Nat) (g : G) (st : St) (p : ParseOut) (h : parse cfg fuel g st = some p) :
    (p.res.isNil = false ∧ p.err = none ∧ p.msg = none) ∨ (p.res.isNil = true ∧ p.err.isSome ∧ p.msg.isSome) := by
  cases hr : run cfg fuel g [] (cfg.file.pos 0) st with
  | none => simp [parse, hr] at h
  | some r =>
    obtain ⟨o, st1⟩ := r
    simp only [parse, hr] at h
    by_cases hn : (o.res.isNil && o.err.isNone) = true
    · simp only [hn, ↓reduceIte] at h
      split at h
      · cases h; exact .inr ⟨rfl, rfl, rfl⟩
      · rename_i he
        cases hc : st1.ctxErr <;> simp [hc] at he
    · simp only [hn] at h
      cases he : o.err with
      | some e =>
        simp only [he] at h
        cases h; exact .inr ⟨rfl, rfl, rfl⟩
      | none =>
        simp only [he] at h
        cases h
        have : o.res.isNil = false := by
          cases hnil : o.res.isNil with
          | false => rfl
          | true => simp [hnil, he] at hn
        exact .inl ⟨this, rfl, rfl⟩

/-- **C04 (Sentence, soundness)**: the returned tree starts at the first byte, ends at the end of the
    input, and wraps a derivation of `g` that consumes the whole input -/
theorem c04_sentence_sound (cfg : Cfg) (bodyOf : Nat → G) (g : G) (hs : Scope cfg (G.sentence g))
    (henv : ∀ g' ∈ cfg.env, GOK bodyOf g') (hg : GOK bodyOf (G.sentence g))
    (fuel : Nat) (p : ParseOut) (h : parse cfg fuel (G.sentence g) = some p) :
    ∀ x ∈ p.res.alts, x.pos = cfg.file.pos 0 ∧ x.rpos = cfg.hi ∧
      ∃ y, Derives cfg g (cfg.file.pos 0) y ∧ y.rpos = cfg.hi ∧
        x = .nt seqTok [y, .eof cfg.hi] (cfg.file.pos 0) cfg.hi (.select 0) := by
  cases hr : run cfg fuel (G.sentence g) [] (cfg.file.pos 0) {} with
  | none => simp [parse, hr] at h
  | some r =>
    obtain ⟨o, st1⟩ := r
    have hsnd := (run_sound cfg bodyOf henv fuel _ [] _ {} o st1 hg (by intro e he; cases he) hr).1
    have hpre : Pre cfg [] (cfg.file.pos 0) {} := by
      refine ⟨⟨by simp [File.pos], by simp [File.pos]⟩, ⟨(by intro e he; cases he), (by intro er her; cases her), (by intro i p d hm; cases hm)⟩, ?_⟩
      exact ⟨(by intro a ha; cases ha), (by intro k; simp [actCount, Ctx.get])⟩
    have hpos := (run_pos cfg hs.env fuel _ [] _ {} o st1 hs.root hpre hr).nodes
    simp only [parse, hr] at h
    split at h
    · cases h; intro x hx; cases hx
    · cases h
      intro x hx
      obtain ⟨y, hy, heof, hxe⟩ := derives_sentence_inv cfg g _ x (hsnd x hx)
      obtain ⟨hxp, hxw⟩ := hpos x hx
      have hb := Node.WF_bounds cfg.hi x hxw
      have hyr : y.rpos = cfg.hi := by
        have h1 : x.rpos = y.rpos := by rw [hxe]; rfl
        have h2 : y.rpos - cfg.file.offset ≥ cfg.file.len := by simpa [isEOF] using heof
        unfold Cfg.hi at hb ⊢
        have h3 : cfg.file.offset ≤ x.pos := by rw [hxp]; simp [File.pos]
        omega
      have hyp : y.pos = cfg.file.pos 0 := by
        have h1 : x.pos = y.pos := by rw [hxe]; rfl
        rw [← h1]; exact hxp
      refine ⟨hxp, ?_, y, hy, hyr, ?_⟩
      · rw [hxe]; exact hyr
      · rw [hxe, hyr, hyp]

/-- **C04 (Sentence succeeds only if some derivation consumes the entire input)** -/
theorem c04_sentence_only_if (cfg : Cfg) (bodyOf : Nat → G) (g : G) (hs : Scope cfg (G.sentence g))
    (henv : ∀ g' ∈ cfg.env, GOK bodyOf g') (hg : GOK bodyOf (G.sentence g))
    (fuel : Nat) (p : ParseOut) (h : parse cfg fuel (G.sentence g) = some p) (hok : p.err = none) :
    ∃ y, Derives cfg g (cfg.file.pos 0) y ∧ y.rpos = cfg.hi := by
  have hx := c04_xor cfg fuel _ {} p h
  have hnn : p.res.isNil = false := by
    cases hx with
    | inl h1 => exact h1.1
    | inr h1 => rw [hok] at h1; simp at h1
  have : ∃ x, x ∈ p.res.alts := by
    -- a Sequence-family parser never returns an empty list of alternatives
    cases hr : run cfg fuel (G.sentence g) [] (cfg.file.pos 0) {} with
    | none => simp [parse, hr] at h
    | some r =>
      obtain ⟨o, st1⟩ := r
      have hpo : p.res = o.res := by
        simp only [parse, hr] at h
        split at h
        · cases h; rw [hok] at *; simp at *
        · cases h; rfl
      obtain ⟨f, rfl⟩ : ∃ f, fuel = f + 1 := by
        cases fuel with
        | zero => simp [run] at hr
        | succ f => exact ⟨f, rfl⟩
      rw [run_seqfam cfg f _ _ [] _ {} (sentence_shape g)] at hr
      split at hr
      · cases hr
      · unfold runSeq at hr
        split at hr
        · cases hr
        · rename_i b ss st2 hsp
          have ho : (seqFinish (sentenceShape g) (cfg.file.pos 0) ss st2).1 = o := by
            injection hr with hr; rw [hr]
          rw [← ho] at hpo
          have hres := seqParse_result (run cfg f) (sentenceShape g) f ⟨0, [], [], cfg.file.pos 0, true⟩ {} {} b ss st2 rfl hsp
          have hfin : (seqFinish (sentenceShape g) (cfg.file.pos 0) ss st2).1.res = if ss.result.isNil then .nil else ss.result := by
            by_cases hn : ss.result.isNil = true <;> simp [seqFinish, hn]
          rw [hpo, hfin] at hnn ⊢
          by_cases hn : ss.result.isNil = true
          · rw [if_pos hn] at hnn; exact absurd hnn (by simp [Res.isNil])
          · rw [if_neg hn]
            cases hres with
            | inl h1 => rw [h1] at hn; exact absurd rfl hn
            | inr h1 =>
              cases hal : ss.result.alts with
              | nil => exact absurd hal h1
              | cons n l => exact ⟨n, List.mem_cons_self ..⟩
  obtain ⟨x, hx⟩ := this
  obtain ⟨_, _, y, hy, hyr, _⟩ := c04_sentence_sound cfg bodyOf g hs henv hg fuel p h x hx
  exact ⟨y, hy, hyr⟩

/-- **C04 (Evaluate never panics given applicable interpreters)**: the only `.panic` the model's evaluator
    can answer is its own "out of fuel" -/
theorem c04_eval (ce : CustomEval)
    (hce : ∀ id cs pos ev, (∀ c ∈ cs, NoRealPanic (ev c)) → NoRealPanic (ce id cs pos ev))
    (fuel : Nat) (x : Node) (hx : x.EvalSafe) : ∀ s, evalNode ce fuel x = .panic s → s = "out of fuel" :=
  evalNode_noPanic ce hce fuel x hx

/-- the root handed over by Evaluate: a single node is evaluated, a list of alternatives has no value (an
    error, not a panic) -/
theorem c04_eval_root (ce : CustomEval)
    (hce : ∀ id cs pos ev, (∀ c ∈ cs, NoRealPanic (ev c)) → NoRealPanic (ce id cs pos ev))
    (fuel : Nat) (r : Res) (hr : ∀ x ∈ r.alts, x.EvalSafe) (hne : r.alts ≠ []) :
    ∀ s, evalRes ce fuel r = .panic s → s = "out of fuel" := by
  intro s h
  cases r with
  | nil => simp [Res.alts] at hne
  | one n => exact evalNode_noPanic ce hce fuel n (hr n (by simp [Res.alts])) s h
  | list l =>
    cases l with
    | nil => simp [Res.alts] at hne
    | cons n l' => simp [evalRes] at h

/-- the hypothesis is not idle: a non-terminal without interpreter panics (the documented panic) -/
theorem c04_eval_needs_interpreter (ce : CustomEval) :
    evalNode ce 5 (.nt seqTok [] 1 1 .none) = .panic "missing interpreter for node" := rfl

/-- non-vacuity: an EvalSafe tree (Array over a Select and an Object with a string key) -/
example : (Node.nt seqTok [.nt seqTok [.term [97] (.int 1) 1 2] 1 2 (.select 0), .term [44] (.rune 44) 2 3,
    .nt seqTok [.nt seqTok [.term [34] (.str [107]) 3 4, .term [58] (.rune 58) 4 5, .term [49] (.int 2) 5 6] 3 6 .nilI] 3 6 .object]
    1 6 .array).EvalSafe := by
  simp [Node.EvalSafe, EvalSafeList, ObjShape, KvShape]

/- (the text facts that stood here - condition lists and statement orders of Memoize, ResultCache, Any, Choice, the Sequence
   machinery, ReturnError, SetError, Parse, re-read from the source as normalised text - are subsumed since translator v3: the
   functions themselves are translated from the source on every run and the model is PROVED to agree with the translation
   (Props/C01P.lean, built and audited by this property's check).  Unlike a text comparison, that tie is not broken by an
   equivalent rewrite of the source.) -/

/-
  **C04 (Sentence succeeds IF some derivation consumes the entire input) — NOT proved**:

    theorem c04_sentence_complete_STATEMENT : WF cert cfg.env g → NoNameOverOptional g →
        (∃ y, Derives cfg g (cfg.file.pos 0) y ∧ y.rpos = cfg.hi) →
        ∃ F, ∀ fuel ≥ F, ∃ p, parse cfg fuel (G.sentence g) = some p ∧ p.err = none

  (C01 completeness; and false as it stands for Name/Single over Optional — known finding D9.)
-/

end PV
