/-
  C01R — the CLOSED WORLD of the translated parser core, now with TRANSLATED TERMINALS.

  Props/C01Q.lean builds `gWorld cfg root` from the translated combinator closures (Generated/FactsCore.lean) and proves
  that it agrees with the model's `run` on every closed grammar.  Its terminal leaf `Terminal_parse` — the parser of a
  `G.term t` — was still TAKEN FROM THE MODEL (`pure (eOut (Terminal.parse …))`).  Here that leaf runs the closure
  translated from text/terminal/*.go (Generated/FactsTerm.lean; Props/C08Q.lean):

    * `gWorldT cfg root : Nat → World Context` (Proofs/TermWorld.lean) is `gWorld` with one case changed: on the handle of
      a path that leads to `G.term t` it runs `leafT cfg t` = the TRANSLATED closure of the terminal's constructor
      (`Rune_parse`, `Op_parse`, `Word_parse`, `Bool_parse`, `Nil_parse`, `Integer_parse`, `Float_parse`, `Char_parse`,
      `String_parse`, `TimeDuration_parse`, `Regexp_parse`) applied to the terminal's construction parameters, over the
      world `tWorld cfg` of the terminals;
    * `tWorld cfg` is built from the configuration: the reader's methods are the model's file functions
      (Model/Text.lean; Props/C09P.lean ties them to the translated reader, Props/C08P.lean `unquoteString`), the library
      functions are the parameters of Model/Terminal.lean (`parseInt0`, `floatOk`, `durErr`, `unquoteChar`, `regexp`, the
      five hand-written matchers for the five literal expressions).  It satisfies the contracts of Props/C08Q.lean by
      construction (`c08q_nonvacuous`).
    * A Go panic INSIDE a terminal closure (below the file's base offset, the empty Op / Word, an invalid capturing group)
      is reported as the model reports it — an error value of kind panic (`panicAsValue`) — because `Agrees` compares values;
      as for the dangling parser variable of C01Q this is a difference of representation.  `c01r_leaf_is_closure`: for
      documented construction parameters and a position in the file nothing is relabelled, the leaf IS the closure.

  No leaf of `gWorldT` is taken from the model except the reader's functions and the library parameters.

  PROVED (the statements of C01Q, about `gWorldT`)
    * `c01r_world_step`     what `gWorldT` is: on a terminal the translated terminal closure, otherwise `CW.node` (whose
                            cases `c01q_world_step` spells out);
    * `c01r_closed_world`   = `c01q_closed_world` for `gWorldT`: for every closed grammar, fuel, context, position and related
                            states the world's `parse` on the handle of ANY sub-parser of the table corresponds to `run`;
    * `c01r_parse`          the translated `parsley.Parse` over `gWorldT` is the model's `parse`;
    * `c01r_no_panic`, `c01r_xor`, `c01r_terminates`, `c01r_fuel_mono`, `c01r_sound`: the corollaries of C01Q;
    * `c01r_arith`          non-vacuity: the arithmetic grammar (its numbers are `terminal.Integer`, its operators
                            `terminal.Rune`), every input; the `#guard` tests RUN the translated program.
-/
import ParsleyVerif.Proofs.TermWorld
import ParsleyVerif.Props.C01Q
import ParsleyVerif.Props.C08Q
namespace PV
open PV.CoreTie PV.FactsCore PV.CW PV.CWT PV.WFT PV.TermTie

/-- **what the closed world with translated terminals is.**  On the handle of a path that leads to `g` the world with
    fuel+1 runs `nodeT … g` over the world with fuel; on a terminal that is the translated closure of the terminal's
    constructor over `tWorld cfg` (a panic inside it reported the model's way), on every other constructor it is `CW.node`
    (the translated combinator closure: `c01q_world_step`).  Fuel 0 answers "out of fuel"; a handle that is not a path of
    the table is a Go panic. -/
theorem c01r_world_step (cfg : Cfg) (root : G) (fuel : Nat) (π : List Nat) :
    let W := gWorldT cfg root fuel
    (∀ g, resolve (table cfg root) π = some g → (gWorldT cfg root (fuel + 1)).parse (hdl π) = nodeT cfg W fuel π g) ∧
    (resolve (table cfg root) π = none → ∀ m pos s, (gWorldT cfg root (fuel + 1)).parse (hdl π) m pos s = .panic) ∧
    (∀ p m pos s, (gWorldT cfg root 0).parse p m pos s = .nofuel) ∧
    (∀ t m pos, nodeT cfg W fuel π (.term t) m pos =
      panicAsValue (panicSite cfg t pos.toNat) pos (termClosure (tWorld cfg) cwNames [] t m pos)) ∧
    (∀ g, (∀ t, g ≠ .term t) → nodeT cfg W fuel π g = node cfg W fuel π g) := by
  refine ⟨fun g h => gWorldT_parse_succ cfg root fuel π g h, fun h m pos s => ?_, fun _ _ _ _ => rfl,
    fun _ _ _ => rfl, fun g hg => nodeT_of_not_term cfg _ fuel π g hg⟩
  show dispatchT cfg root (gWorldT cfg root fuel) fuel (hdl π) m pos s = _
  simp only [dispatchT, hdl, Encodable.encodek, h]
  rfl

/-- **C01R, closed world.**  The statement of `c01q_closed_world`, about the world whose terminal leaves run the translated
    closures: for every configuration without work budget and every closed grammar (root + rules), at every fuel: the
    reader of `gWorldT` is the model's file; the world's `parse` on the root handle agrees with `run cfg fuel root`, on the
    handle of the parser variable `k` with `run` on the rule `k`, and on the handle of ANY path with `run` on the
    sub-parser the path leads to. -/
theorem c01r_closed_world (cfg : Cfg) (h0 : cfg.maxCalls = 0) (root : G) (hc : Closed cfg root) (fuel : Nat) :
    WorldRel (gWorldT cfg root fuel) cfg ∧
    Agrees (gWorldT cfg root fuel) cfg fuel rootH root ∧
    (∀ k g, cfg.env[k]? = some g → Agrees (gWorldT cfg root fuel) cfg fuel (refH k) g) ∧
    (∀ π g, resolve (table cfg root) π = some g → Agrees (gWorldT cfg root fuel) cfg fuel (hdl π) g) :=
  ⟨gWorldT_rel cfg root fuel, gWorldT_agrees cfg h0 root hc fuel [0] root (resolve_root cfg root),
   fun k g hk => gWorldT_agrees cfg h0 root hc fuel [k + 1] g (resolve_ref cfg root k g hk),
   gWorldT_agrees cfg h0 root hc fuel⟩

/-- … spelled out -/
theorem c01r_closed_world_run (cfg : Cfg) (h0 : cfg.maxCalls = 0) (root : G) (hc : Closed cfg root) (fuel : Nat)
    (m : IntMap) (c : Ctx) (pos : Nat) (s : Context) (st : St) (hm : CtxRel m c) (hs : StRel s st) :
    match run cfg fuel root c pos st with
    | none => (gWorldT cfg root fuel).parse rootH m (pos : Int) s = .nofuel
    | some (o, st') => ∃ s', (gWorldT cfg root fuel).parse rootH m (pos : Int) s = .ok (eOut o) s' ∧ StRel s' st' := by
  have h := (c01r_closed_world cfg h0 root hc fuel).2.1 m c pos s st hm hs
  cases hr : run cfg fuel root c pos st with
  | none => rw [hr] at h; exact h
  | some r => obtain ⟨o, st'⟩ := r; rw [hr] at h; exact h

/-- the step of the induction, in ANY world: C01P's ties for the combinators, C08Q's for the terminals -/
theorem c01r_step (W : World Context) (cfg : Cfg) (h0 : cfg.maxCalls = 0) (hw : WorldRel W cfg) (fuel : Nat)
    (π : List Nat) (g : G)
    (hkids : ∀ i k, (kids g)[i]? = some k → Agrees W cfg fuel (kidH π i) k)
    (href : ∀ k, g = .ref k → ∃ g', cfg.env[k]? = some g' ∧ Agrees W cfg fuel (refH k) g') :
    AgreesF (nodeT cfg W fuel π g) cfg (fuel + 1) g :=
  nodeT_agrees W cfg h0 hw fuel π g hkids href

/-- **the leaf is the closure**: for a terminal with documented construction parameters, an engine within its contract
    and a position in the file, the terminal leaf of `gWorldT` is the translated closure itself — it returns, nothing is
    relabelled -/
theorem c01r_leaf_is_closure (cfg : Cfg) (t : Terminal) (m : IntMap) (pos : Nat) (s : Context)
    (h : Text.InFile cfg.file pos) (wf : t.WF) (hl : cfg.params.LenOk t) (hg : cfg.params.GroupOk t) :
    leafT cfg t m (pos : Int) s = termClosure (tWorld cfg) cwNames [] t m (pos : Int) s ∧
    ∃ n e, leafT cfg t m (pos : Int) s = .ok (n, [], e) s := by
  obtain ⟨n, e, hr, -⟩ := c08q_total (tWorld cfg) cfg (tWorld_rel cfg) cwNames [] t (tWorld_regexpOK cfg t) m pos s h wf hl hg
  have hl' : leafT cfg t m (pos : Int) s = termClosure (tWorld cfg) cwNames [] t m (pos : Int) s :=
    leaf_eq_of_not_panic cfg _ _ _ t m _ s (by rw [hr]; exact fun h => nomatch h)
  exact ⟨hl', n, e, by rw [hl', hr]⟩

/-- **parsley.Parse**, translated, over the closed world with translated terminals IS the model's `parse` -/
theorem c01r_parse (cfg : Cfg) (h0 : cfg.maxCalls = 0) (root : G) (hc : Closed cfg root) (fuel : Nat)
    (s : Context) (st : St) (hs : StRel s st) :
    match parse cfg fuel root st with
    | none => Parse (gWorldT cfg root fuel) rootH s = .nofuel
    | some po => ∃ s', Parse (gWorldT cfg root fuel) rootH s = .ok (eRes po.res, eParseErr po.err) s' ∧ StRel s' po.st :=
  c01p_parse (gWorldT cfg root fuel) cfg (gWorldT_rel cfg root fuel) fuel rootH root
    (c01r_closed_world cfg h0 root hc fuel).2.1 s st hs

/-! ### theorems of the model, transferred to the translated program (terminals included) -/

/-- **no panic** escapes the translated `Parse` on a closed grammar (a panic inside a terminal closure is an error value of
    the leaf: see the header; for documented terminals inside the file there is none, `c01r_leaf_is_closure`) -/
theorem c01r_no_panic (cfg : Cfg) (h0 : cfg.maxCalls = 0) (root : G) (hc : Closed cfg root) (fuel : Nat)
    (s : Context) (hs : WellFormedCtx s) : Parse (gWorldT cfg root fuel) rootH s ≠ .panic := by
  obtain ⟨st, hst⟩ := hs
  have h := c01r_parse cfg h0 root hc fuel s st hst
  cases hp : parse cfg fuel root st with
  | none => rw [hp] at h; simp only at h; rw [h]; exact fun h => nomatch h
  | some po => rw [hp] at h; obtain ⟨s', e, -⟩ := h; rw [e]; exact fun h => nomatch h

/-- **C04 (node xor error)** -/
theorem c01r_xor (cfg : Cfg) (h0 : cfg.maxCalls = 0) (root : G) (hc : Closed cfg root) (fuel : Nat)
    (s : Context) (hs : WellFormedCtx s) (n : CNode) (e : CCause) (s' : Context)
    (h : Parse (gWorldT cfg root fuel) rootH s = .ok (n, e) s') :
    (n.isNil = false ∧ e.isNil = true) ∨ (n.isNil = true ∧ e.isNil = false) := by
  obtain ⟨st, hst⟩ := hs
  have hq := c01r_parse cfg h0 root hc fuel s st hst
  cases hp : parse cfg fuel root st with
  | none => rw [hp] at hq; simp only at hq; rw [hq] at h; cases h
  | some po =>
    rw [hp] at hq
    obtain ⟨s1, e1, -⟩ := hq
    rw [e1] at h
    injection h with h1 h2
    injection h1 with hn he
    subst hn; subst he
    rcases c04_xor cfg fuel root st po hp with ⟨a, b, -⟩ | ⟨a, b, -⟩
    · left; rw [eRes_isNil, a, b]; exact ⟨rfl, rfl⟩
    · right
      rw [eRes_isNil, a]
      cases he : po.err with
      | none => simp [he] at b
      | some er => exact ⟨rfl, rfl⟩

/-- **C02 (termination)** -/
theorem c01r_terminates (rx : Nat → Bool) (cert : WFCert) (cfg : Cfg) (h0 : cfg.maxCalls = 0) (root : G)
    (hc : Closed cfg root) (hwf : wfT rx cert cfg.env root = true) (hrx : RxSound rx cfg.params) :
    ∃ F, ∀ fuel, F ≤ fuel → ∃ n e s', Parse (gWorldT cfg root fuel) rootH exState = .ok (n, e) s' := by
  obtain ⟨F, hF⟩ := c02u_terminates_parse rx cert cfg root hwf h0 hrx
  refine ⟨F, fun fuel hle => ?_⟩
  have hq := c01r_parse cfg h0 root hc fuel exState {} exState_rel
  cases hp : parse cfg fuel root with
  | none => have := hF fuel hle; rw [hp] at this; cases this
  | some po => rw [hp] at hq; obtain ⟨s', e, -⟩ := hq; exact ⟨_, _, s', e⟩

/-- **the fuel is not observable** -/
theorem c01r_fuel_mono (cfg : Cfg) (h0 : cfg.maxCalls = 0) (root : G) (hc : Closed cfg root) (f1 f2 : Nat)
    (hle : f1 ≤ f2) (s : Context) (hs : WellFormedCtx s) (n : CNode) (e : CCause) (s1 : Context)
    (h : Parse (gWorldT cfg root f1) rootH s = .ok (n, e) s1) :
    ∃ s2, Parse (gWorldT cfg root f2) rootH s = .ok (n, e) s2 := by
  obtain ⟨st, hst⟩ := hs
  have hq1 := c01r_parse cfg h0 root hc f1 s st hst
  have hq2 := c01r_parse cfg h0 root hc f2 s st hst
  cases hp : parse cfg f1 root st with
  | none => rw [hp] at hq1; simp only at hq1; rw [hq1] at h; cases h
  | some po =>
    rw [hp] at hq1
    rw [parse_mono cfg f1 f2 hle root st po hp] at hq2
    obtain ⟨t1, e1, -⟩ := hq1
    obtain ⟨t2, e2, -⟩ := hq2
    rw [e1] at h
    injection h with h1 h2
    exact ⟨t2, by rw [e2, h1]⟩

/-- **C01 soundness** -/
theorem c01r_sound (cfg : Cfg) (h0 : cfg.maxCalls = 0) (root : G) (hc : Closed cfg root) (bodyOf : Nat → G)
    (henv : ∀ g' ∈ cfg.env, GOK bodyOf g') (hg : GOK bodyOf root) (fuel : Nat) (n : CNode) (e : CCause) (s' : Context)
    (h : Parse (gWorldT cfg root fuel) rootH exState = .ok (n, e) s') :
    ∃ r : Res, n = eRes r ∧ ∀ x ∈ r.alts, Derives cfg root (cfg.file.pos 0) x := by
  have hq := c01r_parse cfg h0 root hc fuel exState {} exState_rel
  cases hp : parse cfg fuel root with
  | none => rw [hp] at hq; simp only at hq; rw [hq] at h; cases h
  | some po =>
    rw [hp] at hq
    obtain ⟨s1, e1, -⟩ := hq
    rw [e1] at h
    injection h with h1 h2
    injection h1 with hn he
    exact ⟨po.res, hn.symm, c01_sound_parse cfg bodyOf henv fuel root hg po hp⟩

/-! ### non-vacuity: the left-recursive arithmetic grammar, its terminals translated -/

/-- **the arithmetic grammar** (`Garith`: numbers are `terminal.Integer`, operators and parentheses `terminal.Rune`) over
    `gWorldT`, for EVERY input file: closed; the world agrees with `run` on the root and the three rules at every fuel; the
    translated `Parse` never panics, answers from some fuel on, and every answer is a node xor an error -/
theorem c01r_arith (cfg : Cfg) (henv : cfg.env = Garith.env) (h0 : cfg.maxCalls = 0) :
    Closed cfg Garith.root ∧
    (∀ fuel, Agrees (gWorldT cfg Garith.root fuel) cfg fuel rootH Garith.root ∧
      Agrees (gWorldT cfg Garith.root fuel) cfg fuel (refH 0) Garith.expr ∧
      Agrees (gWorldT cfg Garith.root fuel) cfg fuel (refH 1) Garith.term ∧
      Agrees (gWorldT cfg Garith.root fuel) cfg fuel (refH 2) Garith.factor) ∧
    (∀ fuel, Parse (gWorldT cfg Garith.root fuel) rootH exState ≠ .panic) ∧
    (∃ F, ∀ fuel, F ≤ fuel → ∃ n e s', Parse (gWorldT cfg Garith.root fuel) rootH exState = .ok (n, e) s') ∧
    (∀ fuel n e s', Parse (gWorldT cfg Garith.root fuel) rootH exState = .ok (n, e) s' →
      (n.isNil = false ∧ e.isNil = true) ∨ (n.isNil = true ∧ e.isNil = false)) := by
  have hc := c01q_arith_closed cfg henv
  refine ⟨hc, fun fuel => ?_, fun fuel => c01r_no_panic cfg h0 _ hc fuel _ c01q_fresh_wellFormed, ?_,
    fun fuel n e s' h => c01r_xor cfg h0 _ hc fuel _ c01q_fresh_wellFormed n e s' h⟩
  · obtain ⟨-, hr, hk, -⟩ := c01r_closed_world cfg h0 Garith.root hc fuel
    exact ⟨hr, hk 0 _ (by rw [henv]; rfl), hk 1 _ (by rw [henv]; rfl), hk 2 _ (by rw [henv]; rfl)⟩
  · exact c01r_terminates rxAll C02UNV.arithCert cfg h0 Garith.root hc (by rw [henv]; exact C02UNV.wfT_arith)
      (rxSound_all cfg.params)

/-! ### TESTS (evaluated by the compiler — not proofs): the translated program, terminals included, RUNS -/

namespace CWT

/-- translated `Parse` over `gWorldT` vs. the model's `parse`: same node, same error, same call count (or both out of fuel) -/
def sameAnswerT (cfg : Cfg) (root : G) (fuel : Nat) : Bool :=
  match Parse (gWorldT cfg root fuel) rootH exState, parse cfg fuel root with
  | .ok (n, e) s', some po =>
    CW.flat n == CW.flat (eRes po.res) && decide (e = eParseErr po.err) && decide (s'.callCount = (po.st.calls : Int))
  | .nofuel, none => true
  | _, _ => false

def answersNodeT (cfg : Cfg) (root : G) (fuel : Nat) : Bool :=
  match Parse (gWorldT cfg root fuel) rootH exState with
  | .ok (n, e) _ => !n.isNil && e.isNil
  | _ => false

def answersErrT (cfg : Cfg) (root : G) (fuel : Nat) : Bool :=
  match Parse (gWorldT cfg root fuel) rootH exState with
  | .ok (n, e) _ => n.isNil && !e.isNil
  | _ => false

end CWT

-- "1+2*3": a tree; " ( 1 + 2 ) * 3 ": a tree; "1+": an error; "1.5": an error (Integer refuses a float); fuel 10: out of fuel
#guard CWT.answersNodeT (CW.arithCfg [49, 43, 50, 42, 51]) Garith.root 200
#guard CWT.sameAnswerT (CW.arithCfg [49, 43, 50, 42, 51]) Garith.root 200
#guard CWT.answersNodeT (CW.arithCfg [32, 40, 32, 49, 32, 43, 32, 50, 32, 41, 32, 42, 32, 51, 32]) Garith.root 300
#guard CWT.sameAnswerT (CW.arithCfg [32, 40, 32, 49, 32, 43, 32, 50, 32, 41, 32, 42, 32, 51, 32]) Garith.root 300
#guard CWT.answersErrT (CW.arithCfg [49, 43]) Garith.root 200
#guard CWT.sameAnswerT (CW.arithCfg [49, 43]) Garith.root 200
#guard CWT.answersErrT (CW.arithCfg [49, 46, 53]) Garith.root 200
#guard CWT.sameAnswerT (CW.arithCfg [49, 46, 53]) Garith.root 200
#guard CWT.sameAnswerT (CW.arithCfg [49, 43, 50, 42, 51]) Garith.root 10

end PV
