/-
  C01 — Parse results equal the grammar's derivations, including left recursion.

  Model: ParsleyVerif/Model/Run.lean (`run`: Memoize with result cache, left-recursion contexts and
  curtailment; Any / Choice; the Sequence family; Optional, Name, …).  Specification:
  ParsleyVerif/Spec/Derives.lean (`Derives cfg g pos x`: the declarative meaning of the combinators,
  with no cache, context, curtailment, fuel or evaluation order) and ParsleyVerif/Spec/Core.lean
  (`Node.WF`: nested, contiguous spans inside the file).

  Proved here, for EVERY grammar over the combinator set (direct, indirect, hidden left recursion,
  cyclic and nullable rules, ambiguity — no well-formedness hypothesis is needed for this half), every
  input, every left-recursion context, every fuel, and every cache state that a parse can reach:

  * `c01_sound`        every returned tree is a derivation of the parser at the call position;
  * `c01_spans`        every returned tree starts at the call position, its children are contiguous and
                       nested, it lies within the file, and its leaves spell exactly the consumed input;
  * `c01_cache_sound`  the cache only ever holds derivations (so results handed out again on a hit are
                       derivations too — the invariant behind `c01_sound`).

  COMPLETENESS is proved in Props/C01C.lean for the monotone fragment {term, empty, ref, memo, any, seqOf,
  optional}: `c01_complete_ends` (every reachable end position is returned), `c01_complete_trees` (every
  tree, for acyclic grammars), `c01_ends_exact` / `c01_trees_exact` (iff), via the reuse invariant
  `c01_reuse_complete` (cache reuse and curtailing sets never lose a curtailed derivation) and the cut
  argument `c01_curtailed_covers`.  Outside that fragment (Choice, Many, SepBy, SeqTry, SeqFirstOrAll:
  first-match / longest-path; Name / Single over Optional: known finding D9) completeness is decided on
  every run by the derivation oracle of the harness (an independent least-fixpoint table over
  (sub-term, start, end) computed in Go) — bounded exploration, named so in the evidence.
-/
import ParsleyVerif.Proofs.RunSound
import ParsleyVerif.Proofs.Spell
import ParsleyVerif.Generated.Facts
import ParsleyVerif.Proofs.FactsTie
namespace PV
open PV.Text

/-- **C01 soundness.**  `bodyOf` records which parser each Memoize index wraps (each `Memoize` call
    draws a fresh index, so an index never wraps two parsers). -/
theorem c01_sound (cfg : Cfg) (bodyOf : Nat → G) (henv : ∀ g' ∈ cfg.env, GOK bodyOf g')
    (fuel : Nat) (g : G) (ctx : Ctx) (pos : Nat) (st : St) (o : Out) (st' : St)
    (hg : GOK bodyOf g) (hst : CacheSound cfg bodyOf st) (h : run cfg fuel g ctx pos st = some (o, st')) :
    ∀ x ∈ o.res.alts, Derives cfg g pos x :=
  (run_sound cfg bodyOf henv fuel g ctx pos st o st' hg hst h).1

/-- the cache invariant is preserved by every call and holds of the empty cache -/
theorem c01_cache_sound (cfg : Cfg) (bodyOf : Nat → G) (henv : ∀ g' ∈ cfg.env, GOK bodyOf g')
    (fuel : Nat) (g : G) (ctx : Ctx) (pos : Nat) (st : St) (o : Out) (st' : St)
    (hg : GOK bodyOf g) (hst : CacheSound cfg bodyOf st) (h : run cfg fuel g ctx pos st = some (o, st')) :
    CacheSound cfg bodyOf st' ∧ CacheSound cfg bodyOf {} :=
  ⟨(run_sound cfg bodyOf henv fuel g ctx pos st o st' hg hst h).2, by intro e he; cases he⟩

/-- soundness of `parsley.Parse` from a fresh context -/
theorem c01_sound_parse (cfg : Cfg) (bodyOf : Nat → G) (henv : ∀ g' ∈ cfg.env, GOK bodyOf g')
    (fuel : Nat) (g : G) (hg : GOK bodyOf g) (p : ParseOut) (h : parse cfg fuel g = some p) :
    ∀ x ∈ p.res.alts, Derives cfg g (cfg.file.pos 0) x := by
  cases hr : run cfg fuel g [] (cfg.file.pos 0) {} with
  | none => simp [parse, hr] at h
  | some r =>
    obtain ⟨o, st1⟩ := r
    have hs := c01_sound cfg bodyOf henv fuel g [] _ {} o st1 hg (by intro e he; cases he) hr
    simp only [parse, hr] at h
    split at h
    · cases h; intro x hx; cases hx
    · cases h; exact hs

/-- **C01 spans.**  Every returned tree starts at the call position, is well formed (children contiguous:
    each starts where its predecessor ended; spans nested; nothing beyond the end of the file) and its
    leaves spell exactly the input between its start and its end.  `Scope` = no trims, terminals behave
    (`TermGood`, proved of the built-in terminals by C08). -/
theorem c01_spans (cfg : Cfg) (g : G) (hs : Scope cfg g) (fuel : Nat) (ctx : Ctx) (pos : Nat) (st : St) (o : Out)
    (st' : St) (hpre : Pre cfg ctx pos st) (h : run cfg fuel g ctx pos st = some (o, st')) :
    ∀ x ∈ o.res.alts, x.pos = pos ∧ x.WF cfg.hi ∧ pos ≤ x.rpos ∧ x.rpos ≤ cfg.hi ∧
      x.spell cfg.file = slice cfg.file pos x.rpos := by
  intro x hx
  have hp := (run_pos cfg hs.env fuel g ctx pos st o st' hs.root hpre h).nodes x hx
  have hb := Node.WF_bounds cfg.hi x hp.2
  refine ⟨hp.1, hp.2, by omega, hb.2, ?_⟩
  rw [Node.spell_eq cfg.file cfg.hi x (by rw [hp.1]; exact hpre.1.1) hp.2, hp.1]

/-- the preconditions of `c01_spans` hold at the start of every parse -/
theorem c01_pre_initial (cfg : Cfg) : Pre cfg [] (cfg.file.pos 0) {} := by
  refine ⟨⟨by simp [File.pos], by simp [File.pos]⟩, ⟨(by intro e he; cases he), (by intro er her; cases her), (by intro i p d hm; cases hm)⟩, ?_⟩
  exact ⟨(by intro a ha; cases ha), (by intro k; simp [actCount, Ctx.get])⟩

/-- errors, too, are positioned between the call position and the end of the file -/
theorem c01_error_positions (cfg : Cfg) (g : G) (hs : Scope cfg g) (fuel : Nat) (ctx : Ctx) (pos : Nat) (st : St)
    (o : Out) (st' : St) (hpre : Pre cfg ctx pos st) (h : run cfg fuel g ctx pos st = some (o, st')) :
    (∀ e, o.err = some e → pos ≤ e.pos ∧ e.pos ≤ cfg.hi) ∧
    (∀ e, st'.ctxErr = some e → cfg.file.offset ≤ e.pos ∧ e.pos ≤ cfg.hi) :=
  ⟨(run_pos cfg hs.env fuel g ctx pos st o st' hs.root hpre h).err,
   (run_pos cfg hs.env fuel g ctx pos st o st' hs.root hpre h).stOK.ctxErr⟩

/-! ### what the derivation relation says (so that soundness is not vacuous) -/

theorem c01_derives_any (cfg : Cfg) (gs : List G) (pos : Nat) (x : Node) :
    Derives cfg (.any gs) pos x ↔ ∃ g ∈ gs, Derives cfg g pos x := by
  constructor
  · intro h; cases h with
    | any hm hd => exact ⟨_, hm, hd⟩
    | seqfam hs _ _ => simp [G.shape] at hs
  · rintro ⟨g, hm, hd⟩; exact .any hm hd

theorem c01_derives_optional (cfg : Cfg) (g : G) (pos : Nat) (x : Node) :
    Derives cfg (.optional g) pos x ↔ Derives cfg g pos x ∨ x = .empty pos := by
  constructor
  · intro h; cases h with
    | optSome hd => exact .inl hd
    | optNone => exact .inr rfl
    | seqfam hs _ _ => simp [G.shape] at hs
  · rintro (hd | rfl)
    · exact .optSome hd
    · exact .optNone

theorem c01_derives_memo (cfg : Cfg) (i : Nat) (g : G) (pos : Nat) (x : Node) :
    Derives cfg (.memo i g) pos x ↔ Derives cfg g pos x := by
  constructor
  · intro h; cases h with
    | memo hd => exact hd
    | seqfam hs _ _ => simp [G.shape] at hs
  · exact .memo

theorem c01_derives_ref (cfg : Cfg) (k : Nat) (pos : Nat) (x : Node) :
    Derives cfg (.ref k) pos x ↔ ∃ g, cfg.env[k]? = some g ∧ Derives cfg g pos x := by
  constructor
  · intro h; cases h with
    | ref hk hd => exact ⟨_, hk, hd⟩
    | seqfam hs _ _ => simp [G.shape] at hs
  · rintro ⟨g, hk, hd⟩; exact .ref hk hd

/-- a SeqOf derives exactly the trees built from one derivation per element, each starting where the
    previous one ended -/
theorem c01_derives_seqOf (cfg : Cfg) (gs : List G) (o : SeqOpts) (pos : Nat) (x : Node) :
    Derives cfg (.seq .seqOf gs o) pos x ↔
      ∃ sh nodes, (G.seq .seqOf gs o).shape = some sh ∧ DerivesSeq cfg sh 0 pos nodes ∧ nodes.length = gs.length ∧
        x = handleResult sh pos nodes := by
  constructor
  · intro h
    cases h with
    | seqfam hs hd hl =>
      rename_i sh nodes
      refine ⟨sh, nodes, hs, hd, ?_, rfl⟩
      simp only [G.shape, Option.some.injEq] at hs
      subst hs
      simpa using hl
  · rintro ⟨sh, nodes, hs, hd, hl, rfl⟩
    refine .seqfam hs hd ?_
    simp only [G.shape, Option.some.injEq] at hs
    subst hs
    simpa using hl

/-- non-vacuity: the left-recursive grammar `P → P b | a` (as the suite's main_test.go builds it, with
    Memoize around `P`) derives the left-nested tree of "abb" -/
def nvEnv : List G :=
  [.memo 0 (.any [.seq .seqOf [.ref 0, .term (.rune 98 [34, 98, 34])] {}, .term (.rune 97 [34, 97, 34])])]
def nvCfg : Cfg :=
  { env := nvEnv, file := { name := "f", data := [97, 98, 98], offset := 1 }, fileSet := {},
    params := { floatOk := fun _ => true, durErr := fun _ => none, regexp := fun _ _ => none } }
def nvA : Node := .term [97] (.rune 97) 1 2
def nvAB : Node := .nt seqTok [nvA, .term [98] (.rune 98) 2 3] 1 3 .none
def nvABB : Node := .nt seqTok [nvAB, .term [98] (.rune 98) 3 4] 1 4 .none

example : ∀ g' ∈ nvCfg.env, GOK (fun _ => (.any [.seq .seqOf [.ref 0, .term (.rune 98 [34, 98, 34])] {}, .term (.rune 97 [34, 97, 34])])) g' := by
  intro g' hg'
  simp only [nvCfg, nvEnv, List.mem_singleton] at hg'
  subst hg'
  simp [GOK, G.All, AllList, LocalOK]

example : Derives nvCfg (.ref 0) 1 nvABB := by
  have hA : Derives nvCfg (.ref 0) 1 nvA :=
    .ref (g := nvEnv[0]) rfl (.memo (.any (g := .term (.rune 97 [34, 97, 34])) (by simp) (.term rfl)))
  have step : ∀ (x : Node) (e : Nat) (he : x.rpos = e) (y : Node),
      Terminal.parse nvCfg.params nvCfg.file (.rune 98 [34, 98, 34]) e = .node y →
      Derives nvCfg (.ref 0) 1 x → Derives nvCfg (.ref 0) 1 (handleResult
        { lookup := fun i => [G.ref 0, .term (.rune 98 [34, 98, 34])][i]?, lenCheck := fun len => len == 2,
          token := seqTok, interp := .none, single := false, name := none } 1 [x, y]) := by
    intro x e he y hy hx
    refine .ref (g := nvEnv[0]) rfl (.memo (.any (g := .seq .seqOf [.ref 0, .term (.rune 98 [34, 98, 34])] {}) (by simp) ?_))
    refine .seqfam rfl (.cons rfl hx (.cons rfl (by rw [he]; exact .term hy) .nil)) rfl
  have hAB := step nvA 2 rfl (.term [98] (.rune 98) 2 3) rfl hA
  exact step nvAB 3 rfl (.term [98] (.rune 98) 3 4) rfl hAB

/-- and the model really returns it (all three prefixes, longest first, left-nested), by evaluation -/
example : ((run nvCfg 40 (.ref 0) [] 1 {}).map (fun r => r.1.res.alts.map Node.rpos)) = some [4, 3, 2] := by
  decide

/-- **the decision expressions of the parser core are the ones in the source**: `factgen -out-fn` TRANSLATES the Go
    expressions (lenCheck of the five sequence kinds, SepBy's value/separator test) into Lean functions on every run
    (Generated/FactsFn.lean), and the model's definitions are proved equal to them — a semantically different expression
    breaks this theorem, a harmless rewrite does not.  (The curtailment test of Memoize, the reuse test of the result cache
    and the context-reset test of the sequence were three more conjuncts, each found by the text of the `if` it stood in;
    they are subsumed by the translation of the whole functions — Props/C01P.lean `c01_translated_core`,
    `c01p_context_cache_append`, `c01p_sequence_machinery`, built and audited with this property — which a restructuring
    of those functions does not break.) -/
theorem c01_translated_conditions :
    FactsFn.untranslated = [] ∧
    (∀ gs o sh, (G.seq .seqOf gs o).shape = some sh → ∀ len, sh.lenCheck len = FactsFn.lenCheckSeqOf len gs.length) ∧
    (∀ gs o sh, (G.seq .seqTry gs o).shape = some sh → ∀ len, sh.lenCheck len = FactsFn.lenCheckSeqTry len gs.length) ∧
    (∀ gs o sh, (G.seq .seqFirstOrAll gs o).shape = some sh → ∀ len, sh.lenCheck len = FactsFn.lenCheckSeqFirstOrAll len gs.length) ∧
    (∀ g ae o sh, (G.many g ae o).shape = some sh → ∀ len, sh.lenCheck len = FactsFn.lenCheckMany ae len) ∧
    (∀ v s ae o sh, (G.sepBy v s ae o).shape = some sh → ∀ len, sh.lenCheck len = FactsFn.lenCheckSepBy ae len) ∧
    (∀ v s ae o sh, (G.sepBy v s ae o).shape = some sh → ∀ i, sh.lookup i = some (if FactsFn.sepByIsValue i then v else s)) :=
  ⟨tie_untranslated, tie_lenCheck_seqOf, tie_lenCheck_seqTry, tie_lenCheck_seqFirstOrAll, tie_lenCheck_many,
   tie_lenCheck_sepBy, tie_sepBy_lookup⟩

/-- the structural facts that are not expressions (statement order of Memoize, what is stored as the entry's
    context, which keys the reuse test ranges over, what the reset does) are compared as normalised source text -/
/- (the text facts that stood here - condition lists and statement orders of Memoize, ResultCache, Any, Choice, the Sequence
   machinery, ReturnError, SetError, Parse, re-read from the source as normalised text - are subsumed since translator v3: the
   functions themselves are translated from the source on every run and the model is PROVED to agree with the translation
   (Props/C01P.lean, built and audited by this property's check).  Unlike a text comparison, that tie is not broken by an
   equivalent rewrite of the source.) -/
theorem c01_facts : Facts.curtailSlack = 1 := rfl

/-
  **C01 completeness — the statement as first written; now proved for the monotone fragment in Props/C01C.lean
  (`c01_complete_ends`, `c01_complete_trees`), still open for the non-monotone operators:**

    theorem c01_complete_STATEMENT (cfg) (g) (wf : WF cert cfg.env g) (monotone g)
        (h : run cfg fuel g [] pos {} = some (o, st')) (e : Nat) :
        (∃ x, Derives cfg g pos x ∧ x.rpos = e) → ∃ y ∈ o.res.alts, y.rpos = e

  (every reachable end position is returned; and every distinct tree when there are finitely many).
  The proof needs the Frost–Hafiz–Callaghan admissibility invariant over the cache (DESIGN.md §6 C01); it
  is the open proof obligation of this property and the evidence says so.
-/

end PV
