/-
  C17B — closed forms of the call count for the families of C17 that had only bounded checks (or none).

  Proofs: ParsleyVerif/Proofs/CallsSpine.lean (steps shared by the left-recursive families, for any
  configuration whose file sits at base offset 1), CallsHidden.lean, CallsMutual.lean, CallsPbPc.lean,
  CallsArith.lean (the run of the arithmetic family), CallsArithCount.lean (its counting), CallsArithInput.lean
  (its inputs), CallsArithDouble.lean (lower bound, doubling), CallsArith2*.lean (the same for family 8).

  THEOREMS FOR ALL n (inductions over the left spines of the run, not evaluations):
  * `c17_closed_hidden`, `c17_closed_hidden_all`, `c17_hidden_famCalls` — family 4 (`P → x? P b | a` under Sentence,
    input `a b^(n-1)`): the parse succeeds and makes EXACTLY (n² + 11n + 20)/2 calls, for EVERY n ≥ 1.
  * `c17_closed_mutual`, `c17_closed_mutual_all`, `c17_mutual_famCalls` — family 3 (`A → B a | x ; B → A b | y` under
    Sentence, input `x (ba)^k`): the parse succeeds and makes EXACTLY 3k² + 18k + 22 calls, for EVERY k.
  * `c17_closed_PbPcA`, `c17_closed_PbPcA_all` — family 7 (`P → P b | P c | a`, input `a c b c b …` of length n): EXACTLY
    n² + 8n + 12 calls for odd n, n² + 8n + 11 + n/2 for even n, for EVERY n ≥ 1 (the second alternative reads the
    inner activation's result from the cache).
  * `c17_closed_arith`, `c17_closed_arith_all`, `c17_arCalls`, `c17_quadratic_arith`, `c17_arith_harness` — family 2
    (expr/term/factor) on EVERY input `1 o₁ 1 … o_k 1` with operators in {*, +}: the parse succeeds with EXACTLY
    `arCalls ops` calls (an explicit sum over the terms of the input), at most (2k+3)(9k+11) + 2 ≤ 5 (n+2)², n = 2k+1;
    the harness's input of every length parameter is such an input (`c17_arith_harness`).
  * `c17_double_hidden`, `c17_double_mutual`, `c17_double_PbPcA` (+ `_parse`) — doubling the input length multiplies the
    counts of families 4, 3, 7 by at most 4 (≤ 16), for every n.

  BOUNDED (kernel evaluation of the PROVED closed form, which the kernel can evaluate although it cannot evaluate
  the model on this family): `c17_arith_pinned` — the counts of family 2 at the suite's lengths 5 … 128 and the
  doubling ratio ≤ 16 on every pair (n, 2n) of them.

  * `c17_arith_lower`, `c17_double_arith`, `c17_double_arith_harness` — family 2: 8·calls ≥ 36k² + 85k + 51, hence an
    input with at most 2k+1 operators makes at most 16 times the calls of ANY input with k operators; in particular
    the run on the harness's input of length parameter 2n makes at most 16 times the calls of the run on the input of
    length parameter n, for EVERY n (Proofs/CallsArithDouble.lean; uses Mathlib's `nlinarith`).

  * `c17_closed_arith2`, `c17_closed_arith2_all`, `c17_arCalls2`, `c17_quadratic_arith2`, `c17_double_arith2`,
    `c17_arith2_harness`, `c17_double_arith2_harness` — family 8 ("arith2": two operators per level) on EVERY input
    `1 o₁ 1 … o_k 1` with operators in {+, -, *, /}: the parse succeeds; `arCalls2 ops` calls in the spine of `E`
    (exact, explicit), plus 1 + (the position of the spanning alternative, between 1 and k+1) for Sentence; at most
    (2k+3)(13k+17) + k + 2 ≤ 7 (n+2)²; doubling ≤ 16 for every pair of inputs and for the harness's inputs of EVERY
    length parameter (Proofs/CallsArith2.lean, CallsArith2Count.lean, CallsArith2Input.lean).

  NOT PROVED: the exact position of the spanning alternative in family 8 (so its count is pinned to a window of
  width k, not to a value) and the general statement `c17_calls_bound_STATEMENT` of Props/C17.lean.
-/
import ParsleyVerif.Props.C17
import ParsleyVerif.Proofs.CallsHidden
import ParsleyVerif.Proofs.CallsMutual
import ParsleyVerif.Proofs.CallsPbPc
import ParsleyVerif.Proofs.CallsArithInput
import ParsleyVerif.Proofs.CallsArithDouble
import ParsleyVerif.Proofs.CallsArith2Input
namespace PV
open PV.Text PV.C17 PV.C17b

/-! ## family 4: hidden left recursion `P → x? P b | a` -/

/-- family 4 as the harness builds it (harness/cmd/corr/c17.go) — the configuration of the bounded check
    `c17_hidden_upto` — grammar table, file `a b^(n-1)` at base offset 1 -/
theorem c17_hidCfg (n : Nat) :
    hidCfg n = famCfg hiddenEnv (hiddenInput n) ∧
    (hidCfg n).env = [.memo 0 (.any [.seq .seqOf [.optional (.term (.rune 120 [34, 120, 34])), .ref 0,
                                                  .term (.rune 98 [34, 98, 34])] {},
                                      .term (.rune 97 [34, 97, 34])])] ∧
    (hidCfg n).file.data = 97 :: List.replicate (n - 1) 98 ∧ (hidCfg n).file.offset = 1 ∧
    (hidCfg n).maxCalls = 0 :=
  ⟨rfl, rfl, rfl, rfl, rfl⟩

/-- **THEOREM (all n ≥ 1)**: `Sentence(P)` on `a b^(n-1)` succeeds with exactly (n² + 11n + 20)/2 calls -/
theorem c17_closed_hidden (n : Nat) (hn : 1 ≤ n) :
    ∃ fuel p, parse (hidCfg n) fuel (G.sentence (.ref 0)) = some p ∧ p.err = none ∧
      p.st.calls = (n * n + 11 * n + 20) / 2 := by
  obtain ⟨p, h1, h2, _, h4⟩ := hid_parse (hidCfg_is n) hn
  exact ⟨5 * n + 17, p, h1, h2, h4⟩

/-- … for every fuel that answers, and for every configuration with this grammar table and this file (any
    ghost flag, file set, terminal parameters); the result is not nil -/
theorem c17_closed_hidden_all (n : Nat) (hn : 1 ≤ n) (cfg : Cfg) (hc : IsHid n cfg) (fuel : Nat) (p : ParseOut)
    (h : parse cfg fuel (G.sentence (.ref 0)) = some p) :
    p.err = none ∧ p.res.isNil = false ∧ p.st.calls = hidCalls n := by
  obtain ⟨q, h1, h2, h3, h4⟩ := hid_parse hc hn
  rw [c17_det_full cfg fuel (5 * n + 17) _ p q h h1]
  exact ⟨h2, h3, h4⟩

theorem c17_hidCalls (n : Nat) : hidCalls n = (n * n + 11 * n + 20) / 2 := rfl

/-- the count reported by the bounded check's evaluator, for every n ≥ 1 and every fuel that answers -/
theorem c17_hidden_famCalls (n : Nat) (hn : 1 ≤ n) (fuel : Nat) (r : Nat × Bool)
    (h : famCalls hiddenEnv (hiddenInput n) fuel = some r) : r = ((n * n + 11 * n + 20) / 2, true) := by
  unfold famCalls at h
  cases hp : parse (famCfg hiddenEnv (hiddenInput n)) fuel (G.sentence (.ref 0)) with
  | none => rw [hp] at h; cases h
  | some p =>
    rw [hp] at h
    obtain ⟨a, _, c⟩ := c17_closed_hidden_all n hn (hidCfg n) (hidCfg_is n) fuel p hp
    cases h
    show (p.st.calls, p.err.isNone) = _
    rw [a, c]; rfl

/-- **doubling** (all n): on the closed form, at most 4 times the calls -/
theorem c17_double_hidden (n : Nat) : hidCalls (2 * n) ≤ 4 * hidCalls n ∧ hidCalls (2 * n) ≤ 16 * hidCalls n := by
  have e : (2 * n) * (2 * n) = 4 * (n * n) := by rw [Nat.mul_mul_mul_comm]
  unfold hidCalls
  rw [e]
  generalize n * n = q
  omega

/-- the closed form is quadratic: at most 16 n² for n ≥ 1 -/
theorem c17_quadratic_hidden (n : Nat) (hn : 1 ≤ n) : hidCalls n ≤ 16 * (n * n) := by
  have : n ≤ n * n := Nat.le_mul_self n
  unfold hidCalls
  generalize n * n = q at *
  omega

/-- … connected to the runs -/
theorem c17_double_hidden_parse (n : Nat) (hn : 1 ≤ n) (f1 f2 : Nat) (p1 p2 : ParseOut)
    (h1 : parse (hidCfg n) f1 (G.sentence (.ref 0)) = some p1)
    (h2 : parse (hidCfg (2 * n)) f2 (G.sentence (.ref 0)) = some p2) :
    p2.st.calls ≤ 4 * p1.st.calls ∧ p2.st.calls ≤ 16 * p1.st.calls := by
  rw [(c17_closed_hidden_all n hn _ (hidCfg_is n) f1 p1 h1).2.2,
    (c17_closed_hidden_all (2 * n) (by omega) _ (hidCfg_is (2 * n)) f2 p2 h2).2.2]
  exact c17_double_hidden n

/-! ## family 3: the mutually left-recursive pair `A → B a | x ; B → A b | y` -/

/-- family 3 as the harness builds it — the configuration of the bounded check `c17_mutual_upto` -/
theorem c17_mutCfg (k : Nat) :
    mutCfg k = famCfg mutualEnv (mutualInput k) ∧
    (mutCfg k).env = [.memo 0 (.any [.seq .seqOf [.ref 1, .term (.rune 97 [34, 97, 34])] {}, .term (.rune 120 [34, 120, 34])]),
                      .memo 1 (.any [.seq .seqOf [.ref 0, .term (.rune 98 [34, 98, 34])] {}, .term (.rune 121 [34, 121, 34])])] ∧
    (mutCfg k).file.data = 120 :: (List.replicate k [98, 97]).flatten ∧ (mutCfg k).file.offset = 1 ∧
    (mutCfg k).maxCalls = 0 :=
  ⟨rfl, rfl, rfl, rfl, rfl⟩

/-- **THEOREM (all k)**: `Sentence(A)` on `x (ba)^k` succeeds with exactly 3k² + 18k + 22 calls -/
theorem c17_closed_mutual (k : Nat) :
    ∃ fuel p, parse (mutCfg k) fuel (G.sentence (.ref 0)) = some p ∧ p.err = none ∧
      p.st.calls = 3 * k * k + 18 * k + 22 := by
  obtain ⟨p, h1, h2, _, h4⟩ := mut_parse (mutCfg_is k)
  exact ⟨16 * k + 30, p, h1, h2, h4⟩

theorem c17_closed_mutual_all (k : Nat) (cfg : Cfg) (hc : IsMut k cfg) (fuel : Nat) (p : ParseOut)
    (h : parse cfg fuel (G.sentence (.ref 0)) = some p) :
    p.err = none ∧ p.res.isNil = false ∧ p.st.calls = mutCalls k := by
  obtain ⟨q, h1, h2, h3, h4⟩ := mut_parse hc
  rw [c17_det_full cfg fuel (16 * k + 30) _ p q h h1]
  exact ⟨h2, h3, h4⟩

theorem c17_mutCalls (k : Nat) : mutCalls k = 3 * k * k + 18 * k + 22 := rfl

theorem c17_mutual_famCalls (k : Nat) (fuel : Nat) (r : Nat × Bool)
    (h : famCalls mutualEnv (mutualInput k) fuel = some r) : r = (3 * k * k + 18 * k + 22, true) := by
  unfold famCalls at h
  cases hp : parse (famCfg mutualEnv (mutualInput k)) fuel (G.sentence (.ref 0)) with
  | none => rw [hp] at h; cases h
  | some p =>
    rw [hp] at h
    obtain ⟨a, _, c⟩ := c17_closed_mutual_all k (mutCfg k) (mutCfg_is k) fuel p hp
    cases h
    show (p.st.calls, p.err.isNone) = _
    rw [a, c]; rfl

/-- **doubling**: the harness's input of length parameter `n` has `k = (n-1)/2` pairs `ba`; the input of length
    parameter `2n` has `(2n-1)/2` pairs; at most 4 times the calls (all n ≥ 1) -/
theorem c17_double_mutual (n : Nat) (hn : 1 ≤ n) :
    mutCalls ((2 * n - 1) / 2) ≤ 4 * mutCalls ((n - 1) / 2) ∧ mutCalls ((2 * n - 1) / 2) ≤ 16 * mutCalls ((n - 1) / 2) := by
  -- (2n-1)/2 = n-1 ≤ 2·((n-1)/2) + 1
  have key : ∀ j : Nat, mutCalls (2 * j + 1) ≤ 4 * mutCalls j := by
    intro j
    unfold mutCalls
    have e1 : 3 * (2 * j + 1) * (2 * j + 1) = 12 * (j * j) + 12 * j + 3 := by
      rw [Nat.mul_assoc, Nat.add_mul, Nat.mul_add, Nat.mul_add, Nat.mul_mul_mul_comm]; omega
    have e2 : 3 * j * j = 3 * (j * j) := Nat.mul_assoc 3 j j
    rw [e1, e2]
    generalize j * j = q
    omega
  have mono : ∀ a b : Nat, a ≤ b → mutCalls a ≤ mutCalls b := by
    intro a b hab
    unfold mutCalls
    have : 3 * a * a ≤ 3 * b * b := Nat.mul_le_mul (Nat.mul_le_mul_left 3 hab) hab
    omega
  have h1 : mutCalls ((2 * n - 1) / 2) ≤ 4 * mutCalls ((n - 1) / 2) :=
    Nat.le_trans (mono _ (2 * ((n - 1) / 2) + 1) (by omega)) (key _)
  exact ⟨h1, by omega⟩

theorem c17_double_mutual_parse (n : Nat) (hn : 1 ≤ n) (f1 f2 : Nat) (p1 p2 : ParseOut)
    (h1 : parse (mutCfg ((n - 1) / 2)) f1 (G.sentence (.ref 0)) = some p1)
    (h2 : parse (mutCfg ((2 * n - 1) / 2)) f2 (G.sentence (.ref 0)) = some p2) :
    p2.st.calls ≤ 4 * p1.st.calls ∧ p2.st.calls ≤ 16 * p1.st.calls := by
  rw [(c17_closed_mutual_all _ _ (mutCfg_is _) f1 p1 h1).2.2, (c17_closed_mutual_all _ _ (mutCfg_is _) f2 p2 h2).2.2]
  exact c17_double_mutual n hn

/-! ## family 7: two left-recursive alternatives in one rule, `P → P b | P c | a` -/

/-- family 7 as the harness builds it (harness/cmd/corr/c17.go, "PbPcA"): grammar table, file `a` followed by
    `"bc"[i%2]` for i = 1 … n-1 (`a c b c b …`) at base offset 1 -/
theorem c17_pbpcCfg (n : Nat) :
    (pbpcCfg n).env = [.memo 0 (.any [.seq .seqOf [.ref 0, .term (.rune 98 [34, 98, 34])] {},
                                       .seq .seqOf [.ref 0, .term (.rune 99 [34, 99, 34])] {},
                                       .term (.rune 97 [34, 97, 34])])] ∧
    (pbpcCfg n).file.data = 97 :: (List.range' 1 (n - 1)).map (fun i => if i % 2 = 0 then 98 else 99) ∧
    (pbpcCfg n).file.offset = 1 ∧ (pbpcCfg n).maxCalls = 0 ∧ (pbpcCfg n).ghost = false :=
  ⟨rfl, rfl, rfl, rfl, rfl⟩

/-- **THEOREM (all n ≥ 1)**: `Sentence(P)` on `a c b c b …` (length n) succeeds with exactly
    n² + 8n + 12 calls for odd n and n² + 8n + 11 + n/2 calls for even n.  (In every activation the second
    alternative `P c` reads the inner activation's result from the cache; for even n Sentence tries `End`
    after the n/2 - 1 prefixes ending in `b` before it reaches the one that spans the input.) -/
theorem c17_closed_PbPcA (n : Nat) (hn : 1 ≤ n) :
    ∃ fuel p, parse (pbpcCfg n) fuel (G.sentence (.ref 0)) = some p ∧ p.err = none ∧
      p.st.calls = n * n + 8 * n + 12 + (if n % 2 = 0 then n / 2 - 1 else 0) := by
  obtain ⟨p, h1, h2, _, h4⟩ := pbpc_parse (pbpcCfg_is n) hn
  exact ⟨4 * n + 14, p, h1, h2, h4⟩

theorem c17_closed_PbPcA_all (n : Nat) (hn : 1 ≤ n) (cfg : Cfg) (hc : IsPbPc n cfg) (fuel : Nat) (p : ParseOut)
    (h : parse cfg fuel (G.sentence (.ref 0)) = some p) :
    p.err = none ∧ p.res.isNil = false ∧ p.st.calls = pbpcCalls n := by
  obtain ⟨q, h1, h2, h3, h4⟩ := pbpc_parse hc hn
  rw [c17_det_full cfg fuel (4 * n + 14) _ p q h h1]
  exact ⟨h2, h3, h4⟩

theorem c17_pbpcCalls (n : Nat) :
    pbpcCalls n = n * n + 8 * n + 12 + (if n % 2 = 0 then n / 2 - 1 else 0) := rfl

/-- **doubling** (all n ≥ 1): at most 4 times the calls -/
theorem c17_double_PbPcA (n : Nat) (hn : 1 ≤ n) :
    pbpcCalls (2 * n) ≤ 4 * pbpcCalls n ∧ pbpcCalls (2 * n) ≤ 16 * pbpcCalls n := by
  have e : (2 * n) * (2 * n) = 4 * (n * n) := by rw [Nat.mul_mul_mul_comm]
  have h2 : (2 * n) % 2 = 0 := by omega
  unfold pbpcCalls
  rw [e]
  simp only [h2, ↓reduceIte]
  generalize n * n = q
  split <;> omega

/-- the closed form is quadratic: at most 22 n² -/
theorem c17_quadratic_PbPcA (n : Nat) (hn : 1 ≤ n) : pbpcCalls n ≤ 22 * (n * n) := by
  have : n ≤ n * n := Nat.le_mul_self n
  unfold pbpcCalls
  generalize n * n = q at *
  split <;> omega

theorem c17_double_PbPcA_parse (n : Nat) (hn : 1 ≤ n) (f1 f2 : Nat) (p1 p2 : ParseOut)
    (h1 : parse (pbpcCfg n) f1 (G.sentence (.ref 0)) = some p1)
    (h2 : parse (pbpcCfg (2 * n)) f2 (G.sentence (.ref 0)) = some p2) :
    p2.st.calls ≤ 4 * p1.st.calls ∧ p2.st.calls ≤ 16 * p1.st.calls := by
  rw [(c17_closed_PbPcA_all n hn _ (pbpcCfg_is n) f1 p1 h1).2.2,
    (c17_closed_PbPcA_all (2 * n) (by omega) _ (pbpcCfg_is (2 * n)) f2 p2 h2).2.2]
  exact c17_double_PbPcA n hn

/-! ## family 2: arithmetic `expr → expr + term | term ; term → term * factor | factor ; factor → 1 | ( expr )` -/

/-- family 2 as the harness builds it, on the input `1 o₁ 1 … o_k 1` for an arbitrary operator string `ops` -/
theorem c17_arCfg (ops : List Nat) :
    arCfg ops = famCfg arithEnv (arData ops) ∧
    (arCfg ops).env = [
      .memo 0 (.any [.seq .seqOf [.ref 0, .term (.rune 43 [34, 43, 34]), .ref 1] {}, .ref 1]),
      .memo 1 (.any [.seq .seqOf [.ref 1, .term (.rune 42 [34, 42, 34]), .ref 2] {}, .ref 2]),
      .any [.term (.rune 49 [34, 49, 34]),
            .seq .seqOf [.term (.rune 40 [34, 40, 34]), .ref 0, .term (.rune 41 [34, 41, 34])] {}]] ∧
    (arCfg ops).file.data = 49 :: ops.flatMap (fun o => [o, 49]) ∧ (arCfg ops).file.offset = 1 ∧
    (arCfg ops).maxCalls = 0 :=
  ⟨rfl, rfl, rfl, rfl, rfl⟩

/-- **THEOREM (every operator string over {*, +}, every length)**: `Sentence(expr)` on `1 o₁ 1 … o_k 1` succeeds
    with EXACTLY `arCalls ops` calls — an explicit function of the operator string (`c17_arCalls`) — and that is
    at most (2k+3)(9k+11) + 2.  (The model of the run: Proofs/CallsArith.lean; every `term` behind a `+` is
    computed once — a left spine of its own — and read from the cache afterwards.) -/
theorem c17_closed_arith (ops : List Nat) (hops : ∀ o ∈ ops, o = 42 ∨ o = 43) :
    ∃ fuel p, parse (arCfg ops) fuel (G.sentence (.ref 0)) = some p ∧ p.err = none ∧
      p.st.calls = arCalls ops ∧ p.st.calls ≤ (2 * ops.length + 3) * (9 * ops.length + 11) + 2 := by
  obtain ⟨p, h1, h2, _, h4, h5⟩ := ar_ops_parse ops hops
  exact ⟨_, p, h1, h2, h4, h5⟩

/-- … for every fuel that answers -/
theorem c17_closed_arith_all (ops : List Nat) (hops : ∀ o ∈ ops, o = 42 ∨ o = 43) (fuel : Nat) (p : ParseOut)
    (h : parse (arCfg ops) fuel (G.sentence (.ref 0)) = some p) :
    p.err = none ∧ p.res.isNil = false ∧ p.st.calls = arCalls ops := by
  obtain ⟨q, h1, h2, h3, h4, _⟩ := ar_ops_parse ops hops
  rw [c17_det_full _ fuel _ _ p q h h1]
  exact ⟨h2, h3, h4⟩

/-- the count, spelled out: with the terms 0 … s of the input (the maximal runs of `*`; term `i` has `r i` stars and
    starts at position `2·pre i + 1`, `pre i = Σ_{i'<i} (r i' + 1)`), per level j < 2k+3 of the spine of `expr`:
    3 + (the ends of the first min(j, s+1) terms) + (the `+` behind them); for every term the first run of `term`
    (2k+3-2·pre i levels; level j costs 6 + min(j, r+1) + 4·min(j, r)); 2 for Sentence -/
theorem c17_arCalls (ops : List Nat) :
    arCalls ops =
      let r := rfOf (split ops)
      let s := (split ops).length - 1
      let k := ops.length
      ((List.range (2 * k + 3)).map (fun j => 3 + pre r (min j (s + 1)) + min j s)).sum +
        firstRunsX k r (s + 1) + 2 := rfl

theorem c17_arCalls_levels (r j : Nat) :
    tcLevels r (j + 1) = tcLevels r j + 6 + min j (r + 1) + 4 * min (min j (r + 1)) r := rfl

/-- **quadratic** in the length n = 2k+1 of the input: 2·calls ≤ (n+2)(9n+13) + 4, hence calls ≤ 5 (n+2)² -/
theorem c17_quadratic_arith (ops : List Nat) (hops : ∀ o ∈ ops, o = 42 ∨ o = 43) :
    2 * arCalls ops ≤ ((arData ops).length + 2) * (9 * (arData ops).length + 13) + 4 ∧
    arCalls ops ≤ 5 * (((arData ops).length + 2) * ((arData ops).length + 2)) := by
  obtain ⟨p, _, _, _, h4, h5⟩ := ar_ops_parse ops hops
  rw [h4] at h5
  rw [arData_length ops]
  generalize ops.length = k at *
  have e1 : (2 * k + 1 + 2) * (9 * (2 * k + 1) + 13) = 2 * ((2 * k + 3) * (9 * k + 11)) := by
    rw [show 9 * (2 * k + 1) + 13 = 2 * (9 * k + 11) by omega, Nat.mul_left_comm]
  have e2 : (2 * k + 3) * (9 * k + 11) = 18 * (k * k) + 49 * k + 33 := by
    rw [Nat.add_mul, Nat.mul_add, Nat.mul_add, Nat.mul_mul_mul_comm]; omega
  have e3 : (2 * k + 1 + 2) * (2 * k + 1 + 2) = 4 * (k * k) + 12 * k + 9 := by
    rw [show 2 * k + 1 + 2 = 2 * k + 3 by omega, Nat.add_mul, Nat.mul_add, Nat.mul_add, Nat.mul_mul_mul_comm]; omega
  rw [e1, e3]
  rw [e2] at h5 ⊢
  generalize k * k = q at *
  omega

/-- **the harness's inputs** (every length parameter n): the parse succeeds and makes at most 5 (len + 2)² calls,
    exactly `arCalls` of its operator string -/
theorem c17_arith_harness (n : Nat) (fuel : Nat) (p : ParseOut)
    (h : parse (famCfg arithEnv (arithInput n)) fuel (G.sentence (.ref 0)) = some p) :
    p.err = none ∧ p.res.isNil = false ∧
    p.st.calls ≤ 5 * (((arithInput n).length + 2) * ((arithInput n).length + 2)) ∧
    ∃ ops, (∀ o ∈ ops, o = 42 ∨ o = 43) ∧ arithInput n = arData ops ∧ p.st.calls = arCalls ops := by
  obtain ⟨ops, h1, h2⟩ := arithInput_eq n
  rw [h2] at h ⊢
  obtain ⟨a, b, c⟩ := c17_closed_arith_all ops h1 fuel p h
  exact ⟨a, b, by rw [c]; exact (c17_quadratic_arith ops h1).2, ops, h1, rfl, c⟩

/-- a LOWER bound of the same order: 8·calls ≥ 36k² + 85k + 51 -/
theorem c17_arith_lower (ops : List Nat) (hops : ∀ o ∈ ops, o = 42 ∨ o = 43) :
    36 * (ops.length * ops.length) + 85 * ops.length + 51 ≤ 8 * arCalls ops :=
  arCalls_ge ops hops

/-- **doubling, every pair of inputs**: an input with at most 2k+1 operators — at most twice the length of the
    other (n = 2k+1), plus one — makes at most 16 times the calls of ANY input with k operators -/
theorem c17_double_arith (ops ops' : List Nat) (hops : ∀ o ∈ ops, o = 42 ∨ o = 43) (hops' : ∀ o ∈ ops', o = 42 ∨ o = 43)
    (hk : ops'.length ≤ 2 * ops.length + 1) (f1 f2 : Nat) (p1 p2 : ParseOut)
    (h1 : parse (arCfg ops) f1 (G.sentence (.ref 0)) = some p1)
    (h2 : parse (arCfg ops') f2 (G.sentence (.ref 0)) = some p2) :
    p2.st.calls ≤ 16 * p1.st.calls := by
  rw [(c17_closed_arith_all ops hops f1 p1 h1).2.2, (c17_closed_arith_all ops' hops' f2 p2 h2).2.2]
  exact ar_double ops ops' hops hops' hk

/-- **doubling on the harness's inputs, EVERY length parameter n**: the run on `arithInput (2n)` makes at most 16
    times the calls of the run on `arithInput n` -/
theorem c17_double_arith_harness (n : Nat) (f1 f2 : Nat) (p1 p2 : ParseOut)
    (h1 : parse (famCfg arithEnv (arithInput n)) f1 (G.sentence (.ref 0)) = some p1)
    (h2 : parse (famCfg arithEnv (arithInput (2 * n))) f2 (G.sentence (.ref 0)) = some p2) :
    p2.st.calls ≤ 16 * p1.st.calls := by
  obtain ⟨_, _, _, ops, a1, a2, a3⟩ := c17_arith_harness n f1 p1 h1
  obtain ⟨_, _, _, ops', b1, b2, b3⟩ := c17_arith_harness (2 * n) f2 p2 h2
  rw [a3, b3]
  exact ar_double_harness n ops ops' a1 b1 a2 b2

/-- the operator string of the harness's input of length parameter `n` -/
def harnessOps (n : Nat) : List Nat :=
  (List.range ((arithInput n).length / 2)).map fun i => (arithInput n).getD (2 * i + 1) 0

/-- **the harness's lengths** — the counts the correspondence run records for family 2, now as kernel-checked values
    of the proved closed form (the kernel cannot evaluate the MODEL on this family: `cpUnion`), and the doubling
    ratio ≤ 16 on every pair (n, 2n) of the suite's lengths -/
theorem c17_arith_pinned :
    (∀ n ∈ [5, 8, 12, 16, 24, 32, 48, 64, 96, 128],
      (∀ o ∈ harnessOps n, o = 42 ∨ o = 43) ∧ arithInput n = arData (harnessOps n)) ∧
    [5, 8, 12, 16, 24, 32, 48, 64, 96, 128].map (fun n => arCalls (harnessOps n)) =
      [146, 336, 606, 956, 1871, 3094, 6477, 11096, 24042, 41932] ∧
    (∀ n ∈ [8, 12, 16, 24, 32, 48, 64], arCalls (harnessOps (2 * n)) ≤ 16 * arCalls (harnessOps n)) := by
  refine ⟨?_, ?_, ?_⟩ <;> decide +kernel

/-- … connected to the runs -/
theorem c17_arith_pinned_parse (n : Nat) (hn : n ∈ [5, 8, 12, 16, 24, 32, 48, 64, 96, 128]) (fuel : Nat) (p : ParseOut)
    (h : parse (famCfg arithEnv (arithInput n)) fuel (G.sentence (.ref 0)) = some p) :
    p.err = none ∧ p.st.calls = arCalls (harnessOps n) := by
  obtain ⟨h1, h2⟩ := c17_arith_pinned.1 n hn
  rw [h2] at h
  obtain ⟨a, _, c⟩ := c17_closed_arith_all _ h1 fuel p h
  exact ⟨a, c⟩

/-! ## family 8 ("arith2"): `E → E + T | E - T | T ; T → T * F | T / F | F ; F → 1 | ( E )` -/

/-- family 8 as the harness builds it, on the input `1 o₁ 1 … o_k 1` for an arbitrary operator string `ops` -/
theorem c17_ar2Cfg (ops : List Nat) :
    ar2Cfg ops = famCfg arith2Env (arData ops) ∧
    (ar2Cfg ops).env = [
      .memo 0 (.any [.seq .seqOf [.ref 0, .term (.rune 43 [34, 43, 34]), .ref 1] {},
                     .seq .seqOf [.ref 0, .term (.rune 45 [34, 45, 34]), .ref 1] {}, .ref 1]),
      .memo 1 (.any [.seq .seqOf [.ref 1, .term (.rune 42 [34, 42, 34]), .ref 2] {},
                     .seq .seqOf [.ref 1, .term (.rune 47 [34, 47, 34]), .ref 2] {}, .ref 2]),
      .any [.term (.rune 49 [34, 49, 34]),
            .seq .seqOf [.term (.rune 40 [34, 40, 34]), .ref 0, .term (.rune 41 [34, 41, 34])] {}]] ∧
    (ar2Cfg ops).file.data = 49 :: ops.flatMap (fun o => [o, 49]) ∧ (ar2Cfg ops).file.offset = 1 ∧
    (ar2Cfg ops).maxCalls = 0 :=
  ⟨rfl, rfl, rfl, rfl, rfl⟩

/-- the harness's input of length parameter n: `1` and the operators `+ - * /` in turn (harness/cmd/corr/c17.go) -/
theorem c17_arith2Input : arith2Input 1 = [49] ∧ arith2Input 8 = [49, 43, 49, 45, 49, 42, 49, 47, 49] ∧
    arith2Input 9 = arith2Input 8 := by decide

/-- **THEOREM (every operator string over {+, -, *, /}, every length)**: `Sentence(E)` on `1 o₁ 1 … o_k 1` succeeds;
    it makes `arCalls2 ops` calls in the spine of `E` (an explicit function of the operator string: `c17_arCalls2`),
    one for the element of Sentence and one `End` per alternative of `E` up to the one that spans the input (between
    1 and k+1 of them — the alternatives come out in an order that depends on the operators); at most
    (2k+3)(13k+17) + k + 2 in all -/
theorem c17_closed_arith2 (ops : List Nat) (hops : ∀ o ∈ ops, o = 42 ∨ o = 47 ∨ o = 43 ∨ o = 45) :
    ∃ fuel p, parse (ar2Cfg ops) fuel (G.sentence (.ref 0)) = some p ∧ p.err = none ∧
      arCalls2 ops + 2 ≤ p.st.calls ∧ p.st.calls ≤ arCalls2 ops + ops.length + 2 ∧
      p.st.calls ≤ (2 * ops.length + 3) * (13 * ops.length + 17) + ops.length + 2 := by
  obtain ⟨p, h1, h2, _, h4, h5, h6⟩ := ar2_ops_parse ops hops
  exact ⟨_, p, h1, h2, h4, h5, h6⟩

theorem c17_closed_arith2_all (ops : List Nat) (hops : ∀ o ∈ ops, o = 42 ∨ o = 47 ∨ o = 43 ∨ o = 45) (fuel : Nat)
    (p : ParseOut) (h : parse (ar2Cfg ops) fuel (G.sentence (.ref 0)) = some p) :
    p.err = none ∧ p.res.isNil = false ∧ arCalls2 ops + 2 ≤ p.st.calls ∧ p.st.calls ≤ arCalls2 ops + ops.length + 2 ∧
    p.st.calls ≤ (2 * ops.length + 3) * (13 * ops.length + 17) + ops.length + 2 := by
  obtain ⟨q, h1, h2, h3, h4, h5, h6⟩ := ar2_ops_parse ops hops
  rw [c17_det_full _ fuel _ _ p q h h1]
  exact ⟨h2, h3, h4, h5, h6⟩

/-- the count of the spine of `E`, spelled out (terms: the maximal runs of `*`, `/`): per level j < 2k+3:
    5 + 2·(the ends of the first min(j, s+1) terms) + (the `+`, `-` behind them); for every term the first run of `T`
    (level j costs 8 + 2·min(j, r+1) + 4·min(j, r)) -/
theorem c17_arCalls2 (ops : List Nat) :
    arCalls2 ops =
      let r := rfOf (split2 ops)
      let s := (split2 ops).length - 1
      let k := ops.length
      ((List.range (2 * k + 3)).map (fun j => 5 + 2 * pre r (min j (s + 1)) + min j s)).sum +
        firstRunsX2 k r (s + 1) := rfl

theorem c17_arCalls2_levels (r j : Nat) :
    tcLevels2 r (j + 1) = tcLevels2 r j + 8 + 2 * min j (r + 1) + 4 * min (min j (r + 1)) r := rfl

/-- **quadratic** in the length n = 2k+1 of the input: at most 7 (n+2)² calls -/
theorem c17_quadratic_arith2 (ops : List Nat) (hops : ∀ o ∈ ops, o = 42 ∨ o = 47 ∨ o = 43 ∨ o = 45) (fuel : Nat)
    (p : ParseOut) (h : parse (ar2Cfg ops) fuel (G.sentence (.ref 0)) = some p) :
    p.st.calls ≤ 7 * (((arData ops).length + 2) * ((arData ops).length + 2)) := by
  have h6 := (c17_closed_arith2_all ops hops fuel p h).2.2.2.2
  rw [arData_length ops]
  generalize ops.length = k at *
  have e2 : (2 * k + 3) * (13 * k + 17) = 26 * (k * k) + 73 * k + 51 := by
    rw [Nat.add_mul, Nat.mul_add, Nat.mul_add, Nat.mul_mul_mul_comm]; omega
  have e3 : (2 * k + 1 + 2) * (2 * k + 1 + 2) = 4 * (k * k) + 12 * k + 9 := by
    rw [show 2 * k + 1 + 2 = 2 * k + 3 by omega, Nat.add_mul, Nat.mul_add, Nat.mul_add, Nat.mul_mul_mul_comm]; omega
  rw [e3]
  rw [e2] at h6
  generalize k * k = q at *
  omega

/-- **doubling, every pair of inputs**: an input with at most 2k+1 operators makes at most 16 times the calls of ANY
    input with k operators -/
theorem c17_double_arith2 (ops ops' : List Nat) (hops : ∀ o ∈ ops, o = 42 ∨ o = 47 ∨ o = 43 ∨ o = 45)
    (hops' : ∀ o ∈ ops', o = 42 ∨ o = 47 ∨ o = 43 ∨ o = 45) (hk : ops'.length ≤ 2 * ops.length + 1)
    (f1 f2 : Nat) (p1 p2 : ParseOut)
    (h1 : parse (ar2Cfg ops) f1 (G.sentence (.ref 0)) = some p1)
    (h2 : parse (ar2Cfg ops') f2 (G.sentence (.ref 0)) = some p2) :
    p2.st.calls ≤ 16 * p1.st.calls :=
  ar2_double ops ops' hops hk _ _ (c17_closed_arith2_all ops hops f1 p1 h1).2.2.1
    (c17_closed_arith2_all ops' hops' f2 p2 h2).2.2.2.2

/-- **the harness's inputs, EVERY length parameter n**: the parse succeeds with at most 7 (len + 2)² calls, and the run
    on the input of length parameter 2n makes at most 16 times the calls of the run on the input of parameter n -/
theorem c17_arith2_harness (n : Nat) (fuel : Nat) (p : ParseOut)
    (h : parse (famCfg arith2Env (arith2Input n)) fuel (G.sentence (.ref 0)) = some p) :
    p.err = none ∧ p.res.isNil = false ∧
    p.st.calls ≤ 7 * (((arith2Input n).length + 2) * ((arith2Input n).length + 2)) := by
  obtain ⟨ops, h1, h2⟩ := arith2Input_eq n
  rw [h2] at h ⊢
  obtain ⟨a, b, _⟩ := c17_closed_arith2_all ops h1 fuel p h
  exact ⟨a, b, c17_quadratic_arith2 ops h1 fuel p h⟩

theorem c17_double_arith2_harness (n : Nat) (f1 f2 : Nat) (p1 p2 : ParseOut)
    (h1 : parse (famCfg arith2Env (arith2Input n)) f1 (G.sentence (.ref 0)) = some p1)
    (h2 : parse (famCfg arith2Env (arith2Input (2 * n))) f2 (G.sentence (.ref 0)) = some p2) :
    p2.st.calls ≤ 16 * p1.st.calls := by
  obtain ⟨ops, a1, a2⟩ := arith2Input_eq n
  obtain ⟨ops', b1, b2⟩ := arith2Input_eq (2 * n)
  have l1 := arith2Input_length n
  have l2 := arith2Input_length (2 * n)
  rw [a2, arData_length] at l1
  rw [b2, arData_length] at l2
  rw [a2] at h1
  rw [b2] at h2
  exact c17_double_arith2 ops ops' a1 b1 (by omega) f1 f2 p1 p2 h1 h2

/-- non-vacuity (evaluation, independent of the proofs): n = 9 → 100 calls; k = 4 → 142 calls -/
example : (parse (hidCfg 9) 100 (G.sentence (.ref 0))).map (fun p => (p.st.calls, p.err.isNone)) = some (100, true) := by
  decide +kernel
example : (parse (mutCfg 4) 200 (G.sentence (.ref 0))).map (fun p => (p.st.calls, p.err.isNone)) = some (142, true) := by
  decide +kernel
example : hidCalls 9 = 100 ∧ mutCalls 4 = 142 := by decide

end PV
