/-
  C01, fourth part — STRATIFIED grammars: left recursion at the top, non-monotone operators below.

    "for all grammars over the combinator set (Any, SeqOf, Optional, Empty, Choice, Many/Many1, SepBy/SepBy1, SeqTry,
     SeqFirstOrAll, memoized nonterminals; NON-MONOTONE OPERATORS STRATIFIED so a least-fixpoint meaning exists)
     and all input strings … every derivation is returned"

  Props/C01C.lean proves completeness for the monotone fragment under arbitrary left recursion; Props/C01B.lean
  gives the exact meaning `Big` of ALL operators on runs that never curtail; Props/C03L.lean gives a decidable
  certificate under which nothing is curtailed.  What was missing: `E → E '+' T | T` (memoized, left-recursive)
  over `T → Many1(digit)` or `T → Choice(number, '(' T ')')`.  Here.

  Specification (Spec/Strat.lean).
    `stratOK cert env g`  the DECIDABLE stratification check, two strata: stratum 0 = a closed sub-grammar over
         ANY operators with its own Memoize indexes that satisfies the `lrf` certificate of C03L restricted to it
         (nullable tables closed, `lm` closed, `i ∉ lrfMemos b` at every `memo i b`); stratum 1 = the monotone
         fragment {term, empty, ref, memo, any, seqOf, optional} whose leaves are terminals or LOW LEAVES
         (a reference into stratum 0, a stratum-0 Memoize node, any node of a non-monotone operator —
         choice / many / sepBy / seqTry / seqFirstOrAll / name / single / suppress — closed over stratum 0).
    `DerivesS cfg cert g pos x`  the least-fixpoint meaning: the rules of `Derives` for the monotone operators of
         stratum 1, and for a low leaf `g0` the ONE rule  `Big cfg g0 pos R e → x ∈ R.alts → DerivesS … g0 pos x`
         (a macro terminal whose alternatives are exactly its big-step result).

  Theorems, for every grammar accepted by the check, every input file, every position of it, every fuel with which
  `run` answers (hypotheses besides the check — `SScope`, `EScope`: one parser per Memoize index `GOK`; every terminal
  behaves (`TermGood`, C08) and builds no "EOF"-token node (`TermsOK`); the terminals of STRATUM 0 — those of the
  stratum-0 rules and below the low leaves — never match the empty lexeme (`TermsCons` / `LeafCons`: `TermCons`,
  the scope of C02/C03, which is what `mayBeEmpty (.term _) = false` of the certificate means); nothing is asked
  of the work budget or of the ghost flag):

  * `c01_strat_low_exact`       (stage 2) a stratum-0 sub-run NEVER CURTAILS and returns THE big-step result, from
                                any context a stratum-1 parser can be in and any cache of a stratified run;
  * `c01_strat_reuse_complete`  (A) cache reuse, curtailing sets and the context reset never lose a curtailed
                                derivation `DerivesSC` of the stratified grammar; `c01_strat_cache` the joint cache
                                invariant (stratum-1 entries: the promise of `EntryC`; stratum-0 entries: exact, stored
                                with empty context and curtailing set);
  * `c01_strat_curtailed_covers(_trees)`  (B) the cut argument with the rule `low` as a leaf;
  * `c01_complete_strat_ends`   every end position of a derivation is returned;
    `c01_complete_strat_trees`  every tree, when no (stratum-1 memo index, start, end) is nested in itself;
  * `c01_sound_strat`           every returned tree is a derivation `DerivesS` — so
    `c01_strat_ends_exact`, `c01_strat_trees_exact`: the returned ends / trees ARE the stratified meaning;
  * `c01_strat_refines`         `DerivesS ⊆ Derives`: the stratified meaning refines the monotone reading;
  * `c01_strat_sentence_complete(_parse)`  through the wrapper: `Sentence g` returns a result if some derivation of
                                `g` consumes the entire input.

  Not covered (and why): a stratum-0 parser that mentions a stratum-1 rule — `T → Choice(number, '(' E ')')` with
  `E` left-recursive over `T`.  That grammar is not stratified in the usual sense (E depends on T depends,
  through a non-monotone operator, on E); it is "locally stratified" by the input position (the inner `E` starts
  after the parenthesis), which needs strata indexed by (position, level) and is not attempted here.
-/
import ParsleyVerif.Proofs.StratCut
import ParsleyVerif.Proofs.StratSentence
import ParsleyVerif.Props.C01C
import ParsleyVerif.Props.C01B
import ParsleyVerif.Props.C02T
namespace PV
open PV.Text PV.Strat

namespace Strat

/-- what the theorems ask of a parser besides the decidable check: one parser per `Memoize` index (`GOK`), every
    terminal behaves and builds no "EOF"-token node (`TermsOK`), and the terminals below the low leaves — the
    terminals of stratum 0 — consume (`LeafCons`) -/
structure SScope (cfg : Cfg) (cert : Cert) (bodyOf : Nat → G) (g : G) : Prop where
  gok : GOK bodyOf g
  terms : TermsOK cfg g
  cons : LeafCons cfg cert g

/-- … and of the environment: every rule is in scope, and the terminals of the stratum-0 rules consume -/
def EScope (cfg : Cfg) (cert : Cert) (bodyOf : Nat → G) : Prop :=
  ∀ k g', cfg.env[k]? = some g' → SScope cfg cert bodyOf g' ∧ (cert.lowRule k = true → TermsCons cfg g')

theorem stratOK_parts (s : Cert) (env : List G) (root : G) (h : stratOK s env root = true) :
    upOK s root = true ∧ ∀ k g, env[k]? = some g → ruleOK s k g = true := by
  simp only [stratOK, Bool.and_eq_true, List.all_eq_true, List.mem_range] at h
  refine ⟨h.1, fun k g hk => ?_⟩
  have := h.2 k (List.getElem?_eq_some_iff.mp hk).1
  simpa only [hk] using this

/-- from the decidable check to the hypotheses of the invariants -/
theorem scope_of_stratOK (s : Cert) (cfg : Cfg) (bodyOf : Nat → G) (g : G) (hok : stratOK s cfg.env g = true)
    (henv : EScope cfg s bodyOf) (hg : SScope cfg s bodyOf g) :
    EnvS cfg s bodyOf ∧ UpS cfg s bodyOf g := by
  obtain ⟨hroot, hrules⟩ := stratOK_parts s cfg.env g hok
  have hlow : ∀ k g', cfg.env[k]? = some g' → s.lowRule k = true →
      lowOK s g' = true ∧ (mayBeEmpty s.lrf.wf g' = true → s.lrf.wf.nullable k = true) ∧
      (∀ i ∈ lrfMemos s.lrf g', i ∈ s.lrf.lm k) := by
    intro k g' hk hl
    have := hrules k g' hk
    simp only [ruleOK, hl, ↓reduceIte, Bool.and_eq_true, Bool.or_eq_true, Bool.not_eq_true', List.all_eq_true,
      List.contains_eq_mem, decide_eq_true_eq] at this
    refine ⟨this.1.1, ?_, this.2⟩
    intro hm
    cases this.1.2 with
    | inl h => rw [hm] at h; cases h
    | inr h => exact h
  refine ⟨⟨?_, ?_, ?_, ?_⟩, ⟨hroot, hg.gok, hg.terms, hg.cons⟩⟩
  · intro k g' hk hl
    obtain ⟨hs, hc⟩ := henv k g' hk
    exact ⟨(hlow k g' hk hl).1, hs.gok, hs.terms, hc hl⟩
  · intro k g' hk hl
    obtain ⟨hs, _⟩ := henv k g' hk
    have := hrules k g' hk
    simp only [ruleOK, hl, Bool.false_eq_true, ↓reduceIte] at this
    exact ⟨this, hs.gok, hs.terms, hs.cons⟩
  · intro k g' hk hl; exact (hlow k g' hk hl).2.1
  · intro k g' hk hl; exact (hlow k g' hk hl).2.2

mutual
/-- the stratified meaning refines the monotone reading -/
theorem derives_of_derivesS {cfg : Cfg} {s : Cert} : ∀ {g : G} {pos : Nat} {x : Node},
    DerivesS cfg s g pos x → Derives cfg g pos x
  | _, _, _, .low _ hb hx => Big.big_derives hb _ hx
  | _, _, _, .term h => .term h
  | _, _, _, .empty => .empty
  | _, _, _, .ref _ he hd => .ref he (derives_of_derivesS hd)
  | _, _, _, .memo _ hd => .memo (derives_of_derivesS hd)
  | _, _, _, .any hm hd => .any hm (derives_of_derivesS hd)
  | _, _, _, .optSome hd => .optSome (derives_of_derivesS hd)
  | _, _, _, .optNone => .optNone
  | _, _, _, .seqOf hs hds hl => .seqfam hs (derivesSeq_of_derivesSeqS hds) hl
theorem derivesSeq_of_derivesSeqS {cfg : Cfg} {s : Cert} : ∀ {sh : SeqShape} {d pos : Nat} {nodes : List Node},
    DerivesSeqS cfg s sh d pos nodes → DerivesSeq cfg sh d pos nodes
  | _, _, _, _, .nil => .nil
  | _, _, _, _, .cons hl hd hrest => .cons hl (derives_of_derivesS hd) (derivesSeq_of_derivesSeqS hrest)
end

mutual
theorem all_all {P : G → Prop} : ∀ g : G, g.All P → g.All (fun g0 => g0.All P)
  | .term _, h => by simp only [G.All] at h ⊢; exact h
  | .empty, h => by simp only [G.All] at h ⊢; exact h
  | .eof, h => by simp only [G.All] at h ⊢; exact h
  | .ref _, h => by simp only [G.All] at h ⊢; exact h
  | .memo _ g, h => by
    have h' := h; simp only [G.All] at h' ⊢; exact ⟨h'.1, h'.2⟩ |> fun x => ⟨x, all_all g h'.2⟩
  | .any gs, h => by
    have h' := h; simp only [G.All] at h' ⊢; exact ⟨⟨h'.1, h'.2⟩, allList_all gs h'.2⟩
  | .choice gs, h => by
    have h' := h; simp only [G.All] at h' ⊢; exact ⟨⟨h'.1, h'.2⟩, allList_all gs h'.2⟩
  | .seq _ gs _, h => by
    have h' := h; simp only [G.All] at h' ⊢; exact ⟨⟨h'.1, h'.2⟩, allList_all gs h'.2⟩
  | .many g _ _, h => by
    have h' := h; simp only [G.All] at h' ⊢; exact ⟨⟨h'.1, h'.2⟩, all_all g h'.2⟩
  | .sepBy v sp _ _, h => by
    have h' := h; simp only [G.All] at h' ⊢
    exact ⟨⟨h'.1, h'.2.1, h'.2.2⟩, all_all v h'.2.1, all_all sp h'.2.2⟩
  | .optional g, h => by
    have h' := h; simp only [G.All] at h' ⊢; exact ⟨⟨h'.1, h'.2⟩, all_all g h'.2⟩
  | .name g _, h => by
    have h' := h; simp only [G.All] at h' ⊢; exact ⟨⟨h'.1, h'.2⟩, all_all g h'.2⟩
  | .ltrim g _, h => by
    have h' := h; simp only [G.All] at h' ⊢; exact ⟨⟨h'.1, h'.2⟩, all_all g h'.2⟩
  | .rtrim g _, h => by
    have h' := h; simp only [G.All] at h' ⊢; exact ⟨⟨h'.1, h'.2⟩, all_all g h'.2⟩
  | .single g, h => by
    have h' := h; simp only [G.All] at h' ⊢; exact ⟨⟨h'.1, h'.2⟩, all_all g h'.2⟩
  | .suppress g, h => by
    have h' := h; simp only [G.All] at h' ⊢; exact ⟨⟨h'.1, h'.2⟩, all_all g h'.2⟩
theorem allList_all {P : G → Prop} : ∀ gs : List G, AllList P gs → AllList (fun g0 => g0.All P) gs
  | [], _ => by simp [AllList]
  | g :: gs, h => by
    simp only [AllList] at h ⊢
    exact ⟨all_all g h.1, allList_all gs h.2⟩
end

/-- a sufficient condition for `LeafCons`: ALL terminals of the parser consume -/
theorem leafCons_of_cons {cfg : Cfg} (s : Cert) {g : G} (h : TermsCons cfg g) : LeafCons cfg s g :=
  Big.all_imp (P := fun g0 => g0.All (ConsT cfg)) (Q := fun g0 => isLowLeaf s g0 = true → TermsCons cfg g0)
    (fun _ hg _ => hg) g (all_all g h)

end Strat

/-! ### stage 2: stratum 0 never curtails and is exact -/

/-- **a stratum-0 sub-run never curtails and returns its `Big` result from any upper context.**  `g0` is a low
    leaf of a stratum-1 parser in scope; the call happens under any left-recursion context that counts no
    stratum-0 index (every context a stratum-1 parser can be in: `CtxUp`), at any position of the file, from any
    cache of a stratified run (`CacheS`).  Then the curtailing set is empty, the result is THE big-step result of
    `g0` at `pos` (with an error iff the semantics says so), and the cache keeps its invariant. -/
theorem c01_strat_low_exact (s : Cert) (cfg : Cfg) (bodyOf : Nat → G) (henv : EnvS cfg s bodyOf)
    (g0 : G) (hg : UpS cfg s bodyOf g0) (hleaf : isLowLeaf s g0 = true)
    (fuel : Nat) (ctx : Ctx) (pos : Nat) (hin : InFile cfg.file pos) (hctx : CtxUp s ctx)
    (st : St) (hst : CacheS cfg s bodyOf st) (o : Out) (st' : St)
    (h : run cfg fuel g0 ctx pos st = some (o, st')) :
    o.cp = [] ∧ Big cfg g0 pos o.res o.err.isSome ∧ CacheS cfg s bodyOf st' := by
  obtain ⟨hlow, hmem⟩ := hg.leaf hleaf
  exact strat_low_exact cfg s bodyOf _ henv fuel g0 ctx pos st o st' hlow hin (fun i hi => hctx i (hmem i hi)) hst h

/-- … so any two stratum-0 sub-runs at one position agree, whatever their contexts, caches and fuel -/
theorem c01_strat_low_agree (s : Cert) (cfg : Cfg) (bodyOf : Nat → G) (henv : EnvS cfg s bodyOf)
    (g0 : G) (hg : UpS cfg s bodyOf g0) (hleaf : isLowLeaf s g0 = true) (pos : Nat) (hin : InFile cfg.file pos)
    (f₁ f₂ : Nat) (c₁ c₂ : Ctx) (h₁ : CtxUp s c₁) (h₂ : CtxUp s c₂) (s₁ s₂ : St)
    (hs₁ : CacheS cfg s bodyOf s₁) (hs₂ : CacheS cfg s bodyOf s₂) (o₁ o₂ : Out) (s₁' s₂' : St)
    (r₁ : run cfg f₁ g0 c₁ pos s₁ = some (o₁, s₁')) (r₂ : run cfg f₂ g0 c₂ pos s₂ = some (o₂, s₂')) :
    o₁.res = o₂.res ∧ o₁.err.isSome = o₂.err.isSome :=
  big_functional (c01_strat_low_exact s cfg bodyOf henv g0 hg hleaf f₁ c₁ pos hin h₁ s₁ hs₁ o₁ s₁' r₁).2.1
    (c01_strat_low_exact s cfg bodyOf henv g0 hg hleaf f₂ c₂ pos hin h₂ s₂ hs₂ o₂ s₂' r₂).2.1

/-! ### stage 3: the joint reuse invariant -/

/-- **(A) cache reuse and curtailing sets never lose a curtailed derivation of a stratified grammar.** -/
theorem c01_strat_reuse_complete (s : Cert) (cfg : Cfg) (bodyOf : Nat → G) (henv : EnvS cfg s bodyOf)
    (fuel : Nat) (g : G) (ctx : Ctx) (pos : Nat) (st : St) (o : Out) (st' : St)
    (hg : UpS cfg s bodyOf g) (hin : InFile cfg.file pos) (hctx : CtxUp s ctx) (hst : CacheS cfg s bodyOf st)
    (h : run cfg fuel g ctx pos st = some (o, st')) :
    ∀ (c' : Nat → Nat) (x : Node), (∀ k ∈ o.cp, ctx.get k ≤ c' k) → DerivesSC cfg s c' g pos x → x ∈ o.res.alts :=
  (run_strat cfg s bodyOf henv fuel g ctx pos st o st' hg hin hctx hst h).1

/-- the joint cache invariant is preserved by every call and holds of the empty cache -/
theorem c01_strat_cache (s : Cert) (cfg : Cfg) (bodyOf : Nat → G) (henv : EnvS cfg s bodyOf)
    (fuel : Nat) (g : G) (ctx : Ctx) (pos : Nat) (st : St) (o : Out) (st' : St)
    (hg : UpS cfg s bodyOf g) (hin : InFile cfg.file pos) (hctx : CtxUp s ctx) (hst : CacheS cfg s bodyOf st)
    (h : run cfg fuel g ctx pos st = some (o, st')) :
    CacheS cfg s bodyOf st' ∧ CacheS cfg s bodyOf {} :=
  ⟨(run_strat cfg s bodyOf henv fuel g ctx pos st o st' hg hin hctx hst h).2.2.2, MixCache.empty⟩

/-- what `CacheS` says of an entry, spelled out: a stratum-0 entry is exact and was stored uncurtailed; a
    stratum-1 entry holds every tree curtailed-derivable under counters that pass the test of `ResultCache.Get`,
    and only derivations -/
theorem c01_strat_cache_entry (s : Cert) (cfg : Cfg) (bodyOf : Nat → G) (st : St) (hst : CacheS cfg s bodyOf st)
    (e : CacheEntry) (he : e ∈ st.cache) :
    (s.lowIdx e.idx = true → e.cp = [] ∧ e.ctx = [] ∧ Big cfg (bodyOf e.idx) e.pos e.res e.err.isSome) ∧
    (s.lowIdx e.idx = false →
      (∀ (c' : Nat → Nat) (x : Node), (∀ kv ∈ e.ctx, kv.2 ≤ c' kv.1) →
        DerivesSC cfg s c' (.memo e.idx (bodyOf e.idx)) e.pos x → x ∈ e.res.alts) ∧
      (∀ x ∈ e.res.alts, DerivesS cfg s (.memo e.idx (bodyOf e.idx)) e.pos x)) :=
  ⟨fun hl => ⟨((hst e he).1 hl).cp, ((hst e he).1 hl).ctx, ((hst e he).1 hl).big⟩,
   fun hl => ⟨((hst e he).2 hl).complete, ((hst e he).2 hl).sound⟩⟩

/-! ### stage 4: the cut -/

/-- **(B) every reachable end position has a curtailed derivation from the empty context** -/
theorem c01_strat_curtailed_covers (s : Cert) (cfg : Cfg) (bodyOf : Nat → G) (henv : EnvS cfg s bodyOf)
    (g : G) (hg : UpS cfg s bodyOf g) (pos : Nat) (hin : InFile cfg.file pos) (x : Node)
    (h : DerivesS cfg s g pos x) : ∃ y, DerivesSC cfg s zeroC g pos y ∧ y.rpos = x.rpos :=
  derivesSC_of_derivesS_ends cfg s bodyOf henv g hg pos hin x h

/-- **(B), trees**: in an acyclic stratified grammar every derivation is a curtailed derivation — the same tree -/
theorem c01_strat_curtailed_covers_trees (s : Cert) (cfg : Cfg) (bodyOf : Nat → G) (henv : EnvS cfg s bodyOf)
    (hac : AcyclicS cfg s bodyOf) (g : G) (hg : UpS cfg s bodyOf g) (pos : Nat) (hin : InFile cfg.file pos) (x : Node)
    (h : DerivesS cfg s g pos x) : DerivesSC cfg s zeroC g pos x :=
  derivesSC_of_derivesS_tree cfg s bodyOf henv hac g hg pos hin x h

/-! ### stage 5: completeness and soundness -/

/-- **C01 completeness for stratified grammars, end positions.**  `cert` passes the decidable check on the
    grammar; whenever `run` answers from the empty context and the empty state, for every derivation of the
    stratified meaning a tree with the same end position is among the returned alternatives. -/
theorem c01_complete_strat_ends (cert : Cert) (cfg : Cfg) (bodyOf : Nat → G) (g : G)
    (hok : stratOK cert cfg.env g = true) (henv : EScope cfg cert bodyOf) (hg : SScope cfg cert bodyOf g)
    (fuel : Nat) (pos : Nat) (hin : InFile cfg.file pos) (o : Out) (st' : St)
    (h : run cfg fuel g [] pos {} = some (o, st')) :
    ∀ x, DerivesS cfg cert g pos x → ∃ y ∈ o.res.alts, y.rpos = x.rpos := by
  obtain ⟨hE, hU⟩ := scope_of_stratOK cert cfg bodyOf g hok henv hg
  intro x hx
  obtain ⟨y, hy, he⟩ := c01_strat_curtailed_covers cert cfg bodyOf hE g hU pos hin x hx
  refine ⟨y, ?_, he⟩
  exact c01_strat_reuse_complete cert cfg bodyOf hE fuel g [] pos {} o st' hU hin (CtxUp.nil _) MixCache.empty h zeroC y
    (by intro k _; exact Nat.zero_le _) hy

/-- the same from any cache that satisfies the invariant -/
theorem c01_complete_strat_ends_from (cert : Cert) (cfg : Cfg) (bodyOf : Nat → G) (g : G)
    (hok : stratOK cert cfg.env g = true) (henv : EScope cfg cert bodyOf) (hg : SScope cfg cert bodyOf g)
    (fuel : Nat) (pos : Nat) (hin : InFile cfg.file pos) (st : St)
    (hst : CacheS cfg cert bodyOf st) (o : Out) (st' : St)
    (h : run cfg fuel g [] pos st = some (o, st')) :
    ∀ x, DerivesS cfg cert g pos x → ∃ y ∈ o.res.alts, y.rpos = x.rpos := by
  obtain ⟨hE, hU⟩ := scope_of_stratOK cert cfg bodyOf g hok henv hg
  intro x hx
  obtain ⟨y, hy, he⟩ := c01_strat_curtailed_covers cert cfg bodyOf hE g hU pos hin x hx
  refine ⟨y, ?_, he⟩
  exact c01_strat_reuse_complete cert cfg bodyOf hE fuel g [] pos st o st' hU hin (CtxUp.nil _) hst h zeroC y
    (by intro k _; exact Nat.zero_le _) hy

/-- **C01 completeness for stratified grammars, trees.**  In an acyclic stratified grammar every derivation —
    every distinct tree — is among the returned alternatives. -/
theorem c01_complete_strat_trees (cert : Cert) (cfg : Cfg) (bodyOf : Nat → G) (g : G)
    (hok : stratOK cert cfg.env g = true) (henv : EScope cfg cert bodyOf) (hg : SScope cfg cert bodyOf g)
    (hac : AcyclicS cfg cert bodyOf)
    (fuel : Nat) (pos : Nat) (hin : InFile cfg.file pos) (o : Out) (st' : St)
    (h : run cfg fuel g [] pos {} = some (o, st')) :
    ∀ x, DerivesS cfg cert g pos x → x ∈ o.res.alts := by
  obtain ⟨hE, hU⟩ := scope_of_stratOK cert cfg bodyOf g hok henv hg
  intro x hx
  have hy := c01_strat_curtailed_covers_trees cert cfg bodyOf hE hac g hU pos hin x hx
  exact c01_strat_reuse_complete cert cfg bodyOf hE fuel g [] pos {} o st' hU hin (CtxUp.nil _) MixCache.empty h zeroC x
    (by intro k _; exact Nat.zero_le _) hy

/-- **C01 soundness with respect to the stratified meaning**: every returned tree is a derivation `DerivesS`
    (sharper than `c01_sound`: below a non-monotone operator the tree is an alternative of the EXACT result) -/
theorem c01_sound_strat (cert : Cert) (cfg : Cfg) (bodyOf : Nat → G) (g : G)
    (hok : stratOK cert cfg.env g = true) (henv : EScope cfg cert bodyOf) (hg : SScope cfg cert bodyOf g)
    (fuel : Nat) (pos : Nat) (hin : InFile cfg.file pos) (o : Out) (st' : St)
    (h : run cfg fuel g [] pos {} = some (o, st')) :
    ∀ x ∈ o.res.alts, DerivesS cfg cert g pos x := by
  obtain ⟨hE, hU⟩ := scope_of_stratOK cert cfg bodyOf g hok henv hg
  exact (run_strat cfg cert bodyOf hE fuel g [] pos {} o st' hU hin (CtxUp.nil _) MixCache.empty h).2.2.1

/-- soundness and completeness together: from a fresh context the returned END POSITIONS are exactly the end
    positions of the stratified meaning -/
theorem c01_strat_ends_exact (cert : Cert) (cfg : Cfg) (bodyOf : Nat → G) (g : G)
    (hok : stratOK cert cfg.env g = true) (henv : EScope cfg cert bodyOf) (hg : SScope cfg cert bodyOf g)
    (fuel : Nat) (pos : Nat) (hin : InFile cfg.file pos) (o : Out) (st' : St)
    (h : run cfg fuel g [] pos {} = some (o, st')) (e : Nat) :
    (∃ x, DerivesS cfg cert g pos x ∧ x.rpos = e) ↔ e ∈ o.res.alts.map Node.rpos := by
  constructor
  · rintro ⟨x, hx, rfl⟩
    obtain ⟨y, hy, he⟩ := c01_complete_strat_ends cert cfg bodyOf g hok henv hg fuel pos hin o st' h x hx
    exact List.mem_map.mpr ⟨y, hy, he⟩
  · intro he
    obtain ⟨y, hy, rfl⟩ := List.mem_map.mp he
    exact ⟨y, c01_sound_strat cert cfg bodyOf g hok henv hg fuel pos hin o st' h y hy, rfl⟩

/-- and in an acyclic stratified grammar the returned TREES are exactly the stratified meaning -/
theorem c01_strat_trees_exact (cert : Cert) (cfg : Cfg) (bodyOf : Nat → G) (g : G)
    (hok : stratOK cert cfg.env g = true) (henv : EScope cfg cert bodyOf) (hg : SScope cfg cert bodyOf g)
    (hac : AcyclicS cfg cert bodyOf)
    (fuel : Nat) (pos : Nat) (hin : InFile cfg.file pos) (o : Out) (st' : St)
    (h : run cfg fuel g [] pos {} = some (o, st')) (x : Node) :
    DerivesS cfg cert g pos x ↔ x ∈ o.res.alts :=
  ⟨c01_complete_strat_trees cert cfg bodyOf g hok henv hg hac fuel pos hin o st' h x,
   c01_sound_strat cert cfg bodyOf g hok henv hg fuel pos hin o st' h x⟩

/-- the stratified meaning refines the monotone reading `Derives` of Props/C01.lean -/
theorem c01_strat_refines (cert : Cert) (cfg : Cfg) (g : G) (pos : Nat) (x : Node)
    (h : DerivesS cfg cert g pos x) : Derives cfg g pos x :=
  derives_of_derivesS h

/-! ### through the `Sentence` wrapper -/

/-- **Sentence succeeds if some derivation of the stratified operand consumes the entire input** — whenever it
    answers.  (`Sentence g = SeqOf(g, End)`; the theorems above are about the parser BELOW the wrapper, whose `End`
    node carries the token "EOF".) -/
theorem c01_strat_sentence_complete (cert : Cert) (cfg : Cfg) (bodyOf : Nat → G) (g : G)
    (hok : stratOK cert cfg.env g = true) (henv : EScope cfg cert bodyOf) (hg : SScope cfg cert bodyOf g)
    (fuel : Nat) (pos : Nat) (hin : InFile cfg.file pos) (o : Out) (st' : St)
    (h : run cfg fuel (G.sentence g) [] pos {} = some (o, st'))
    (hex : ∃ x, DerivesS cfg cert g pos x ∧ x.rpos = cfg.hi) : o.res.alts ≠ [] ∧ o.err = none := by
  obtain ⟨hE, hU⟩ := scope_of_stratOK cert cfg bodyOf g hok henv hg
  obtain ⟨x, hx, he⟩ := hex
  obtain ⟨y, hy, hye⟩ := c01_strat_curtailed_covers cert cfg bodyOf hE g hU pos hin x hx
  exact sentence_complete_strat cfg cert bodyOf hE g hU fuel pos hin {} MixCache.empty o st' h y hy
    (by rw [hye, he]; exact isEOF_hi cfg)

/-- the same for `parsley.Parse(Sentence g)` from a fresh context -/
theorem c01_strat_sentence_complete_parse (cert : Cert) (cfg : Cfg) (bodyOf : Nat → G) (g : G)
    (hok : stratOK cert cfg.env g = true) (henv : EScope cfg cert bodyOf) (hg : SScope cfg cert bodyOf g)
    (fuel : Nat) (p : ParseOut) (h : parse cfg fuel (G.sentence g) = some p)
    (hex : ∃ x, DerivesS cfg cert g (cfg.file.pos 0) x ∧ x.rpos = cfg.hi) : p.err = none ∧ p.res.alts ≠ [] := by
  cases hr : run cfg fuel (G.sentence g) [] (cfg.file.pos 0) {} with
  | none => simp [parse, hr] at h
  | some r =>
    obtain ⟨o, st1⟩ := r
    obtain ⟨h1, h2⟩ := c01_strat_sentence_complete cert cfg bodyOf g hok henv hg fuel _ (c01_pre_initial cfg).1 o st1 hr hex
    have hnil : o.res.isNil = false := by
      cases hres : o.res with
      | nil => rw [hres] at h1; exact absurd rfl h1
      | one _ => rfl
      | list _ => rfl
    simp only [parse, hr, hnil, h2, Bool.false_and, Bool.false_eq_true, ↓reduceIte] at h
    cases h
    exact ⟨rfl, h1⟩

/-! ### non-vacuity: `E → E '+' T | T`, `T → Many1(digit)` on "12+3"

  `E` is memoized and left-recursive (stratum 1: Any / SeqOf), `T` is a stratum-0 rule (the longest-path operator
  Many1 over `digit = Any('1','2','3')`).  The file starts at offset 1, so "12+3" occupies positions 1 … 4 and
  ends at 5. -/

namespace Strat

/-- a rune terminal is in scope … -/
theorem termS_rune (cfg : Cfg) (ch : Nat) (name : Bytes) (h : Utf8.encodeRune ch ≠ eofTok) :
    TermS cfg (.term (.rune ch name)) := by
  obtain ⟨h1, _⟩ := termOK_rune cfg ch name
  refine ⟨h1, ?_⟩
  intro pos n hn
  simp only [Terminal.parse] at hn
  split at hn
  · cases hn
  · injection hn with hn; subst hn; simp only [NoEofDeep]; exact h
  · simp [nf] at hn

/-- … and consumes -/
theorem consT_rune (cfg : Cfg) (ch : Nat) (name : Bytes) : ConsT cfg (.term (.rune ch name)) :=
  (termOK_rune cfg ch name).2

def sxT (c : Nat) : G := .term (.rune c [34, c, 34])
def sxDigit : G := .any [sxT 49, sxT 50, sxT 51]
def sxEBody : G := .any [.seq .seqOf [.ref 0, sxT 43, .ref 1] {}, .ref 1]
def sxTBody : G := .many sxDigit false {}
def sxEnv : List G := [.memo 0 sxEBody, sxTBody]
def sxCfg : Cfg :=
  { env := sxEnv, file := { name := "f", data := [49, 50, 43, 51], offset := 1 }, fileSet := {},
    params := { floatOk := fun _ => true, durErr := fun _ => none, regexp := fun _ _ => none } }
def sxCert : Cert := certOf [1] [] [] [] [[], []]

theorem sx_cert : stratOK sxCert sxCfg.env (.ref 0) = true := by decide

theorem sx_scope : EScope sxCfg sxCert (fun _ => sxEBody) := by
  intro k g' hk
  match k, hk with
  | 0, hk =>
    simp only [sxCfg, sxEnv, List.getElem?_cons_zero, Option.some.injEq] at hk
    subst hk
    refine ⟨⟨by simp [GOK, G.All, AllList, LocalOK, sxEBody, sxT], ?_, leafCons_of_cons _ ?_⟩, fun h => absurd h (by decide)⟩
    · simp only [TermsOK, G.All, AllList, sxEBody, sxT, TermS, and_true, true_and]
      exact termS_rune _ _ _ (by decide)
    · simp only [TermsCons, G.All, AllList, sxEBody, sxT, ConsT, and_true, true_and]
      exact consT_rune _ _ _
  | 1, hk =>
    simp only [sxCfg, sxEnv, List.getElem?_cons_succ, List.getElem?_cons_zero, Option.some.injEq] at hk
    subst hk
    have hc : TermsCons sxCfg sxTBody := by
      simp only [TermsCons, G.All, AllList, sxTBody, sxDigit, sxT, ConsT, and_true, true_and]
      exact ⟨consT_rune _ _ _, consT_rune _ _ _, consT_rune _ _ _⟩
    refine ⟨⟨by simp [GOK, G.All, AllList, LocalOK, sxTBody, sxDigit, sxT], ?_, leafCons_of_cons _ hc⟩, fun _ => hc⟩
    simp only [TermsOK, G.All, AllList, sxTBody, sxDigit, sxT, TermS, and_true, true_and]
    exact ⟨termS_rune _ _ _ (by decide), termS_rune _ _ _ (by decide), termS_rune _ _ _ (by decide)⟩
  | k + 2, hk => simp [sxCfg, sxEnv] at hk

theorem sx_root (cfg : Cfg) (cert : Cert) (bodyOf : Nat → G) : SScope cfg cert bodyOf (.ref 0) :=
  ⟨by simp [GOK, G.All, LocalOK], by simp [TermsOK, G.All, TermS],
   leafCons_of_cons _ (by simp [TermsCons, G.All, ConsT])⟩

def sxD (p c : Nat) : Node := .term [c] (.rune c) p (p + 1)
def sxN12 : Node := .nt manyTok [sxD 1 49, sxD 2 50] 1 3 .none
def sxN3 : Node := .nt manyTok [sxD 4 51] 4 5 .none
def sxSum : Node := .nt seqTok [sxN12, sxD 3 43, sxN3] 1 5 .none

theorem sx_run : (run sxCfg 30 (.ref 0) [] 1 {}).map (fun r => r.1.res.alts) = some [sxSum, sxN12] := by rfl

/-- the END POSITIONS of the stratified meaning of `E` on "12+3" -/
theorem sx_ends : ∀ e, (∃ x, DerivesS sxCfg sxCert (.ref 0) 1 x ∧ x.rpos = e) ↔ e ∈ [5, 3] := by
  intro e
  obtain ⟨o, st', hrun, hl⟩ := ends_of_eval (cfg := sxCfg) (fuel := 30) (g := .ref 0) (pos := 1) (l := [5, 3]) (by decide)
  rw [← hl]
  exact c01_strat_ends_exact sxCert sxCfg (fun _ => sxEBody) (.ref 0) sx_cert sx_scope (sx_root _ _ _) 30 1
    ⟨by decide, by decide⟩ o st' hrun e

/-- the exact meaning of the low leaf `T` at 1 and at 4 (one evaluation each, through `c01_bigstep`) -/
theorem sx_inScope : ∀ g' ∈ sxCfg.env, Big.InScope (fun _ => sxEBody) g' := by
  intro g' hg'
  simp only [sxCfg, sxEnv, List.mem_cons, List.not_mem_nil, or_false] at hg'
  rcases hg' with rfl | rfl
  · simp [Big.InScope, G.All, AllList, Big.OKLocal, sxEBody, sxT]
  · simp [Big.InScope, G.All, AllList, Big.OKLocal, sxTBody, sxDigit, sxT]

theorem sx_T1 : Big sxCfg (.ref 1) 1 (.one sxN12) false :=
  Big.of_eval rfl (fun _ => sxEBody) sx_inScope (by simp [Big.InScope, G.All, Big.OKLocal]) (fuel := 12) (by rfl)
theorem sx_T4 : Big sxCfg (.ref 1) 4 (.one sxN3) false :=
  Big.of_eval rfl (fun _ => sxEBody) sx_inScope (by simp [Big.InScope, G.All, Big.OKLocal]) (fuel := 12) (by rfl)

/-- the expected derivations, by the rules: `T` alone … -/
theorem sx_derives_T : DerivesS sxCfg sxCert (.ref 0) 1 sxN12 :=
  .ref rfl (g := sxEnv[0]) rfl (.memo rfl (.any (g := .ref 1) (by simp) (.low rfl sx_T1 (by simp [Res.alts]))))

/-- … and `E '+' T` with the left-recursive `E` deriving "12" -/
theorem sx_derives_sum : DerivesS sxCfg sxCert (.ref 0) 1 sxSum := by
  refine .ref rfl (g := sxEnv[0]) rfl (.memo rfl (.any (g := .seq .seqOf [.ref 0, sxT 43, .ref 1] {}) (by simp) ?_))
  exact .seqOf (nodes := [sxN12, sxD 3 43, sxN3]) rfl
    (.cons rfl sx_derives_T (.cons rfl (.term rfl) (.cons rfl (.low rfl sx_T4 (by simp [Res.alts])) .nil))) rfl

theorem sx_up1 : UpS sxCfg sxCert (fun _ => sxEBody) (.ref 1) :=
  ⟨by decide, by simp [GOK, G.All, LocalOK], by simp [TermsOK, G.All, TermS],
   leafCons_of_cons _ (by simp [TermsCons, G.All, ConsT])⟩

theorem sx_plus {pos : Nat} {m : Node} (hin : InFile sxCfg.file pos) (h : DerivesS sxCfg sxCert (sxT 43) pos m) :
    m.rpos = pos + 1 := by
  cases h with
  | low hl _ _ => simp [isLowLeaf, sxT] at hl
  | term hp => exact rune_node_rpos sxCfg 43 _ (by decide) pos hin m hp

/-- `E → E '+' T | T` is acyclic: a nested `E` with the same start ends at least one byte (the `+`) earlier -/
theorem sx_acyclic : AcyclicS sxCfg sxCert (fun _ => sxEBody) := by
  obtain ⟨hE, hU0⟩ := scope_of_stratOK sxCert sxCfg (fun _ => sxEBody) (.ref 0) sx_cert sx_scope (sx_root _ _ _)
  intro k pos x hk hin hc
  generalize he : x.rpos = e at hc
  simp only [sxEBody] at hc
  cases hc with
  | any hm hc' =>
    simp only [List.mem_cons, List.not_mem_nil, or_false] at hm
    rcases hm with rfl | rfl
    · cases hc' with
      | seqOf hs hcs hl =>
        rename_i sh nodes
        simp only [G.shape, Option.some.injEq] at hs
        subst hs
        simp only [List.length_cons, List.length_nil, beq_iff_eq] at hl
        cases hcs with
        | head hl0 hcn hds =>
          rename_i g0 n rest
          simp only [List.getElem?_cons_zero, Option.some.injEq] at hl0
          subst hl0
          obtain ⟨b1, b2, b3⟩ := containsS_end_le hE hcn hU0 hin
          have hin1 := InFile_of_le hin b2 b3
          cases hds with
          | nil => simp at hl
          | cons hl1 hdm hds2 =>
            rename_i g1 m rest2
            simp only [Nat.zero_add, List.getElem?_cons_succ, List.getElem?_cons_zero, Option.some.injEq] at hl1
            subst hl1
            have hm := sx_plus hin1 hdm
            cases hds2 with
            | nil => simp at hl
            | cons hl2 hdt hds3 =>
              rename_i g2 t rest3
              simp only [List.getElem?_cons_succ, List.getElem?_cons_zero, Option.some.injEq] at hl2
              subst hl2
              have hm1 : InFile sxCfg.file m.rpos := ⟨by have := hin1.1; omega, by
                have : m.rpos ≤ sxCfg.hi := by
                  have := (derivesS_pos sxCfg sxCert _ hE hdm
                    ⟨by decide, by simp [GOK, G.All, LocalOK, sxT], by
                      simp only [TermsOK, G.All, sxT, TermS]; exact termS_rune _ _ _ (by decide),
                      leafCons_of_cons _ (by simp only [TermsCons, G.All, sxT, ConsT]; exact consT_rune _ _ _)⟩ hin1).2
                  exact this
                exact this⟩
              have ht := derivesS_pos sxCfg sxCert _ hE hdt sx_up1 hm1
              cases hds3 with
              | nil =>
                rw [handleResult_rpos] at he
                simp [endOf] at he
                omega
              | cons hl3 _ _ => simp at hl3
        | tail hl0 hdn hz hcs1 =>
          rename_i g0 n rest
          cases hcs1 with
          | head hl1 hcm _ =>
            simp only [Nat.zero_add, List.getElem?_cons_succ, List.getElem?_cons_zero, Option.some.injEq] at hl1
            subst hl1
            cases hcm
          | tail hl1 hdm hz1 _ =>
            simp only [Nat.zero_add, List.getElem?_cons_succ, List.getElem?_cons_zero, Option.some.injEq] at hl1
            subst hl1
            have hm := sx_plus (by rw [hz]; exact hin) hdm
            omega
    · cases hc' with
      | ref hr _ _ => exact absurd hr (by decide)

/-- the trees theorem, instantiated: the stratified meaning of `E` on "12+3" is exactly the two trees the
    model returns — `12+3` (left-recursive `E`, both `T`s as macro terminals with their longest-path result) and
    `12`; in particular NOT `1` (which the monotone reading `Derives` has: Many1 may stop anywhere there) -/
theorem sx_trees : ∀ x, DerivesS sxCfg sxCert (.ref 0) 1 x ↔ x ∈ [sxSum, sxN12] := by
  intro x
  have hev := sx_run
  cases hr : run sxCfg 30 (.ref 0) [] 1 {} with
  | none => rw [hr] at hev; cases hev
  | some r =>
    obtain ⟨o, st'⟩ := r
    rw [hr] at hev
    simp only [Option.map_some, Option.some.injEq] at hev
    rw [← hev]
    exact c01_strat_trees_exact sxCert sxCfg (fun _ => sxEBody) (.ref 0) sx_cert sx_scope (sx_root _ _ _) sx_acyclic 30 1
      ⟨by decide, by decide⟩ o st' hr x

/-- the monotone reading has more: `E` derives the single digit "1" there (Many1 stopping early), the
    stratified meaning does not -/
theorem sx_not_prefix : ¬ DerivesS sxCfg sxCert (.ref 0) 1 (.nt manyTok [sxD 1 49] 1 2 .none) := by
  intro h
  have := (sx_trees _).mp h
  simp [sxSum, sxN12, sxD] at this

/-- the monotone reading has it -/
theorem sx_prefix_monotone : Derives sxCfg (.ref 0) 1 (.nt manyTok [sxD 1 49] 1 2 .none) := by
  have hd : Derives sxCfg sxDigit 1 (sxD 1 49) := .any (g := sxT 49) (List.mem_cons_self ..) (.term rfl)
  have hs : sxTBody.shape = some ⟨fun _ => some sxDigit, fun len => false || len > 0, manyTok, .none, false, none⟩ := rfl
  have hT := Derives.seqfam (cfg := sxCfg) (pos := 1) (nodes := [sxD 1 49]) hs (.cons rfl hd .nil) rfl
  exact .ref (g := sxEnv[0]) rfl (.memo (.any (g := .ref 1) (by simp) (.ref (g := sxEnv[1]) rfl hT)))

/-- through the wrapper: "12+3" is a sentence of `E` (the derivation `sxSum` ends at `hi = 5`), so
    `Parse(Sentence E)` succeeds whenever it answers — and it does answer, with that one tree -/
theorem sx_sentence (fuel : Nat) (p : ParseOut) (h : parse sxCfg fuel (G.sentence (.ref 0)) = some p) :
    p.err = none ∧ p.res.alts ≠ [] :=
  c01_strat_sentence_complete_parse sxCert sxCfg (fun _ => sxEBody) (.ref 0) sx_cert sx_scope (sx_root _ _ _) fuel p h
    ⟨sxSum, sx_derives_sum, rfl⟩

example : (parse sxCfg 40 (G.sentence (.ref 0))).map (fun p => (p.err.isNone, p.res.alts.map Node.rpos)) = some (true, [5]) := by
  decide


/-! #### a memoized, recursive stratum 0 with first-match Choice below a left-recursive rule:
    `E → E '+' T | 'n'`, `T → Choice(Many1(digit), '(' T ')')`, both memoized, on "n+(1)+2".
    Every `E` level re-enters `T` at the positions after a '+': the first call runs the body, the later ones are
    cache hits on an entry stored with empty context and empty curtailing set (`LowEntry`). -/
def sxPBody : G := .any [.seq .seqOf [.ref 0, sxT 43, .ref 1] {}, sxT 110]
def sxPTBody : G := .choice [sxTBody, .seq .seqOf [sxT 40, .ref 1, sxT 41] {}]
def sxPEnv : List G := [.memo 0 sxPBody, .memo 1 sxPTBody]
def sxPCfg : Cfg :=
  { env := sxPEnv, file := { name := "f", data := [110, 43, 40, 49, 41, 43, 50], offset := 1 }, fileSet := {},
    params := { floatOk := fun _ => true, durErr := fun _ => none, regexp := fun _ _ => none } }
def sxPCert : Cert := certOf [1] [1] [] [] [[], [1]]
def sxPBodyOf : Nat → G := fun i => if i = 0 then sxPBody else sxPTBody

theorem sx_p_cert : stratOK sxPCert sxPCfg.env (.ref 0) = true := by decide

theorem sx_p_scope : EScope sxPCfg sxPCert sxPBodyOf := by
  intro k g' hk
  match k, hk with
  | 0, hk =>
    simp only [sxPCfg, sxPEnv, List.getElem?_cons_zero, Option.some.injEq] at hk
    subst hk
    refine ⟨⟨by simp [GOK, G.All, AllList, LocalOK, sxPBody, sxPBodyOf, sxT], ?_, leafCons_of_cons _ ?_⟩,
      fun h => absurd h (by decide)⟩
    · simp only [TermsOK, G.All, AllList, sxPBody, sxT, TermS, and_true, true_and]
      exact ⟨termS_rune _ _ _ (by decide), termS_rune _ _ _ (by decide)⟩
    · simp only [TermsCons, G.All, AllList, sxPBody, sxT, ConsT, and_true, true_and]
      exact ⟨consT_rune _ _ _, consT_rune _ _ _⟩
  | 1, hk =>
    simp only [sxPCfg, sxPEnv, List.getElem?_cons_succ, List.getElem?_cons_zero, Option.some.injEq] at hk
    subst hk
    have hc : TermsCons sxPCfg (.memo 1 sxPTBody) := by
      simp only [TermsCons, G.All, AllList, sxPTBody, sxTBody, sxDigit, sxT, ConsT, and_true, true_and]
      exact ⟨⟨consT_rune _ _ _, consT_rune _ _ _, consT_rune _ _ _⟩, consT_rune _ _ _, consT_rune _ _ _⟩
    refine ⟨⟨by simp [GOK, G.All, AllList, LocalOK, sxPTBody, sxPBodyOf, sxTBody, sxDigit, sxT], ?_,
      leafCons_of_cons _ hc⟩, fun _ => hc⟩
    simp only [TermsOK, G.All, AllList, sxPTBody, sxTBody, sxDigit, sxT, TermS, and_true, true_and]
    exact ⟨⟨termS_rune _ _ _ (by decide), termS_rune _ _ _ (by decide), termS_rune _ _ _ (by decide)⟩,
      termS_rune _ _ _ (by decide), termS_rune _ _ _ (by decide)⟩
  | k + 2, hk => simp [sxPCfg, sxPEnv] at hk

/-- the ends of `E` on "n+(1)+2": "n", "n+(1)", "n+(1)+2" -/
theorem sx_p_ends : ∀ e, (∃ x, DerivesS sxPCfg sxPCert (.ref 0) 1 x ∧ x.rpos = e) ↔ e ∈ [8, 6, 2] := by
  intro e
  obtain ⟨o, st', hrun, hl⟩ := ends_of_eval (cfg := sxPCfg) (fuel := 60) (g := .ref 0) (pos := 1) (l := [8, 6, 2]) (by decide)
  rw [← hl]
  exact c01_strat_ends_exact sxPCert sxPCfg sxPBodyOf (.ref 0) sx_p_cert sx_p_scope (sx_root _ _ _) 60 1
    ⟨by decide, by decide⟩ o st' hrun e

/-- the cache of that run: the stratum-1 entry (index 0 at 1) and the stratum-0 entries (index 1, at 7, 3 and 4) -/
example : (run sxPCfg 60 (.ref 0) [] 1 {}).map (fun r => r.2.cache.map (fun e => (e.idx, e.pos))) =
    some [(0, 1), (1, 7), (1, 3), (1, 4)] := by decide


/-! #### not stratified: `T → Choice(Many1(digit), '(' E ')')` mentions the left-recursive stratum-1 rule `E` below a
    non-monotone operator — rejected whatever certificate is proposed -/
def sxBadEnv : List G :=
  [.memo 0 sxEBody, .choice [sxTBody, .seq .seqOf [sxT 40, .ref 0, sxT 41] {}]]

theorem sx_bad_fails (c : Cert) : stratOK c sxBadEnv (.ref 0) = false := by
  cases h : stratOK c sxBadEnv (.ref 0) with
  | false => rfl
  | true =>
    exfalso
    obtain ⟨_, hr⟩ := stratOK_parts c sxBadEnv (.ref 0) h
    have h0 := hr 0 _ rfl
    have h1 := hr 1 _ rfl
    have hl0 : c.lowRule 0 = true := by
      cases hl1 : c.lowRule 1 <;>
        simp [ruleOK, hl1, upOK, leafOK, lowOK, lowOKList, sxTBody, sxDigit, sxT] at h1
      · exact h1.1.2.2
      · exact h1.1.1.2.2
    simp [ruleOK, hl0, lowOK, lowOKList, lrfMemos, lrfMemosAny, lrfMemosSeq, sxEBody, sxT] at h0
    obtain ⟨⟨⟨⟨⟨_, hn, _⟩, _⟩, _⟩, _⟩, hy, _⟩ := h0
    exact hn hy


end Strat

end PV
