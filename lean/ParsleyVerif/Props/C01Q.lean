/-
  C01Q — the CLOSED WORLD of the translated parser core: theorems about the hand-written model become theorems about the
  mechanically translated source.

  Props/C01P.lean ties each TRANSLATED combinator closure (Generated/FactsCore.lean, regenerated from /repo on every
  run) to the matching case of the model's interpreter `run` — IF the world's `parse` agrees with `run cfg fuel` on the
  operands THEN the translated closure agrees with `run cfg (fuel+1)` on the combinator node.  What C01P leaves open is
  the closed-world composition.  It is done here.

  THE WORLD (Proofs/CoreWorld.lean).  For a configuration `cfg` (rules `cfg.env`, file, parameters of the terminals) and a
  root parser `root`, `gWorld cfg root : Nat → World Context` is defined by recursion on the fuel FROM THE TRANSLATED CODE:

    * a parser handle `hdl π` encodes a path `π` into the finite table `root :: cfg.env` (`[0]` = the root = `rootH`,
      `[k+1]` = the rule `cfg.env[k]` = `refH k`, `π ++ [i]` = the i-th operand of the node at `π`);
    * `(gWorld cfg root (fuel+1)).parse (hdl π)` runs the translated closure of the combinator found at `π`
      (`node`: Optional_parse, Any_parse, Choice_parse, Memoize_parse, LeftTrim_parse, RightTrim_parse, ReturnError_parse,
      Single_parse, SuppressError_parse, Empty_parse, End_parse; for the Sequence family the translated `Sequence_Parse`
      with fuel 2·fuel − 1 on the struct built by the translated SeqOf / SeqTry / SeqFirstOrAll / Many / Many1 / SepBy /
      SepBy1 and the translated setters Token / Name / HandleResult(ReturnSingle()) / Bind) over `gWorld cfg root fuel` and
      the handles of the operands; `ref k` (a parser variable, through which the grammar's recursion goes) calls the
      handle `refH k` in `gWorld cfg root fuel`;
    * the only leaves taken from the model are the terminals (`Terminal.parse`: C08's subject) and the reader's functions
      (`WorldRel` holds by construction; C10P ties them to the translated reader);
    * fuel 0 = out of fuel; a handle that names nothing = a Go panic.

  COVERED: EVERY constructor of `G` (term, empty, eof, ref, memo, any, choice, seq with its three kinds and all options —
  hence `G.sentence` —, many, sepBy, optional, name, ltrim, rtrim, single, suppress), for every grammar that is `Closed`:
  every `ref k` in the root and in the rules has `k < cfg.env.length`.  The exclusion is necessary and is a difference of
  REPRESENTATION only: calling a nil parser variable is a Go panic in the translated program, while the model reports it
  as an error value of kind `.panic` (`c01q_dangling_ref`).  `cfg.maxCalls = 0`: the model's work budget is off (the Go
  code has none).

  PROVED
    * `c01q_world_step`     what `gWorld` IS: the translated closures, constructor by constructor;
    * `c01q_closed_world`   for every closed grammar, fuel, context, position and related states the world's `parse` on the
                            handle of ANY sub-parser of the table corresponds to `run cfg fuel` on that sub-parser
                            (`Agrees`, spelled out in `c01q_closed_world_run`), by induction on the fuel with the ties
                            of C01P as the induction step (`CW.node_agrees`);
    * `c01q_parse`          the translated `parsley.Parse` over `gWorld` is the model's `parse`;
    * corollaries about the TRANSLATED program only (no `run`, no `parse` in the statements):
        `c01q_no_panic`       it never panics (no nil-parser call, no nil-map write, no index out of range, …);
        `c01q_xor`            C04: exactly one of node / error (from `c04_xor`);
        `c01q_terminates`     C02: for `wfT`-certified grammars there is a fuel beyond which it answers — it does not
                              return `nofuel` (from `c02u_terminates_parse`);
        `c01q_fuel_mono`      once it answers, more fuel gives the same node and error (from `parse_mono`): the fuel is a
                              device of the translation, not an observable;
        `c01q_sound`          C01 soundness: every tree it returns is a derivation (`Derives`) of the root at the start of
                              the file (from `c01_sound_parse`);
    * `c01q_arith`          non-vacuity: the left-recursive arithmetic grammar `Garith` (Props/C05.lean) as handles over
                            `gWorld`: closed, agrees with `run`, terminates on every input, every returned tree is
                            `Sentence[e, EOF]` with `e` an expression tree.
-/
import ParsleyVerif.Proofs.CoreWorldTie
import ParsleyVerif.Props.C01P
import ParsleyVerif.Props.C04
import ParsleyVerif.Props.C02U
import ParsleyVerif.Props.C05
import ParsleyVerif.Proofs.RunMono
namespace PV
open PV.CoreTie PV.FactsCore PV.CW PV.WFT

/-! ### 1. the world is the translated code -/

/-- **what the closed world is.**  On the handle of a path that leads to the sub-parser `g`, the world with fuel+1 runs
    `CW.node … g` over the world with fuel; `node` is, constructor by constructor, the translated closure of the
    combinator applied to the handles of the operands.  Fuel 0 answers "out of fuel"; a handle that is not a path of the
    table is a Go panic. -/
theorem c01q_world_step (cfg : Cfg) (root : G) (fuel : Nat) (π : List Nat) :
    let W := gWorld cfg root fuel
    (∀ g, resolve (table cfg root) π = some g → (gWorld cfg root (fuel + 1)).parse (hdl π) = node cfg W fuel π g) ∧
    (resolve (table cfg root) π = none → ∀ m pos s, (gWorld cfg root (fuel + 1)).parse (hdl π) m pos s = .panic) ∧
    (∀ p m pos s, (gWorld cfg root 0).parse p m pos s = .nofuel) ∧
    (∀ t, node cfg W fuel π (.term t) = Terminal_parse cfg t) ∧
    node cfg W fuel π .empty = Empty_parse W ∧
    node cfg W fuel π .eof =
      End_parse W (CorePrelude.errors_New (CorePrelude.Go.str "was expecting the end of input")) ∧
    (∀ k, node cfg W fuel π (.ref k) = W.parse (refH k)) ∧
    (∀ idx b, node cfg W fuel π (.memo idx b) = Memoize_parse W (kidH π 0) (idx : Int)) ∧
    (∀ gs, node cfg W fuel π (.any gs) = Any_parse W (kidsH π gs.length)) ∧
    (∀ gs, node cfg W fuel π (.choice gs) = Choice_parse W (kidsH π gs.length)) ∧
    (∀ b, node cfg W fuel π (.optional b) = Optional_parse W (kidH π 0)) ∧
    (∀ b nm, node cfg W fuel π (.name b nm) = ReturnError_parse W (kidH π 0) (CorePrelude.NotFoundError nm)) ∧
    (∀ b mode, node cfg W fuel π (.ltrim b mode) = LeftTrim_parse W (kidH π 0) (modeCode mode)) ∧
    (∀ b mode, node cfg W fuel π (.rtrim b mode) = RightTrim_parse W (kidH π 0) (modeCode mode)) ∧
    (∀ b, node cfg W fuel π (.single b) = Single_parse W (kidH π 0)) ∧
    (∀ b, node cfg W fuel π (.suppress b) = SuppressError_parse W (kidH π 0)) ∧
    (∀ gs o m pos, node cfg W fuel π (.seq .seqOf gs o) m pos = (do
        let oS ← SeqOf W (kidsH π gs.length)
        let S ← CorePrelude.Go.deref oS
        let S ← applyOpts W o S
        Sequence_Parse W (2 * fuel - 1) S m pos)) ∧
    (∀ gs o m pos, node cfg W fuel π (.seq .seqTry gs o) m pos = (do
        let oS ← SeqTry W (kidsH π gs.length)
        let S ← CorePrelude.Go.deref oS
        let S ← applyOpts W o S
        Sequence_Parse W (2 * fuel - 1) S m pos)) ∧
    (∀ gs o m pos, node cfg W fuel π (.seq .seqFirstOrAll gs o) m pos = (do
        let oS ← SeqFirstOrAll W (kidsH π gs.length)
        let S ← CorePrelude.Go.deref oS
        let S ← applyOpts W o S
        Sequence_Parse W (2 * fuel - 1) S m pos)) ∧
    (∀ b o m pos, node cfg W fuel π (.many b true o) m pos = (do
        let oS ← Many W (kidH π 0)
        let S ← CorePrelude.Go.deref oS
        let S ← applyOpts W o S
        Sequence_Parse W (2 * fuel - 1) S m pos)) ∧
    (∀ b o m pos, node cfg W fuel π (.many b false o) m pos = (do
        let oS ← Many1 W (kidH π 0)
        let S ← CorePrelude.Go.deref oS
        let S ← applyOpts W o S
        Sequence_Parse W (2 * fuel - 1) S m pos)) ∧
    (∀ v sp o m pos, node cfg W fuel π (.sepBy v sp true o) m pos = (do
        let oS ← SepBy W (kidH π 0) (kidH π 1)
        let S ← CorePrelude.Go.deref oS
        let S ← applyOpts W o S
        Sequence_Parse W (2 * fuel - 1) S m pos)) ∧
    (∀ v sp o m pos, node cfg W fuel π (.sepBy v sp false o) m pos = (do
        let oS ← SepBy1 W (kidH π 0) (kidH π 1)
        let S ← CorePrelude.Go.deref oS
        let S ← applyOpts W o S
        Sequence_Parse W (2 * fuel - 1) S m pos)) ∧
    (∀ (o : SeqOpts) (S : Sequence), applyOpts W o S = (do
        let S ← (match o.token with
          | some t => do let r ← Sequence_Token W S t; pure r.1
          | none => pure S)
        let S ← (match o.name with
          | some nm => do let r ← Sequence_Name W S nm; pure r.1
          | none => pure S)
        let S ← (if o.single then (do
            let h ← ReturnSingle W
            let r ← Sequence_HandleResult W S (some h)
            pure r.1) else pure S)
        let r ← Sequence_Bind W S (eInterp o.interp)
        pure r.1)) := by
  refine ⟨fun g h => gWorld_parse_succ cfg root fuel π g h, fun h m pos s => ?_, fun _ _ _ _ => rfl,
    fun _ => rfl, rfl, rfl, fun _ => rfl, fun _ _ => rfl, fun _ => rfl, fun _ => rfl, fun _ => rfl, fun _ _ => rfl,
    fun _ _ => rfl, fun _ _ => rfl, fun _ => rfl, fun _ => rfl, fun _ _ _ _ => rfl, fun _ _ _ _ => rfl,
    fun _ _ _ _ => rfl, fun _ _ _ _ => rfl, fun _ _ _ _ => rfl, fun _ _ _ _ _ => rfl, fun _ _ _ _ _ => rfl, fun _ _ => rfl⟩
  show dispatch cfg root (gWorld cfg root fuel) fuel (hdl π) m pos s = _
  simp only [dispatch, hdl, Encodable.encodek, h]
  rfl

/-! ### 2. the closed-world theorem -/

/-- **C01Q, closed world.**  For every configuration without work budget and every closed grammar (root + rules), at every
    fuel: the reader of `gWorld` is the model's file; the world's `parse` on the root handle agrees with `run cfg fuel root`,
    on the handle of the parser variable `k` with `run` on the rule `k`, and on the handle of ANY path with `run` on the
    sub-parser the path leads to. -/
theorem c01q_closed_world (cfg : Cfg) (h0 : cfg.maxCalls = 0) (root : G) (hc : Closed cfg root) (fuel : Nat) :
    WorldRel (gWorld cfg root fuel) cfg ∧
    Agrees (gWorld cfg root fuel) cfg fuel rootH root ∧
    (∀ k g, cfg.env[k]? = some g → Agrees (gWorld cfg root fuel) cfg fuel (refH k) g) ∧
    (∀ π g, resolve (table cfg root) π = some g → Agrees (gWorld cfg root fuel) cfg fuel (hdl π) g) :=
  ⟨gWorld_rel cfg root fuel, gWorld_agrees cfg h0 root hc fuel [0] root (resolve_root cfg root),
   fun k g hk => gWorld_agrees cfg h0 root hc fuel [k + 1] g (resolve_ref cfg root k g hk),
   gWorld_agrees cfg h0 root hc fuel⟩

/-- … spelled out: the outcome of the translated call corresponds (`Corr`: out of fuel on both sides, or the embedded
    (node, curtailing set, error) triple in a related state) to the outcome of `run` -/
theorem c01q_closed_world_run (cfg : Cfg) (h0 : cfg.maxCalls = 0) (root : G) (hc : Closed cfg root) (fuel : Nat)
    (m : IntMap) (c : Ctx) (pos : Nat) (s : Context) (st : St) (hm : CtxRel m c) (hs : StRel s st) :
    match run cfg fuel root c pos st with
    | none => (gWorld cfg root fuel).parse rootH m (pos : Int) s = .nofuel
    | some (o, st') => ∃ s', (gWorld cfg root fuel).parse rootH m (pos : Int) s = .ok (eOut o) s' ∧ StRel s' st' := by
  have h := (c01q_closed_world cfg h0 root hc fuel).2.1 m c pos s st hm hs
  cases hr : run cfg fuel root c pos st with
  | none => rw [hr] at h; exact h
  | some r => obtain ⟨o, st'⟩ := r; rw [hr] at h; exact h

/-- the step of the induction, in ANY world: `c01_translated_core` and `c01p_sequence_family` for all constructors at once -/
theorem c01q_step (W : World Context) (cfg : Cfg) (h0 : cfg.maxCalls = 0) (hw : WorldRel W cfg) (fuel : Nat)
    (π : List Nat) (g : G)
    (hkids : ∀ i k, (kids g)[i]? = some k → Agrees W cfg fuel (kidH π i) k)
    (href : ∀ k, g = .ref k → ∃ g', cfg.env[k]? = some g' ∧ Agrees W cfg fuel (refH k) g') :
    AgreesF (node cfg W fuel π g) cfg (fuel + 1) g :=
  node_agrees W cfg h0 hw fuel π g hkids href

/-- `Closed` is decidable by a structural checker -/
theorem c01q_closed_check (cfg : Cfg) (root : G) (h : closedB cfg.env root = true) : Closed cfg root :=
  closedB_sound cfg root h

/-- **why a dangling `ref` is excluded** (a difference of representation): with no rule 0, the parser variable `ref 0` is
    nil; the translated program PANICS when it is called, the model reports an error VALUE of kind `.panic` -/
theorem c01q_dangling_ref (cfg : Cfg) (h0 : cfg.maxCalls = 0) (henv : cfg.env = []) (fuel : Nat) (m : IntMap) (c : Ctx)
    (pos : Nat) (s : Context) (st : St) :
    (gWorld cfg (.ref 0) (fuel + 2)).parse rootH m (pos : Int) s = .panic ∧
    run cfg (fuel + 2) (.ref 0) c pos st = some (⟨.nil, [], some ⟨pos, .panic (tokOf "nil parser")⟩⟩, st) ∧
    ¬ Closed cfg (.ref 0) := by
  refine ⟨?_, ?_, fun hc => ?_⟩
  · have h1 := gWorld_parse_succ cfg (.ref 0) (fuel + 1) [0] (.ref 0) (resolve_root cfg _)
    have h2 : resolve (table cfg (.ref 0)) [0 + 1] = none := by simp [resolve, table, henv]
    show (gWorld cfg (.ref 0) (fuel + 1 + 1)).parse (hdl [0]) m (pos : Int) s = .panic
    rw [h1]
    exact (c01q_world_step cfg (.ref 0) fuel [0 + 1]).2.1 h2 m pos s
  · rw [run, if_neg (run_budget0 cfg h0 st)]
    simp [henv]
  · have := G.All_self hc.root 0 rfl
    simp [henv] at this

/-- **parsley.Parse**, translated, over the closed world on the root handle IS the model's `parse`: same node, the error
    the model chooses (rendered symbolically, `eParseErr`), related final states; out of fuel exactly when the model is -/
theorem c01q_parse (cfg : Cfg) (h0 : cfg.maxCalls = 0) (root : G) (hc : Closed cfg root) (fuel : Nat)
    (s : Context) (st : St) (hs : StRel s st) :
    match parse cfg fuel root st with
    | none => Parse (gWorld cfg root fuel) rootH s = .nofuel
    | some po => ∃ s', Parse (gWorld cfg root fuel) rootH s = .ok (eRes po.res, eParseErr po.err) s' ∧ StRel s' po.st :=
  c01p_parse (gWorld cfg root fuel) cfg (gWorld_rel cfg root fuel) fuel rootH root
    (c01q_closed_world cfg h0 root hc fuel).2.1 s st hs

/-! ### 3. theorems of the model, transferred to the translated program

    The statements below mention the translated `Parse`, the world `gWorld` and the translated context only.
    `WellFormedCtx s` says that `s` is a context the translated program can be in: a fresh one (`exState`, what
    parsley.NewContext makes) or any one related to some state of the model. -/

/-- a translated context that shows some model state (call count, furthest error, result cache) -/
def CW.WellFormedCtx (s : Context) : Prop := ∃ st : St, StRel s st

theorem c01q_fresh_wellFormed : WellFormedCtx exState := ⟨{}, exState_rel⟩

/-- **no panic**: on a closed grammar the translated `Parse` never panics — no nil parser is called, no nil map is written,
    no index is out of range, no nil error is asked for its position, at any fuel, from any well-formed context -/
theorem c01q_no_panic (cfg : Cfg) (h0 : cfg.maxCalls = 0) (root : G) (hc : Closed cfg root) (fuel : Nat)
    (s : Context) (hs : WellFormedCtx s) : Parse (gWorld cfg root fuel) rootH s ≠ .panic := by
  obtain ⟨st, hst⟩ := hs
  have h := c01q_parse cfg h0 root hc fuel s st hst
  cases hp : parse cfg fuel root st with
  | none => rw [hp] at h; simp only at h; rw [h]; exact fun h => nomatch h
  | some po => rw [hp] at h; obtain ⟨s', e, -⟩ := h; rw [e]; exact fun h => nomatch h

/-- **C04 (node xor error), of the translated program**: whenever the translated `Parse` answers, it returns either a
    non-nil node and a nil error, or a nil node and a non-nil error -/
theorem c01q_xor (cfg : Cfg) (h0 : cfg.maxCalls = 0) (root : G) (hc : Closed cfg root) (fuel : Nat)
    (s : Context) (hs : WellFormedCtx s) (n : CNode) (e : CCause) (s' : Context)
    (h : Parse (gWorld cfg root fuel) rootH s = .ok (n, e) s') :
    (n.isNil = false ∧ e.isNil = true) ∨ (n.isNil = true ∧ e.isNil = false) := by
  obtain ⟨st, hst⟩ := hs
  have hq := c01q_parse cfg h0 root hc fuel s st hst
  cases hp : parse cfg fuel root st with
  | none => rw [hp] at hq; simp only at hq; rw [hq] at h; cases h
  | some po =>
    rw [hp] at hq
    obtain ⟨s1, e1, -⟩ := hq
    rw [e1] at h
    injection h with h1 h2
    injection h1 with hn he
    subst hn; subst he
    rcases c04_xor cfg fuel root st po hp with ⟨a, b, -⟩ | ⟨a, b, -⟩
    · left; rw [eRes_isNil, a, b]; exact ⟨rfl, rfl⟩
    · right
      rw [eRes_isNil, a]
      cases he : po.err with
      | none => simp [he] at b
      | some er => exact ⟨rfl, rfl⟩

/-- **C02 (termination), of the translated program**: for a grammar certified by `wfT` (Spec/WFTrim.lean: every
    left-recursive cycle goes through a Memoize, no Many / SepBy over a nullable operand; `rx` says which Regexp
    terminals may match the empty string, `RxSound`) there is a fuel from which on the translated `Parse`, from a fresh
    context, ANSWERS — it does not return `nofuel` (nor panics) -/
theorem c01q_terminates (rx : Nat → Bool) (cert : WFCert) (cfg : Cfg) (h0 : cfg.maxCalls = 0) (root : G)
    (hc : Closed cfg root) (hwf : wfT rx cert cfg.env root = true) (hrx : RxSound rx cfg.params) :
    ∃ F, ∀ fuel, F ≤ fuel → ∃ n e s', Parse (gWorld cfg root fuel) rootH exState = .ok (n, e) s' := by
  obtain ⟨F, hF⟩ := c02u_terminates_parse rx cert cfg root hwf h0 hrx
  refine ⟨F, fun fuel hle => ?_⟩
  have hq := c01q_parse cfg h0 root hc fuel exState {} exState_rel
  cases hp : parse cfg fuel root with
  | none => have := hF fuel hle; rw [hp] at this; cases this
  | some po => rw [hp] at hq; obtain ⟨s', e, -⟩ := hq; exact ⟨_, _, s', e⟩

/-- … with every Regexp treated as nullable: no hypothesis on the regexp engine, ParseFloat, ParseDuration or the file -/
theorem c01q_terminates_any_engine (cert : WFCert) (cfg : Cfg) (h0 : cfg.maxCalls = 0) (root : G)
    (hc : Closed cfg root) (hwf : wfT rxAll cert cfg.env root = true) :
    ∃ F, ∀ fuel, F ≤ fuel → ∃ n e s', Parse (gWorld cfg root fuel) rootH exState = .ok (n, e) s' :=
  c01q_terminates rxAll cert cfg h0 root hc hwf (rxSound_all cfg.params)

/-- **the fuel is not observable**: once the translated `Parse` answers, every larger fuel gives the same node and error -/
theorem c01q_fuel_mono (cfg : Cfg) (h0 : cfg.maxCalls = 0) (root : G) (hc : Closed cfg root) (f1 f2 : Nat)
    (hle : f1 ≤ f2) (s : Context) (hs : WellFormedCtx s) (n : CNode) (e : CCause) (s1 : Context)
    (h : Parse (gWorld cfg root f1) rootH s = .ok (n, e) s1) :
    ∃ s2, Parse (gWorld cfg root f2) rootH s = .ok (n, e) s2 := by
  obtain ⟨st, hst⟩ := hs
  have hq1 := c01q_parse cfg h0 root hc f1 s st hst
  have hq2 := c01q_parse cfg h0 root hc f2 s st hst
  cases hp : parse cfg f1 root st with
  | none => rw [hp] at hq1; simp only at hq1; rw [hq1] at h; cases h
  | some po =>
    rw [hp] at hq1
    rw [parse_mono cfg f1 f2 hle root st po hp] at hq2
    obtain ⟨t1, e1, -⟩ := hq1
    obtain ⟨t2, e2, -⟩ := hq2
    rw [e1] at h
    injection h with h1 h2
    exact ⟨t2, by rw [e2, h1]⟩

/-- **C01 soundness, of the translated program**: every tree the translated `Parse` returns from a fresh context — the
    node itself, or each element of the returned ast.NodeList — is the image of a tree that the grammar DERIVES
    (`Derives`, Spec/Derives.lean: the declarative meaning of the combinators) from the root at the start of the file.
    `GOK bodyOf`: the scope of `c01_sound` (each Memoize index wraps one parser, …). -/
theorem c01q_sound (cfg : Cfg) (h0 : cfg.maxCalls = 0) (root : G) (hc : Closed cfg root) (bodyOf : Nat → G)
    (henv : ∀ g' ∈ cfg.env, GOK bodyOf g') (hg : GOK bodyOf root) (fuel : Nat) (n : CNode) (e : CCause) (s' : Context)
    (h : Parse (gWorld cfg root fuel) rootH exState = .ok (n, e) s') :
    ∃ r : Res, n = eRes r ∧ ∀ x ∈ r.alts, Derives cfg root (cfg.file.pos 0) x := by
  have hq := c01q_parse cfg h0 root hc fuel exState {} exState_rel
  cases hp : parse cfg fuel root with
  | none => rw [hp] at hq; simp only at hq; rw [hq] at h; cases h
  | some po =>
    rw [hp] at hq
    obtain ⟨s1, e1, -⟩ := hq
    rw [e1] at h
    injection h with h1 h2
    injection h1 with hn he
    exact ⟨po.res, hn.symm, c01_sound_parse cfg bodyOf henv fuel root hg po hp⟩

/-! ### 4. non-vacuity: the left-recursive arithmetic grammar -/

theorem c01q_arith_closed (cfg : Cfg) (henv : cfg.env = Garith.env) : Closed cfg Garith.root :=
  c01q_closed_check cfg Garith.root (by rw [henv]; decide)

/-- **the arithmetic grammar** (`Garith`, Props/C05.lean: expr / term left-recursive through Memoize, factor with
    parentheses, the root a Sentence) as handles over `gWorld`, for EVERY input file: the grammar is closed; the translated
    world agrees with `run` on the root and on the three rules at every fuel; the translated `Parse` is the model's; it
    never panics; from some fuel on it answers; every answer is a node xor an error; every returned tree is (the image
    of) `Sentence[e, EOF]` with `e` an expression tree that ends at the end of the input. -/
theorem c01q_arith (cfg : Cfg) (henv : cfg.env = Garith.env) (h0 : cfg.maxCalls = 0) :
    Closed cfg Garith.root ∧
    (∀ fuel, Agrees (gWorld cfg Garith.root fuel) cfg fuel rootH Garith.root ∧
      Agrees (gWorld cfg Garith.root fuel) cfg fuel (refH 0) Garith.expr ∧
      Agrees (gWorld cfg Garith.root fuel) cfg fuel (refH 1) Garith.term ∧
      Agrees (gWorld cfg Garith.root fuel) cfg fuel (refH 2) Garith.factor) ∧
    (∀ fuel, Parse (gWorld cfg Garith.root fuel) rootH exState ≠ .panic) ∧
    (∃ F, ∀ fuel, F ≤ fuel → ∃ n e s', Parse (gWorld cfg Garith.root fuel) rootH exState = .ok (n, e) s') ∧
    (∀ fuel n e s', Parse (gWorld cfg Garith.root fuel) rootH exState = .ok (n, e) s' →
      ((n.isNil = false ∧ e.isNil = true) ∨ (n.isNil = true ∧ e.isNil = false)) ∧
      ∃ r : Res, n = eRes r ∧
        ∀ x ∈ r.alts, ∃ t, IsExprTree cfg.file t ∧ Text.isEOF cfg.file t.rpos = true ∧ x = sentenceNode t) := by
  have hc := c01q_arith_closed cfg henv
  have hok : ∀ g' ∈ cfg.env, GOK Garith.bodyOf g' := by rw [henv]; exact c05_grammar_ok.1
  refine ⟨hc, fun fuel => ?_, fun fuel => c01q_no_panic cfg h0 _ hc fuel _ c01q_fresh_wellFormed, ?_, fun fuel n e s' h => ?_⟩
  · obtain ⟨-, hr, hk, -⟩ := c01q_closed_world cfg h0 Garith.root hc fuel
    exact ⟨hr, hk 0 _ (by rw [henv]; rfl), hk 1 _ (by rw [henv]; rfl), hk 2 _ (by rw [henv]; rfl)⟩
  · exact c01q_terminates_any_engine C02UNV.arithCert cfg h0 Garith.root hc (by rw [henv]; exact C02UNV.wfT_arith)
  · refine ⟨c01q_xor cfg h0 _ hc fuel _ c01q_fresh_wellFormed n e s' h, ?_⟩
    obtain ⟨r, hn, hd⟩ := c01q_sound cfg h0 _ hc Garith.bodyOf hok c05_grammar_ok.2 fuel n e s' h
    exact ⟨r, hn, fun x hx => c05_tree_shape cfg henv _ x (hd x hx)⟩

/-! ### TESTS (evaluated by the compiler — not proofs): the translated program RUNS

    `Data.IntSet_Union` and `cpUnion` are defined by well-founded recursion, so the kernel cannot evaluate Any / Choice;
    the compiled code can.  On "1+2*3" the translated `Parse` over `gWorld` returns the tree of 1+(2*3) after 204 calls of
    `RegisterCall` — node, error and call count are the model's (as `c01q_parse` proves for every input). -/

namespace CW

/-- the arithmetic rules over a file -/
def arithCfg (data : Text.Bytes) : Cfg :=
  { env := Garith.env, file := { name := "f", data := data, offset := 1 }, fileSet := {},
    params := { floatOk := fun _ => true, durErr := fun _ => none, regexp := fun _ _ => none } }

mutual
/-- a serialisation of translated nodes (they have no decidable equality) -/
def flat : CNode → List Int
  | .nil => [0]
  | .empty p => [1, p]
  | .eof p => [2, p]
  | .list l => 3 :: flatL l ++ [-1]
  | .nonterm t c p r i => 4 :: (t.length : Int) :: t.map Int.ofNat ++ p :: r :: (i.length : Int) :: i ++ flatL c ++ [-1]
  | .leaf t v p r => 5 :: (t.length : Int) :: t.map Int.ofNat ++ p :: r :: (v.length : Int) :: v
def flatL : List CNode → List Int
  | [] => []
  | n :: r => flat n ++ flatL r
end

/-- translated `Parse` over `gWorld` vs. the model's `parse`: same node, same error, same call count (or both out of fuel) -/
def sameAnswer (cfg : Cfg) (root : G) (fuel : Nat) : Bool :=
  match Parse (gWorld cfg root fuel) rootH exState, parse cfg fuel root with
  | .ok (n, e) s', some po =>
    flat n == flat (eRes po.res) && decide (e = eParseErr po.err) && decide (s'.callCount = (po.st.calls : Int))
  | .nofuel, none => true
  | _, _ => false

/-- the translated `Parse` answers with a node -/
def answersNode (cfg : Cfg) (root : G) (fuel : Nat) : Bool :=
  match Parse (gWorld cfg root fuel) rootH exState with
  | .ok (n, e) _ => !n.isNil && e.isNil
  | _ => false

/-- the translated `Parse` answers with an error -/
def answersErr (cfg : Cfg) (root : G) (fuel : Nat) : Bool :=
  match Parse (gWorld cfg root fuel) rootH exState with
  | .ok (n, e) _ => n.isNil && !e.isNil
  | _ => false

end CW

example (data : Text.Bytes) : (CW.arithCfg data).env = Garith.env ∧ (CW.arithCfg data).maxCalls = 0 := ⟨rfl, rfl⟩

-- "1+2*3": a tree; " ( 1 + 2 ) * 3 ": a tree; "1+": an error; fuel 10: out of fuel on both sides
#guard CW.answersNode (CW.arithCfg [49, 43, 50, 42, 51]) Garith.root 200
#guard CW.sameAnswer (CW.arithCfg [49, 43, 50, 42, 51]) Garith.root 200
#guard CW.answersNode (CW.arithCfg [32, 40, 32, 49, 32, 43, 32, 50, 32, 41, 32, 42, 32, 51, 32]) Garith.root 300
#guard CW.sameAnswer (CW.arithCfg [32, 40, 32, 49, 32, 43, 32, 50, 32, 41, 32, 42, 32, 51, 32]) Garith.root 300
#guard CW.answersErr (CW.arithCfg [49, 43]) Garith.root 200
#guard CW.sameAnswer (CW.arithCfg [49, 43]) Garith.root 200
#guard CW.sameAnswer (CW.arithCfg [49, 43, 50, 42, 51]) Garith.root 10

end PV
