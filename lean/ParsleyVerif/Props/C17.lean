/-
  C17 — Work stays polynomial on unambiguous grammars, left-recursive or not.        (claimed PARTIAL)

  Model: ParsleyVerif/Model/Run.lean.  `St.calls` is the counter behind `Context.RegisterCall`; its three
  call sites are Any (per alternative), Choice (per alternative tried) and `(*sequence).parse` (per element
  invocation): `St.regCall`.  Proofs: ParsleyVerif/Proofs/CallsAcct.lean, CallsRun.lean (accounting, every
  grammar), CallsGhost.lean (the ghost flag), CallsPbA.lean (the closed form for `P → P b | a`).

  THEOREMS FOR ALL GRAMMARS / ALL n (no bound on anything):
  * `c17_det`, `c17_det_ghost`, `c17_det_offset` — the call count is a function of (grammar, environment,
    input): it is the same for every fuel that answers, with the event log on or off, and wherever the file
    is placed in a file set.
  * `c17_calls_mono`, `c17_accounting`, `c17_any`, `c17_choice`, `c17_seqfam` — the accounting identity:
    leaves, cache hits, curtailments, references and the wrapper combinators make no call; Memoize makes
    exactly the calls of its body; Any / Choice / the Sequence family make one call per invocation of a
    sub-parser plus the calls made inside those invocations.
  * `c17_closed_PbA`, `c17_closed_PbA_all` — family 1 of the suite (`P → P b | a` under Sentence, input
    `a b^(n-1)`): the parse succeeds and makes EXACTLY (n² + 9n + 16)/2 calls, for EVERY n ≥ 1 (a theorem
    about the model's run, proved by induction over the left spine — not an evaluation).
  * `c17_double_PbA`, `c17_double_PbA_parse`, `c17_quadratic_PbA` — doubling the input multiplies that count
    by at most 4 (≤ 16); the count is at most 13 n².
  * `c17_closed_brackets`, `c17_closed_brackets_all`, `c17_double_brackets` — family 5 (`S → ( S ) | a`,
    memoized, input `(^k a )^k`): EXACTLY 5k + 5 calls for EVERY k; doubling at most doubles.
  * `c17_closed_seplist`, `c17_closed_seplist_all`, `c17_double_seplist` — family 6 (`L → a (, a)*`, SepBy,
    input `a (,a)^k`): EXACTLY 2k + 4 calls for EVERY k; doubling at most doubles.

  BOUNDED CHECKS (evaluation by the kernel, labelled as such): `c17_closed_PbA_upto` (n = 1..24, independent
  of the proof above), the suite's pinned value 298 at n = 20, and — for two of the families WITHOUT a proved
  closed form — `c17_hidden_upto` (family 4, n = 1..16: (n² + 11n + 20)/2) and `c17_mutual_upto` (family 3,
  k = 0..8: 3k² + 18k + 22): measured curves, checked at those lengths only.  Family 2 (arith) cannot be
  evaluated by the kernel (`cpUnion` is defined by well-founded recursion); its counts are compared by the
  correspondence run only.

  NOT PROVED: closed forms or bounds for the other three families (arith, mutual, hidden) and the general
  statement `c17_calls_bound_STATEMENT` (kept below as a comment).  For those the evidence is
  the correspondence run: the compiled model and the implementation agree on every call count at every
  length exercised, and calls(2n)/calls(n) ≤ 16 is checked on both — bounded exploration.
-/
import ParsleyVerif.Proofs.CallsPbA
import ParsleyVerif.Proofs.CallsFam
import ParsleyVerif.Proofs.CallsOther
import ParsleyVerif.Proofs.CallsGhost
import ParsleyVerif.Proofs.RunMono
import ParsleyVerif.Props.C12
import ParsleyVerif.Generated.Facts
namespace PV
open PV.Text PV.C17

/-! ## 1. the call count is a function of (grammar, environment, input) -/

/-- any two fuels that answer give the same answer altogether (`fuel` bounds the recursion depth of the model
    only; it is not an input of the modelled code) -/
theorem c17_det_full (cfg : Cfg) (f1 f2 : Nat) (g : G) (p1 p2 : ParseOut)
    (h1 : parse cfg f1 g = some p1) (h2 : parse cfg f2 g = some p2) : p1 = p2 := by
  have key : ∀ (a b : Nat), a ≤ b → ∀ pa pb, parse cfg a g = some pa → parse cfg b g = some pb → pa = pb := by
    intro a b hab pa pb ha hb
    have := parse_mono cfg a b hab g {} pa ha
    rw [hb] at this
    cases this
    rfl
  rcases Nat.le_total f1 f2 with h | h
  · exact key f1 f2 h p1 p2 h1 h2
  · exact (key f2 f1 h p2 p1 h2 h1).symm

/-- **same count for every fuel that answers** -/
theorem c17_det (cfg : Cfg) (f1 f2 : Nat) (g : G) (p1 p2 : ParseOut)
    (h1 : parse cfg f1 g = some p1) (h2 : parse cfg f2 g = some p2) : p1.st.calls = p2.st.calls := by
  rw [c17_det_full cfg f1 f2 g p1 p2 h1 h2]

/-- the same for `run` from any state, any left-recursion context -/
theorem c17_det_run (cfg : Cfg) (f1 f2 : Nat) (g : G) (ctx : Ctx) (pos : Nat) (st : St) (o1 o2 : Out) (s1 s2 : St)
    (h1 : run cfg f1 g ctx pos st = some (o1, s1)) (h2 : run cfg f2 g ctx pos st = some (o2, s2)) :
    s1.calls = s2.calls := by
  rcases Nat.le_total f1 f2 with h | h
  · have := run_mono cfg f1 f2 h _ _ _ _ _ h1
    rw [h2] at this; cases this; rfl
  · have := run_mono cfg f2 f1 h _ _ _ _ _ h2
    rw [h1] at this; cases this; rfl

/-- **the ghost flag** (whether the model keeps its event log — there is no such thing in the Go code) is
    not observable: same result, error, message and call count with the flag set either way -/
theorem c17_det_ghost (cfg : Cfg) (b : Bool) (fuel : Nat) (g : G) :
    (parse { cfg with ghost := b } fuel g).map (fun p => (p.res, p.err, p.msg, p.st.calls)) =
      (parse cfg fuel g).map (fun p => (p.res, p.err, p.msg, p.st.calls)) := by
  have h1 := parse_ghost cfg fuel g {}
  have h2 := parse_ghost { cfg with ghost := b } fuel g {}
  rw [show noLog {} = ({} : St) from rfl] at h1 h2
  have e : ({ ({ cfg with ghost := b } : Cfg) with ghost := false } : Cfg) = { cfg with ghost := false } := rfl
  rw [e, h1] at h2
  have := congrArg (Option.map (fun p : ParseOut => (p.res, p.err, p.msg, p.st.calls))) h2
  simp only [Option.map_map] at this
  cases hp : parse cfg fuel g <;> cases hq : parse { cfg with ghost := b } fuel g <;>
    simp only [hp, hq, Option.map_some, Option.map_none] at this ⊢
  · cases this
  · cases this
  · simp only [Function.comp, Option.some.injEq] at this ⊢
    exact this.symm

/-- **the base offset of the file** (where it was placed in its file set) does not influence the count
    (from C12: `c12_run_calls`) -/
theorem c17_det_offset (b : Nat) (cfg : Cfg) (hoff : 1 ≤ cfg.file.offset) (fuel : Nat) (g : G) :
    (parse (shiftCfg b cfg) fuel g).map (·.st.calls) = (parse cfg fuel g).map (·.st.calls) := by
  have hp : ∀ (c : Cfg) (st : St), (parse c fuel g st).map (·.st.calls) =
      (run c fuel g [] (c.file.pos 0) st).map (·.2.calls) := by
    intro c st
    simp only [parse]
    cases run c fuel g [] (c.file.pos 0) st with
    | none => rfl
    | some x =>
      obtain ⟨o, s⟩ := x
      simp only
      split <;> rfl
  rw [hp, hp]
  have := c12_run_calls b cfg hoff fuel g [] (cfg.file.pos 0) {}
  rw [show St.shift b {} = ({} : St) from rfl] at this
  have e : (shiftCfg b cfg).file.pos 0 = cfg.file.pos 0 + b := by
    simp only [shiftCfg, shiftFile, File.pos]; omega
  rw [e]
  have := congrArg (Option.map Prod.snd) this
  simpa [Option.map_map, Function.comp_def] using this

/-! ## 2. the accounting identity — every grammar, environment, input, state, fuel -/

/-- the counter never goes down: `cost st st'` is the number of calls a run made -/
theorem c17_calls_mono (cfg : Cfg) (fuel : Nat) (g : G) (ctx : Ctx) (pos : Nat) (st : St) (o : Out) (st' : St)
    (h : run cfg fuel g ctx pos st = some (o, st')) : st.calls ≤ st'.calls ∧ st'.calls = st.calls + cost st st' := by
  have := run_calls_le cfg fuel g ctx pos st o st' h
  exact ⟨this, by unfold cost; omega⟩

/-- **what makes no call**: terminals, Empty, End; a cache hit (the stored outcome is returned); a
    curtailment; a dangling reference.  **What passes the calls of its sub-parser through**: a reference,
    Memoize on a miss (the body runs once, from a state with the same count), Optional, Name, ReturnSingle,
    SuppressError, the trims. -/
theorem c17_accounting (cfg : Cfg) (fuel : Nat) (ctx : Ctx) (pos : Nat) (st : St) (o : Out) (st' : St) :
    (∀ t, run cfg (fuel + 1) (.term t) ctx pos st = some (o, st') → cost st st' = 0) ∧
    (run cfg (fuel + 1) .empty ctx pos st = some (o, st') → cost st st' = 0) ∧
    (run cfg (fuel + 1) .eof ctx pos st = some (o, st') → cost st st' = 0) ∧
    (∀ idx body e, cacheGet st.cache idx pos ctx = some e →
      run cfg (fuel + 1) (.memo idx body) ctx pos st = some (o, st') →
      cost st st' = 0 ∧ o = ⟨e.res, e.cp, e.err⟩) ∧
    (∀ idx body, cacheGet st.cache idx pos ctx = none →
      ctx.get idx > remaining cfg.file pos + Facts.curtailSlack →
      run cfg (fuel + 1) (.memo idx body) ctx pos st = some (o, st') →
      cost st st' = 0 ∧ o = ⟨.nil, [idx], none⟩) ∧
    (∀ idx body, cacheGet st.cache idx pos ctx = none →
      ¬ ctx.get idx > remaining cfg.file pos + Facts.curtailSlack →
      run cfg (fuel + 1) (.memo idx body) ctx pos st = some (o, st') →
      ∃ st1 st2, st1.calls = st.calls ∧ st1.cache = st.cache ∧
        run cfg fuel body (ctx.inc idx) pos st1 = some (o, st2) ∧ cost st st' = cost st1 st2) ∧
    (∀ k, run cfg (fuel + 1) (.ref k) ctx pos st = some (o, st') →
      (∃ g', cfg.env[k]? = some g' ∧ run cfg fuel g' ctx pos st = some (o, st')) ∨
      (cfg.env[k]? = none ∧ cost st st' = 0)) ∧
    (∀ g, run cfg (fuel + 1) (.optional g) ctx pos st = some (o, st') →
      ∃ o1, run cfg fuel g ctx pos st = some (o1, st')) ∧
    (∀ g nm, run cfg (fuel + 1) (.name g nm) ctx pos st = some (o, st') →
      ∃ o1, run cfg fuel g ctx pos st = some (o1, st')) ∧
    (∀ g, run cfg (fuel + 1) (.single g) ctx pos st = some (o, st') →
      ∃ o1, run cfg fuel g ctx pos st = some (o1, st')) ∧
    (∀ g, run cfg (fuel + 1) (.suppress g) ctx pos st = some (o, st') →
      ∃ o1, run cfg fuel g ctx pos st = some (o1, st')) ∧
    (∀ g m, run cfg (fuel + 1) (.rtrim g m) ctx pos st = some (o, st') →
      ∃ o1, run cfg fuel g ctx pos st = some (o1, st')) ∧
    (∀ g m, run cfg (fuel + 1) (.ltrim g m) ctx pos st = some (o, st') →
      ∃ o1 st1, run cfg fuel g ctx (skipWhitespaces cfg.file pos m).1 st = some (o1, st1) ∧
        cost st st' = cost st st1) := by
  have z : ∀ {a b : St}, b.calls = a.calls → cost a b = 0 := by
    intro a b h; unfold cost; omega
  refine ⟨fun t h => z (calls_term cfg fuel ctx pos st o st' t h),
    fun h => z (calls_empty cfg fuel ctx pos st o st' h),
    fun h => z (calls_eof cfg fuel ctx pos st o st' h),
    fun idx body e hc h => ?_, fun idx body hc hcur h => ?_, fun idx body hc hcur h => ?_,
    fun k h => ?_,
    fun g h => calls_optional cfg fuel ctx pos st o st' g h,
    fun g nm h => calls_name cfg fuel ctx pos st o st' g nm h,
    fun g h => calls_single cfg fuel ctx pos st o st' g h,
    fun g h => calls_suppress cfg fuel ctx pos st o st' g h,
    fun g m h => calls_rtrim cfg fuel ctx pos st o st' g m h,
    fun g m h => ?_⟩
  · obtain ⟨a, b⟩ := calls_memo_hit cfg fuel ctx pos st o st' idx body e hc h
    exact ⟨z a, b⟩
  · obtain ⟨a, b⟩ := calls_memo_curtail cfg fuel ctx pos st o st' idx body hc hcur h
    exact ⟨z a, b⟩
  · obtain ⟨st1, st2, a, b, c, d⟩ := calls_memo_body cfg fuel ctx pos st o st' idx body hc hcur h
    exact ⟨st1, st2, a, b, c, by unfold cost; rw [d, a]⟩
  · rcases calls_ref cfg fuel ctx pos st o st' k h with h | ⟨a, b⟩
    · exact .inl h
    · exact .inr ⟨a, z b⟩
  · obtain ⟨o1, st1, a, b⟩ := calls_ltrim cfg fuel ctx pos st o st' g m h
    exact ⟨o1, st1, a, by unfold cost; rw [b]⟩

/-- **Any**: every alternative is invoked once, in order, at the same position with the same context;
    `cost = |alternatives| + Σ cost(alternative i)` (`Inv.cost i` is the cost of the sub-parser's own run:
    `Inv.cost_eq`) -/
theorem c17_any (cfg : Cfg) (fuel : Nat) (ctx : Ctx) (pos : Nat) (st : St) (o : Out) (st' : St) (gs : List G)
    (h : run cfg (fuel + 1) (.any gs) ctx pos st = some (o, st')) :
    ∃ invs : List Inv, invs.map Inv.g = gs ∧
      (∀ i ∈ invs, i.ok (run cfg fuel) ∧ i.ctx = ctx ∧ i.pos = pos) ∧
      cost st st' = gs.length + (invs.map Inv.cost).sum := by
  obtain ⟨invs, a, b, c⟩ := calls_any_total cfg fuel ctx pos st o st' gs h
  exact ⟨invs, a, b, by unfold cost; omega⟩

/-- **Choice**: the alternatives are invoked in order up to the first that matches (all of them when none
    does); `cost = |alternatives tried| + Σ cost(alternative i)` -/
theorem c17_choice (cfg : Cfg) (fuel : Nat) (ctx : Ctx) (pos : Nat) (st : St) (o : Out) (st' : St) (gs : List G)
    (h : run cfg (fuel + 1) (.choice gs) ctx pos st = some (o, st')) :
    ∃ invs : List Inv, invs.map Inv.g <+: gs ∧
      (∀ i ∈ invs, i.ok (run cfg fuel) ∧ i.ctx = ctx ∧ i.pos = pos) ∧
      cost st st' = invs.length + (invs.map Inv.cost).sum ∧
      (o.res.isNil = true → invs.length = gs.length) := by
  obtain ⟨invs, a, b, c, d⟩ := calls_choice_total cfg fuel ctx pos st o st' gs h
  exact ⟨invs, a, b, by unfold cost; omega, d⟩

/-- **the Sequence family** (SeqOf, SeqTry, SeqFirstOrAll, Many, SepBy — one piece of code):
    `cost = |element invocations| + Σ cost(invocation i)`, every invoked parser being an element of the
    sequence -/
theorem c17_seqfam (cfg : Cfg) (fuel : Nat) (ctx : Ctx) (pos : Nat) (st : St) (o : Out) (st' : St)
    (g : G) (sh : SeqShape) (hs : g.shape = some sh)
    (h : run cfg (fuel + 1) g ctx pos st = some (o, st')) :
    ∃ invs : List Inv, (∀ i ∈ invs, i.ok (run cfg fuel) ∧ ∃ d, sh.lookup d = some i.g) ∧
      cost st st' = invs.length + (invs.map Inv.cost).sum := by
  obtain ⟨invs, a, b⟩ := calls_seqfam_total cfg fuel ctx pos st o st' g sh hs h
  exact ⟨invs, a, by unfold cost; omega⟩

/-- an invocation is: `RegisterCall`, then the sub-parser's run; its cost is that run's cost -/
theorem c17_inv (r : RunFn) (i : Inv) :
    (i.ok r ↔ r i.g i.ctx i.pos i.st.regCall = some (i.o, i.st')) ∧ i.st.regCall.calls = i.st.calls + 1 ∧
    i.cost = cost i.st.regCall i.st' :=
  ⟨Iff.rfl, rfl, rfl⟩

/-! ## 3. the closed form for `P → P b | a` — every n ≥ 1 -/

/-- family 1 as the harness builds it (harness/cmd/corr/c17.go): grammar table, file `a b^(n-1)` at base
    offset 1 -/
theorem c17_pbaCfg (n : Nat) :
    (pbaCfg n).env = [.memo 0 (.any [.seq .seqOf [.ref 0, .term (.rune 98 [34, 98, 34])] {},
                                      .term (.rune 97 [34, 97, 34])])] ∧
    (pbaCfg n).file.data = 97 :: List.replicate (n - 1) 98 ∧ (pbaCfg n).file.offset = 1 ∧
    (pbaCfg n).maxCalls = 0 :=
  ⟨rfl, rfl, rfl, rfl⟩

/-- **THEOREM (all n ≥ 1)**: `Sentence(P)` on `a b^(n-1)` succeeds with exactly (n² + 9n + 16)/2 calls -/
theorem c17_closed_PbA (n : Nat) (hn : 1 ≤ n) :
    ∃ fuel p, parse (pbaCfg n) fuel (G.sentence (.ref 0)) = some p ∧ p.err = none ∧
      p.st.calls = (n * n + 9 * n + 16) / 2 := by
  obtain ⟨p, h1, h2, _, h4⟩ := pba_parse (pbaCfg_is n) hn
  exact ⟨4 * n + 12, p, h1, h2, h4⟩

/-- … for every fuel that answers, and for every configuration with this grammar table and this file (any
    ghost flag, file set, terminal parameters); the result is not nil -/
theorem c17_closed_PbA_all (n : Nat) (hn : 1 ≤ n) (cfg : Cfg) (hc : IsPbA n cfg) (fuel : Nat) (p : ParseOut)
    (h : parse cfg fuel (G.sentence (.ref 0)) = some p) :
    p.err = none ∧ p.res.isNil = false ∧ p.st.calls = pbaCalls n := by
  obtain ⟨q, h1, h2, h3, h4⟩ := pba_parse hc hn
  rw [c17_det_full cfg fuel (4 * n + 12) _ p q h h1]
  exact ⟨h2, h3, h4⟩

theorem c17_pbaCalls (n : Nat) : pbaCalls n = (n * n + 9 * n + 16) / 2 := rfl

/-! ## 4. doubling -/

/-- **THEOREM (all n)**: on the closed form, doubling the input multiplies the count by at most 4 -/
theorem c17_double_PbA (n : Nat) : pbaCalls (2 * n) ≤ 4 * pbaCalls n ∧ pbaCalls (2 * n) ≤ 16 * pbaCalls n := by
  have e : (2 * n) * (2 * n) = 4 * (n * n) := by
    rw [Nat.mul_mul_mul_comm]
  unfold pbaCalls
  rw [e]
  generalize n * n = q
  omega

/-- the closed form is quadratic: at most 13 n² for n ≥ 1 (degree 2 ≤ 4) -/
theorem c17_quadratic_PbA (n : Nat) (hn : 1 ≤ n) : pbaCalls n ≤ 13 * (n * n) := by
  have : n ≤ n * n := Nat.le_mul_self n
  unfold pbaCalls
  generalize n * n = q at *
  omega

/-- … connected to the runs: for n ≥ 1 the run on the input of length 2n makes at most 4 times (hence at most
    16 times) the calls of the run on the input of length n -/
theorem c17_double_PbA_parse (n : Nat) (hn : 1 ≤ n) (f1 f2 : Nat) (p1 p2 : ParseOut)
    (h1 : parse (pbaCfg n) f1 (G.sentence (.ref 0)) = some p1)
    (h2 : parse (pbaCfg (2 * n)) f2 (G.sentence (.ref 0)) = some p2) :
    p2.st.calls ≤ 4 * p1.st.calls ∧ p2.st.calls ≤ 16 * p1.st.calls := by
  rw [(c17_closed_PbA_all n hn _ (pbaCfg_is n) f1 p1 h1).2.2,
    (c17_closed_PbA_all (2 * n) (by omega) _ (pbaCfg_is (2 * n)) f2 p2 h2).2.2]
  exact c17_double_PbA n

/-! ## 4b. families 5 (nested brackets) and 6 (separated list) — every length -/

/-- family 5 as the harness builds it: `S → ( S ) | a` memoized, file `(^k a )^k` at base offset 1 -/
theorem c17_brCfg (k : Nat) :
    (brCfg k).env = [.memo 0 (.any [.seq .seqOf [.term (.rune 40 [34, 40, 34]), .ref 0, .term (.rune 41 [34, 41, 34])] {},
                                     .term (.rune 97 [34, 97, 34])])] ∧
    (brCfg k).file.data = List.replicate k 40 ++ [97] ++ List.replicate k 41 ∧ (brCfg k).file.offset = 1 ∧
    (brCfg k).maxCalls = 0 :=
  ⟨rfl, by simp [brCfg, brFile, brData], rfl, rfl⟩

/-- **THEOREM (all k)**: `Sentence(S)` on `(^k a )^k` succeeds with exactly 5k + 5 calls -/
theorem c17_closed_brackets (k : Nat) :
    ∃ fuel p, parse (brCfg k) fuel (G.sentence (.ref 0)) = some p ∧ p.err = none ∧ p.st.calls = 5 * k + 5 := by
  obtain ⟨p, h1, h2, _, h4⟩ := br_parse (brCfg_is k)
  exact ⟨4 * k + 8, p, h1, h2, h4⟩

theorem c17_closed_brackets_all (k : Nat) (cfg : Cfg) (hc : IsBr k cfg) (fuel : Nat) (p : ParseOut)
    (h : parse cfg fuel (G.sentence (.ref 0)) = some p) :
    p.err = none ∧ p.res.isNil = false ∧ p.st.calls = 5 * k + 5 := by
  obtain ⟨q, h1, h2, h3, h4⟩ := br_parse hc
  rw [c17_det_full cfg fuel (4 * k + 8) _ p q h h1]
  exact ⟨h2, h3, h4⟩

/-- the harness's input of length parameter `n` has `k = (n-1)/2` bracket pairs; doubling `n` at most doubles
    the count (all n ≥ 1) -/
theorem c17_double_brackets (n : Nat) (hn : 1 ≤ n) :
    brCalls ((2 * n - 1) / 2) ≤ 2 * brCalls ((n - 1) / 2) := by
  unfold brCalls; omega

/-- family 6 as the harness builds it: `SepBy('a', ',')`, file `a (,a)^k` at base offset 1 -/
theorem c17_sepCfg (k : Nat) :
    (sepCfg k).env = [.sepBy (.term (.rune 97 [34, 97, 34])) (.term (.rune 44 [34, 44, 34])) false {}] ∧
    (sepCfg k).file.data = 97 :: (List.replicate k [44, 97]).flatten ∧ (sepCfg k).file.offset = 1 ∧
    (sepCfg k).maxCalls = 0 :=
  ⟨rfl, sepData_eq k, rfl, rfl⟩

/-- **THEOREM (all k)**: `Sentence(L)` on `a (,a)^k` succeeds with exactly 2k + 4 calls -/
theorem c17_closed_seplist (k : Nat) :
    ∃ fuel p, parse (sepCfg k) fuel (G.sentence (.ref 0)) = some p ∧ p.err = none ∧ p.st.calls = 2 * k + 4 := by
  obtain ⟨p, h1, h2, _, h4⟩ := sep_parse (sepCfg_is k)
  exact ⟨2 * k + 8, p, h1, h2, h4⟩

theorem c17_closed_seplist_all (k : Nat) (cfg : Cfg) (hc : IsSep k cfg) (fuel : Nat) (p : ParseOut)
    (h : parse cfg fuel (G.sentence (.ref 0)) = some p) :
    p.err = none ∧ p.res.isNil = false ∧ p.st.calls = 2 * k + 4 := by
  obtain ⟨q, h1, h2, h3, h4⟩ := sep_parse hc
  rw [c17_det_full cfg fuel (2 * k + 8) _ p q h h1]
  exact ⟨h2, h3, h4⟩

theorem c17_double_seplist (n : Nat) (hn : 1 ≤ n) :
    sepCalls ((2 * n - 1) / 2) ≤ 2 * sepCalls ((n - 1) / 2) := by
  unfold sepCalls; omega

/-- non-vacuity (evaluation): 7 bracket pairs → 40 calls; 7 separators → 18 calls -/
example : (parse (brCfg 7) 100 (G.sentence (.ref 0))).map (fun p => (p.st.calls, p.err.isNone)) = some (40, true) := by
  decide +kernel
example : (parse (sepCfg 7) 100 (G.sentence (.ref 0))).map (fun p => (p.st.calls, p.err.isNone)) = some (18, true) := by
  decide +kernel

/-! ## 5. bounded checks (evaluation; independent of the proof of `c17_closed_PbA`) -/

/-- BOUNDED CHECK, not the theorem: the model evaluated at n = 1 … 24 -/
theorem c17_closed_PbA_upto : ∀ n ∈ List.range' 1 24,
    (parse (pbaCfg n) (4 * n + 12) (G.sentence (.ref 0))).map (fun p => (p.st.calls, p.err.isNone)) =
      some ((n * n + 9 * n + 16) / 2, true) := by
  decide +kernel

/-- BOUNDED CHECK, not a theorem for all n: family 4 (hidden left recursion `P → x? P b | a`, input `a b^(n-1)`)
    evaluated at n = 1 … 16; the curve (n² + 11n + 20)/2 is measured, not proved -/
theorem c17_hidden_upto : ∀ n ∈ List.range' 1 16,
    famCalls hiddenEnv (hiddenInput n) (6 * n + 20) = some ((n * n + 11 * n + 20) / 2, true) := by
  decide +kernel

/-- BOUNDED CHECK, not a theorem for all k: family 3 (mutually left-recursive pair `A → B a | x ; B → A b | y`,
    input `x (ba)^k`) evaluated at k = 0 … 8; the curve 3k² + 18k + 22 is measured, not proved -/
theorem c17_mutual_upto : ∀ k ∈ List.range' 0 9,
    famCalls mutualEnv (mutualInput k) (40 * k + 60) = some (3 * k * k + 18 * k + 22, true) := by
  decide +kernel

/-- non-vacuity: the suite's pinned value (main_test.go: 298 calls for `a` + 19 `b`) -/
example : (parse (pbaCfg 20) 100 (G.sentence (.ref 0))).map (fun p => (p.st.calls, p.err.isNone)) = some (298, true) := by
  decide +kernel

example : pbaCalls 20 = 298 ∧ pbaCalls 5 = 43 ∧ pbaCalls 10 = 103 ∧ pbaCalls 40 = 988 ∧ pbaCalls 80 = 3568 ∧
    pbaCalls 160 = 13528 := by decide

/-- non-vacuity of the accounting: Any over two terminals at the start of "abb" costs exactly 2 -/
example : (run (pbaCfg 3) 5 (.any [.term (.rune 98 []), .term (.rune 97 [])]) [] 1 {}).map (fun r => cost {} r.2) = some 2 := by
  decide +kernel

/-! ## 6. facts taken from the source (regenerated on every run) -/
/- (the text facts that stood here - condition lists and statement orders of Memoize, ResultCache, Any, Choice, the Sequence
   machinery, ReturnError, SetError, Parse, re-read from the source as normalised text - are subsumed since translator v3: the
   functions themselves are translated from the source on every run and the model is PROVED to agree with the translation
   (Props/C01P.lean, built and audited by this property's check).  Unlike a text comparison, that tie is not broken by an
   equivalent rewrite of the source.) -/
theorem c17_facts : Facts.curtailSlack = 1 := rfl

/-
  **The general bound — full statement, NOT proved** (kept so that it is never quietly dropped):

    theorem c17_calls_bound_STATEMENT (cfg) (g) (H : every result list the run produces has at most one
        entry per end position) (h : parse cfg fuel g = some p) :
        p.st.calls ≤ C(|env|, |g|) * (n + 1)^4          where n = cfg.file.len

  and the doubling ratio for every unambiguous grammar (needs matching lower bounds).  Three families of
  the suite (arith, mutual, hidden) have no closed form proved here; the correspondence run compares the
  model's and the implementation's counts at every length exercised.
-/

end PV
