/-
  C07P — the slice machine of C07 does what the Go source does NOW, for the primitives that mutate in place.

  `factgen -out-ast` TRANSLATES ast.SetReaderPos, NodeList.SetReaderPos, (*TerminalNode).SetReaderPos,
  (*NonTerminalNode).SetReaderPos and parser.EndNode.SetReaderPos statement by statement on every run
  (Generated/FactsAst.lean, namespace PV.FactsAstProg; run-time Generated/SlicePrelude.lean: node structs on a heap, a list as
  a slice header into a heap of arrays of interface values, dynamic dispatch over the closed set of node types).  The
  theorems below say that the machine's `setRP` / its operation `Op.setReaderPos` (Model/Slice.lean) computes exactly what
  the translated `SetReaderPos` computes on the corresponding store (`AstTie.conc`): the same returned value, the same node
  structs (only `readerPos` of the trimmed nodes moved), the same arrays (only the cells of the trimmed list rewritten), for
  every growth policy and every amount of fuel above an explicit bound.  Lemmas: Proofs/AstTie.lean.

  These replace the four full-text facts about these functions that `c07_source_facts_ast` used to pin.
-/
import ParsleyVerif.Proofs.AstTie
import ParsleyVerif.Props.C07
namespace PV.Slice
open PV.AstTie

/-- **C07P (the translated SetReaderPos is the machine's, any state).**  For every state `s` of the machine, every operand
    `h` that is not nil, whose pointer exists, whose list elements (if it is a list) are in the array, not nil and not lists
    (`TrimOK`: what every reachable state guarantees of every held handle, `c07_translated_setReaderPos_reachable`), every
    growth policy and every `fuel ≥ trimFuel h`: the function translated from ast/helpers.go, run with the call-back
    `pos ↦ pos + d` on the store that corresponds to `s`, returns normally, with the value and exactly the store that
    correspond to what `setRP d s h` computes. -/
theorem c07_translated_setReaderPos (grow : Nat → Nat) (d : Nat) (s : St) (h : Handle) (hok : TrimOK s h)
    (fuel : Nat) (hf : trimFuel h ≤ fuel) :
    FactsAstProg.SetReaderPos fuel (concH s.nodes h) (shift d) (conc grow s.nodes s.arrs) =
      .ok (concH (setRP d s h).1.nodes (setRP d s h).2) (conc grow (setRP d s h).1.nodes (setRP d s h).1.arrs) :=
  setRP_tie grow d s h hok fuel hf

/-- **C07P (the operation of the machine).**  In every reachable state, `Op.setReaderPos i d` on a live pool entry holding a
    non-nil value: the translated `ast.SetReaderPos` run on the corresponding store returns the value the machine pushes and
    leaves exactly the store of the machine's next state. -/
theorem c07_translated_setReaderPos_op (grow : Nat → Nat) (pre : List Op) (i d : Nat) (h : Handle)
    (hg : (run grow pre {}).get i = some h) (hnil : h ≠ Handle.nil) (fuel : Nat) (hf : trimFuel h ≤ fuel) :
    ∃ v, (step grow (run grow pre {}) (Op.setReaderPos i d)).1.pool.getLast? = some ⟨v, true⟩ ∧
      (step grow (run grow pre {}) (Op.setReaderPos i d)).2 = Out.none ∧
      FactsAstProg.SetReaderPos fuel (concH (run grow pre {}).nodes h) (shift d)
          (conc grow (run grow pre {}).nodes (run grow pre {}).arrs) =
        .ok (concH (step grow (run grow pre {}) (Op.setReaderPos i d)).1.nodes v)
          (conc grow (step grow (run grow pre {}) (Op.setReaderPos i d)).1.nodes
            (step grow (run grow pre {}) (Op.setReaderPos i d)).1.arrs) := by
  obtain ⟨top, inv⟩ := reachable_inv grow pre
  obtain ⟨e, he, _, heh⟩ := get_some hg
  have hheld : Held (run grow pre {}) h := Or.inl ⟨e, List.mem_of_getElem? he, heh⟩
  have hok := trimOK_of_hwf inv (hheld.hwf inv) hnil
  refine ⟨(setRP d (run grow pre {}) h).2, ?_, ?_, ?_⟩
  · simp [step, hg, hnil, St.push]
  · simp [step, hg, hnil]
  · have := setRP_tie grow d (run grow pre {}) h hok fuel hf
    simpa [step, hg, hnil, St.push, St.kill] using this

/-- **C07P (nothing else is touched).**  Under the same hypotheses the store after the translated `ast.SetReaderPos` differs
    from the store before only where the machine says: the same number of node structs and of arrays, the same growth policy,
    every array of the same size; every node struct keeps all its fields but `readerPos`, which only moves forward; the
    structs of nodes outside `trimNodes` and the arrays other than `trimArr` are unchanged. -/
theorem c07_translated_setReaderPos_frame (grow : Nat → Nat) (pre : List Op) (d : Nat) (h : Handle)
    (hh : Held (run grow pre {}) h) (hnil : h ≠ Handle.nil) (fuel : Nat) (hf : trimFuel h ≤ fuel) :
    ∃ (v : SlicePrelude.Node) (st' : SlicePrelude.St), FactsAstProg.SetReaderPos fuel (concH (run grow pre {}).nodes h) (shift d)
        (conc grow (run grow pre {}).nodes (run grow pre {}).arrs) = .ok v st' ∧
      st'.grow = grow ∧
      st'.cells.length = (conc grow (run grow pre {}).nodes (run grow pre {}).arrs).cells.length ∧
      st'.arrays.length = (conc grow (run grow pre {}).nodes (run grow pre {}).arrs).arrays.length ∧
      (∀ a, (SlicePrelude.cellsOf st' a).length =
        (SlicePrelude.cellsOf (conc grow (run grow pre {}).nodes (run grow pre {}).arrs) a).length) ∧
      (∀ (n : Nat) (c : SlicePrelude.Cell), (conc grow (run grow pre {}).nodes (run grow pre {}).arrs).cells[n]? = some c →
        ∃ e : Nat, st'.cells[n]? = some { c with readerPos := c.readerPos + e }) ∧
      (∀ n : Nat, n ∉ trimNodes (run grow pre {}) h →
        st'.cells[n]? = (conc grow (run grow pre {}).nodes (run grow pre {}).arrs).cells[n]?) ∧
      (∀ a, trimArr h ≠ some a →
        SlicePrelude.cellsOf st' a = SlicePrelude.cellsOf (conc grow (run grow pre {}).nodes (run grow pre {}).arrs) a) := by
  obtain ⟨top, inv⟩ := reachable_inv grow pre
  have hok := trimOK_of_hwf inv (hh.hwf inv) hnil
  obtain ⟨hsim, hshape, _, _, _⟩ := setRP_shape d inv h
  obtain ⟨_, hfn, hfa⟩ := setRP_frame d inv h
  refine ⟨_, _, setRP_tie grow d _ h hok fuel hf, rfl, ?_, ?_, ?_, ?_, ?_, ?_⟩
  · simp [conc, hsim.1]
  · simp [conc, hshape.1]
  · intro a
    rw [cellsOf_conc, cellsOf_conc, List.length_map, List.length_map, hshape.2 a]
  · intro n c hc
    simp only [conc, List.getElem?_map, Option.map_eq_some_iff] at hc
    obtain ⟨o, ho, rfl⟩ := hc
    obtain ⟨e, he⟩ := hsim.2 n o ho
    refine ⟨e, ?_⟩
    simp only [conc, List.getElem?_map, he, Option.map_some, concObj_bump]
  · intro n hn
    simp only [conc, List.getElem?_map, hfn n hn]
  · intro a ha
    rw [cellsOf_conc, cellsOf_conc, hfa a ha, concH_sim hsim]

/-- the translator translated all five functions on this run (an edit that leaves its fragment lands in `untranslatedAst`
    and empties `translatedAst`: then this fails, and so does the build of the theorems above) -/
theorem c07_translated_list :
    FactsAstProg.translatedAst = ["SetReaderPos", "NodeList_SetReaderPos", "TerminalNode_SetReaderPos",
      "NonTerminalNode_SetReaderPos", "EndNode_SetReaderPos"] ∧ FactsAstProg.untranslatedAst = [] :=
  ⟨rfl, rfl⟩

/-- non-vacuity, and the D5 witness on the translated code: the history of `c07_trim_shared_mutates` (a memoized terminal
    handed out twice); the translated SetReaderPos on one copy moves the end position of the one struct both — and the memo
    table — point to -/
example :
    let pre : List Op := [.newTerm 1 0 0 2, .memoStore 0 0, .memoHit 0]
    let s := run goGrow pre {}
    s.get 2 = some (Handle.ptr 0) ∧ s.get 1 = some (Handle.ptr 0) ∧
    ∃ st', FactsAstProg.SetReaderPos 2 (SlicePrelude.Node.term 0) (shift 2) (conc goGrow s.nodes s.arrs) =
        .ok (SlicePrelude.Node.term 0) st' ∧
      (conc goGrow s.nodes s.arrs).cells = [{ readerPos := 2, pos := 0, token := 1, value := 0, children := ⟨0, 0, 0⟩ }] ∧
      st'.cells = [{ readerPos := 4, pos := 0, token := 1, value := 0, children := ⟨0, 0, 0⟩ }] := by
  have h := c07_translated_setReaderPos goGrow 2 (run goGrow [.newTerm 1 0 0 2, .memoStore 0 0, .memoHit 0] {})
      (Handle.ptr 0) (by show 0 < _; decide) 2 (by decide)
  exact ⟨by decide, by decide, _, h, by decide, by decide⟩

/-- non-vacuity with a list (a terminal and an EMPTY value appended into one array): both elements are rewritten in place,
    the header is returned as it was, the one-element array AppendNode allocated first is not touched -/
example :
    let pre : List Op := [.newTerm 1 0 0 1, .newEmpty 1, .appendNode 0 1]
    let s := run goGrow pre {}
    s.get 2 = some (Handle.list ⟨1, 2, 2⟩) ∧
    ∃ st', FactsAstProg.SetReaderPos 7 (SlicePrelude.Node.list ⟨1, 2, 2⟩) (shift 3) (conc goGrow s.nodes s.arrs) =
        .ok (SlicePrelude.Node.list ⟨1, 2, 2⟩) st' ∧
      (conc goGrow s.nodes s.arrs).arrays = [[.term 0], [.term 0, .empty 1]] ∧
      st'.arrays = [[.term 0], [.term 0, .empty 4]] ∧
      st'.cells = [{ readerPos := 4, pos := 0, token := 1, value := 0, children := ⟨0, 0, 0⟩ }] := by
  have hok : TrimOK (run goGrow [.newTerm 1 0 0 1, .newEmpty 1, .appendNode 0 1] {}) (Handle.list ⟨1, 2, 2⟩) := by
    refine ⟨by decide, fun i hi => ?_⟩
    have : i = 0 ∨ i = 1 := by simp at hi; omega
    rcases this with rfl | rfl
    · exact ⟨by decide, by show 0 < _; decide⟩
    · exact ⟨by decide, trivial⟩
  have h := c07_translated_setReaderPos goGrow 3 _ (Handle.list ⟨1, 2, 2⟩) hok 7 (by decide)
  exact ⟨by decide, _, h, by decide, by decide, by decide⟩

end PV.Slice
