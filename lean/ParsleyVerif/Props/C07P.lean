/-
  C07P — the slice machine of C07 does what the Go source does NOW, for the primitives that mutate in place.

  `factgen -out-ast` TRANSLATES ast.SetReaderPos, NodeList.SetReaderPos, (*TerminalNode).SetReaderPos,
  (*NonTerminalNode).SetReaderPos and parser.EndNode.SetReaderPos statement by statement on every run
  (Generated/FactsAst.lean, namespace PV.FactsAstProg; run-time Generated/SlicePrelude.lean: node structs on a heap, a list as
  a slice header into a heap of arrays of interface values, dynamic dispatch over the closed set of node types).  The
  theorems below say that the machine's `setRP` / its operation `Op.setReaderPos` (Model/Slice.lean) computes exactly what
  the translated `SetReaderPos` computes on the corresponding store (`AstTie.conc`): the same returned value, the same node
  structs (only `readerPos` of the trimmed nodes moved), the same arrays (only the cells of the trimmed list rewritten), for
  every growth policy and every amount of fuel above an explicit bound.  Lemmas: Proofs/AstTie.lean.

  These replace the four full-text facts about these functions that `c07_source_facts_ast` used to pin.
-/
import ParsleyVerif.Proofs.AstTie
import ParsleyVerif.Props.C07
namespace PV.Slice
open PV.AstTie

/-- **C07P (the translated SetReaderPos is the machine's, any state).**  For every state `s` of the machine, every operand
    `h` that is not nil, whose pointer exists, whose list elements (if it is a list) are in the array, not nil and not lists
    (`TrimOK`: what every reachable state guarantees of every held handle, `c07_translated_setReaderPos_reachable`), every
    growth policy and every `fuel ≥ trimFuel h`: the function translated from ast/helpers.go, run with the call-back
    `pos ↦ pos + d` on the store that corresponds to `s`, returns normally, with the value and exactly the store that
    correspond to what `setRP d s h` computes. -/
theorem c07_translated_setReaderPos (grow : Nat → Nat) (d : Nat) (s : St) (h : Handle) (hok : TrimOK s h)
    (fuel : Nat) (hf : trimFuel h ≤ fuel) :
    FactsAstProg.SetReaderPos fuel (concH s.nodes h) (shift d) (conc grow s.nodes s.arrs) =
      .ok (concH (setRP d s h).1.nodes (setRP d s h).2) (conc grow (setRP d s h).1.nodes (setRP d s h).1.arrs) :=
  setRP_tie grow d s h hok fuel hf

/-- **C07P (the operation of the machine).**  In every reachable state, `Op.setReaderPos i d` on a live pool entry holding a
    non-nil value: the translated `ast.SetReaderPos` run on the corresponding store returns the value the machine pushes and
    leaves exactly the store of the machine's next state. -/
theorem c07_translated_setReaderPos_op (grow : Nat → Nat) (pre : List Op) (i d : Nat) (h : Handle)
    (hg : (run grow pre {}).get i = some h) (hnil : h ≠ Handle.nil) (fuel : Nat) (hf : trimFuel h ≤ fuel) :
    ∃ v, (step grow (run grow pre {}) (Op.setReaderPos i d)).1.pool.getLast? = some ⟨v, true⟩ ∧
      (step grow (run grow pre {}) (Op.setReaderPos i d)).2 = Out.none ∧
      FactsAstProg.SetReaderPos fuel (concH (run grow pre {}).nodes h) (shift d)
          (conc grow (run grow pre {}).nodes (run grow pre {}).arrs) =
        .ok (concH (step grow (run grow pre {}) (Op.setReaderPos i d)).1.nodes v)
          (conc grow (step grow (run grow pre {}) (Op.setReaderPos i d)).1.nodes
            (step grow (run grow pre {}) (Op.setReaderPos i d)).1.arrs) := by
  obtain ⟨top, inv⟩ := reachable_inv grow pre
  obtain ⟨e, he, _, heh⟩ := get_some hg
  have hheld : Held (run grow pre {}) h := Or.inl ⟨e, List.mem_of_getElem? he, heh⟩
  have hok := trimOK_of_hwf inv (hheld.hwf inv) hnil
  refine ⟨(setRP d (run grow pre {}) h).2, ?_, ?_, ?_⟩
  · simp [step, hg, hnil, St.push]
  · simp [step, hg, hnil]
  · have := setRP_tie grow d (run grow pre {}) h hok fuel hf
    simpa [step, hg, hnil, St.push, St.kill] using this

/-- **C07P (nothing else is touched).**  Under the same hypotheses the store after the translated `ast.SetReaderPos` differs
    from the store before only where the machine says: the same number of node structs and of arrays, the same growth policy,
    every array of the same size; every node struct keeps all its fields but `readerPos`, which only moves forward; the
    structs of nodes outside `trimNodes` and the arrays other than `trimArr` are unchanged. -/
theorem c07_translated_setReaderPos_frame (grow : Nat → Nat) (pre : List Op) (d : Nat) (h : Handle)
    (hh : Held (run grow pre {}) h) (hnil : h ≠ Handle.nil) (fuel : Nat) (hf : trimFuel h ≤ fuel) :
    ∃ (v : SlicePrelude.Node) (st' : SlicePrelude.St), FactsAstProg.SetReaderPos fuel (concH (run grow pre {}).nodes h) (shift d)
        (conc grow (run grow pre {}).nodes (run grow pre {}).arrs) = .ok v st' ∧
      st'.grow = grow ∧
      st'.cells.length = (conc grow (run grow pre {}).nodes (run grow pre {}).arrs).cells.length ∧
      st'.arrays.length = (conc grow (run grow pre {}).nodes (run grow pre {}).arrs).arrays.length ∧
      (∀ a, (SlicePrelude.cellsOf st' a).length =
        (SlicePrelude.cellsOf (conc grow (run grow pre {}).nodes (run grow pre {}).arrs) a).length) ∧
      (∀ (n : Nat) (c : SlicePrelude.Cell), (conc grow (run grow pre {}).nodes (run grow pre {}).arrs).cells[n]? = some c →
        ∃ e : Nat, st'.cells[n]? = some { c with readerPos := c.readerPos + e }) ∧
      (∀ n : Nat, n ∉ trimNodes (run grow pre {}) h →
        st'.cells[n]? = (conc grow (run grow pre {}).nodes (run grow pre {}).arrs).cells[n]?) ∧
      (∀ a, trimArr h ≠ some a →
        SlicePrelude.cellsOf st' a = SlicePrelude.cellsOf (conc grow (run grow pre {}).nodes (run grow pre {}).arrs) a) := by
  obtain ⟨top, inv⟩ := reachable_inv grow pre
  have hok := trimOK_of_hwf inv (hh.hwf inv) hnil
  obtain ⟨hsim, hshape, _, _, _⟩ := setRP_shape d inv h
  obtain ⟨_, hfn, hfa⟩ := setRP_frame d inv h
  refine ⟨_, _, setRP_tie grow d _ h hok fuel hf, rfl, ?_, ?_, ?_, ?_, ?_, ?_⟩
  · simp [conc, hsim.1]
  · simp [conc, hshape.1]
  · intro a
    rw [cellsOf_conc, cellsOf_conc, List.length_map, List.length_map, hshape.2 a]
  · intro n c hc
    simp only [conc, List.getElem?_map, Option.map_eq_some_iff] at hc
    obtain ⟨o, ho, rfl⟩ := hc
    obtain ⟨e, he⟩ := hsim.2 n o ho
    refine ⟨e, ?_⟩
    simp only [conc, List.getElem?_map, he, Option.map_some, concObj_bump]
  · intro n hn
    simp only [conc, List.getElem?_map, hfn n hn]
  · intro a ha
    rw [cellsOf_conc, cellsOf_conc, hfa a ha, concH_sim hsim]

/-- the translator translated all seven functions on this run (an edit that leaves its fragment lands in `untranslatedAst`
    and empties `translatedAst`: then this fails, and so does the build of the theorems above and below) -/
theorem c07_translated_list :
    FactsAstProg.translatedAst = ["SetReaderPos", "NodeList_SetReaderPos", "TerminalNode_SetReaderPos",
      "NonTerminalNode_SetReaderPos", "EndNode_SetReaderPos", "AppendNode", "NodeList_Append"] ∧
    FactsAstProg.untranslatedAst = [] :=
  ⟨rfl, rfl⟩

/-! ### the append family: `ast.AppendNode`, `(*NodeList).Append` (the heart of C07)

  `(*NodeList).Append` has a pointer receiver that it writes through (`*nl = append(*nl, v)`): the translation takes the value
  of `*nl` and returns the new one.  `append` is Go's: IN PLACE when len < cap — a write into the backing array that every other
  header onto that array shares — and a fresh array (capacity by the growth policy of the store) otherwise. -/

/-- the fuel that certainly suffices for `AppendNode(h1, h2)` / `h1.Append(h2)` -/
def appendFuel (h1 h2 : Handle) : Nat := hLen h1 + 2 * hLen h2 + 6

theorem held_appOK {s : St} {top : Nat → Nat} (inv : Inv s top) {h : Handle} (hh : Held s h) :
    AppOK s.nodes.length s.arrs h := by
  have hw := hh.hwf inv
  cases h with
  | list sl => exact hw.1
  | ptr n => exact hw
  | _ => trivial

/-- **C07P (the translated AppendNode is the machine's, any state).**  For every state of the machine whose array cells are
    `CellOK` (no nested list, pointers to existing objects) and operands that lie inside the heap (`AppOK`; both hold in every
    reachable state for every held handle), every growth policy, every `fuel ≥ appendFuel h1 h2`: the function translated
    from ast/helpers.go on the corresponding store returns normally with the value and exactly the store — in-place write
    into spare capacity included — that `appendNodeCore` computes. -/
theorem c07_translated_appendNode (grow : Nat → Nat) (s : St) (h1 h2 : Handle) (ok : CellsOK s.nodes.length s.arrs)
    (h1ok : AppOK s.nodes.length s.arrs h1) (h2ok : AppOK s.nodes.length s.arrs h2) (fuel : Nat)
    (hf : appendFuel h1 h2 ≤ fuel) :
    FactsAstProg.AppendNode fuel (concH s.nodes h1) (concH s.nodes h2) (conc grow s.nodes s.arrs) =
      .ok (concH s.nodes (appendNodeCore grow s.arrs h1 h2).2) (conc grow s.nodes (appendNodeCore grow s.arrs h1 h2).1) :=
  appendNode_tie grow s.nodes s.arrs h1 h2 ok h1ok h2ok fuel hf

/-- **C07P (the translated (*NodeList).Append is the machine's, any state).**  The value of `*nl` after the call and the
    store are those of `nlAppend`: flattening of a list argument element by element, an EMPTY value only if not yet present,
    everything else appended. -/
theorem c07_translated_nodeListAppend (grow : Nat → Nat) (s : St) (sl : Slice) (h2 : Handle)
    (ok : CellsOK s.nodes.length s.arrs) (w : SWF s.arrs sl) (h2ok : AppOK s.nodes.length s.arrs h2) (fuel : Nat)
    (hf : appendFuel (Handle.list sl) h2 ≤ fuel) :
    FactsAstProg.NodeList_Append fuel (concSl sl) (concH s.nodes h2) (conc grow s.nodes s.arrs) =
      .ok (concSl (nlAppend grow s.arrs sl h2).2) (conc grow s.nodes (nlAppend grow s.arrs sl h2).1) :=
  nlAppend_tie grow s.nodes s.nodes.length s.arrs sl h2 ok w h2ok fuel (by have : hLen (Handle.list sl) = sl.len := rfl; (simp only [appendFuel] at hf); omega)

theorem doAppend_shape (grow : Nat → Nat) (s : St) (i : Nat) (h1 : Handle) (j : Option Nat) (h2 : Handle) :
    (doAppend grow s i h1 j h2).nodes = s.nodes ∧
    (doAppend grow s i h1 j h2).arrs = (appendNodeCore grow s.arrs h1 h2).1 ∧
    (doAppend grow s i h1 j h2).pool.getLast? = some ⟨(appendNodeCore grow s.arrs h1 h2).2, true⟩ := by
  unfold doAppend
  refine ⟨?_, rfl, by simp [St.push]⟩
  simp only [St.push]
  split
  · cases j <;> simp [consume_nodes]
  · simp [consume_nodes]

/-- **C07P (the operations of the machine: `c07_translated_append`).**  In every reachable state:
    * `Op.appendNode i j` on live pool entries: the translated `ast.AppendNode` run on the corresponding store returns the
      value the machine pushes and leaves exactly the store of the machine's next state (the node structs are not touched);
    * `Op.optionalAppend i pos` (Optional's `ast.AppendNode(res, ast.EmptyNode(pos))`): the same with the EMPTY value;
    * `Op.nlAppend i j` on a list entry and a non-nil value: the translated `(*NodeList).Append` leaves `*nl` equal to the
      header the machine pushes, and the store of the machine's next state. -/
theorem c07_translated_append (grow : Nat → Nat) (pre : List Op) :
    (∀ (i j : Nat) (h1 h2 : Handle), (run grow pre {}).get i = some h1 → (run grow pre {}).get j = some h2 →
      ∀ fuel, appendFuel h1 h2 ≤ fuel →
      ∃ v, (step grow (run grow pre {}) (Op.appendNode i j)).1.pool.getLast? = some ⟨v, true⟩ ∧
        (step grow (run grow pre {}) (Op.appendNode i j)).2 = Out.none ∧
        (step grow (run grow pre {}) (Op.appendNode i j)).1.nodes = (run grow pre {}).nodes ∧
        FactsAstProg.AppendNode fuel (concH (run grow pre {}).nodes h1) (concH (run grow pre {}).nodes h2)
            (conc grow (run grow pre {}).nodes (run grow pre {}).arrs) =
          .ok (concH (run grow pre {}).nodes v)
            (conc grow (run grow pre {}).nodes (step grow (run grow pre {}) (Op.appendNode i j)).1.arrs)) ∧
    (∀ (i pos : Nat) (h1 : Handle), (run grow pre {}).get i = some h1 →
      ∀ fuel, appendFuel h1 (Handle.empty pos) ≤ fuel →
      ∃ v, (step grow (run grow pre {}) (Op.optionalAppend i pos)).1.pool.getLast? = some ⟨v, true⟩ ∧
        (step grow (run grow pre {}) (Op.optionalAppend i pos)).2 = Out.none ∧
        (step grow (run grow pre {}) (Op.optionalAppend i pos)).1.nodes = (run grow pre {}).nodes ∧
        FactsAstProg.AppendNode fuel (concH (run grow pre {}).nodes h1) (SlicePrelude.Node.empty (pos : Int))
            (conc grow (run grow pre {}).nodes (run grow pre {}).arrs) =
          .ok (concH (run grow pre {}).nodes v)
            (conc grow (run grow pre {}).nodes (step grow (run grow pre {}) (Op.optionalAppend i pos)).1.arrs)) ∧
    (∀ (i j : Nat) (sl : Slice) (h2 : Handle), (run grow pre {}).get i = some (Handle.list sl) →
      (run grow pre {}).get j = some h2 → h2 ≠ Handle.nil →
      ∀ fuel, appendFuel (Handle.list sl) h2 ≤ fuel →
      ∃ sl', (step grow (run grow pre {}) (Op.nlAppend i j)).1.pool.getLast? = some ⟨Handle.list sl', true⟩ ∧
        (step grow (run grow pre {}) (Op.nlAppend i j)).2 = Out.none ∧
        (step grow (run grow pre {}) (Op.nlAppend i j)).1.nodes = (run grow pre {}).nodes ∧
        FactsAstProg.NodeList_Append fuel (concSl sl) (concH (run grow pre {}).nodes h2)
            (conc grow (run grow pre {}).nodes (run grow pre {}).arrs) =
          .ok (concSl sl')
            (conc grow (run grow pre {}).nodes (step grow (run grow pre {}) (Op.nlAppend i j)).1.arrs)) := by
  obtain ⟨top, inv⟩ := reachable_inv grow pre
  have held : ∀ {i h}, (run grow pre {}).get i = some h → Held (run grow pre {}) h := by
    intro i h hg
    obtain ⟨e, he, _, heh⟩ := get_some hg
    exact Or.inl ⟨e, List.mem_of_getElem? he, heh⟩
  refine ⟨?_, ?_, ?_⟩
  · intro i j h1 h2 hg1 hg2 fuel hf
    have hs := doAppend_shape grow (run grow pre {}) i h1 (some j) h2
    have ht := appendNode_tie grow _ _ h1 h2 inv.cellok (held_appOK inv (held hg1)) (held_appOK inv (held hg2)) fuel hf
    refine ⟨(appendNodeCore grow (run grow pre {}).arrs h1 h2).2, ?_, ?_, ?_, ?_⟩
    · simp only [step, hg1, hg2]; exact hs.2.2
    · simp [step, hg1, hg2]
    · simp only [step, hg1, hg2]; exact hs.1
    · simp only [step, hg1, hg2]; rw [hs.2.1]; exact ht
  · intro i pos h1 hg1 fuel hf
    have hs := doAppend_shape grow (run grow pre {}) i h1 none (Handle.empty pos)
    have ht := appendNode_tie grow _ _ h1 (Handle.empty pos) inv.cellok (held_appOK inv (held hg1)) trivial fuel hf
    refine ⟨(appendNodeCore grow (run grow pre {}).arrs h1 (Handle.empty pos)).2, ?_, ?_, ?_, ?_⟩
    · simp only [step, hg1]; exact hs.2.2
    · simp [step, hg1]
    · simp only [step, hg1]; exact hs.1
    · simp only [step, hg1]; rw [hs.2.1]; exact ht
  · intro i j sl h2 hg1 hg2 hnil fuel hf
    have ht := nlAppend_tie grow (run grow pre {}).nodes _ _ sl h2 inv.cellok (held_appOK inv (held hg1))
      (held_appOK inv (held hg2)) fuel (by have : hLen (Handle.list sl) = sl.len := rfl; (simp only [appendFuel] at hf); omega)
    refine ⟨(nlAppend grow (run grow pre {}).arrs sl h2).2, ?_, ?_, ?_, ?_⟩
    · simp [step, hg1, hg2, hnil, St.push]
    · simp [step, hg1, hg2, hnil]
    · simp [step, hg1, hg2, hnil, St.push, consume_nodes]
    · simp only [step, hg1, hg2, hnil, if_false, St.push]; exact ht

/-- **C07P (frame of the translated AppendNode: a returned result is not modified).**  In every reachable state, the
    translated `ast.AppendNode` on two live pool entries returns normally and, in the store it leaves: the node structs and
    the growth policy are untouched, the heap of arrays only grew, every array that existed keeps its size, and EVERY list
    anybody holds — a pool entry, live or consumed, or the memo table — still has exactly the elements it had. -/
theorem c07_translated_append_frame (grow : Nat → Nat) (pre : List Op) (i j : Nat) (h1 h2 : Handle)
    (hg1 : (run grow pre {}).get i = some h1) (hg2 : (run grow pre {}).get j = some h2) (fuel : Nat)
    (hf : appendFuel h1 h2 ≤ fuel) :
    ∃ (v : SlicePrelude.Node) (st' : SlicePrelude.St),
      FactsAstProg.AppendNode fuel (concH (run grow pre {}).nodes h1) (concH (run grow pre {}).nodes h2)
        (conc grow (run grow pre {}).nodes (run grow pre {}).arrs) = .ok v st' ∧
      st'.grow = grow ∧ st'.cells = (conc grow (run grow pre {}).nodes (run grow pre {}).arrs).cells ∧
      (conc grow (run grow pre {}).nodes (run grow pre {}).arrs).arrays.length ≤ st'.arrays.length ∧
      (∀ a, a < (conc grow (run grow pre {}).nodes (run grow pre {}).arrs).arrays.length →
        (SlicePrelude.cellsOf st' a).length =
          (SlicePrelude.cellsOf (conc grow (run grow pre {}).nodes (run grow pre {}).arrs) a).length) ∧
      (∀ sl, Held (run grow pre {}) (Handle.list sl) →
        SlicePrelude.view st' (concSl sl) =
          SlicePrelude.view (conc grow (run grow pre {}).nodes (run grow pre {}).arrs) (concSl sl)) := by
  obtain ⟨top, inv⟩ := reachable_inv grow pre
  obtain ⟨v, _, _, hn, ht⟩ := (c07_translated_append grow pre).1 i j h1 h2 hg1 hg2 fuel hf
  have fr := (step_ok grow inv (Op.appendNode i j) rfl).frame.2
  refine ⟨_, _, ht, rfl, rfl, ?_, ?_, ?_⟩
  · simpa [conc] using fr.1
  · intro a ha
    rw [cellsOf_conc, cellsOf_conc, List.length_map, List.length_map]
    exact fr.2.1 a (by simpa [conc] using ha)
  · intro sl hh
    rw [view_conc, view_conc, fr.view_eq sl (hh.hwf inv).2.2.1]

/-! ### the two facts C07 is about, on the TRANSLATED code -/

/-- **C07P (a) (with the capacity clip an append never writes into an existing array).**  For EVERY store of the run-time
    (not only those that correspond to a machine state), every argument (nested lists included) and every fuel: if the
    header `*nl` has no spare capacity (len = cap — what `nl[:len(nl):len(nl)]` of Memoize establishes) and the translated
    `(*NodeList).Append` returns, then every array that existed before is exactly as it was (the heap only grew, at its end),
    the node structs are untouched, and the new value of `*nl`, if it has spare capacity, lives on an array allocated by
    this call. -/
theorem c07p_clipped_append_fresh (fuel : Nat) (nl : SlicePrelude.Sl) (node : SlicePrelude.Node) (st : SlicePrelude.St)
    (nl' : SlicePrelude.Sl) (st' : SlicePrelude.St) (hclip : nl.len = nl.cap)
    (h : FactsAstProg.NodeList_Append fuel nl node st = .ok nl' st') :
    st'.arrays.take st.arrays.length = st.arrays ∧ st.arrays.length ≤ st'.arrays.length ∧ st'.cells = st.cells ∧
      st'.grow = st.grow ∧ (nl'.len < nl'.cap → st.arrays.length ≤ nl'.arr) := by
  have r := (append_away_all st.arrays.length fuel).1 nl node st nl' st' (Nat.le_refl _) (fun hlt => by omega) h
  exact ⟨by rw [r.2.2.2.2, List.take_length], r.2.2.2.1, r.2.1, r.2.2.1, r.1⟩

/-- **C07P (a), `ast.AppendNode`.**  The same for `ast.AppendNode(n1, n2)`: if `n1`, when it is a list, has no spare
    capacity, no existing array is written (when `n1` is not a list the fresh `[]parsley.Node{n1}` has len = cap = 1). -/
theorem c07p_clipped_appendNode_fresh (fuel : Nat) (n1 n2 v : SlicePrelude.Node) (st st' : SlicePrelude.St)
    (hclip : ∀ nl, n1 = SlicePrelude.Node.list nl → nl.len = nl.cap)
    (h : FactsAstProg.AppendNode fuel n1 n2 st = .ok v st') :
    st'.arrays.take st.arrays.length = st.arrays ∧ st.arrays.length ≤ st'.arrays.length ∧ st'.cells = st.cells ∧
      st'.grow = st.grow := by
  have key : Pres st.arrays.length st st' := by
    cases fuel with
    | zero => rw [FactsAstProg.AppendNode] at h; cases h
    | succ f =>
      rw [FactsAstProg.AppendNode] at h
      split at h
      · simp only [pure_run, SlicePrelude.Res.ok.injEq] at h; rw [← h.2]; exact Pres.refl (Nat.le_refl _)
      · split at h
        · simp only [pure_run, SlicePrelude.Res.ok.injEq] at h; rw [← h.2]; exact Pres.refl (Nat.le_refl _)
        · cases hl : SlicePrelude.Node.asList n1 with
          | some n =>
            simp only [hl] at h
            have hn1 : n1 = SlicePrelude.Node.list n := by
              cases n1 <;> simp [SlicePrelude.Node.asList] at hl
              rw [hl]
            obtain ⟨a, s1, h1, h2⟩ := bind_ok_inv _ _ _ _ _ h
            have r := (append_away_all st.arrays.length f).1 n n2 st a s1 (Nat.le_refl _)
              (fun hlt => by have := hclip n hn1; omega) h1
            simp only [pure_run, SlicePrelude.Res.ok.injEq] at h2
            rw [← h2.2]; exact r.2
          | none =>
            simp only [hl] at h
            obtain ⟨a, s1, h1, h2⟩ := bind_ok_inv _ _ _ _ _ h
            simp only [SlicePrelude.Go.litSlice, SlicePrelude.Res.ok.injEq] at h1
            obtain ⟨rfl, rfl⟩ := h1
            obtain ⟨b, s2, h3, h4⟩ := bind_ok_inv _ _ _ _ _ h2
            have r := (append_away_all st.arrays.length f).1 _ n2 _ b s2 (by simp) (fun hlt => by simp at hlt) h3
            simp only [pure_run, SlicePrelude.Res.ok.injEq] at h4
            rw [← h4.2]
            have r0 : Pres st.arrays.length st
                { cells := st.cells, arrays := st.arrays ++ [[n1]], grow := st.grow } :=
              ⟨rfl, rfl, by simp, by simp⟩
            exact Pres.trans r0 r.2
  exact ⟨by rw [key.2.2.2, List.take_length], key.2.2.1, key.1, key.2.1⟩

/-- the store of the D1 witness: five terminal structs, one array of capacity 4 holding three of them -/
def d1Store : SlicePrelude.St :=
  { cells := (List.range 5).map (fun (i : Nat) =>
      { readerPos := (i : Int) + 1, pos := (i : Int), token := i, value := 0, children := ⟨0, 0, 0⟩ }),
    arrays := [[.term 0, .term 1, .term 2, .nil]], grow := goGrow }

/-- **C07P (b) (D1 on the translated code).**  One UNCLIPPED header with spare capacity (three elements, capacity four —
    what the pinned `Memoize` handed to two consumers) and two `ast.AppendNode` calls through it: both write cell 3 of the one
    shared array, both return the header ⟨0, 4, 4⟩; what the first consumer's result reads changes from `term 3` to `term 4`
    under the second call.  By evaluation of the translated functions. -/
theorem c07p_unclipped_append_corrupts :
    ∃ (shared : SlicePrelude.Sl) (st1 st2 : SlicePrelude.St), shared.len < shared.cap ∧
      FactsAstProg.AppendNode 9 (.list shared) (.term 3) d1Store = .ok (.list ⟨0, 4, 4⟩) st1 ∧
      FactsAstProg.AppendNode 9 (.list shared) (.term 4) st1 = .ok (.list ⟨0, 4, 4⟩) st2 ∧
      SlicePrelude.view st1 ⟨0, 4, 4⟩ = [.term 0, .term 1, .term 2, .term 3] ∧
      SlicePrelude.view st2 ⟨0, 4, 4⟩ = [.term 0, .term 1, .term 2, .term 4] ∧
      st2.arrays.length = 1 :=
  ⟨⟨0, 3, 4⟩, _, _, by decide, rfl, rfl, by decide, by decide, by decide⟩

/-- the same two calls through the CLIPPED header ⟨0, 3, 3⟩ (an instance of `c07p_clipped_appendNode_fresh`, by
    evaluation): each allocates, the shared array and the first result are left alone -/
example :
    ∃ (st1 st2 : SlicePrelude.St),
      FactsAstProg.AppendNode 9 (.list ⟨0, 3, 3⟩) (.term 3) d1Store = .ok (.list ⟨1, 4, 6⟩) st1 ∧
      FactsAstProg.AppendNode 9 (.list ⟨0, 3, 3⟩) (.term 4) st1 = .ok (.list ⟨2, 4, 6⟩) st2 ∧
      SlicePrelude.view st1 ⟨1, 4, 6⟩ = [.term 0, .term 1, .term 2, .term 3] ∧
      SlicePrelude.view st2 ⟨1, 4, 6⟩ = [.term 0, .term 1, .term 2, .term 3] ∧
      SlicePrelude.view st2 ⟨2, 4, 6⟩ = [.term 0, .term 1, .term 2, .term 4] ∧
      st2.arrays.take 1 = d1Store.arrays :=
  ⟨_, _, rfl, rfl, by decide, by decide, by decide, by decide⟩

/-- non-vacuity of `c07_translated_append` with an IN-PLACE write: the history of the D1 witness of `c07_pinned_corrupts` on
    the machine WITH the clip up to the first consumer's append — entry 10 is a linear list ⟨3, 4, 6⟩ with spare capacity —
    then `AppendNode(pool[10], pool[4])`: the translated function writes cell 4 of array 3 in place, as the machine does, and
    EMPTY de-duplication / flattening on the way: appending the list to itself element by element -/
example :
    let pre : List Op := [.newTerm 1 0 0 1, .newTerm 2 0 1 2, .newTerm 3 0 2 3, .newTerm 4 0 3 4, .newTerm 5 0 3 5,
      .appendNode 0 1, .appendNode 5 2, .memoStore 0 6, .memoHit 0, .memoHit 0, .appendNode 8 3]
    let s := run goGrow pre {}
    s.get 10 = some (Handle.list ⟨3, 4, 6⟩) ∧ s.get 4 = some (Handle.ptr 4) ∧
    ∃ st', FactsAstProg.AppendNode 20 (.list ⟨3, 4, 6⟩) (.term 4) (conc goGrow s.nodes s.arrs) = .ok (.list ⟨3, 5, 6⟩) st' ∧
      SlicePrelude.cellsOf (conc goGrow s.nodes s.arrs) 3 = [.term 0, .term 1, .term 2, .term 3, .nil, .nil] ∧
      SlicePrelude.cellsOf st' 3 = [.term 0, .term 1, .term 2, .term 3, .term 4, .nil] ∧
      st'.arrays.length = (conc goGrow s.nodes s.arrs).arrays.length := by
  intro pre s
  have h := (c07_translated_append goGrow pre).1 10 4 (Handle.list ⟨3, 4, 6⟩) (Handle.ptr 4) (by decide) (by decide) 20
    (by decide)
  obtain ⟨v, hv, _, _, ht⟩ := h
  have hv' : v = Handle.list ⟨3, 5, 6⟩ := by
    have : (step goGrow (run goGrow pre {}) (Op.appendNode 10 4)).1.pool.getLast? = some ⟨Handle.list ⟨3, 5, 6⟩, true⟩ := by
      decide
    rw [this] at hv; cases hv; rfl
  subst hv'
  refine ⟨by decide, by decide, _, ht, by decide, ?_, ?_⟩
  · rw [cellsOf_conc]; decide
  · simp only [conc, List.length_map]; decide

/-- non-vacuity, and the D5 witness on the translated code: the history of `c07_trim_shared_mutates` (a memoized terminal
    handed out twice); the translated SetReaderPos on one copy moves the end position of the one struct both — and the memo
    table — point to -/
example :
    let pre : List Op := [.newTerm 1 0 0 2, .memoStore 0 0, .memoHit 0]
    let s := run goGrow pre {}
    s.get 2 = some (Handle.ptr 0) ∧ s.get 1 = some (Handle.ptr 0) ∧
    ∃ st', FactsAstProg.SetReaderPos 2 (SlicePrelude.Node.term 0) (shift 2) (conc goGrow s.nodes s.arrs) =
        .ok (SlicePrelude.Node.term 0) st' ∧
      (conc goGrow s.nodes s.arrs).cells = [{ readerPos := 2, pos := 0, token := 1, value := 0, children := ⟨0, 0, 0⟩ }] ∧
      st'.cells = [{ readerPos := 4, pos := 0, token := 1, value := 0, children := ⟨0, 0, 0⟩ }] := by
  have h := c07_translated_setReaderPos goGrow 2 (run goGrow [.newTerm 1 0 0 2, .memoStore 0 0, .memoHit 0] {})
      (Handle.ptr 0) (by show 0 < _; decide) 2 (by decide)
  exact ⟨by decide, by decide, _, h, by decide, by decide⟩

/-- non-vacuity with a list (a terminal and an EMPTY value appended into one array): both elements are rewritten in place,
    the header is returned as it was, the one-element array AppendNode allocated first is not touched -/
example :
    let pre : List Op := [.newTerm 1 0 0 1, .newEmpty 1, .appendNode 0 1]
    let s := run goGrow pre {}
    s.get 2 = some (Handle.list ⟨1, 2, 2⟩) ∧
    ∃ st', FactsAstProg.SetReaderPos 7 (SlicePrelude.Node.list ⟨1, 2, 2⟩) (shift 3) (conc goGrow s.nodes s.arrs) =
        .ok (SlicePrelude.Node.list ⟨1, 2, 2⟩) st' ∧
      (conc goGrow s.nodes s.arrs).arrays = [[.term 0], [.term 0, .empty 1]] ∧
      st'.arrays = [[.term 0], [.term 0, .empty 4]] ∧
      st'.cells = [{ readerPos := 4, pos := 0, token := 1, value := 0, children := ⟨0, 0, 0⟩ }] := by
  have hok : TrimOK (run goGrow [.newTerm 1 0 0 1, .newEmpty 1, .appendNode 0 1] {}) (Handle.list ⟨1, 2, 2⟩) := by
    refine ⟨by decide, fun i hi => ?_⟩
    have : i = 0 ∨ i = 1 := by simp at hi; omega
    rcases this with rfl | rfl
    · exact ⟨by decide, by show 0 < _; decide⟩
    · exact ⟨by decide, trivial⟩
  have h := c07_translated_setReaderPos goGrow 3 _ (Handle.list ⟨1, 2, 2⟩) hok 7 (by decide)
  exact ⟨by decide, _, h, by decide, by decide, by decide⟩

end PV.Slice
