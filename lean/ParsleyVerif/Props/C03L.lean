/-
  C03, the syntactic link — "… for all LEFT-RECURSION-FREE grammars".

  Props/C03.lean proves transparency and once-per-position under two hypotheses on the ghost log of the run
  (`NoCurtail`, `NoReentry`).  Here: for every grammar accepted by the DECIDABLE certificate check
  `lrf cert env g` (Spec/LRF.lean — the C02 check `wf`, a table `lm` of the Memoize indexes each rule can
  enter at its start position, closed under left references, and at every Memoize node `memo i b`:
  `i ∉ lrfMemos b`), both hypotheses hold of every run from a fresh context:

  * `c03_lrf_no_reentry`   — `NoCurtail st'.log ∧ NoReentry st'.log`, for every input file, every position of
                             it, every fuel for which `run` answers, EVERY work budget, ghost log on or off;
  * `c03_transparent_lrf`, `c03_transparent_parse_lrf`, `c03_once_lrf`, `c03_completed_is_cached_lrf`
                           — the theorems of Props/C03.lean with the syntactic hypothesis only;
  * `c03_lrf_auto`         — the same with the certificate COMPUTED (`lrfAuto`, what the driver command
                             `lrfcheck` answers and the harness stream C03L compares with the generator's
                             notion of left-recursion-free);
  * `c03l_lrf_wf`          — `lrf → wf`.

  Scope (`C03LScope`, that of C02T without the budget clause): the combinator set without the whitespace
  trims, terminals that behave (`TermGood`) and never match the empty lexeme (`TermCons`).  The trims are
  excluded because the positional invariant and the soundness of `mayBeEmpty` this proof stands on
  (`run_pos`, `run_cons`) are stated without them.

  The statement announced at the end of Props/C03.lean spoke of "a rank that strictly decreases along every
  left reference, tagged or not".  For the model's grammars, whose Memoize indexes are arbitrary numbers,
  that condition ALONE does not imply `NoReentry`: `c03l_rank_alone_insufficient`.  `lrf` replaces the ranks by
  the reachable Memoize indexes; together with `wf` it still excludes every left cycle (a left cycle passes a
  Memoize by `wf`, whose operand then reaches its own index), and it is what the generator's acyclicity test
  decides on every grammar `combinator.Memoize` can build (stream C03L: verdicts equal on all cases).

  Proof: Proofs/LRFRun.lean (`run_lrf`: invariant `Disj` + `CtxExact` + `Clean` by induction on fuel),
  Proofs/LRFBudget.lean (`run_noBudget`: an answer under a work budget is an answer without one).
-/
import ParsleyVerif.Proofs.LRFRun
import ParsleyVerif.Proofs.LRFBudget
import ParsleyVerif.Props.C02T
import ParsleyVerif.Props.C03
namespace PV
open PV.Text

/-- the grammars the theorem speaks about: no whitespace trims, terminals in scope (as `C02Scope`, any budget) -/
structure C03LScope (cfg : Cfg) (g : G) : Prop where
  root : g.Core (TermOK cfg)
  env : ∀ g' ∈ cfg.env, g'.Core (TermOK cfg)

namespace LRF

/-! ### from the decidable check to the hypotheses of the invariant -/

mutual
theorem lrfLocal_all (c : LRFCert) : ∀ g : G, lrfLocal c g = true → g.All (LrfP c)
  | .term _, _ => by simp only [G.All, LrfP]
  | .empty, _ => by simp only [G.All, LrfP]
  | .eof, _ => by simp only [G.All, LrfP]
  | .ref _, _ => by simp only [G.All, LrfP]
  | .memo i g, hw => by
    simp only [lrfLocal, Bool.and_eq_true, Bool.not_eq_true', List.contains_eq_mem,
      decide_eq_false_iff_not] at hw
    simp only [G.All, LrfP]
    exact ⟨hw.1, lrfLocal_all c g hw.2⟩
  | .any gs, hw => by
    simp only [lrfLocal] at hw
    simp only [G.All, LrfP]; exact ⟨trivial, lrfLocalList_all c gs hw⟩
  | .choice gs, hw => by
    simp only [lrfLocal] at hw
    simp only [G.All, LrfP]; exact ⟨trivial, lrfLocalList_all c gs hw⟩
  | .seq _ gs _, hw => by
    simp only [lrfLocal] at hw
    simp only [G.All, LrfP]; exact ⟨trivial, lrfLocalList_all c gs hw⟩
  | .many g _ _, hw => by
    simp only [lrfLocal] at hw
    simp only [G.All, LrfP]; exact ⟨trivial, lrfLocal_all c g hw⟩
  | .sepBy v s _ _, hw => by
    simp only [lrfLocal, Bool.and_eq_true] at hw
    simp only [G.All, LrfP]; exact ⟨trivial, lrfLocal_all c v hw.1, lrfLocal_all c s hw.2⟩
  | .optional g, hw => by
    simp only [lrfLocal] at hw
    simp only [G.All, LrfP]; exact ⟨trivial, lrfLocal_all c g hw⟩
  | .name g _, hw => by
    simp only [lrfLocal] at hw
    simp only [G.All, LrfP]; exact ⟨trivial, lrfLocal_all c g hw⟩
  | .single g, hw => by
    simp only [lrfLocal] at hw
    simp only [G.All, LrfP]; exact ⟨trivial, lrfLocal_all c g hw⟩
  | .suppress g, hw => by
    simp only [lrfLocal] at hw
    simp only [G.All, LrfP]; exact ⟨trivial, lrfLocal_all c g hw⟩
  | .ltrim g _, hw => by
    simp only [lrfLocal] at hw
    simp only [G.All, LrfP]; exact ⟨trivial, lrfLocal_all c g hw⟩
  | .rtrim g _, hw => by
    simp only [lrfLocal] at hw
    simp only [G.All, LrfP]; exact ⟨trivial, lrfLocal_all c g hw⟩
theorem lrfLocalList_all (c : LRFCert) : ∀ gs : List G, lrfLocalList c gs = true → AllList (LrfP c) gs
  | [], _ => by simp only [AllList]
  | g :: gs, hw => by
    simp only [lrfLocalList, Bool.and_eq_true] at hw
    simp only [AllList]; exact ⟨lrfLocal_all c g hw.1, lrfLocalList_all c gs hw.2⟩
end

theorem lrf_parts (c : LRFCert) (env : List G) (root : G) (h : lrf c env root = true) :
    wf c.wf env root = true ∧ lrfLocal c root = true ∧
    ∀ k g, env[k]? = some g → lrfLocal c g = true ∧ ∀ i ∈ lrfMemos c g, i ∈ c.lm k := by
  simp only [lrf, Bool.and_eq_true, List.all_eq_true, List.mem_range] at h
  refine ⟨h.1.1, h.1.2, fun k g hk => ?_⟩
  have := h.2 k (List.getElem?_eq_some_iff.mp hk).1
  simp only [hk, lrfRule, Bool.and_eq_true, List.all_eq_true, List.contains_eq_mem, decide_eq_true_eq] at this
  exact this

/-- the configuration without budget is in the scope of the C02 machinery -/
theorem scope_noBudget {cfg : Cfg} {g : G} (hs : C03LScope cfg g) : C02Scope (noBudget cfg) g :=
  ⟨Core_mono (fun _ h => h) g hs.root, fun g' hg' => Core_mono (fun _ h => h) g' (hs.env g' hg'), rfl⟩

theorem envLRF_of_lrf (c : LRFCert) (cfg : Cfg) (g : G) (hlrf : lrf c cfg.env g = true) (hs : C03LScope cfg g) :
    EnvLRF c (noBudget cfg) ∧ GWF c.wf (noBudget cfg) g ∧ g.All (LrfP c) := by
  obtain ⟨hwf, hroot, hrules⟩ := lrf_parts c cfg.env g hlrf
  obtain ⟨henv, hg⟩ := EnvOK_of_wf c.wf (noBudget cfg) g hwf (scope_noBudget hs)
  refine ⟨⟨henv, ?_, fun k g' hk => (hrules k g' hk).2⟩, hg, lrfLocal_all c g hroot⟩
  intro g' hg'
  have hg'' : g' ∈ cfg.env := hg'
  obtain ⟨k, hk, hkg⟩ := List.getElem_of_mem hg''
  have hk' : cfg.env[k]? = some g' := by rw [List.getElem?_eq_getElem hk, hkg]
  exact lrfLocal_all c g' (hrules k g' hk').1

/-- the fresh context at any position of the file is a state a call may start in -/
theorem lpre_initial (c : LRFCert) (cfg : Cfg) (g : G) (pos : Nat) (hin : InFile cfg.file pos) :
    LPre c cfg g [] pos {} := by
  refine ⟨⟨⟨hin, ⟨(by intro e he; cases he), (by intro er her; cases her), (by intro i p d hm; cases hm)⟩,
      ⟨(by intro a ha; cases ha), (by intro k; simp [actCount, Ctx.get])⟩⟩, (by intro e he; cases he)⟩,
    (by intro a ha; cases ha), CtxExact_init pos, ⟨(by intro i p hm; cases hm), (by intro i p d hm; cases hm)⟩⟩

end LRF

open LRF

/-- the certificate for left-recursion-free grammars contains the C02 certificate -/
theorem c03l_lrf_wf (cert : LRFCert) (env : List G) (g : G) (h : lrf cert env g = true) : wf cert.wf env g = true :=
  (lrf_parts cert env g h).1

/-- the certificate check is a boolean function: decidable -/
def c03l_lrf_decidable (cert : LRFCert) (env : List G) (g : G) : Decidable (lrf cert env g = true) := inferInstance

/-- **C03, left-recursion-free ⇒ the hypotheses of Props/C03.lean.**  In a grammar accepted by the
    certificate, a parse from a fresh context — at any position of the file, with any fuel that answers, under
    any work budget, with the ghost log on or off — curtails nothing and never starts a memoized body while
    that body is running at the same position. -/
theorem c03_lrf_no_reentry (cert : LRFCert) (cfg : Cfg) (g : G)
    (hlrf : lrf cert cfg.env g = true) (hscope : C03LScope cfg g)
    (fuel pos : Nat) (hin : InFile cfg.file pos) (o : Out) (st' : St)
    (h : run cfg fuel g [] pos {} = some (o, st')) :
    NoCurtail st'.log ∧ NoReentry st'.log := by
  obtain ⟨henv, hg, hall⟩ := envLRF_of_lrf cert cfg g hlrf hscope
  exact run_lrf cert (noBudget cfg) henv fuel g [] pos {} o st' hg hall
    (lpre_initial cert (noBudget cfg) g pos hin) (run_noBudget cfg fuel g [] pos {} (o, st') h)

/-- … and more generally from every state the invariant describes (the states a parse of such a grammar can
    be in: `LPre` is what every sub-call of the run above starts in) -/
theorem c03_lrf_no_reentry_from (cert : LRFCert) (cfg : Cfg) (g : G)
    (hlrf : lrf cert cfg.env g = true) (hscope : C03LScope cfg g)
    (fuel : Nat) (ctx : Ctx) (pos : Nat) (st : St) (hpre : LPre cert (noBudget cfg) g ctx pos st) (o : Out) (st' : St)
    (h : run cfg fuel g ctx pos st = some (o, st')) :
    NoCurtail st'.log ∧ NoReentry st'.log := by
  obtain ⟨henv, hg, hall⟩ := envLRF_of_lrf cert cfg g hlrf hscope
  exact run_lrf cert (noBudget cfg) henv fuel g ctx pos st o st' hg hall hpre
    (run_noBudget cfg fuel g ctx pos st (o, st') h)

/-- the first position of the parsed file is a position of the file -/
theorem c03l_inFile_start (cfg : Cfg) : InFile cfg.file (cfg.file.pos 0) :=
  ⟨by simp [File.pos], by simp [File.pos]⟩

/-- … for `parsley.Parse` -/
theorem c03_lrf_no_reentry_parse (cert : LRFCert) (cfg : Cfg) (g : G)
    (hlrf : lrf cert cfg.env g = true) (hscope : C03LScope cfg g)
    (fuel : Nat) (p : ParseOut) (h : parse cfg fuel g = some p) :
    NoCurtail p.st.log ∧ NoReentry p.st.log := by
  cases hr : run cfg fuel g [] (cfg.file.pos 0) {} with
  | none => simp [parse, hr] at h
  | some r =>
    obtain ⟨o, st1⟩ := r
    have hst : p.st = st1 := by
      simp only [parse, hr] at h
      split at h <;> (cases h; rfl)
    rw [hst]
    exact c03_lrf_no_reentry cert cfg g hlrf hscope fuel _ (c03l_inFile_start cfg) o st1 hr

/-! ### C03 with the syntactic hypothesis only -/

/-- **C03 transparency for left-recursion-free grammars**: wrapping any sub-parsers in Memoize changes
    nothing observable except the call count, which does not increase (`c03_transparent` with `NoCurtail`
    discharged by the certificate) -/
theorem c03_transparent_lrf (cert : LRFCert) (cfg : Cfg) (bodyOf : Nat → G) (hgh : cfg.ghost = true)
    (henv : ∀ g' ∈ cfg.env, MemoWF bodyOf g') (g : G) (hg : MemoWF bodyOf g)
    (hlrf : lrf cert cfg.env g = true) (hscope : C03LScope cfg g)
    (f f0 : Nat) (pos : Nat) (hin : InFile cfg.file pos) (o o0 : Out) (st' st0' : St)
    (h : run cfg f g [] pos {} = some (o, st'))
    (h0 : run (stripCfg cfg) f0 (stripAll g) [] pos {} = some (o0, st0')) :
    o.res = o0.res ∧ o.err = o0.err ∧ o.cp = [] ∧
    st'.ctxErr.map Err.pos = st0'.ctxErr.map Err.pos ∧ st'.calls ≤ st0'.calls :=
  c03_transparent cfg bodyOf hgh henv g hg f f0 pos o o0 st' st0' h h0
    (c03_lrf_no_reentry cert cfg g hlrf hscope f pos hin o st' h).1

/-- … and for `parsley.Parse`: the same node, or an error at the same position -/
theorem c03_transparent_parse_lrf (cert : LRFCert) (cfg : Cfg) (bodyOf : Nat → G) (hgh : cfg.ghost = true)
    (henv : ∀ g' ∈ cfg.env, MemoWF bodyOf g') (g : G) (hg : MemoWF bodyOf g)
    (hlrf : lrf cert cfg.env g = true) (hscope : C03LScope cfg g)
    (f f0 : Nat) (p p0 : ParseOut)
    (h : parse cfg f g = some p) (h0 : parse (stripCfg cfg) f0 (stripAll g) = some p0) :
    p.res = p0.res ∧ p.err.map Err.pos = p0.err.map Err.pos ∧ p.st.calls ≤ p0.st.calls :=
  c03_transparent_parse cfg bodyOf hgh henv g hg f f0 p p0 h h0
    (c03_lrf_no_reentry_parse cert cfg g hlrf hscope f p h).1

/-- **C03 once per position for left-recursion-free grammars** -/
theorem c03_once_lrf (cert : LRFCert) (cfg : Cfg) (hgh : cfg.ghost = true) (g : G)
    (hlrf : lrf cert cfg.env g = true) (hscope : C03LScope cfg g)
    (fuel pos : Nat) (hin : InFile cfg.file pos) (o : Out) (st' : St)
    (h : run cfg fuel g [] pos {} = some (o, st')) :
    ∀ idx p, bodyRuns st'.log idx p ≤ 1 :=
  have hc := c03_lrf_no_reentry cert cfg g hlrf hscope fuel pos hin o st' h
  c03_once cfg hgh fuel g [] pos o st' h hc.1 hc.2

/-- … because a body that has run answers every later lookup from the cache, whatever the context -/
theorem c03_completed_is_cached_lrf (cert : LRFCert) (cfg : Cfg) (hgh : cfg.ghost = true) (g : G)
    (hlrf : lrf cert cfg.env g = true) (hscope : C03LScope cfg g)
    (fuel pos : Nat) (hin : InFile cfg.file pos) (o : Out) (st' : St)
    (h : run cfg fuel g [] pos {} = some (o, st')) (idx p : Nat) (hb : bodyRuns st'.log idx p = 1) (ctx' : Ctx) :
    ∃ e, cacheGet st'.cache idx p ctx' = some e :=
  have hc := c03_lrf_no_reentry cert cfg g hlrf hscope fuel pos hin o st' h
  c03_completed_is_cached cfg hgh fuel g [] pos o st' h hc.1 hc.2 idx p hb ctx'

/-- … no curtailing set is ever returned, every cache entry is stored with an empty context -/
theorem c03_no_curtail_lrf (cert : LRFCert) (cfg : Cfg) (hgh : cfg.ghost = true) (g : G)
    (hlrf : lrf cert cfg.env g = true) (hscope : C03LScope cfg g)
    (fuel pos : Nat) (hin : InFile cfg.file pos) (o : Out) (st' : St)
    (h : run cfg fuel g [] pos {} = some (o, st')) :
    o.cp = [] ∧ (∀ e ∈ st'.cache, e.ctx = [] ∧ e.cp = []) ∧ st'.active = [] :=
  c03_no_curtail cfg hgh fuel g [] pos o st' h (c03_lrf_no_reentry cert cfg g hlrf hscope fuel pos hin o st' h).1

/-- … with the certificate computed: this is the check the driver command `lrfcheck` runs and the harness
    stream C03L compares with the generator's notion of left-recursion-free -/
theorem c03_lrf_auto (cfg : Cfg) (g : G) (hlrf : lrfAuto cfg.env g = true) (hscope : C03LScope cfg g)
    (fuel : Nat) (p : ParseOut) (h : parse cfg fuel g = some p) :
    NoCurtail p.st.log ∧ NoReentry p.st.log :=
  c03_lrf_no_reentry_parse (lrfAutoCert cfg.env g) cfg g hlrf hscope fuel p h

/-! ### non-vacuity -/

namespace C03LNV
open C02NV

def certOf (nullRules nullMemos ranks memos : List Nat) (lm : List (List Nat)) : LRFCert :=
  lrfCertOf (PV.certOf nullRules nullMemos ranks memos) lm

/-- `V → memo₀ ('[' (V sepBy ',')? ']' | a)` — JSON-like, right-recursive, the rule memoized -/
def envJsonM : List G :=
  [.memo 0 (.any [.seq .seqOf [ch 91, .sepBy (.ref 0) (ch 44) true {}, ch 93] {}, ch 97])]

/-- `E → memo₀ (T '+' E | T)`, `T → memo₁ (F '*' T | F)`, `F → memo₂ ('(' E ')' | a)` — right-recursive
    expressions, every rule memoized, `F` refers back to `E` after consuming -/
def envExpr : List G :=
  [.memo 0 (.any [.seq .seqOf [.ref 1, ch 43, .ref 0] {}, .ref 1]),
   .memo 1 (.any [.seq .seqOf [.ref 2, ch 42, .ref 1] {}, .ref 2]),
   .memo 2 (.any [.seq .seqOf [ch 40, .ref 0, ch 41] {}, ch 97])]

theorem lrf_json : lrf (certOf [] [] [] [0] [[0]]) envJsonM (.ref 0) = true := by decide
theorem lrf_expr : lrf (certOf [] [] [2, 1, 0] [0, 1, 2] [[0, 1, 2], [1, 2], [2]]) envExpr (.ref 0) = true := by decide
theorem lrf_sentence : lrf (certOf [] [] [2, 1, 0] [0, 1, 2] [[0, 1, 2], [1, 2], [2]]) envExpr (G.sentence (.ref 0)) = true := by
  decide
/-- `S → A x | A y`, `A → memo₀ (a | b)` (the grammar of Props/C03.lean: one Memoize index used twice) -/
theorem lrf_shared : lrf (certOf [] [] [] [0] []) [] c03S = true := by decide

/-- the computed certificate accepts them too -/
theorem lrfAuto_ok : lrfAuto envJsonM (.ref 0) = true ∧ lrfAuto envExpr (.ref 0) = true ∧
    lrfAuto envExpr (G.sentence (.ref 0)) = true ∧ lrfAuto [] c03S = true ∧ lrfAuto envJson (.ref 0) = true := by decide

/-- `P → memo₀ (P b | a)` has NO certificate, whatever tables are proposed: closure puts 0 in `lm 0`, and then
    the operand of Memoize 0 reaches index 0 -/
theorem lrf_direct_fails (c : LRFCert) : lrf c envDirect (.ref 0) = false := by
  cases h : lrf c envDirect (.ref 0) with
  | false => rfl
  | true =>
    exfalso
    obtain ⟨_, _, hr⟩ := lrf_parts c envDirect (.ref 0) h
    obtain ⟨h1, h2⟩ := hr 0 _ rfl
    have h0 : 0 ∈ c.lm 0 := h2 0 (by simp [lrfMemos])
    simp [lrfLocal, lrfLocalList, lrfMemos, lrfMemosAny, lrfMemosSeq, h0] at h1

/-- neither have hidden and indirect left recursion (all three are accepted by `wf`: C02T) -/
theorem lrfAuto_bad : lrfAuto envDirect (.ref 0) = false ∧ lrfAuto envHidden (.ref 0) = false ∧
    lrfAuto envMutual (.ref 0) = false := by decide

/-- **ranks alone do not suffice.**  `R₀ → memo₀ R₁`, `R₁ → memo₀ a`: the only left reference goes from rule 0
    to rule 1 (rank 1 > rank 0, under a Memoize or not), the C02 check accepts the grammar — and Memoize 0 is
    started at position 1 while it is running at position 1 (depth 2).  `lrf` rejects it. -/
theorem c03l_rank_alone_insufficient :
    let env : List G := [.memo 0 (.ref 1), .memo 0 (ch 97)]
    wf (C02NV.certOne [1, 0] [0]) env (.ref 0) = true ∧
    ((run (mkCfg env [97]) 20 (.ref 0) [] 1 {}).map (fun r => decide (NoReentry r.2.log))) = some false ∧
    lrfAuto env (.ref 0) = false := by decide

/-- the hypotheses of `c03_lrf_no_reentry` are satisfiable: the expression grammar never curtails and never
    re-enters, on EVERY input -/
theorem expr_clean (data : Bytes) (fuel : Nat) (p : ParseOut)
    (h : parse (mkCfg envExpr data) fuel (G.sentence (.ref 0)) = some p) :
    NoCurtail p.st.log ∧ NoReentry p.st.log := by
  refine c03_lrf_no_reentry_parse _ (mkCfg envExpr data) _ lrf_sentence ⟨?_, ?_⟩ fuel p h
  · simp [G.sentence, G.Core, CoreList]
  · intro g' hg'
    simp only [mkCfg, envExpr, List.mem_cons, List.not_mem_nil, or_false] at hg'
    rcases hg' with rfl | rfl | rfl <;> simp [G.Core, CoreList, ch, termOK_rune]

/-- `S → V x | V y` over the JSON-like rule: the second alternative asks for `V` where the first one ran it -/
def rootXY : G := .any [.seq .seqOf [.ref 0, ch 120] {}, .seq .seqOf [.ref 0, ch 121] {}]

theorem lrf_rootXY : lrf (certOf [] [] [] [0] [[0]]) envJsonM rootXY = true := by decide

set_option maxRecDepth 100000 in
/-- … and the model agrees on a concrete input: "[a,a]y" parses, the second `V` at position 1 is a cache hit,
    nothing is curtailed, nothing re-entered -/
theorem json_run :
    (parse (mkCfg envJsonM [91, 97, 44, 97, 93, 121]) 40 rootXY).map (fun p =>
      (p.err.isNone, decide (NoCurtail p.st.log), decide (NoReentry p.st.log),
        (p.st.log.filter (fun e => match e with | .hit _ _ => true | _ => false)).length))
    = some (true, true, true, 1) := by decide

/-- the theorem applies to the pair of runs of Props/C03.lean (`S → A x | A y` on "ay") with NO hypothesis on
    the log: same trees, and the memoized run makes no more calls -/
theorem shared_transparent (o o0 : Out) (st' st0' : St) (h : run (c03Cfg [97, 121]) 20 c03S [] 1 {} = some (o, st'))
    (h0 : run (stripCfg (c03Cfg [97, 121])) 20 (stripAll c03S) [] 1 {} = some (o0, st0')) :
    o.res = o0.res ∧ st'.calls ≤ st0'.calls :=
  have t := c03_transparent_lrf (certOf [] [] [] [0] []) (c03Cfg [97, 121]) _ rfl (by intro g' hg'; cases hg') c03S c03S_wf
    lrf_shared ⟨by simp [c03S, c03A, c03t, G.Core, CoreList, termOK_rune], by intro g' hg'; cases hg'⟩
    20 20 1 ⟨by decide, by decide⟩ o o0 st' st0' h h0
  ⟨t.1, t.2.2.2.2⟩

end C03LNV

end PV
