/-
  C01 WITH THE WHITESPACE TRIMS — soundness and completeness for the monotone fragment

      term, empty, ref, memo, any, seqOf, optional   +   ltrim, rtrim   (Trim = rtrim ∘ ltrim, WsSpacesNl)

  with every whitespace mode.  (Props/C01C.lean stops at the trims; Props/C05V.lean re-proved reuse-completeness
  for ONE closed grammar with Trim.)

  Model: ParsleyVerif/Model/Run.lean (`run`, cases `ltrim` / `rtrim` transcribe text/trim.go).
  Specification: ParsleyVerif/Spec/DerivesW.lean —
    `DerivesW`   the EXACT meaning: LeftTrim skips the maximal whitespace run and the mode must accept it;
                 RightTrim moves each tree's reader position over the maximal run after it, and the mode must
                 accept that run (`c01w_ltrim_meaning`, `c01w_rtrim_meaning` restate the two rules in the
                 vocabulary of Props/C10.lean: `wsOk`, `wsRun`).  `DerivesW` refines the loose `Derives` of
                 Spec/Derives.lean (`c01w_refines`), which keeps `rtrimKeep` and ignores the modes.
    `DerivesCW`  curtailed derivations; LeftTrim hands the left-recursion counters on UNCHANGED, also across
                 skipped whitespace — this is what text/trim.go does.

  THE CARRIED-COUNTER QUESTION.  A parser entered across skipped whitespace starts at `p' > p` with the counters
  earned at `p`, and is tested against `remaining p' + 1 < remaining p + 1`.  It never loses a derivation:
  `c01w_curtailed_covers` (cut argument with a phase, Proofs/C1TCover.lean).  The margin is exactly the `+ 1` of
  combinator/memoize.go: between two counter resets at most ONE LeftTrim moves (afterwards no whitespace is left),
  the first activation after the move may end where the innermost activation before it ends, and that one
  uncuttable repetition is paid by the slack.  Without trims `c k ≤ remaining` always (the slack is never
  used); with trims `c k = remaining + 1` occurs: `P → P 'b' | LeftTrim(P) | ε` on " b" needs it (replayed on
  the Go library with the `+ 1` removed from a scratch copy: Sentence(P) then rejects " b", "  bb", " bbb").

  FINDINGS (all replayed on the Go library; the theorems below carry the scope restrictions that exclude them):
    F1  RightTrim with a REJECTING mode (WsNone / WsSpaces / WsSpacesForceNl) over an operand with several
        alternatives applies the whitespace verdict of the LAST alternative to all of them (`wsErr` in
        text/trim.go is one closure variable, overwritten by every SetReaderPos call of NodeList.SetReaderPos):
        `c01w_F1_loses` (a derivation is lost), `c01w_F1_accepts` (a tree whose whitespace the mode rejects is
        returned).  Scope: `rtrim g m` needs `m = WsSpacesNl` or a one-alternative operand (`OneAlt`).
    F2  LeftTrim with a rejecting mode hands a result that comes with an error at/before the operand's start
        through although the mode rejected the run (`Optional` below it): `c01w_F2_accepts`.  Scope (soundness
        only): `ltrim g m` needs `m = WsSpacesNl` or an `ErrFree` operand.
    (known, D9 family) RightTrim hands a result that comes with an error through UNMOVED: `rtrim g m` needs an
        `ErrFree` operand (`c01w_rtrim_optional_unmoved`).
  `text.Trim` uses WsSpacesNl on both sides: F1 and F2 cannot occur with it; its operand must be `ErrFree`.
-/
import ParsleyVerif.Proofs.C1TSound
import ParsleyVerif.Proofs.C1TTrees
import ParsleyVerif.Proofs.C1TSentence
import ParsleyVerif.Proofs.A05Lex
import ParsleyVerif.Props.C01C
import ParsleyVerif.Props.C10
namespace PV
open PV.Text PV.C1T

/-- what the completeness theorems ask of a parser: in the fragment with trims (RightTrim over an `ErrFree`
    operand; a rejecting mode only over a token), one parser per `Memoize` index, terminals inside the file -/
structure WScope (cfg : Cfg) (bodyOf : Nat → G) (g : G) : Prop where
  frag : FragW cfg g
  gok : GOK bodyOf g
  terms : TermsW cfg g

/-- what soundness asks: the fragment, one parser per index, LeftTrim with a rejecting mode over `ErrFree` -/
structure WScopeS (cfg : Cfg) (bodyOf : Nat → G) (g : G) : Prop where
  frag : FragW cfg g
  sound : SoundW cfg g
  gok : GOK bodyOf g

/-! ### the exact meaning, in the vocabulary of C10 -/

/-- LeftTrim: the mode accepts the run at `pos` and the operand derives the tree right after the run -/
theorem c01w_ltrim_meaning (cfg : Cfg) (g : G) (m : WsMode) (pos : Nat) (x : Node)
    (hin : InFile cfg.file pos) (hoff : 1 ≤ cfg.file.offset) :
    DerivesW cfg (.ltrim g m) pos x ↔
      wsOk m (rest cfg.file pos) ∧ DerivesW cfg g (pos + wsRun (rest cfg.file pos)) x := by
  have hs := skipWhitespaces_spec cfg.file pos m hin hoff
  constructor
  · intro h
    cases h with
    | ltrim hws hd =>
      rw [hs] at hws hd
      simp only at hws hd
      refine ⟨?_, hd⟩
      by_cases hok : wsOk m (rest cfg.file pos)
      · exact hok
      · have := wsVerdict_fail m pos (rest cfg.file pos) hok
        rw [hws] at this; simp [wsToErr] at this
  · rintro ⟨hok, hd⟩
    refine .ltrim ?_ ?_
    · rw [hs]; exact wsVerdict_ok m pos _ hok
    · rw [hs]; exact hd

/-- RightTrim: a tree of the operand, the mode accepts the run after it, the reader position moved past it -/
theorem c01w_rtrim_meaning (cfg : Cfg) (g : G) (m : WsMode) (pos : Nat) (y : Node) :
    DerivesW cfg (.rtrim g m) pos y ↔ ∃ x, DerivesW cfg g pos x ∧ movedErr cfg m x = none ∧ y = moved cfg m x := by
  constructor
  · intro h
    cases h with
    | rtrim hd hok => exact ⟨_, hd, hok, rfl⟩
  · rintro ⟨x, hd, hok, rfl⟩
    exact .rtrim hd hok

/-- what `moved` / `movedErr` are, for a tree that ends inside the file (every tree but an EndNode; an
    EmptyNode has no start of its own: it moves as a whole) -/
theorem c01w_moved_spec (cfg : Cfg) (m : WsMode) (x : Node) (hne : NotEof x)
    (hin : InFile cfg.file x.rpos) (hoff : 1 ≤ cfg.file.offset) :
    (movedErr cfg m x = none ↔ wsOk m (rest cfg.file x.rpos)) ∧
    (moved cfg m x).rpos = x.rpos + wsRun (rest cfg.file x.rpos) ∧
    ((∀ p, x ≠ .empty p) → (moved cfg m x).pos = x.pos) ∧ (moved cfg m x).token = x.token := by
  have hs := skipWhitespaces_spec cfg.file x.rpos m hin hoff
  refine ⟨?_, ?_, ?_, moved_token cfg m x⟩
  · rw [movedErr_eq cfg m x hne, hs]
    simp only
    by_cases hok : wsOk m (rest cfg.file x.rpos)
    · rw [wsVerdict_ok m _ _ hok]; simp [wsToErr, hok]
    · rw [wsVerdict_fail m _ _ hok]; simp [wsToErr, hok]
  · rw [moved_rpos cfg m x hne, hs]
  · intro hnem
    cases x with
    | empty p => exact absurd rfl (hnem p)
    | term _ _ _ _ => simp [moved, setRposNode, Node.pos]
    | eof _ => simp [moved, setRposNode, Node.pos]
    | nt _ _ _ _ _ => simp [moved, setRposNode, Node.pos]

/-- sized exact derivations are derivations in the loose sense -/
theorem c01w_refines_sized (cfg : Cfg) : ∀ n,
    (∀ g pos x, DerivesWN cfg n g pos x → Derives cfg g pos x) ∧
    (∀ sh d pos nodes, DerivesSeqWN cfg n sh d pos nodes → DerivesSeq cfg sh d pos nodes) := by
  intro n
  induction n using Nat.strongRecOn with
  | _ n ih =>
    refine ⟨?_, ?_⟩
    · intro g pos x h
      cases h with
      | term hp => exact .term hp
      | empty => exact .empty
      | ref hk hd => exact .ref hk ((ih _ (by omega)).1 _ _ _ hd)
      | memo hd => exact .memo ((ih _ (by omega)).1 _ _ _ hd)
      | any hm hd => exact .any hm ((ih _ (by omega)).1 _ _ _ hd)
      | optSome hd => exact .optSome ((ih _ (by omega)).1 _ _ _ hd)
      | optNone => exact .optNone
      | seqOf hs hds hl => exact .seqfam hs ((ih _ (by omega)).2 _ _ _ _ hds) hl
      | ltrim _ hd => exact .ltrim ((ih _ (by omega)).1 _ _ _ hd)
      | rtrim hd _ => exact .rtrimMove ((ih _ (by omega)).1 _ _ _ hd)
    · intro sh d pos nodes h
      cases h with
      | nil => exact .nil
      | cons hl hx hrest => exact .cons hl ((ih _ (by omega)).1 _ _ _ hx) ((ih _ (by omega)).2 _ _ _ _ hrest)

/-- the exact meaning refines the loose one of Spec/Derives.lean -/
theorem c01w_refines (cfg : Cfg) (g : G) (pos : Nat) (x : Node) (h : DerivesW cfg g pos x) : Derives cfg g pos x := by
  obtain ⟨n, hn⟩ := derivesWN_of_derivesW cfg h
  exact (c01w_refines_sized cfg n).1 _ _ _ hn

/-! ### soundness -/

/-- **C01 soundness for the exact trim meaning.**  Every tree `run` returns — from any cache that only holds
    exact derivations, under any context, with any fuel — is an exact derivation: the whitespace before a
    LeftTrim's operand and after a RightTrim's tree is the maximal run, and the mode accepts it. -/
theorem c01w_sound (cfg : Cfg) (bodyOf : Nat → G) (henv : ∀ g' ∈ cfg.env, WScopeS cfg bodyOf g')
    (fuel : Nat) (g : G) (ctx : Ctx) (pos : Nat) (st : St) (o : Out) (st' : St)
    (hs : WScopeS cfg bodyOf g) (hst : CacheS cfg bodyOf st)
    (h : run cfg fuel g ctx pos st = some (o, st')) :
    ∀ x ∈ o.res.alts, DerivesW cfg g pos x :=
  (run_soundW cfg bodyOf (fun g' hg' => ⟨(henv g' hg').frag, (henv g' hg').sound, (henv g' hg').gok⟩) fuel g ctx pos st o st'
    ⟨hs.frag, hs.sound, hs.gok⟩ hst h).1

/-- the cache invariant behind it is preserved, and holds of the empty cache -/
theorem c01w_cache_sound (cfg : Cfg) (bodyOf : Nat → G) (henv : ∀ g' ∈ cfg.env, WScopeS cfg bodyOf g')
    (fuel : Nat) (g : G) (ctx : Ctx) (pos : Nat) (st : St) (o : Out) (st' : St)
    (hs : WScopeS cfg bodyOf g) (hst : CacheS cfg bodyOf st)
    (h : run cfg fuel g ctx pos st = some (o, st')) : CacheS cfg bodyOf st' ∧ CacheS cfg bodyOf {} :=
  ⟨(run_soundW cfg bodyOf (fun g' hg' => ⟨(henv g' hg').frag, (henv g' hg').sound, (henv g' hg').gok⟩) fuel g ctx pos st o st'
    ⟨hs.frag, hs.sound, hs.gok⟩ hst h).2.2, by intro e he; cases he⟩

/-! ### completeness -/

/-- **(A) with trims: cache reuse, curtailing sets and the trims never lose a curtailed derivation.**
    `run … g ctx pos st` answered `o`; then for EVERY counter function `c'` with `ctx.get k ≤ c' k` on the keys
    of the returned curtailing set every tree with a curtailed derivation under `c'` is among the returned
    alternatives.  (LeftTrim: the operand is run after the whitespace under the SAME context, and
    `DerivesCW.ltrim` derives it there under the SAME counters.) -/
theorem c01w_reuse_complete (cfg : Cfg) (bodyOf : Nat → G) (henv : ∀ g' ∈ cfg.env, FragW cfg g' ∧ GOK bodyOf g')
    (fuel : Nat) (g : G) (ctx : Ctx) (pos : Nat) (st : St) (o : Out) (st' : St)
    (hf : FragW cfg g) (hg : GOK bodyOf g) (hst : C1T.CacheC cfg bodyOf st)
    (h : run cfg fuel g ctx pos st = some (o, st')) :
    ∀ (c' : Nat → Nat) (x : Node), (∀ k ∈ o.cp, ctx.get k ≤ c' k) → DerivesCW cfg c' g pos x → x ∈ o.res.alts :=
  (run_completeW cfg bodyOf henv fuel g ctx pos st o st' hf hg hst h).1

/-- the cache invariant is preserved by every call and holds of the empty cache -/
theorem c01w_cache_complete (cfg : Cfg) (bodyOf : Nat → G) (henv : ∀ g' ∈ cfg.env, FragW cfg g' ∧ GOK bodyOf g')
    (fuel : Nat) (g : G) (ctx : Ctx) (pos : Nat) (st : St) (o : Out) (st' : St)
    (hf : FragW cfg g) (hg : GOK bodyOf g) (hst : C1T.CacheC cfg bodyOf st)
    (h : run cfg fuel g ctx pos st = some (o, st')) :
    C1T.CacheC cfg bodyOf st' ∧ C1T.CacheC cfg bodyOf {} :=
  ⟨(run_completeW cfg bodyOf henv fuel g ctx pos st o st' hf hg hst h).2.2.2, by intro e he; cases he⟩

/-- **(B) with trims: carrying the counters across skipped whitespace never loses an end position.**
    Every end position an exact derivation reaches is reached by a curtailed derivation from the empty
    context — in which every LeftTrim hands its counters to the operand unchanged. -/
theorem c01w_curtailed_covers (cfg : Cfg) (bodyOf : Nat → G) (henv : ∀ g' ∈ cfg.env, WScope cfg bodyOf g')
    (g : G) (hs : WScope cfg bodyOf g) (pos : Nat) (hin : InFile cfg.file pos) (x : Node)
    (h : DerivesW cfg g pos x) : ∃ y, DerivesCW cfg zeroC g pos y ∧ y.rpos = x.rpos :=
  derivesCW_of_derivesW_ends cfg bodyOf (fun g' hg' => ⟨(henv g' hg').gok, (henv g' hg').terms⟩) g ⟨hs.gok, hs.terms⟩
    pos hin x h

/-- **(B), trees**: in an acyclic grammar every exact derivation is a curtailed derivation — the same tree -/
theorem c01w_curtailed_covers_trees (cfg : Cfg) (bodyOf : Nat → G) (henv : ∀ g' ∈ cfg.env, WScope cfg bodyOf g')
    (hac : AcyclicW cfg bodyOf) (g : G) (hs : WScope cfg bodyOf g) (pos : Nat) (hin : InFile cfg.file pos) (x : Node)
    (h : DerivesW cfg g pos x) : DerivesCW cfg zeroC g pos x :=
  derivesCW_of_derivesW_tree cfg bodyOf (fun g' hg' => ⟨(henv g' hg').gok, (henv g' hg').terms⟩) hac g ⟨hs.gok, hs.terms⟩
    pos hin x h

/-- **C01 completeness with trims, end positions.**  Whenever `run` answers — from the empty context, from any
    cache that satisfies the invariant — for every exact derivation of the parser at the call position a tree
    with the same end position is among the returned alternatives. -/
theorem c01w_complete_ends (cfg : Cfg) (bodyOf : Nat → G) (henv : ∀ g' ∈ cfg.env, WScope cfg bodyOf g')
    (g : G) (hs : WScope cfg bodyOf g) (fuel : Nat) (pos : Nat) (hin : InFile cfg.file pos)
    (st : St) (hst : C1T.CacheC cfg bodyOf st) (o : Out) (st' : St)
    (h : run cfg fuel g [] pos st = some (o, st')) :
    ∀ x, DerivesW cfg g pos x → ∃ y ∈ o.res.alts, y.rpos = x.rpos := by
  intro x hx
  obtain ⟨y, hy, he⟩ := c01w_curtailed_covers cfg bodyOf henv g hs pos hin x hx
  refine ⟨y, ?_, he⟩
  exact c01w_reuse_complete cfg bodyOf (fun g' hg' => ⟨(henv g' hg').frag, (henv g' hg').gok⟩) fuel g [] pos st o st'
    hs.frag hs.gok hst h zeroC y (by intro k _; exact Nat.zero_le _) hy

/-- **C01 completeness with trims, trees.**  In an acyclic grammar every exact derivation — every distinct
    tree — is among the returned alternatives. -/
theorem c01w_complete_trees (cfg : Cfg) (bodyOf : Nat → G) (henv : ∀ g' ∈ cfg.env, WScope cfg bodyOf g')
    (hac : AcyclicW cfg bodyOf)
    (g : G) (hs : WScope cfg bodyOf g) (fuel : Nat) (pos : Nat) (hin : InFile cfg.file pos)
    (st : St) (hst : C1T.CacheC cfg bodyOf st) (o : Out) (st' : St)
    (h : run cfg fuel g [] pos st = some (o, st')) :
    ∀ x, DerivesW cfg g pos x → x ∈ o.res.alts := by
  intro x hx
  have hy := c01w_curtailed_covers_trees cfg bodyOf henv hac g hs pos hin x hx
  exact c01w_reuse_complete cfg bodyOf (fun g' hg' => ⟨(henv g' hg').frag, (henv g' hg').gok⟩) fuel g [] pos st o st'
    hs.frag hs.gok hst h zeroC x (by intro k _; exact Nat.zero_le _) hy

/-- soundness and completeness together: from a fresh context the returned END POSITIONS are exactly the end
    positions of the exact derivations -/
theorem c01w_ends_exact (cfg : Cfg) (bodyOf : Nat → G)
    (henv : ∀ g' ∈ cfg.env, WScope cfg bodyOf g' ∧ SoundW cfg g')
    (g : G) (hs : WScope cfg bodyOf g) (hss : SoundW cfg g) (fuel : Nat) (pos : Nat) (hin : InFile cfg.file pos)
    (o : Out) (st' : St) (h : run cfg fuel g [] pos {} = some (o, st')) (e : Nat) :
    (∃ x, DerivesW cfg g pos x ∧ x.rpos = e) ↔ e ∈ o.res.alts.map Node.rpos := by
  constructor
  · rintro ⟨x, hx, rfl⟩
    obtain ⟨y, hy, he⟩ := c01w_complete_ends cfg bodyOf (fun g' hg' => (henv g' hg').1) g hs fuel pos hin {}
      (by intro e he; cases he) o st' h x hx
    exact List.mem_map.mpr ⟨y, hy, he⟩
  · intro he
    obtain ⟨y, hy, rfl⟩ := List.mem_map.mp he
    exact ⟨y, c01w_sound cfg bodyOf (fun g' hg' => ⟨(henv g' hg').1.frag, (henv g' hg').2, (henv g' hg').1.gok⟩) fuel g [] pos {} o st'
      ⟨hs.frag, hss, hs.gok⟩ (by intro e he; cases he) h y hy, rfl⟩

/-- and in an acyclic grammar the returned TREES are exactly the exact derivations -/
theorem c01w_trees_exact (cfg : Cfg) (bodyOf : Nat → G)
    (henv : ∀ g' ∈ cfg.env, WScope cfg bodyOf g' ∧ SoundW cfg g') (hac : AcyclicW cfg bodyOf)
    (g : G) (hs : WScope cfg bodyOf g) (hss : SoundW cfg g) (fuel : Nat) (pos : Nat) (hin : InFile cfg.file pos)
    (o : Out) (st' : St) (h : run cfg fuel g [] pos {} = some (o, st')) (x : Node) :
    DerivesW cfg g pos x ↔ x ∈ o.res.alts :=
  ⟨c01w_complete_trees cfg bodyOf (fun g' hg' => (henv g' hg').1) hac g hs fuel pos hin {} (by intro e he; cases he) o st' h x,
   c01w_sound cfg bodyOf (fun g' hg' => ⟨(henv g' hg').1.frag, (henv g' hg').2, (henv g' hg').1.gok⟩) fuel g [] pos {} o st'
    ⟨hs.frag, hss, hs.gok⟩ (by intro e he; cases he) h x⟩

/-! ### through the `Sentence` wrapper -/

/-- **Sentence succeeds if some exact derivation of the operand consumes the entire input** — whenever it
    answers (termination with trims is Props/C02U.lean). -/
theorem c01w_sentence_complete (cfg : Cfg) (bodyOf : Nat → G) (henv : ∀ g' ∈ cfg.env, WScope cfg bodyOf g')
    (g : G) (hs : WScope cfg bodyOf g) (fuel : Nat) (pos : Nat) (hin : InFile cfg.file pos)
    (st : St) (hst : C1T.CacheC cfg bodyOf st) (o : Out) (st' : St)
    (h : run cfg fuel (G.sentence g) [] pos st = some (o, st'))
    (hex : ∃ x, DerivesW cfg g pos x ∧ x.rpos = cfg.hi) : o.res.alts ≠ [] ∧ o.err = none := by
  obtain ⟨x, hx, he⟩ := hex
  obtain ⟨y, hy, hye⟩ := c01w_curtailed_covers cfg bodyOf henv g hs pos hin x hx
  exact sentence_completeW cfg bodyOf (fun g' hg' => ⟨(henv g' hg').frag, (henv g' hg').gok⟩) g hs.frag hs.gok fuel pos st hst
    o st' h y hy (by rw [hye, he]; exact isEOF_hi cfg)

/-- the same for `parsley.Parse(Sentence g)` from a fresh context -/
theorem c01w_sentence_complete_parse (cfg : Cfg) (bodyOf : Nat → G) (henv : ∀ g' ∈ cfg.env, WScope cfg bodyOf g')
    (g : G) (hs : WScope cfg bodyOf g) (fuel : Nat) (p : ParseOut)
    (h : parse cfg fuel (G.sentence g) = some p)
    (hex : ∃ x, DerivesW cfg g (cfg.file.pos 0) x ∧ x.rpos = cfg.hi) : p.err = none ∧ p.res.alts ≠ [] := by
  cases hr : run cfg fuel (G.sentence g) [] (cfg.file.pos 0) {} with
  | none => simp [parse, hr] at h
  | some r =>
    obtain ⟨o, st1⟩ := r
    obtain ⟨h1, h2⟩ := c01w_sentence_complete cfg bodyOf henv g hs fuel _ (c01_pre_initial cfg).1 {}
      (by intro e he; cases he) o st1 hr hex
    have hnil : o.res.isNil = false := by
      cases hres : o.res with
      | nil => rw [hres] at h1; exact absurd rfl h1
      | one _ => rfl
      | list _ => rfl
    simp only [parse, hr, hnil, h2, Bool.false_and, Bool.false_eq_true, ↓reduceIte] at h
    cases h
    exact ⟨rfl, h1⟩

end PV
namespace PV.C1TNV
open PV PV.Text PV.C1T

/-! ### the hypotheses can be met: rune and integer terminals, `Trim` -/

theorem c1t_fragLocalW_rune (cfg : Cfg) (ch : Nat) (name : Bytes) (h : Utf8.encodeRune ch ≠ eofTok) :
    FragLocalW cfg (.term (.rune ch name)) := fragLocal_rune cfg ch name h

theorem c1t_fragLocalW_integer (cfg : Cfg) : FragLocalW cfg (.term .integer) := by
  intro pos n hn
  simp only [Terminal.parse] at hn
  split at hn
  · cases hn
  · split at hn
    · cases hn
    · simp [nf] at hn
    · split at hn
      · simp [other] at hn
      · injection hn with hn; subst hn; simp only [Node.token]; decide +kernel
  · simp [nf] at hn

theorem c1t_termGood_integer (cfg : Cfg) : TermGood cfg .integer := by
  intro pos hin
  constructor
  · intro n hn
    obtain ⟨b, _, _, v, k, hk0, hk, rfl⟩ := PV.A05.integer_node_head cfg.params cfg.file pos n hin hn
    have hlen := rest_length cfg.file pos hin
    refine ⟨rfl, ?_⟩
    simp only [Node.WF]
    unfold Cfg.hi
    have := hin.1
    omega
  · intro e he
    have hhi : pos ≤ cfg.hi := hin.2
    rcases (c08_integer_err cfg.params cfg.file pos e hin).mp he with ⟨rfl, _⟩ | ⟨rfl, _⟩
    · exact ⟨Nat.le_refl _, hhi⟩
    · exact ⟨Nat.le_refl _, hhi⟩

/-- `text.Trim` of a terminal is in scope (completeness and soundness) whenever the terminal is -/
theorem c1t_scope_trim_term (cfg : Cfg) (bodyOf : Nat → G) (t : Terminal) (h1 : FragLocalW cfg (.term t))
    (h2 : TermGood cfg t) : WScope cfg bodyOf (G.trim (.term t)) ∧ SoundW cfg (G.trim (.term t)) := by
  refine ⟨⟨?_, ?_, ?_⟩, ?_⟩
  · simp only [G.trim, FragW, G.All]
    exact ⟨⟨trivial, .inl rfl⟩, trivial, h1⟩
  · simp [G.trim, GOK, G.All, LocalOK]
  · simp only [G.trim, TermsW, G.All, TermsLocalW, true_and]
    exact h2
  · simp [G.trim, SoundW, G.All, SoundLocalW]

theorem c1t_root (cfg : Cfg) (bodyOf : Nat → G) (k : Nat) : WScope cfg bodyOf (.ref k) ∧ SoundW cfg (.ref k) :=
  ⟨⟨by simp [FragW, G.All, FragLocalW], by simp [GOK, G.All, LocalOK], by simp [TermsW, G.All, TermsLocalW]⟩,
   by simp [SoundW, G.All, SoundLocalW]⟩

theorem derivesW_rune_rpos (cfg : Cfg) (ch : Nat) (name : Bytes) (hc : ch < 0x80) (pos : Nat) (hin : InFile cfg.file pos)
    (m : Node) (h : DerivesW cfg (.term (.rune ch name)) pos m) : m.rpos = pos + 1 ∧ NotEof m := by
  cases h with
  | term hp =>
    refine ⟨rune_node_rpos cfg ch name hc pos hin m hp, ?_⟩
    obtain ⟨tok, v, r, rfl⟩ := Terminal.parse_node _ _ _ _ _ hp
    intro p hp'; cases hp'

def c1tCfg (env : List G) (d : Bytes) : Cfg :=
  { env := env, file := { name := "f", data := d, offset := 1 }, fileSet := {},
    params := { floatOk := fun _ => true, durErr := fun _ => none, regexp := fun _ _ => none } }

def c1tA : G := .term (.rune 97 [34, 97, 34])
def c1tB : G := .term (.rune 98 [34, 98, 34])

/-! ### FINDING F1: RightTrim with a rejecting mode over several alternatives
    `RightTrim(Any('a', SeqOf('a','b')), WsNone)` and the same with the alternatives swapped, on "ab c".
    Go replay: `SeqOf(RightTrim(Any(a, SeqOf(a,b)), WsNone), b, LeftTrim(c, WsSpacesNl))` under `Sentence` on
    "ab c" fails with "whitespaces are not allowed at f:1:3" although the same grammar with `RightTrim(a, WsNone)`
    parses it; `SeqOf(RightTrim(Any(SeqOf(a,b), a), WsNone), c)` under `Sentence` ACCEPTS "ab c" although
    `SeqOf(RightTrim(SeqOf(a,b), WsNone), c)` rejects it. -/

def f1Cfg : Cfg := c1tCfg [] [97, 98, 32, 99]
def f1Loses : G := .rtrim (.any [c1tA, .seq .seqOf [c1tA, c1tB] {}]) .none
def f1Accepts : G := .rtrim (.any [.seq .seqOf [c1tA, c1tB] {}, c1tA]) .none

end PV.C1TNV
namespace PV
open PV.Text PV.C1T PV.C1TNV

/-- a derivation is lost: `'a'` at 1 is followed by `b` (no whitespace: WsNone accepts), so RightTrim derives it;
    but the LAST alternative `ab` is followed by a blank, and its verdict empties the whole result -/
theorem c01w_F1_loses :
    DerivesW f1Cfg f1Loses 1 (.term [97] (.rune 97) 1 2) ∧
    (run f1Cfg 20 f1Loses [] 1 {}).map (fun r => (r.1.res.alts.length, r.1.err.map (·.pos))) = some (0, some 3) := by
  refine ⟨?_, by decide⟩
  have h : DerivesW f1Cfg f1Loses 1 (moved f1Cfg .none (.term [97] (.rune 97) 1 2)) :=
    .rtrim (.any (g := c1tA) (by simp [c1tA]) (.term rfl)) (by decide)
  exact h

end PV
namespace PV.C1TNV
open PV PV.Text PV.C1T

/-- every exact derivation of the swapped grammar on "ab c" ends at 2 (`ab` is followed by a blank) -/
theorem f1Accepts_ends (x : Node) (h : DerivesW f1Cfg f1Accepts 1 x) : x.rpos = 2 := by
  have hin : ∀ p, 1 ≤ p → p ≤ 5 → InFile f1Cfg.file p := fun p h1 h2 => ⟨h1, h2⟩
  cases h with
  | rtrim hd hok =>
    rename_i y
    have hy : (y.rpos = 2 ∨ y.rpos = 3) ∧ NotEof y := by
      cases hd with
      | any hm hd' =>
        simp only [List.mem_cons, List.not_mem_nil, or_false] at hm
        rcases hm with rfl | rfl
        · cases hd' with
          | seqOf hs hds hl =>
            rename_i sh nodes
            simp only [G.shape, Option.some.injEq] at hs
            subst hs
            simp only [List.length_cons, List.length_nil, beq_iff_eq] at hl
            cases hds with
            | nil => simp at hl
            | cons hl0 hd0 hds1 =>
              simp only [List.getElem?_cons_zero, Option.some.injEq] at hl0
              subst hl0
              obtain ⟨h0, e0⟩ := derivesW_rune_rpos f1Cfg 97 _ (by decide) 1 (hin 1 (by omega) (by omega)) _ hd0
              cases hds1 with
              | nil => simp at hl
              | cons hl1 hd1 hds2 =>
                simp only [Nat.zero_add, List.getElem?_cons_succ, List.getElem?_cons_zero, Option.some.injEq] at hl1
                subst hl1
                rw [h0] at hd1
                obtain ⟨h1, e1⟩ := derivesW_rune_rpos f1Cfg 98 _ (by decide) 2 (hin 2 (by omega) (by omega)) _ hd1
                cases hds2 with
                | nil =>
                  refine ⟨.inr ?_, handleResult_notEof _ _ _ ?_⟩
                  · rw [handleResult_rpos]; simp [endOf, h1]
                  · intro n hn
                    simp only [List.mem_cons, List.not_mem_nil, or_false] at hn
                    rcases hn with rfl | rfl
                    · exact e0
                    · exact e1
                | cons hl2 _ _ => simp at hl2
        · obtain ⟨h0, e0⟩ := derivesW_rune_rpos f1Cfg 97 _ (by decide) 1 (hin 1 (by omega) (by omega)) _ hd'
          exact ⟨.inl h0, e0⟩
    obtain ⟨hy1, hy2⟩ := hy
    rw [movedErr_eq f1Cfg .none y hy2] at hok
    rw [moved_rpos f1Cfg .none y hy2]
    rcases hy1 with h2 | h3
    · rw [h2]; decide
    · rw [h3] at hok; exfalso; revert hok; decide

end PV.C1TNV
namespace PV
open PV.Text PV.C1T PV.C1TNV

/-- a tree is returned that no exact derivation produces: `ab` with its end moved over the blank, although the
    mode is WsNone — because the last alternative `a` is followed by no whitespace -/
theorem c01w_F1_accepts :
    (run f1Cfg 20 f1Accepts [] 1 {}).map (fun r => (r.1.res.alts.map Node.rpos, r.1.err.isNone)) = some ([4, 2], true) ∧
    ∀ x, DerivesW f1Cfg f1Accepts 1 x → x.rpos ≠ 4 := by
  refine ⟨by decide, ?_⟩
  intro x hx
  rw [f1Accepts_ends x hx]; decide

end PV
namespace PV.C1TNV
open PV PV.Text PV.C1T

/-! ### FINDING F2: LeftTrim with a rejecting mode over `Optional`
    `LeftTrim(Optional('a'), WsNone)` on " b".  Go replay: `SeqOf(LeftTrim(Optional(a), WsNone), b)` under
    `Sentence` ACCEPTS " b". -/

def f2Cfg : Cfg := c1tCfg [] [32, 98]
def f2G : G := .ltrim (.optional c1tA) .none

end PV.C1TNV
namespace PV
open PV.Text PV.C1T PV.C1TNV

theorem c01w_F2_accepts :
    (run f2Cfg 20 f2G [] 1 {}).map (fun r => (r.1.res.alts.map Node.rpos, r.1.err.isSome)) = some ([2], true) ∧
    (run f2Cfg 20 (.seq .seqOf [f2G, c1tB] {}) [] 1 {}).map (fun r => (r.1.res.alts.map Node.rpos, r.1.err.isNone)) = some ([3], true) ∧
    ∀ x, ¬ DerivesW f2Cfg f2G 1 x := by
  refine ⟨by decide, by decide, ?_⟩
  intro x hx
  cases hx with
  | ltrim hws _ => revert hws; decide

end PV
namespace PV.C1TNV
open PV PV.Text PV.C1T

/-! ### (D9 family) RightTrim hands a result that comes with an error through unmoved
    `RightTrim(Optional('a'), WsSpacesNl)` on " b": the exact derivation is the EmptyNode moved to 2; the
    library returns the EmptyNode at 1.  This is why the operand of a RightTrim must be `ErrFree`. -/

def f3G : G := .rtrim (.optional c1tA) .spacesNl

end PV.C1TNV
namespace PV
open PV.Text PV.C1T PV.C1TNV

theorem c01w_rtrim_optional_unmoved :
    DerivesW f2Cfg f3G 1 (.empty 2) ∧
    (run f2Cfg 20 f3G [] 1 {}).map (fun r => r.1.res.alts.map Node.rpos) = some [1] := by
  refine ⟨?_, by decide⟩
  have h : DerivesW f2Cfg f3G 1 (moved f2Cfg .spacesNl (.empty 1)) := .rtrim .optNone (by decide)
  exact h

end PV
namespace PV.C1TNV
open PV PV.Text PV.C1T

/-! ### non-vacuity 1: left recursion THROUGH a LeftTrim  `P → LeftTrim(P) 'b' | 'a'`  (memoized) on "  abb"
    The recursive call is entered across two skipped blanks with the counters of position 1. -/

def ltBody : G := .any [.seq .seqOf [.ltrim (.ref 0) .spacesNl, c1tB] {}, c1tA]
def ltCfg : Cfg := c1tCfg [.memo 0 ltBody] [32, 32, 97, 98, 98]

theorem lt_scope : ∀ g' ∈ ltCfg.env, WScope ltCfg (fun _ => ltBody) g' ∧ SoundW ltCfg g' := by
  intro g' hg'
  simp only [ltCfg, c1tCfg, List.mem_singleton] at hg'
  subst hg'
  refine ⟨⟨?_, ?_, ?_⟩, ?_⟩
  · simp only [FragW, G.All, AllList, FragLocalW, ltBody, c1tA, c1tB, and_true, true_and]
    exact ⟨⟨by decide, fragLocal_rune _ _ _ (by decide)⟩, fragLocal_rune _ _ _ (by decide)⟩
  · simp [GOK, G.All, AllList, LocalOK, ltBody, c1tA, c1tB]
  · simp only [TermsW, G.All, AllList, TermsLocalW, ltBody, c1tA, c1tB, and_true, true_and]
    exact ⟨termGood_rune _ _ _, termGood_rune _ _ _⟩
  · simp [SoundW, G.All, AllList, SoundLocalW, ltBody, c1tA, c1tB]

/-- the ends theorem, instantiated: the exact derivations of `P` on "  abb" end at 5 or 6 and nowhere else -/
theorem lt_ends : ∀ e, (∃ x, DerivesW ltCfg (.ref 0) 1 x ∧ x.rpos = e) ↔ e ∈ [6, 5] := by
  intro e
  obtain ⟨o, st', hrun, hl⟩ := ends_of_eval (cfg := ltCfg) (fuel := 60) (g := .ref 0) (pos := 1) (l := [6, 5]) (by decide)
  rw [← hl]
  exact c01w_ends_exact ltCfg (fun _ => ltBody) lt_scope (.ref 0) (c1t_root _ _ 0).1 (c1t_root ltCfg (fun _ => ltBody) 0).2 60 1
    ⟨by decide, by decide⟩ o st' hrun e

def ltA : Node := .term [97] (.rune 97) 3 4
def ltAB : Node := .nt seqTok [ltA, .term [98] (.rune 98) 4 5] 3 5 .none
def ltABB : Node := .nt seqTok [ltAB, .term [98] (.rune 98) 5 6] 3 6 .none

/-- a concrete exact derivation: "  abb" as `((a b) b)`, the inner `P` reached across the two blanks -/
theorem lt_derives : DerivesW ltCfg (.ref 0) 1 ltABB := by
  have hA3 : DerivesW ltCfg (.ref 0) 3 ltA :=
    .ref (g := .memo 0 ltBody) rfl (.memo (.any (g := c1tA) (by simp [c1tA]) (.term rfl)))
  have hAB3 : DerivesW ltCfg (.ref 0) 3 ltAB := by
    refine .ref (g := .memo 0 ltBody) rfl (.memo (.any (g := .seq .seqOf [.ltrim (.ref 0) .spacesNl, c1tB] {}) (by simp) ?_))
    have := DerivesW.seqOf (cfg := ltCfg) (gs := [.ltrim (.ref 0) .spacesNl, c1tB]) (o := {}) (pos := 3)
      (nodes := [ltA, .term [98] (.rune 98) 4 5]) rfl
      (.cons rfl (.ltrim (m := .spacesNl) (by decide) hA3) (.cons rfl (.term rfl) .nil)) rfl
    exact this
  refine .ref (g := .memo 0 ltBody) rfl (.memo (.any (g := .seq .seqOf [.ltrim (.ref 0) .spacesNl, c1tB] {}) (by simp) ?_))
  have := DerivesW.seqOf (cfg := ltCfg) (gs := [.ltrim (.ref 0) .spacesNl, c1tB]) (o := {}) (pos := 1)
    (nodes := [ltAB, .term [98] (.rune 98) 5 6]) rfl
    (.cons rfl (.ltrim (m := .spacesNl) (by decide) hAB3) (.cons rfl (.term rfl) .nil)) rfl
  exact this

/-- `P → LeftTrim(P) 'b' | 'a'` is acyclic: a nested `P` with the same start ends before the `b` -/
theorem lt_acyclic : AcyclicW ltCfg (fun _ => ltBody) := by
  have henv : ∀ g' ∈ ltCfg.env, TermsW ltCfg g' := fun g' hg' => (lt_scope g' hg').1.terms
  intro k pos x hin hc
  generalize he : x.rpos = e at hc
  simp only [ltBody] at hc
  cases hc with
  | any hm hc' =>
    simp only [List.mem_cons, List.not_mem_nil, or_false] at hm
    rcases hm with rfl | rfl
    · cases hc' with
      | seqOf hs hcs hl =>
        rename_i sh nodes
        simp only [G.shape, Option.some.injEq] at hs
        subst hs
        simp only [List.length_cons, List.length_nil, beq_iff_eq] at hl
        cases hcs with
        | head hl0 hcn hds =>
          rename_i g0 n rest
          simp only [List.getElem?_cons_zero, Option.some.injEq] at hl0
          subst hl0
          obtain ⟨b1, b2, b3, _⟩ := (containsW_end_le ltCfg henv k e).1 hcn
            (by simp [TermsW, G.All, TermsLocalW]) hin
          cases hds with
          | nil => simp at hl
          | cons hl1 hdm hds2 =>
            rename_i g1 m rest2
            simp only [Nat.zero_add, List.getElem?_cons_succ, List.getElem?_cons_zero, Option.some.injEq] at hl1
            subst hl1
            obtain ⟨hm, _⟩ := derivesW_rune_rpos ltCfg 98 _ (by decide) n.rpos (InFile_of_le hin b2 b3) m hdm
            cases hds2 with
            | nil =>
              rw [handleResult_rpos] at he
              simp [endOf] at he
              omega
            | cons hl2 _ _ => simp at hl2
        | tail hl0 hdn hz hcs1 =>
          rename_i g0 n rest
          cases hcs1 with
          | head hl1 hcm _ =>
            simp only [Nat.zero_add, List.getElem?_cons_succ, List.getElem?_cons_zero, Option.some.injEq] at hl1
            subst hl1
            cases hcm
          | tail hl1 hdm hz1 _ =>
            simp only [Nat.zero_add, List.getElem?_cons_succ, List.getElem?_cons_zero, Option.some.injEq] at hl1
            subst hl1
            obtain ⟨hm, _⟩ := derivesW_rune_rpos ltCfg 98 _ (by decide) n.rpos (by rw [hz]; exact hin) _ hdm
            omega
    · cases hc'

/-- the trees theorem, instantiated: whenever the model answers, the trees it returns for `P` on "  abb" are
    exactly the exact derivations — in particular `((a b) b)` is returned -/
theorem lt_trees (fuel : Nat) (o : Out) (st' : St) (h : run ltCfg fuel (.ref 0) [] 1 {} = some (o, st')) :
    (∀ x, DerivesW ltCfg (.ref 0) 1 x ↔ x ∈ o.res.alts) ∧ ltABB ∈ o.res.alts := by
  have key := c01w_trees_exact ltCfg (fun _ => ltBody) lt_scope lt_acyclic (.ref 0) (c1t_root _ _ 0).1
    (c1t_root ltCfg (fun _ => ltBody) 0).2 fuel 1 ⟨by decide, by decide⟩ o st' h
  exact ⟨key, (key ltABB).mp lt_derives⟩

/-- through the wrapper: "  abb" is a sentence of `P` -/
theorem lt_sentence (fuel : Nat) (p : ParseOut) (h : parse ltCfg fuel (G.sentence (.ref 0)) = some p) :
    p.err = none ∧ p.res.alts ≠ [] :=
  c01w_sentence_complete_parse ltCfg (fun _ => ltBody) (fun g' hg' => (lt_scope g' hg').1) (.ref 0) (c1t_root _ _ 0).1 fuel p h
    ⟨ltABB, lt_derives, rfl⟩

example : (parse ltCfg 60 (G.sentence (.ref 0))).map (fun p => (p.err.isNone, p.res.alts.map Node.rpos)) = some (true, [6]) := by
  decide

/-! ### non-vacuity 2: the arithmetic grammar (examples/…, Spec/Arith.lean) — every token under `text.Trim` —
    on an input with blanks, "1 + 2 " -/

/-- the arithmetic grammar is in scope, for every input -/
theorem arith_scopeW (cfg : Cfg) (henv : cfg.env = Garith.env) :
    ∀ g' ∈ cfg.env, WScope cfg Garith.bodyOf g' ∧ SoundW cfg g' := by
  have r : ∀ c, Utf8.encodeRune c ≠ eofTok →
      WScope cfg Garith.bodyOf (Garith.trim (Garith.rn c)) ∧ SoundW cfg (Garith.trim (Garith.rn c)) :=
    fun c hc => c1t_scope_trim_term cfg Garith.bodyOf _ (c1t_fragLocalW_rune cfg c _ hc) (termGood_rune cfg c _)
  have ri := c1t_scope_trim_term cfg Garith.bodyOf .integer (c1t_fragLocalW_integer cfg) (c1t_termGood_integer cfg)
  have rf := fun k => c1t_root cfg Garith.bodyOf k
  intro g' hg'
  rw [henv] at hg'
  simp only [Garith.env, List.mem_cons, List.not_mem_nil, or_false] at hg'
  have r43 := r 43 (by decide); have r45 := r 45 (by decide); have r42 := r 42 (by decide)
  have r47 := r 47 (by decide); have r40 := r 40 (by decide); have r41 := r 41 (by decide)
  rcases hg' with rfl | rfl | rfl
  · refine ⟨⟨?_, ?_, ?_⟩, ?_⟩
    · simp only [Garith.expr, Garith.exprBody, Garith.exprSeq, Garith.addop, Garith.bin, FragW, G.All, AllList, FragLocalW,
        and_true, true_and]
      exact ⟨by decide, r43.1.frag, r45.1.frag⟩
    · simp only [Garith.expr, Garith.exprBody, Garith.exprSeq, Garith.addop, GOK, G.All, AllList, LocalOK, Garith.bodyOf,
        and_true, true_and]
      exact ⟨r43.1.gok, r45.1.gok⟩
    · simp only [Garith.expr, Garith.exprBody, Garith.exprSeq, Garith.addop, TermsW, G.All, AllList, TermsLocalW,
        and_true, true_and]
      exact ⟨r43.1.terms, r45.1.terms⟩
    · simp only [Garith.expr, Garith.exprBody, Garith.exprSeq, Garith.addop, SoundW, G.All, AllList, SoundLocalW,
        and_true, true_and]
      exact ⟨r43.2, r45.2⟩
  · refine ⟨⟨?_, ?_, ?_⟩, ?_⟩
    · simp only [Garith.term, Garith.termBody, Garith.termSeq, Garith.mulop, Garith.bin, FragW, G.All, AllList, FragLocalW,
        and_true, true_and]
      exact ⟨by decide, r42.1.frag, r47.1.frag⟩
    · simp only [Garith.term, Garith.termBody, Garith.termSeq, Garith.mulop, GOK, G.All, AllList, LocalOK, Garith.bodyOf,
        and_true, true_and]
      exact ⟨r42.1.gok, r47.1.gok⟩
    · simp only [Garith.term, Garith.termBody, Garith.termSeq, Garith.mulop, TermsW, G.All, AllList, TermsLocalW,
        and_true, true_and]
      exact ⟨r42.1.terms, r47.1.terms⟩
    · simp only [Garith.term, Garith.termBody, Garith.termSeq, Garith.mulop, SoundW, G.All, AllList, SoundLocalW,
        and_true, true_and]
      exact ⟨r42.2, r47.2⟩
  · refine ⟨⟨?_, ?_, ?_⟩, ?_⟩
    · simp only [Garith.factor, Garith.parenSeq, Garith.sel1, FragW, G.All, AllList, FragLocalW, and_true, true_and]
      exact ⟨ri.1.frag, by decide, r40.1.frag, r41.1.frag⟩
    · simp only [Garith.factor, Garith.parenSeq, GOK, G.All, AllList, LocalOK, and_true, true_and]
      exact ⟨ri.1.gok, r40.1.gok, r41.1.gok⟩
    · simp only [Garith.factor, Garith.parenSeq, TermsW, G.All, AllList, TermsLocalW, and_true, true_and]
      exact ⟨ri.1.terms, r40.1.terms, r41.1.terms⟩
    · simp only [Garith.factor, Garith.parenSeq, SoundW, G.All, AllList, SoundLocalW, and_true, true_and]
      exact ⟨ri.2, r40.2, r41.2⟩

def arCfg : Cfg := c1tCfg Garith.env [49, 32, 43, 32, 50, 32]

def arInt (v : Int) (p r : Nat) : Node := .term (tokOf "INTEGER") (.int v) p r
/-- `1 + 2 ` as the library builds it: every leaf's reader position is past the blanks after it -/
def arTree : Node := .nt seqTok [arInt 1 1 3, .term [43] (.rune 43) 3 5, arInt 2 5 7] 1 7 (.custom 0)

theorem ar_trim_int (pos : Nat) (v : Int) (r r' : Nat)
    (h0 : skipWhitespaces arCfg.file pos .spacesNl = (pos, none))
    (h1 : Terminal.parse arCfg.params arCfg.file .integer pos = .node (arInt v pos r))
    (h2 : moved arCfg .spacesNl (arInt v pos r) = arInt v pos r') :
    DerivesW arCfg (Garith.trim (.term .integer)) pos (arInt v pos r') := by
  rw [← h2]
  refine .rtrim (.ltrim (by rw [h0]) ?_) (movedErr_spacesNl _ _)
  rw [h0]; exact .term h1

/-- a concrete exact derivation of the arithmetic grammar on "1 + 2 ": blanks after every token -/
theorem ar_derives : DerivesW arCfg (.ref 0) 1 arTree := by
  -- factor / term / expr on a single integer
  have hF : ∀ pos v r r', skipWhitespaces arCfg.file pos .spacesNl = (pos, none) →
      Terminal.parse arCfg.params arCfg.file .integer pos = .node (arInt v pos r) →
      moved arCfg .spacesNl (arInt v pos r) = arInt v pos r' →
      DerivesW arCfg (.ref 1) pos (arInt v pos r') := by
    intro pos v r r' h0 h1 h2
    have hf : DerivesW arCfg (.ref 2) pos (arInt v pos r') :=
      .ref (g := Garith.factor) rfl (.any (g := Garith.trim (.term .integer)) (by simp [Garith.factor]) (ar_trim_int pos v r r' h0 h1 h2))
    exact .ref (g := Garith.term) rfl (.memo (.any (g := .ref 2) (by simp) hf))
  have h1 : DerivesW arCfg (.ref 0) 1 (arInt 1 1 3) :=
    .ref (g := Garith.expr) rfl (.memo (.any (g := .ref 1) (by simp) (hF 1 1 2 3 (by decide) rfl rfl)))
  have hop : DerivesW arCfg Garith.addop 3 (.term [43] (.rune 43) 3 5) := by
    refine .any (g := Garith.trim (Garith.rn 43)) (by simp [Garith.addop]) ?_
    have : DerivesW arCfg (Garith.trim (Garith.rn 43)) 3 (moved arCfg .spacesNl (.term [43] (.rune 43) 3 4)) := by
      refine .rtrim (.ltrim (by decide) ?_) (movedErr_spacesNl _ _)
      have h0 : skipWhitespaces arCfg.file 3 .spacesNl = (3, none) := by decide
      rw [h0]; exact .term rfl
    exact this
  have h2 : DerivesW arCfg (.ref 1) 5 (arInt 2 5 7) := hF 5 2 6 7 (by decide) rfl rfl
  refine .ref (g := Garith.expr) rfl (.memo (.any (g := Garith.exprSeq) (by simp [Garith.exprBody]) ?_))
  have := DerivesW.seqOf (cfg := arCfg) (gs := [.ref 0, Garith.addop, .ref 1]) (o := Garith.bin) (pos := 1)
    (nodes := [arInt 1 1 3, .term [43] (.rune 43) 3 5, arInt 2 5 7]) rfl
    (.cons rfl h1 (.cons rfl hop (.cons rfl h2 .nil))) rfl
  exact this

/-- the ends theorem on the arithmetic grammar with blanks: whenever the model answers, it returns a tree for
    "1 + 2 " (the whole input, end 7) — and for every other end some exact derivation reaches, and only those -/
theorem ar_ends (fuel : Nat) (o : Out) (st' : St) (h : run arCfg fuel (.ref 0) [] 1 {} = some (o, st')) :
    (∀ e, (∃ x, DerivesW arCfg (.ref 0) 1 x ∧ x.rpos = e) ↔ e ∈ o.res.alts.map Node.rpos) ∧
    7 ∈ o.res.alts.map Node.rpos := by
  have key := c01w_ends_exact arCfg Garith.bodyOf (arith_scopeW arCfg rfl) (.ref 0) (c1t_root _ _ 0).1
    (c1t_root arCfg Garith.bodyOf 0).2 fuel 1 ⟨by decide, by decide⟩ o st' h
  exact ⟨key, (key 7).mp ⟨arTree, ar_derives, rfl⟩⟩

/-- through the wrapper: `Parse(Sentence(expr))` accepts "1 + 2 " whenever it answers -/
theorem ar_sentence (fuel : Nat) (p : ParseOut) (h : parse arCfg fuel Garith.root = some p) :
    p.err = none ∧ p.res.alts ≠ [] :=
  c01w_sentence_complete_parse arCfg Garith.bodyOf (fun g' hg' => (arith_scopeW arCfg rfl g' hg').1) (.ref 0)
    (c1t_root _ _ 0).1 fuel p h ⟨arTree, ar_derives, rfl⟩

end PV.C1TNV
