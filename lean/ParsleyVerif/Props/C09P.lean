/-
  C09P — the reader primitives of text/reader.go, about the functions TRANSLATED from the Go source.

  `factgen -out-prog` translates `ReadRune`, `MatchString`, `MatchWord`, `ReadRegexp`, `Readf` and `isWordCharacter`
  statement by statement into Lean (Generated/FactsProg.lean, regenerated from the repository on every run; run-time:
  the hand-written Generated/ProgPrelude.lean).  `c09_translated_functions` says that the hand-written model
  (Model/Text.lean) and the translation compute the same results for every position at or above the file's base offset,
  a Go run-time panic (`Res.panic`) exactly where the model says `none`; `c09p_bounds` / `c09p_inbounds` carry C09's
  bounds statements over to the translated code.

  * `FileRel st F f` (Proofs/ProgTieText.lean): the translated `File` struct `F`, read in state `st`, shows the model
    file `f`; `SlWF F.data`: its header is well formed (len ≤ cap, nil only when empty); `ByteFile f`: the content
    consists of bytes (< 256: `int8(ch) == int8(b)` in ReadRune is compared through `Go.wrap 8 true`).
  * a string argument is the list of its bytes (`ints str`); `[]byte(str)` allocates: results are stated in a state that
    `Grows` (fresh arrays appended, nothing that existed written) — `AgreesPB`, `AgreesPS`.
  * the regexp engine is the field `findIndex` of the world `X`; `EngineRel X expr engine` says it finds what the model's
    `engine` parameter finds; as in C09 the engine must answer a length within the rest.
  * `Readf`'s function argument is any translated function `f'` that computes the model function `fn` (`FnRel`);
    Props/C08P.lean proves that the translated `unquoteString` is such a function.
  WHERE THE GO CODE PANICS (and the translated code returns `Res.panic`): MatchString / MatchWord on the empty string
  (the documented panics), MatchWord on a word with a byte ≥ 0x80 (when the comparison reaches it), Readf when the
  function breaks its contract; below the base offset (outside these theorems) the cursor is negative and the first
  index or slice expression panics.
-/
import ParsleyVerif.Proofs.TxtTieReader
import ParsleyVerif.Props.C09
namespace PV.TxtTie
open PV.ProgPrelude PV.FactsProg PV.ProgTie

/-- nothing the translator was asked for in this batch of text/reader.go is missing -/
def c09pFunctions : List String :=
  ["isWordCharacter", "Reader_ReadRune", "Reader_MatchString", "Reader_MatchWord", "Reader_ReadRegexp", "Reader_Readf"]

/-- **The tie.**  Every reader primitive is translated and computes what the model computes, panics included. -/
theorem c09_translated_functions (st : ProgPrelude.St) (F : FactsProg.File) (f : Text.File) (rel : FileRel st F f)
    (wf : SlWF F.data) (hb : ByteFile f) :
    c09pFunctions.all (fun f => FactsProg.translatedProg.contains f) = true ∧
    (∀ b : Nat, isWordCharacter (b : Int) st = .ok (Text.isWordByte b) st) ∧
    (∀ p ch : Nat, f.offset ≤ p → Reader_ReadRune ⟨F⟩ p ch st = outPB (Text.readRune f p ch) st) ∧
    (∀ (p : Nat) (str : Text.Bytes), f.offset ≤ p →
      AgreesPB (Reader_MatchString ⟨F⟩ p (ints str) st) (Text.matchString f p str) st) ∧
    (∀ (p : Nat) (word : Text.Bytes), f.offset ≤ p →
      AgreesPB (Reader_MatchWord ⟨F⟩ p (ints word) st) (Text.matchWord f p word) st) ∧
    (∀ (X : Ext) (expr : Str) (engine : Text.Bytes → Option Nat), EngineRel X expr engine →
      (∀ r m, engine r = some m → m ≤ r.length) → ∀ p : Nat, f.offset ≤ p →
      AgreesPS (Reader_ReadRegexp X ⟨F⟩ p expr st) (Text.readRegexp engine f p) st) ∧
    (∀ (f' : Sl → M (Sl × Int)) (fn : Text.Bytes → Option Text.Bytes × Nat), FnRel f' fn → ∀ p : Nat, f.offset ≤ p →
      AgreesPS (Reader_Readf ⟨F⟩ p f' st) (Text.readf fn f p) st) :=
  ⟨by decide, fun b => tie_isWordCharacter st b, fun p ch h => tie_ReadRune st F f rel hb p ch h,
   fun p s h => tie_MatchString st F f rel p s h, fun p w h => tie_MatchWord st F f rel p w h,
   fun X e en hX hc p h => tie_ReadRegexp X e en hX hc st F f rel wf p h,
   fun f' fn hf p h => tie_Readf f' fn hf st F f rel wf p h⟩

/-- **bounds, about the translated code**: for a position in the file (first byte … end of file) every translated
    primitive returns — it does not panic —, on a match the new position is the old one plus the matched length and
    never exceeds the end of the file, on a mismatch the original position comes back; nothing that existed is written -/
theorem c09p_bounds (st : ProgPrelude.St) (F : FactsProg.File) (f : Text.File) (rel : FileRel st F f) (wf : SlWF F.data)
    (hb : ByteFile f) (pos : Nat) (h : Text.InFile f pos) :
    (∀ ch : Nat, ∃ (q : Nat) (b : Bool), Reader_ReadRune ⟨F⟩ pos ch st = .ok ((q : Int), b) st ∧
        (b = false → q = pos) ∧ pos ≤ q ∧ q ≤ f.offset + f.len) ∧
    (∀ s : Text.Bytes, s ≠ [] → ∃ (q : Nat) (b : Bool) (st' : ProgPrelude.St),
        Reader_MatchString ⟨F⟩ pos (ints s) st = .ok ((q : Int), b) st' ∧ Grows st st' ∧
        (b = false → q = pos) ∧ (b = true → q = pos + s.length) ∧ q ≤ f.offset + f.len) ∧
    (∀ w : Text.Bytes, w ≠ [] → (∀ x ∈ w, x < 0x80) → ∃ (q : Nat) (b : Bool) (st' : ProgPrelude.St),
        Reader_MatchWord ⟨F⟩ pos (ints w) st = .ok ((q : Int), b) st' ∧ Grows st st' ∧
        (b = false → q = pos) ∧ (b = true → q = pos + w.length) ∧ q ≤ f.offset + f.len) ∧
    (∀ (X : Ext) (expr : Str) (engine : Text.Bytes → Option Nat), EngineRel X expr engine →
      (∀ r m, engine r = some m → m ≤ r.length) → ∃ (q : Nat) (v : Sl) (st' : ProgPrelude.St),
        Reader_ReadRegexp X ⟨F⟩ pos expr st = .ok ((q : Int), v) st' ∧ Grows st st' ∧ pos ≤ q ∧ q ≤ f.offset + f.len ∧
        (v.isNil = true → q = pos)) := by
  have h1 := h.1
  have h2 := h.2
  obtain ⟨b1, b2, b3, _⟩ := Text.c09_bounds f pos h
  obtain ⟨i1, i2, i3, i4⟩ := Text.c09_inbounds f pos h
  refine ⟨?_, ?_, ?_, ?_⟩
  · intro ch
    have t := tie_ReadRune st F f rel hb pos ch h1
    cases hm : Text.readRune f pos ch with
    | none => exact absurd hm (i1 ch)
    | some qb =>
      obtain ⟨q, b⟩ := qb
      rw [hm] at t
      obtain ⟨c1, c2, c3⟩ := b1 ch q b hm
      exact ⟨q, b, t, c1, c2, c3⟩
  · intro s hs
    have t := tie_MatchString st F f rel pos s h1
    cases hm : Text.matchString f pos s with
    | none => exact absurd hm (i2 s hs)
    | some qb =>
      obtain ⟨q, b⟩ := qb
      rw [hm] at t
      obtain ⟨st', e, g⟩ := t
      obtain ⟨c1, c2, c3⟩ := b2 s q b hs hm
      exact ⟨q, b, st', e, g, c1, c2, c3⟩
  · intro w hw ha
    have t := tie_MatchWord st F f rel pos w h1
    cases hm : Text.matchWord f pos w with
    | none => exact absurd hm (i3 w hw ha)
    | some qb =>
      obtain ⟨q, b⟩ := qb
      rw [hm] at t
      obtain ⟨st', e, g⟩ := t
      obtain ⟨c1, c2, c3⟩ := b3 w q b hw ha hm
      exact ⟨q, b, st', e, g, c1, c2, c3⟩
  · intro X expr engine hX hc
    have t := tie_ReadRegexp X expr engine hX hc st F f rel wf pos h1
    have hspec := Text.c09_readRegexp engine f pos h hc
    have hrl := Text.rest_length f pos h
    rw [hspec] at t
    by_cases hr : Text.rest f pos = []
    · rw [if_pos hr] at t
      obtain ⟨v, st', e, g, vr⟩ := t
      exact ⟨pos, v, st', e, g, Nat.le_refl _, h.2, fun _ => rfl⟩
    · rw [if_neg hr] at t
      cases he : engine (Text.rest f pos) with
      | none =>
        rw [he] at t
        obtain ⟨v, st', e, g, vr⟩ := t
        exact ⟨pos, v, st', e, g, Nat.le_refl _, h.2, fun _ => rfl⟩
      | some m =>
        rw [he] at t
        obtain ⟨v, st', e, g, vr⟩ := t
        have := hc _ m he
        refine ⟨pos + m, v, st', e, g, by omega, by omega, fun hn => ?_⟩
        rw [vr.1] at hn; cases hn

/-- **nothing outside the file is read, about the translated code**: for a position in the file no translated
    primitive panics (on an index or a slice bound), whatever the rune, the non-empty string, the non-empty ASCII word, the
    engine (that respects its contract) -/
theorem c09p_inbounds (st : ProgPrelude.St) (F : FactsProg.File) (f : Text.File) (rel : FileRel st F f) (wf : SlWF F.data)
    (hb : ByteFile f) (pos : Nat) (h : Text.InFile f pos) :
    (∀ ch : Nat, Reader_ReadRune ⟨F⟩ pos ch st ≠ .panic) ∧
    (∀ s : Text.Bytes, s ≠ [] → Reader_MatchString ⟨F⟩ pos (ints s) st ≠ .panic) ∧
    (∀ w : Text.Bytes, w ≠ [] → (∀ x ∈ w, x < 0x80) → Reader_MatchWord ⟨F⟩ pos (ints w) st ≠ .panic) ∧
    (∀ (X : Ext) (expr : Str) (engine : Text.Bytes → Option Nat), EngineRel X expr engine →
      (∀ r m, engine r = some m → m ≤ r.length) → Reader_ReadRegexp X ⟨F⟩ pos expr st ≠ .panic) := by
  obtain ⟨a1, a2, a3, a4⟩ := c09p_bounds st F f rel wf hb pos h
  refine ⟨fun ch => ?_, fun s hs => ?_, fun w hw ha => ?_, fun X e en hX hc => ?_⟩
  · obtain ⟨q, b, e, _⟩ := a1 ch; rw [e]; intro hh; cases hh
  · obtain ⟨q, b, st', e, _⟩ := a2 s hs; rw [e]; intro hh; cases hh
  · obtain ⟨q, b, st', e, _⟩ := a3 w hw ha; rw [e]; intro hh; cases hh
  · obtain ⟨q, v, st', e, _⟩ := a4 X e en hX hc; rw [e]; intro hh; cases hh

/-- **the documented panics, about the translated code**: MatchString and MatchWord on the empty string -/
theorem c09p_documented_panics (r : FactsProg.Reader) (p : Int) (st : ProgPrelude.St) :
    Reader_MatchString r p [] st = .panic ∧ Reader_MatchWord r p [] st = .panic := by
  constructor
  · unfold Reader_MatchString; rfl
  · unfold Reader_MatchWord; rfl

/-! non-vacuity: the file "aé \n" + "b" (bytes 97 C3 A9 32 10 98) at base offset 7 in a concrete state, evaluated by
    the kernel; a world whose engine matches one or more 'a'-or-non-ASCII bytes -/

def c09pSt : ProgPrelude.St := { arrays := [[97, 0xC3, 0xA9, 32, 10, 98]], maps := [], grow := fun c => 2 * c + 1 }
def c09pF : FactsProg.File :=
  { filename := "t", data := { arr := 0, off := 0, len := 6, cap := 6 }, lines := Go.nilSl, len := 6, offset := 7 }
def c09pf : Text.File := { name := "t", data := [97, 0xC3, 0xA9, 32, 10, 98], offset := 7 }
def c09pX : Ext :=
  { findIndex := fun _ bs => match (bs.takeWhile (fun b => b = 97 ∨ b ≥ 128)).length with | 0 => none | n + 1 => some (0, (n + 1 : Nat)),
    unquoteChar := fun _ _ => none }

theorem c09p_example_rel : FileRel c09pSt c09pF c09pf ∧ SlWF c09pF.data ∧ ByteFile c09pf ∧ Text.InFile c09pf 8 := by
  refine ⟨⟨by decide, rfl, rfl, rfl, rfl⟩, ⟨by decide, by decide⟩, ?_, ?_⟩
  · unfold ByteFile c09pf; decide
  · unfold Text.InFile Text.File.len c09pf; decide

theorem c09p_example :
    let run2 := fun (r : ProgPrelude.Res (Int × Bool)) => match r with | .ok a _ => some a | _ => none
    run2 (Reader_ReadRune ⟨c09pF⟩ 8 233 c09pSt) = some (10, true) ∧
    run2 (Reader_ReadRune ⟨c09pF⟩ 7 97 c09pSt) = some (8, true) ∧
    run2 (Reader_ReadRune ⟨c09pF⟩ 13 97 c09pSt) = some (13, false) ∧
    run2 (Reader_MatchString ⟨c09pF⟩ 10 [32, 10] c09pSt) = some (12, true) ∧
    run2 (Reader_MatchString ⟨c09pF⟩ 12 [98, 98] c09pSt) = some (12, false) ∧
    run2 (Reader_MatchWord ⟨c09pF⟩ 12 [98] c09pSt) = some (13, true) ∧
    run2 (Reader_MatchWord ⟨c09pF⟩ 7 [97] c09pSt) = some (8, true) ∧
    (match Reader_MatchWord ⟨c09pF⟩ 7 [0xC3] c09pSt with | .panic => true | _ => false) = true ∧
    (match Reader_ReadRegexp c09pX ⟨c09pF⟩ 7 [] c09pSt with
      | .ok (q, v) st' => (q, view st' v) | _ => (0, [])) = (10, [97, 0xC3, 0xA9]) := by
  decide

end PV.TxtTie
