/-
  C07 — a returned result is never modified afterwards (slice level).

  Property theorems only.  Model: ParsleyVerif/Model/Slice.lean (heap of node objects, heap of arrays, slice
  headers, `append` with an arbitrary growth policy; AppendNode, NodeList.Append, the result handler's copy,
  Memoize's clip/store/hit, SetReaderPos transcribed statement by statement; a pool of previously returned
  values so that values with a shared history are operated on again).  Lemmas: Proofs/Slice*.lean.

  The discipline assumed (it is part of the machine, not a hypothesis of the theorems): a list handle that the
  memo table does not hold is *linear* — the operation that extends it (appendNode / nlAppend / optionalAppend on
  it as first operand), hands it on (AppendNode(nil, x)), stores it (memoStore) or trims it (setReaderPos)
  consumes its pool entry, and operations on consumed entries are rejected.  That is how Any, Optional, seq,
  Memoize and RightTrim use their local variable (`res = ast.AppendNode(res, res2)`).  Handles held by the memo
  table are shared and never consumed; `memoStore` clips them.  `c07_pinned_corrupts` shows that without the
  clip the very same discipline does NOT give the property (defect D1).

  `Held s h`: `h` is the handle of some pool entry of `s` (live or consumed) or of some memo entry.
-/
import ParsleyVerif.Proofs.SliceRun
import ParsleyVerif.Generated.FactsAst
import ParsleyVerif.Generated.Facts
namespace PV.Slice

/-- **C07 (frame, append family; every history, every growth policy).**  In any reachable state (reached by
    ANY history `pre`, SetReaderPos included), for any continuation `ops` that contains no SetReaderPos, every
    handle that was ever returned (pool, live or consumed) or is held by the memo table reads exactly the same
    after `ops` as before: token, value, positions, children recursively, list membership. -/
theorem c07_frame (grow : Nat → Nat) (pre ops : List Op) (hops : ∀ op ∈ ops, op.isTrim = false)
    (h : Handle) (hh : Held (run grow pre {}) h) :
    render (run grow ops (run grow pre {})) h = render (run grow pre {}) h := by
  obtain ⟨top, inv⟩ := reachable_inv grow pre
  exact run_frame grow ops hops inv hh

/-- **C07 (returned renderings).**  Record every value when it is put into the pool together with what it
    reads at that moment; at the end of any history without SetReaderPos every recorded value still reads
    what was recorded. -/
theorem c07_returned (grow : Nat → Nat) (ops : List Op) (hops : ∀ op ∈ ops, op.isTrim = false) :
    ∀ p ∈ (runTrace grow ops ({}, [])).2, render (runTrace grow ops ({}, [])).1 p.1 = p.2 := by
  intro p hp
  exact ((runTrace_ok grow ops hops Inv.init (fun q hq => by simp at hq)) p hp).2

/-- the recorded values of `c07_returned` are exactly the values ever put into the pool, in order -/
theorem c07_returned_complete (grow : Nat → Nat) (ops : List Op) :
    (runTrace grow ops ({}, [])).2.map (·.1) = (runTrace grow ops ({}, [])).1.pool.map (·.h) :=
  runTrace_complete grow ops Inv.init rfl

/-- **C07 (asking again).**  After a successful `memoStore key i` in any reachable state, and any continuation
    without SetReaderPos, `memoHit key` succeeds and returns the very handle the store returned, and it reads the
    same as when it was stored. -/
theorem c07_memo_stable (grow : Nat → Nat) (pre ops : List Op) (key i : Nat)
    (hops : ∀ op ∈ ops, op.isTrim = false)
    (hst : (step grow (run grow pre {}) (Op.memoStore key i)).2 = Out.none) :
    ∃ h, (step grow (run grow pre {}) (Op.memoStore key i)).1.pool.getLast? = some ⟨h, true⟩ ∧
      (step grow (run grow ops (step grow (run grow pre {}) (Op.memoStore key i)).1) (Op.memoHit key)).1.pool.getLast? = some ⟨h, true⟩ ∧
      (step grow (run grow ops (step grow (run grow pre {}) (Op.memoStore key i)).1) (Op.memoHit key)).2 = Out.none ∧
      render (step grow (run grow ops (step grow (run grow pre {}) (Op.memoStore key i)).1) (Op.memoHit key)).1 h =
        render (step grow (run grow pre {}) (Op.memoStore key i)).1 h := by
  obtain ⟨top, inv⟩ := reachable_inv grow pre
  exact memo_stable grow inv key i ops hops hst

/-- **C07 around known finding D5 (partial: SetReaderPos only on unshared values).**  If every SetReaderPos of
    the continuation is applied to a pool entry that is `unshared` at that moment (decidable on the state:
    nothing it writes is visible through another live pool entry or through the memo table), then every pool
    entry that is still live at the end, and every memo entry, reads the same as before the continuation.
    The full statement (no hypothesis on sharing) is false: `c07_trim_shared_mutates`. -/
theorem c07_trim_partial (grow : Nat → Nat) (pre ops : List Op) (hd : Disciplined grow (run grow pre {}) ops) :
    (∀ (k : Nat) (e e' : Entry), (run grow pre {}).pool[k]? = some e →
      (run grow ops (run grow pre {})).pool[k]? = some e' → e'.live = true →
      render (run grow ops (run grow pre {})) e.h = render (run grow pre {}) e.h) ∧
    (∀ kv ∈ (run grow pre {}).memo, render (run grow ops (run grow pre {})) kv.2 = render (run grow pre {}) kv.2) := by
  obtain ⟨top, inv⟩ := reachable_inv grow pre
  exact run_disciplined grow ops inv hd

/-- one SetReaderPos in any reachable state changes only what handles that can see the trimmed objects read -/
theorem c07_trim_local (grow : Nat → Nat) (pre : List Op) (i d : Nat) (h h' : Handle)
    (hg : (run grow pre {}).get i = some h) (hh : Held (run grow pre {}) h')
    (na : affected (run grow pre {}) (trimNodes (run grow pre {}) h) (trimArr h) h' = false) :
    render (step grow (run grow pre {}) (Op.setReaderPos i d)).1 h' = render (run grow pre {}) h' := by
  obtain ⟨top, inv⟩ := reachable_inv grow pre
  simp only [step, hg]
  split
  · rfl
  · exact trim_frame d inv h h' (hh.hwf inv) na

/-- the simplification of the model is justified: in every reachable state no array cell holds a list (so
    NodeList.Append / NodeList.SetReaderPos never recurse into a nested list) and every pointer cell points to
    an existing node -/
theorem c07_cells_flat (grow : Nat → Nat) (ops : List Op) (a : Nat) (c : Handle)
    (hc : c ∈ cells (run grow ops {}).arrs a) :
    (∀ sl, c ≠ Handle.list sl) ∧ (∀ m, c = Handle.ptr m → m < (run grow ops {}).nodes.length) := by
  obtain ⟨top, inv⟩ := reachable_inv grow ops
  have := inv.cellok a c hc
  cases c with
  | list sl => exact absurd this (by simp [CellOK])
  | ptr m => exact ⟨by intro sl; simp, fun m' h => by cases h; exact this⟩
  | _ => exact ⟨by intro sl; simp, by intro m h; cases h⟩

/-- in every reachable state a list that anybody holds is non-empty and has no nil element (so
    `NodeList.SetReaderPos` never calls `ast.SetReaderPos(nil, …)`, which would panic in Go and which the model
    does not represent) -/
theorem c07_lists_wellformed (grow : Nat → Nat) (ops : List Op) (sl : Slice)
    (hh : Held (run grow ops {}) (Handle.list sl)) :
    0 < sl.len ∧ Handle.nil ∉ view (run grow ops {}).arrs sl := by
  obtain ⟨top, inv⟩ := reachable_inv grow ops
  have hw := hh.hwf inv
  exact ⟨hw.2.1, hw.2.2.2⟩

/-- `combinator.Optional` appends the empty alternative with `ast.AppendNode(result, EmptyNode(pos))` - what `Op.optionalAppend`
    transcribes (a structural fact regenerated from the repository on every run; the body as a whole is tied by translation at
    value level: Props/C01P.lean, built by this property's check) -/
theorem c07_source_facts :
    FactsAst.optionalAppendNodeCalls = ["node,empty"] :=
  rfl

/-- Go's doubling growth for small slices -/
def goGrow (c : Nat) : Nat := 2 * c

/-- **D1 regression witness.**  With the pinned `Memoize` (no clip) the same machine, under the same linear
    discipline, corrupts a returned value: a memoized three element list (capacity 4) is handed to two
    consumers, each appends one node; the second append overwrites the last element of the first consumer's
    result.  No SetReaderPos is involved. -/
theorem c07_pinned_corrupts :
    ∃ (pre ops : List Op) (h : Handle), (∀ op ∈ pre ++ ops, op.isTrim = false) ∧
      Held (runPinned goGrow pre {}) h ∧
      render (runPinned goGrow ops (runPinned goGrow pre {})) h ≠ render (runPinned goGrow pre {}) h :=
  ⟨[.newTerm 1 0 0 1, .newTerm 2 0 1 2, .newTerm 3 0 2 3, .newTerm 4 0 3 4, .newTerm 5 0 3 5,
    .appendNode 0 1, .appendNode 5 2, .memoStore 0 6, .memoHit 0, .memoHit 0, .appendNode 8 3],
   [.appendNode 9 4],
   Handle.list ⟨2, 4, 4⟩,
   by decide, Or.inl ⟨⟨Handle.list ⟨2, 4, 4⟩, true⟩, by decide, rfl⟩, by decide⟩

/-- the same history on the machine with the clip: nothing changes (an instance of `c07_frame`, by evaluation) -/
example :
    let pre : List Op := [.newTerm 1 0 0 1, .newTerm 2 0 1 2, .newTerm 3 0 2 3, .newTerm 4 0 3 4, .newTerm 5 0 3 5,
      .appendNode 0 1, .appendNode 5 2, .memoStore 0 6, .memoHit 0, .memoHit 0, .appendNode 8 3]
    let s := run goGrow pre {}
    let s' := run goGrow [.appendNode 9 4] s
    s.pool.map (fun e => render s' e.h) = s.pool.map (fun e => render s e.h) ∧
    render s' ((s'.pool.getD 11 default).h) =
      [.listOpen, .term 1 0 0 1, .term 2 0 1 2, .term 3 0 2 3, .term 5 0 3 5, .close] ∧
    render s' ((s'.pool.getD 10 default).h) =
      [.listOpen, .term 1 0 0 1, .term 2 0 1 2, .term 3 0 2 3, .term 4 0 3 4, .close] := by
  decide

/-- **Known finding D5, witness.**  SetReaderPos on a memoized (shared) value changes what an earlier holder
    and the memo table read: the unrestricted frame statement is false for SetReaderPos.  (Memoize(a) asked
    bare, then under RightTrim at the same position.) -/
theorem c07_trim_shared_mutates :
    ∃ (pre : List Op) (i d : Nat) (h : Handle), Held (run goGrow pre {}) h ∧ unshared (run goGrow pre {}) i = false ∧
      render (step goGrow (run goGrow pre {}) (Op.setReaderPos i d)).1 h ≠ render (run goGrow pre {}) h :=
  ⟨[.newTerm 1 0 0 2, .memoStore 0 0, .memoHit 0], 2, 2, Handle.ptr 0,
   Or.inr ⟨(0, Handle.ptr 0), by decide, rfl⟩, by decide, by decide⟩

/-- non-vacuity of `c07_trim_partial`: a disciplined history with an effective SetReaderPos (on a list whose
    elements nobody else holds any more), next to a memoized list that keeps reading the same -/
example :
    let pre : List Op := [.newTerm 1 0 0 1, .newTerm 2 0 0 2, .appendNode 0 1, .memoStore 0 2,
      .newTerm 3 0 0 1, .newEmpty 0, .appendNode 4 5, .drop 4]
    let ops : List Op := [.setReaderPos 6 2, .memoHit 0, .optionalAppend 8 7]
    let s := run goGrow pre {}
    let s' := run goGrow ops s
    Disciplined goGrow s ops ∧
    render s ((s.pool.getD 6 default).h) = [.listOpen, .term 3 0 0 1, .empty 0, .close] ∧
    render s' ((s'.pool.getD 7 default).h) = [.listOpen, .term 3 0 0 3, .empty 2, .close] ∧
    render s' ((s'.pool.getD 9 default).h) = [.listOpen, .term 1 0 0 1, .term 2 0 0 2, .empty 7, .close] ∧
    render s' ((s'.pool.getD 3 default).h) = [.listOpen, .term 1 0 0 1, .term 2 0 0 2, .close] := by
  exact ⟨disciplinedB_sound _ _ _ (by decide), by decide, by decide, by decide, by decide⟩

/-- non-vacuity of `c07_frame`: lists extended in place (spare capacity), a sequence frame whose buffer is
    overwritten after a result was produced, nested non-terminals; evaluated -/
example :
    let ops : List Op := [.newTerm 1 0 0 1, .newTerm 2 0 1 2, .newTerm 3 0 1 3, .seqNew,
      .seqBufWrite 0 0 0, .seqBufWrite 0 1 1, .seqResult 0 2 9 0 false,
      .seqBufWrite 0 1 2, .seqResult 0 2 9 0 false, .appendNode 3 4, .optionalAppend 5 0, .optionalAppend 6 0]
    let s := run goGrow ops {}
    s.pool.map (fun e => (e.live, render s e.h)) =
      [(true, [.term 1 0 0 1]), (true, [.term 2 0 1 2]), (true, [.term 3 0 1 3]),
       (true, [.ntOpen 9 0 2, .term 1 0 0 1, .term 2 0 1 2, .close]),
       (true, [.ntOpen 9 0 3, .term 1 0 0 1, .term 3 0 1 3, .close]),
       (false, [.listOpen, .ntOpen 9 0 2, .term 1 0 0 1, .term 2 0 1 2, .close, .ntOpen 9 0 3, .term 1 0 0 1, .term 3 0 1 3, .close, .close]),
       (false, [.listOpen, .ntOpen 9 0 2, .term 1 0 0 1, .term 2 0 1 2, .close, .ntOpen 9 0 3, .term 1 0 0 1, .term 3 0 1 3, .close, .empty 0, .close]),
       (true, [.listOpen, .ntOpen 9 0 2, .term 1 0 0 1, .term 2 0 1 2, .close, .ntOpen 9 0 3, .term 1 0 0 1, .term 3 0 1 3, .close, .empty 0, .close])] := by
  decide

/-- what the machine transcribes is what the source says now (regenerated from the repository on every run into
    Generated/FactsAst.lean):
    * ast.SetReaderPos and the SetReaderPos methods of the node kinds and of lists are TRANSLATED at heap level on every run
      (Generated/FactsAst.lean, namespace PV.FactsAstProg: node structs on a heap, a list as a slice of node handles, the
      call-back applied in place) and the machine's `setRP` / `Op.setReaderPos` is PROVED to compute what the translated
      functions compute, and nothing else (Props/C07P.lean, `c07_translated_setReaderPos`, `…_op`, `…_frame`, built and
      audited with this property); here only that all of them were translated on this run.  (The four full-text facts that
      stood here for these functions are subsumed by that tie.)
    * ast.AppendNode and (*NodeList).Append — the heart of this property: `append` into the spare capacity of a shared
      backing array — are TRANSLATED at heap level on every run as well (same namespace: the pointer receiver written
      through, the type switch, the flattening loop, the EMPTY scan with its early return, `append` in place when len < cap
      and by the growth policy otherwise) and the machine's `appendNodeCore` / `nlAppend` / `Op.appendNode` /
      `Op.optionalAppend` / `Op.nlAppend` are PROVED to compute what the translated functions compute, header and heap
      (Props/C07P.lean, `c07_translated_appendNode`, `c07_translated_nodeListAppend`, `c07_translated_append`,
      `c07_translated_append_frame`; the clip fact `c07p_clipped_append_fresh` and the D1 witness
      `c07p_unclipped_append_corrupts` are stated there about the translated code); here only that both were translated on
      this run.  (The two slice-operation skeletons that stood here for these functions are subsumed by that tie.)
    * the copying result handler and the sequence buffer write of parseNext — whose bodies
      are translated at value level on every run and proved equal to the model's functions (Props/C01P.lean,
      `c01p_context_cache_append`, `c01p_sequence_machinery`, built and audited with this property) — by their SLICE-LEVEL
      skeleton: the calls of append / copy / make, the slice literals and slice expressions, the element writes and the calls
      of the list primitives, in source order, local variables abstracted (helpers of the package looked through).  That is
      what the slice-level machine needs beyond the value semantics, and a restructuring of the control flow (type switch vs.
      assertion chain, an extracted helper, a renamed variable, an early return) does not change it, while an added, removed,
      reordered or retargeted allocation / copy / in-place write does.  (The four full-text facts that stood here for these
      functions are subsumed by translation + skeleton.)
    * Memoize with its capacity clip before the store (structural; the clip may stand in a helper), Any, Optional. -/
theorem c07_source_facts_ast :
    "AppendNode" ∈ FactsAstProg.translatedAst ∧
    "SetReaderPos" ∈ FactsAstProg.translatedAst ∧
    "NodeList_Append" ∈ FactsAstProg.translatedAst ∧
    "NodeList_SetReaderPos" ∈ FactsAstProg.translatedAst ∧
    "TerminalNode_SetReaderPos" ∈ FactsAstProg.translatedAst ∧
    "NonTerminalNode_SetReaderPos" ∈ FactsAstProg.translatedAst ∧
    FactsAst.seqResultHandlerSliceOps = ["_:=make([]parsley.Node,_)", "copy(_,_)"] ∧
    FactsAst.seqParseNextSliceOps = ["_.nodes=append(_.nodes,_)", "_.nodes[_]=_"] ∧
    FactsAst.memoizeClips = true ∧ FactsAst.memoizeClipsBeforeSave = true ∧
    FactsAst.anyAppendNodeCalls = ["node,node"] ∧ FactsAst.optionalAppendNodeCalls = ["node,empty"] :=
  ⟨by decide, by decide, by decide, by decide, by decide, by decide, rfl, rfl, rfl, rfl, rfl, rfl⟩

end PV.Slice
