/-
  C05 — the FULL value theorem (the statement kept as a comment in Props/C05.lean, `c05_value_STATEMENT`):

    "For the classic left-recursive arithmetic grammar (expr → expr (+ or -) term | term, term → term (* or /) factor |
     factor, parentheses, signed integer literals, free whitespace) Evaluate returns, for every well-formed
     expression, the value a reference evaluator computes with left-associative operators and the usual
     precedence; division by zero is reported with the position of the operator."

  Model: `run` / `parse` / `evaluate` (Model/Run.lean, Model/Eval.lean) on the closed grammar `Garith`
  (Spec/Arith.lean), custom interpreter `arithCustom`, reference evaluator `refEval`.

  INPUTS.  `A05.Cst` (Proofs/A05Syntax.lean) is an expression together with its layout — every token carries the
  whitespace that follows it; `Cst.WF 0 e`: the operands of an operator of level `j` are of level `j` (left) and
  `j + 1` (right) — i.e. `e` is written with exactly the parentheses its structure needs —, every literal is in
  the integer syntax `[-+]?([1-9][0-9]*|0[xX][0-9a-fA-F]+|0[0-7]*)` with a value in [−2⁶³, 2⁶³), every
  whitespace chunk consists of the bytes 32, 9, 10, 12.  `A05.Input cfg ws0 e`: the grammar is `Garith.env`, the
  file (any base offset ≥ 1) holds `ws0 ++ e.render`.  `PExpr` / `render e ws` below is the same with the
  whitespace given separately (`ws i` follows token `i`, `ws 0` precedes the first token).
  `e.tree p`: the left-nested tree; `e.toExpr p`: the abstract expression with the positions of its operator bytes.

  PROVED (all for every such input, every base offset):
  * `c05_derivation`        (1) EXISTENCE: `Derives cfg Garith.root pos0 (sentenceNode (e.tree …))`, and the same as a
                            curtailed derivation from the empty context (`c05_derivation_curtailed`) — the counters
                            never exceed the remaining input along the left spine;
  * `c05_unambiguous`       (3) UNAMBIGUITY, on EVERY input (not only rendered ones): two exact trees of the same
                            nonterminal(s) with the same start and the same end are equal.  "Exact" = the trims are
                            read as the code executes them (`A05.T`); the relation `Derives` of Spec/Derives.lean is
                            the monotone reading which also allows the leaf whose end was NOT moved past the
                            whitespace, so the statement "every `x` with `Derives cfg Garith.root pos0 x` is the tree
                            of `e`" is FALSE as soon as the text contains a space (`c05_derives_not_unique`);
                            `c05_returned_exact`: what `run` returns on the root is always exact;
  * `c05_parse_full_partial` (1)+(2)+(3): for every fuel at which `parse` answers, it answers exactly
                            `Sentence[e.tree, EOF]` — one tree, that tree, no error;
  * `c05_terminates`        `run`/`parse` on this grammar answer from some fuel on, on EVERY input (the trims are
                            outside Props/C02T.lean; direct descent on (end − position, context budget));
  * `c05_parse_full`        the two together;
  * `c05_value_full_partial`, `c05_value_full`  THE VALUE THEOREM: from some fuel on
                            `evaluate cfg arithCustom fuel Garith.root = some (embedV cfg.fileSet (refEval (e.toExpr …)))`
                            — the reference value, or "division by zero" rendered at the position of the offending `/`;
  * `c05_div_zero_at`       that position is the position of a `/` byte of the file;
  * `c05_value_text`        the same for the plain syntax `PExpr` with whitespace given as a function, on the
                            configuration `nvArithCfg` built from the raw text by `text.NewFile` + `FileSet.AddFile`.
  Nothing is left partial.  No ambiguity and no lost parse was found: the theorem excludes both.
-/
import ParsleyVerif.Proofs.A05Halts
namespace PV.A05
open PV.Text

/-- a reference outcome as an answer of `Evaluate`: the value, or "division by zero" with its rendered position -/
def embedV (fs : FileSet) : Except Nat Int → EvaluateOut
  | .ok v => .value (.int v)
  | .error q => .error (errorWithPosition fs ⟨q, .other (tokOf "division by zero")⟩)

end PV.A05

namespace PV
open PV.Text PV.A05

section
variable {cfg : Cfg} {ws0 : Bytes} {e : Cst}

/-- **(1) existence**: the text of a well-formed expression has the expected derivation -/
theorem c05_derivation (hin : Input cfg ws0 e) :
    Derives cfg Garith.root (cfg.file.pos 0) (sentenceNode (e.tree (start cfg ws0))) := by
  have h1 : Derives cfg (.ref 0) (cfg.file.pos 0) (e.tree (start cfg ws0)) := hin.dc.toDerives
  have := Derives.seqfam (cfg := cfg) (g := Garith.root) (pos := cfg.file.pos 0)
    (nodes := [e.tree (start cfg ws0), .eof (e.tree (start cfg ws0)).rpos]) rfl
    (.cons rfl h1 (.cons rfl (.eof hin.tree_eof) .nil)) rfl
  simpa [handleResult, sentenceNode, Node.rpos] using this

/-- the same as a CURTAILED derivation from the empty left-recursion context: the premises of the `memo` rule
    (`counter ≤ remaining input + curtailSlack`) hold along the left spine -/
theorem c05_derivation_curtailed (hin : Input cfg ws0 e) :
    DC cfg zeroC (.ref 0) (cfg.file.pos 0) (e.tree (start cfg ws0)) ∧
    isEOF cfg.file (e.tree (start cfg ws0)).rpos = true ∧
    exprOf (e.tree (start cfg ws0)) = some (e.toExpr (start cfg ws0)) :=
  ⟨hin.dc, hin.tree_eof, e.exprOf_tree _⟩

end

/-- **(3) unambiguity of the arithmetic grammar, on every input**: exact trees (`A05.T`: level 0 = expr, 1 = term,
    2 = factor; the trims read as executed) with the same start and the same end are equal -/
theorem c05_unambiguous (P : Params) (f : File) (hoff : 1 ≤ f.offset) (q : Nat) (hq : InFile f q) (ka kb : Nat)
    (a b : Node) (ha : T P f ka q a) (hb : T P f kb q b) (he : a.rpos = b.rpos) : a = b :=
  T_unique hoff hq ha hb he

/-- the comparison behind it: of two exact trees with the same start, the one that ends no later is a CUT of the
    other (go down left spines, cut right operands) -/
theorem c05_cut (P : Params) (f : File) (hoff : 1 ≤ f.offset) (q : Nat) (hq : InFile f q) (ka kb : Nat)
    (a b : Node) (ha : T P f ka q a) (hb : T P f kb q b) (he : a.rpos ≤ b.rpos) : Cut a b :=
  T.cut hoff _ (Nat.le_refl _) hq ha hb he

/-- everything `run` returns on the root — on every input, for every fuel — is `Sentence[y, EOF]` around an EXACT
    expression tree `y` that ends at the end of the input -/
theorem c05_returned_exact (cfg : Cfg) (henv : cfg.env = Garith.env) (fuel : Nat) (o : Out) (st' : St)
    (h : run cfg fuel Garith.root [] (cfg.file.pos 0) {} = some (o, st')) :
    ∀ x ∈ o.res.alts, ∃ y, T cfg.params cfg.file 0 (cfg.file.pos 0) y ∧ isEOF cfg.file y.rpos = true ∧
      x = sentenceNode y := by
  intro x hx
  have hfr : A05.Frag cfg true Garith.root := by
    simp only [Garith.root, G.sentence, A05.Frag, A05.FragL, and_true]
    decide
  obtain ⟨hs, _⟩ := run_soundT cfg (arithRT cfg.params cfg.file) (arith_closedT cfg henv) Garith.bodyOf
    (arith_henv cfg henv true) fuel Garith.root [] _ {} o st' hfr c05_grammar_ok.2 (by intro e he; cases he) h
  obtain ⟨y, z, dy, dz, rfl⟩ := DSR.seqOf2_inv (a := .ref 0) (b := .eof) (hs x hx)
  obtain ⟨heof, rfl⟩ := dz.eof_inv
  exact ⟨y, dy.ref_inv, heof, rfl⟩

section
variable {cfg : Cfg} {ws0 : Bytes} {e : Cst}

/-- **(1)+(2)+(3), partial correctness**: for every fuel at which `parse` answers, it returns exactly one tree,
    the tree of `e`, and no error -/
theorem c05_parse_full_partial (hin : Input cfg ws0 e) (fuel : Nat) (p : ParseOut)
    (h : parse cfg fuel Garith.root = some p) :
    p.res = .one (sentenceNode (e.tree (start cfg ws0))) ∧ p.err = none ∧ p.msg = none :=
  hin.parse_root fuel p h

end

/-- **termination on every input** (work budget of the driver disabled): from some fuel on `parse` answers -/
theorem c05_terminates (cfg : Cfg) (henv : cfg.env = Garith.env) (hoff : 1 ≤ cfg.file.offset) (h0 : cfg.maxCalls = 0) :
    ∃ F, ∀ fuel, F ≤ fuel → ∃ p, parse cfg fuel Garith.root = some p := by
  obtain ⟨F, hF⟩ := arith_halts henv hoff h0
  refine ⟨F, fun fuel hle => ?_⟩
  obtain ⟨⟨o, st1⟩, hx⟩ := hF fuel hle
  simp only [parse, hx]
  split
  · exact ⟨_, rfl⟩
  · exact ⟨_, rfl⟩

section
variable {cfg : Cfg} {ws0 : Bytes} {e : Cst}

/-- **the parser returns the tree of `e` and only that tree** -/
theorem c05_parse_full (hin : Input cfg ws0 e) (h0 : cfg.maxCalls = 0) :
    ∃ F, ∀ fuel, F ≤ fuel → ∃ p, parse cfg fuel Garith.root = some p ∧
      p.res = .one (sentenceNode (e.tree (start cfg ws0))) ∧ p.err = none ∧ p.msg = none := by
  obtain ⟨F, hF⟩ := c05_terminates cfg hin.env hin.off h0
  refine ⟨F, fun fuel hle => ?_⟩
  obtain ⟨p, hp⟩ := hF fuel hle
  exact ⟨p, hp, hin.parse_root fuel p hp⟩

/-- the evaluation of the returned tree -/
theorem c05_evaluate_of_parse (hin : Input cfg ws0 e) (fuel : Nat) (p : ParseOut)
    (hp : parse cfg fuel Garith.root = some p) (hfuel : (e.tree (start cfg ws0)).depth + 1 < fuel) :
    evaluate cfg arithCustom fuel Garith.root = some (embedV cfg.fileSet (refEval (e.toExpr (start cfg ws0)))) := by
  obtain ⟨hres, _, hmsg⟩ := hin.parse_root fuel p hp
  obtain ⟨t', ht, _, hx⟩ := c05_parse_tree cfg hin.env fuel p hp (sentenceNode (e.tree (start cfg ws0)))
    (by simp [hres, Res.alts])
  have htt : t' = e.tree (start cfg ws0) := by
    simp only [sentenceNode, Node.nt.injEq, List.cons.injEq] at hx
    exact hx.2.1.1.symm
  subst htt
  obtain ⟨k, rfl⟩ : ∃ k, fuel = k + 1 := ⟨fuel - 1, by omega⟩
  have hv := arith_value ht _ (e.exprOf_tree _) k (by omega)
  simp only [evaluate, hp, hmsg, hres, evalRes, evalNode_sentenceNode, hv]
  cases refEval (e.toExpr (start cfg ws0)) <;> rfl

/-- **C05 value theorem, partial correctness**: whenever `evaluate` answers (with fuel above the depth of the
    tree) the answer is the reference outcome -/
theorem c05_value_full_partial (hin : Input cfg ws0 e) (fuel : Nat) (out : EvaluateOut)
    (h : evaluate cfg arithCustom fuel Garith.root = some out) (hfuel : (e.tree (start cfg ws0)).depth + 1 < fuel) :
    out = embedV cfg.fileSet (refEval (e.toExpr (start cfg ws0))) := by
  cases hp : parse cfg fuel Garith.root with
  | none => simp [evaluate, hp] at h
  | some p =>
    rw [c05_evaluate_of_parse hin fuel p hp hfuel] at h
    injection h with h; exact h.symm

/-- **C05, the full value theorem**: from some fuel on, `Evaluate` on the text of a well-formed expression answers
    the value the reference evaluator computes (left-associative operators, `*` `/` before `+` `-`, int64
    wrap-around, truncated division) — or, for a division by zero, the error "division by zero" rendered by the
    file set at the position of that `/` -/
theorem c05_value_full (hin : Input cfg ws0 e) (h0 : cfg.maxCalls = 0) :
    ∃ F, ∀ fuel, F ≤ fuel →
      evaluate cfg arithCustom fuel Garith.root = some (embedV cfg.fileSet (refEval (e.toExpr (start cfg ws0)))) := by
  obtain ⟨F, hF⟩ := c05_terminates cfg hin.env hin.off h0
  refine ⟨max F ((e.tree (start cfg ws0)).depth + 2), fun fuel hle => ?_⟩
  obtain ⟨p, hp⟩ := hF fuel (by omega)
  exact c05_evaluate_of_parse hin fuel p hp (by omega)

/-- the position of a reported division by zero is the position of a `/` byte of the text -/
theorem c05_div_zero_at (hin : Input cfg ws0 e) (q : Nat) (hq : refEval (e.toExpr (start cfg ws0)) = .error q) :
    RuneAt cfg.file 47 q ∧ DivLeafAt cfg.file (e.tree (start cfg ws0)) q := by
  have ht : IsExprTree cfg.file (e.tree (start cfg ws0)) :=
    arith_derives_tree cfg hin.env 0 (by omega) _ _ hin.dc.toDerives
  have hdiv := c05_ref_error_at _ _ ht _ (e.exprOf_tree _) q hq
  have h3 : RuneAt cfg.file 47 q := by
    obtain ⟨_, _, h3⟩ := hdiv
    exact h3
  exact ⟨h3, hdiv⟩

end

/-! ### why (3) is stated for exact trees: `Derives` itself is not unambiguous

  `Derives` (Spec/Derives.lean) is the monotone reading of the combinators; its rule `rtrimKeep` allows the leaf
  whose end was not moved past the whitespace.  On "1 " the root therefore has no second derivation (the kept leaf
  ends before the space, where `End` does not match) — but on "1 +2" it has: the literal may keep its end at the
  space, the operator's left trim skips the space again. -/

/-- on the text "1 +2" the relation `Derives` has a second tree for the root: the same shape, the literal `1`
    ending at 2 instead of 3 -/
theorem c05_derives_not_unique :
    ∃ x y, x ≠ y ∧ Derives (nvArithCfg [49, 32, 43, 50]) Garith.root 1 x ∧ Derives (nvArithCfg [49, 32, 43, 50]) Garith.root 1 y := by
  let cfg := nvArithCfg [49, 32, 43, 50]
  have hint : ∀ (p : Nat) (x : Node), Terminal.parse cfg.params cfg.file .integer (skipWhitespaces cfg.file p .spacesNl).1 = .node x →
      Derives cfg (.ref 2) p (setRposNode cfg.file .spacesNl x none).1 := by
    intro p x hx
    exact .ref (g := Garith.factor) rfl (.any (g := Garith.trim (.term .integer)) (by simp) (.rtrimMove (.ltrim (.term hx))))
  have hkeep : ∀ (p : Nat) (x : Node), Terminal.parse cfg.params cfg.file .integer (skipWhitespaces cfg.file p .spacesNl).1 = .node x →
      Derives cfg (.ref 2) p x := by
    intro p x hx
    exact .ref (g := Garith.factor) rfl (.any (g := Garith.trim (.term .integer)) (by simp) (.rtrimKeep (.ltrim (.term hx))))
  have up : ∀ p x, Derives cfg (.ref 2) p x → Derives cfg (.ref 1) p x := fun p x h =>
    .ref (g := Garith.term) rfl (.memo (.any (g := .ref 2) (by simp) h))
  have up0 : ∀ p x, Derives cfg (.ref 1) p x → Derives cfg (.ref 0) p x := fun p x h =>
    .ref (g := Garith.expr) rfl (.memo (.any (g := .ref 1) (by simp) h))
  have h1m : Derives cfg (.ref 0) 1 (intLeaf 1 1 3) := up0 _ _ (up _ _ (hint 1 (intLeaf 1 1 2) rfl))
  have h1k : Derives cfg (.ref 0) 1 (intLeaf 1 1 2) := up0 _ _ (up _ _ (hkeep 1 (intLeaf 1 1 2) rfl))
  have hopm : Derives cfg Garith.addop 3 (opLeaf 43 3 4) :=
    .any (g := Garith.trim (Garith.rn 43)) (by simp) (.rtrimMove (x := opLeaf 43 3 4) (.ltrim (.term rfl)))
  have hopk : Derives cfg Garith.addop 2 (opLeaf 43 3 4) :=
    .any (g := Garith.trim (Garith.rn 43)) (by simp) (.rtrimMove (x := opLeaf 43 3 4) (.ltrim (.term rfl)))
  have h2 : Derives cfg (.ref 1) 4 (intLeaf 2 4 5) := up _ _ (hint 4 (intLeaf 2 4 5) rfl)
  have mk : ∀ l, Derives cfg (.ref 0) 1 l → Derives cfg Garith.addop l.rpos (opLeaf 43 3 4) →
      Derives cfg Garith.root 1 (sentenceNode (binNode l (opLeaf 43 3 4) (intLeaf 2 4 5))) := by
    intro l hl hop
    have hseq := Derives.seqfam (cfg := cfg) (g := Garith.exprSeq) (pos := 1)
      (nodes := [l, opLeaf 43 3 4, intLeaf 2 4 5]) rfl (.cons rfl hl (.cons rfl hop (.cons rfl h2 .nil))) rfl
    have hex : Derives cfg (.ref 0) 1 (binNode l (opLeaf 43 3 4) (intLeaf 2 4 5)) :=
      .ref (g := Garith.expr) rfl (.memo (.any (g := Garith.exprSeq) (by simp) hseq))
    exact Derives.seqfam (cfg := cfg) (g := Garith.root) (pos := 1)
      (nodes := [binNode l (opLeaf 43 3 4) (intLeaf 2 4 5), .eof 5]) rfl
      (.cons rfl hex (.cons rfl (.eof rfl) .nil)) rfl
  refine ⟨_, _, ?_, mk _ h1m hopm, mk _ h1k hopk⟩
  simp [sentenceNode, binNode, intLeaf]

end PV

namespace PV.A05
open PV.Text

/-! ### the plain syntax: whitespace given separately -/

/-- expressions without layout -/
inductive PExpr
  | lit (lex : Bytes)
  | bin (o : Op) (l r : PExpr)
  | paren (e : PExpr)
deriving Repr, Inhabited

namespace PExpr

/-- well-formed at precedence level `n`: stratified, literals in the integer syntax and within int64 -/
def WF : Nat → PExpr → Prop
  | _, .lit lex => LitOK lex
  | n, .bin o l r => n ≤ o.level ∧ l.WF o.level ∧ r.WF (o.level + 1)
  | _, .paren e => e.WF 0

/-- lay the expression out: the tokens are numbered in text order from `i`; token `k` is followed by `ws k`.
    Returns the laid-out expression and the number of the next token. -/
def layout : PExpr → (Nat → Bytes) → Nat → Cst × Nat
  | .lit lex, ws, i => (.lit lex (ws i), i + 1)
  | .bin o l r, ws, i =>
    let a := l.layout ws i
    let b := r.layout ws (a.2 + 1)
    (.bin o a.1 (ws a.2) b.1, b.2)
  | .paren e, ws, i =>
    let a := e.layout ws (i + 1)
    (.paren (ws i) a.1 (ws a.2), a.2 + 1)

theorem layout_WF (e : PExpr) (ws : Nat → Bytes) (hws : ∀ i, WsOK (ws i)) :
    ∀ n i, e.WF n → (e.layout ws i).1.WF n := by
  induction e with
  | lit lex => intro n i h; exact ⟨h, hws i⟩
  | bin o l r ihl ihr => intro n i h; exact ⟨h.1, ihl _ _ h.2.1, hws _, ihr _ _ h.2.2⟩
  | paren e ih => intro n i h; exact ⟨hws _, ih _ _ h, hws _⟩

end PExpr

/-- the text: `ws 0`, then the tokens of `e`, token `k ≥ 1` followed by `ws k` -/
def render (e : PExpr) (ws : Nat → Bytes) : Bytes := ws 0 ++ (e.layout ws 1).1.render

/-- every whitespace chunk consists of whitespace bytes (32, 9, 10, 12) -/
def Admissible (ws : Nat → Bytes) : Prop := ∀ i, WsOK (ws i)

/-! no byte 13 occurs in a rendered text, so `text.NewFile` (which replaces "\r\n") leaves it unchanged -/

theorem normCRLF_id : ∀ (l : Bytes), 13 ∉ l → normCRLF l = l
  | [], _ => by unfold normCRLF; rfl
  | b :: r, h => by
    have hb : b ≠ 13 := fun hb => h (by simp [hb])
    have ih := normCRLF_id r (fun hm => h (List.mem_cons_of_mem _ hm))
    unfold normCRLF
    split
    · rename_i heq
      injection heq with h1 _
      exact absurd h1 hb
    · rename_i heq
      injection heq with h1 h2
      subst h1 h2
      rw [ih]
    · rename_i heq; cases heq

theorem ws_no13 {ws : Bytes} (h : WsOK ws) : 13 ∉ ws := by
  intro hm
  have := h 13 hm
  revert this; decide

theorem lit_no13 {lex : Bytes} (h : LitOK lex) : 13 ∉ lex := by
  intro hm
  obtain ⟨b, r, rfl, hb⟩ := isInt_head lex h.1
  cases hm with
  | head => omega
  | tail _ hm' =>
    have := isInt_tail _ h.1 13 hm'
    revert this; decide

theorem render_no13 (e : Cst) : ∀ n, e.WF n → 13 ∉ e.render := by
  induction e with
  | lit lex ws =>
    intro n h
    simp only [Cst.render, List.mem_append, not_or]
    exact ⟨lit_no13 h.1, ws_no13 h.2⟩
  | bin o l ws r ihl ihr =>
    intro n h
    simp only [Cst.render, List.mem_append, List.mem_cons, not_or]
    exact ⟨ihl _ h.2.1, by cases o <;> decide, ws_no13 h.2.2.1, ihr _ h.2.2.2⟩
  | paren ws1 e ws2 ih =>
    intro n h
    simp only [Cst.render, List.mem_append, List.mem_cons, not_or]
    exact ⟨by decide, ws_no13 h.1, ih _ h.2.1, by decide, ws_no13 h.2.2⟩

end PV.A05

namespace PV
open PV.Text PV.A05

/-- the configuration `nvArithCfg` built from the raw text of a well-formed expression is an input of the theorems -/
theorem c05_input_of_text (e : PExpr) (ws : Nat → Bytes) (hws : Admissible ws) (he : e.WF 0) :
    Input (nvArithCfg (render e ws)) (ws 0) (e.layout ws 1).1 := by
  have hwf := e.layout_WF ws hws 0 1 he
  have hn : normCRLF (render e ws) = render e ws := by
    refine normCRLF_id _ ?_
    simp only [render, List.mem_append, not_or]
    exact ⟨ws_no13 (hws 0), render_no13 _ 0 hwf⟩
  refine ⟨rfl, Nat.le_refl 1, ?_, hws 0, hwf⟩
  show normCRLF (render e ws) = _
  rw [hn]; rfl

/-- **C05, the full value theorem on raw text**: for every stratified expression `e` and every admissible
    whitespace placement `ws`, from some fuel on `Evaluate` on `render e ws` answers the reference outcome of `e`
    (operator positions: those of the operator bytes in the text, base offset 1) -/
theorem c05_value_text (e : PExpr) (ws : Nat → Bytes) (hws : Admissible ws) (he : e.WF 0) :
    ∃ F, ∀ fuel, F ≤ fuel →
      evaluate (nvArithCfg (render e ws)) arithCustom fuel Garith.root =
        some (embedV (nvArithCfg (render e ws)).fileSet
          (refEval ((e.layout ws 1).1.toExpr (1 + (ws 0).length)))) :=
  c05_value_full (c05_input_of_text e ws hws he) rfl

/-- and the parser returns exactly the tree of `e` -/
theorem c05_parse_text (e : PExpr) (ws : Nat → Bytes) (hws : Admissible ws) (he : e.WF 0) :
    ∃ F, ∀ fuel, F ≤ fuel → ∃ p, parse (nvArithCfg (render e ws)) fuel Garith.root = some p ∧
      p.res = .one (sentenceNode ((e.layout ws 1).1.tree (1 + (ws 0).length))) ∧ p.err = none ∧ p.msg = none :=
  c05_parse_full (c05_input_of_text e ws hws he) rfl

end PV

namespace PV.A05
open PV.Text

/-! ### non-vacuity: ` 1 + 2*(3 -4)/ 0x10 - -7` and `8 / (2- 2)` -/

def nvWs : Nat → Bytes
  | 0 => [32]
  | 1 => [32]
  | 2 => [32]
  | 6 => [32]
  | 10 => [32]
  | 11 => [32, 9]
  | 12 => [32]
  | _ => []

/-- `1 + 2*(3-4)/0x10 - -7` -/
def nvE1 : PExpr :=
  .bin .sub (.bin .add (.lit [49]) (.bin .div (.bin .mul (.lit [50]) (.paren (.bin .sub (.lit [51]) (.lit [52])))) (.lit [48, 120, 49, 48])))
    (.lit [45, 55])

theorem nvWs_ok : Admissible nvWs := by
  intro i b hb
  unfold nvWs at hb
  split at hb <;> simp at hb <;> (try rcases hb with rfl | rfl) <;> (try subst hb) <;> decide

theorem nvE1_wf : nvE1.WF 0 := by
  simp only [nvE1, PExpr.WF, Op.level, LitOK]
  decide

example : render nvE1 nvWs = tokOf " 1 + 2*(3 -4)/ 0x10 \t- -7" := by decide +kernel
example : refEval ((nvE1.layout nvWs 1).1.toExpr 2) = .ok 8 := by rfl

end PV.A05

namespace PV
open PV.Text PV.A05

/-- the theorem, instantiated: `Evaluate` on " 1 + 2*(3 -4)/ 0x10 \t- -7" answers 8 (2*(3-4)/16 = 0 by truncation) -/
theorem c05_nv_value1 : ∃ F, ∀ fuel, F ≤ fuel →
    evaluate (nvArithCfg (render nvE1 nvWs)) arithCustom fuel Garith.root = some (.value (.int 8)) := by
  obtain ⟨F, hF⟩ := c05_value_text nvE1 nvWs nvWs_ok nvE1_wf
  refine ⟨F, fun fuel hle => ?_⟩
  rw [hF fuel hle]
  have : refEval ((nvE1.layout nvWs 1).1.toExpr (1 + (nvWs 0).length)) = .ok 8 := by rfl
  rw [this]; rfl

end PV

namespace PV.A05
open PV.Text

/-- `8 / (2- 2)`: division by zero at the `/` (position 3 = f:1:3) -/
def nvE2 : PExpr := .bin .div (.lit [56]) (.paren (.bin .sub (.lit [50]) (.lit [50])))
def nvWs2 : Nat → Bytes
  | 1 => [32]
  | 2 => [32]
  | 5 => [32]
  | _ => []

theorem nvWs2_ok : Admissible nvWs2 := by
  intro i b hb
  unfold nvWs2 at hb
  split at hb <;> simp at hb <;> (try subst hb) <;> decide

theorem nvE2_wf : nvE2.WF 0 := by
  simp only [nvE2, PExpr.WF, Op.level, LitOK]
  decide

end PV.A05

namespace PV
open PV.Text PV.A05

theorem c05_nv_value2 : ∃ F, ∀ fuel, F ≤ fuel →
    evaluate (nvArithCfg (render nvE2 nvWs2)) arithCustom fuel Garith.root =
      some (.error (tokOf "division by zero at f:1:3")) := by
  obtain ⟨F, hF⟩ := c05_value_text nvE2 nvWs2 nvWs2_ok nvE2_wf
  refine ⟨F, fun fuel hle => ?_⟩
  rw [hF fuel hle]
  have : refEval ((nvE2.layout nvWs2 1).1.toExpr (1 + (nvWs2 0).length)) = .error 3 := by rfl
  rw [this]
  have herr : errorWithPosition (nvArithCfg (render nvE2 nvWs2)).fileSet ⟨3, .other (tokOf "division by zero")⟩ =
      tokOf "division by zero at f:1:3" := by decide +kernel
  simp only [embedV, herr]

/-! the model itself on the same texts, run by the interpreter at build time (tests, not theorems) -/
#guard outIsInt (evaluate (nvArithCfg (render nvE1 nvWs)) arithCustom 1000 Garith.root) 8
#guard outIsErr (evaluate (nvArithCfg (render nvE2 nvWs2)) arithCustom 1000 Garith.root) (tokOf "division by zero at f:1:3")
#guard resIsOne (parse (nvArithCfg (render nvE1 nvWs)) 1000 Garith.root)
  (fun x => toString (repr x) == toString (repr (sentenceNode ((nvE1.layout nvWs 1).1.tree 2))))

end PV
