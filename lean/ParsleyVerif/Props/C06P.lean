/-
  C06 for NAMED grammars under a productivity certificate — the two statements Props/C06.lean leaves open,
  both proved here.

  Certificate: Spec/Productive.lean (`Prod.productive cert env g : Bool`, decidable; `Prod.productiveAuto`
  computes one).  Invariants, each by induction on fuel over all cases of `run`:
    Proofs/ProdRun.lean   `Prod.run_prod`   every error value lies at or before a terminal failure, or is a
                                             pending not-found error of a failing call; a failing productive
                                             call logs a terminal failure or is blamed on an active parser
                                             of smaller rank;
    Proofs/ProdBlame.lean `Prod.run_blame`  a productive call without result and without error is blamed on
                                             an active parser of smaller rank;
    Proofs/ProdLow.lean   `Prod.run_low`    coverage (Proofs/RunLow.lean) with "a curtailment somewhere in the
                                             log" replaced by "a memoized parser still active at or after x".

  PROVED
  * `c06_upper_productive`      (1) every grammar over the combinator set without trims, named or not, left
                                recursive or not, that carries C02's certificate (`wf`: nullability) and a
                                productivity certificate: the position `parse (sentence g)` reports is at or
                                before the furthest position at which a terminal / End was tried and did
                                not match — in fact a terminal failed at or after the reported position.
                                No `PureFail` disjunct, no "no match was found" disjunct.
  * `c06_upper_productive_run`  the same for every error value of a run from the fresh context: the returned
                                error, the context error; and a run without a result logs a terminal failure
                                at or after its start.
  * `c06_lower_productive(_run)`  every terminal failure of a failing parse is at or before the reported
                                position — `c06_lower_parse` WITHOUT the disjunct "or a memoized parser was
                                curtailed at or after it" (`LocLow`: no SuppressError, no Any / Choice / SeqTry
                                without parsers, no token "EOF").
  * `c06_exact_productive`      (2) hence: the reported position EQUALS the furthest position at which a
                                terminal or End was tried and did not match, and a terminal failed exactly
                                there.  No `NoCurtailBeyond`, named or unnamed.
  * `…_auto`                    the same with both certificates computed from the grammar.

  FALSE without the certificate, and what "productive" has to mean
  * `c06_d8_not_productive`     D8 (`N → Choice(N)`) is rejected by EVERY certificate.
  * `c06_d12_cfg_productive_not_enough`  NEW FINDING D12.  `P → Optional(P.Name("x"))`, memoized,
                                `S → z P.Name("y")`: every nonterminal derives a string (P ⇒ ε), all side
                                conditions of `c06_upper_named_sentence` hold, and on "z" Parse fails with
                                "was expecting y" at offset 1 although the only terminal ever tried is `z` at
                                offset 0, which matched — NO terminal failed anywhere.  (Optional returns
                                the error of the curtailed inner call next to its EMPTY result; ReturnError
                                drops a result that comes with an error.)  So (1) is false for the classic
                                notion of productivity; the certificate additionally asks that an error
                                kept NEXT TO A RESULT (Optional, a repetition accepting zero elements, a
                                Sequence element reached without consumption) cannot stem from the
                                curtailment of an active parser.  `c06_d12_not_productive`: D12 is rejected
                                by every certificate.

  NON-VACUITY  `P → (P b | a).Name("P")`, `P → a | (P b).Name("x")` (the D8 shape occurs, is reported, and is
  harmless) and the arithmetic grammar with named rules carry certificates (by `decide`, given and
  computed), and the theorems apply to them.
-/
import ParsleyVerif.Props.C06
import ParsleyVerif.Props.C02T
import ParsleyVerif.Proofs.ProdRun
import ParsleyVerif.Proofs.ProdLow
namespace PV
open PV.Text

/-! ### from the decidable check to the hypotheses of the invariant -/

theorem Prod.productive_rules {c : ProdCert} {env : List G} {root : G} (h : Prod.productive c env root = true)
    (k : Nat) (g : G) (hk : env[k]? = some g) :
    Prod.ok c (c.live k) g = true ∧ Prod.pr c (c.rrank k) g = true := by
  simp only [Prod.productive, Bool.and_eq_true, List.all_eq_true, List.mem_range] at h
  have := h.2 k (List.getElem?_eq_some_iff.mp hk).1
  simpa [hk] using this

theorem Prod.productive_root {c : ProdCert} {env : List G} {root : G} (h : Prod.productive c env root = true) :
    Prod.pr c c.top root = true ∧ Prod.ok c [] root = true := by
  simp only [Prod.productive, Bool.and_eq_true] at h
  exact h.1

/-- `Sentence(g)` is accepted when `g` is -/
theorem Prod.sentence_ok {c : ProdCert} {g : G} (h1 : Prod.pr c c.top g = true) (h2 : Prod.ok c [] g = true) :
    Prod.pr c c.top (G.sentence g) = true ∧ Prod.ok c [] (G.sentence g) = true := by
  constructor
  · simp [G.sentence, Prod.pr, Prod.prAll, h1]
  · simp only [G.sentence, Prod.ok, Prod.okSeq, h2, Bool.true_or, Bool.and_true, Bool.false_or, Prod.pr]

theorem Prod.sentence_gwf {w : WFCert} {cfg : Cfg} {g : G} (h : GWF w cfg g) : GWF w cfg (G.sentence g) :=
  ⟨by simp [G.sentence, G.Core, CoreList, h.core],
   by simp only [G.sentence, G.All, AllList, LocalP, and_true, true_and]; exact h.loc⟩

theorem Prod.envProd {c : ProdCert} {cfg : Cfg} {g : G} (hgh : cfg.ghost = true) (hscope : C02Scope cfg g)
    (hwf : wf c.wf cfg.env g = true) (hprod : Prod.productive c cfg.env g = true)
    (henvL : ∀ g' ∈ cfg.env, g'.All (Prod.LocP cfg)) : Prod.EnvProd c cfg ∧ GWF c.wf cfg g :=
  ⟨⟨hgh, (EnvOK_of_wf c.wf cfg g hwf hscope).1, henvL, fun k g' hk => Prod.productive_rules hprod k g' hk⟩,
    (EnvOK_of_wf c.wf cfg g hwf hscope).2⟩

theorem Prod.TFge_le_max {log : List Ev} {p : Nat} (h : Prod.TFge log p) : p ≤ maxTermFail log := by
  obtain ⟨q, k, hq, hm⟩ := h
  exact Nat.le_trans hq (le_maxTermFail hm)

theorem Prod.PSt_initial (c : ProdCert) : Prod.PSt c {} :=
  ⟨(by intro e he; cases he), (by intro er her; cases her)⟩

/-! ### (1) the upper bound for named grammars -/

/-- **every error value of a run from the fresh context** lies at or before a terminal failure, and a run
    without a result has logged a terminal failure at or after its start. -/
theorem c06_upper_productive_run (cert : ProdCert) (cfg : Cfg) (hgh : cfg.ghost = true) (g : G)
    (hscope : C02Scope cfg g) (hwf : wf cert.wf cfg.env g = true)
    (hprod : Prod.productive cert cfg.env g = true)
    (hloc : g.All (Prod.LocP cfg)) (henvL : ∀ g' ∈ cfg.env, g'.All (Prod.LocP cfg))
    (fuel : Nat) (o : Out) (st' : St) (h : run cfg fuel g [] (cfg.file.pos 0) {} = some (o, st')) :
    (∀ e, o.err = some e → ∃ q, e.pos ≤ q ∧ TFat st'.log q) ∧
    (∀ e, st'.ctxErr = some e → ∃ q, e.pos ≤ q ∧ TFat st'.log q) ∧
    (o.res.isNil = true → ∃ q, cfg.file.pos 0 ≤ q ∧ TFat st'.log q) := by
  obtain ⟨henv, hg⟩ := Prod.envProd hgh hscope hwf hprod henvL
  obtain ⟨hpr, hok⟩ := Prod.productive_root hprod
  obtain ⟨hpre, hcc⟩ := c02t_initial cert.wf cfg
  have hp := Prod.run_prod cert cfg henv fuel g [] [] (cfg.file.pos 0) {} o st' hg hloc hok (Prod.LiveIn.nil _)
    ⟨hpre, hcc⟩ (Prod.PSt_initial cert) h
  have hfail : o.res.isNil = true → Prod.TFge st'.log (cfg.file.pos 0) := by
    intro hn
    cases hp.fail _ hpr hn with
    | inl h1 => exact h1
    | inr h1 => exact absurd h1 Prod.Blame.not_nil
  have conv : ∀ p, Prod.TFge st'.log p → ∃ q, p ≤ q ∧ TFat st'.log q :=
    fun p ⟨q, k, hq, hm⟩ => ⟨q, hq, k, hm⟩
  refine ⟨?_, fun e he => conv _ (hp.pst.ctxErr e he), fun hn => conv _ (hfail hn)⟩
  intro e he
  cases hp.err e he with
  | inl h1 => exact conv _ h1
  | inr h1 => rw [h1.2.1]; exact conv _ (hfail h1.1)

/-- **C06 upper bound, named grammars (statement (1) of Props/C06.lean).**  For every grammar with C02's
    certificate and a productivity certificate, every input, every fuel: when the Sentence-rooted parse
    fails, a terminal or End was tried and did not match at or after the reported position; so the reported
    position is never beyond the furthest such position. -/
theorem c06_upper_productive (cert : ProdCert) (cfg : Cfg) (hgh : cfg.ghost = true) (g : G)
    (hscope : C02Scope cfg g) (hwf : wf cert.wf cfg.env g = true)
    (hprod : Prod.productive cert cfg.env g = true)
    (hloc : g.All (Prod.LocP cfg)) (henvL : ∀ g' ∈ cfg.env, g'.All (Prod.LocP cfg))
    (fuel : Nat) (r : ParseOut) (e : Err) (h : parse cfg fuel (G.sentence g) = some r) (he : r.err = some e) :
    e.pos ≤ maxTermFail r.st.log ∧ ∃ q, e.pos ≤ q ∧ TFat r.st.log q := by
  obtain ⟨henv, hg⟩ := Prod.envProd hgh hscope hwf hprod henvL
  obtain ⟨hpr, hok⟩ := Prod.productive_root hprod
  obtain ⟨hprS, hokS⟩ := Prod.sentence_ok hpr hok
  obtain ⟨hpre, hcc⟩ := c02t_initial cert.wf cfg
  obtain ⟨o, st', hr, hst, hc⟩ := parse_err_cases cfg fuel _ {} r e h he
  have hp := Prod.run_prod cert cfg henv fuel (G.sentence g) [] [] (cfg.file.pos 0) {} o st' (Prod.sentence_gwf hg)
    (sentence_loc hloc) hokS (Prod.LiveIn.nil _) ⟨hpre, hcc⟩ (Prod.PSt_initial cert) hr
  have hfail : o.res.isNil = true → Prod.TFge st'.log (cfg.file.pos 0) := by
    intro hn
    cases hp.fail _ hprS hn with
    | inl h1 => exact h1
    | inr h1 => exact absurd h1 Prod.Blame.not_nil
  have key : Prod.TFge st'.log e.pos := by
    rcases hc with hc | hc | hc
    · cases hp.err e hc with
      | inl h1 => exact h1
      | inr h1 => rw [h1.2.1]; exact hfail h1.1
    · exact hp.pst.ctxErr e hc
    · rw [hc.2.2.2]; exact hfail hc.1
  rw [hst]
  obtain ⟨q, k, hq, hm⟩ := key
  exact ⟨Nat.le_trans hq (le_maxTermFail hm), q, hq, k, hm⟩

/-- with the certificates COMPUTED (`wfAuto`, `Prod.productiveAuto`: both decidable checks on the grammar) -/
theorem c06_upper_productive_auto (cfg : Cfg) (hgh : cfg.ghost = true) (g : G)
    (hscope : C02Scope cfg g) (hwf : wfAuto cfg.env g = true) (hprod : Prod.productiveAuto cfg.env g = true)
    (hloc : g.All (Prod.LocP cfg)) (henvL : ∀ g' ∈ cfg.env, g'.All (Prod.LocP cfg))
    (fuel : Nat) (r : ParseOut) (e : Err) (h : parse cfg fuel (G.sentence g) = some r) (he : r.err = some e) :
    e.pos ≤ maxTermFail r.st.log ∧ ∃ q, e.pos ≤ q ∧ TFat r.st.log q :=
  c06_upper_productive (Prod.autoProd cfg.env g) cfg hgh g hscope hwf hprod hloc henvL fuel r e h he

/-! ### (2) exactness -/

theorem Prod.envBlame {c : ProdCert} {cfg : Cfg} {g : G} (hscope : C02Scope cfg g)
    (hprod : Prod.productive c cfg.env g = true) (henvLow : ∀ g' ∈ cfg.env, g'.All (LocLow cfg)) :
    Prod.EnvBlame c cfg :=
  ⟨fun g' hg' => Core_mono (fun _ h => h.1) g' (hscope.env g' hg'), henvLow,
    fun g' hg' => by
      obtain ⟨k, hk, hkg⟩ := List.getElem_of_mem hg'
      have hk' : cfg.env[k]? = some g' := by rw [List.getElem?_eq_getElem hk, hkg]
      exact Prod.ok_memoPr c g' _ (Prod.productive_rules hprod k g' hk').1,
    fun k g' hk => (Prod.productive_rules hprod k g' hk).2⟩

/-- **lower bound without the curtailment disjunct, `run` from the fresh context**: in a productive grammar
    every terminal failure of the run, and the start position, is at or before the returned error, or at or
    before the context error, or at or before the end of a returned result. -/
theorem c06_lower_productive_run (cert : ProdCert) (cfg : Cfg) (hgh : cfg.ghost = true) (g : G)
    (hscope : C02Scope cfg g) (hprod : Prod.productive cert cfg.env g = true)
    (hl : g.All (LocLow cfg)) (henvLow : ∀ g' ∈ cfg.env, g'.All (LocLow cfg))
    (fuel : Nat) (o : Out) (st' : St) (hr : run cfg fuel g [] (cfg.file.pos 0) {} = some (o, st')) :
    (∀ x k, Ev.termFail x k ∈ st'.log → GeE x o.err ∨ GeR x o.res ∨ GeE x st'.ctxErr) ∧
    (GeE (cfg.file.pos 0) o.err ∨ GeR (cfg.file.pos 0) o.res ∨ GeE (cfg.file.pos 0) st'.ctxErr) ∧
    OutOK cfg (cfg.file.pos 0) o.res o.err := by
  have henvB := Prod.envBlame hscope hprod henvLow
  have hcore : g.Core (TermGood cfg) := Core_mono (fun _ h => h.1) g hscope.root
  have hmp : g.All (Prod.MemoPr cert) := Prod.ok_memoPr cert g _ (Prod.productive_root hprod).2
  have hpre := c01_pre_initial cfg
  have hlow := Prod.run_low cert cfg hgh henvB fuel g [] _ {} o st' hcore hl hmp hpre (Prod.CtxExact_init _)
    (by intro e he; cases he) hr
  have hact : st'.active = [] := (run_pos cfg henvB.core fuel g [] _ {} o st' hcore hpre hr).active
  have hnoA : ∀ x, ¬ Prod.GeA x st' := by
    rintro x ⟨a, ha, _⟩
    rw [hact] at ha; cases ha
  have conv : ∀ x, Prod.Cov x o.err o.res st' → GeE x o.err ∨ GeR x o.res ∨ GeE x st'.ctxErr := by
    intro x hx
    rcases hx with h1 | h1 | h1 | h1
    · exact .inl h1
    · exact .inr (.inl h1)
    · exact .inr (.inr h1)
    · exact absurd h1 (hnoA x)
  obtain ⟨d, hd, hc⟩ := hlow.newTF
  refine ⟨?_, conv _ hlow.prog, hlow.out⟩
  intro x k hx
  have : st'.log = d := by rw [hd]; exact List.append_nil d
  rw [this] at hx
  exact conv x (hc x k hx).1

/-- **lower bound without the curtailment disjunct, `parse`**: every terminal failure of a failing parse of a
    productive grammar is at or before the reported position. -/
theorem c06_lower_productive (cert : ProdCert) (cfg : Cfg) (hgh : cfg.ghost = true) (g : G)
    (hscope : C02Scope cfg g) (hprod : Prod.productive cert cfg.env g = true)
    (hl : g.All (LocLow cfg)) (henvLow : ∀ g' ∈ cfg.env, g'.All (LocLow cfg))
    (fuel : Nat) (r : ParseOut) (e : Err) (h : parse cfg fuel g = some r) (he : r.err = some e)
    (hws : e.kind.isWs = false) :
    ∀ x k, Ev.termFail x k ∈ r.st.log → x ≤ e.pos := by
  have hs : Scope cfg g :=
    ⟨Core_mono (fun _ h => h.1) g hscope.root, fun g' hg' => Core_mono (fun _ h => h.1) g' (hscope.env g' hg')⟩
  obtain ⟨o, st', hr⟩ := parse_run cfg fuel g {} r h
  obtain ⟨hcov, _, hout⟩ := c06_lower_productive_run cert cfg hgh g hscope hprod hl henvLow fuel o st' hr
  have hpe := c01_error_positions cfg g hs fuel [] _ {} o st' (c01_pre_initial cfg) hr
  intro x k hx
  cases ho : o.err with
  | some e0 =>
    obtain ⟨r', e', hp', he', hst', _, hw1, hw2⟩ := c06_parse_prefers_further cfg fuel g {} o st' e0 hr ho
    rw [h] at hp'; cases hp'
    rw [he] at he'; cases he'
    rw [hst'] at hx
    have hnw : e0.kind.isWs = false := by
      cases hk : e0.kind.isWs with
      | false => rfl
      | true => rw [hw1 hk] at hws; rw [hws] at hk; cases hk
    obtain ⟨_, _, hmax⟩ := hw2 hnw
    rcases hcov x k hx with h1 | h1 | h1
    · obtain ⟨e1, he1, hx1⟩ := h1
      rw [ho] at he1; cases he1
      rw [hmax]; omega
    · obtain ⟨n, hn, hxn⟩ := h1
      have := hout.errRes e0 ho n hn
      have := (hpe.1 e0 ho).1
      rw [hmax]; omega
    · obtain ⟨ce, hce, hxc⟩ := h1
      rw [hmax, hce]; simp only [Option.map_some, Option.getD_some]; omega
  | none =>
    cases hres : o.res.isNil with
    | false =>
      rw [parse_unfold cfg fuel g {} o st' hr] at h
      have h0 : parseErr0 cfg o st' = none := by simp [parseErr0, hres, ho]
      rw [h0] at h
      simp only [Option.some.injEq] at h
      subst h
      cases he
    | true =>
      obtain ⟨r', hp', hst', he'⟩ := c06_parse_no_returned_error cfg fuel g {} o st' hr hres ho
      rw [h] at hp'; cases hp'
      rw [hst'] at hx
      rcases hcov x k hx with h1 | h1 | h1
      · rw [ho] at h1; exact absurd h1 (GeE_none x)
      · exact absurd h1 (GeR_of_isNil hres)
      · obtain ⟨ce, hce, hxc⟩ := h1
        rw [he, hce] at he'
        simp only [Option.some.injEq] at he'
        rw [he']; exact hxc

theorem Prod.sentence_productive {c : ProdCert} {env : List G} {g : G} (h : Prod.productive c env g = true) :
    Prod.productive c env (G.sentence g) = true := by
  obtain ⟨h1, h2⟩ := Prod.productive_root h
  obtain ⟨h3, h4⟩ := Prod.sentence_ok h1 h2
  simp only [Prod.productive, Bool.and_eq_true] at h ⊢
  exact ⟨⟨h3, h4⟩, h.2⟩

theorem Prod.sentence_scope {cfg : Cfg} {g : G} (h : C02Scope cfg g) : C02Scope cfg (G.sentence g) :=
  ⟨by simp [G.sentence, G.Core, CoreList, h.root], h.env, h.budget⟩

/-- **C06 exactness (statement (2) of Props/C06.lean), without any condition on curtailment.**  For every
    grammar with C02's certificate and a productivity certificate, without SuppressError / Any, Choice, SeqTry
    without parsers / token "EOF" (`LocLow`), named or not, left recursive or not: when the Sentence-rooted
    parse fails, the reported position EQUALS the furthest position at which a terminal or End was tried and
    did not match, and a terminal failed exactly there. -/
theorem c06_exact_productive (cert : ProdCert) (cfg : Cfg) (hgh : cfg.ghost = true) (g : G)
    (hscope : C02Scope cfg g) (hwf : wf cert.wf cfg.env g = true)
    (hprod : Prod.productive cert cfg.env g = true)
    (hloc : g.All (Prod.LocP cfg)) (henvL : ∀ g' ∈ cfg.env, g'.All (Prod.LocP cfg))
    (hl : g.All (LocLow cfg)) (henvLow : ∀ g' ∈ cfg.env, g'.All (LocLow cfg))
    (fuel : Nat) (r : ParseOut) (e : Err) (h : parse cfg fuel (G.sentence g) = some r) (he : r.err = some e)
    (hws : e.kind.isWs = false) :
    e.pos = maxTermFail r.st.log ∧ TFat r.st.log e.pos := by
  obtain ⟨hle, q, hq, hqt⟩ := c06_upper_productive cert cfg hgh g hscope hwf hprod hloc henvL fuel r e h he
  have hlow := c06_lower_productive cert cfg hgh (G.sentence g) (Prod.sentence_scope hscope)
    (Prod.sentence_productive hprod) (sentence_low hl) henvLow fuel r e h he hws
  have hge : maxTermFail r.st.log ≤ e.pos := by
    rcases maxTermFail_attained r.st.log with h0 | ⟨k, hk⟩
    · omega
    · exact hlow _ k hk
  have heq : e.pos = maxTermFail r.st.log := by omega
  refine ⟨heq, ?_⟩
  obtain ⟨k, hk⟩ := hqt
  have : q ≤ maxTermFail r.st.log := le_maxTermFail hk
  have hqe : q = e.pos := by omega
  exact ⟨k, hqe ▸ hk⟩

/-- with the certificates computed -/
theorem c06_exact_productive_auto (cfg : Cfg) (hgh : cfg.ghost = true) (g : G)
    (hscope : C02Scope cfg g) (hwf : wfAuto cfg.env g = true) (hprod : Prod.productiveAuto cfg.env g = true)
    (hloc : g.All (Prod.LocP cfg)) (henvL : ∀ g' ∈ cfg.env, g'.All (Prod.LocP cfg))
    (hl : g.All (LocLow cfg)) (henvLow : ∀ g' ∈ cfg.env, g'.All (LocLow cfg))
    (fuel : Nat) (r : ParseOut) (e : Err) (h : parse cfg fuel (G.sentence g) = some r) (he : r.err = some e)
    (hws : e.kind.isWs = false) :
    e.pos = maxTermFail r.st.log ∧ TFat r.st.log e.pos :=
  c06_exact_productive (Prod.autoProd cfg.env g) cfg hgh g hscope hwf hprod hloc henvL hl henvLow fuel r e h he hws

/-! ### what the certificate rejects -/

/-- **D8 has no certificate**: `N1 → Choice(N1)` would need `prank 1 < rrank 1 ≤ prank 1`. -/
theorem c06_d8_not_productive (c : ProdCert) : Prod.productive c d8Env (.ref 0) = false := by
  cases h : Prod.productive c d8Env (.ref 0) with
  | false => rfl
  | true =>
    exfalso
    have := (Prod.productive_rules h 1 (.memo 1 (.name (.choice [.ref 1]) [110, 49])) rfl).2
    have h2 := (Prod.productive_rules h 1 (.memo 1 (.name (.choice [.ref 1]) [110, 49])) rfl).1
    simp only [Prod.pr, Prod.prAny, Bool.or_false, Bool.and_eq_true, decide_eq_true_eq] at this
    omega

theorem c06_d8_not_productive_auto : Prod.productiveAuto d8Env (.ref 0) = false :=
  c06_d8_not_productive _

/-- D12: `P → Optional(P.Name("x"))`, memoized; `S → z P.Name("y")` -/
def Prod.c6z : G := .term (.rune 122 [34, 122, 34])
def Prod.d12Env : List G := [.memo 0 (.optional (.name (.ref 0) [120]))]
def Prod.d12Root : G := .seq .seqOf [Prod.c6z, .name (.ref 0) [121]] {}
/-- input "z" -/
def Prod.d12Cfg : Cfg := c6Cfg Prod.d12Env [122]

theorem Prod.d12_scope : Scope Prod.d12Cfg Prod.d12Root := by
  refine ⟨by simp only [Prod.d12Root, G.Core, CoreList, Prod.c6z, and_true]; exact termGood_rune _ _ _, ?_⟩
  intro g' hg'
  have hg2 : g' = .memo 0 (.optional (.name (.ref 0) [120])) := by
    simpa [Prod.d12Cfg, c6Cfg, Prod.d12Env] using hg'
  subst hg2
  simp [G.Core]

theorem Prod.d12_loc : Prod.d12Root.All (LocErr Prod.d12Cfg (fun _ _ => True) (fun _ => True) False) ∧
    ∀ g' ∈ Prod.d12Cfg.env, g'.All (LocErr Prod.d12Cfg (fun _ _ => True) (fun _ => True) False) := by
  have hr0 : LocErr Prod.d12Cfg (fun _ _ => True) (fun _ => True) False (.ref 0) := by
    intro h; cases h
  refine ⟨?_, ?_⟩
  · simp only [Prod.d12Root, G.All, AllList, and_true, Prod.c6z]
    exact ⟨(by simp [LocErr]), locErr_rune _ _ _ _ _, (by simp [LocErr]), hr0⟩
  · intro g' hg'
    have hg2 : g' = .memo 0 (.optional (.name (.ref 0) [120])) := by
      simpa [Prod.d12Cfg, c6Cfg, Prod.d12Env] using hg'
    subst hg2
    simp only [G.All]
    exact ⟨(by simp [LocErr]), (by simp [LocErr]), (by simp [LocErr]), hr0⟩

/-- **NEW FINDING D12, by evaluation.**  Every nonterminal of the grammar derives a string (`P ⇒ ε`,
    `S ⇒ z`), the hypotheses of `c06_upper_named_sentence` hold, the input "z" IS in the language — and the
    parse fails with "was expecting y" at offset 1 (global position 2, f:1:2) while NO terminal or End
    failed anywhere (`termFailPositions = []`): the reported position is beyond everything that was tried.
    Mechanism: the innermost activation of `P` is curtailed, `Name("x")` turns that into an error at the
    same position, Optional returns this error NEXT TO its EMPTY result, and the outer `Name("y")`
    (ReturnError) drops a result that comes with an error.  Statement (1) therefore needs more than
    "every nonterminal derives a string". -/
theorem c06_d12_cfg_productive_not_enough :
    ∃ r e, Scope Prod.d12Cfg Prod.d12Root ∧ Prod.d12Root.All (LocErr Prod.d12Cfg (fun _ _ => True) (fun _ => True) False) ∧
      (∀ g' ∈ Prod.d12Cfg.env, g'.All (LocErr Prod.d12Cfg (fun _ _ => True) (fun _ => True) False)) ∧
      wfAuto Prod.d12Env (G.sentence Prod.d12Root) = true ∧
      parse Prod.d12Cfg 40 (G.sentence Prod.d12Root) = some r ∧ r.err = some e ∧
      e = ⟨2, .notFound (tokOf "y")⟩ ∧ termFailPositions r.st.log = [] ∧ maxTermFail r.st.log < e.pos ∧
      r.msg = some (tokOf "failed to parse the input: was expecting y at f:1:2") := by
  have hev : (parse Prod.d12Cfg 40 (G.sentence Prod.d12Root)).map (fun r => (r.err, termFailPositions r.st.log, r.msg)) =
      some (some ⟨2, .notFound (tokOf "y")⟩, [],
        some (tokOf "failed to parse the input: was expecting y at f:1:2")) := by
    decide +kernel
  cases hp : parse Prod.d12Cfg 40 (G.sentence Prod.d12Root) with
  | none => rw [hp] at hev; cases hev
  | some r =>
    rw [hp] at hev
    simp only [Option.map_some, Option.some.injEq, Prod.mk.injEq] at hev
    obtain ⟨h1, h2, h3⟩ := hev
    have hmax : maxTermFail r.st.log = 0 := by simp [maxTermFail, h2]
    exact ⟨r, _, Prod.d12_scope, Prod.d12_loc.1, Prod.d12_loc.2, by decide, rfl, h1, rfl, h2, by rw [hmax]; decide, h3⟩

/-- **D12 has no certificate**: the operand of Optional would have to be productive below the rank of the
    active `P` itself (`rrank 0 ≤ prank 0`), while the rule needs `prank 0 < rrank 0`. -/
theorem c06_d12_not_productive (c : ProdCert) : Prod.productive c Prod.d12Env Prod.d12Root = false := by
  cases h : Prod.productive c Prod.d12Env Prod.d12Root with
  | false => rfl
  | true =>
    exfalso
    obtain ⟨h1, h2⟩ := Prod.productive_rules h 0 (.memo 0 (.optional (.name (.ref 0) [120]))) rfl
    simp only [Prod.pr, Bool.and_eq_true, decide_eq_true_eq] at h2
    simp only [Prod.ok, Prod.pr, Prod.minRank, Bool.and_eq_true] at h1
    have h3 : c.rrank 0 ≤ min (c.prank 0) (Prod.minRank c (c.live 0)) := of_decide_eq_true h1.2.2
    have := Nat.le_trans h3 (Nat.min_le_left _ _)
    omega

theorem c06_d12_not_productive_auto : Prod.productiveAuto Prod.d12Env Prod.d12Root = false :=
  c06_d12_not_productive _

/-! ### non-vacuity -/

/-- `P → (P b | a).Name("P")` (Props/C06.lean `nv6nEnv`): C02's certificate and a productivity certificate,
    given by tables and computed -/
def Prod.nv6nProd : ProdCert := Prod.certOf (autoCert nv6nEnv (.ref 0)) [0] [1] [[0]] 2

theorem Prod.nv6n_productive :
    wf Prod.nv6nProd.wf nv6nEnv (.ref 0) = true ∧ Prod.productive Prod.nv6nProd nv6nEnv (.ref 0) = true ∧
    wfAuto nv6nEnv (.ref 0) = true ∧ Prod.productiveAuto nv6nEnv (.ref 0) = true := by decide

theorem Prod.nv6n_c02scope : C02Scope nv6nCfg (.ref 0) := by
  refine ⟨by simp [G.Core], ?_, rfl⟩
  intro g' hg'
  have hg2 : g' = .memo 0 (.name (.any [.seq .seqOf [.ref 0, c6b] {}, c6a]) [80]) := by
    simpa [nv6nCfg, c6Cfg, nv6nEnv] using hg'
  subst hg2
  simp only [G.Core, CoreList, c6a, c6b, and_true, true_and]
  exact ⟨termOK_rune _ _ _, termOK_rune _ _ _⟩

/-- the theorems apply to it: the parse of "abc" fails, and the reported position is exactly the furthest
    failing terminal (here without evaluating the parse) -/
example (r : ParseOut) (e : Err) (h : parse nv6nCfg 40 (G.sentence (.ref 0)) = some r) (he : r.err = some e) :
    e.pos ≤ maxTermFail r.st.log ∧ ∃ q, e.pos ≤ q ∧ TFat r.st.log q :=
  c06_upper_productive Prod.nv6nProd nv6nCfg rfl (.ref 0) Prod.nv6n_c02scope Prod.nv6n_productive.1 Prod.nv6n_productive.2.1
    nv6n_loc.1 nv6n_loc.2 40 r e h he

/-- exactness, for every fuel, without evaluating anything (and although `P` IS curtailed at the start) -/
example (fuel : Nat) (r : ParseOut) (e : Err) (h : parse nv6nCfg fuel (G.sentence (.ref 0)) = some r)
    (he : r.err = some e) (hws : e.kind.isWs = false) : e.pos = maxTermFail r.st.log ∧ TFat r.st.log e.pos :=
  c06_exact_productive Prod.nv6nProd nv6nCfg rfl (.ref 0) Prod.nv6n_c02scope Prod.nv6n_productive.1 Prod.nv6n_productive.2.1
    nv6n_loc.1 nv6n_loc.2 nv6n_low.1 nv6n_low.2 fuel r e h he hws

/-- and with fuel 40 on "abc": "was expecting the end of input" at offset 2, the furthest failing terminal -/
example (r : ParseOut) (e : Err) (h : parse nv6nCfg 40 (G.sentence (.ref 0)) = some r) (he : r.err = some e) :
    e.pos = maxTermFail r.st.log ∧ TFat r.st.log e.pos ∧ e = ⟨3, .other endErrMsg⟩ := by
  have hev : (parse nv6nCfg 40 (G.sentence (.ref 0))).map (fun r => r.err) = some (some ⟨3, .other endErrMsg⟩) := by
    decide +kernel
  rw [h] at hev
  simp only [Option.map_some, Option.some.injEq] at hev
  rw [he] at hev
  simp only [Option.some.injEq] at hev
  have := c06_exact_productive Prod.nv6nProd nv6nCfg rfl (.ref 0) Prod.nv6n_c02scope Prod.nv6n_productive.1
    Prod.nv6n_productive.2.1 nv6n_loc.1 nv6n_loc.2 nv6n_low.1 nv6n_low.2 40 r e h he (by rw [hev]; rfl)
  exact ⟨this.1, this.2, hev⟩

/-- the left-recursive arithmetic grammar with a Name on every rule (no trims: outside C06's domain):
    `E → (E '+' T | T).Name("E")`, `T → (T '*' F | F).Name("T")`, `F → ('(' E ')' | '1').Name("F")` -/
def Prod.c6r (ch : Nat) : G := .term (.rune ch [34, ch, 34])
def Prod.arithNEnv : List G :=
  [.memo 0 (.name (.any [.seq .seqOf [.ref 0, Prod.c6r 43, .ref 1] {}, .ref 1]) [69]),
   .memo 1 (.name (.any [.seq .seqOf [.ref 1, Prod.c6r 42, .ref 2] {}, .ref 2]) [84]),
   .memo 2 (.name (.any [.seq .seqOf [Prod.c6r 40, .ref 0, Prod.c6r 41] {}, Prod.c6r 49]) [70])]
/-- ranks F = 0 < T = 1 < E = 2; when `E` is entered `E` may be active, when `T` is entered `E`, `T`; when `F`
    is entered `E`, `T` (never `F`: its recursion is guarded by '(') -/
def Prod.arithNProd : ProdCert :=
  Prod.certOf (autoCert Prod.arithNEnv (.ref 0)) [2, 1, 0] [3, 2, 1] [[0], [0, 1], [0, 1]] 4

theorem Prod.arithN_productive :
    wf Prod.arithNProd.wf Prod.arithNEnv (.ref 0) = true ∧ Prod.productive Prod.arithNProd Prod.arithNEnv (.ref 0) = true ∧
    wfAuto Prod.arithNEnv (.ref 0) = true ∧ Prod.productiveAuto Prod.arithNEnv (.ref 0) = true := by decide +kernel

/-- input "1+*1" -/
def Prod.arithNCfg : Cfg := c6Cfg Prod.arithNEnv [49, 43, 42, 49]

theorem Prod.arithN_c02scope : C02Scope Prod.arithNCfg (.ref 0) := by
  refine ⟨by simp [G.Core], ?_, rfl⟩
  intro g' hg'
  have hg2 : g' = .memo 0 (.name (.any [.seq .seqOf [.ref 0, Prod.c6r 43, .ref 1] {}, .ref 1]) [69]) ∨
      g' = .memo 1 (.name (.any [.seq .seqOf [.ref 1, Prod.c6r 42, .ref 2] {}, .ref 2]) [84]) ∨
      g' = .memo 2 (.name (.any [.seq .seqOf [Prod.c6r 40, .ref 0, Prod.c6r 41] {}, Prod.c6r 49]) [70]) := by
    simpa [Prod.arithNCfg, c6Cfg, Prod.arithNEnv] using hg'
  rcases hg2 with rfl | rfl | rfl
  · simp only [G.Core, CoreList, Prod.c6r, and_true, true_and]; exact termOK_rune _ _ _
  · simp only [G.Core, CoreList, Prod.c6r, and_true, true_and]; exact termOK_rune _ _ _
  · simp only [G.Core, CoreList, Prod.c6r, and_true, true_and]
    exact ⟨⟨termOK_rune _ _ _, termOK_rune _ _ _⟩, termOK_rune _ _ _⟩

theorem Prod.arithN_loc : (G.ref 0).All (Prod.LocP Prod.arithNCfg) ∧ ∀ g' ∈ Prod.arithNCfg.env, g'.All (Prod.LocP Prod.arithNCfg) := by
  have hr : ∀ k, k < 3 → LocErr Prod.arithNCfg (fun _ _ => True) (fun _ => True) False (.ref k) := by
    intro k hk h
    have : Prod.arithNCfg.env.length = 3 := rfl
    rw [List.getElem?_eq_none_iff] at h
    omega
  refine ⟨hr 0 (by decide), ?_⟩
  intro g' hg'
  have hg2 : g' = .memo 0 (.name (.any [.seq .seqOf [.ref 0, Prod.c6r 43, .ref 1] {}, .ref 1]) [69]) ∨
      g' = .memo 1 (.name (.any [.seq .seqOf [.ref 1, Prod.c6r 42, .ref 2] {}, .ref 2]) [84]) ∨
      g' = .memo 2 (.name (.any [.seq .seqOf [Prod.c6r 40, .ref 0, Prod.c6r 41] {}, Prod.c6r 49]) [70]) := by
    simpa [Prod.arithNCfg, c6Cfg, Prod.arithNEnv] using hg'
  rcases hg2 with rfl | rfl | rfl
  · simp only [G.All, AllList, and_true, Prod.c6r]
    exact ⟨(by simp [LocErr]), (by simp [LocErr]), (by simp [LocErr]),
      ⟨(by simp [LocErr]), hr 0 (by decide), locErr_rune _ _ _ _ _, hr 1 (by decide)⟩, hr 1 (by decide)⟩
  · simp only [G.All, AllList, and_true, Prod.c6r]
    exact ⟨(by simp [LocErr]), (by simp [LocErr]), (by simp [LocErr]),
      ⟨(by simp [LocErr]), hr 1 (by decide), locErr_rune _ _ _ _ _, hr 2 (by decide)⟩, hr 2 (by decide)⟩
  · simp only [G.All, AllList, and_true, Prod.c6r]
    exact ⟨(by simp [LocErr]), (by simp [LocErr]), (by simp [LocErr]),
      ⟨(by simp [LocErr]), locErr_rune _ _ _ _ _, hr 0 (by decide), locErr_rune _ _ _ _ _⟩, locErr_rune _ _ _ _ _⟩

/-- `c06_upper_productive` applies to the named arithmetic grammar, for every fuel -/
example (fuel : Nat) (r : ParseOut) (e : Err) (h : parse Prod.arithNCfg fuel (G.sentence (.ref 0)) = some r)
    (he : r.err = some e) : e.pos ≤ maxTermFail r.st.log ∧ ∃ q, e.pos ≤ q ∧ TFat r.st.log q :=
  c06_upper_productive Prod.arithNProd Prod.arithNCfg rfl (.ref 0) Prod.arithN_c02scope Prod.arithN_productive.1 Prod.arithN_productive.2.1
    Prod.arithN_loc.1 Prod.arithN_loc.2 fuel r e h he

theorem Prod.arithN_low : (G.ref 0).All (LocLow Prod.arithNCfg) ∧ ∀ g' ∈ Prod.arithNCfg.env, g'.All (LocLow Prod.arithNCfg) := by
  refine ⟨trivial, ?_⟩
  intro g' hg'
  have hg2 : g' = .memo 0 (.name (.any [.seq .seqOf [.ref 0, Prod.c6r 43, .ref 1] {}, .ref 1]) [69]) ∨
      g' = .memo 1 (.name (.any [.seq .seqOf [.ref 1, Prod.c6r 42, .ref 2] {}, .ref 2]) [84]) ∨
      g' = .memo 2 (.name (.any [.seq .seqOf [Prod.c6r 40, .ref 0, Prod.c6r 41] {}, Prod.c6r 49]) [70]) := by
    simpa [Prod.arithNCfg, c6Cfg, Prod.arithNEnv] using hg'
  rcases hg2 with rfl | rfl | rfl
  · simp only [G.All, AllList, and_true, Prod.c6r]
    exact ⟨trivial, trivial, (by simp [LocLow]), ⟨(by simp [LocLow]), trivial, locLow_rune _ _ _ (by decide), trivial⟩,
      trivial⟩
  · simp only [G.All, AllList, and_true, Prod.c6r]
    exact ⟨trivial, trivial, (by simp [LocLow]), ⟨(by simp [LocLow]), trivial, locLow_rune _ _ _ (by decide), trivial⟩,
      trivial⟩
  · simp only [G.All, AllList, and_true, Prod.c6r]
    exact ⟨trivial, trivial, (by simp [LocLow]),
      ⟨(by simp [LocLow]), locLow_rune _ _ _ (by decide), trivial, locLow_rune _ _ _ (by decide)⟩,
      locLow_rune _ _ _ (by decide)⟩

/-- `c06_exact_productive` applies to the named arithmetic grammar, for every fuel: the reported position is
    exactly the furthest failing terminal (nested left recursion, three memoized nonterminals, curtailment
    at every operand position) -/
example (fuel : Nat) (r : ParseOut) (e : Err) (h : parse Prod.arithNCfg fuel (G.sentence (.ref 0)) = some r)
    (he : r.err = some e) (hws : e.kind.isWs = false) : e.pos = maxTermFail r.st.log ∧ TFat r.st.log e.pos :=
  c06_exact_productive Prod.arithNProd Prod.arithNCfg rfl (.ref 0) Prod.arithN_c02scope Prod.arithN_productive.1 Prod.arithN_productive.2.1
    Prod.arithN_loc.1 Prod.arithN_loc.2 Prod.arithN_low.1 Prod.arithN_low.2 fuel r e h he hws

/-- and there is such a parse for every large enough fuel (C02).  On "1+*1" the model reports "was expecting T"
    at offset 2 (global position 3), where '1' and '(' were tried and failed: `#eval` in Audit/C06P.lean (the
    kernel cannot evaluate runs with two different Memoize indexes in one set of curtailing parsers:
    `cpUnion` is defined by well-founded recursion). -/
example : ∃ F, ∀ fuel, F ≤ fuel → (parse Prod.arithNCfg fuel (G.sentence (.ref 0))).isSome = true :=
  c02_terminates_parse Prod.arithNProd.wf Prod.arithNCfg (G.sentence (.ref 0)) (by decide +kernel)
    ⟨by simp [G.sentence, G.Core, CoreList], Prod.arithN_c02scope.env, rfl⟩

/-- a grammar in which the D8 SHAPE occurs and is reported — and is harmless.
    `P → a | (P b).Name("x")`, memoized, on "b": the innermost `P` is curtailed, the body `P b` of the Name
    returns neither result nor error (`PureFail`), Parse reports the Name's "was expecting x" at offset 0 —
    where the terminal `a` was tried and failed, as the certificate guarantees. -/
def Prod.pfEnv : List G := [.memo 0 (.any [c6a, .name (.seq .seqOf [.ref 0, c6b] {}) [120]])]
def Prod.pfCfg : Cfg := c6Cfg Prod.pfEnv [98]

theorem Prod.pf_productive : wfAuto Prod.pfEnv (.ref 0) = true ∧ Prod.productiveAuto Prod.pfEnv (.ref 0) = true := by decide

theorem Prod.pf_c02scope : C02Scope Prod.pfCfg (.ref 0) := by
  refine ⟨by simp [G.Core], ?_, rfl⟩
  intro g' hg'
  have hg2 : g' = .memo 0 (.any [c6a, .name (.seq .seqOf [.ref 0, c6b] {}) [120]]) := by
    simpa [Prod.pfCfg, c6Cfg, Prod.pfEnv] using hg'
  subst hg2
  simp only [G.Core, CoreList, c6a, c6b, and_true, true_and]
  exact ⟨termOK_rune _ _ _, termOK_rune _ _ _⟩

theorem Prod.pf_loc : (G.ref 0).All (Prod.LocP Prod.pfCfg) ∧ ∀ g' ∈ Prod.pfCfg.env, g'.All (Prod.LocP Prod.pfCfg) := by
  have hr0 : LocErr Prod.pfCfg (fun _ _ => True) (fun _ => True) False (.ref 0) := by
    intro h; cases h
  refine ⟨hr0, ?_⟩
  intro g' hg'
  have hg2 : g' = .memo 0 (.any [c6a, .name (.seq .seqOf [.ref 0, c6b] {}) [120]]) := by
    simpa [Prod.pfCfg, c6Cfg, Prod.pfEnv] using hg'
  subst hg2
  simp only [G.All, AllList, and_true, c6a, c6b]
  exact ⟨(by simp [LocErr]), (by simp [LocErr]), locErr_rune _ _ _ _ _, (by simp [LocErr]), (by simp [LocErr]), hr0,
    locErr_rune _ _ _ _ _⟩

theorem Prod.pf_low : (G.ref 0).All (LocLow Prod.pfCfg) ∧ ∀ g' ∈ Prod.pfCfg.env, g'.All (LocLow Prod.pfCfg) := by
  refine ⟨trivial, ?_⟩
  intro g' hg'
  have hg2 : g' = .memo 0 (.any [c6a, .name (.seq .seqOf [.ref 0, c6b] {}) [120]]) := by
    simpa [Prod.pfCfg, c6Cfg, Prod.pfEnv] using hg'
  subst hg2
  simp only [G.All, AllList, and_true, c6a, c6b]
  exact ⟨trivial, (by simp [LocLow]), locLow_rune _ _ _ (by decide), trivial, (by simp [LocLow]), trivial,
    locLow_rune _ _ _ (by decide)⟩

example (r : ParseOut) (e : Err) (h : parse Prod.pfCfg 40 (G.sentence (.ref 0)) = some r) (he : r.err = some e) :
    e = ⟨1, .notFound (tokOf "x")⟩ ∧ curtailPositions r.st.log = [1] ∧ maxTermFail r.st.log = 1 ∧
    e.pos ≤ maxTermFail r.st.log ∧ ∃ q, e.pos ≤ q ∧ TFat r.st.log q := by
  have hev : (parse Prod.pfCfg 40 (G.sentence (.ref 0))).map
      (fun r => (r.err, curtailPositions r.st.log, maxTermFail r.st.log)) =
      some (some ⟨1, .notFound (tokOf "x")⟩, [1], 1) := by decide +kernel
  rw [h] at hev
  simp only [Option.map_some, Option.some.injEq, Prod.mk.injEq] at hev
  obtain ⟨h1, h2, h3⟩ := hev
  rw [he] at h1
  simp only [Option.some.injEq] at h1
  have := c06_upper_productive_auto Prod.pfCfg rfl (.ref 0) Prod.pf_c02scope Prod.pf_productive.1 Prod.pf_productive.2
    Prod.pf_loc.1 Prod.pf_loc.2 40 r e h he
  exact ⟨h1, h2, h3, this.1, this.2⟩

/-- and exactness, for every fuel -/
example (fuel : Nat) (r : ParseOut) (e : Err) (h : parse Prod.pfCfg fuel (G.sentence (.ref 0)) = some r)
    (he : r.err = some e) (hws : e.kind.isWs = false) : e.pos = maxTermFail r.st.log ∧ TFat r.st.log e.pos :=
  c06_exact_productive_auto Prod.pfCfg rfl (.ref 0) Prod.pf_c02scope Prod.pf_productive.1 Prod.pf_productive.2
    Prod.pf_loc.1 Prod.pf_loc.2 Prod.pf_low.1 Prod.pf_low.2 fuel r e h he hws

end PV
