/-
  C06Q — the error-RENDERING path, about the function TRANSLATED from the Go source:
  `(*parsley.FileSet).ErrorWithPosition` (parsley/file_set.go), the function `parsley.Parse` hands its chosen error to
  (model: `PV.errorWithPosition`, Model/Run.lean; C06 is about WHICH error and position are chosen, this file about how
  the chosen error becomes the text the caller sees).

  `factgen -out-prog` translates `ErrorWithPosition` and `nilPosition.String` statement by statement
  (Generated/FactsProg.lean, regenerated on every run; translator side harness/cmd/factgen/progerr.go; run-time
  Generated/ProgPrelude.lean, section "error values").  What the translation ASSUMES (trusted base, stated in the
  prelude's header):
    * an error value is observed only through its pure methods: the parameter `err Error` is the record
      `Go.mkErr tag pos text` and `err.Pos()` / `err.Error()` are its components;
    * fmt.Errorf(format, args…).Error() = fmt.Sprintf(format, args…) (`Go.errorf`);
    * `pos == NilPosition` is the comparison of dynamic type and value (`Obj.isInt`);
    * `pos.String()` is dispatched on the dynamic type to the TRANSLATED `text.Position.String` / `nilPosition.String`.
  What is PROVED: on every translated file set that shows a model file set (`FSRel`, the relation of C11P — in particular
  the set the translated `NewFileSet` returns, `c11p_newFileSet`), for every model error `e` and every record that stands
  for it (`errObj tag e`, any dynamic type), the translated function returns an error whose `Error()` is, byte for byte,
  the model's `errorWithPosition fs e`; it returns the argument itself exactly when the model's position is unknown;
  the set stays related and nothing that existed is written.  The statements mention the function's input/output
  behaviour only.
-/
import ParsleyVerif.Props.C11P
import ParsleyVerif.Model.Run
namespace PV.TxtTie
open PV.ProgPrelude PV.FactsProg PV.ProgTie

def c06qFunctions : List String := ["FileSet_ErrorWithPosition", "nilPosition_String", "FileSet_Position", "Position_String"]

/-- the record that stands for the model's error value `e`, of whatever dynamic type `tag` -/
def errObj (tag : String) (e : Err) : Obj := Go.mkErr tag (e.pos : Int) (ints e.kind.msg)

theorem byteArray_toList_loop (bs : ByteArray) (n : Nat) : ∀ (i : Nat) (r : List UInt8), n = bs.size - i → i ≤ bs.size →
    ByteArray.toList.loop bs i r = r.reverse ++ bs.data.toList.drop i := by
  have hs : bs.size = bs.data.toList.length := by rw [Array.length_toList]; rfl
  induction n with
  | zero =>
    intro i r hn hi
    have : i = bs.size := by omega
    unfold ByteArray.toList.loop
    simp [this]
  | succ n ih =>
    intro i r hn hi
    have hlt : i < bs.size := by omega
    unfold ByteArray.toList.loop
    simp only [hlt, ↓reduceIte]
    rw [ih (i + 1) _ (by omega) (by omega)]
    have hd : bs.data.toList.drop i = bs.data.toList[i]'(by omega) :: bs.data.toList.drop (i + 1) :=
      List.drop_eq_getElem_cons (by omega)
    rw [hd]
    have hg : bs.get! i = bs.data.toList[i]'(by omega) := by
      simp [ByteArray.get!, hlt]
    simp [hg]

theorem byteArray_toList (bs : ByteArray) : bs.toList = bs.data.toList := by
  simp [ByteArray.toList, byteArray_toList_loop bs (bs.size) 0 [] rfl (Nat.zero_le _)]

/-- the bytes of a string constant of the translation are the model's `tokOf` -/
theorem lit_tokOf (s : String) : Go.lit s = ints (tokOf s) := by
  simp [Go.lit, tokOf, ints, byteArray_toList, List.map_map]

/-- `Error()` of a record that stands for `e` is `e`'s message -/
theorem errObj_text (tag : String) (e : Err) (st : ProgPrelude.St) :
    Go.errText (errObj tag e) st = .ok (ints e.kind.msg) st := rfl

theorem errObj_pos (tag : String) (e : Err) (st : ProgPrelude.St) :
    Go.errPos (errObj tag e) st = .ok (e.pos : Int) st := rfl

/-- **The tie.**  The translated `ErrorWithPosition` on a set that shows `fs`, given a record of the model error `e`:
    a panic exactly when the model's `position` panics (never on a set made by `NewFileSet`: `c06q_errorWithPosition`);
    otherwise an error value whose `Error()` is the model's `errorWithPosition fs e`, the argument itself when the
    position is unknown. -/
theorem c06q_translated_functions :
    c06qFunctions.all (fun f => FactsProg.translatedProg.contains f) = true ∧
    (∀ (st : ProgPrelude.St) (FS : FactsProg.FileSet) (fs : Text.FileSet) (tag : String) (e : Err), FSRel st FS fs →
      (fs.position e.pos = .panic → FileSet_ErrorWithPosition FS (errObj tag e) st = .panic) ∧
      (fs.position e.pos ≠ .panic → ∃ (FS' : FactsProg.FileSet) (o : Obj) (st' : ProgPrelude.St),
        FileSet_ErrorWithPosition FS (errObj tag e) st = .ok (FS', o) st' ∧
        Go.errText o st' = .ok (ints (errorWithPosition fs e)) st' ∧
        (fs.position e.pos = .unknown → o = errObj tag e) ∧
        FSRel st' FS' fs ∧ Keeps st.arrays.length st st')) ∧
    (∀ (st : ProgPrelude.St) (i : Int), nilPosition_String i st = .ok (Go.lit (Text.PosResult.render .unknown)) st) := by
  refine ⟨by decide, ?_, fun st i => rfl⟩
  intro st FS fs tag e r
  have hP := tie_FSPosition st FS fs r e.pos
  unfold FactsProg.FileSet_ErrorWithPosition
  simp only [bind_apply, errObj_pos]
  constructor
  · intro hp
    rw [hP.1 hp]
  · intro hp
    obtain ⟨FS', st', eq, r', k⟩ := hP.2 hp
    rw [eq]
    simp only [errorWithPosition]
    cases hpos : fs.position e.pos with
    | panic => exact absurd hpos hp
    | unknown =>
      refine ⟨FS', errObj tag e, st', ?_, errObj_text tag e st', fun _ => rfl, r', k⟩
      simp [posObj, Obj.isInt]
    | at_ name l c =>
      refine ⟨FS', Go.errorf (ints e.kind.msg ++ Go.lit " at " ++ Go.lit (Text.PosResult.render (.at_ name l c))), st', ?_, ?_,
        (fun h => by cases h), r', k⟩
      · simp [posObj, Obj.isInt, errObj_text, tie_PositionString, Go.sprintf, Fmt.out]
      · simp only [Go.errorf, Go.mkErr, Go.errText, pure_apply, ints_append, lit_tokOf]

/-- **about the translated code, on a set built by `NewFileSet`**: no panic for any error at all, and the text is the
    model's -/
theorem c06q_errorWithPosition (st : ProgPrelude.St) (FS : FactsProg.FileSet) (files : List Text.File)
    (r : FSRel st FS (Text.buildFS files)) (tag : String) (e : Err) :
    ∃ (FS' : FactsProg.FileSet) (o : Obj) (st' : ProgPrelude.St),
      FileSet_ErrorWithPosition FS (errObj tag e) st = .ok (FS', o) st' ∧
      Go.errText o st' = .ok (ints (errorWithPosition (Text.buildFS files) e)) st' ∧
      FSRel st' FS' (Text.buildFS files) ∧ Keeps st.arrays.length st st' := by
  obtain ⟨FS', o, st', a, b, _, c, d⟩ := (c06q_translated_functions.2.1 st FS _ tag e r).2 (Text.c11_nopanic files e.pos)
  exact ⟨FS', o, st', a, b, c, d⟩

/-- the shape of the text: the message alone for position 0 and every position from the set's end on, otherwise the
    message, " at ", and the rendered position -/
theorem c06q_text_shape (files : List Text.File) (e : Err) :
    (e.pos = 0 ∨ (Text.buildFS files).pos ≤ e.pos → errorWithPosition (Text.buildFS files) e = e.kind.msg) ∧
    (¬ (e.pos = 0 ∨ (Text.buildFS files).pos ≤ e.pos) →
      errorWithPosition (Text.buildFS files) e =
        e.kind.msg ++ tokOf " at " ++ tokOf ((Text.buildFS files).position e.pos).render) := by
  have hu := Text.c11_unknown files e.pos
  constructor
  · intro h
    simp only [errorWithPosition, hu.mpr h]
  · intro h
    have : (Text.buildFS files).position e.pos ≠ .unknown := fun x => h (hu.mp x)
    simp only [errorWithPosition]

/-! ### the error values of parsley/error.go, translated

  `NotFoundError.Error`, `whitespaceError.Error`, `err.Error`, `err.Pos`, `err.Cause` are translated too (a value of the
  named string types is its bytes; `err` is the structure of its two fields, `e.cause.Error()` is the observation
  `Go.errText`).  NOT translated: `NewWhitespaceError` (listed in `FactsProg.untranslatedProg`: a byte string stored in an
  interface), `NewError` (its type switch is outside the subset; the reader's translation keeps it as an opaque
  constructor), `NewErrorf` (variadic), `IsNotFoundError` / `IsWhitespaceError` (errors.As). -/

def c06qErrorFunctions : List String :=
  ["NotFoundError_Error", "whitespaceError_Error", "err_Error", "err_Pos", "err_Cause"]

/-- **the message texts, about the translated code**: `NotFoundError(n).Error()` is the model's message of `.notFound n`,
    `whitespaceError(w).Error()` is `w` (the model's message of `.ws e` for the bytes of `e.msg`), an `err` value answers
    its cause's text, its position and its cause -/
theorem c06q_error_values :
    c06qErrorFunctions.all (fun f => FactsProg.translatedProg.contains f) = true ∧
    (∀ (st : ProgPrelude.St) (n : List Nat),
      NotFoundError_Error (ints n) st = .ok (ints (ErrKind.msg (.notFound n))) st) ∧
    (∀ (st : ProgPrelude.St) (w : Text.WsErr),
      whitespaceError_Error (ints (tokOf w.msg)) st = .ok (ints (ErrKind.msg (.ws w))) st) ∧
    (∀ (st : ProgPrelude.St) (tag : String) (e : Err) (p : Int),
      err_Error { cause := errObj tag e, pos := p } st = .ok (ints e.kind.msg) st ∧
      err_Pos { cause := errObj tag e, pos := p } st = .ok p st) ∧
    (∀ (st : ProgPrelude.St) (c : Obj) (p : Int), ∃ o, err_Cause { cause := c, pos := p } st = .ok o st ∧
      Go.errText o = Go.errText c ∧ Go.errPos o = Go.errPos c) := by
  refine ⟨by decide, fun st n => ?_, fun st w => rfl, fun st tag e p => ⟨rfl, rfl⟩, fun st c p => ⟨c, rfl, rfl, rfl⟩⟩
  simp only [NotFoundError_Error, pure_apply, Go.sprintf, Fmt.out, ErrKind.msg, ints_append, lit_tokOf, List.flatMap_cons,
    List.flatMap_nil, List.append_nil]

/-- the two ends together: the text of a translated not-found error, sent through the translated `ErrorWithPosition` -/
theorem c06q_notFound_rendered (st : ProgPrelude.St) (FS : FactsProg.FileSet) (files : List Text.File)
    (r : FSRel st FS (Text.buildFS files)) (p : Nat) (n : List Nat) :
    ∃ (t : Str) (FS' : FactsProg.FileSet) (o : Obj) (st' : ProgPrelude.St),
      NotFoundError_Error (ints n) st = .ok t st ∧
      FileSet_ErrorWithPosition FS (Go.mkErr "parsley.err" p t) st = .ok (FS', o) st' ∧
      Go.errText o st' = .ok (ints (errorWithPosition (Text.buildFS files) ⟨p, .notFound n⟩)) st' := by
  obtain ⟨FS', o, st', a, b, _⟩ := c06q_errorWithPosition st FS files r "parsley.err" ⟨p, .notFound n⟩
  exact ⟨ints (ErrKind.msg (.notFound n)), FS', o, st', c06q_error_values.2.1 st n, a, b⟩

/-! non-vacuity: the two files of `c11p_example`; the translated NewFileSet, then ErrorWithPosition of the error "bad"
    at global position 3 (line 2, column 1 of "x") and at position 0, evaluated by the kernel -/

def c06qRun (e : Err) : Option (List Int) :=
  match NewFileSet [c11pF1, c11pF2] c11pSt with
  | .ok FS st =>
    (match FileSet_ErrorWithPosition FS (errObj "parsley.err" e) st with
     | .ok (_, o) st' => (match Go.errText o st' with | .ok t _ => some t | _ => none)
     | _ => none)
  | _ => none

theorem c06q_example :
    c06qRun ⟨3, .other [98, 97, 100]⟩ = some (Go.lit "bad at x:2:1") ∧
    c06qRun ⟨0, .other [98, 97, 100]⟩ = some (Go.lit "bad") ∧
    c06qRun ⟨7, .other [98, 97, 100]⟩ = some [98, 97, 100] := by
  decide

end PV.TxtTie
