/-
  C02 — Every memoized grammar terminates with bounded re-entry per position:
  the termination theorem of Props/C02T.lean WITHOUT its two limits.

  Props/C02T.lean proves termination for grammars accepted by the decidable certificate `wf` (Spec/WF.lean)
  (a) without the whitespace trims and (b) over terminals that consume whenever they succeed, shown for Rune
  and non-empty Op only.  Here:

  * the certificate is `wfT rx cert env root` (Spec/WFTrim.lean) = `wf` with terminals no longer assumed to
    consume: a Regexp with expression id `i` may be empty iff `rx i`; NO other terminal may be empty.
    `wfT rxNone = wf` on every grammar (`c02u_agrees_wf`).  The trims are treated as `wf` treats them
    syntactically (LeftTrim(p) / RightTrim(p) may be empty iff p may; their left references are p's) and this
    is proved SOUND for the model as it is: LeftTrim passes the left-recursion context on UNCHANGED to the
    position after the whitespace (Model/Run.lean, case `ltrim` — it is not reset when whitespace was skipped);
  * `c02u_terminates` / `_parse` / `_auto`: for EVERY configuration (any file, file set, ParseFloat, ParseDuration),
    EVERY grammar over the whole combinator set with `wfT … = true`, every input and every state a parse can be
    in there is a fuel from which on `run` / `parse` answers.  Hypotheses besides the check: the driver's work
    budget is off, and `RxSound rx cfg.params` — the regexp engine never reports an empty match for an expression
    the certificate declares non-nullable; with `rx := rxAll` (every Regexp may be empty) that hypothesis is
    void (`c02u_terminates_any_engine`);
  * `c02u_terminal_consumes` (item 1): every built-in terminal other than Regexp — Rune, Op, Word, Bool, Nil,
    Integer, Float, String, Char, TimeDuration — consumes at least one byte whenever it returns a node, for ALL
    construction parameters (`c02u_termCons`: they are `TermCons`).  The terminals that CAN succeed without
    consuming are exactly the Regexp terminals (`c02u_regexp_can_be_empty`); the empty Op / Word / Bool / Nil
    word never returns a node at all — it is the documented panic of MatchString / MatchWord
    (`c02u_empty_word_never_matches`) —, so nothing is lost by treating them as consuming;
  * `c02u_reentry` / `c02u_balanced`: the re-entry bound of Props/C02.lean (`c02_reentry` is stated for trim-free
    grammars over `TermGood` terminals) for EVERY grammar, trims and all terminals included, no hypothesis;
  * instances: `wfT` accepts the JSON grammar `Gjson` and the arithmetic grammar `Garith` (`decide`), hence
    `c02u_json_terminates` (NEW: C16V only has termination on well-formed documents) and `c02u_arith_terminates`
    on EVERY input.

  No grammar shape with trims was found on which the model diverges although the certificate of its
  trim-erased form passes: the certificate of a grammar and of its trim-erased form coincide, and the theorem
  holds for both.
-/
import ParsleyVerif.Proofs.WFTCheck
import ParsleyVerif.Spec.Json
import ParsleyVerif.Spec.Arith
namespace PV
open PV.Text PV.WFT

/-! ### the certificate -/

/-- with no Regexp declared nullable the extended certificate IS `wf` (Spec/WF.lean), on every grammar -/
theorem c02u_agrees_wf (cert : WFCert) (env : List G) (root : G) : wfT rxNone cert env root = wf cert env root :=
  wfT_false cert env root

/-- the check is a boolean function: decidable -/
def c02u_wfT_decidable (rx : Nat → Bool) (cert : WFCert) (env : List G) (g : G) :
    Decidable (wfT rx cert env g = true) := inferInstance

/-! ### item 1: terminals -/

/-- **every built-in terminal**, for all construction parameters, every ParseFloat / ParseDuration answer and every
    regexp engine: a node it returns at a position of the file is a terminal leaf starting at the call position
    and ending inside the file, and — unless the terminal is a Regexp — at least one byte wide -/
theorem c02u_terminal_consumes (cfg : Cfg) (t : Terminal) (pos : Nat) (n : Node) (hin : InFile cfg.file pos)
    (hn : t.parse cfg.params cfg.file pos = .node n) :
    (∃ tok v r, n = .term tok v pos r) ∧ n.pos = pos ∧ pos ≤ n.rpos ∧ n.rpos ≤ cfg.hi ∧
    ((∀ id tok name g, t ≠ .regexp id tok name g) → pos < n.rpos) := by
  obtain ⟨tok, v, r, rfl, h1, h2, h3⟩ := termLeaf_all rxAll cfg (rxSound_all cfg.params) t pos n hin hn
  refine ⟨⟨tok, v, r, rfl⟩, rfl, h1, h2, fun hne => h3 ?_⟩
  cases t with
  | regexp id tok' name g => exact absurd rfl (hne id tok' name g)
  | _ => rfl

/-- … in the vocabulary of Props/C02T.lean: every built-in terminal other than Regexp is `TermCons` -/
theorem c02u_termCons (cfg : Cfg) (t : Terminal) (hne : ∀ id tok name g, t ≠ .regexp id tok name g) :
    TermCons cfg t :=
  fun pos n hin hn => (c02u_terminal_consumes cfg t pos n hin hn).2.2.2.2 hne

/-- a Regexp is `TermCons` exactly under the claim about its expression -/
theorem c02u_termCons_regexp (cfg : Cfg) (id : Nat) (tok name : Bytes) (g : Bool)
    (h : ∀ r m gv, r ≠ [] → cfg.params.regexp id r = some (m, gv) → 0 < m) :
    TermCons cfg (.regexp id tok name g) := by
  intro pos n hin hn
  have hrx : RxSound (fun i => decide (i ≠ id)) cfg.params := by
    intro i r m gv hi hr hp
    have : i = id := by simpa using hi
    subst this
    exact h r m gv hr hp
  obtain ⟨_, _, r, rfl, _, _, h3⟩ := termLeaf_all _ cfg hrx (.regexp id tok name g) pos n hin hn
  exact h3 (by simp [termNullable])

/-- the terminals that CAN succeed without consuming are the Regexp terminals: an engine that reports an empty
    match (e.g. `\b`, `a*`) yields a node of width 0 (C08, `c08_regexp_empty_match`) -/
theorem c02u_regexp_can_be_empty :
    let P : Params := { floatOk := fun _ => true, durErr := fun _ => none, regexp := fun _ _ => some (0, none) }
    let f : File := { name := "", data := [97], offset := 1 }
    InFile f 1 ∧ Terminal.parse P f (.regexp 0 [82] [] false) 1 = .node (.term [82] (.str []) 1 1) :=
  ⟨by unfold InFile File.len; decide, rfl⟩

/-- the empty Op / Word / Nil / Bool word never returns a node (MatchString / MatchWord panic on the empty string) -/
theorem c02u_empty_word_never_matches (P : Params) (f : File) (pos : Nat) (n : Node) (name : Bytes) (v : Nat) :
    Terminal.parse P f (.op [] name) pos ≠ .node n ∧ Terminal.parse P f (.word [] v name) pos ≠ .node n ∧
    Terminal.parse P f (.nil []) pos ≠ .node n ∧ Terminal.parse P f (.bool [] []) pos ≠ .node n := by
  simp [Terminal.parse, matchString, matchWord]

/-! ### item 2: termination -/

/-- **C02 termination, trims and all built-in terminals included.**  `GoodT` describes the states a parse can
    be in (it holds of the fresh context — `c02u_initial` — and is preserved by every call — `c02u_preserved`). -/
theorem c02u_terminates (rx : Nat → Bool) (cert : WFCert) (cfg : Cfg) (g : G)
    (hwf : wfT rx cert cfg.env g = true) (hbudget : cfg.maxCalls = 0) (hrx : RxSound rx cfg.params)
    (ctx : Ctx) (pos : Nat) (st : St) (hgood : GoodT cert cfg ctx pos st) :
    ∃ F, ∀ fuel, F ≤ fuel → (run cfg fuel g ctx pos st).isSome = true := by
  obtain ⟨henv, hg⟩ := EnvT_of_wfT rx cert cfg g hwf hbudget hrx
  obtain ⟨F, x, hx⟩ := WFT.halts_all rx cert cfg henv g hg ctx pos st hgood
  refine ⟨F, fun fuel hle => ?_⟩
  rw [run_mono cfg F fuel hle _ _ _ _ _ hx]
  rfl

/-- the fresh context is a state a parse can be in -/
theorem c02u_initial (cert : WFCert) (cfg : Cfg) : GoodT cert cfg [] (cfg.file.pos 0) {} :=
  GoodT_initial cert cfg

/-- the invariant is preserved: the state after any answered call is again a state a parse can be in (at the
    same position and context) -/
theorem c02u_preserved (rx : Nat → Bool) (cert : WFCert) (cfg : Cfg) (g : G)
    (hwf : wfT rx cert cfg.env g = true) (hbudget : cfg.maxCalls = 0) (hrx : RxSound rx cfg.params)
    (fuel : Nat) (ctx : Ctx) (pos : Nat) (st : St) (o : Out) (st' : St)
    (hgood : GoodT cert cfg ctx pos st) (h : run cfg fuel g ctx pos st = some (o, st')) :
    GoodT cert cfg ctx pos st' := by
  obtain ⟨henv, hg⟩ := EnvT_of_wfT rx cert cfg g hwf hbudget hrx
  have hpost := run_T rx cert cfg henv.weak fuel g ctx pos st o st' hg.weak hgood h
  exact ⟨hgood.1, by rw [hpost.active]; exact hgood.2.1, hpost.st⟩

/-- soundness of `mayBeEmptyT`, the semantic half of the certificate — with the trims the results no longer
    START at the call position, but their reader position lies between it and the end of the file, and strictly
    after it for a parser the certificate says cannot be empty -/
theorem c02u_mayBeEmpty_sound (rx : Nat → Bool) (cert : WFCert) (cfg : Cfg) (g : G)
    (hwf : wfT rx cert cfg.env g = true) (hbudget : cfg.maxCalls = 0) (hrx : RxSound rx cfg.params)
    (fuel : Nat) (ctx : Ctx) (pos : Nat) (st : St) (o : Out) (st' : St)
    (hgood : GoodT cert cfg ctx pos st) (h : run cfg fuel g ctx pos st = some (o, st')) :
    ∀ x ∈ o.res.alts, pos ≤ x.rpos ∧ x.rpos ≤ cfg.hi ∧ (mayBeEmptyT rx cert g = false → x.rpos > pos) := by
  obtain ⟨henv, hg⟩ := EnvT_of_wfT rx cert cfg g hwf hbudget hrx
  have hpost := run_T rx cert cfg henv.weak fuel g ctx pos st o st' hg.weak hgood h
  intro x hx
  have hb := (hpost.res x hx).bounds
  have hge := loOf_ge (mayBeEmptyT rx cert g) pos
  refine ⟨by omega, hb.2, fun hne => ?_⟩
  rw [hne] at hb
  have : pos + 1 ≤ x.rpos := hb.1
  omega

/-- **C02 termination of `parsley.Parse`** from a fresh context -/
theorem c02u_terminates_parse (rx : Nat → Bool) (cert : WFCert) (cfg : Cfg) (g : G)
    (hwf : wfT rx cert cfg.env g = true) (hbudget : cfg.maxCalls = 0) (hrx : RxSound rx cfg.params) :
    ∃ F, ∀ fuel, F ≤ fuel → (parse cfg fuel g).isSome = true := by
  obtain ⟨F, hF⟩ := c02u_terminates rx cert cfg g hwf hbudget hrx [] (cfg.file.pos 0) {} (c02u_initial cert cfg)
  refine ⟨F, fun fuel hle => ?_⟩
  have := hF fuel hle
  cases hr : run cfg fuel g [] (cfg.file.pos 0) {} with
  | none => rw [hr] at this; cases this
  | some r =>
    obtain ⟨o, st1⟩ := r
    simp only [parse, hr]
    split <;> rfl

/-- … with every Regexp treated as nullable: NO hypothesis on the regexp engine, on ParseFloat, on ParseDuration,
    on the construction parameters of the terminals, on the file -/
theorem c02u_terminates_any_engine (cert : WFCert) (cfg : Cfg) (g : G)
    (hwf : wfT rxAll cert cfg.env g = true) (hbudget : cfg.maxCalls = 0) :
    ∃ F, ∀ fuel, F ≤ fuel → (parse cfg fuel g).isSome = true :=
  c02u_terminates_parse rxAll cert cfg g hwf hbudget (rxSound_all cfg.params)

/-- … with the certificate COMPUTED (`wfAutoT`: least nullability, longest-path ranks) -/
theorem c02u_terminates_auto (rx : Nat → Bool) (cfg : Cfg) (g : G) (hwf : wfAutoT rx cfg.env g = true)
    (hbudget : cfg.maxCalls = 0) (hrx : RxSound rx cfg.params) :
    ∃ F, ∀ fuel, F ≤ fuel → (parse cfg fuel g).isSome = true :=
  c02u_terminates_parse rx (autoCertT rx cfg.env g) cfg g hwf hbudget hrx

/-- the theorem of Props/C02T.lean is the special case: a grammar accepted by `wf` terminates, trims or not,
    whenever its Regexp terminals never match the empty string (no `Core`, no `TermGood` / `TermCons` scope) -/
theorem c02u_terminates_wf (cert : WFCert) (cfg : Cfg) (g : G)
    (hwf : wf cert cfg.env g = true) (hbudget : cfg.maxCalls = 0) (hrx : RxSound rxNone cfg.params) :
    ∃ F, ∀ fuel, F ≤ fuel → (parse cfg fuel g).isSome = true :=
  c02u_terminates_parse rxNone cert cfg g (by rw [c02u_agrees_wf]; exact hwf) hbudget hrx

/-! ### the re-entry bound, for every grammar -/

/-- **C02 re-entry bound** from any state a parse can reach, EVERY grammar (trims, all terminals, no certificate) -/
theorem c02u_reentry_from (cfg : Cfg) (g : G) (fuel : Nat) (ctx : Ctx) (pos : Nat) (st : St) (o : Out) (st' : St)
    (hgood : GoodT topCert cfg ctx pos st) (h : run cfg fuel g ctx pos st = some (o, st')) :
    (∀ idx p d, Ev.body idx p d ∈ st'.log → d ≤ remaining cfg.file p + 2) ∧ st'.active = st.active := by
  have hpost := run_T rxAll topCert cfg (EnvM_top cfg) fuel g ctx pos st o st' (GWM_top g) hgood h
  refine ⟨fun idx p d hm => ?_, hpost.active⟩
  have := hpost.st.log idx p d hm
  have hs : Facts.curtailSlack ≤ 1 := by decide
  omega

/-- **C02 re-entry bound** for a whole parse: no memoized parser is ever active more than `remaining input + 2`
    times at one position — every grammar, every input, every fuel for which `run` answers -/
theorem c02u_reentry (cfg : Cfg) (g : G) (fuel : Nat) (o : Out) (st' : St)
    (h : run cfg fuel g [] (cfg.file.pos 0) {} = some (o, st')) :
    ∀ idx p d, Ev.body idx p d ∈ st'.log → d ≤ remaining cfg.file p + 2 :=
  (c02u_reentry_from cfg g fuel [] _ {} o st' (c02u_initial topCert cfg) h).1

/-- every call leaves the activation stack as it found it -/
theorem c02u_balanced (cfg : Cfg) (g : G) (fuel : Nat) (ctx : Ctx) (pos : Nat) (st : St) (o : Out) (st' : St)
    (hgood : GoodT topCert cfg ctx pos st) (h : run cfg fuel g ctx pos st = some (o, st')) :
    st'.active = st.active :=
  (c02u_reentry_from cfg g fuel ctx pos st o st' hgood h).2

/-! ### item 3: the JSON grammar and the arithmetic grammar -/

namespace C02UNV

/-- the JSON grammar needs no Memoize: no rule is nullable, no left reference -/
def jsonCert : WFCert := certOf [] [] [] []
/-- the arithmetic grammar: Memoize indexes 0 (expr) and 1 (term); left references only under them -/
def arithCert : WFCert := certOf [] [] [] [0, 1]

theorem wfT_json : wfT rxAll jsonCert Gjson.env Gjson.root = true := by decide
theorem wfT_arith : wfT rxAll arithCert Garith.env Garith.root = true := by decide

end C02UNV

/-- **the example JSON parser terminates on EVERY input** (any file, any ParseFloat) -/
theorem c02u_json_terminates (cfg : Cfg) (henv : cfg.env = Gjson.env) (hbudget : cfg.maxCalls = 0) :
    ∃ F, ∀ fuel, F ≤ fuel → (parse cfg fuel Gjson.root).isSome = true :=
  c02u_terminates_any_engine C02UNV.jsonCert cfg Gjson.root (by rw [henv]; exact C02UNV.wfT_json) hbudget

/-- **the arithmetic parser terminates on EVERY input** (no condition on the base offset, cf. `c05_terminates`) -/
theorem c02u_arith_terminates (cfg : Cfg) (henv : cfg.env = Garith.env) (hbudget : cfg.maxCalls = 0) :
    ∃ F, ∀ fuel, F ≤ fuel → (parse cfg fuel Garith.root).isSome = true :=
  c02u_terminates_any_engine C02UNV.arithCert cfg Garith.root (by rw [henv]; exact C02UNV.wfT_arith) hbudget

/-! ### non-vacuity, and what the certificate excludes -/

namespace C02UNV

def ch (c : Nat) : G := .term (.rune c [34, c, 34])
def trim (g : G) : G := .rtrim (.ltrim g .spacesNl) .spacesNl
def certM (memos : List Nat) : WFCert := certOf [] [] [] memos

/-- `P → LeftTrim(P) b | a`, memoized: left recursion THROUGH a LeftTrim -/
def envTrimLR : List G := [.memo 0 (.any [.seq .seqOf [.ltrim (.ref 0) .spacesNl, ch 98] {}, ch 97])]
/-- the same WITHOUT Memoize -/
def envTrimBad : List G := [.any [.seq .seqOf [.ltrim (.ref 0) .spacesNl, ch 98] {}, ch 97]]
/-- Many over a trimmed operand that can be empty -/
def manyTrimOpt : G := .many (trim (.optional (ch 97))) true {}
/-- Many over a Regexp -/
def manyRx : G := .many (.term (.regexp 0 [82] [114] false)) true {}

def mkCfg (env : List G) (data : Bytes) (rxEngine : Nat → Bytes → Option (Nat × Option Bytes)) : Cfg :=
  { env := env, file := { name := "f", data := data, offset := 1 }, fileSet := {},
    params := { floatOk := fun _ => true, durErr := fun _ => none, regexp := rxEngine } }

theorem wfT_trimLR : wfT rxAll (certM [0]) envTrimLR (G.sentence (trim (.ref 0))) = true := by decide

/-- the computed certificate accepts the three grammars too -/
theorem wfAutoT_ok : wfAutoT rxAll envTrimLR (G.sentence (trim (.ref 0))) = true ∧
    wfAutoT rxAll Gjson.env Gjson.root = true ∧ wfAutoT rxAll Garith.env Garith.root = true := by decide

/-- the hypotheses of `c02u_terminates_any_engine` are satisfiable by a left-recursive grammar with trims:
    it terminates on EVERY input -/
theorem trimLR_terminates (data : Bytes) (e : Nat → Bytes → Option (Nat × Option Bytes)) :
    ∃ F, ∀ fuel, F ≤ fuel → (parse (mkCfg envTrimLR data e) fuel (G.sentence (trim (.ref 0)))).isSome = true :=
  c02u_terminates_any_engine (certM [0]) (mkCfg envTrimLR data e) _ wfT_trimLR rfl

/-- un-memoized left recursion through a LeftTrim has NO certificate (the trim does not hide the left call) -/
theorem wfT_trimBad_fails (rx : Nat → Bool) (c : WFCert) : wfT rx c envTrimBad (.ref 0) = false := by
  simp [wfT, envTrimBad, wfRuleT, leftRefsT, leftRefsAllT, leftRefsSeqT, List.range, List.range.loop]

/-- Many over a trimmed operand that can be empty has NO certificate -/
theorem wfT_manyTrimOpt_fails (rx : Nat → Bool) (c : WFCert) (env : List G) : wfT rx c env manyTrimOpt = false := by
  simp [wfT, manyTrimOpt, trim, wfLocalT, mayBeEmptyT]

/-- Many over a Regexp: rejected when the expression may be empty, accepted when the certificate claims it cannot -/
theorem wfT_manyRx : (∀ c env, wfT rxAll c env manyRx = false) ∧ wfT rxNone (certM []) [] manyRx = true := by
  refine ⟨fun c env => ?_, by decide⟩
  simp [wfT, manyRx, wfLocalT, mayBeEmptyT, termNullable, rxAll]

set_option maxRecDepth 100000 in
/-- … and indeed the model never answers on them: `P → LeftTrim(P) b | a` without Memoize on " ab",
    `Many(Trim(Optional('a')))` on "b", and — showing that `RxSound` cannot be dropped — `Many(Regexp)` with an
    engine that matches the empty string on "a", run out of every small fuel -/
theorem bad_no_answer :
    (run (mkCfg envTrimBad [32, 97, 98] (fun _ _ => none)) 50 (.ref 0) [] 1 {}).isNone = true ∧
    (run (mkCfg envTrimBad [32, 97, 98] (fun _ _ => none)) 100 (.ref 0) [] 1 {}).isNone = true ∧
    (run (mkCfg [] [98] (fun _ _ => none)) 50 manyTrimOpt [] 1 {}).isNone = true ∧
    (run (mkCfg [] [98] (fun _ _ => none)) 100 manyTrimOpt [] 1 {}).isNone = true ∧
    (run (mkCfg [] [97] (fun _ _ => some (0, none))) 50 manyRx [] 1 {}).isNone = true ∧
    (run (mkCfg [] [97] (fun _ _ => some (0, none))) 100 manyRx [] 1 {}).isNone = true := by decide

def bodyDepths : List Ev → List (Nat × Nat)
  | [] => []
  | .body _ p d :: r => (p, d) :: bodyDepths r
  | _ :: r => bodyDepths r

set_option maxRecDepth 100000 in
/-- the certified grammar answers, on " abb" from `P` itself: `P` at position 1 skips the blank inside its own body, so
    LeftTrim calls `P` at position 2 with the counter of `P` already at 1 (not reset): there the body is entered
    4 = remaining + 1 times, whereas on "abb" without the blank it is entered 5 = remaining + 2 times — the bound
    of `c02u_reentry` is respected, the curtailment only comes one step earlier, and both parses are found -/
theorem trimLR_answers :
    ((run (mkCfg envTrimLR [32, 97, 98, 98] (fun _ _ => none)) 60 (.ref 0) [] 1 {}).map
      (fun r => (r.1.res.alts.map Node.rpos, bodyDepths r.2.log))) =
      some ([5, 4], [(2, 4), (2, 3), (2, 2), (2, 1), (1, 1)]) ∧
    ((run (mkCfg envTrimLR [97, 98, 98] (fun _ _ => none)) 60 (.ref 0) [] 1 {}).map
      (fun r => (r.1.res.alts.map Node.rpos, bodyDepths r.2.log))) =
      some ([4, 3, 2], [(1, 5), (1, 4), (1, 3), (1, 2), (1, 1)]) := by decide

end C02UNV

end PV
