/-
  C16, the CONVERSE of the full value theorem (Props/C16V.lean) — "the example JSON parser accepts NOTHING ELSE":
  the byte-level reject statement that Props/C16.lean left open (`c16_reject_STATEMENT`).

  The language.  `JLang P data` (Spec/J16AccLang.lean): `data = lead ++ d.render ++ trail` for a document `d :
  AccDoc` with `d.OK P`, between whitespace of the class `WsNlF`.  It is the EXACT language of
  `Sentence(Trim(value))` over `Gjson` and it is LARGER than the supported subset (`JV.Supported` of
  Spec/JsonRender.lean) — the list of the extra forms is the list of places where the example parser is more
  liberal than encoding/json (`c16_supported_in_lang`: ⊇; `c16_more_liberal`: ≠):

    1. FORM FEED (0x0C) is whitespace wherever LF is (before values, keys, closers, around the document);
    2. integers `[-+]?(?:[1-9][0-9]*|0[xX][0-9a-fA-F]+|0[0-7]*)` in int64 range: a `+` sign, hexadecimal,
       leading zeros read as OCTAL (`017` = 15, `00`, `-0`);
    3. floats `[-+]?[0-9]*\.[0-9]+(?:[eE][-+]?[0-9]+)?`: a `+` sign, no integer part (`.5`), leading zeros
       (`007.5`) — but still no `1e5`, `1.`;
    4. strings (`IsStrElem`): raw control characters other than CR / LF (TAB, NUL, …), `\a`, `\v`, `\xHH` (the
       CODE POINT U+00HH: `"\x80"` is the two bytes C2 80), `\UHHHHHHHH`, octal `\ooo` — but still no `\/`, no
       `\'`, no surrogate escapes, no invalid UTF-8;
    (nothing else: `true false null`, `[ ]`, `{ }`, `,`, `:` as in JSON; no LF / FF before `,` and `:`).

  PROVED (every configuration with the grammar's rules, a file at ANY base offset ≥ 1, any fuel):
  * `c16_accepts_only_renderings`   `parse` returns a node ⟹ every returned tree is `Sentence[rootTree …, EOF]` of
                                    a document of the language whose rendering IS the file's data, and that tree
                                    denotes the document's value (no hypothesis on the work budget);
  * `c16_accepted_tree`             … and (no work budget) `parse` returns exactly that ONE tree;
  * `c16_accepted_value`            … and `evaluate` answers `denote d.val`;
  * `c16_parse_acc`, `c16_value_acc` the FORWARD direction for the exact class (extends `c16_parse_full` /
                                    `c16_value_full` from `JV.Supported` to every document of the language);
  * `c16_accept_iff`                (∃ fuel p, parse … = some p ∧ p.err = none) ↔ JLang cfg.params cfg.file.data;
  * `c16_rejects_outside`           outside the language every answer of `parse` is an error (and `evaluate`
                                    answers that error: `c16_evaluate_rejects`);
  * `c16_supported_in_lang`, `c16_more_liberal`   the supported subset is inside the language, strictly;
  * non-vacuity: concrete documents in / outside the language, proved from the definition of the language (not
    by running the model), the theorems applied to them, and `#guard` cross-checks of the model labelled as tests.

  Route.  (1) `J16Acc.run_soundW` (Proofs/J16AccSound.lean): a refinement of C01's soundness for grammars
  without Memoize / Optional — every returned tree is a `DerivesW` derivation, whose LeftTrim rule records that
  the skipped whitespace is acceptable in the trim's mode (C01's `Derives` is the monotone reading and drops
  that: with it `[1<LF>,2]` could not be excluded).  (2) inversion of `DerivesW` over the closed term `Gjson`
  (Proofs/J16AccInv.lean), the terminals through C08's byte specifications.  (3) the forward direction for the
  exact class (Proofs/J16AccFwd.lean) and fuel monotonicity give the uniqueness of the returned tree.
-/
import ParsleyVerif.Proofs.J16AccInv
import ParsleyVerif.Proofs.J16AccEx
import ParsleyVerif.Props.C16V
import ParsleyVerif.Proofs.RunMono
namespace PV
open PV.Text

/-! ### the grammar is within the scope of the refined soundness theorem: no Memoize, no Optional -/

theorem c16_grammar_strict : (∀ g' ∈ Gjson.env, J16Acc.Strict g') ∧ J16Acc.Strict Gjson.root := by
  refine ⟨?_, ?_⟩
  · intro g' hg'
    simp only [Gjson.env, List.mem_cons, List.not_mem_nil, or_false] at hg'
    subst hg'
    simp [J16Acc.Strict, G.All, AllList, J16Acc.StrictLocal, Gjson.valueRule, Gjson.alts, Gjson.array, Gjson.object,
      Gjson.elems, Gjson.members, Gjson.keyValue, Gjson.comma, Gjson.value, Gjson.rn]
  · simp [J16Acc.Strict, G.All, AllList, J16Acc.StrictLocal, Gjson.root, G.sentence]

/-! ### accepted ⟹ a rendering of a document of the language -/

/-- **C16, the converse**: if `parse` returns a node, EVERY returned tree is `Sentence[rootTree …, EOF]` for a
    document `d` of the accepted language, the file's data is exactly `lead ++ d.render ++ trail`, and the tree
    denotes `d.val`.  Any fuel, any work budget, any parameters. -/
theorem c16_accepts_only_renderings (cfg : Cfg) (henv : cfg.env = Gjson.env) (hoff : 1 ≤ cfg.file.offset)
    (fuel : Nat) (p : ParseOut) (h : parse cfg fuel Gjson.root = some p) (hok : p.err = none) :
    p.res.alts ≠ [] ∧
    ∀ x ∈ p.res.alts, ∃ lead d trail, WsNlF lead ∧ WsNlF trail ∧ AccDoc.OK cfg.params d ∧
      cfg.file.data = renderAcc lead d trail ∧
      x = sentenceNode (J16Acc.rootTree cfg.file.offset lead d trail) ∧
      jvalOf (J16Acc.rootTree cfg.file.offset lead d trail) = some d.val := by
  refine ⟨?_, ?_⟩
  · rcases c04_xor cfg fuel _ {} p h with h1 | h1
    · exact parse_sentence_alts_ne cfg _ fuel p h h1.2.2
    · rw [hok] at h1; simp at h1
  · intro x hx
    have hstrict : ∀ g' ∈ cfg.env, J16Acc.Strict g' := by rw [henv]; exact c16_grammar_strict.1
    have hd := J16Acc.parse_soundW cfg (J16Acc.jR cfg) (J16Acc.jR_closed hoff henv) hstrict fuel Gjson.root
      c16_grammar_strict.2 {} p h x hx
    obtain ⟨lead, d, trail, h1, h2, h3, h4, h5⟩ := J16Acc.root_inv hoff hd
    exact ⟨lead, d, trail, h1, h2, h3, h4, h5, J16Acc.jval_rootTree _ _ _ _⟩

/-! ### the forward direction for the exact class -/

/-- **C16, the parse, exact class**: on every document of the language `parse` returns exactly
    `Sentence[rootTree …, EOF]`, for all sufficiently large fuel (extends `c16_parse_full`) -/
theorem c16_parse_acc (cfg : Cfg) (henv : cfg.env = Gjson.env) (hmc : cfg.maxCalls = 0) (hoff : 1 ≤ cfg.file.offset)
    (lead : Bytes) (d : AccDoc) (trail : Bytes) (hd : d.OK cfg.params) (hlead : WsNlF lead) (htrail : WsNlF trail)
    (hdata : cfg.file.data = renderAcc lead d trail) :
    ∃ F, ∀ fuel, F ≤ fuel → ∃ st, parse cfg fuel Gjson.root =
      some { res := .one (sentenceNode (J16Acc.rootTree cfg.file.offset lead d trail)), err := none, msg := none, st := st } :=
  J16.parse_of_succ (J16Acc.root_ok ⟨henv, hmc, hoff⟩ lead d trail hd hlead htrail hdata)

/-- **C16, the value, exact class**: `evaluate` answers the value the document denotes (extends `c16_value_full`) -/
theorem c16_value_acc (cfg : Cfg) (henv : cfg.env = Gjson.env) (hmc : cfg.maxCalls = 0) (hoff : 1 ≤ cfg.file.offset)
    (lead : Bytes) (d : AccDoc) (trail : Bytes) (hd : d.OK cfg.params) (hlead : WsNlF lead) (htrail : WsNlF trail)
    (hdata : cfg.file.data = renderAcc lead d trail) (ce : CustomEval) :
    ∃ F, ∀ fuel, F ≤ fuel → evaluate cfg ce fuel Gjson.root = some (.value (denote d.val)) := by
  obtain ⟨F, hF⟩ := c16_parse_acc cfg henv hmc hoff lead d trail hd hlead htrail hdata
  refine ⟨max F ((J16Acc.rootTree cfg.file.offset lead d trail).depth + 2), fun fuel hfuel => ?_⟩
  obtain ⟨st, hp⟩ := hF fuel (by omega)
  exact J16.evaluate_of_parse henv ce _ d.val (J16Acc.jval_rootTree _ lead d trail) fuel (by omega) st hp

/-! ### exactly one tree -/

/-- **C16, the converse, with the tree**: (no work budget) if `parse` returns a node then the file's data is the
    rendering of a document of the language and `parse` returned exactly the ONE tree `Sentence[rootTree …, EOF]` -/
theorem c16_accepted_tree (cfg : Cfg) (henv : cfg.env = Gjson.env) (hmc : cfg.maxCalls = 0) (hoff : 1 ≤ cfg.file.offset)
    (fuel : Nat) (p : ParseOut) (h : parse cfg fuel Gjson.root = some p) (hok : p.err = none) :
    ∃ lead d trail, WsNlF lead ∧ WsNlF trail ∧ AccDoc.OK cfg.params d ∧ cfg.file.data = renderAcc lead d trail ∧
      p.res = .one (sentenceNode (J16Acc.rootTree cfg.file.offset lead d trail)) ∧ p.msg = none ∧
      jvalOf (J16Acc.rootTree cfg.file.offset lead d trail) = some d.val := by
  obtain ⟨hne, hall⟩ := c16_accepts_only_renderings cfg henv hoff fuel p h hok
  obtain ⟨x, hx⟩ := List.exists_mem_of_ne_nil _ hne
  obtain ⟨lead, d, trail, h1, h2, h3, h4, _, h6⟩ := hall x hx
  obtain ⟨F, hF⟩ := c16_parse_acc cfg henv hmc hoff lead d trail h3 h1 h2 h4
  obtain ⟨st, hbig⟩ := hF (max F fuel) (Nat.le_max_left _ _)
  have hmono := parse_mono cfg fuel (max F fuel) (Nat.le_max_right _ _) Gjson.root {} p h
  rw [hbig] at hmono
  cases hmono
  exact ⟨lead, d, trail, h1, h2, h3, h4, rfl, rfl, h6⟩

/-- … and `evaluate` answers the value that document denotes (for every fuel above the tree's depth) -/
theorem c16_accepted_value (cfg : Cfg) (henv : cfg.env = Gjson.env) (hmc : cfg.maxCalls = 0) (hoff : 1 ≤ cfg.file.offset)
    (fuel : Nat) (p : ParseOut) (h : parse cfg fuel Gjson.root = some p) (hok : p.err = none) (ce : CustomEval) :
    ∃ lead d trail, WsNlF lead ∧ WsNlF trail ∧ AccDoc.OK cfg.params d ∧ cfg.file.data = renderAcc lead d trail ∧
      ((J16Acc.rootTree cfg.file.offset lead d trail).depth + 2 ≤ fuel →
        evaluate cfg ce fuel Gjson.root = some (.value (denote d.val))) := by
  obtain ⟨lead, d, trail, h1, h2, h3, h4, h5, h6, h7⟩ := c16_accepted_tree cfg henv hmc hoff fuel p h hok
  refine ⟨lead, d, trail, h1, h2, h3, h4, fun hfuel => ?_⟩
  have hp : parse cfg fuel Gjson.root =
      some ⟨.one (sentenceNode (J16Acc.rootTree cfg.file.offset lead d trail)), none, none, p.st⟩ := by
    rw [h]; congr 1
    obtain ⟨r, e, m, s⟩ := p
    simp only at h5 h6 hok
    subst h5 h6 hok
    rfl
  exact J16.evaluate_of_parse henv ce _ d.val h7 fuel hfuel p.st hp

/-! ### the iff, and the reject statement -/

/-- **C16, the language of the example parser**: it accepts an input iff the input is in `JLang` -/
theorem c16_accept_iff (cfg : Cfg) (henv : cfg.env = Gjson.env) (hmc : cfg.maxCalls = 0) (hoff : 1 ≤ cfg.file.offset) :
    (∃ fuel p, parse cfg fuel Gjson.root = some p ∧ p.err = none) ↔ JLang cfg.params cfg.file.data := by
  constructor
  · rintro ⟨fuel, p, h, hok⟩
    obtain ⟨hne, hall⟩ := c16_accepts_only_renderings cfg henv hoff fuel p h hok
    obtain ⟨x, hx⟩ := List.exists_mem_of_ne_nil _ hne
    obtain ⟨lead, d, trail, h1, h2, h3, h4, _⟩ := hall x hx
    exact ⟨lead, d, trail, h1, h2, h3, h4⟩
  · rintro ⟨lead, d, trail, h1, h2, h3, h4⟩
    obtain ⟨F, hF⟩ := c16_parse_acc cfg henv hmc hoff lead d trail h3 h1 h2 h4
    obtain ⟨st, hp⟩ := hF F (Nat.le_refl _)
    exact ⟨F, _, hp, rfl⟩

/-- **C16 reject**: an input outside the language is rejected — whenever `parse` answers, it answers an error
    (no node, an error, its message).  Any fuel, any work budget. -/
theorem c16_rejects_outside (cfg : Cfg) (henv : cfg.env = Gjson.env) (hoff : 1 ≤ cfg.file.offset)
    (hout : ¬ JLang cfg.params cfg.file.data) (fuel : Nat) (p : ParseOut) (h : parse cfg fuel Gjson.root = some p) :
    p.res.isNil = true ∧ p.err.isSome ∧ p.msg.isSome := by
  rcases c04_xor cfg fuel _ {} p h with h1 | h1
  · exfalso
    obtain ⟨hne, hall⟩ := c16_accepts_only_renderings cfg henv hoff fuel p h h1.2.1
    obtain ⟨x, hx⟩ := List.exists_mem_of_ne_nil _ hne
    obtain ⟨lead, d, trail, h1, h2, h3, h4, _⟩ := hall x hx
    exact hout ⟨lead, d, trail, h1, h2, h3, h4⟩
  · exact h1

/-- … and `evaluate` answers that error: never a value, never a panic -/
theorem c16_evaluate_rejects (cfg : Cfg) (henv : cfg.env = Gjson.env) (hoff : 1 ≤ cfg.file.offset)
    (hout : ¬ JLang cfg.params cfg.file.data) (ce : CustomEval) (fuel : Nat) (out : EvaluateOut)
    (h : evaluate cfg ce fuel Gjson.root = some out) : ∃ m, out = .error m := by
  obtain ⟨p, hp, hc⟩ := c16_evaluate cfg henv ce fuel out h
  have hrej := c16_rejects_outside cfg henv hoff hout fuel p hp
  rcases hc with ⟨m, _, h1⟩ | ⟨hm, _⟩ | ⟨hm, _⟩
  · exact ⟨m, h1⟩
  · rw [hm] at hrej; simp at hrej
  · rw [hm] at hrej; simp at hrej


/-! ### the supported subset is inside the language — strictly -/

/-- the plainest configuration: the grammar's rules, the data as a file at base offset 1, no work budget -/
def J16Acc.plainCfg (P : Params) (data : Bytes) : Cfg :=
  { env := Gjson.env, file := { name := "", data := data, offset := 1 }, fileSet := {}, params := P }

/-- every rendering of the supported subset (Props/C16V.lean) is in the language -/
theorem c16_supported_in_lang (P : Params) (lead : Bytes) (v : JV) (l : Layout) (trail : Bytes) (hv : v.Supported)
    (hl : l.Adm) (hlead : WsNl lead) (htrail : WsNl trail) (hf : v.FloatsOk P) : JLang P (renderJ lead v l trail) := by
  obtain ⟨F, hF⟩ := c16_parse_full (J16Acc.plainCfg P (renderJ lead v l trail)) rfl rfl (Nat.le_refl 1) lead v l trail
    hv hl hlead htrail hf rfl
  obtain ⟨st, hp⟩ := hF F (Nat.le_refl _)
  exact (c16_accept_iff (J16Acc.plainCfg P (renderJ lead v l trail)) rfl rfl (Nat.le_refl 1)).mp ⟨F, _, hp, rfl⟩

namespace J16Acc

/-- the first byte of a supported document: never `+` -/
theorem jdoc_head_ne_plus : ∀ (d : JDoc), d.OK → ∃ c t, d.render = c :: t ∧ c ≠ 43
  | .null, _ => ⟨110, _, rfl, by omega⟩
  | .bool true, _ => ⟨116, _, rfl, by omega⟩
  | .bool false, _ => ⟨102, _, rfl, by omega⟩
  | .int i, _ => by
    obtain ⟨c, r, hcr, hc⟩ := J16.int_head i
    exact ⟨c, r, hcr, by omega⟩
  | .dec x, hd => by
    obtain ⟨c, r, hcr, hc⟩ := J16.dec_head x hd
    exact ⟨c, r, hcr, by omega⟩
  | .str _, _ => ⟨34, _, rfl, by omega⟩
  | .arr .nil _, _ => ⟨91, _, rfl, by omega⟩
  | .arr (.cons _ _ _ _) _, _ => ⟨91, _, rfl, by omega⟩
  | .obj .nil _, _ => ⟨123, _, rfl, by omega⟩
  | .obj (.cons _ _ _ _ _ _ _) _, _ => ⟨123, _, rfl, by omega⟩

end J16Acc

/-- **the example parser is more liberal than the supported subset**: `+1` is in its language (it evaluates to the
    integer 1: `c16_ex_plus1_value`) and is not the rendering of any supported value (encoding/json rejects it) -/
theorem c16_more_liberal (P : Params) :
    JLang P [43, 49] ∧
    ¬ ∃ lead v l trail, WsNl lead ∧ JV.Supported v ∧ Layout.Adm l ∧ [43, 49] = renderJ lead v l trail := by
  refine ⟨⟨[], .lit (.int [43, 49]), [], J16Acc.wsNlF_nil, J16Acc.wsNlF_nil, ⟨by unfold Lang.IsInt; decide, by decide, by decide⟩, rfl⟩, ?_⟩
  rintro ⟨lead, v, l, trail, hlead, hv, hl, he⟩
  obtain ⟨c, t, hct, hc⟩ := J16Acc.jdoc_head_ne_plus _ (J16.decorate_ok v l hv hl)
  simp only [renderJ, renderDoc, hct] at he
  cases lead with
  | nil =>
    simp only [List.nil_append, List.cons_append, List.cons.injEq] at he
    exact hc he.1.symm
  | cons b r =>
    simp only [List.cons_append, List.cons.injEq] at he
    have := hlead b (by simp)
    omega


/-! ### non-vacuity

    Membership / non-membership in the language is proved from its definition (Proofs/J16AccEx.lean); the
    theorems above are then applied to the configuration of Props/C16.lean (`nvJsonCfg`: the bytes handed to
    text.NewFile, the file added to a fresh file set, a ParseFloat that accepts everything).  The `#guard` lines at
    the end RUN the model on the same inputs: they are tests, not proofs. -/

/-- the parameters of `nvJsonCfg` -/
def c16_P : Params := { floatOk := fun _ => true, durErr := fun _ => none, regexp := fun _ _ => none }

/-- (a) a document of the SUPPORTED subset is in the language: ` [1, 2.5 ,"x\n",true]` (Props/C16V.lean) -/
theorem c16_ex_supported_in :
    JLang c16_P [32, 91, 49, 44, 32, 50, 46, 53, 32, 44, 34, 120, 92, 110, 34, 44, 116, 114, 117, 101, 93] := by
  have h := c16_supported_in_lang c16_P [32] j16_exV j16_exL [] j16_ex_supported.1 j16_ex_supported.2.1
    j16_ex_supported.2.2.1 j16_ex_supported.2.2.2 (by simp [j16_exV, JV.FloatsOk, JVs.FloatsOk, c16_P])
  rwa [j16_ex_render] at h

/-- (a') forms OUTSIDE the supported subset that are in the language, with the values the parser computes:
    `0x1F` is 31 -/
theorem c16_ex_hex_value (ce : CustomEval) :
    ∃ F, ∀ fuel, F ≤ fuel → evaluate (nvJsonCfg [48, 120, 49, 70]) ce fuel Gjson.root = some (.value (.int 31)) :=
  c16_value_acc (nvJsonCfg [48, 120, 49, 70]) rfl rfl (Nat.le_refl 1) [] (.lit (.int [48, 120, 49, 70])) []
    ⟨J16Acc.isInt_dec (by decide), by decide, by decide⟩ J16Acc.wsNlF_nil J16Acc.wsNlF_nil rfl ce

/-- `017` is 15 (a leading zero means OCTAL; encoding/json rejects the document) -/
theorem c16_ex_octal_value (ce : CustomEval) :
    ∃ F, ∀ fuel, F ≤ fuel → evaluate (nvJsonCfg [48, 49, 55]) ce fuel Gjson.root = some (.value (.int 15)) :=
  c16_value_acc (nvJsonCfg [48, 49, 55]) rfl rfl (Nat.le_refl 1) [] (.lit (.int [48, 49, 55])) []
    ⟨J16Acc.isInt_dec (by decide), by decide, by decide⟩ J16Acc.wsNlF_nil J16Acc.wsNlF_nil rfl ce

/-- `+1` is 1 -/
theorem c16_ex_plus1_value (ce : CustomEval) :
    ∃ F, ∀ fuel, F ≤ fuel → evaluate (nvJsonCfg [43, 49]) ce fuel Gjson.root = some (.value (.int 1)) :=
  c16_value_acc (nvJsonCfg [43, 49]) rfl rfl (Nat.le_refl 1) [] (.lit (.int [43, 49])) []
    ⟨J16Acc.isInt_dec (by decide), by decide, by decide⟩ J16Acc.wsNlF_nil J16Acc.wsNlF_nil rfl ce

/-- `-.5e3` is the float with that lexeme -/
theorem c16_ex_float_value (ce : CustomEval) :
    ∃ F, ∀ fuel, F ≤ fuel →
      evaluate (nvJsonCfg [45, 46, 53, 101, 51]) ce fuel Gjson.root = some (.value (.float [45, 46, 53, 101, 51])) :=
  c16_value_acc (nvJsonCfg [45, 46, 53, 101, 51]) rfl rfl (Nat.le_refl 1) [] (.lit (.flt [45, 46, 53, 101, 51])) []
    ⟨J16Acc.isFloat_dec (by decide), rfl⟩ J16Acc.wsNlF_nil J16Acc.wsNlF_nil rfl ce

/-- `"\x41\a<TAB>"` is the string `A`, BEL, TAB -/
theorem c16_ex_str_value (ce : CustomEval) :
    ∃ F, ∀ fuel, F ≤ fuel →
      evaluate (nvJsonCfg [34, 92, 120, 52, 49, 92, 97, 9, 34]) ce fuel Gjson.root = some (.value (.str [65, 7, 9])) :=
  c16_value_acc (nvJsonCfg [34, 92, 120, 52, 49, 92, 97, 9, 34]) rfl rfl (Nat.le_refl 1) []
    (.lit (.str [92, 120, 52, 49, 92, 97, 9] [65, 7, 9])) [] J16Acc.ex_body J16Acc.wsNlF_nil J16Acc.wsNlF_nil rfl ce

/-- `[1,<FF>2]`: the form feed is whitespace -/
theorem c16_ex_ff_value (ce : CustomEval) :
    ∃ F, ∀ fuel, F ≤ fuel →
      evaluate (nvJsonCfg [91, 49, 44, 12, 50, 93]) ce fuel Gjson.root = some (.value (.arr [.int 1, .int 2])) := by
  have h := c16_value_acc (nvJsonCfg [91, 49, 44, 12, 50, 93]) rfl rfl (Nat.le_refl 1) [] J16Acc.exFFDoc []
    (J16Acc.ex_ff_ok _) J16Acc.wsNlF_nil J16Acc.wsNlF_nil rfl ce
  have hd : denote J16Acc.exFFDoc.val = .arr [.int 1, .int 2] := by
    have e1 : Lang.intValue [49] = 1 := by decide
    have e2 : Lang.intValue [50] = 2 := by decide
    simp only [J16Acc.exFFDoc, AccDoc.val, AccItems.vals, AccLit.jval, denote, denoteList, e1, e2]
  rwa [hd] at h

/-- (b) OUTSIDE the language ⟹ an error, for every fuel for which `parse` answers: `[1,]` -/
theorem c16_ex_trailing_comma_rejected (fuel : Nat) (p : ParseOut)
    (h : parse (nvJsonCfg [91, 49, 44, 93]) fuel Gjson.root = some p) : p.res.isNil = true ∧ p.err.isSome ∧ p.msg.isSome :=
  c16_rejects_outside (nvJsonCfg [91, 49, 44, 93]) rfl (Nat.le_refl 1) (J16Acc.ex_trailing_comma_out _) fuel p h

/-- `1e5` (a float needs a fraction) -/
theorem c16_ex_1e5_rejected (fuel : Nat) (p : ParseOut)
    (h : parse (nvJsonCfg [49, 101, 53]) fuel Gjson.root = some p) : p.res.isNil = true ∧ p.err.isSome ∧ p.msg.isSome :=
  c16_rejects_outside (nvJsonCfg [49, 101, 53]) rfl (Nat.le_refl 1) (J16Acc.ex_1e5_out _) fuel p h

/-- `[1<LF>,2]` (no line break before `,`) is rejected although `[1,<LF>2]` is in the language: the whitespace modes
    are part of the language — this is what C01's monotone `Derives` cannot see -/
theorem c16_ex_nl_before_comma_rejected (fuel : Nat) (p : ParseOut)
    (h : parse (nvJsonCfg [91, 49, 10, 44, 50, 93]) fuel Gjson.root = some p) :
    p.res.isNil = true ∧ p.err.isSome ∧ p.msg.isSome :=
  c16_rejects_outside (nvJsonCfg [91, 49, 10, 44, 50, 93]) rfl (Nat.le_refl 1) (J16Acc.ex_nl_before_comma_out _) fuel p h

theorem c16_ex_nl_after_comma_in : JLang c16_P [91, 49, 44, 10, 50, 93] := J16Acc.ex_nl_after_comma _

/-- `{"a" 1}` (the colon is missing) -/
theorem c16_ex_missing_colon_rejected (fuel : Nat) (p : ParseOut)
    (h : parse (nvJsonCfg [123, 34, 97, 34, 32, 49, 125]) fuel Gjson.root = some p) :
    p.res.isNil = true ∧ p.err.isSome ∧ p.msg.isSome :=
  c16_rejects_outside (nvJsonCfg [123, 34, 97, 34, 32, 49, 125]) rfl (Nat.le_refl 1) (J16Acc.ex_missing_colon_out _) fuel p h

/-- `"\q"` (not an escape of the table); `evaluate` answers an error for every custom-interpreter table -/
theorem c16_ex_bad_escape_rejected (ce : CustomEval) (fuel : Nat) (out : EvaluateOut)
    (h : evaluate (nvJsonCfg [34, 92, 113, 34]) ce fuel Gjson.root = some out) : ∃ m, out = .error m :=
  c16_evaluate_rejects (nvJsonCfg [34, 92, 113, 34]) rfl (Nat.le_refl 1) (J16Acc.ex_bad_escape_out _) ce fuel out h

/-! #### TESTS (the model is RUN on the inputs above; cross-checks, not proofs) -/

/-- test helper -/
def c16_isErr (o : Option EvaluateOut) : Bool := match o with | some (.error _) => true | _ => false

#guard outIsValue (evaluate (nvJsonCfg [48, 120, 49, 70]) noCustom 1000 Gjson.root) (.int 31)
#guard outIsValue (evaluate (nvJsonCfg [48, 49, 55]) noCustom 1000 Gjson.root) (.int 15)
#guard outIsValue (evaluate (nvJsonCfg [43, 49]) noCustom 1000 Gjson.root) (.int 1)
#guard outIsValue (evaluate (nvJsonCfg [45, 46, 53, 101, 51]) noCustom 1000 Gjson.root) (.float [45, 46, 53, 101, 51])
#guard outIsValue (evaluate (nvJsonCfg [34, 92, 120, 52, 49, 92, 97, 9, 34]) noCustom 1000 Gjson.root) (.str [65, 7, 9])
#guard outIsValue (evaluate (nvJsonCfg [91, 49, 44, 12, 50, 93]) noCustom 1000 Gjson.root) (.arr [.int 1, .int 2])
#guard outIsValue (evaluate (nvJsonCfg [91, 49, 44, 10, 50, 93]) noCustom 1000 Gjson.root) (.arr [.int 1, .int 2])
#guard c16_isErr (evaluate (nvJsonCfg [91, 49, 44, 93]) noCustom 1000 Gjson.root)
#guard c16_isErr (evaluate (nvJsonCfg [49, 101, 53]) noCustom 1000 Gjson.root)
#guard c16_isErr (evaluate (nvJsonCfg [91, 49, 10, 44, 50, 93]) noCustom 1000 Gjson.root)
#guard c16_isErr (evaluate (nvJsonCfg [123, 34, 97, 34, 32, 49, 125]) noCustom 1000 Gjson.root)
#guard c16_isErr (evaluate (nvJsonCfg [34, 92, 113, 34]) noCustom 1000 Gjson.root)
-- more of the boundary, tests only: `08` (octal digit), `1.`, `"\/"`, a raw LF in a string, `[1 ,2]` (space before `,`: fine)
#guard c16_isErr (evaluate (nvJsonCfg [48, 56]) noCustom 1000 Gjson.root)
#guard c16_isErr (evaluate (nvJsonCfg [49, 46]) noCustom 1000 Gjson.root)
#guard c16_isErr (evaluate (nvJsonCfg [34, 92, 47, 34]) noCustom 1000 Gjson.root)
#guard c16_isErr (evaluate (nvJsonCfg [34, 10, 34]) noCustom 1000 Gjson.root)
#guard outIsValue (evaluate (nvJsonCfg [91, 49, 32, 44, 50, 93]) noCustom 1000 Gjson.root) (.arr [.int 1, .int 2])

end PV
