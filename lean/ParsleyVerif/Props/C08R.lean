/-
  C08R — the typed LEAF NODE TYPES of text/terminal and ast.TerminalNode, about the definitions TRANSLATED from the Go source.

  `factgen -out-term` (harness/cmd/factgen/prognode.go) translates, from the repository's current source on every run, the
  struct declarations BoolNode, CharNode, FloatNode, IntegerNode, NilNode, OpNode, StringNode, TimeDurationNode
  (text/terminal/*.go) and TerminalNode (ast/terminal_node.go), their constructors `NewX` and their methods Token, Schema,
  Value, Pos, ReaderPos, SetReaderPos into the namespace `PV.FactsTerm.Src` of Generated/FactsTerm.lean (a `*T` is the
  structure's value; SetReaderPos answers the new content of the receiver's cell).  Until now these were hand-written: the
  prelude constructors of Generated/TermPrelude.lean that the translated closures call (Props/C08Q.lean) and the model's
  `Node.term tok val pos rpos` (Model/Node.lean).

  Every theorem is about INPUT / OUTPUT behaviour — what the methods answer on what the constructor built — for ALL
  argument values; nothing mentions a field of a struct.

  PROVED, for each node type X (x = bool, char, float, integer, nil, op, string, timeDuration, terminal)
    * `c08r_all_translated`   everything asked for is translated, nothing is refused;
    * `c08r_x_accessors`      on `NewX(args)`: Token() is the type's constant (the operator for OpNode, the argument for
                              TerminalNode), Schema() the schema argument (nil for OpNode), Value() the value argument with
                              its dynamic type (nil for NilNode, the operator for OpNode), Pos() / ReaderPos() the two
                              position arguments IN THAT ORDER;
    * `c08r_x_setReaderPos`   on ANY node n of the type: after n.SetReaderPos(f), ReaderPos() is f(n.ReaderPos()) and Token,
                              Schema, Value, Pos are unchanged;
    * `c08r_x_prelude`        the leaf the node's methods describe — `.leaf Token() Value() Pos() ReaderPos()` — of
                              `NewX(args)` IS the prelude constructor `TermPrelude.NewX args` the translated closures call: the
                              hand-written constructors of the prelude are hereby consequences of the source;
    * `c08r_x_model`          and it IS the encoding `eNode` of the model's `Node.term` with the type's token and value: the
                              fields pos / rpos / token / value of Model/Node.lean are what Pos() / ReaderPos() / Token() /
                              Value() of the Go types answer.
-/
import ParsleyVerif.Proofs.TermTieBasics
namespace PV
open PV.CoreTie PV.TermTie PV.FactsTerm

/-- the constructors and methods the translator is asked for -/
def c08r_nodeFunctions : List String :=
  (["BoolNode", "CharNode", "FloatNode", "IntegerNode", "NilNode", "OpNode", "StringNode", "TimeDurationNode", "TerminalNode"].map
    (fun t => ["New" ++ t, t ++ "_Token", t ++ "_Schema", t ++ "_Value", t ++ "_Pos", t ++ "_ReaderPos", t ++ "_SetReaderPos"])).flatten

/-- everything asked for is translated -/
theorem c08r_all_translated :
    c08r_nodeFunctions.all (fun f => FactsTerm.translatedNodes.contains f) = true ∧ FactsTerm.untranslatedNodes = [] := by
  decide

/-! ### BoolNode -/

/-- the leaf a BoolNode's methods describe -/
def c08r_boolLeaf (n : Src.BoolNode) : CNode := .leaf (Src.BoolNode_Token n) (Src.BoolNode_Value n) (Src.BoolNode_Pos n) (Src.BoolNode_ReaderPos n)

theorem c08r_bool_accessors (schema : CorePrelude.Opaque) (value : Bool) (pos readerPos : Int) :
    Src.BoolNode_Token (Src.NewBoolNode schema value pos readerPos) = CorePrelude.Go.str "BOOL" ∧
    Src.BoolNode_Schema (Src.NewBoolNode schema value pos readerPos) = schema ∧
    Src.BoolNode_Value (Src.NewBoolNode schema value pos readerPos) = TermPrelude.Val.ofBool value ∧
    Src.BoolNode_Pos (Src.NewBoolNode schema value pos readerPos) = pos ∧
    Src.BoolNode_ReaderPos (Src.NewBoolNode schema value pos readerPos) = readerPos :=
  ⟨rfl, rfl, rfl, rfl, rfl⟩

theorem c08r_bool_setReaderPos (n : Src.BoolNode) (f : Int → Int) :
    Src.BoolNode_ReaderPos (Src.BoolNode_SetReaderPos n f) = f (Src.BoolNode_ReaderPos n) ∧
    Src.BoolNode_Pos (Src.BoolNode_SetReaderPos n f) = Src.BoolNode_Pos n ∧
    Src.BoolNode_Token (Src.BoolNode_SetReaderPos n f) = Src.BoolNode_Token n ∧
    Src.BoolNode_Value (Src.BoolNode_SetReaderPos n f) = Src.BoolNode_Value n ∧
    Src.BoolNode_Schema (Src.BoolNode_SetReaderPos n f) = Src.BoolNode_Schema n :=
  ⟨rfl, rfl, rfl, rfl, rfl⟩

theorem c08r_bool_prelude (schema : CorePrelude.Opaque) (value : Bool) (pos readerPos : Int) :
    c08r_boolLeaf (Src.NewBoolNode schema value pos readerPos) = TermPrelude.NewBoolNode schema value pos readerPos := rfl

theorem c08r_bool_model (schema : CorePrelude.Opaque) (value : Bool) (pos rpos : Nat) :
    c08r_boolLeaf (Src.NewBoolNode schema value (pos : Int) (rpos : Int)) = eNode (.term (tokOf "BOOL") (Val.bool value) pos rpos) := by
  rw [TermTie.eNode_term]; rfl

/-! ### CharNode -/

/-- the leaf a CharNode's methods describe -/
def c08r_charLeaf (n : Src.CharNode) : CNode := .leaf (Src.CharNode_Token n) (Src.CharNode_Value n) (Src.CharNode_Pos n) (Src.CharNode_ReaderPos n)

theorem c08r_char_accessors (schema : CorePrelude.Opaque) (value : Int) (pos readerPos : Int) :
    Src.CharNode_Token (Src.NewCharNode schema value pos readerPos) = CorePrelude.Go.str "CHAR" ∧
    Src.CharNode_Schema (Src.NewCharNode schema value pos readerPos) = schema ∧
    Src.CharNode_Value (Src.NewCharNode schema value pos readerPos) = TermPrelude.Val.ofRune value ∧
    Src.CharNode_Pos (Src.NewCharNode schema value pos readerPos) = pos ∧
    Src.CharNode_ReaderPos (Src.NewCharNode schema value pos readerPos) = readerPos :=
  ⟨rfl, rfl, rfl, rfl, rfl⟩

theorem c08r_char_setReaderPos (n : Src.CharNode) (f : Int → Int) :
    Src.CharNode_ReaderPos (Src.CharNode_SetReaderPos n f) = f (Src.CharNode_ReaderPos n) ∧
    Src.CharNode_Pos (Src.CharNode_SetReaderPos n f) = Src.CharNode_Pos n ∧
    Src.CharNode_Token (Src.CharNode_SetReaderPos n f) = Src.CharNode_Token n ∧
    Src.CharNode_Value (Src.CharNode_SetReaderPos n f) = Src.CharNode_Value n ∧
    Src.CharNode_Schema (Src.CharNode_SetReaderPos n f) = Src.CharNode_Schema n :=
  ⟨rfl, rfl, rfl, rfl, rfl⟩

theorem c08r_char_prelude (schema : CorePrelude.Opaque) (value : Int) (pos readerPos : Int) :
    c08r_charLeaf (Src.NewCharNode schema value pos readerPos) = TermPrelude.NewCharNode schema value pos readerPos := rfl

theorem c08r_char_model (schema : CorePrelude.Opaque) (value : Nat) (pos rpos : Nat) :
    c08r_charLeaf (Src.NewCharNode schema (value : Int) (pos : Int) (rpos : Int)) = eNode (.term (tokOf "CHAR") (Val.rune value) pos rpos) := by
  rw [TermTie.eNode_term]; rfl

/-! ### FloatNode -/

/-- the leaf a FloatNode's methods describe -/
def c08r_floatLeaf (n : Src.FloatNode) : CNode := .leaf (Src.FloatNode_Token n) (Src.FloatNode_Value n) (Src.FloatNode_Pos n) (Src.FloatNode_ReaderPos n)

theorem c08r_float_accessors (schema : CorePrelude.Opaque) (value : TermPrelude.Float64) (pos readerPos : Int) :
    Src.FloatNode_Token (Src.NewFloatNode schema value pos readerPos) = CorePrelude.Go.str "FLOAT" ∧
    Src.FloatNode_Schema (Src.NewFloatNode schema value pos readerPos) = schema ∧
    Src.FloatNode_Value (Src.NewFloatNode schema value pos readerPos) = TermPrelude.Val.ofFloat64 value ∧
    Src.FloatNode_Pos (Src.NewFloatNode schema value pos readerPos) = pos ∧
    Src.FloatNode_ReaderPos (Src.NewFloatNode schema value pos readerPos) = readerPos :=
  ⟨rfl, rfl, rfl, rfl, rfl⟩

theorem c08r_float_setReaderPos (n : Src.FloatNode) (f : Int → Int) :
    Src.FloatNode_ReaderPos (Src.FloatNode_SetReaderPos n f) = f (Src.FloatNode_ReaderPos n) ∧
    Src.FloatNode_Pos (Src.FloatNode_SetReaderPos n f) = Src.FloatNode_Pos n ∧
    Src.FloatNode_Token (Src.FloatNode_SetReaderPos n f) = Src.FloatNode_Token n ∧
    Src.FloatNode_Value (Src.FloatNode_SetReaderPos n f) = Src.FloatNode_Value n ∧
    Src.FloatNode_Schema (Src.FloatNode_SetReaderPos n f) = Src.FloatNode_Schema n :=
  ⟨rfl, rfl, rfl, rfl, rfl⟩

theorem c08r_float_prelude (schema : CorePrelude.Opaque) (value : TermPrelude.Float64) (pos readerPos : Int) :
    c08r_floatLeaf (Src.NewFloatNode schema value pos readerPos) = TermPrelude.NewFloatNode schema value pos readerPos := rfl

theorem c08r_float_model (schema : CorePrelude.Opaque) (lex : List Nat) (pos rpos : Nat) :
    c08r_floatLeaf (Src.NewFloatNode schema (lex.map Int.ofNat) (pos : Int) (rpos : Int)) = eNode (.term (tokOf "FLOAT") (Val.float lex) pos rpos) := by
  rw [TermTie.eNode_term]; rfl

/-! ### IntegerNode -/

/-- the leaf a IntegerNode's methods describe -/
def c08r_integerLeaf (n : Src.IntegerNode) : CNode := .leaf (Src.IntegerNode_Token n) (Src.IntegerNode_Value n) (Src.IntegerNode_Pos n) (Src.IntegerNode_ReaderPos n)

theorem c08r_integer_accessors (schema : CorePrelude.Opaque) (value : Int) (pos readerPos : Int) :
    Src.IntegerNode_Token (Src.NewIntegerNode schema value pos readerPos) = CorePrelude.Go.str "INTEGER" ∧
    Src.IntegerNode_Schema (Src.NewIntegerNode schema value pos readerPos) = schema ∧
    Src.IntegerNode_Value (Src.NewIntegerNode schema value pos readerPos) = TermPrelude.Val.ofInt64 value ∧
    Src.IntegerNode_Pos (Src.NewIntegerNode schema value pos readerPos) = pos ∧
    Src.IntegerNode_ReaderPos (Src.NewIntegerNode schema value pos readerPos) = readerPos :=
  ⟨rfl, rfl, rfl, rfl, rfl⟩

theorem c08r_integer_setReaderPos (n : Src.IntegerNode) (f : Int → Int) :
    Src.IntegerNode_ReaderPos (Src.IntegerNode_SetReaderPos n f) = f (Src.IntegerNode_ReaderPos n) ∧
    Src.IntegerNode_Pos (Src.IntegerNode_SetReaderPos n f) = Src.IntegerNode_Pos n ∧
    Src.IntegerNode_Token (Src.IntegerNode_SetReaderPos n f) = Src.IntegerNode_Token n ∧
    Src.IntegerNode_Value (Src.IntegerNode_SetReaderPos n f) = Src.IntegerNode_Value n ∧
    Src.IntegerNode_Schema (Src.IntegerNode_SetReaderPos n f) = Src.IntegerNode_Schema n :=
  ⟨rfl, rfl, rfl, rfl, rfl⟩

theorem c08r_integer_prelude (schema : CorePrelude.Opaque) (value : Int) (pos readerPos : Int) :
    c08r_integerLeaf (Src.NewIntegerNode schema value pos readerPos) = TermPrelude.NewIntegerNode schema value pos readerPos := rfl

theorem c08r_integer_model (schema : CorePrelude.Opaque) (value : Int) (pos rpos : Nat) :
    c08r_integerLeaf (Src.NewIntegerNode schema value (pos : Int) (rpos : Int)) = eNode (.term (tokOf "INTEGER") (Val.int value) pos rpos) := by
  rw [TermTie.eNode_term]; rfl

/-! ### StringNode -/

/-- the leaf a StringNode's methods describe -/
def c08r_stringLeaf (n : Src.StringNode) : CNode := .leaf (Src.StringNode_Token n) (Src.StringNode_Value n) (Src.StringNode_Pos n) (Src.StringNode_ReaderPos n)

theorem c08r_string_accessors (schema : CorePrelude.Opaque) (value : List Nat) (pos readerPos : Int) :
    Src.StringNode_Token (Src.NewStringNode schema value pos readerPos) = CorePrelude.Go.str "STRING" ∧
    Src.StringNode_Schema (Src.NewStringNode schema value pos readerPos) = schema ∧
    Src.StringNode_Value (Src.NewStringNode schema value pos readerPos) = TermPrelude.Val.ofString value ∧
    Src.StringNode_Pos (Src.NewStringNode schema value pos readerPos) = pos ∧
    Src.StringNode_ReaderPos (Src.NewStringNode schema value pos readerPos) = readerPos :=
  ⟨rfl, rfl, rfl, rfl, rfl⟩

theorem c08r_string_setReaderPos (n : Src.StringNode) (f : Int → Int) :
    Src.StringNode_ReaderPos (Src.StringNode_SetReaderPos n f) = f (Src.StringNode_ReaderPos n) ∧
    Src.StringNode_Pos (Src.StringNode_SetReaderPos n f) = Src.StringNode_Pos n ∧
    Src.StringNode_Token (Src.StringNode_SetReaderPos n f) = Src.StringNode_Token n ∧
    Src.StringNode_Value (Src.StringNode_SetReaderPos n f) = Src.StringNode_Value n ∧
    Src.StringNode_Schema (Src.StringNode_SetReaderPos n f) = Src.StringNode_Schema n :=
  ⟨rfl, rfl, rfl, rfl, rfl⟩

theorem c08r_string_prelude (schema : CorePrelude.Opaque) (value : List Nat) (pos readerPos : Int) :
    c08r_stringLeaf (Src.NewStringNode schema value pos readerPos) = TermPrelude.NewStringNode schema value pos readerPos := rfl

theorem c08r_string_model (schema : CorePrelude.Opaque) (value : List Nat) (pos rpos : Nat) :
    c08r_stringLeaf (Src.NewStringNode schema value (pos : Int) (rpos : Int)) = eNode (.term (tokOf "STRING") (Val.str value) pos rpos) := by
  rw [TermTie.eNode_term]; rfl

/-! ### TimeDurationNode -/

/-- the leaf a TimeDurationNode's methods describe -/
def c08r_timeDurationLeaf (n : Src.TimeDurationNode) : CNode := .leaf (Src.TimeDurationNode_Token n) (Src.TimeDurationNode_Value n) (Src.TimeDurationNode_Pos n) (Src.TimeDurationNode_ReaderPos n)

theorem c08r_timeDuration_accessors (schema : CorePrelude.Opaque) (value : TermPrelude.Duration) (pos readerPos : Int) :
    Src.TimeDurationNode_Token (Src.NewTimeDurationNode schema value pos readerPos) = CorePrelude.Go.str "TIME_DURATION" ∧
    Src.TimeDurationNode_Schema (Src.NewTimeDurationNode schema value pos readerPos) = schema ∧
    Src.TimeDurationNode_Value (Src.NewTimeDurationNode schema value pos readerPos) = TermPrelude.Val.ofDuration value ∧
    Src.TimeDurationNode_Pos (Src.NewTimeDurationNode schema value pos readerPos) = pos ∧
    Src.TimeDurationNode_ReaderPos (Src.NewTimeDurationNode schema value pos readerPos) = readerPos :=
  ⟨rfl, rfl, rfl, rfl, rfl⟩

theorem c08r_timeDuration_setReaderPos (n : Src.TimeDurationNode) (f : Int → Int) :
    Src.TimeDurationNode_ReaderPos (Src.TimeDurationNode_SetReaderPos n f) = f (Src.TimeDurationNode_ReaderPos n) ∧
    Src.TimeDurationNode_Pos (Src.TimeDurationNode_SetReaderPos n f) = Src.TimeDurationNode_Pos n ∧
    Src.TimeDurationNode_Token (Src.TimeDurationNode_SetReaderPos n f) = Src.TimeDurationNode_Token n ∧
    Src.TimeDurationNode_Value (Src.TimeDurationNode_SetReaderPos n f) = Src.TimeDurationNode_Value n ∧
    Src.TimeDurationNode_Schema (Src.TimeDurationNode_SetReaderPos n f) = Src.TimeDurationNode_Schema n :=
  ⟨rfl, rfl, rfl, rfl, rfl⟩

theorem c08r_timeDuration_prelude (schema : CorePrelude.Opaque) (value : TermPrelude.Duration) (pos readerPos : Int) :
    c08r_timeDurationLeaf (Src.NewTimeDurationNode schema value pos readerPos) = TermPrelude.NewTimeDurationNode schema value pos readerPos := rfl

theorem c08r_timeDuration_model (schema : CorePrelude.Opaque) (lex : List Nat) (pos rpos : Nat) :
    c08r_timeDurationLeaf (Src.NewTimeDurationNode schema (lex.map Int.ofNat) (pos : Int) (rpos : Int)) = eNode (.term (tokOf "TIME_DURATION") (Val.dur lex) pos rpos) := by
  rw [TermTie.eNode_term]; rfl

/-! ### NilNode -/

/-- the leaf a NilNode's methods describe -/
def c08r_nilLeaf (n : Src.NilNode) : CNode := .leaf (Src.NilNode_Token n) (Src.NilNode_Value n) (Src.NilNode_Pos n) (Src.NilNode_ReaderPos n)

theorem c08r_nil_accessors (schema : CorePrelude.Opaque) (pos readerPos : Int) :
    Src.NilNode_Token (Src.NewNilNode schema pos readerPos) = CorePrelude.Go.str "NIL" ∧
    Src.NilNode_Schema (Src.NewNilNode schema pos readerPos) = schema ∧
    Src.NilNode_Value (Src.NewNilNode schema pos readerPos) = TermPrelude.Val.nil ∧
    Src.NilNode_Pos (Src.NewNilNode schema pos readerPos) = pos ∧
    Src.NilNode_ReaderPos (Src.NewNilNode schema pos readerPos) = readerPos :=
  ⟨rfl, rfl, rfl, rfl, rfl⟩

theorem c08r_nil_setReaderPos (n : Src.NilNode) (f : Int → Int) :
    Src.NilNode_ReaderPos (Src.NilNode_SetReaderPos n f) = f (Src.NilNode_ReaderPos n) ∧
    Src.NilNode_Pos (Src.NilNode_SetReaderPos n f) = Src.NilNode_Pos n ∧
    Src.NilNode_Token (Src.NilNode_SetReaderPos n f) = Src.NilNode_Token n ∧
    Src.NilNode_Value (Src.NilNode_SetReaderPos n f) = Src.NilNode_Value n ∧
    Src.NilNode_Schema (Src.NilNode_SetReaderPos n f) = Src.NilNode_Schema n :=
  ⟨rfl, rfl, rfl, rfl, rfl⟩

theorem c08r_nil_prelude (schema : CorePrelude.Opaque) (pos readerPos : Int) :
    c08r_nilLeaf (Src.NewNilNode schema pos readerPos) = TermPrelude.NewNilNode schema pos readerPos := rfl

theorem c08r_nil_model (schema : CorePrelude.Opaque) (pos rpos : Nat) :
    c08r_nilLeaf (Src.NewNilNode schema (pos : Int) (rpos : Int)) = eNode (.term (tokOf "NIL") (Val.nil) pos rpos) := by
  rw [TermTie.eNode_term]; rfl

/-! ### OpNode -/

/-- the leaf a OpNode's methods describe -/
def c08r_opLeaf (n : Src.OpNode) : CNode := .leaf (Src.OpNode_Token n) (Src.OpNode_Value n) (Src.OpNode_Pos n) (Src.OpNode_ReaderPos n)

theorem c08r_op_accessors (value : List Nat) (pos readerPos : Int) :
    Src.OpNode_Token (Src.NewOpNode value pos readerPos) = value ∧
    Src.OpNode_Schema (Src.NewOpNode value pos readerPos) = TermPrelude.Val.nil ∧
    Src.OpNode_Value (Src.NewOpNode value pos readerPos) = TermPrelude.Val.ofString value ∧
    Src.OpNode_Pos (Src.NewOpNode value pos readerPos) = pos ∧
    Src.OpNode_ReaderPos (Src.NewOpNode value pos readerPos) = readerPos :=
  ⟨rfl, rfl, rfl, rfl, rfl⟩

theorem c08r_op_setReaderPos (n : Src.OpNode) (f : Int → Int) :
    Src.OpNode_ReaderPos (Src.OpNode_SetReaderPos n f) = f (Src.OpNode_ReaderPos n) ∧
    Src.OpNode_Pos (Src.OpNode_SetReaderPos n f) = Src.OpNode_Pos n ∧
    Src.OpNode_Token (Src.OpNode_SetReaderPos n f) = Src.OpNode_Token n ∧
    Src.OpNode_Value (Src.OpNode_SetReaderPos n f) = Src.OpNode_Value n ∧
    Src.OpNode_Schema (Src.OpNode_SetReaderPos n f) = Src.OpNode_Schema n :=
  ⟨rfl, rfl, rfl, rfl, rfl⟩

theorem c08r_op_prelude (value : List Nat) (pos readerPos : Int) :
    c08r_opLeaf (Src.NewOpNode value pos readerPos) = TermPrelude.NewOpNode value pos readerPos := rfl

theorem c08r_op_model (value : List Nat) (pos rpos : Nat) :
    c08r_opLeaf (Src.NewOpNode value (pos : Int) (rpos : Int)) = eNode (.term value (Val.str value) pos rpos) := by
  rw [TermTie.eNode_term]; rfl

/-! ### TerminalNode -/

/-- the leaf a TerminalNode's methods describe -/
def c08r_terminalLeaf (n : Src.TerminalNode) : CNode := .leaf (Src.TerminalNode_Token n) (Src.TerminalNode_Value n) (Src.TerminalNode_Pos n) (Src.TerminalNode_ReaderPos n)

theorem c08r_terminal_accessors (schema : CorePrelude.Opaque) (token : List Nat) (value : CorePrelude.Opaque) (pos readerPos : Int) :
    Src.TerminalNode_Token (Src.NewTerminalNode schema token value pos readerPos) = token ∧
    Src.TerminalNode_Schema (Src.NewTerminalNode schema token value pos readerPos) = schema ∧
    Src.TerminalNode_Value (Src.NewTerminalNode schema token value pos readerPos) = value ∧
    Src.TerminalNode_Pos (Src.NewTerminalNode schema token value pos readerPos) = pos ∧
    Src.TerminalNode_ReaderPos (Src.NewTerminalNode schema token value pos readerPos) = readerPos :=
  ⟨rfl, rfl, rfl, rfl, rfl⟩

theorem c08r_terminal_setReaderPos (n : Src.TerminalNode) (f : Int → Int) :
    Src.TerminalNode_ReaderPos (Src.TerminalNode_SetReaderPos n f) = f (Src.TerminalNode_ReaderPos n) ∧
    Src.TerminalNode_Pos (Src.TerminalNode_SetReaderPos n f) = Src.TerminalNode_Pos n ∧
    Src.TerminalNode_Token (Src.TerminalNode_SetReaderPos n f) = Src.TerminalNode_Token n ∧
    Src.TerminalNode_Value (Src.TerminalNode_SetReaderPos n f) = Src.TerminalNode_Value n ∧
    Src.TerminalNode_Schema (Src.TerminalNode_SetReaderPos n f) = Src.TerminalNode_Schema n :=
  ⟨rfl, rfl, rfl, rfl, rfl⟩

theorem c08r_terminal_prelude (schema : CorePrelude.Opaque) (token : List Nat) (value : CorePrelude.Opaque) (pos readerPos : Int) :
    c08r_terminalLeaf (Src.NewTerminalNode schema token value pos readerPos) = TermPrelude.NewTerminalNode schema token value pos readerPos := rfl

theorem c08r_terminal_model (schema : CorePrelude.Opaque) (token : List Nat) (value : Val) (pos rpos : Nat) :
    c08r_terminalLeaf (Src.NewTerminalNode schema token (eVal value) (pos : Int) (rpos : Int)) = eNode (.term token (value) pos rpos) := by
  rw [TermTie.eNode_term]; rfl

/-- all nine node types at once: what the translated closures' prelude constructors build is what the source's constructors
    and methods say -/
theorem c08r_prelude_constructors :
    (∀ s v p r, c08r_boolLeaf (Src.NewBoolNode s v p r) = TermPrelude.NewBoolNode s v p r) ∧
    (∀ s v p r, c08r_charLeaf (Src.NewCharNode s v p r) = TermPrelude.NewCharNode s v p r) ∧
    (∀ s v p r, c08r_floatLeaf (Src.NewFloatNode s v p r) = TermPrelude.NewFloatNode s v p r) ∧
    (∀ s v p r, c08r_integerLeaf (Src.NewIntegerNode s v p r) = TermPrelude.NewIntegerNode s v p r) ∧
    (∀ s p r, c08r_nilLeaf (Src.NewNilNode s p r) = TermPrelude.NewNilNode s p r) ∧
    (∀ v p r, c08r_opLeaf (Src.NewOpNode v p r) = TermPrelude.NewOpNode v p r) ∧
    (∀ s v p r, c08r_stringLeaf (Src.NewStringNode s v p r) = TermPrelude.NewStringNode s v p r) ∧
    (∀ s v p r, c08r_timeDurationLeaf (Src.NewTimeDurationNode s v p r) = TermPrelude.NewTimeDurationNode s v p r) ∧
    (∀ s t v p r, c08r_terminalLeaf (Src.NewTerminalNode s t v p r) = TermPrelude.NewTerminalNode s t v p r) :=
  ⟨fun _ _ _ _ => rfl, fun _ _ _ _ => rfl, fun _ _ _ _ => rfl, fun _ _ _ _ => rfl, fun _ _ _ => rfl, fun _ _ _ => rfl,
   fun _ _ _ _ => rfl, fun _ _ _ _ => rfl, fun _ _ _ _ _ => rfl⟩

end PV
