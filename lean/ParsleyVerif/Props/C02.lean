/-
  C02 — Every memoized grammar terminates with bounded re-entry per position.

  Model: ParsleyVerif/Model/Run.lean.  The ghost field `St.active` is the stack of memoized bodies that
  are running (pushed when Memoize starts its wrapped parser, popped when it returns); the ghost event
  `Ev.body idx pos d` is logged each time the body of Memoize `idx` starts at `pos`, `d` being the number
  of activations of `(idx, pos)` on the stack including the new one.  The correspondence run compares
  these maxima, per (parser, position), with probes placed inside every Memoize of the real library.

  Proved here, for EVERY grammar over the combinator set (no well-formedness hypothesis), every input and
  every fuel for which `run` answers:

  * `c02_reentry`   no memoized parser is ever active more than `remaining input + 2` times at one position;
  * `c02_balanced`  every call leaves the activation stack as it found it;
  * `c02_fuel_mono` fuel bounds recursion depth only: once `run` answers, every larger fuel gives the same
                    answer (so "terminates" means: some fuel suffices).

  TERMINATION itself (`c02_terminates`: for every grammar accepted by the decidable certificate `wf` some
  fuel suffices, from every reachable state) is proved in Props/C02T.lean.  On every run the harness also
  executes every generated certified grammar on the real library under a stack limit, a timeout and an
  activation probe that aborts when the bound is exceeded.
-/
import ParsleyVerif.Proofs.RunPos
import ParsleyVerif.Proofs.RunMono
import ParsleyVerif.Proofs.FactsTie
namespace PV
open PV.Text

theorem c02_slack : Facts.curtailSlack ≤ 1 := by decide

/-- **C02 re-entry bound**, from any state a parse can reach (`Pre`) -/
theorem c02_reentry_from (cfg : Cfg) (g : G) (hs : Scope cfg g) (fuel : Nat) (ctx : Ctx) (pos : Nat) (st : St)
    (o : Out) (st' : St) (hpre : Pre cfg ctx pos st) (h : run cfg fuel g ctx pos st = some (o, st')) :
    ∀ idx p d, Ev.body idx p d ∈ st'.log → d ≤ remaining cfg.file p + 2 := by
  intro idx p d hm
  have := (run_pos cfg hs.env fuel g ctx pos st o st' hs.root hpre h).stOK.log idx p d hm
  have := c02_slack
  omega

/-- **C02 re-entry bound** for a whole parse -/
theorem c02_reentry (cfg : Cfg) (g : G) (hs : Scope cfg g) (fuel : Nat) (o : Out) (st' : St)
    (h : run cfg fuel g [] (cfg.file.pos 0) {} = some (o, st')) :
    ∀ idx p d, Ev.body idx p d ∈ st'.log → d ≤ remaining cfg.file p + 2 := by
  refine c02_reentry_from cfg g hs fuel [] _ {} o st' ?_ h
  refine ⟨⟨by simp [File.pos], by simp [File.pos]⟩, ⟨(by intro e he; cases he), (by intro er her; cases her), (by intro i p d hm; cases hm)⟩, ?_⟩
  exact ⟨(by intro a ha; cases ha), (by intro k; simp [actCount, Ctx.get])⟩

/-- the number logged with a body event is the number of live activations of that parser at that
    position, counted on the activation stack at the moment the body starts -/
theorem c02_depth_is_count (act : List (Nat × Nat)) (idx pos : Nat) :
    actCount ((idx, pos) :: act) idx pos = (act.filter (fun a => a.1 == idx && a.2 == pos)).length + 1 := by
  simp [actCount, List.filter_cons]

theorem c02_balanced (cfg : Cfg) (g : G) (hs : Scope cfg g) (fuel : Nat) (ctx : Ctx) (pos : Nat) (st : St)
    (o : Out) (st' : St) (hpre : Pre cfg ctx pos st) (h : run cfg fuel g ctx pos st = some (o, st')) :
    st'.active = st.active :=
  (run_pos cfg hs.env fuel g ctx pos st o st' hs.root hpre h).active

theorem c02_fuel_mono (cfg : Cfg) (f1 f2 : Nat) (hle : f1 ≤ f2) (g : G) (ctx : Ctx) (pos : Nat) (st : St)
    (x : Out × St) (h : run cfg f1 g ctx pos st = some x) : run cfg f2 g ctx pos st = some x :=
  run_mono cfg f1 f2 hle g ctx pos st x h

/-- non-vacuity: `P → P b | a` on "abb": the body of `P` is active 5 = remaining + 2 times at the
    first byte — the bound is attained —, by evaluation of the model -/
def nv2Cfg : Cfg :=
  { env := [.memo 0 (.any [.seq .seqOf [.ref 0, .term (.rune 98 [34, 98, 34])] {}, .term (.rune 97 [34, 97, 34])])],
    file := { name := "f", data := [97, 98, 98], offset := 1 }, fileSet := {},
    params := { floatOk := fun _ => true, durErr := fun _ => none, regexp := fun _ _ => none } }

def bodyDepths : List Ev → List (Nat × Nat)
  | [] => []
  | .body _ p d :: r => (p, d) :: bodyDepths r
  | _ :: r => bodyDepths r

example : ((run nv2Cfg 40 (.ref 0) [] 1 {}).map (fun r => bodyDepths r.2.log)) = some [(1, 5), (1, 4), (1, 3), (1, 2), (1, 1)] := by
  decide

/-- Remaining, TRANSLATED from the Go source on every run, is the model's (Generated/FactsFn.lean, Proofs/FactsTie.lean).
    (The curtailment test of Memoize and the context-reset test of the sequence were two more conjuncts, each found by
    the text of the `if` it stood in; they are subsumed by the translation of the whole functions — Props/C01P.lean
    `c01_translated_core` (Memoize), `c01p_sequence_machinery` (parseNext), built and audited with this property —
    which a restructuring of those functions does not break.) -/
theorem c02_translated_conditions :
    (∀ f pos, remaining f pos = FactsFn.remaining f.len pos f.offset) :=
  tie_remaining

/- (the text facts that stood here - condition lists and statement orders of Memoize, ResultCache, Any, Choice, the Sequence
   machinery, ReturnError, SetError, Parse, re-read from the source as normalised text - are subsumed since translator v3: the
   functions themselves are translated from the source on every run and the model is PROVED to agree with the translation
   (Props/C01P.lean, built and audited by this property's check).  Unlike a text comparison, that tie is not broken by an
   equivalent rewrite of the source.) -/
theorem c02_facts : Facts.curtailSlack = 1 := rfl

/-
  **C02 termination — the statement as first written; proved (per call, not with a uniform F) as `c02_terminates` in Props/C02T.lean:**

    theorem c02_terminates_STATEMENT (cert) (wf : WF cert cfg.env g) (hpos : InFile cfg.file pos) :
        ∃ F, ∀ fuel ≥ F, ∀ ctx st, Reach st → (run { cfg with maxCalls := 0 } fuel g ctx pos st).isSome
-/

end PV
