/-
  C06 — Parse errors point at the furthest failure and render a real line:column.

  Model: ParsleyVerif/Model/Run.lean.  The ghost log `St.log` (never read by modelled code; `cfg.ghost =
  true`) receives `Ev.termFail pos kind` exactly when a terminal or End was tried at `pos` and did not
  match.  Error values live in: the returned `Out.err`, a Sequence object's `SeqSt.err`, Any / Choice's
  `AltSt.err` / `AltSt.nf`, the context error `St.ctxErr`, a cached `CacheEntry.err`; `parse` picks between
  the returned error and the context error and renders it through the file set.
  Invariant proofs (induction on fuel over all cases of `run`, positional facts from Proofs/RunPos.lean):
  Proofs/RunErr.lean (`run_err`: where error values come from, parametric in the error predicate) and
  Proofs/RunLow.lean + Proofs/RunLowRun.lean (`run_low`: no terminal failure is lost); the names of a grammar
  as lists: Proofs/GrammarNames.lean.

  PROVED, for every grammar over the combinator set without whitespace trims (direct / indirect / hidden
  left recursion, memoized nonterminals, cyclic and nullable rules, named or unnamed alternatives), every
  file, every left-recursion context, every fuel, every reachable cache state:

  UPPER BOUND / "an expectation that really failed there"
  * `c06_provenance`           every error value anywhere (returned, context error, cached) is `ErrOK`:
                               (a) exactly a logged terminal failure — same position, same expectation; or
                               (b) "was expecting <nm>" for a name `nm` of the grammar, at a position where
                                   a terminal failure is logged (the Name re-labelled it), or
                               (c) "was expecting <nm>" at a position where the body of a Name of the grammar
                                   returned neither a result nor an error (`PureFail`: failure by
                                   curtailment / emptiness only — the D8 shape);
                               (d) a panic, only if the grammar can panic at all (`AP`; `False` by C08).
  * `c06_upper_named(_parse,_sentence,_canonical)`
                               hence: position ≤ furthest failing terminal, OR shape (c).  `_canonical`: the
                               name relations are computed from the grammar (`NameOf`, `LabelOf`).
  * `c06_upper_unnamed(_parse,_sentence)`
                               no `Name`, no named Sequence: every error is EXACTLY a logged terminal
                               failure (position ≤ furthest failing terminal, and the expectation really
                               failed there); `parse` reports such an error or — when there is no error
                               value at all — the synthesised "no match was found" at the start of input.
  * `c06_upper_needs_productive`  D8, by evaluation: with an unproductive named nonterminal the reported
                               position is BEYOND every terminal failure, although all hypotheses of
                               `c06_upper_named_sentence` hold — so shape (c) cannot be dropped without a
                               productivity hypothesis (recorded known finding D8).  `c06_d8_is_pure_fail`:
                               and it is exactly shape (c).

  LOWER BOUND / EXACTNESS
  * `c06_lower_run`, `c06_lower_parse`
                               every terminal failure of a failing parse is at or before the reported
                               position, unless a memoized parser was curtailed at or after it (`LocLow`: no
                               SuppressError, no Any / Choice / SeqTry without parsers, no token "EOF").
  * `c06_exact_partial`        unnamed grammars: when nothing was curtailed at or beyond the furthest failing
                               terminal (`NoCurtailBeyond`, decidable on the log; every run that never
                               curtails), the reported position EQUALS the furthest failing terminal and the
                               reported expectation failed there.  No Name is needed (fix D3).
  * `c06_exact_partial_named`  named grammars: never BEFORE the furthest failing terminal; equal unless
                               shape (c).
  * `c06_exact_needs_no_suppress`  by evaluation: `SuppressError` discards the furthest failure, the reported
                               position is BEFORE the furthest failing terminal (by design of that
                               combinator; hence its exclusion in `LocLow`).

  `parse` AND THE TEXT
  * `parse_err_cases`, `c06_parse_prefers_further`, `c06_parse_no_returned_error`   how `parse` chooses
                               (strict `>`: ties keep the returned error).
  * `c06_text`                 the text is "failed to parse the input: <expectation> at <file>:<line>:<col>"
                               with (line, col) = C11's `lineCol` of the error's offset in the parsed file.
  * (the source conditions the model transcribes are tied by translation: Props/C01P.lean)

  NOT proved (statements kept at the end of the file): `c06_upper_STATEMENT` (named grammars under
  `Productive`: shape (c) never beyond a terminal failure) and `c06_exact_STATEMENT` (equality without the
  side condition on curtailment).  What is missing is said there.
-/
import ParsleyVerif.Proofs.RunErr
import ParsleyVerif.Proofs.GrammarNames
import ParsleyVerif.Proofs.RunLowRun
import ParsleyVerif.Props.C01
import ParsleyVerif.Props.C08
import ParsleyVerif.Props.C11
import ParsleyVerif.Generated.Facts
namespace PV
open PV.Text

/-! ### vocabulary -/

/-- the error is exactly a logged failure: a terminal / End was tried at `e.pos`, did not match, and `e.kind`
    is the expectation it reported -/
def TF (log : List Ev) (e : Err) : Prop := Ev.termFail e.pos e.kind ∈ log

/-- some terminal / End was tried at `p` and did not match -/
def TFat (log : List Ev) (p : Nat) : Prop := ∃ k, Ev.termFail p k ∈ log

def termFailPositions : List Ev → List Nat
  | [] => []
  | .termFail p _ :: r => p :: termFailPositions r
  | _ :: r => termFailPositions r

/-- the furthest position at which a terminal / End was tried and did not match (0 when there is none) -/
def maxTermFail (log : List Ev) : Nat := (termFailPositions log).foldr max 0

theorem le_maxTermFail {log : List Ev} {p : Nat} {k : ErrKind} (h : Ev.termFail p k ∈ log) :
    p ≤ maxTermFail log := by
  induction log with
  | nil => cases h
  | cons ev log ih =>
    cases h with
    | head =>
      simp only [maxTermFail, termFailPositions, List.foldr_cons]
      exact Nat.le_max_left _ _
    | tail _ hm =>
      have := ih hm
      cases ev <;> simp only [maxTermFail, termFailPositions, List.foldr_cons] at this ⊢
      · exact Nat.le_trans this (Nat.le_max_right _ _)
      all_goals exact this

/-- the maximum is attained (when it is not the default 0) -/
theorem maxTermFail_attained (log : List Ev) : maxTermFail log = 0 ∨ TFat log (maxTermFail log) := by
  induction log with
  | nil => exact .inl rfl
  | cons ev log ih =>
    have hmono : ∀ p, TFat log p → TFat (ev :: log) p := fun p ⟨k, hk⟩ => ⟨k, List.mem_cons_of_mem _ hk⟩
    cases ev with
    | termFail p k =>
      have e : maxTermFail (Ev.termFail p k :: log) = max p (maxTermFail log) := rfl
      rw [e]
      by_cases hc : maxTermFail log ≤ p
      · rw [Nat.max_eq_left hc]; exact .inr ⟨k, List.mem_cons_self ..⟩
      · rw [Nat.max_eq_right (by omega)]
        cases ih with
        | inl h0 => exact .inl h0
        | inr h1 => exact .inr (hmono _ h1)
    | body i p d =>
      have e : maxTermFail (Ev.body i p d :: log) = maxTermFail log := rfl
      rw [e]; exact ih.imp id (hmono _)
    | hit i p =>
      have e : maxTermFail (Ev.hit i p :: log) = maxTermFail log := rfl
      rw [e]; exact ih.imp id (hmono _)
    | curtail i p =>
      have e : maxTermFail (Ev.curtail i p :: log) = maxTermFail log := rfl
      rw [e]; exact ih.imp id (hmono _)

/-- the body `g` of some `Name(g, nm)` of the grammar (`S g nm`) was run at `p` and returned neither a result
    nor an error, before the log reached `log`: the only way a Name produces an error that no terminal
    failure stands behind (curtailment, an empty Any / Choice, a suppressed error) -/
def PureFail (cfg : Cfg) (S : G → Bytes → Prop) (log : List Ev) (p : Nat) : Prop :=
  ∃ fuel g nm ctx st o st', S g nm ∧ run cfg fuel g ctx p st = some (o, st') ∧
    o.err = none ∧ o.res.isNil = true ∧ st'.log <:+ log

/-- "was expecting <nm>" for a name of the grammar -/
def NamedNF (Nm : Bytes → Prop) (e : Err) : Prop := ∃ nm, Nm nm ∧ e.kind = .notFound nm

/-- where an error value comes from.  `S g nm`: `Name(g, nm)` occurs in the grammar; `Nm nm`: some Name or
    named Sequence carries `nm`; `AP`: the grammar may panic (`LocErr`, Proofs/RunErr.lean) -/
def ErrOK (cfg : Cfg) (S : G → Bytes → Prop) (Nm : Bytes → Prop) (AP : Prop) (log : List Ev) (e : Err) : Prop :=
  TF log e ∨ (NamedNF Nm e ∧ (TFat log e.pos ∨ PureFail cfg S log e.pos)) ∨ (AP ∧ ∃ s, e.kind = .panic s)

theorem errInv_ErrOK (cfg : Cfg) (S : G → Bytes → Prop) (Nm : Bytes → Prop) (AP : Prop) :
    ErrInv cfg S Nm AP (ErrOK cfg S Nm AP) where
  mono := by
    intro log log' e hl h
    rcases h with h | ⟨hn, h⟩ | h
    · exact .inl (hl.subset h)
    · refine .inr (.inl ⟨hn, ?_⟩)
      rcases h with ⟨k, hk⟩ | ⟨fuel, g, nm, ctx, st, o, st', h1, h2, h3, h4, h5⟩
      · exact .inl ⟨k, hl.subset hk⟩
      · exact .inr ⟨fuel, g, nm, ctx, st, o, st', h1, h2, h3, h4, h5.trans hl⟩
    · exact .inr (.inr h)
  logged := fun log p k => .inl (List.mem_cons_self ..)
  panic := fun hap log p s => .inr (.inr ⟨hap, s, rfl⟩)
  rename := by
    intro log e nm h hnf hnm
    rcases h with h | ⟨_, h⟩ | ⟨_, s, hs⟩
    · exact .inr (.inl ⟨⟨nm, hnm, rfl⟩, .inl ⟨e.kind, h⟩⟩)
    · exact .inr (.inl ⟨⟨nm, hnm, rfl⟩, h⟩)
    · rw [hs] at hnf; cases hnf
  create := by
    intro fuel g nm ctx pos st o st' hS hnm hr he hn
    exact .inr (.inl ⟨⟨nm, hnm, rfl⟩, .inr ⟨fuel, g, nm, ctx, st, o, st', hS, hr, he, hn, List.suffix_refl _⟩⟩)

/-- a grammar without `Name`, without named Sequences, whose terminals do not panic inside the file and
    whose references resolve -/
def Unnamed (cfg : Cfg) (g : G) : Prop := g.All (LocErr cfg (fun _ _ => False) (fun _ => False) False)

theorem errInv_TF (cfg : Cfg) : ErrInv cfg (fun _ _ => False) (fun _ => False) False TF where
  mono := fun _ _ _ hl h => hl.subset h
  logged := fun log p k => List.mem_cons_self ..
  panic := fun h => h.elim
  rename := fun _ _ _ _ _ h => h.elim
  create := fun _ _ _ _ _ _ _ _ h => h.elim

/-! ### how `parse` chooses the error it reports -/

/-- the error `parse` starts from: the returned one, or — no result and no error — the context error / the
    synthesised one -/
def parseErr0 (cfg : Cfg) (o : Out) (st' : St) : Option Err :=
  if o.res.isNil && o.err.isNone then
    (match st'.ctxErr with | some ce => some ce | none => some ⟨cfg.file.pos 0, .other noMatchMsg⟩)
  else o.err

/-- the choice between that error and the context error -/
def pickReported (e : Err) (c : Option Err) : Err :=
  if !e.kind.isWs then (match c with | some ce => if ce.pos > e.pos then ce else e | none => e) else e

theorem parse_unfold (cfg : Cfg) (fuel : Nat) (g : G) (st : St) (o : Out) (st' : St)
    (hr : run cfg fuel g [] (cfg.file.pos 0) st = some (o, st')) :
    parse cfg fuel g st = some (match parseErr0 cfg o st' with
      | some e => { res := .nil, err := some (pickReported e st'.ctxErr),
                    msg := some (failedPrefix ++ errorWithPosition cfg.fileSet (pickReported e st'.ctxErr)), st := st' }
      | none => { res := o.res, err := none, msg := none, st := st' }) := by
  unfold parse
  simp only [hr]
  unfold parseErr0 pickReported
  by_cases hc : (o.res.isNil && o.err.isNone) = true
  · simp only [hc, ↓reduceIte]
    cases st'.ctxErr <;> rfl
  · simp only [hc]
    cases o.err <;> rfl

theorem parse_run (cfg : Cfg) (fuel : Nat) (g : G) (st : St) (r : ParseOut) (h : parse cfg fuel g st = some r) :
    ∃ o st', run cfg fuel g [] (cfg.file.pos 0) st = some (o, st') := by
  cases hr : run cfg fuel g [] (cfg.file.pos 0) st with
  | none => simp [parse, hr] at h
  | some x => exact ⟨x.1, x.2, rfl⟩

theorem pickReported_cases (e : Err) (c : Option Err) : pickReported e c = e ∨ c = some (pickReported e c) := by
  unfold pickReported
  split
  · cases c with
    | none => exact .inl rfl
    | some ce => simp only []; split; exact .inr rfl; exact .inl rfl
  · exact .inl rfl

/-- the error `parse` reports is the returned one, the context error, or — only when there is no result,
    no returned error and no context error — the synthesised "no match was found" at the start of input -/
theorem parse_err_cases (cfg : Cfg) (fuel : Nat) (g : G) (st : St) (r : ParseOut) (e : Err)
    (h : parse cfg fuel g st = some r) (he : r.err = some e) :
    ∃ o st', run cfg fuel g [] (cfg.file.pos 0) st = some (o, st') ∧ r.st = st' ∧
      (o.err = some e ∨ st'.ctxErr = some e ∨
       (o.res.isNil = true ∧ o.err = none ∧ st'.ctxErr = none ∧ e = ⟨cfg.file.pos 0, .other noMatchMsg⟩)) := by
  obtain ⟨o, st', hr⟩ := parse_run cfg fuel g st r h
  rw [parse_unfold cfg fuel g st o st' hr] at h
  refine ⟨o, st', hr, ?_⟩
  cases h0 : parseErr0 cfg o st' with
  | none => simp only [h0, Option.some.injEq] at h; subst h; cases he
  | some e1 =>
    simp only [h0, Option.some.injEq] at h
    subst h
    simp only [Option.some.injEq] at he
    refine ⟨rfl, ?_⟩
    have h1 : o.err = some e1 ∨ st'.ctxErr = some e1 ∨
        (o.res.isNil = true ∧ o.err = none ∧ st'.ctxErr = none ∧ e1 = ⟨cfg.file.pos 0, .other noMatchMsg⟩) := by
      unfold parseErr0 at h0
      split at h0
      · rename_i hc
        simp only [Bool.and_eq_true, Option.isNone_iff_eq_none] at hc
        cases hce : st'.ctxErr with
        | some ce => simp only [hce, Option.some.injEq] at h0; subst h0; exact .inr (.inl rfl)
        | none =>
          simp only [hce, Option.some.injEq] at h0
          exact .inr (.inr ⟨hc.1, hc.2, rfl, h0.symm⟩)
      · exact .inl h0
    rcases pickReported_cases e1 st'.ctxErr with h2 | h2
    · rw [h2] at he; subst he; exact h1
    · rw [he] at h2; exact .inr (.inl h2)

/-- **`parse` prefers the further error**, exactly as parse.go does it: when the parser returned an error
    `e0`, the reported error is the context error if that is STRICTLY further, otherwise `e0` (ties keep
    the returned error); a whitespace error is never replaced.  So the reported position is the maximum of
    the two. -/
theorem c06_parse_prefers_further (cfg : Cfg) (fuel : Nat) (g : G) (st : St) (o : Out) (st' : St) (e0 : Err)
    (hr : run cfg fuel g [] (cfg.file.pos 0) st = some (o, st')) (he0 : o.err = some e0) :
    ∃ r e, parse cfg fuel g st = some r ∧ r.err = some e ∧ r.st = st' ∧ r.res = .nil ∧
      (e0.kind.isWs = true → e = e0) ∧
      (e0.kind.isWs = false →
        (st'.ctxErr = none → e = e0) ∧
        (∀ ce, st'.ctxErr = some ce → (ce.pos > e0.pos → e = ce) ∧ (ce.pos ≤ e0.pos → e = e0)) ∧
        e.pos = max e0.pos ((st'.ctxErr.map Err.pos).getD 0)) := by
  have h0 : parseErr0 cfg o st' = some e0 := by
    unfold parseErr0; rw [he0]; simp
  rw [parse_unfold cfg fuel g st o st' hr, h0]
  refine ⟨_, _, rfl, rfl, rfl, rfl, ?_, ?_⟩
  · intro hws; simp [pickReported, hws]
  · intro hws
    simp only [pickReported, hws, Bool.not_false, ↓reduceIte]
    cases hce : st'.ctxErr with
    | none => simp
    | some ce =>
      simp only [Option.map_some, Option.getD_some]
      by_cases hc : ce.pos > e0.pos
      · simp only [hc, ↓reduceIte]
        refine ⟨(by intro hx; cases hx), ?_, by omega⟩
        intro ce' hce'; cases hce'
        exact ⟨fun _ => by first | rfl | trivial, fun h => by omega⟩
      · simp only [hc, ↓reduceIte]
        refine ⟨(by intro hx; cases hx), ?_, by omega⟩
        intro ce' hce'; cases hce'
        exact ⟨fun h => absurd h hc, fun _ => by first | rfl | trivial⟩

/-- when the parser returned neither a result nor an error, `parse` reports the context error, and only
    when there is none either, the synthesised "no match was found" at the start of the input -/
theorem c06_parse_no_returned_error (cfg : Cfg) (fuel : Nat) (g : G) (st : St) (o : Out) (st' : St)
    (hr : run cfg fuel g [] (cfg.file.pos 0) st = some (o, st')) (hres : o.res.isNil = true) (herr : o.err = none) :
    ∃ r, parse cfg fuel g st = some r ∧ r.st = st' ∧
      r.err = some (match st'.ctxErr with | some ce => ce | none => ⟨cfg.file.pos 0, .other noMatchMsg⟩) := by
  rw [parse_unfold cfg fuel g st o st' hr]
  cases hce : st'.ctxErr with
  | none =>
    have h0 : parseErr0 cfg o st' = some ⟨cfg.file.pos 0, .other noMatchMsg⟩ := by
      simp [parseErr0, hres, herr, hce]
    rw [h0]
    exact ⟨_, rfl, rfl, by simp [pickReported, ErrKind.isWs]⟩
  | some ce =>
    have h0 : parseErr0 cfg o st' = some ce := by
      simp [parseErr0, hres, herr, hce]
    rw [h0]
    refine ⟨_, rfl, rfl, ?_⟩
    simp only [pickReported, Option.some.injEq]
    split
    · simp
    · rfl

/-! ### C06, provenance of every error value -/

/-- **the invariant**: all grammars without trims, any cache state satisfying the invariant (the empty one
    does: `c06_pre_initial`), any left-recursion context, any fuel. -/
theorem c06_provenance (cfg : Cfg) (S : G → Bytes → Prop) (Nm : Bytes → Prop) (AP : Prop) (hgh : cfg.ghost = true)
    (g : G) (hs : Scope cfg g) (hg : g.All (LocErr cfg S Nm AP)) (henv : ∀ g' ∈ cfg.env, g'.All (LocErr cfg S Nm AP))
    (fuel : Nat) (ctx : Ctx) (pos : Nat) (st : St) (o : Out) (st' : St) (hpre : Pre cfg ctx pos st)
    (hst : StErrOK (ErrOK cfg S Nm AP) st) (h : run cfg fuel g ctx pos st = some (o, st')) :
    (∀ e, o.err = some e → ErrOK cfg S Nm AP st'.log e) ∧
    (∀ e, st'.ctxErr = some e → ErrOK cfg S Nm AP st'.log e) ∧
    (∀ c ∈ st'.cache, ∀ e, c.err = some e → ErrOK cfg S Nm AP st'.log e) ∧
    st.log <:+ st'.log := by
  have := run_err cfg S Nm AP _ (errInv_ErrOK cfg S Nm AP) hgh hs.env henv fuel g ctx pos st o st' hs.root hg hpre hst h
  exact ⟨this.err, this.st.ctxErr, this.st.cache, this.log⟩

/-- the invariant holds of the state every parse starts in, for every error predicate -/
theorem c06_pre_initial (Q : List Ev → Err → Prop) : StErrOK Q {} :=
  ⟨(by intro c hc; cases hc), (by intro er her; cases her)⟩

/-- what `ErrOK` says about the position when the grammar cannot panic: at or before the furthest failing
    terminal, or the D8 shape -/
theorem c06_upper_named (cfg : Cfg) (S : G → Bytes → Prop) (Nm : Bytes → Prop) (log : List Ev) (e : Err)
    (h : ErrOK cfg S Nm False log e) :
    (TFat log e.pos ∧ e.pos ≤ maxTermFail log ∧ (TF log e ∨ NamedNF Nm e)) ∨
    (NamedNF Nm e ∧ PureFail cfg S log e.pos) := by
  rcases h with h | ⟨hn, ⟨k, hk⟩ | hp⟩ | ⟨hf, _⟩
  · exact .inl ⟨⟨e.kind, h⟩, le_maxTermFail h, .inl h⟩
  · exact .inl ⟨⟨k, hk⟩, le_maxTermFail hk, .inr hn⟩
  · exact .inr ⟨hn, hp⟩
  · exact hf.elim

theorem sentence_scope {cfg : Cfg} {g : G} (hs : Scope cfg g) : Scope cfg (G.sentence g) :=
  ⟨by simp [G.sentence, G.Core, CoreList, hs.root], hs.env⟩

theorem sentence_loc {cfg : Cfg} {S : G → Bytes → Prop} {Nm : Bytes → Prop} {AP : Prop} {g : G}
    (hg : g.All (LocErr cfg S Nm AP)) : (G.sentence g).All (LocErr cfg S Nm AP) := by
  simp only [G.sentence, G.All, AllList, LocErr, and_true]
  exact ⟨(by intro nm hnm; cases hnm), hg⟩

/-- **named grammars, `parse`**: the reported error is at or before the furthest failing terminal (and a
    terminal really failed at that very position), or it is "was expecting <name>" at a position where a
    Name's body failed without any error (the D8 shape), or — no error value anywhere — the synthesised
    "no match was found" at the start of the input. -/
theorem c06_upper_named_parse (cfg : Cfg) (S : G → Bytes → Prop) (Nm : Bytes → Prop) (hgh : cfg.ghost = true)
    (g : G) (hs : Scope cfg g) (hg : g.All (LocErr cfg S Nm False))
    (henv : ∀ g' ∈ cfg.env, g'.All (LocErr cfg S Nm False))
    (fuel : Nat) (r : ParseOut) (e : Err) (h : parse cfg fuel g = some r) (he : r.err = some e) :
    (TFat r.st.log e.pos ∧ e.pos ≤ maxTermFail r.st.log ∧ (TF r.st.log e ∨ NamedNF Nm e)) ∨
    (NamedNF Nm e ∧ PureFail cfg S r.st.log e.pos) ∨
    (e = ⟨cfg.file.pos 0, .other noMatchMsg⟩ ∧ r.st.ctxErr = none) := by
  obtain ⟨o, st', hr, hst, hc⟩ := parse_err_cases cfg fuel g {} r e h he
  have hp := c06_provenance cfg S Nm False hgh g hs hg henv fuel [] _ {} o st' (c01_pre_initial cfg)
    (c06_pre_initial _) hr
  rw [hst]
  rcases hc with hc | hc | hc
  · rcases c06_upper_named cfg S Nm _ e (hp.1 e hc) with h1 | h1
    · exact .inl h1
    · exact .inr (.inl h1)
  · rcases c06_upper_named cfg S Nm _ e (hp.2.1 e hc) with h1 | h1
    · exact .inl h1
    · exact .inr (.inl h1)
  · exact .inr (.inr ⟨hc.2.2.2, hc.2.2.1⟩)

/-- the same for a Sentence-rooted parse -/
theorem c06_upper_named_sentence (cfg : Cfg) (S : G → Bytes → Prop) (Nm : Bytes → Prop) (hgh : cfg.ghost = true)
    (g : G) (hs : Scope cfg g) (hg : g.All (LocErr cfg S Nm False))
    (henv : ∀ g' ∈ cfg.env, g'.All (LocErr cfg S Nm False))
    (fuel : Nat) (r : ParseOut) (e : Err) (h : parse cfg fuel (G.sentence g) = some r) (he : r.err = some e) :
    (TFat r.st.log e.pos ∧ e.pos ≤ maxTermFail r.st.log ∧ (TF r.st.log e ∨ NamedNF Nm e)) ∨
    (NamedNF Nm e ∧ PureFail cfg S r.st.log e.pos) ∨
    (e = ⟨cfg.file.pos 0, .other noMatchMsg⟩ ∧ r.st.ctxErr = none) :=
  c06_upper_named_parse cfg S Nm hgh _ (sentence_scope hs) (sentence_loc hg) henv fuel r e h he

/-! ### C06 upper bound, grammars without names: every error is exactly a logged terminal failure -/

/-- **unnamed grammars, `run`**: every error returned, the context error and every cached error is exactly
    a logged terminal failure — its position is at most the furthest failing terminal and its expectation
    is one that really failed there. -/
theorem c06_upper_unnamed (cfg : Cfg) (hgh : cfg.ghost = true) (g : G) (hs : Scope cfg g)
    (hg : Unnamed cfg g) (henv : ∀ g' ∈ cfg.env, Unnamed cfg g')
    (fuel : Nat) (ctx : Ctx) (pos : Nat) (st : St) (o : Out) (st' : St) (hpre : Pre cfg ctx pos st)
    (hst : StErrOK TF st) (h : run cfg fuel g ctx pos st = some (o, st')) :
    (∀ e, o.err = some e → TF st'.log e ∧ e.pos ≤ maxTermFail st'.log) ∧
    (∀ e, st'.ctxErr = some e → TF st'.log e ∧ e.pos ≤ maxTermFail st'.log) ∧
    (∀ c ∈ st'.cache, ∀ e, c.err = some e → TF st'.log e ∧ e.pos ≤ maxTermFail st'.log) ∧
    st.log <:+ st'.log := by
  have := run_err cfg _ _ _ _ (errInv_TF cfg) hgh hs.env henv fuel g ctx pos st o st' hs.root hg hpre hst h
  exact ⟨fun e he => ⟨this.err e he, le_maxTermFail (this.err e he)⟩,
    fun e he => ⟨this.st.ctxErr e he, le_maxTermFail (this.st.ctxErr e he)⟩,
    fun c hc e he => ⟨this.st.cache c hc e he, le_maxTermFail (this.st.cache c hc e he)⟩, this.log⟩

/-- **unnamed grammars, `parse`**: the reported error is exactly a logged terminal failure, hence never
    beyond the furthest failing terminal; the only other possibility is that no error value exists at
    all, and then `parse` synthesises "no match was found" at the start of the input (fix D3). -/
theorem c06_upper_unnamed_parse (cfg : Cfg) (hgh : cfg.ghost = true) (g : G) (hs : Scope cfg g)
    (hg : Unnamed cfg g) (henv : ∀ g' ∈ cfg.env, Unnamed cfg g')
    (fuel : Nat) (r : ParseOut) (e : Err) (h : parse cfg fuel g = some r) (he : r.err = some e) :
    (TF r.st.log e ∧ e.pos ≤ maxTermFail r.st.log) ∨
    (e = ⟨cfg.file.pos 0, .other noMatchMsg⟩ ∧ r.st.ctxErr = none) := by
  obtain ⟨o, st', hr, hst, hc⟩ := parse_err_cases cfg fuel g {} r e h he
  have hp := c06_upper_unnamed cfg hgh g hs hg henv fuel [] _ {} o st' (c01_pre_initial cfg) (c06_pre_initial _) hr
  rw [hst]
  rcases hc with hc | hc | hc
  · exact .inl (hp.1 e hc)
  · exact .inl (hp.2.1 e hc)
  · exact .inr ⟨hc.2.2.2, hc.2.2.1⟩

/-- the same for a Sentence-rooted parse -/
theorem c06_upper_unnamed_sentence (cfg : Cfg) (hgh : cfg.ghost = true) (g : G) (hs : Scope cfg g)
    (hg : Unnamed cfg g) (henv : ∀ g' ∈ cfg.env, Unnamed cfg g')
    (fuel : Nat) (r : ParseOut) (e : Err) (h : parse cfg fuel (G.sentence g) = some r) (he : r.err = some e) :
    (TF r.st.log e ∧ e.pos ≤ maxTermFail r.st.log) ∨
    (e = ⟨cfg.file.pos 0, .other noMatchMsg⟩ ∧ r.st.ctxErr = none) :=
  c06_upper_unnamed_parse cfg hgh _ (sentence_scope hs) (sentence_loc hg) henv fuel r e h he

/-! ### the text of the error -/

/-- every error `parse` reports is positioned inside the parsed file (first byte … end-of-file position) -/
theorem parse_err_inFile (cfg : Cfg) (g : G) (hs : Scope cfg g) (fuel : Nat) (r : ParseOut) (e : Err)
    (h : parse cfg fuel g = some r) (he : r.err = some e) :
    cfg.file.offset ≤ e.pos ∧ e.pos ≤ cfg.hi := by
  obtain ⟨o, st', hr, _, hc⟩ := parse_err_cases cfg fuel g {} r e h he
  have hp := c01_error_positions cfg g hs fuel [] _ {} o st' (c01_pre_initial cfg) hr
  rcases hc with hc | hc | hc
  · have := hp.1 e hc; simp only [File.pos] at this; omega
  · exact hp.2 e hc
  · rw [hc.2.2.2]; simp [File.pos, Cfg.hi]

/-- the text `parse` attaches to the error it reports (the same statement as C12's `c12_parse_msg_form`;
    re-proved here because Proofs/ShiftRun.lean and Proofs/RunEqns.lean cannot be imported together) -/
theorem parse_msg_form (cfg : Cfg) (fuel : Nat) (g : G) (st : St) (r : ParseOut) (e : Err)
    (h : parse cfg fuel g st = some r) (he : r.err = some e) :
    r.msg = some (failedPrefix ++ errorWithPosition cfg.fileSet e) ∧
    (cfg.fileSet.position e.pos ≠ .unknown →
      errorWithPosition cfg.fileSet e = e.kind.msg ++ tokOf " at " ++ tokOf (cfg.fileSet.position e.pos).render) := by
  constructor
  · unfold parse at h
    simp only [] at h
    split at h
    · cases h
    · split at h
      · cases h; cases he; rfl
      · cases h; cases he
  · intro hne
    unfold errorWithPosition
    split
    · rename_i hu; exact absurd hu hne
    · rfl

theorem render_at (f : String) (l c : Nat) (h : f ≠ "") :
    (PosResult.at_ f l c).render = f ++ ":" ++ toString l ++ ":" ++ toString c := by
  simp only [PosResult.render, if_pos h]
  rfl

/-- **the text.**  The parsed file is one of the files of a file set built through the API (`buildFS`,
    C11).  Then the text of every error `parse` reports is

      "failed to parse the input: " ++ <expectation> ++ " at " ++ <file>:<line>:<column>

    where (line, column) is C11's `lineCol` of the offset of the error position inside the parsed file —
    the 1-based line and column of exactly the position the error carries — and `<expectation>` is the
    message of the error kind (`c06_provenance`: an expectation that really failed there). -/
theorem c06_text (cfg : Cfg) (g : G) (hs : Scope cfg g) (files : List File) (i : Nat)
    (hfs : cfg.fileSet = buildFS files) (hfile : (buildFS files).files[i]? = some cfg.file)
    (fuel : Nat) (r : ParseOut) (e : Err) (h : parse cfg fuel g = some r) (he : r.err = some e) :
    cfg.file.offset ≤ e.pos ∧ e.pos - cfg.file.offset ≤ cfg.file.len ∧
    cfg.fileSet.position e.pos =
      .at_ cfg.file.name (lineCol cfg.file.data (e.pos - cfg.file.offset)).1
        (lineCol cfg.file.data (e.pos - cfg.file.offset)).2 ∧
    r.msg = some (failedPrefix ++ e.kind.msg ++ tokOf " at " ++
      tokOf (PosResult.at_ cfg.file.name (lineCol cfg.file.data (e.pos - cfg.file.offset)).1
        (lineCol cfg.file.data (e.pos - cfg.file.offset)).2).render) ∧
    (cfg.file.name ≠ "" →
      r.msg = some (failedPrefix ++ e.kind.msg ++ tokOf " at " ++
        tokOf (cfg.file.name ++ ":" ++ toString (lineCol cfg.file.data (e.pos - cfg.file.offset)).1 ++ ":" ++
          toString (lineCol cfg.file.data (e.pos - cfg.file.offset)).2))) := by
  obtain ⟨hlo, hhi⟩ := parse_err_inFile cfg g hs fuel r e h he
  have hoff : e.pos - cfg.file.offset ≤ cfg.file.len := by unfold Cfg.hi at hhi; omega
  have hpos : cfg.fileSet.position e.pos =
      .at_ cfg.file.name (lineCol cfg.file.data (e.pos - cfg.file.offset)).1
        (lineCol cfg.file.data (e.pos - cfg.file.offset)).2 := by
    have := c11_roundtrip files i cfg.file (e.pos - cfg.file.offset) hfile hoff
    rw [hfs]
    have hp : cfg.file.pos (e.pos - cfg.file.offset) = e.pos := by simp only [File.pos]; omega
    rw [hp] at this; exact this
  obtain ⟨hm1, hm2⟩ := parse_msg_form cfg fuel g {} r e h he
  have hmsg : r.msg = some (failedPrefix ++ e.kind.msg ++ tokOf " at " ++
      tokOf (PosResult.at_ cfg.file.name (lineCol cfg.file.data (e.pos - cfg.file.offset)).1
        (lineCol cfg.file.data (e.pos - cfg.file.offset)).2).render) := by
    rw [hm1, hm2 (by rw [hpos]; intro hc; cases hc), hpos]
    simp only [List.append_assoc]
  refine ⟨hlo, hoff, hpos, hmsg, ?_⟩
  intro hne
  rw [hmsg, render_at _ _ _ hne]

/-! ### the side conditions hold of grammars over single-byte (rune) terminals -/

/-- rune terminals behave (C08) -/
theorem termGood_rune (cfg : Cfg) (ch : Nat) (name : Bytes) : TermGood cfg (.rune ch name) := by
  intro pos hin
  refine ⟨?_, ?_⟩
  · intro n hn
    have hsp := c08_node_span cfg.params cfg.file (.rune ch name) pos n hin True.intro True.intro hn
    obtain ⟨w, _, hw⟩ := (c08_rune_node cfg.params cfg.file pos ch name n hin).mp hn
    subst hw
    simp only [Node.pos, Node.rpos] at hsp
    exact ⟨rfl, by simp only [Node.WF, Cfg.hi]; omega⟩
  · intro e he
    exact c08_err_pos cfg.params cfg.file (.rune ch name) pos e hin True.intro True.intro he

/-- and never panic inside the file (C08), which is what `LocErr` asks of a terminal when `AP = False` -/
theorem locErr_rune (cfg : Cfg) (S : G → Bytes → Prop) (Nm : Bytes → Prop) (ch : Nat) (name : Bytes) :
    LocErr cfg S Nm False (.term (.rune ch name)) := by
  intro pos s hin hp
  exact c08_total cfg.params cfg.file (.rune ch name) pos s hin True.intro True.intro True.intro hp

/-! ### C06 lower bound: nothing further is lost (outside curtailment) -/

/-- **coverage, `run` from the initial state**: every terminal failure of the run, and the start position,
    is at or before the returned error, or at or before the context error, or at or before the end of a
    returned result, or at or before a position where a memoized parser was curtailed. -/
theorem c06_lower_run (cfg : Cfg) (hgh : cfg.ghost = true) (g : G) (hs : Scope cfg g)
    (hl : g.All (LocLow cfg)) (henvL : ∀ g' ∈ cfg.env, g'.All (LocLow cfg))
    (fuel : Nat) (o : Out) (st' : St) (hr : run cfg fuel g [] (cfg.file.pos 0) {} = some (o, st')) :
    (∀ x k, Ev.termFail x k ∈ st'.log → Cov x o.err o.res st') ∧ Cov (cfg.file.pos 0) o.err o.res st' ∧
    OutOK cfg (cfg.file.pos 0) o.res o.err := by
  have hlow := run_low cfg hgh hs.env henvL fuel g [] _ {} o st' hs.root hl (c01_pre_initial cfg)
    (by intro c hc; cases hc) hr
  obtain ⟨d, hd, hc⟩ := hlow.newTF
  refine ⟨?_, hlow.prog, hlow.out⟩
  intro x k hx
  have : st'.log = d := by rw [hd]; exact List.append_nil d
  rw [this] at hx
  exact (hc x k hx).1

/-- **lower bound, `parse`**: every terminal failure of a failing parse is at or before the reported
    position, unless a memoized parser was curtailed at or after it.  (`e.kind.isWs = false`: the error is
    not a whitespace error — those come from the trims only, which are outside the domain.) -/
theorem c06_lower_parse (cfg : Cfg) (hgh : cfg.ghost = true) (g : G) (hs : Scope cfg g)
    (hl : g.All (LocLow cfg)) (henvL : ∀ g' ∈ cfg.env, g'.All (LocLow cfg))
    (fuel : Nat) (r : ParseOut) (e : Err) (h : parse cfg fuel g = some r) (he : r.err = some e)
    (hws : e.kind.isWs = false) :
    ∀ x k, Ev.termFail x k ∈ r.st.log → x ≤ e.pos ∨ GeC x r.st.log := by
  obtain ⟨o, st', hr⟩ := parse_run cfg fuel g {} r h
  obtain ⟨hcov, _, hout⟩ := c06_lower_run cfg hgh g hs hl henvL fuel o st' hr
  have hpe := c01_error_positions cfg g hs fuel [] _ {} o st' (c01_pre_initial cfg) hr
  intro x k hx
  cases ho : o.err with
  | some e0 =>
    obtain ⟨r', e', hp', he', hst', _, hw1, hw2⟩ := c06_parse_prefers_further cfg fuel g {} o st' e0 hr ho
    rw [h] at hp'; cases hp'
    rw [he] at he'; cases he'
    rw [hst'] at hx ⊢
    have hnw : e0.kind.isWs = false := by
      cases hk : e0.kind.isWs with
      | false => rfl
      | true => rw [hw1 hk] at hws; rw [hws] at hk; cases hk
    obtain ⟨_, _, hmax⟩ := hw2 hnw
    rcases hcov x k hx with h1 | h1 | h1 | h1
    · obtain ⟨e1, he1, hx1⟩ := h1
      rw [ho] at he1; cases he1
      exact .inl (by rw [hmax]; omega)
    · obtain ⟨n, hn, hxn⟩ := h1
      have := hout.errRes e0 ho n hn
      have := (hpe.1 e0 ho).1
      exact .inl (by rw [hmax]; omega)
    · obtain ⟨ce, hce, hxc⟩ := h1
      exact .inl (by rw [hmax, hce]; simp only [Option.map_some, Option.getD_some]; omega)
    · exact .inr h1
  | none =>
    cases hres : o.res.isNil with
    | false =>
      -- a result and no error: `parse` succeeds
      rw [parse_unfold cfg fuel g {} o st' hr] at h
      have h0 : parseErr0 cfg o st' = none := by simp [parseErr0, hres, ho]
      rw [h0] at h
      simp only [Option.some.injEq] at h
      subst h
      cases he
    | true =>
      obtain ⟨r', hp', hst', he'⟩ := c06_parse_no_returned_error cfg fuel g {} o st' hr hres ho
      rw [h] at hp'; cases hp'
      rw [hst'] at hx ⊢
      rcases hcov x k hx with h1 | h1 | h1 | h1
      · rw [ho] at h1; exact absurd h1 (GeE_none x)
      · exact absurd h1 (GeR_of_isNil hres)
      · obtain ⟨ce, hce, hxc⟩ := h1
        rw [he, hce] at he'
        simp only [Option.some.injEq] at he'
        rw [he']; exact .inl hxc
      · exact .inr h1

theorem sentence_low {cfg : Cfg} {g : G} (hg : g.All (LocLow cfg)) : (G.sentence g).All (LocLow cfg) := by
  simp only [G.sentence, G.All, AllList, LocLow, and_true]
  exact ⟨⟨(by intro hc; cases hc), (by intro hc; cases hc)⟩, hg⟩

def curtailPositions : List Ev → List Nat
  | [] => []
  | .curtail _ p :: r => p :: curtailPositions r
  | _ :: r => curtailPositions r

theorem mem_curtailPositions {log : List Ev} {i q : Nat} (h : Ev.curtail i q ∈ log) : q ∈ curtailPositions log := by
  induction log with
  | nil => cases h
  | cons ev log ih =>
    cases h with
    | head => simp [curtailPositions]
    | tail _ hm =>
      have := ih hm
      cases ev <;> simp only [curtailPositions, List.mem_cons] <;> first | exact this | exact .inr this

/-- no memoized parser was curtailed at or after the furthest failing terminal (decidable on the log; true
    in particular of every run that never curtails, e.g. of grammars without left recursion) -/
def NoCurtailBeyond (log : List Ev) : Prop := ∀ i q, Ev.curtail i q ∈ log → q < maxTermFail log

theorem noCurtailBeyond_of_positions {log : List Ev} (h : ∀ q ∈ curtailPositions log, q < maxTermFail log) :
    NoCurtailBeyond log := fun _ q hq => h q (mem_curtailPositions hq)

/-- the furthest failing terminal is at or before the reported position (when nothing was curtailed at or
    beyond it) -/
theorem maxTermFail_le_of_lower {log : List Ev} {p : Nat} (hnc : NoCurtailBeyond log)
    (hlow : ∀ x k, Ev.termFail x k ∈ log → x ≤ p ∨ GeC x log) : maxTermFail log ≤ p := by
  rcases maxTermFail_attained log with h0 | ⟨k, hk⟩
  · omega
  · rcases hlow _ k hk with h1 | ⟨i, q, hq, hle⟩
    · exact h1
    · have := hnc i q hq; omega

/-- **C06 exactness, partial** (unnamed grammars, Sentence-rooted): when no memoized parser was curtailed
    at or beyond the furthest failing terminal, the reported position EQUALS the furthest position at which
    a terminal or End was tried and did not match, and the reported expectation is one that failed there.
    No Name is needed for this in the tree as fixed (fix D3: Any / Choice hand their dropped not-found error
    back when nothing else is there).
    Partial because of the side condition on curtailment (full statement: `c06_exact_STATEMENT` below);
    `LocLow`: no SuppressError, no Any / Choice / SeqTry without parsers, no token "EOF". -/
theorem c06_exact_partial (cfg : Cfg) (hgh : cfg.ghost = true) (g : G) (hs : Scope cfg g)
    (hu : Unnamed cfg g) (henvU : ∀ g' ∈ cfg.env, Unnamed cfg g')
    (hl : g.All (LocLow cfg)) (henvL : ∀ g' ∈ cfg.env, g'.All (LocLow cfg))
    (fuel : Nat) (r : ParseOut) (e : Err) (h : parse cfg fuel (G.sentence g) = some r) (he : r.err = some e)
    (hws : e.kind.isWs = false) (hnc : NoCurtailBeyond r.st.log) :
    e.pos = maxTermFail r.st.log ∧ TF r.st.log e := by
  have hlow := c06_lower_parse cfg hgh _ (sentence_scope hs) (sentence_low hl) henvL fuel r e h he hws
  have hge := maxTermFail_le_of_lower hnc hlow
  obtain ⟨o, st', hr, hst, hc⟩ := parse_err_cases cfg fuel _ {} r e h he
  have hup := c06_upper_unnamed cfg hgh _ (sentence_scope hs) (sentence_loc hu) henvU fuel [] _ {} o st'
    (c01_pre_initial cfg) (c06_pre_initial _) hr
  rw [hst] at hge hnc ⊢
  rcases hc with hc | hc | hc
  · have := hup.1 e hc; exact ⟨by omega, this.1⟩
  · have := hup.2.1 e hc; exact ⟨by omega, this.1⟩
  · -- the synthesised error: impossible, the start position would be covered by a curtailment only
    exfalso
    obtain ⟨_, hprog, _⟩ := c06_lower_run cfg hgh _ (sentence_scope hs) (sentence_low hl) henvL fuel o st' hr
    rcases hprog with h3 | h3 | h3 | h3
    · rw [hc.2.1] at h3; exact GeE_none _ h3
    · exact GeR_of_isNil hc.1 h3
    · rw [hc.2.2.1] at h3; exact GeE_none _ h3
    · obtain ⟨i, q, hq, hle⟩ := h3
      have := hnc i q hq
      have hp0 : e.pos = cfg.file.pos 0 := by rw [hc.2.2.2]
      omega

/-- the same with names: the reported position is never BEFORE the furthest failing terminal, and it equals
    it unless the error is the D8 shape (a Name whose body failed without any error) -/
theorem c06_exact_partial_named (cfg : Cfg) (S : G → Bytes → Prop) (Nm : Bytes → Prop) (hgh : cfg.ghost = true)
    (g : G) (hs : Scope cfg g) (hg : g.All (LocErr cfg S Nm False))
    (henv : ∀ g' ∈ cfg.env, g'.All (LocErr cfg S Nm False))
    (hl : g.All (LocLow cfg)) (henvL : ∀ g' ∈ cfg.env, g'.All (LocLow cfg))
    (fuel : Nat) (r : ParseOut) (e : Err) (h : parse cfg fuel (G.sentence g) = some r) (he : r.err = some e)
    (hws : e.kind.isWs = false) (hnc : NoCurtailBeyond r.st.log) :
    maxTermFail r.st.log ≤ e.pos ∧
    ((e.pos = maxTermFail r.st.log ∧ TFat r.st.log e.pos) ∨ (NamedNF Nm e ∧ PureFail cfg S r.st.log e.pos)) := by
  have hlow := c06_lower_parse cfg hgh _ (sentence_scope hs) (sentence_low hl) henvL fuel r e h he hws
  have hge := maxTermFail_le_of_lower hnc hlow
  refine ⟨hge, ?_⟩
  obtain ⟨o, st', hr, hst, hc⟩ := parse_err_cases cfg fuel _ {} r e h he
  have hp := c06_provenance cfg S Nm False hgh _ (sentence_scope hs) (sentence_loc hg) henv fuel [] _ {} o st'
    (c01_pre_initial cfg) (c06_pre_initial _) hr
  rw [hst] at hge hnc ⊢
  have hfin : ErrOK cfg S Nm False st'.log e →
      (e.pos = maxTermFail st'.log ∧ TFat st'.log e.pos) ∨ (NamedNF Nm e ∧ PureFail cfg S st'.log e.pos) := by
    intro hok
    rcases c06_upper_named cfg S Nm _ e hok with ⟨h1, h2, _⟩ | h1
    · exact .inl ⟨by omega, h1⟩
    · exact .inr h1
  rcases hc with hc | hc | hc
  · exact hfin (hp.1 e hc)
  · exact hfin (hp.2.1 e hc)
  · exfalso
    obtain ⟨_, hprog, _⟩ := c06_lower_run cfg hgh _ (sentence_scope hs) (sentence_low hl) henvL fuel o st' hr
    rcases hprog with h3 | h3 | h3 | h3
    · rw [hc.2.1] at h3; exact GeE_none _ h3
    · exact GeR_of_isNil hc.1 h3
    · rw [hc.2.2.1] at h3; exact GeE_none _ h3
    · obtain ⟨i, q, hq, hle⟩ := h3
      have := hnc i q hq
      have hp0 : e.pos = cfg.file.pos 0 := by rw [hc.2.2.2]
      omega

/-- rune terminals over one byte never produce a node with token "EOF" -/
theorem locLow_rune (cfg : Cfg) (ch : Nat) (name : Bytes) (h : Utf8.encodeRune ch ≠ eofTok) :
    LocLow cfg (.term (.rune ch name)) := by
  intro pos n hn
  simp only [Terminal.parse] at hn
  split at hn
  · cases hn
  · cases hn
    simp only [Node.EofOK]
    exact fun hc => absurd hc h
  · simp only [nf, reduceCtorEq] at hn

/-! ### the names of the grammar, canonically -/

/-- `c06_upper_named_sentence` with the name relations computed from the grammar: `NameOf cfg g b nm` —
    `Name(b, nm)` occurs in `g` or in a rule; `LabelOf cfg g nm` — a Name or named Sequence carries `nm`.
    The side conditions mention no names (`LocErr` with the trivially true relations: no trims, terminals do
    not panic inside the file, references resolve). -/
theorem c06_upper_named_canonical (cfg : Cfg) (hgh : cfg.ghost = true) (g : G) (hs : Scope cfg g)
    (hg : g.All (LocErr cfg (fun _ _ => True) (fun _ => True) False))
    (henv : ∀ g' ∈ cfg.env, g'.All (LocErr cfg (fun _ _ => True) (fun _ => True) False))
    (fuel : Nat) (r : ParseOut) (e : Err) (h : parse cfg fuel (G.sentence g) = some r) (he : r.err = some e) :
    (TFat r.st.log e.pos ∧ e.pos ≤ maxTermFail r.st.log ∧ (TF r.st.log e ∨ NamedNF (LabelOf cfg g) e)) ∨
    (NamedNF (LabelOf cfg g) e ∧ PureFail cfg (NameOf cfg g) r.st.log e.pos) ∨
    (e = ⟨cfg.file.pos 0, .other noMatchMsg⟩ ∧ r.st.ctxErr = none) :=
  c06_upper_named_sentence cfg _ _ hgh g hs (LocErr_canonical cfg False g hg henv).1
    (LocErr_canonical cfg False g hg henv).2 fuel r e h he

/-! ### concrete grammars over single-byte terminals -/

def c6a : G := .term (.rune 97 [34, 97, 34])
def c6b : G := .term (.rune 98 [34, 98, 34])
def c6c : G := .term (.rune 99 [34, 99, 34])
def c6d : G := .term (.rune 100 [34, 100, 34])

/-- file "f" with the given content, alone in a new file set (so its base offset is 1) -/
def c6Cfg (env : List G) (data : Bytes) : Cfg :=
  { env := env, file := { name := "f", data := data, offset := 1 },
    fileSet := buildFS [{ name := "f", data := data, offset := 0 }],
    params := { floatOk := fun _ => true, durErr := fun _ => none, regexp := fun _ _ => none } }

theorem c6Cfg_fileSet (env : List G) (data : Bytes) :
    (c6Cfg env data).fileSet = buildFS [{ name := "f", data := data, offset := 0 }] ∧
    (buildFS [{ name := "f", data := data, offset := 0 }]).files[0]? = some (c6Cfg env data).file :=
  ⟨rfl, rfl⟩

/-! ### D8: the upper bound needs productivity -/

/-- `N0 → b N1 | a` named "n0"; `N1 → Choice(N1)` named "n1", memoized — N1 derives nothing -/
def d8Env : List G :=
  [.name (.any [.seq .seqOf [c6b, .ref 1] {}, c6a]) [110, 48],
   .memo 1 (.name (.choice [.ref 1]) [110, 49])]
/-- input "b" -/
def d8Cfg : Cfg := c6Cfg d8Env [98]
/-- the Name combinators of the D8 grammar -/
def d8S (g : G) (nm : Bytes) : Prop :=
  (g = .any [.seq .seqOf [c6b, .ref 1] {}, c6a] ∧ nm = [110, 48]) ∨ (g = .choice [.ref 1] ∧ nm = [110, 49])
def d8Nm (nm : Bytes) : Prop := nm = [110, 48] ∨ nm = [110, 49]

theorem d8_scope : Scope d8Cfg (.ref 0) := by
  refine ⟨by simp [G.Core], ?_⟩
  intro g' hg'
  have hg2 : g' = .name (.any [.seq .seqOf [c6b, .ref 1] {}, c6a]) [110, 48] ∨
      g' = .memo 1 (.name (.choice [.ref 1]) [110, 49]) := by
    simpa [d8Cfg, c6Cfg, d8Env] using hg'
  rcases hg2 with rfl | rfl
  · simp only [G.Core, CoreList, c6a, c6b, and_true]
    exact ⟨termGood_rune _ _ _, termGood_rune _ _ _⟩
  · simp [G.Core, CoreList]

theorem d8_loc : (G.ref 0).All (LocErr d8Cfg d8S d8Nm False) ∧ ∀ g' ∈ d8Cfg.env, g'.All (LocErr d8Cfg d8S d8Nm False) := by
  have hr0 : LocErr d8Cfg d8S d8Nm False (.ref 0) := by
    intro h; cases h
  have hr1 : LocErr d8Cfg d8S d8Nm False (.ref 1) := by
    intro h; cases h
  refine ⟨hr0, ?_⟩
  intro g' hg'
  have hg2 : g' = .name (.any [.seq .seqOf [c6b, .ref 1] {}, c6a]) [110, 48] ∨
      g' = .memo 1 (.name (.choice [.ref 1]) [110, 49]) := by
    simpa [d8Cfg, c6Cfg, d8Env] using hg'
  rcases hg2 with rfl | rfl
  · simp only [G.All, AllList, and_true, c6a, c6b]
    exact ⟨⟨.inl ⟨rfl, rfl⟩, .inl rfl⟩, (by simp [LocErr]), ⟨(by simp [LocErr]), locErr_rune _ _ _ _ _, hr1⟩,
      locErr_rune _ _ _ _ _⟩
  · simp only [G.All, AllList, and_true]
    exact ⟨(by simp [LocErr]), ⟨.inr ⟨rfl, rfl⟩, .inr rfl⟩, (by simp [LocErr]), hr1⟩

/-- **D8 (known finding), by evaluation.**  All hypotheses of `c06_upper_named_sentence` hold, the parse of
    "b" fails with "was expecting n1" at offset 1 of the file (global position 2, rendered f:1:2), and the
    only terminal failure of the whole run is at offset 0 (global position 1): the reported position is
    BEYOND the furthest position at which a terminal or end-of-input was tried.  So the upper bound does
    not hold for named grammars without a productivity hypothesis. -/
theorem c06_upper_needs_productive :
    ∃ r e, Scope d8Cfg (.ref 0) ∧ (G.ref 0).All (LocErr d8Cfg d8S d8Nm False) ∧
      (∀ g' ∈ d8Cfg.env, g'.All (LocErr d8Cfg d8S d8Nm False)) ∧
      parse d8Cfg 40 (G.sentence (.ref 0)) = some r ∧ r.err = some e ∧
      e = ⟨2, .notFound (tokOf "n1")⟩ ∧ termFailPositions r.st.log = [1] ∧ maxTermFail r.st.log < e.pos ∧
      ¬ TFat r.st.log e.pos ∧
      r.msg = some (tokOf "failed to parse the input: was expecting n1 at f:1:2") := by
  have hev : (parse d8Cfg 40 (G.sentence (.ref 0))).map (fun r => (r.err, termFailPositions r.st.log, r.msg)) =
      some (some ⟨2, .notFound (tokOf "n1")⟩, [1],
        some (tokOf "failed to parse the input: was expecting n1 at f:1:2")) := by
    decide +kernel
  cases hp : parse d8Cfg 40 (G.sentence (.ref 0)) with
  | none => rw [hp] at hev; cases hev
  | some r =>
    rw [hp] at hev
    simp only [Option.map_some, Option.some.injEq, Prod.mk.injEq] at hev
    obtain ⟨h1, h2, h3⟩ := hev
    have hmax : maxTermFail r.st.log = 1 := by simp [maxTermFail, h2]
    refine ⟨r, _, d8_scope, d8_loc.1, d8_loc.2, rfl, h1, rfl, h2, by rw [hmax]; decide, ?_, h3⟩
    rintro ⟨k, hk⟩
    have := le_maxTermFail hk
    rw [hmax] at this
    exact absurd this (by decide)

/-- what the theorems do say about D8: the error is a Name's "was expecting …" at a position where a Name's
    body returned neither a result nor an error; and the text is the one `c06_text` describes -/
theorem c06_d8_is_pure_fail (r : ParseOut) (e : Err) (h : parse d8Cfg 40 (G.sentence (.ref 0)) = some r)
    (he : r.err = some e) : NamedNF d8Nm e ∧ PureFail d8Cfg d8S r.st.log e.pos := by
  obtain ⟨r', e', _, _, _, hp, he', hee, _, _, hnt, _⟩ := c06_upper_needs_productive
  rw [h] at hp; cases hp
  rw [he] at he'; cases he'
  rcases c06_upper_named_sentence d8Cfg d8S d8Nm rfl (.ref 0) d8_scope d8_loc.1 d8_loc.2 40 r e h he with h1 | h1 | h1
  · exact absurd h1.1 hnt
  · exact h1
  · rw [hee] at h1; cases h1.1

/-! ### SuppressError loses the furthest failure -/

def supG : G := .seq .seqOf [c6a, .suppress c6b] {}

/-- `Sentence(SeqOf(a, SuppressError(b)))` on "ac": `b` is tried at offset 1 (global position 2) and fails,
    SuppressError discards the error, nothing else records it — `parse` reports the synthesised "no match
    was found" at offset 0 (global position 1), BEFORE the furthest failing terminal.  (By design of that
    combinator; it is why exactness is stated for suppress-free grammars.) -/
theorem c06_exact_needs_no_suppress :
    (parse (c6Cfg [] [97, 99]) 20 (G.sentence supG)).map (fun r => (r.err, r.st.ctxErr, maxTermFail r.st.log)) =
      some (some ⟨1, .other noMatchMsg⟩, none, 2) := by
  decide +kernel

/-! ### non-vacuity -/

/-- `P → P b | a` (left recursive, memoized, no names), input "abc" -/
def nv6Env : List G := [.memo 0 (.any [.seq .seqOf [.ref 0, c6b] {}, c6a])]
def nv6Cfg : Cfg := c6Cfg nv6Env [97, 98, 99]

theorem nv6_scope : Scope nv6Cfg (.ref 0) := by
  refine ⟨by simp [G.Core], ?_⟩
  intro g' hg'
  have hg2 : g' = .memo 0 (.any [.seq .seqOf [.ref 0, c6b] {}, c6a]) := by
    simpa [nv6Cfg, c6Cfg, nv6Env] using hg'
  subst hg2
  simp only [G.Core, CoreList, c6a, c6b, and_true, true_and]
  exact ⟨termGood_rune _ _ _, termGood_rune _ _ _⟩

theorem nv6_unnamed : Unnamed nv6Cfg (.ref 0) ∧ ∀ g' ∈ nv6Cfg.env, Unnamed nv6Cfg g' := by
  have hr0 : LocErr nv6Cfg (fun _ _ => False) (fun _ => False) False (.ref 0) := by
    intro h; cases h
  refine ⟨hr0, ?_⟩
  intro g' hg'
  have hg2 : g' = .memo 0 (.any [.seq .seqOf [.ref 0, c6b] {}, c6a]) := by
    simpa [nv6Cfg, c6Cfg, nv6Env] using hg'
  subst hg2
  simp only [Unnamed, G.All, AllList, and_true, c6a, c6b]
  exact ⟨(by simp [LocErr]), (by simp [LocErr]), ⟨(by simp [LocErr]), hr0, locErr_rune _ _ _ _ _⟩, locErr_rune _ _ _ _ _⟩

/-- the parse of "abc" fails; the model reports "was expecting the end of input" at offset 2 (global
    position 3, f:1:3); the furthest terminal failure is there too -/
example : (parse nv6Cfg 40 (G.sentence (.ref 0))).map (fun r => (r.err, maxTermFail r.st.log, r.msg)) =
    some (some ⟨3, .other endErrMsg⟩, 3,
      some (tokOf "failed to parse the input: was expecting the end of input at f:1:3")) := by
  decide +kernel

/-- `c06_upper_unnamed_sentence` and `c06_text` apply to it -/
example (r : ParseOut) (e : Err) (h : parse nv6Cfg 40 (G.sentence (.ref 0)) = some r) (he : r.err = some e) :
    ((TF r.st.log e ∧ e.pos ≤ maxTermFail r.st.log) ∨ (e = ⟨nv6Cfg.file.pos 0, .other noMatchMsg⟩ ∧ r.st.ctxErr = none)) ∧
    r.msg = some (failedPrefix ++ e.kind.msg ++ tokOf " at " ++
      tokOf ("f" ++ ":" ++ toString (lineCol nv6Cfg.file.data (e.pos - nv6Cfg.file.offset)).1 ++ ":" ++
        toString (lineCol nv6Cfg.file.data (e.pos - nv6Cfg.file.offset)).2)) :=
  ⟨c06_upper_unnamed_sentence nv6Cfg rfl (.ref 0) nv6_scope nv6_unnamed.1 nv6_unnamed.2 40 r e h he,
   (c06_text nv6Cfg _ (sentence_scope nv6_scope) [{ name := "f", data := [97, 98, 99], offset := 0 }] 0 rfl rfl
      40 r e h he).2.2.2.2 (by decide)⟩

/-- `c06_exact_partial` applies to it: the only curtailment is at the start (global position 1), the furthest
    terminal failure at global position 3 -/
theorem nv6_low : (G.ref 0).All (LocLow nv6Cfg) ∧ ∀ g' ∈ nv6Cfg.env, g'.All (LocLow nv6Cfg) := by
  refine ⟨trivial, ?_⟩
  intro g' hg'
  have hg2 : g' = .memo 0 (.any [.seq .seqOf [.ref 0, c6b] {}, c6a]) := by
    simpa [nv6Cfg, c6Cfg, nv6Env] using hg'
  subst hg2
  simp only [G.All, AllList, and_true, c6a, c6b]
  exact ⟨trivial, (by simp [LocLow]), ⟨(by simp [LocLow]), trivial, locLow_rune _ _ _ (by decide)⟩,
    locLow_rune _ _ _ (by decide)⟩

example (r : ParseOut) (e : Err) (h : parse nv6Cfg 40 (G.sentence (.ref 0)) = some r) (he : r.err = some e) :
    e.pos = maxTermFail r.st.log ∧ TF r.st.log e ∧ e = ⟨3, .other endErrMsg⟩ := by
  have hev : (parse nv6Cfg 40 (G.sentence (.ref 0))).map
      (fun r => (r.err, curtailPositions r.st.log, maxTermFail r.st.log)) =
      some (some ⟨3, .other endErrMsg⟩, [1], 3) := by decide +kernel
  rw [h] at hev
  simp only [Option.map_some, Option.some.injEq, Prod.mk.injEq] at hev
  obtain ⟨h1, h2, h3⟩ := hev
  rw [he] at h1
  simp only [Option.some.injEq] at h1
  have := c06_exact_partial nv6Cfg rfl (.ref 0) nv6_scope nv6_unnamed.1 nv6_unnamed.2 nv6_low.1 nv6_low.2 40 r e h he
    (by rw [h1]; rfl) (noCurtailBeyond_of_positions (by rw [h2, h3]; decide))
  exact ⟨this.1, this.2, h1⟩

/-- the same grammar with a Name on the alternatives (`P → (P b | a).Name("P")`), input "abc":
    `c06_exact_partial_named` applies, with the name relations computed from the grammar -/
def nv6nEnv : List G := [.memo 0 (.name (.any [.seq .seqOf [.ref 0, c6b] {}, c6a]) [80])]
def nv6nCfg : Cfg := c6Cfg nv6nEnv [97, 98, 99]

theorem nv6n_scope : Scope nv6nCfg (.ref 0) := by
  refine ⟨by simp [G.Core], ?_⟩
  intro g' hg'
  have hg2 : g' = .memo 0 (.name (.any [.seq .seqOf [.ref 0, c6b] {}, c6a]) [80]) := by
    simpa [nv6nCfg, c6Cfg, nv6nEnv] using hg'
  subst hg2
  simp only [G.Core, CoreList, c6a, c6b, and_true, true_and]
  exact ⟨termGood_rune _ _ _, termGood_rune _ _ _⟩

theorem nv6n_loc : (G.ref 0).All (LocErr nv6nCfg (fun _ _ => True) (fun _ => True) False) ∧
    ∀ g' ∈ nv6nCfg.env, g'.All (LocErr nv6nCfg (fun _ _ => True) (fun _ => True) False) := by
  have hr0 : LocErr nv6nCfg (fun _ _ => True) (fun _ => True) False (.ref 0) := by
    intro h; cases h
  refine ⟨hr0, ?_⟩
  intro g' hg'
  have hg2 : g' = .memo 0 (.name (.any [.seq .seqOf [.ref 0, c6b] {}, c6a]) [80]) := by
    simpa [nv6nCfg, c6Cfg, nv6nEnv] using hg'
  subst hg2
  simp only [G.All, AllList, and_true, c6a, c6b]
  exact ⟨(by simp [LocErr]), (by simp [LocErr]), (by simp [LocErr]), ⟨(by simp [LocErr]), hr0, locErr_rune _ _ _ _ _⟩,
    locErr_rune _ _ _ _ _⟩

theorem nv6n_low : (G.ref 0).All (LocLow nv6nCfg) ∧ ∀ g' ∈ nv6nCfg.env, g'.All (LocLow nv6nCfg) := by
  refine ⟨trivial, ?_⟩
  intro g' hg'
  have hg2 : g' = .memo 0 (.name (.any [.seq .seqOf [.ref 0, c6b] {}, c6a]) [80]) := by
    simpa [nv6nCfg, c6Cfg, nv6nEnv] using hg'
  subst hg2
  simp only [G.All, AllList, and_true, c6a, c6b]
  exact ⟨trivial, trivial, (by simp [LocLow]), ⟨(by simp [LocLow]), trivial, locLow_rune _ _ _ (by decide)⟩,
    locLow_rune _ _ _ (by decide)⟩

example (r : ParseOut) (e : Err) (h : parse nv6nCfg 40 (G.sentence (.ref 0)) = some r) (he : r.err = some e) :
    maxTermFail r.st.log ≤ e.pos ∧
    ((e.pos = maxTermFail r.st.log ∧ TFat r.st.log e.pos) ∨
     (NamedNF (LabelOf nv6nCfg (.ref 0)) e ∧ PureFail nv6nCfg (NameOf nv6nCfg (.ref 0)) r.st.log e.pos)) := by
  have hev : (parse nv6nCfg 40 (G.sentence (.ref 0))).map
      (fun r => (r.err, curtailPositions r.st.log, maxTermFail r.st.log)) =
      some (some ⟨3, .other endErrMsg⟩, [1], 3) := by decide +kernel
  rw [h] at hev
  simp only [Option.map_some, Option.some.injEq, Prod.mk.injEq] at hev
  obtain ⟨h1, h2, h3⟩ := hev
  rw [he] at h1
  simp only [Option.some.injEq] at h1
  have hcan := LocErr_canonical nv6nCfg False (.ref 0) nv6n_loc.1 nv6n_loc.2
  exact c06_exact_partial_named nv6nCfg _ _ rfl (.ref 0) nv6n_scope hcan.1 hcan.2 nv6n_low.1 nv6n_low.2 40 r e h he
    (by rw [h1]; rfl) (noCurtailBeyond_of_positions (by rw [h2, h3]; decide))

/-- `c06_parse_prefers_further` is not vacuous, strict case: `Sentence(SeqOf(Any(SeqOf(a, b, c), a), d))` on
    "abx" — the parser returns "was expecting d" at offset 1, the context error is "was expecting c" at
    offset 2 (recorded when Any returned its result), and `parse` reports the latter -/
def furG : G := .seq .seqOf [.any [.seq .seqOf [c6a, c6b, c6c] {}, c6a], c6d] {}
example : ((run (c6Cfg [] [97, 98, 120]) 20 (G.sentence furG) [] 1 {}).map (fun x => (x.1.err, x.2.ctxErr)),
           (parse (c6Cfg [] [97, 98, 120]) 20 (G.sentence furG)).map (fun r => r.err)) =
    (some (some ⟨2, .notFound [34, 100, 34]⟩, some ⟨3, .notFound [34, 99, 34]⟩),
     some (some ⟨3, .notFound [34, 99, 34]⟩)) := by
  decide +kernel

/-- tie: `Many(a)` then End on "aab" — the returned error is End at offset 2, the context error is `a` at
    offset 2; the returned error stays -/
example : (parse (c6Cfg [] [97, 97, 98]) 20 (G.sentence (.many c6a true {}))).map (fun r => (r.err, r.st.ctxErr)) =
    some (some ⟨3, .other endErrMsg⟩, some ⟨3, .notFound [34, 97, 34]⟩) := by
  decide +kernel

/-! ### the source conditions the model transcribes -/

/- (the text facts that stood here - condition lists and statement orders of Memoize, ResultCache, Any, Choice, the Sequence
   machinery, ReturnError, SetError, Parse, re-read from the source as normalised text - are subsumed since translator v3: the
   functions themselves are translated from the source on every run and the model is PROVED to agree with the translation
   (Props/C01P.lean, built and audited by this property's check).  Unlike a text comparison, that tie is not broken by an
   equivalent rewrite of the source.) -/

/-
  **C06 upper bound for named grammars — full statement, NOT proved.**

    theorem c06_upper_STATEMENT (cfg) (hgh : cfg.ghost = true) (g) (hs : Scope cfg g)
        (hg : g.All (LocErr cfg S Nm False)) (henv : ∀ g' ∈ cfg.env, g'.All (LocErr cfg S Nm False))
        (hprod : Productive cfg.env g)        -- every nonterminal derives some string (decidable certificate)
        (h : parse cfg fuel (G.sentence g) = some r) (he : r.err = some e) :
        e.pos ≤ maxTermFail r.st.log ∨ (e = ⟨cfg.file.pos 0, .other noMatchMsg⟩ ∧ r.st.ctxErr = none)

  By `c06_upper_named_sentence` this is reduced to ONE missing implication:
        Productive cfg.env g → PureFail cfg S r.st.log p → ∃ q ≥ p, TFat r.st.log q
  ("when the body of a Name of a productive grammar returns neither result nor error at `p`, some terminal
  or End was tried at or after `p` in the same parse").  It is false without `Productive`
  (`c06_upper_needs_productive`).  Its proof needs the same Frost–Hafiz–Callaghan admissibility argument
  over curtailed activations as C01 completeness (the deepest un-curtailed activation of each nonterminal
  tries its shortest derivation, which starts with a terminal or reaches End): a curtailed call returns
  (nil, {idx}, no error), so "a failing call leaves an error at or after its start" only holds for calls
  with an empty set of curtailing parsers, and transferring it to the outermost activation is the open
  obligation.  Until then the case is covered by the harness oracle (bounded exploration).

  **C06 exactness — full statement, NOT proved** (proved: `c06_exact_partial`, `c06_exact_partial_named`).

    theorem c06_exact_STATEMENT … (hprod : Productive cfg.env g)
        (hl : g.All (LocLow cfg)) (henvL : ∀ g' ∈ cfg.env, g'.All (LocLow cfg))
        (h : parse cfg fuel (G.sentence g) = some r) (he : r.err = some e) :
        e.pos = maxTermFail r.st.log

  i.e. `c06_exact_partial(_named)` WITHOUT the hypothesis `NoCurtailBeyond r.st.log`.  `≤` is the statement
  above.  For `≥`, `run_low` shows that every terminal failure is covered by the returned error, the context
  error, a returned result or a curtailment; what is missing is that, in a productive grammar, a curtailment
  at `q` is itself followed by an error at or after `q` — a curtailed call returns (nil, {idx}, no error), and
  the un-curtailed activation of the same nonterminal at the same position has to be shown to leave an
  error at or after `q` (the same admissibility argument as for `c06_upper_STATEMENT`).  The places that
  drop an error value — Any/Choice (`nf`), `pickErr`/`altErr`/`SetError`/`parse` (keep the further one),
  Name/Single (drop a result next to an error), the Sequence loop's early exit at End — are all covered by
  `run_low`; `SuppressError` is the one that is not (`c06_exact_needs_no_suppress`).
-/

end PV
