/-
  C03 — Memoize is transparent, deterministic and evaluates at most once per position.

  Model: ParsleyVerif/Model/Run.lean (`run`, case `.memo idx body`: ResultCache.Get, the curtailment test,
  the body under `leftRecCtx.Inc`, ResultCache.Save with `leftRecCtx.Filter(cp)`).  Ghost log `St.log`:
  `Ev.body idx pos depth` each time a memoized body starts (depth = activations of that parser at that
  position on the stack, this one included), `Ev.hit`, `Ev.curtail`.  `G.strip` (Spec/Strip.lean) removes
  Memoize wrappers; `stripAll` removes all of them.

  Hypotheses, decided per run by the harness on the model's log and on the probes of the real code:
    `NoCurtail log`  — no curtail event;      `NoReentry log` — every body event has depth 1.
  Both hold for left-recursion-free grammars (a memoized body that is not left-recursive is never entered
  while it is running at the same position, so its counter is 0 on entry and nothing is curtailed).  The
  derivation of the two from a syntactic certificate is NOT proved here (statement at the end of the file).

  PROVED, for every grammar over the whole combinator set (whitespace trims included), every input, every
  fuel for which `run` answers, every call budget:

  * `c03_deterministic`, `c03_deterministic_run` — `parse` / `run` are functions and their answer does not
      depend on the fuel: two parses from a fresh context agree on results, error, message, call count,
      cache and ghost log;
  * `c03_index_renaming`, `c03_index_renaming_parse` — renaming the Memoize indexes by an order-preserving
      map (a grammar built again) gives the same results, errors, error text and call count, for every
      grammar (no hypothesis on left recursion);
  * `c03_hit_is_free` — a cache hit returns the stored results, curtailing set and error verbatim,
      registers no call and leaves cache, furthest error and activation stack alone;
  * `c03_once` — under `NoCurtail` and `NoReentry`, from a fresh context every memoized body is started at
      most once per position; `c03_completed_is_cached` — and afterwards every lookup of it hits, whatever
      the left-recursion context; `c03_no_curtail` — under `NoCurtail` alone every returned curtailing set
      and every stored context is empty;
  * `c03_state_independent` — a Memoize-free grammar never reads the left-recursion context, the cache or
      the call count: from any two states it returns the same results and error and moves the furthest
      error position by the same amount;
  * `c03_memo_placement_irrelevant` — two grammars that differ only in where Memoize is placed agree;
  * `c03_transparent`, `c03_transparent_from`, `c03_transparent_parse` — for every grammar in which each
      Memoize index wraps one parser (`MemoWF`), the run with the wrappers and the run without them (each
      with any fuel that answers) return the same results and the same error, leave the furthest recorded
      error at the same position, and the memoized run registers no more calls.  Only `NoCurtail` is
      needed (not `NoReentry`).

  FALSE, with a witness (`c03_parse_message_not_transparent`): the TEXT of the error `parsley.Parse`
  returns is not preserved.  When the parser returns no error of its own, Parse reports the context's
  furthest error; `SetError` replaces the recorded error by a later one at the SAME position (`>=`), and a
  cache hit skips the `SetError` calls of the sub-parse, so the memoized and the un-memoized grammar can end
  with different errors at the same position ("was expecting \"x\"" vs "was expecting \"b\"").  This is
  why the property speaks of the POSITION of the furthest error only.
-/
import ParsleyVerif.Proofs.MemoOnce
import ParsleyVerif.Proofs.MemoSim
import ParsleyVerif.Proofs.MemoRename
import ParsleyVerif.Proofs.RunMono
import ParsleyVerif.Generated.Facts
namespace PV
open PV.Text

/-! ### deterministic -/

/-- the answer of `run` does not depend on the fuel, once there is one -/
theorem c03_deterministic_run (cfg : Cfg) (f1 f2 : Nat) (g : G) (ctx : Ctx) (pos : Nat) (st : St) (x1 x2 : Out × St)
    (h1 : run cfg f1 g ctx pos st = some x1) (h2 : run cfg f2 g ctx pos st = some x2) : x1 = x2 := by
  have e1 := run_mono cfg f1 (max f1 f2) (Nat.le_max_left ..) g ctx pos st x1 h1
  have e2 := run_mono cfg f2 (max f1 f2) (Nat.le_max_right ..) g ctx pos st x2 h2
  rw [e1] at e2
  exact Option.some.inj e2

/-- **C03 determinism**: repeating a parse with a fresh context reproduces the results, the error, its
    text, the call count, the cache and the ghost log (all fields of `ParseOut`), whatever fuel each
    repetition was given -/
theorem c03_deterministic (cfg : Cfg) (f1 f2 : Nat) (g : G) (p1 p2 : ParseOut)
    (h1 : parse cfg f1 g = some p1) (h2 : parse cfg f2 g = some p2) : p1 = p2 := by
  have e1 := parse_mono cfg f1 (max f1 f2) (Nat.le_max_left ..) g {} p1 h1
  have e2 := parse_mono cfg f2 (max f1 f2) (Nat.le_max_right ..) g {} p2 h2
  rw [e1] at e2
  exact Option.some.inj e2

/-- the configuration whose environment has every Memoize index renamed -/
def renCfg (ρ : Nat → Nat) (cfg : Cfg) : Cfg := { cfg with env := cfg.env.map (G.ren ρ) }

/-- **C03 index renaming**: a grammar built again draws other parser indexes (order preserved); `run` on
    the renamed grammar is `run` on the original one with the indexes renamed — the results, the returned
    error, the furthest error and the call count are the same values (`renOS` only touches `Out.cp`, the
    cache keys, the activation stack and the ghost log).  For EVERY grammar, left-recursive ones included. -/
theorem c03_index_renaming (ρ : Nat → Nat) (hρ : Mono ρ) (cfg : Cfg) (fuel : Nat) (g : G) (ctx : Ctx) (pos : Nat) (st : St) :
    run (renCfg ρ cfg) fuel (g.ren ρ) (Ctx.ren ρ ctx) pos (st.ren ρ) = (run cfg fuel g ctx pos st).map (renOS ρ) :=
  run_ren hρ cfg (renCfg ρ cfg) ⟨rfl, rfl, rfl, rfl, rfl⟩ fuel g ctx pos st

theorem c03_index_renaming_observables (ρ : Nat → Nat) (x : Out × St) :
    (renOS ρ x).1.res = x.1.res ∧ (renOS ρ x).1.err = x.1.err ∧ (renOS ρ x).2.calls = x.2.calls ∧
    (renOS ρ x).2.ctxErr = x.2.ctxErr ∧ (renOS ρ x).1.cp = x.1.cp.map ρ ∧ (renOS ρ x).2.log = x.2.log.map (Ev.ren ρ) :=
  ⟨rfl, rfl, rfl, rfl, rfl, rfl⟩

/-- … and `parsley.Parse` from a fresh context returns the same node or the same error with the same text -/
theorem c03_index_renaming_parse (ρ : Nat → Nat) (hρ : Mono ρ) (cfg : Cfg) (fuel : Nat) (g : G) :
    parse (renCfg ρ cfg) fuel (g.ren ρ) = (parse cfg fuel g).map (fun p => { p with st := p.st.ren ρ }) := by
  have h := c03_index_renaming ρ hρ cfg fuel g [] (cfg.file.pos 0) {}
  rw [show Ctx.ren ρ [] = [] from rfl, show St.ren ρ {} = {} from rfl] at h
  simp only [parse]
  rw [show (renCfg ρ cfg).file = cfg.file from rfl, show (renCfg ρ cfg).fileSet = cfg.fileSet from rfl, h]
  rcases run cfg fuel g [] (cfg.file.pos 0) {} with _ | ⟨o, st1⟩
  · rfl
  · simp only [Option.map_some, renOS]
    have e1 : (o.ren ρ).res = o.res := rfl
    have e2 : (o.ren ρ).err = o.err := rfl
    rw [e1, e2, St.ren_ctxErr]
    split <;> rfl

/-! ### a hit is free -/

/-- **C03 hit**: when ResultCache.Get answers, Memoize returns the stored result, curtailing set and error,
    and the context is untouched: same cache, same furthest error, same call count, same activation stack;
    only the ghost log grows by `Ev.hit` -/
theorem c03_hit_is_free (cfg : Cfg) (fuel idx : Nat) (body : G) (ctx : Ctx) (pos : Nat) (st : St) (e : CacheEntry)
    (hb : ¬ (cfg.maxCalls ≠ 0 ∧ st.calls > cfg.maxCalls)) (h : cacheGet st.cache idx pos ctx = some e) :
    run cfg (fuel + 1) (.memo idx body) ctx pos st = some (⟨e.res, e.cp, e.err⟩, st.logEv cfg (.hit idx pos)) ∧
    (st.logEv cfg (.hit idx pos)).cache = st.cache ∧ (st.logEv cfg (.hit idx pos)).ctxErr = st.ctxErr ∧
    (st.logEv cfg (.hit idx pos)).calls = st.calls ∧ (st.logEv cfg (.hit idx pos)).active = st.active ∧
    (cfg.ghost = true → (st.logEv cfg (.hit idx pos)).log = .hit idx pos :: st.log) ∧
    e ∈ st.cache ∧ e.idx = idx ∧ e.pos = pos := by
  obtain ⟨h1, h2, h3, h4, _⟩ := logEv_fields st cfg (.hit idx pos)
  refine ⟨?_, h1, h2, h3, h4, fun hg => by rw [logEv_ghost hg], cacheGet_some h⟩
  unfold run
  simp only [hb, ↓reduceIte, h]

/-! ### at most once per position -/

theorem oinv_empty (K : Prop) : OInv K {} :=
  ⟨(by intro e he; cases he), (fun _ _ _ => by simp [bodyRuns]), (fun _ i p h => by simp [bodyRuns] at h)⟩

/-- **C03 once**: in a parse from a fresh context in which nothing was curtailed and no memoized body was
    re-entered, every memoized body was started at most once per input position -/
theorem c03_once (cfg : Cfg) (hgh : cfg.ghost = true) (fuel : Nat) (g : G) (ctx : Ctx) (pos : Nat) (o : Out) (st' : St)
    (h : run cfg fuel g ctx pos {} = some (o, st')) (hnc : NoCurtail st'.log) (hnr : NoReentry st'.log) :
    ∀ idx p, bodyRuns st'.log idx p ≤ 1 :=
  (run_once True cfg hgh fuel g ctx pos {} o st' h ⟨hnc, fun _ => hnr⟩ (oinv_empty True)).inv.once trivial

/-- … because once a body has run, its entry answers every later lookup, under every left-recursion
    context (the entry was stored with an empty context) -/
theorem c03_completed_is_cached (cfg : Cfg) (hgh : cfg.ghost = true) (fuel : Nat) (g : G) (ctx : Ctx) (pos : Nat)
    (o : Out) (st' : St) (h : run cfg fuel g ctx pos {} = some (o, st')) (hnc : NoCurtail st'.log)
    (hnr : NoReentry st'.log) (idx p : Nat) (hb : bodyRuns st'.log idx p = 1) (ctx' : Ctx) :
    ∃ e, cacheGet st'.cache idx p ctx' = some e := by
  have hp := run_once True cfg hgh fuel g ctx pos {} o st' h ⟨hnc, fun _ => hnr⟩ (oinv_empty True)
  cases hp.inv.done trivial idx p hb with
  | inl ha => rw [hp.active] at ha; cases ha
  | inr hk => exact cacheGet_of_hasKey hp.inv.ent hk ctx'

/-- when nothing is curtailed, no curtailing set is ever returned and every entry is stored with an empty
    left-recursion context (`NoReentry` is not needed for this) -/
theorem c03_no_curtail (cfg : Cfg) (hgh : cfg.ghost = true) (fuel : Nat) (g : G) (ctx : Ctx) (pos : Nat) (o : Out)
    (st' : St) (h : run cfg fuel g ctx pos {} = some (o, st')) (hnc : NoCurtail st'.log) :
    o.cp = [] ∧ (∀ e ∈ st'.cache, e.ctx = [] ∧ e.cp = []) ∧ st'.active = [] := by
  have hp := run_once False cfg hgh fuel g ctx pos {} o st' h ⟨hnc, fun k => k.elim⟩ (oinv_empty False)
  exact ⟨hp.cp, hp.inv.ent, hp.active⟩

/-! ### transparent -/

/-- the configuration with every Memoize removed from the environment -/
def stripCfg (cfg : Cfg) : Cfg := { cfg with env := cfg.env.map stripAll }

theorem stripCfg_ok (cfg : Cfg) : StripCfg cfg (stripCfg cfg) := ⟨rfl, rfl, rfl⟩

/-- a grammar without Memoize (`bo` is irrelevant) -/
def NoMemo (g : G) : Prop := g.All (MemoOK False (fun _ => .empty))

theorem c03_strip_noMemo (g : G) : NoMemo (stripAll g) := noMemo_stripAll _ g

/-- **state independence**: a Memoize-free grammar run from two different left-recursion contexts and two
    different context states (cache, furthest error, call count, log — anything) with any two fuels
    returns the same results and the same error, and raises the furthest-error position by the same `M` -/
theorem c03_state_independent (cfg0 : Cfg) (henv : ∀ g' ∈ cfg0.env, NoMemo g') (g : G) (hg : NoMemo g)
    (f1 f2 : Nat) (c1 c2 : Ctx) (pos : Nat) (s1 s2 : St) (o1 o2 : Out) (s1' s2' : St)
    (h1 : run cfg0 f1 g c1 pos s1 = some (o1, s1')) (h2 : run cfg0 f2 g c2 pos s2 = some (o2, s2')) :
    o1.res = o2.res ∧ o1.err = o2.err ∧ ∃ M, pn s1' = max (pn s1) M ∧ pn s2' = max (pn s2) M :=
  indep cfg0 _ henv g f1 c1 pos s1 o1 s1' f2 c2 s2 o2 s2' hg h1 h2

/-- **C03 transparency**, general form: the memoized run starts with an empty cache, the un-memoized one
    anywhere with the furthest error at the same position; left-recursion contexts and fuels arbitrary -/
theorem c03_transparent_from (cfg : Cfg) (bodyOf : Nat → G) (hgh : cfg.ghost = true)
    (henv : ∀ g' ∈ cfg.env, MemoWF bodyOf g') (g : G) (hg : MemoWF bodyOf g)
    (f f0 : Nat) (ctx ctx0 : Ctx) (pos : Nat) (st st0 : St) (o o0 : Out) (st' st0' : St)
    (hcache : st.cache = []) (hpn : pn st = pn st0)
    (h : run cfg f g ctx pos st = some (o, st'))
    (h0 : run (stripCfg cfg) f0 (stripAll g) ctx0 pos st0 = some (o0, st0'))
    (hnc : NoCurtail st'.log) :
    o.res = o0.res ∧ o.err = o0.err ∧ pn st' = pn st0' ∧ st'.calls + st0.calls ≤ st0'.calls + st.calls :=
  run_transparent cfg (stripCfg cfg) bodyOf (stripCfg_ok cfg) hgh henv g hg f f0 ctx ctx0 pos st st0 o o0 st' st0'
    hcache hpn h h0 hnc

/-- **C03 transparency**: wrapping any sub-parsers in Memoize changes nothing observable except the call
    count.  `g` is the grammar with the chosen wrappers, `stripAll g` / `stripCfg cfg` the grammar without;
    both parses start from a fresh context.  (`NoReentry` is not needed.) -/
theorem c03_transparent (cfg : Cfg) (bodyOf : Nat → G) (hgh : cfg.ghost = true)
    (henv : ∀ g' ∈ cfg.env, MemoWF bodyOf g') (g : G) (hg : MemoWF bodyOf g)
    (f f0 : Nat) (pos : Nat) (o o0 : Out) (st' st0' : St)
    (h : run cfg f g [] pos {} = some (o, st'))
    (h0 : run (stripCfg cfg) f0 (stripAll g) [] pos {} = some (o0, st0'))
    (hnc : NoCurtail st'.log) :
    o.res = o0.res ∧ o.err = o0.err ∧ o.cp = [] ∧
    st'.ctxErr.map Err.pos = st0'.ctxErr.map Err.pos ∧ st'.calls ≤ st0'.calls := by
  obtain ⟨h1, h2, h3, h4⟩ := c03_transparent_from cfg bodyOf hgh henv g hg f f0 [] [] pos {} {} o o0 st' st0'
    rfl rfl h h0 hnc
  refine ⟨h1, h2, (c03_no_curtail cfg hgh f g [] pos o st' h hnc).1, (pe_eq_iff _ _).mp h3, ?_⟩
  simpa using h4

/-- … and for `parsley.Parse`: the same node, or an error at the same position -/
theorem c03_transparent_parse (cfg : Cfg) (bodyOf : Nat → G) (hgh : cfg.ghost = true)
    (henv : ∀ g' ∈ cfg.env, MemoWF bodyOf g') (g : G) (hg : MemoWF bodyOf g)
    (f f0 : Nat) (p p0 : ParseOut)
    (h : parse cfg f g = some p) (h0 : parse (stripCfg cfg) f0 (stripAll g) = some p0)
    (hnc : NoCurtail p.st.log) :
    p.res = p0.res ∧ p.err.map Err.pos = p0.err.map Err.pos ∧ p.st.calls ≤ p0.st.calls := by
  cases hr : run cfg f g [] (cfg.file.pos 0) {} with
  | none => simp [parse, hr] at h
  | some r =>
    obtain ⟨o, st1⟩ := r
    cases hr0 : run (stripCfg cfg) f0 (stripAll g) [] ((stripCfg cfg).file.pos 0) {} with
    | none => simp [parse, hr0] at h0
    | some r0 =>
      obtain ⟨o0, st01⟩ := r0
      have hst : p.st = st1 := by
        simp only [parse, hr] at h
        split at h <;> (cases h; rfl)
      have hst0 : p0.st = st01 := by
        simp only [parse, hr0] at h0
        split at h0 <;> (cases h0; rfl)
      rw [hst] at hnc
      obtain ⟨t1, t2, _, t4, t5⟩ := c03_transparent cfg bodyOf hgh henv g hg f f0 _ o o0 st1 st01 hr hr0 hnc
      simp only [parse, hr] at h
      simp only [parse, hr0] at h0
      rw [← t1, ← t2] at h0
      -- the furthest errors: both absent, or both present at the same position
      cases hce : st1.ctxErr with
      | none =>
        cases hce0 : st01.ctxErr with
        | some c0 => simp [hce, hce0] at t4
        | none =>
          simp only [hce] at h
          simp only [hce0] at h0
          have : (stripCfg cfg).file.pos 0 = cfg.file.pos 0 := rfl
          rw [this] at h0
          generalize (if (o.res.isNil && o.err.isNone) = true then some (⟨cfg.file.pos 0, .other noMatchMsg⟩ : Err) else o.err) = err at h h0
          cases err with
          | none => simp only at h h0; cases h; cases h0; exact ⟨rfl, rfl, t5⟩
          | some e =>
            simp only at h h0
            cases h; cases h0
            exact ⟨rfl, rfl, t5⟩
      | some c =>
        cases hce0 : st01.ctxErr with
        | none => simp [hce, hce0] at t4
        | some c0 =>
          have hpos : c.pos = c0.pos := by simpa [hce, hce0] using t4
          simp only [hce] at h
          simp only [hce0] at h0
          by_cases hq : (o.res.isNil && o.err.isNone) = true
          · simp only [hq, ↓reduceIte] at h h0
            cases h; cases h0
            refine ⟨rfl, ?_, t5⟩
            simp only [Option.map_some, Option.some.injEq]
            (repeat' split) <;> first | exact hpos | omega
          · simp only [hq] at h h0
            cases herr : o.err with
            | none => simp only [herr] at h h0; cases h; cases h0; exact ⟨rfl, rfl, t5⟩
            | some e =>
              simp only [herr] at h h0
              cases h; cases h0
              refine ⟨rfl, ?_, t5⟩
              simp only [Option.map_some, Option.some.injEq, hpos]
              (repeat' split) <;> first | rfl | exact hpos | omega

/-- which sub-parsers are memoized, and under which indexes, is irrelevant: two grammars that differ only in
    their Memoize wrappers (same grammar once the wrappers are removed) return the same results and error
    and leave the furthest error at the same position — whenever the wrapper-free grammar answers at all -/
theorem c03_memo_placement_irrelevant (cfg1 cfg2 : Cfg) (bo1 bo2 : Nat → G)
    (hgh1 : cfg1.ghost = true) (hgh2 : cfg2.ghost = true)
    (hfile : cfg2.file = cfg1.file) (hparams : cfg2.params = cfg1.params)
    (henvs : cfg2.env.map stripAll = cfg1.env.map stripAll)
    (henv1 : ∀ g' ∈ cfg1.env, MemoWF bo1 g') (henv2 : ∀ g' ∈ cfg2.env, MemoWF bo2 g')
    (g1 g2 : G) (hg1 : MemoWF bo1 g1) (hg2 : MemoWF bo2 g2) (hstrip : stripAll g2 = stripAll g1)
    (f1 f2 f0 pos : Nat) (o1 o2 o0 : Out) (s1 s2 s0 : St)
    (h1 : run cfg1 f1 g1 [] pos {} = some (o1, s1)) (h2 : run cfg2 f2 g2 [] pos {} = some (o2, s2))
    (h0 : run (stripCfg cfg1) f0 (stripAll g1) [] pos {} = some (o0, s0))
    (hnc1 : NoCurtail s1.log) (hnc2 : NoCurtail s2.log) :
    o1.res = o2.res ∧ o1.err = o2.err ∧ s1.ctxErr.map Err.pos = s2.ctxErr.map Err.pos := by
  obtain ⟨a1, a2, a3, _⟩ := run_transparent cfg1 (stripCfg cfg1) bo1 (stripCfg_ok cfg1) hgh1 henv1 g1 hg1 f1 f0 [] [] pos
    {} {} o1 o0 s1 s0 rfl rfl h1 h0 hnc1
  have hc2 : StripCfg cfg2 (stripCfg cfg1) := ⟨hfile.symm, hparams.symm, henvs.symm⟩
  rw [← hstrip] at h0
  obtain ⟨b1, b2, b3, _⟩ := run_transparent cfg2 (stripCfg cfg1) bo2 hc2 hgh2 henv2 g2 hg2 f2 f0 [] [] pos
    {} {} o2 o0 s2 s0 rfl rfl h2 h0 hnc2
  exact ⟨by rw [a1, b1], by rw [a2, b2], (pe_eq_iff _ _).mp (by rw [show pe s1.ctxErr = pn s1 from rfl, a3, ← b3]; rfl)⟩

/-! ### the facts of the source the model relies on (regenerated on every run) -/

/- (the text facts that stood here - condition lists and statement orders of Memoize, ResultCache, Any, Choice, the Sequence
   machinery, ReturnError, SetError, Parse, re-read from the source as normalised text - are subsumed since translator v3: the
   functions themselves are translated from the source on every run and the model is PROVED to agree with the translation
   (Props/C01P.lean, built and audited by this property's check).  Unlike a text comparison, that tie is not broken by an
   equivalent rewrite of the source.) -/
theorem c03_facts : Facts.curtailSlack = 1 := rfl

/-! ### non-vacuity -/

def c03t (c : Nat) : G := .term (.rune c [34, c, 34])

def c03Cfg (data : List Nat) : Cfg :=
  { env := [], file := { name := "f", data := data, offset := 1 }, fileSet := {},
    params := { floatOk := fun _ => true, durErr := fun _ => none, regexp := fun _ _ => none } }

/-- `A → memo₀ (a | b)`, `S → A x | A y`: on "ay" the second alternative asks for `A` at the position where
    the first one already ran it -/
def c03A : G := .memo 0 (.any [c03t 97, c03t 98])
def c03S : G := .any [.seq .seqOf [c03A, c03t 120] {}, .seq .seqOf [c03A, c03t 121] {}]

theorem c03S_wf : MemoWF (fun _ => .any [c03t 97, c03t 98]) c03S := by
  simp [MemoWF, c03S, c03A, c03t, G.All, AllList, MemoOK]

/-- the memoized parse: one tree ending after "ay", no error, 8 calls, furthest error at position 2 -/
example : ((run (c03Cfg [97, 121]) 20 c03S [] 1 {}).map (fun r =>
      (r.1.res.alts.map Node.rpos, r.1.err, r.2.calls, r.2.ctxErr.map Err.pos)))
    = some ([3], none, 8, some 2) := by decide

/-- … in which the body of `A` was started once at position 1, its second use was a hit, nothing was
    curtailed and nothing re-entered -/
example : ((run (c03Cfg [97, 121]) 20 c03S [] 1 {}).map (fun r =>
      (bodyRuns r.2.log 0 1, r.2.log.any (fun e => match e with | .hit 0 1 => true | _ => false),
        decide (NoCurtail r.2.log), decide (NoReentry r.2.log))))
    = some (1, true, true, true) := by decide

/-- the same grammar without the wrapper: same tree, same error, same furthest-error position — and 10
    calls, strictly more -/
example : ((run (stripCfg (c03Cfg [97, 121])) 20 (stripAll c03S) [] 1 {}).map (fun r =>
      (r.1.res.alts.map Node.rpos, r.1.err, r.2.calls, r.2.ctxErr.map Err.pos)))
    = some ([3], none, 10, some 2) := by decide

/-- the theorem applies to this pair of runs (its hypotheses are satisfiable): the trees are equal -/
example (o o0 : Out) (st' st0' : St) (h : run (c03Cfg [97, 121]) 20 c03S [] 1 {} = some (o, st'))
    (h0 : run (stripCfg (c03Cfg [97, 121])) 20 (stripAll c03S) [] 1 {} = some (o0, st0'))
    (hnc : NoCurtail st'.log) : o.res = o0.res ∧ st'.calls ≤ st0'.calls :=
  have t := c03_transparent (c03Cfg [97, 121]) _ rfl (by intro g' hg'; cases hg') c03S c03S_wf 20 20 1 o o0 st' st0' h h0 hnc
  ⟨t.1, t.2.2.2.2⟩

/-- the hypotheses of `c03_once` are not always true: `P → memo₀ (P b | a)` re-enters and curtails -/
example : ((run { c03Cfg [97, 98] with env := [.memo 0 (.any [.seq .seqOf [.ref 0, c03t 98] {}, c03t 97])] }
      40 (.ref 0) [] 1 {}).map (fun r => (decide (NoCurtail r.2.log), decide (NoReentry r.2.log), bodyRuns r.2.log 0 1)))
    = some (false, false, 4) := by decide

/-! ### what is NOT preserved: the text of the error Parse reports -/

/-- `A → memo₀ (a b | a)`, `X → a x | a`, `S → Suppress (A c | X d | A e)` on "a".
    `A` records "expecting b" at position 2, `X` replaces it by "expecting x" at the same position
    (`SetError` uses `>=`); the third alternative re-runs `A` in the un-memoized grammar (recording
    "expecting b" again) and hits the cache in the memoized one (recording nothing). -/
def c03WA : G := .memo 0 (.any [.seq .seqOf [c03t 97, c03t 98] {}, c03t 97])
def c03WX : G := .any [.seq .seqOf [c03t 97, c03t 120] {}, c03t 97]
def c03W : G :=
  .suppress (.any [.seq .seqOf [c03WA, c03t 99] {}, .seq .seqOf [c03WX, c03t 100] {}, .seq .seqOf [c03WA, c03t 101] {}])

theorem c03W_wf : MemoWF (fun _ => .any [.seq .seqOf [c03t 97, c03t 98] {}, c03t 97]) c03W := by
  simp [MemoWF, c03W, c03WA, c03WX, c03t, G.All, AllList, MemoOK]

/-- **the error Parse returns is NOT identical**: same position, different error (hence different text) -/
theorem c03_parse_message_not_transparent :
    (parse (c03Cfg [97]) 30 c03W).map (fun p => (p.err, decide (NoCurtail p.st.log), decide (NoReentry p.st.log)))
      = some (some ⟨2, .notFound [34, 120, 34]⟩, true, true) ∧
    (parse (stripCfg (c03Cfg [97])) 30 (stripAll c03W)).map (fun p => p.err)
      = some (some ⟨2, .notFound [34, 98, 34]⟩) := by
  constructor <;> decide

/-
  **Left-recursion-free grammars satisfy the two hypotheses — the statement as first written.  It is now PROVED in
  Props/C03L.lean (`c03_lrf_no_reentry`, `c03_transparent_lrf`, `c03_once_lrf`) for a decidable certificate `lrf`
  (the rank formulation below turned out to be insufficient: `c03l_rank_alone_insufficient`):**

    theorem lrf_no_reentry (cert : Nat → Bool × Nat) (h : LRF cert cfg.env g)
        (hr : run cfg fuel g [] pos {} = some (o, st')) : NoCurtail st'.log ∧ NoReentry st'.log

  with `LRF cert env g` the decidable certificate of DESIGN.md §6 C02/C03 (a nullable table closed under
  `mayBeEmpty`, and a rank that strictly decreases along every left reference, tagged or not).  The proof
  needs the invariant "every frame on the activation stack at the current position belongs to a rule of
  strictly higher rank than the parser being run", which makes `ctx.get idx = 0` at every Memoize entry.
  Until then both hypotheses are checked on every run: on the model's log by `decide`, and on the real code
  by the activation probes placed inside every Memoize.
-/

end PV
