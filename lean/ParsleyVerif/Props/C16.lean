/-
  C16 — the example JSON parser agrees with encoding/json on the supported subset.

  Model: `run` / `parse` / `evaluate` on the closed grammar `Gjson.env`, `Gjson.root` (Spec/Json.lean), the
  transcription of /repo/examples/json/json/parser.go under `Sentence(Trim(…))`:

      value  := Choice(String, Float, Integer, array, object, Bool("true","false"), Nil("null")).Name("value")
      array  := SeqOf('[', SepBy(LeftTrim(value, nl), LeftTrim(',', spaces)).Bind(Array),  LeftTrim(']', nl)).Bind(Select(1))
      kv     := SeqOf(String, LeftTrim(':', spaces), LeftTrim(value, nl))                  -- no interpreter
      object := SeqOf('{', SepBy(LeftTrim(kv, nl), LeftTrim(',', spaces)).Bind(Object), LeftTrim('}', nl)).Bind(Select(1))
      root   := Sentence(Trim(value))

  exactly the terms the harness sends to the model (stream C16G: the driver command `gclosed` compares the received
  grammar with these closed terms on every run; the differential stream C16 runs the REAL `json.NewParser()`
  against the model of this transcription and against encoding/json).

  Reference: `JVal` (null, bool, int64, decimal lexeme, string bytes, arrays, objects as member lists with
  duplicates), `jvalOf : Node → Option JVal`, `denote : JVal → V` (arrays in order; objects as Go maps to which
  the members are assigned in source order, so the LAST duplicate key wins: `c16_denote_obj`).

  PROVED (every input file, every fuel, every custom-interpreter table):
  * `c16_tree_shape`   every derivation of the root is `Sentence[t, EOF]`, `t` a JSON tree (`IsJsonTree`: literal
                       leaves; `['[', SEP_BY/Array node, ']']` under Select(1) whose even children are JSON trees
                       and odd children `,` leaves, never ending in `,`; the same for objects with key/value
                       nodes `[STRING leaf with a string value, ':', JSON tree]`) ending at the end of the input;
  * `c16_parse_tree`   through C01 soundness: every tree `parse` returns has this shape;
  * `c16_eval_total`   a JSON tree evaluates to a VALUE, for every fuel (or the fuel runs out): no error, none of
                       the evaluator's panics — in particular Object's type assertions hold (`key.(string)`:
                       child 0 is a STRING leaf; `Children()[0]`, `[2]`: three children; `nodes[i].(NonTerminalNode)`);
  * `c16_value`        `evalNode ce fuel x = .ok (denote j)` for `jvalOf x = some j` (`c16_jvalOf_total`: every JSON
                       tree has one) and fuel above the depth;
  * `c16_evaluate`, `c16_no_panic`, `c16_value_partial`, `c16_reject_partial`: the same through `parse` /
                       `evaluate`: error xor value, a value only from a tree `Sentence[jsonTree, EOF]` that spans
                       the input, and it is `denote` of the JSON value the tree denotes; never a panic.

  FALSE as suggested, negation proved: "every JSON tree is `Node.EvalSafe`, so `c04_eval` gives no-panic" —
  `c16_json_tree_not_evalSafe`: the key/value SEQ nodes carry NO interpreter (parser.go binds none; Object reads
  their children directly and never evaluates them), and `Node.EvalSafe` demands an interpreter at every
  non-terminal.  No-panic is therefore proved directly (`c16_eval_total`), not through `c04_eval`.

  NOT PROVED — the full statements of DESIGN.md, kept here:

      theorem c16_value_STATEMENT (v : JVal) (l : Layout) (hv : Supported v) :
          evaluate (cfgOf (renderJ v l)) ce fuel Gjson.root = some (.value (denote v))
      theorem c16_reject_STATEMENT : w ∈ Truncations/Corruptions that L(Gjson) excludes →
          ∃ m, evaluate (cfgOf w) ce fuel Gjson.root = some (.error m)
      -- and, outside Lean: denote v is what encoding/json (UseNumber) decodes renderJ v l to

  Missing for `c16_value_STATEMENT`: completeness of `run` on this grammar (the tree of `renderJ v l` is found:
  Choice's first-match discipline, SepBy's longest path, the terminals' theorems of C08) and uniqueness of that
  tree; what IS proved is the partial form: every successful parse evaluates to `denote` of the JSON value its
  tree denotes.  Missing for `c16_reject_STATEMENT`: a description of L(Gjson) as byte strings (the leaves'
  spelling under trims); what IS proved is `c16_reject_partial`.  Agreement of `denote` with encoding/json is
  about an external library: the differential stream C16 checks it on every generated document.
-/
import ParsleyVerif.Proofs.JsonShape
import ParsleyVerif.Proofs.JsonEval
import ParsleyVerif.Proofs.JsonDec
import ParsleyVerif.Proofs.ArithParse
import ParsleyVerif.Props.C01
import ParsleyVerif.Props.C05
import ParsleyVerif.Props.C13
namespace PV
open PV.Text

/-! ### the grammar is within the scope of C01 soundness (it has no Memoize at all) -/

theorem c16_grammar_ok (bodyOf : Nat → G) : (∀ g' ∈ Gjson.env, GOK bodyOf g') ∧ GOK bodyOf Gjson.root := by
  refine ⟨?_, ?_⟩
  · intro g' hg'
    simp only [Gjson.env, List.mem_cons, List.not_mem_nil, or_false] at hg'
    subst hg'
    simp [GOK, G.All, AllList, LocalOK, Gjson.valueRule, Gjson.alts, Gjson.array, Gjson.object, Gjson.elems,
      Gjson.members, Gjson.keyValue, Gjson.comma, Gjson.value, Gjson.rn]
  · simp [GOK, G.All, AllList, LocalOK, Gjson.root, G.sentence]

/-! ### tree shape -/

/-- every derivation of the `value` rule is a JSON tree -/
theorem c16_value_trees (cfg : Cfg) (henv : cfg.env = Gjson.env) (pos : Nat) (x : Node)
    (h : Derives cfg (.ref 0) pos x) : IsJsonTree cfg.file x :=
  json_derives_tree cfg henv pos x h

/-- **C16 tree shape**: every derivation of the root is `Sentence[t, EOF]`, `t` a JSON tree ending at the end of
    the input -/
theorem c16_tree_shape (cfg : Cfg) (henv : cfg.env = Gjson.env) (pos : Nat) (x : Node)
    (h : Derives cfg Gjson.root pos x) :
    ∃ t, IsJsonTree cfg.file t ∧ isEOF cfg.file t.rpos = true ∧ x = sentenceNode t := by
  obtain ⟨y, hy, heof, hx⟩ := derives_sentence_inv cfg _ pos x h
  exact ⟨y, json_derives_trim cfg henv pos y hy, heof, hx⟩

/-- through C01 soundness: every tree `parse` returns is `Sentence[t, EOF]` over a JSON tree that ends at the end
    of the input -/
theorem c16_parse_tree (cfg : Cfg) (henv : cfg.env = Gjson.env) (fuel : Nat) (p : ParseOut)
    (h : parse cfg fuel Gjson.root = some p) :
    ∀ x ∈ p.res.alts, ∃ t, IsJsonTree cfg.file t ∧ isEOF cfg.file t.rpos = true ∧ x = sentenceNode t := by
  intro x hx
  have hok := c16_grammar_ok (fun _ => .empty)
  have henv' : ∀ g' ∈ cfg.env, GOK (fun _ => .empty) g' := by rw [henv]; exact hok.1
  exact c16_tree_shape cfg henv _ x (c01_sound_parse cfg _ henv' fuel _ hok.2 p h x hx)

/-! ### evaluation of JSON trees -/

/-- every JSON tree denotes a JSON value -/
theorem c16_jvalOf_total (f : File) (x : Node) (h : IsJsonTree f x) : ∃ j, jvalOf x = some j := by
  obtain ⟨j, hj, _⟩ := json_good (fun _ _ _ _ => .panic "") h
  exact ⟨j, hj⟩

/-- **C16 totality**: for every custom-interpreter table and every fuel a JSON tree evaluates to the value of the
    JSON value it denotes, or the fuel runs out (only when it does not exceed the depth): never an error, never
    one of the evaluator's panics ("missing interpreter", "node index is out of bounds", "index out of range",
    "interface conversion …") -/
theorem c16_eval_total (f : File) (x : Node) (h : IsJsonTree f x) (ce : CustomEval) (fuel : Nat) :
    ∃ j, jvalOf x = some j ∧
      (evalNode ce fuel x = .ok (denote j) ∨ (evalNode ce fuel x = .panic "out of fuel" ∧ fuel ≤ x.depth)) := by
  obtain ⟨j, hj, hev⟩ := json_good ce h
  exact ⟨j, hj, hev fuel⟩

/-- **C16 value**: with fuel above the depth, a JSON tree evaluates to `denote` of the JSON value it denotes -/
theorem c16_value (f : File) (x : Node) (h : IsJsonTree f x) (j : JVal) (hj : jvalOf x = some j) (ce : CustomEval)
    (fuel : Nat) (hd : x.depth < fuel) : evalNode ce fuel x = .ok (denote j) := by
  obtain ⟨j', hj', hev⟩ := c16_eval_total f x h ce fuel
  rw [hj] at hj'
  cases hj'
  rcases hev with h1 | ⟨_, h2⟩
  · exact h1
  · omega

/-- **FALSE as suggested** ("every JSON tree is `Node.EvalSafe`"): the tree of `{"a":1}` is a JSON tree and is
    not `EvalSafe` — its key/value node has no interpreter.  (Evaluation does not panic all the same:
    `c16_eval_total`; Object never evaluates the key/value node itself.) -/
theorem c16_json_tree_not_evalSafe :
    ∃ (f : File) (x : Node), IsJsonTree f x ∧ ¬ x.EvalSafe := by
  refine ⟨{ name := "f", data := [123, 34, 97, 34, 58, 49, 125], offset := 1 },
    .nt seqTok [.term [123] (.rune 123) 1 2,
      .nt sepByTok [.nt seqTok [.term (tokOf "STRING") (.str [97]) 2 5, .term [58] (.rune 58) 5 6,
        .term (tokOf "INTEGER") (.int 1) 6 7] 2 7 .none] 2 7 .object,
      .term [125] (.rune 125) 7 8] 1 8 (.select 1), ?_, ?_⟩
  · refine .obj ⟨1, 2, rfl, 2, by decide⟩ ⟨7, 8, rfl, 8, by decide⟩ (.inr rfl) ?_ ?_ ?_
    · intro i n hn hi
      match i, hi with
      | 1, _ => simp at hn
      | k + 2, _ => simp at hn
    · intro i n hn hi
      match i, hi with
      | 0, _ =>
        simp only [List.getElem?_cons_zero, Option.some.injEq] at hn
        subst hn
        exact ⟨_, _, _, _, _, _, _, _, _, rfl, 5, 6, rfl, 6, by decide⟩
      | k + 1, _ => simp at hn
    · intro i tk3 k0 colon v p3 q3 i3 hn hi
      match i, hi with
      | 0, _ =>
        simp only [List.getElem?_cons_zero, Option.some.injEq, Node.nt.injEq, List.cons.injEq, and_true] at hn
        obtain ⟨_, ⟨_, _, rfl⟩, _⟩ := hn
        exact .int
      | k + 1, _ => simp at hn
  · simp [Node.EvalSafe, EvalSafeList]

/-! ### what `denote` means -/

theorem denoteList_eq : ∀ l : List JVal, denoteList l = l.map denote
  | [] => by simp [denoteList]
  | j :: l => by simp [denoteList, denoteList_eq l]

theorem denotePairs_eq : ∀ l : List (Bytes × JVal), denotePairs l = l.map (fun kj => (kj.1, denote kj.2))
  | [] => by simp [denotePairs]
  | (k, j) :: l => by simp [denotePairs, denotePairs_eq l]

/-- arrays: the elements' values in order -/
theorem c16_denote_arr (l : List JVal) : denote (.arr l) = .arr (l.map denote) := by
  simp [denote, denoteList_eq]

/-- objects: a map in which every key occurs once and answers with the value of the LAST member with that key -/
theorem c16_denote_obj (kvs : List (Bytes × JVal)) :
    ∃ m, denote (.obj kvs) = .obj m ∧ (m.map (·.1)).Nodup ∧
      ∀ k, mapGet m k = (kvs.reverse.find? (fun kj => kj.1 = k)).map (fun kj => denote kj.2) := by
  refine ⟨mapOfPairs (denotePairs kvs), by simp [denote], (c13_object_map _ []).2, fun k => ?_⟩
  rw [(c13_object_map _ k).1, denotePairs_eq, ← List.map_reverse, List.find?_map]
  simp [Function.comp_def]

/-- scalars -/
theorem c16_denote_scalars (b : Bool) (i : Int) (l s : Bytes) :
    denote .null = .nil ∧ denote (.bool b) = .bool b ∧ denote (.int i) = .int i ∧ denote (.float l) = .float l ∧
    denote (.str s) = .str s := by
  simp [denote]

/-! ### Evaluate -/

theorem sentenceNode_depth (t : Node) : (sentenceNode t).depth = t.depth + 1 := by
  simp [sentenceNode, Node.depth, depthAll]

/-- **C16, `evaluate` on the grammar** (DESIGN.md's `c16_value_partial`).  Either the parse fails and its error
    is the answer; or it returns a single tree `Sentence[t, EOF]`, `t` a JSON tree denoting `j`, and the answer is
    the value `denote j` (or out of fuel); or it returns several trees (not excluded here: that needs
    unambiguity) and the answer is the evaluator's "node does not have a value" error. -/
theorem c16_evaluate (cfg : Cfg) (henv : cfg.env = Gjson.env) (ce : CustomEval) (fuel : Nat) (out : EvaluateOut)
    (h : evaluate cfg ce fuel Gjson.root = some out) :
    ∃ p, parse cfg fuel Gjson.root = some p ∧
      ((∃ m, p.msg = some m ∧ out = .error m) ∨
       (p.msg = none ∧ ∃ t j, p.res = .one (sentenceNode t) ∧ IsJsonTree cfg.file t ∧ isEOF cfg.file t.rpos = true ∧
          jvalOf t = some j ∧ (out = .value (denote j) ∨ (out = .panic "out of fuel" ∧ fuel ≤ t.depth + 1))) ∨
       (p.msg = none ∧ ∃ n l, p.res = .list (n :: l) ∧
          out = .error (errorWithPosition cfg.fileSet ⟨n.pos, .other noValueMsg⟩))) := by
  obtain ⟨p, hp, hcase⟩ := evaluate_cases cfg ce fuel Gjson.root out h
  refine ⟨p, hp, ?_⟩
  rcases hcase with hrej | ⟨hok, hev⟩
  · exact .inl hrej
  · have hne := parse_sentence_alts_ne cfg _ fuel p hp hok
    have htrees := c16_parse_tree cfg henv fuel p hp
    cases hres : p.res with
    | nil => simp [hres, Res.alts] at hne
    | list l =>
      cases l with
      | nil => simp [hres, Res.alts] at hne
      | cons n l' =>
        refine .inr (.inr ⟨hok, n, l', rfl, ?_⟩)
        rw [hres] at hev
        simp only [evalRes] at hev
        rcases hev with ⟨v, h1, _⟩ | ⟨q, m, h1, h2⟩ | ⟨s, h1, _⟩
        · cases h1
        · cases h1; exact h2
        · cases h1
    | one x =>
      obtain ⟨t, ht, heof, rfl⟩ := htrees x (by simp [hres, Res.alts])
      rw [hres] at hev
      simp only [evalRes] at hev
      cases fuel with
      | zero =>
        obtain ⟨j, hj⟩ := c16_jvalOf_total _ t ht
        refine .inr (.inl ⟨hok, t, j, rfl, ht, heof, hj, ?_⟩)
        rcases hev with ⟨v, h1, _⟩ | ⟨q, m, h1, _⟩ | ⟨s, h1, h2⟩
        · cases h1
        · cases h1
        · simp only [evalNode, EvalOut.panic.injEq] at h1
          subst h1
          exact .inr ⟨h2, Nat.zero_le _⟩
      | succ k =>
        rw [evalNode_sentenceNode] at hev
        obtain ⟨j, hj, hjv⟩ := c16_eval_total _ t ht ce k
        refine .inr (.inl ⟨hok, t, j, rfl, ht, heof, hj, ?_⟩)
        rcases hjv with hv | ⟨hv, hk⟩
        · rw [hv] at hev
          rcases hev with ⟨v', h1, h2⟩ | ⟨q, m, h1, _⟩ | ⟨s, h1, _⟩
          · cases h1; exact .inl h2
          · cases h1
          · cases h1
        · rw [hv] at hev
          rcases hev with ⟨v', h1, _⟩ | ⟨q, m, h1, _⟩ | ⟨s, h1, h2⟩
          · cases h1
          · cases h1
          · cases h1; exact .inr ⟨h2, by omega⟩

/-- **C16: `evaluate` never panics** on the JSON grammar, whatever the input (truncated, corrupted, trailing
    bytes, …) — the model's own "out of fuel" aside -/
theorem c16_no_panic (cfg : Cfg) (henv : cfg.env = Gjson.env) (ce : CustomEval) (fuel : Nat) (s : String)
    (h : evaluate cfg ce fuel Gjson.root = some (.panic s)) : s = "out of fuel" := by
  obtain ⟨p, _, hc⟩ := c16_evaluate cfg henv ce fuel _ h
  rcases hc with ⟨m, _, h1⟩ | ⟨_, t, j, _, _, _, _, h1⟩ | ⟨_, n, l, _, h1⟩
  · cases h1
  · rcases h1 with h2 | ⟨h2, _⟩
    · cases h2
    · cases h2; rfl
  · cases h1

/-- **C16: a value is `denote` of the JSON value denoted by the tree that was parsed**, and that tree spans the
    input to its end -/
theorem c16_value_partial (cfg : Cfg) (henv : cfg.env = Gjson.env) (ce : CustomEval) (fuel : Nat) (v : V)
    (h : evaluate cfg ce fuel Gjson.root = some (.value v)) :
    ∃ p t j, parse cfg fuel Gjson.root = some p ∧ p.res = .one (sentenceNode t) ∧ IsJsonTree cfg.file t ∧
      isEOF cfg.file t.rpos = true ∧ jvalOf t = some j ∧ v = denote j := by
  obtain ⟨p, hp, hc⟩ := c16_evaluate cfg henv ce fuel _ h
  rcases hc with ⟨m, _, h1⟩ | ⟨_, t, j, hres, ht, heof, hj, h1⟩ | ⟨_, n, l, _, h1⟩
  · cases h1
  · rcases h1 with h2 | ⟨h2, _⟩
    · cases h2; exact ⟨p, t, j, hp, hres, ht, heof, hj, rfl⟩
    · cases h2
  · cases h1

/-- **C16 reject (partial)**: `parse` gives exactly one of tree / error (C04); a tree is never anything but
    `Sentence[jsonTree, EOF]` with the JSON tree ending at the end of the input (no value from trailing input, none
    from a non-JSON shape); and `evaluate` then answers a value or an error, never a panic (`c16_no_panic`) -/
theorem c16_reject_partial (cfg : Cfg) (henv : cfg.env = Gjson.env) (fuel : Nat) (p : ParseOut)
    (h : parse cfg fuel Gjson.root = some p) :
    (p.res.isNil = true ∧ p.err.isSome ∧ p.msg.isSome) ∨
    (p.res.isNil = false ∧ p.err = none ∧ p.msg = none ∧ p.res.alts ≠ [] ∧
      ∀ x ∈ p.res.alts, ∃ t, IsJsonTree cfg.file t ∧ isEOF cfg.file t.rpos = true ∧ x = sentenceNode t) := by
  rcases c04_xor cfg fuel _ {} p h with h1 | h1
  · exact .inr ⟨h1.1, h1.2.1, h1.2.2, parse_sentence_alts_ne cfg _ fuel p h h1.2.2, c16_parse_tree cfg henv fuel p h⟩
  · exact .inl h1

/-! ### non-vacuity: the model's `evaluate`, run by the kernel on concrete files -/

def nvJsonCfg (src : Bytes) : Cfg :=
  let r := ({} : FileSet).addFile (newFile "f" src)
  { env := Gjson.env, file := r.2, fileSet := r.1,
    params := { floatOk := fun _ => true, durErr := fun _ => none, regexp := fun _ _ => none } }

def noCustom : CustomEval := fun _ _ _ _ => .panic "no custom interpreter"

/-- `{"a":[1,2.5,"x"],"a":null}` evaluates to the object with a ↦ null: the last duplicate key wins -/
example : evaluate (nvJsonCfg [123, 34, 97, 34, 58, 91, 49, 44, 50, 46, 53, 44, 34, 120, 34, 93, 44, 34, 97, 34, 58,
    110, 117, 108, 108, 125]) noCustom 1000 Gjson.root = some (.value (.obj [([97], .nil)])) :=
  outIsValue_sound (by decide +kernel)

/-- ` [1, 2.5 ,"x\n",true]` with whitespace where the modes allow it -/
example : evaluate (nvJsonCfg [32, 91, 49, 44, 32, 50, 46, 53, 32, 44, 34, 120, 92, 110, 34, 44, 116, 114, 117, 101, 93])
    noCustom 1000 Gjson.root = some (.value (.arr [.int 1, .float [50, 46, 53], .str [120, 10], .bool true])) :=
  outIsValue_sound (by decide +kernel)

/-- `{"k":{"b":-7},"":[]}` -/
example : evaluate (nvJsonCfg [123, 34, 107, 34, 58, 123, 34, 98, 34, 58, 45, 55, 125, 44, 34, 34, 58, 91, 93, 125])
    noCustom 1000 Gjson.root = some (.value (.obj [([107], .obj [([98], .int (-7))]), ([], .arr [])])) :=
  outIsValue_sound (by decide +kernel)

/-- truncation `[1,`, a missing separator `[1 2]`, trailing input `[1]]`: errors -/
example : evaluate (nvJsonCfg [91, 49, 44]) noCustom 1000 Gjson.root =
    some (.error (tokOf "failed to parse the input: was expecting value at f:1:4")) :=
  outIsError_sound (by decide +kernel)
example : evaluate (nvJsonCfg [91, 49, 32, 50, 93]) noCustom 1000 Gjson.root =
    some (.error (tokOf "failed to parse the input: was expecting \"]\" at f:1:4")) :=
  outIsError_sound (by decide +kernel)
example : evaluate (nvJsonCfg [91, 49, 93, 93]) noCustom 1000 Gjson.root =
    some (.error (tokOf "failed to parse the input: was expecting the end of input at f:1:4")) :=
  outIsError_sound (by decide +kernel)

/-- the reference side of the first example: the member list keeps both `a`s, `denote` keeps the last -/
example : denote (.obj [([97], .arr [.int 1, .float [50, 46, 53], .str [120]]), ([97], .null)]) = .obj [([97], .nil)] := by
  simp [denote, denotePairs, denoteList, mapOfPairs, objSet]

end PV
