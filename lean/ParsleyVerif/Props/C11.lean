/-
  C11 — Global positions map one-to-one onto file, line and column.

  Model: ParsleyVerif/Model/Text.lean (`FileSet.addFile`, `FileSet.position`, `File.position` with Go's two
  sort.Search loops, `File.lines`, `normCRLF`; `.panic` = an index outside a slice in the Go code,
  `.unknown` = parsley.NilPosition).  Specification: ParsleyVerif/Spec/LineCol.lean (`lineCol`: count the
  line feeds before the offset; `dropCRbeforeLF`: delete exactly the CRs that stand before an LF).
  Proofs: ParsleyVerif/Proofs/FileSet.lean, parametric in the generated constants; the side conditions on
  `Facts.fileSetFirstPos` and `Facts.fileSetGap` are discharged here, by `decide`, once each.

  Domain of every theorem: every file set reachable through the API, `buildFS files` = AddFile for each
  file in order on NewFileSet() (any number of files, empty files, any content), every index `i`, every
  offset `off ≤ len i` (first byte … end-of-file position), every global position `p` (0 and
  out-of-range included).  `g.pos off` is `(f *File) Pos(off)` of the file as the set holds it.
-/
import ParsleyVerif.Proofs.FileSet
namespace PV.Text

/-- the generated constants, each obligation stated once -/
theorem c11_first_ge : 1 ≤ Facts.fileSetFirstPos := by decide
theorem c11_first_le : Facts.fileSetFirstPos ≤ 1 := by decide
theorem c11_gap_ge : 1 ≤ Facts.fileSetGap := by decide
theorem c11_gap_le : Facts.fileSetGap ≤ 1 := by decide

/-- what the set holds: as many files and offsets as were added; entry `i` is input file `i` (name and
    normalised content untouched) with `offset = offsets[i]` -/
theorem c11_files (files : List File) :
    (buildFS files).files.length = files.length ∧ (buildFS files).offsets.length = files.length ∧
    ∀ (i : Nat) (f : File), files[i]? = some f →
      ∃ o, (buildFS files).offsets[i]? = some o ∧ (buildFS files).files[i]? = some { f with offset := o } :=
  ⟨buildFS_files_length files, buildFS_offsets_length files, buildFS_getElem? files⟩

/-- the layout: the first file starts at the first position, each next file starts one gap after the
    previous end-of-file position, `fs.pos` is one gap after the last end-of-file position -/
theorem c11_layout (files : List File) :
    (∀ a : File, (buildFS files).files[0]? = some a → a.offset = Facts.fileSetFirstPos) ∧
    (∀ (i : Nat) (a b : File), (buildFS files).files[i]? = some a → (buildFS files).files[i + 1]? = some b →
        a.offset + a.len + Facts.fileSetGap = b.offset) ∧
    (∀ (i : Nat) (a : File), (buildFS files).files[i]? = some a → i + 1 = files.length →
        a.offset + a.len + Facts.fileSetGap = (buildFS files).pos) ∧
    (∀ i : Nat, (buildFS files).offsets[i]? = ((buildFS files).files[i]?).map File.offset) ∧
    (files = [] → (buildFS files).pos = Facts.fileSetFirstPos) :=
  buildFS_layout files

/-- **round trip**: every global position from a file's first byte through its end-of-file position
    translates back to that file's name and the line and column of the specification -/
theorem c11_roundtrip (files : List File) (i : Nat) (g : File) (off : Nat)
    (hg : (buildFS files).files[i]? = some g) (hoff : off ≤ g.len) :
    (buildFS files).position (g.pos off) = .at_ g.name (lineCol g.data off).1 (lineCol g.data off).2 :=
  fileSet_roundtrip_of c11_first_ge c11_gap_ge files i g off hg hoff

/-- the same from raw contents: files made by NewFile(name, raw), in terms of the input list only -/
theorem c11_roundtrip_raw (srcs : List (String × Bytes)) (i : Nat) (name : String) (raw : Bytes) (off : Nat)
    (hs : srcs[i]? = some (name, raw)) (hoff : off ≤ (normCRLF raw).length) :
    ∃ o, (buildFS (srcs.map fun s => newFile s.1 s.2)).offsets[i]? = some o ∧
      (buildFS (srcs.map fun s => newFile s.1 s.2)).position (o + off) =
        .at_ name (lineCol (normCRLF raw) off).1 (lineCol (normCRLF raw) off).2 := by
  have hf : (srcs.map fun s => newFile s.1 s.2)[i]? = some (newFile name raw) := by simp [hs]
  obtain ⟨o, ho, hg⟩ := buildFS_getElem? _ i _ hf
  exact ⟨o, ho, c11_roundtrip _ i _ off hg hoff⟩

/-- **one-to-one**: distinct (file, offset) pairs get distinct global positions -/
theorem c11_inj (files : List File) (i i' : Nat) (g g' : File) (off off' : Nat)
    (hg : (buildFS files).files[i]? = some g) (hg' : (buildFS files).files[i']? = some g')
    (hoff : off ≤ g.len) (hoff' : off' ≤ g'.len) (h : g.pos off = g'.pos off') : i = i' ∧ off = off' :=
  fileSet_inj_of c11_gap_ge files i i' g g' off off' hg hg' hoff hoff' h

/-- **files never overlap**: the end-of-file position of a file lies strictly below the first byte of
    every later file -/
theorem c11_disjoint (files : List File) (i i' : Nat) (g g' : File)
    (hg : (buildFS files).files[i]? = some g) (hg' : (buildFS files).files[i']? = some g') (hlt : i < i') :
    g.pos g.len < g'.pos 0 :=
  fileSet_disjoint_of c11_gap_ge files i i' g g' hg hg' hlt

/-- every position of a file is a real one: not 0, and below `fs.pos` -/
theorem c11_range (files : List File) (i : Nat) (g : File) (hg : (buildFS files).files[i]? = some g) :
    1 ≤ g.pos 0 ∧ g.pos g.len < (buildFS files).pos :=
  fileSet_range_of c11_first_ge c11_gap_ge files i g hg

/-- **onto**: every position from 1 up to `fs.pos` is a position of some file (no unattributed hole) -/
theorem c11_cover (files : List File) (p : Nat) (h0 : p ≠ 0) (h1 : p < (buildFS files).pos) :
    ∃ i : Nat, ∃ g : File, ∃ off : Nat, (buildFS files).files[i]? = some g ∧ off ≤ g.len ∧ p = g.pos off :=
  fileSet_cover_of c11_first_le c11_gap_le files p h0 h1

/-- **unknown**: position 0 and everything from `fs.pos` on is reported as unknown, and nothing else is -/
theorem c11_unknown (files : List File) (p : Nat) :
    (buildFS files).position p = .unknown ↔ p = 0 ∨ (buildFS files).pos ≤ p :=
  fileSet_unknown_iff_of (Nat.le_antisymm c11_first_le c11_first_ge) (Nat.le_antisymm c11_gap_le c11_gap_ge) files p

/-- anything past the end-of-file position of every file (for the empty set: anything) is unknown -/
theorem c11_unknown_past (files : List File) (p : Nat)
    (h : ∀ (i : Nat) (g : File), (buildFS files).files[i]? = some g → g.pos g.len < p) :
    (buildFS files).position p = .unknown := by
  rw [c11_unknown]
  by_cases hc : p = 0 ∨ (buildFS files).pos ≤ p
  · exact hc
  · exfalso
    obtain ⟨i, g, off, hg, hoff, rfl⟩ := c11_cover files p (by omega) (by omega)
    have := h i g hg
    unfold File.pos at this
    omega

/-- **no index outside a slice**: FileSet.Position never panics, for any position at all -/
theorem c11_nopanic (files : List File) (p : Nat) : (buildFS files).position p ≠ .panic :=
  fileSet_nopanic_of c11_first_le files p

/-- File.Position on its own: in range it is the specification, out of range it is unknown, never a panic;
    its line table is 0 and the offsets just after a line feed, strictly increasing -/
theorem c11_file (f : File) :
    (∀ pos, pos ≤ f.len → f.position pos = .at_ f.name (lineCol f.data pos).1 (lineCol f.data pos).2) ∧
    (∀ pos, f.len < pos → f.position pos = .unknown) ∧
    (∀ pos, f.position pos ≠ .panic) ∧
    (∀ x, x ∈ f.lines ↔ x = 0 ∨ ∃ k, x = k + 1 ∧ f.data[k]? = some 10) ∧
    f.lines.Pairwise (· < ·) :=
  ⟨File.position_eq f, File.position_unknown f, File.position_ne_panic f, File.mem_lines f, File.lines_pairwise f⟩

/-- **CRLF**: NewFile keeps the name and stores the normalised content; normalisation deletes exactly the
    CRs that stand immediately before an LF (left to right, occurrences cannot overlap): it is
    compositional at every CR LF, the identity on content without CR LF, keeps a lone CR as a byte,
    and neither adds nor removes a line feed -/
theorem c11_crlf :
    (∀ name raw, (newFile name raw).name = name ∧ (newFile name raw).data = normCRLF raw) ∧
    (∀ raw, normCRLF raw = dropCRbeforeLF raw) ∧
    (∀ a b, normCRLF (a ++ 13 :: 10 :: b) = normCRLF a ++ 10 :: normCRLF b) ∧
    (∀ raw, ¬ [13, 10] <:+: raw → normCRLF raw = raw) ∧
    (∀ a b, b.head? ≠ some 10 → normCRLF (a ++ 13 :: b) = normCRLF a ++ 13 :: normCRLF b) ∧
    (∀ raw, (normCRLF raw).count 10 = raw.count 10) :=
  ⟨fun _ _ => ⟨rfl, rfl⟩, normCRLF_eq_dropCRbeforeLF, normCRLF_split, normCRLF_id, normCRLF_lone_cr, normCRLF_count_lf⟩

/-- the specification read as a walk: (1, 1) at offset 0; LF moves to column 1 of the next line; every
    other byte, CR included, moves one column right; and the line start it uses is 0 or just after an LF
    with no LF between it and the offset -/
theorem c11_lineCol (data : Bytes) :
    lineCol data 0 = (1, 1) ∧
    (∀ off (h : off < data.length), lineCol data (off + 1) =
      if data[off] = 10 then ((lineCol data off).1 + 1, 1) else ((lineCol data off).1, (lineCol data off).2 + 1)) ∧
    (∀ off, off ≤ data.length →
      (lineStart data off = 0 ∨ data[lineStart data off - 1]? = some 10) ∧
      (∀ k, lineStart data off ≤ k → k < off → data[k]? ≠ some 10)) :=
  ⟨lineCol_zero data, lineCol_succ data, lineStart_spec data⟩

/-! non-vacuity: three files — LF, CRLF, lone CR, an empty line, no trailing newline; an empty file; a file
    with an empty name whose content starts with CR CR LF — and what every position 0 … 17 answers -/
def c11NvFiles : List File :=
  [newFile "a.txt" [97, 13, 10, 98, 13, 99, 10, 10, 100], newFile "empty" [], newFile "" [13, 13, 10, 10, 13]]

example : (buildFS c11NvFiles).offsets = [1, 10, 11] ∧ (buildFS c11NvFiles).pos = 16 ∧
    (buildFS c11NvFiles).files.map (·.data) = [[97, 10, 98, 13, 99, 10, 10, 100], [], [13, 10, 10, 13]] := by decide

example : (List.range 18).map (fun p => (buildFS c11NvFiles).position p) =
    [.unknown,
     .at_ "a.txt" 1 1, .at_ "a.txt" 1 2, .at_ "a.txt" 2 1, .at_ "a.txt" 2 2, .at_ "a.txt" 2 3, .at_ "a.txt" 2 4,
     .at_ "a.txt" 3 1, .at_ "a.txt" 4 1, .at_ "a.txt" 4 2,
     .at_ "empty" 1 1,
     .at_ "" 1 1, .at_ "" 1 2, .at_ "" 2 1, .at_ "" 3 1, .at_ "" 3 2,
     .unknown, .unknown] := by decide

/-- the specification on the same content, independently of the model -/
example : (List.range 9).map (lineCol [97, 10, 98, 13, 99, 10, 10, 100]) =
    [(1, 1), (1, 2), (2, 1), (2, 2), (2, 3), (2, 4), (3, 1), (4, 1), (4, 2)] := by decide

/-- normalised content can still contain CR LF: "\r\r\n" becomes "\r\n" (bytes.Replace does not rescan) -/
example : normCRLF [13, 13, 10] = [13, 10] ∧ dropCRbeforeLF [13, 13, 10] = [13, 10] := by decide

/-- the hypotheses of the theorems are satisfiable on the example: file 2, offset 4 (its end of file) -/
example : ∃ g, (buildFS c11NvFiles).files[2]? = some g ∧ 4 ≤ g.len ∧ g.pos 4 = 15 := ⟨_, rfl, by decide, by decide⟩

/-- the facts the model takes from the source (regenerated on every run) -/
theorem c11_facts :
    Facts.fileSetFirstPos = 1 ∧ Facts.fileSetGap = 1 ∧ Facts.newFileOffset = 1 :=
  ⟨by decide, by decide, by decide⟩

/- (the text of NewFile's CRLF normalisation, `Facts.newFileData`, formerly pinned here, is subsumed: `text.NewFile` is translated from
   the source on every run and proved to build the model's `newFile` / `normCRLF` - `c11p_newFile` in Props/C11P.lean)
   (the texts of File.Position / setLines / Pos and of FileSet.AddFile / Position, formerly pinned here, are subsumed: the functions
   are translated from the source on every run and proved equal to the model - Props/C11P.lean, Props/C10P.lean, built by this
   property's check) -/

end PV.Text
