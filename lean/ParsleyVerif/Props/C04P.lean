/-
  C04P — EVALUATION, about the functions TRANSLATED from the Go source.

  `factgen -out-tree` translates parsley.EvaluateNode and parsley.Evaluate (parsley/evaluate.go), (*NonTerminalNode).Value,
  ast.InterpreterFunc.Eval, the Value / Pos methods of the node types and the interpreters Select, Array, Object, Nil of
  ast/interpreter/interpreter.go (Generated/FactsTree.lean; run-time Generated/TreePrelude.lean).  The interface calls
  through which these functions call each other (`n.Value(ctx)`, `n.interpreter.Eval(userCtx, n)`, a call of an
  ast.InterpreterFunc value) are `match`es on the dynamic type in the translation, so EvaluateNode, Value, Eval and the
  interpreters form ONE recursive group there, as in Go; user-defined interpreters are the world's `Eval`, which is
  handed the translated EvaluateNode (as the model's `CustomEval` is handed `evalNode`).

  Vocabulary (Proofs/TreeTieEval.lean).  `NRep h x n`: the heap `h` shows the model node `x` (Model/Node.lean) at the node
  value `n` (terminal nodes: values; non-terminals: addresses whose cell has the position, the interpreter `iEnc` and
  children showing the model's children); `tV`: a model value as an `interface{}` value; `EvCorr s out o`: the
  translated outcome `out` in state `s` is the model's `o` (value; error with the same position and message; panic) and
  the store is unchanged; `EvalWorld W ce uctx`: the world's Eval answers what the model's `ce` answers, given an
  evaluator that agrees with the model's on the nodes not deeper than the children.

  * `c04_translated_evaluate`   EvaluateNode = `evalNode` on every node the heap shows (fuel above the nesting depth on
                                both sides); the root handed over by Evaluate = `evalRes`; Evaluate itself;
  * `c04_translated_no_panic`   `c04_eval` restated: on a tree whose interpreters are applicable the translated
                                EvaluateNode neither panics nor runs out of fuel;
  * `c04p_needs_interpreter`    and without an interpreter it does panic (the documented panic).
-/
import ParsleyVerif.Proofs.TreeTieEval
import ParsleyVerif.Proofs.TreeTieEvalSafe
namespace PV
open PV.TreeTie PV.FactsTree

/-- the functions of the evaluation the translator is asked for -/
def treeEvalFunctions : List String :=
  ["EvaluateNode", "Evaluate", "NonTerminalNode_Value", "InterpreterFunc_Eval", "selectInterpreter_Eval", "Select",
   "Nil_func", "Array_func", "Object_func", "TerminalNode_Value", "EndNode_Value", "NonTerminalNode_Children",
   "EmptyNode_Pos", "EndNode_Pos", "TerminalNode_Pos", "NonTerminalNode_Pos", "NodeList_Pos"]

theorem c04p_all_translated :
    treeEvalFunctions.all (fun f => FactsTree.translatedTree.contains f) = true ∧ FactsTree.untranslatedTree = [] := by
  decide

/-- **EvaluateNode / Evaluate, translated, are the model's `evalNode` / `evalRes` / `evaluate`.**
    (1) On every node the heap shows, with fuel above the nesting depth on both sides: the same value, the same error
    (position and message), a panic exactly when the model panics; the store is not written.  This covers Select
    (child i, the documented panic out of range), Array (children 0, 2, 4, …, left to right, first error aborts), Object
    (child 0 / child 2 of every second child, string keys, later keys overwrite), Nil, EmptyNode (no value), EndNode and
    terminals, a missing interpreter (panic), user-defined interpreters.
    (2) The root Evaluate hands over: a single node is evaluated, a node list has no value (ErrNoValue at its first node).
    (3) Evaluate: a parse error is returned as it is; otherwise the user context of the context is used, an evaluation
    error goes through FileSet.ErrorWithPosition (symbolic: `positioned`), a value is returned with a nil error. -/
theorem c04_translated_evaluate (W : TW) (ce : CustomEval) :
    (∀ (uctx : TValue) (s : TSt), EvalWorld W ce uctx → ∀ (F : Nat) (x : MNode) (n : TN) (fuel : Nat),
      NRep s.heap x n → x.depth < F → 4 * x.depth + 1 ≤ fuel →
      EvCorr s (EvaluateNode W fuel uctx n s) (evalNode ce F x)) ∧
    (∀ (uctx : TValue) (s : TSt), EvalWorld W ce uctx → ∀ (F : Nat) (r : PV.Res) (n : TN) (fuel : Nat),
      RRep s.heap r n → (∀ x ∈ r.alts, x.depth < F ∧ 4 * x.depth + 1 ≤ fuel) → 2 ≤ fuel →
      EvCorr s (EvaluateNode W fuel uctx n s) (evalRes ce F r)) ∧
    (∀ (p : PV.CorePrelude.Parser) (s s1 : TSt) (n : TN) (c : TCause) (F fuel : Nat) (po : ParseOut),
      W.Parse p s = .ok (n, c) s1 → EvalWorld W ce s1.userCtx → c.isNil = po.msg.isNone →
      (po.msg = none → RRep s1.heap po.res n) → (∀ x ∈ po.res.alts, x.depth < F ∧ 4 * x.depth + 1 ≤ fuel) → 2 ≤ fuel →
      Evaluate W fuel p s =
        if po.msg.isSome then .ok (PV.TreePrelude.Value.nil, c) s1
        else match evalRes ce F po.res with
          | .ok v => .ok (tV v, PV.CorePrelude.Cause.nil) s1
          | .err pos msg => .ok (PV.TreePrelude.Value.nil, PV.CorePrelude.Cause.positioned (pos : Int) (.other 0 msg)) s1
          | .panic _ => .panic) :=
  ⟨fun uctx s hw F x n fuel => tie_EvaluateNode W ce uctx hw s F x n fuel,
   fun uctx s hw F r n fuel => tie_evalRes W ce uctx hw s F r n fuel,
   fun p s s1 n c F fuel po hp hw hc hr hd hf => tie_Evaluate W ce p s s1 n c F fuel po hp hw hc hr hd hf⟩

/-- **`c04_eval` about the translated code**: on a tree whose non-terminals all carry an applicable interpreter (Select
    within range, Object over key/value nodes with string keys, Array, Nil, user-defined interpreters that do not panic
    themselves) the translated EvaluateNode answers a value or an error — it neither panics nor runs out of fuel — and
    leaves the store as it was -/
theorem c04_translated_no_panic (W : TW) (ce : CustomEval) (uctx : TValue) (s : TSt) (hw : EvalWorld W ce uctx)
    (hce : ∀ id cs pos ev, (∀ c ∈ cs, NeverPanics (ev c)) → NeverPanics (ce id cs pos ev))
    (x : MNode) (n : TN) (fuel : Nat) (hrep : NRep s.heap x n) (hx : x.EvalSafe) (hfu : 4 * x.depth + 1 ≤ fuel) :
    ∃ v e, EvaluateNode W fuel uctx n s = .ok (v, e) s := by
  have hnp := evalNode_np ce hce (x.depth + 1) x hx (Nat.lt_succ_self _)
  have := tie_EvaluateNode W ce uctx hw s (x.depth + 1) x n fuel hrep (Nat.lt_succ_self _) hfu
  cases ho : evalNode ce (x.depth + 1) x with
  | ok v => rw [ho] at this; exact ⟨_, _, this⟩
  | err p m => rw [ho] at this; obtain ⟨v, hv⟩ := this; exact ⟨_, _, hv⟩
  | panic m => exact absurd ho (hnp m)

/-- the hypothesis is not idle: a non-terminal without interpreter makes the translated EvaluateNode panic (the
    documented panic of (*NonTerminalNode).Value) -/
theorem c04p_needs_interpreter (W : TW) (uctx : TValue) (s : TSt) (a : PV.TreePrelude.Ptr) (c : TCell)
    (hc : s.heap a = some c) (hi : c.interpreter = .nil) (fuel : Nat) :
    EvaluateNode W (fuel + 2) uctx (.ref a) s = .panic := by
  simp [EvaluateNode, PV.TreePrelude.Node.asKinds, PV.TreePrelude.Node.hasKind, PV.TreePrelude.Node.kind,
    NonTerminalNode_Value, load_some hc, hi, PV.TreePrelude.Interp.isNil]

/-! ### non-vacuity: Array over an integer, a separator and a node with a user-defined interpreter (which answers the number
    of its children); the world that realises it -/

namespace C04PEx
open PV.CorePrelude hiding Node World
open PV.TreePrelude

def tmv (tok : Bytes) (v : V) (p : Int) : TN := .term { schema := .nil, token := tok, value := tV v, pos := p, readerPos := p + 1 }

def cellE (kids : List TN) (p r : Int) (i : TInterp) : TCell :=
  { schema := .nil, token := [], children := kids, pos := p, readerPos := r, interpreter := i }

def heap : Heap := fun a =>
  if a = 1 then some (cellE [tmv [] (.int 1) 0, tmv [44] (.rune 44) 1, .ref 2] 0 3 (.fn .Array))
  else if a = 2 then some (cellE [tmv [] (.int 5) 2] 2 3 (.custom 7))
  else none

def st : TSt := { heap := heap, vars := [], userCtx := .nil, ext := [] }

def node : MNode :=
  .nt [] [.term [] (.int 1) 0 1, .term [44] (.rune 44) 1 2, .nt [] [.term [] (.int 5) 2 3] 2 3 (.custom 7)] 0 3 .array

def ce : CustomEval := fun _ cs _ _ => .ok (.int cs.length)

def world : TW where
  implements _ _ := false
  StaticCheck _ _ _ := Go.panic
  TransformNode _ _ _ := Go.panic
  Eval _ _ _ n := match n with
    | .ref a => do
      let c ← TreePrelude.Go.load a
      pure (.other 0 [(c.children.length : Int)], .nil)
    | _ => Go.panic
  Parse _ := Go.panic

theorem evalWorld (u : TValue) : EvalWorld world ce u := by
  intro id cb ev s a tok cs p r hrep _
  obtain ⟨a', c, he, hc, _, _, hl⟩ := hrep
  cases he
  simp [world, load_some hc, ce, EvCorr, tV, NRepL_length hl]

theorem nrep : NRep heap node (.ref 1) := by
  simp [node, NRep, NRepL, heap, cellE, tmv, Val.toV, iEnc]

end C04PEx

/-- the example satisfies the hypotheses, and evaluates — in the model and, by the tie, in the translation — to the
    array [1, 1] (the separator is skipped, the custom node answers the number of its children) -/
theorem c04p_nonvacuous :
    EvalWorld C04PEx.world C04PEx.ce .nil ∧ NRep C04PEx.st.heap C04PEx.node (.ref 1) ∧ C04PEx.node.EvalSafe ∧
    C04PEx.node.depth = 2 ∧
    evalNode C04PEx.ce 3 C04PEx.node = .ok (.arr [.int 1, .int 1]) ∧
    EvaluateNode C04PEx.world 9 .nil (.ref 1) C04PEx.st = .ok (tV (.arr [.int 1, .int 1]), .nil) C04PEx.st := by
  have h5 : evalNode C04PEx.ce 3 C04PEx.node = .ok (.arr [.int 1, .int 1]) := by rfl
  refine ⟨C04PEx.evalWorld _, C04PEx.nrep, by simp [C04PEx.node, PV.Node.EvalSafe, EvalSafeList], by decide, h5, ?_⟩
  have := tie_EvaluateNode C04PEx.world C04PEx.ce .nil (C04PEx.evalWorld _) C04PEx.st 3 C04PEx.node (.ref 1) 9 C04PEx.nrep
    (by decide) (by decide)
  rw [h5] at this
  exact this

end PV
