/-
  C05 — the CONVERSE: "ill-formed input is rejected".

    "The classic left-recursive arithmetic grammar evaluates like a reference evaluator; ill-formed input is
     rejected."

  Props/C05V.lean proves the first half for the closed grammar `Garith`: every well-formed expression `e : PExpr`
  (`e.WF 0`) rendered with any admissible whitespace `ws` parses to the expected tree and evaluates to the reference
  answer.  This file proves the second half, for every configuration over `Garith.env` (any file, any base offset
  ≥ 1, any fuel):

  * `c05_accepts_only_expressions`   whenever `parse` answers with a node (`p.err = none`), the file IS
                                     `render e ws` for a well-formed `e` and an admissible `ws` — and the node is
                                     `Sentence[tree of e, EOF]`;
  * `c05_accept_iff`                 (∃ fuel at which `parse` answers with a node) ↔ the file is such a rendering;
  * `c05_rejects_ill_formed`         the file is not a rendering ⟹ every answering parse returns an error (no node);
  * `c05_decides`                    the bundle: from some fuel on `parse` answers; it answers with a node iff the
                                     file is a rendering, in which case the node is the tree of `e` and `Evaluate`
                                     returns the reference outcome of `e`; otherwise it answers with an error and
                                     `Evaluate` returns that error's text;
  * `c05_decides_text`               the same for the configuration built from RAW text by `text.NewFile`
                                     (the class is "`normCRLF raw` is a rendering": see the observation below);
  * `c05_rendering_iff_tree`         parser-free characterisation of the class: a file is a rendering iff it has an
                                     exact expression tree (`A05.T`) from its first byte to its end;
  * `c05_nv_reject_*`                non-vacuity: `1 +`, `(1`, `1 2`, `)`, the empty text, `1 + * 2` are not
                                     renderings and are rejected — derived from `c05_rejects_ill_formed`, the
                                     premise discharged through `c05_rendering_iff_tree`.

  THE ACCEPTED CLASS IS EXACTLY `WF 0` + `Admissible` — nothing had to be widened:
  * literals: `LitOK lex` = `Lang.isInt lex` (`[-+]?([1-9][0-9]*|0[xX][0-9a-fA-F]+|0[0-7]*)`: signs, hex and
    octal included) ∧ value in [−2⁶³, 2⁶³).  By `c08_integer_value` the Integer terminal returns a node iff the
    LONGEST prefix in that syntax is not followed by `.` and is in range; out of range is the error "invalid integer
    value", which makes the parse fail.  The longest-prefix and the `.` conditions cost nothing in the converse
    (the accepted lexeme is whatever the terminal consumed), and in the forward direction `c05_parse_text` already
    shows they hold in every rendering (a literal is followed by whitespace, an operator, `)` or the end);
  * whitespace: `WsOK` = bytes 32, 9, 10, 12 = exactly `Facts.wsBytes`, what `SkipWhitespaces(WsSpacesNl)` skips
    (NOT 13, NOT 11);
  * shape: `T` has the same stratification as `WF` (left operand at the operator's level, right operand one
    level up), so the parser accepts exactly the texts whose parenthesisation is the one their structure needs.
  One observation at the RAW-text level: `text.NewFile` replaces CR LF by LF before the parser sees the bytes, so
  the raw text `1 +\r\n2` is accepted although byte 13 is not whitespace for the parser (a lone CR is rejected):
  `c05_nv_crlf_accepted`, `c05_nv_lone_cr_rejected`.

  Route: `c05_returned_exact` (soundness for the fragment with `Trim`, read exactly) gives an exact tree `y` with
  `isEOF y.rpos`; `A05Acc.T_toCst` (Proofs/A05AccInv.lean) inverts exact trees rule by rule into a `Cst` whose
  text is the consumed input; `A05Acc.render_of_cst` turns the `Cst` into a `PExpr` + whitespace function.
  Nothing is left partial.
-/
import ParsleyVerif.Proofs.A05AccReject
namespace PV
open PV.Text PV.A05 PV.A05Acc

/-- **parser-free characterisation of the accepted class**: the file is `render e ws` for a stratified `e` with
    int64 literals and admissible `ws` iff an exact expression tree (`A05.T`: the two terminals `Trim(Integer)`,
    `Trim(Rune)` and the three rules, nothing else) spans it from the first byte to the end -/
theorem c05_rendering_iff_tree (cfg : Cfg) (henv : cfg.env = Garith.env) (hoff : 1 ≤ cfg.file.offset) :
    (∃ (e : PExpr) (ws : Nat → Bytes), e.WF 0 ∧ Admissible ws ∧ cfg.file.data = render e ws) ↔
      ∃ y, T cfg.params cfg.file 0 (cfg.file.pos 0) y ∧ isEOF cfg.file y.rpos = true :=
  rendering_iff_tree cfg henv hoff

/-- **C05, accepted ⟹ well-formed**: whenever `parse` on the arithmetic grammar answers with a node, the file is
    the rendering of a well-formed expression under admissible whitespace, and the node is `Sentence[tree, EOF]`
    for the tree of that expression -/
theorem c05_accepts_only_expressions (cfg : Cfg) (henv : cfg.env = Garith.env) (hoff : 1 ≤ cfg.file.offset)
    (fuel : Nat) (p : ParseOut) (h : parse cfg fuel Garith.root = some p) (herr : p.err = none) :
    ∃ (e : PExpr) (ws : Nat → Bytes), e.WF 0 ∧ Admissible ws ∧ cfg.file.data = render e ws ∧
      p.res = .one (sentenceNode ((e.layout ws 1).1.tree (cfg.file.offset + (ws 0).length))) := by
  obtain ⟨y, hy, heof, hres⟩ := tree_of_accept cfg henv fuel p h herr
  obtain ⟨ws0, c, hin, hyc⟩ := input_of_tree cfg henv hoff y hy heof
  obtain ⟨e, ws, h1, h2, h3, h4, h5⟩ := rendering_of_input hin
  refine ⟨e, ws, h1, h2, h3, ?_⟩
  rw [hres, hyc, h4, h5]
  rfl

/-- **C05, accepted ⟺ well-formed** (work budget of the driver disabled, as in `c05_terminates`) -/
theorem c05_accept_iff (cfg : Cfg) (henv : cfg.env = Garith.env) (hoff : 1 ≤ cfg.file.offset) (h0 : cfg.maxCalls = 0) :
    (∃ fuel p, parse cfg fuel Garith.root = some p ∧ p.err = none) ↔
      ∃ (e : PExpr) (ws : Nat → Bytes), e.WF 0 ∧ Admissible ws ∧ cfg.file.data = render e ws := by
  constructor
  · rintro ⟨fuel, p, h, herr⟩
    obtain ⟨e, ws, h1, h2, h3, _⟩ := c05_accepts_only_expressions cfg henv hoff fuel p h herr
    exact ⟨e, ws, h1, h2, h3⟩
  · rintro ⟨e, ws, he, hws, hd⟩
    obtain ⟨F, hF⟩ := c05_parse_full (input_of_rendering cfg henv hoff e ws he hws hd) h0
    obtain ⟨p, hp, _, herr, _⟩ := hF F (Nat.le_refl _)
    exact ⟨F, p, hp, herr⟩

/-- **C05, ill-formed ⟹ rejected**: if the file is not the rendering of a well-formed expression, every answer of
    `parse` is an error: no node, an error value, an error text -/
theorem c05_rejects_ill_formed (cfg : Cfg) (henv : cfg.env = Garith.env) (hoff : 1 ≤ cfg.file.offset)
    (hill : ¬ ∃ (e : PExpr) (ws : Nat → Bytes), e.WF 0 ∧ Admissible ws ∧ cfg.file.data = render e ws)
    (fuel : Nat) (p : ParseOut) (h : parse cfg fuel Garith.root = some p) :
    p.res = .nil ∧ ∃ er, p.err = some er ∧ p.msg = some (failedPrefix ++ errorWithPosition cfg.fileSet er) := by
  cases herr : p.err with
  | none =>
    obtain ⟨e, ws, h1, h2, h3, _⟩ := c05_accepts_only_expressions cfg henv hoff fuel p h herr
    exact (hill ⟨e, ws, h1, h2, h3⟩).elim
  | some er =>
    cases hr : run cfg fuel Garith.root [] (cfg.file.pos 0) {} with
    | none => simp [parse, hr] at h
    | some r =>
      obtain ⟨o, st1⟩ := r
      simp only [parse, hr] at h
      split at h
      · cases h
        simp only [Option.some.injEq] at herr
        subst herr
        exact ⟨rfl, _, rfl, rfl⟩
      · cases h; cases herr

/-- **C05, the decision**: from some fuel on `parse` answers, and
    * it answers with a node iff the file is a rendering;
    * for every rendering `(e, ws)` of the file the node is `Sentence[tree of e, EOF]` and `Evaluate` returns the
      reference outcome of `e` (value, or "division by zero" at the `/`);
    * if the file is not a rendering, the answer is an error and `Evaluate` returns its text -/
theorem c05_decides (cfg : Cfg) (henv : cfg.env = Garith.env) (hoff : 1 ≤ cfg.file.offset) (h0 : cfg.maxCalls = 0) :
    ∃ F, ∀ fuel, F ≤ fuel → ∃ p, parse cfg fuel Garith.root = some p ∧
      (p.err = none ↔ ∃ (e : PExpr) (ws : Nat → Bytes), e.WF 0 ∧ Admissible ws ∧ cfg.file.data = render e ws) ∧
      (∀ (e : PExpr) (ws : Nat → Bytes), e.WF 0 → Admissible ws → cfg.file.data = render e ws →
        p.res = .one (sentenceNode ((e.layout ws 1).1.tree (cfg.file.offset + (ws 0).length))) ∧ p.err = none ∧
        evaluate cfg arithCustom fuel Garith.root =
          some (embedV cfg.fileSet (refEval ((e.layout ws 1).1.toExpr (cfg.file.offset + (ws 0).length))))) ∧
      ((¬ ∃ (e : PExpr) (ws : Nat → Bytes), e.WF 0 ∧ Admissible ws ∧ cfg.file.data = render e ws) →
        p.res = .nil ∧ ∃ er, p.err = some er ∧
          evaluate cfg arithCustom fuel Garith.root = some (.error (failedPrefix ++ errorWithPosition cfg.fileSet er))) := by
  obtain ⟨F0, hF0⟩ := c05_terminates cfg henv hoff h0
  -- enough fuel to evaluate the tree, if there is one
  have hD : ∃ D, ∀ (e : PExpr) (ws : Nat → Bytes), e.WF 0 → Admissible ws → cfg.file.data = render e ws →
      ((e.layout ws 1).1.tree (start cfg (ws 0))).depth ≤ D := by
    by_cases hex : ∃ (e : PExpr) (ws : Nat → Bytes), e.WF 0 ∧ Admissible ws ∧ cfg.file.data = render e ws
    · obtain ⟨e1, ws1, he1, hws1, hd1⟩ := hex
      refine ⟨((e1.layout ws1 1).1.tree (start cfg (ws1 0))).depth, fun e ws he hws hd => ?_⟩
      have hin1 := input_of_rendering cfg henv hoff e1 ws1 he1 hws1 hd1
      have hin := input_of_rendering cfg henv hoff e ws he hws hd
      have := T_unique hoff (pos0_inFile cfg.file) hin.treeT hin1.treeT (by rw [hin.tree_end, hin1.tree_end])
      rw [this]
      exact Nat.le_refl _
    · exact ⟨0, fun e ws he hws hd => (hex ⟨e, ws, he, hws, hd⟩).elim⟩
  obtain ⟨D, hD⟩ := hD
  refine ⟨max F0 (D + 2), fun fuel hle => ?_⟩
  obtain ⟨p, hp⟩ := hF0 fuel (by omega)
  refine ⟨p, hp, ⟨fun herr => ?_, fun ⟨e, ws, he, hws, hd⟩ => ?_⟩, fun e ws he hws hd => ?_, fun hill => ?_⟩
  · obtain ⟨e, ws, h1, h2, h3, _⟩ := c05_accepts_only_expressions cfg henv hoff fuel p hp herr
    exact ⟨e, ws, h1, h2, h3⟩
  · exact ((input_of_rendering cfg henv hoff e ws he hws hd).parse_root fuel p hp).2.1
  · have hin := input_of_rendering cfg henv hoff e ws he hws hd
    obtain ⟨h1, h2, _⟩ := hin.parse_root fuel p hp
    have hdep := hD e ws he hws hd
    exact ⟨h1, h2, c05_evaluate_of_parse hin fuel p hp (by omega)⟩
  · obtain ⟨h1, er, h2, h3⟩ := c05_rejects_ill_formed cfg henv hoff hill fuel p hp
    refine ⟨h1, er, h2, ?_⟩
    simp only [evaluate, hp, h3]

/-- **C05, the decision on raw text**: `nvArithCfg raw` is the configuration `text.NewFile` + `FileSet.AddFile`
    build from the bytes `raw`; the parser sees `normCRLF raw` (CR LF replaced by LF) -/
theorem c05_decides_text (raw : Bytes) :
    ∃ F, ∀ fuel, F ≤ fuel → ∃ p, parse (nvArithCfg raw) fuel Garith.root = some p ∧
      (p.err = none ↔ ∃ (e : PExpr) (ws : Nat → Bytes), e.WF 0 ∧ Admissible ws ∧ normCRLF raw = render e ws) ∧
      (∀ (e : PExpr) (ws : Nat → Bytes), e.WF 0 → Admissible ws → normCRLF raw = render e ws →
        p.res = .one (sentenceNode ((e.layout ws 1).1.tree (1 + (ws 0).length))) ∧ p.err = none ∧
        evaluate (nvArithCfg raw) arithCustom fuel Garith.root =
          some (embedV (nvArithCfg raw).fileSet (refEval ((e.layout ws 1).1.toExpr (1 + (ws 0).length))))) ∧
      ((¬ ∃ (e : PExpr) (ws : Nat → Bytes), e.WF 0 ∧ Admissible ws ∧ normCRLF raw = render e ws) →
        p.res = .nil ∧ ∃ er, p.err = some er ∧
          evaluate (nvArithCfg raw) arithCustom fuel Garith.root =
            some (.error (failedPrefix ++ errorWithPosition (nvArithCfg raw).fileSet er))) :=
  c05_decides (nvArithCfg raw) rfl (Nat.le_refl 1) rfl

end PV

/-! ### non-vacuity

  (a) the accepting side: the two texts of Props/C05V.lean are renderings, so `c05_decides_text` says "node", and
      `c05_accepts_only_expressions` applies to the parse `c05_parse_text` produces;
  (b) the rejecting side: six ill-formed texts.  For each one the premise of `c05_rejects_ill_formed` ("not a
      rendering") is discharged through `c05_rendering_iff_tree` by showing that no exact tree starting at the first
      byte reaches the end of the file — a few steps of inversion on `A05.T` with the terminals evaluated on the
      concrete file by the kernel (`rfl` / `decide`; no run of the parser). -/

namespace PV.A05Acc
open PV PV.Text PV.A05

def isNode : TermOut → Bool
  | .node _ => true
  | _ => false

theorem not_node {t : TermOut} (h : isNode t = false) : ∀ n, t ≠ .node n := by
  intro n hn; rw [hn] at h; cases h

/-- the conclusion of the six examples -/
def Rejected (cfg : Cfg) : Prop :=
  (¬ ∃ (e : PExpr) (ws : Nat → Bytes), e.WF 0 ∧ Admissible ws ∧ cfg.file.data = render e ws) ∧
  (∀ fuel p, parse cfg fuel Garith.root = some p →
    p.res = .nil ∧ ∃ er, p.err = some er ∧ p.msg = some (failedPrefix ++ errorWithPosition cfg.fileSet er)) ∧
  (∃ F, ∀ fuel, F ≤ fuel → ∃ p er, parse cfg fuel Garith.root = some p ∧ p.err = some er ∧
    evaluate cfg arithCustom fuel Garith.root = some (.error (failedPrefix ++ errorWithPosition cfg.fileSet er)))

/-- from "no exact tree reaches the end" to `Rejected`, through the property theorems -/
theorem rejected_of_no_tree (cfg : Cfg) (henv : cfg.env = Garith.env) (hoff : 1 ≤ cfg.file.offset)
    (h0 : cfg.maxCalls = 0)
    (hno : ∀ y, T cfg.params cfg.file 0 (cfg.file.pos 0) y → isEOF cfg.file y.rpos = false) : Rejected cfg := by
  have hill : ¬ ∃ (e : PExpr) (ws : Nat → Bytes), e.WF 0 ∧ Admissible ws ∧ cfg.file.data = render e ws := by
    intro hex
    obtain ⟨y, hy, he⟩ := (c05_rendering_iff_tree cfg henv hoff).mp hex
    rw [hno y hy] at he; cases he
  refine ⟨hill, c05_rejects_ill_formed cfg henv hoff hill, ?_⟩
  obtain ⟨F, hF⟩ := c05_decides cfg henv hoff h0
  refine ⟨F, fun fuel hle => ?_⟩
  obtain ⟨p, hp, _, _, h3⟩ := hF fuel hle
  obtain ⟨_, er, h4, h5⟩ := h3 hill
  exact ⟨p, er, hp, h4, h5⟩

/-- `1 +` -/
def illA : Cfg := nvArithCfg [49, 32, 43]
/-- `(1` -/
def illB : Cfg := nvArithCfg [40, 49]
/-- `1 2` -/
def illC : Cfg := nvArithCfg [49, 32, 50]
/-- `)` -/
def illD : Cfg := nvArithCfg [41]
/-- the empty text -/
def illE : Cfg := nvArithCfg []
/-- `1 + * 2` -/
def illF : Cfg := nvArithCfg [49, 32, 43, 32, 42, 32, 50]

theorem illA_no_tree : ∀ y, T illA.params illA.file 0 (illA.file.pos 0) y → isEOF illA.file y.rpos = false := by
  have hoff : 1 ≤ illA.file.offset := by decide
  have hq1 : InFile illA.file (illA.file.pos 0) := pos0_inFile _
  have hq3 : InFile illA.file 3 := by unfold InFile; decide
  have hq4 : InFile illA.file 4 := by unfold InFile; decide
  have h0 : LitAt illA.params illA.file (illA.file.pos 0) (intLeaf 1 1 3) := ⟨intLeaf 1 1 2, rfl, rfl⟩
  have hall := T_only_lit hoff hq1 h0 (by
    intro j op r hop hr
    replace hop : OpAt illA.params illA.file j 3 op := hop
    obtain ⟨c, o, _, _, hr'⟩ := OpAt.concrete hoff hop hq3
    have e2 : sk illA.file (sk illA.file 3 + 1) = 4 := by decide
    rw [hr', e2] at hr
    exact T_none hq4 (not_node (by rfl)) (no_paren hoff hq4 (by decide)) _ _ hr)
  intro y hy
  rw [hall 0 y hy]; decide

theorem illC_no_tree : ∀ y, T illC.params illC.file 0 (illC.file.pos 0) y → isEOF illC.file y.rpos = false := by
  have hoff : 1 ≤ illC.file.offset := by decide
  have hq1 : InFile illC.file (illC.file.pos 0) := pos0_inFile _
  have hq3 : InFile illC.file 3 := by unfold InFile; decide
  have h0 : LitAt illC.params illC.file (illC.file.pos 0) (intLeaf 1 1 3) := ⟨intLeaf 1 1 2, rfl, rfl⟩
  have hall := T_only_lit hoff hq1 h0 (by
    intro j op r hop _
    replace hop : OpAt illC.params illC.file j 3 op := hop
    obtain ⟨c, o, hco, hh, _⟩ := OpAt.concrete hoff hop hq3
    have e1 : (rest illC.file (sk illC.file 3)).head? = some 50 := by decide
    rw [e1] at hh
    cases hh
    simp [Op.ofRune] at hco)
  intro y hy
  rw [hall 0 y hy]; decide

theorem illF_no_tree : ∀ y, T illF.params illF.file 0 (illF.file.pos 0) y → isEOF illF.file y.rpos = false := by
  have hoff : 1 ≤ illF.file.offset := by decide
  have hq1 : InFile illF.file (illF.file.pos 0) := pos0_inFile _
  have hq3 : InFile illF.file 3 := by unfold InFile; decide
  have hq5 : InFile illF.file 5 := by unfold InFile; decide
  have h0 : LitAt illF.params illF.file (illF.file.pos 0) (intLeaf 1 1 3) := ⟨intLeaf 1 1 2, rfl, rfl⟩
  have hall := T_only_lit hoff hq1 h0 (by
    intro j op r hop hr
    replace hop : OpAt illF.params illF.file j 3 op := hop
    obtain ⟨c, o, _, _, hr'⟩ := OpAt.concrete hoff hop hq3
    have e2 : sk illF.file (sk illF.file 3 + 1) = 5 := by decide
    rw [hr', e2] at hr
    exact T_none hq5 (not_node (by rfl)) (no_paren hoff hq5 (by decide)) _ _ hr)
  intro y hy
  rw [hall 0 y hy]; decide

theorem illB_no_tree : ∀ y, T illB.params illB.file 0 (illB.file.pos 0) y → isEOF illB.file y.rpos = false := by
  have hoff : 1 ≤ illB.file.offset := by decide
  have hq1 : InFile illB.file (illB.file.pos 0) := pos0_inFile _
  have hq2 : InFile illB.file 2 := by unfold InFile; decide
  have hq3 : InFile illB.file 3 := by unfold InFile; decide
  intro y hy
  refine (T_none hq1 (not_node (by rfl)) ?_ _ _ hy).elim
  intro lp e rp h1 h2 h3
  obtain ⟨_, hlp⟩ := RuneAtQ.concrete hoff h1 hq1 (by omega)
  have e1 : sk illB.file (sk illB.file (illB.file.pos 0) + 1) = 2 := by decide
  rw [e1] at hlp
  rw [hlp] at h2
  have h0 : LitAt illB.params illB.file 2 (intLeaf 1 2 3) := ⟨intLeaf 1 2 3, rfl, rfl⟩
  have he := T_only_lit hoff hq2 h0 (by
    intro j op r hop _
    replace hop : OpAt illB.params illB.file j 3 op := hop
    obtain ⟨c, o, _, hh, _⟩ := OpAt.concrete hoff hop hq3
    have e2 : (rest illB.file (sk illB.file 3)).head? = none := by decide
    rw [e2] at hh; cases hh) 0 e h2
  subst he
  replace h3 : RuneAtQ illB.params illB.file 41 3 rp := h3
  obtain ⟨hh, _⟩ := RuneAtQ.concrete hoff h3 hq3 (by omega)
  have e3 : (rest illB.file (sk illB.file 3)).head? = none := by decide
  rw [e3] at hh; cases hh

theorem illD_no_tree : ∀ y, T illD.params illD.file 0 (illD.file.pos 0) y → isEOF illD.file y.rpos = false := by
  have hoff : 1 ≤ illD.file.offset := by decide
  have hq1 : InFile illD.file (illD.file.pos 0) := pos0_inFile _
  intro y hy
  exact (T_none hq1 (not_node (by rfl)) (no_paren hoff hq1 (by decide)) _ _ hy).elim

theorem illE_no_tree : ∀ y, T illE.params illE.file 0 (illE.file.pos 0) y → isEOF illE.file y.rpos = false := by
  have hoff : 1 ≤ illE.file.offset := by decide
  have hq1 : InFile illE.file (illE.file.pos 0) := pos0_inFile _
  intro y hy
  exact (T_none hq1 (not_node (by rfl)) (no_paren hoff hq1 (by decide)) _ _ hy).elim

/-! CR LF: the raw text `1 +\r\n2` and the raw text `1 +\r2` -/

def crlfE : PExpr := .bin .add (.lit [49]) (.lit [50])
def crlfWs : Nat → Bytes
  | 1 => [32]
  | 2 => [10]
  | _ => []

theorem crlfWs_ok : Admissible crlfWs := by
  intro i b hb
  unfold crlfWs at hb
  split at hb <;> simp at hb <;> (try subst hb) <;> decide

theorem crlfE_wf : crlfE.WF 0 := by
  simp only [crlfE, PExpr.WF, Op.level, LitOK]
  decide

/-- `1 +\r2` -/
def illG : Cfg := nvArithCfg [49, 32, 43, 13, 50]

theorem illG_no_tree : ∀ y, T illG.params illG.file 0 (illG.file.pos 0) y → isEOF illG.file y.rpos = false := by
  have hoff : 1 ≤ illG.file.offset := by decide
  have hq1 : InFile illG.file (illG.file.pos 0) := pos0_inFile _
  have hq3 : InFile illG.file 3 := by unfold InFile; decide
  have hq4 : InFile illG.file 4 := by unfold InFile; decide
  have h0 : LitAt illG.params illG.file (illG.file.pos 0) (intLeaf 1 1 3) := ⟨intLeaf 1 1 2, rfl, rfl⟩
  have hall := T_only_lit hoff hq1 h0 (by
    intro j op r hop hr
    replace hop : OpAt illG.params illG.file j 3 op := hop
    obtain ⟨c, o, _, _, hr'⟩ := OpAt.concrete hoff hop hq3
    have e2 : sk illG.file (sk illG.file 3 + 1) = 4 := by decide
    rw [hr', e2] at hr
    exact T_none hq4 (not_node (by rfl)) (no_paren hoff hq4 (by decide)) _ _ hr)
  intro y hy
  rw [hall 0 y hy]; decide

end PV.A05Acc

namespace PV
open PV.Text PV.A05 PV.A05Acc

/-- (a) the hypotheses of `c05_accepts_only_expressions` are satisfiable: the parse of
    " 1 + 2*(3 -4)/ 0x10 \t- -7" that `c05_parse_text` produces answers with a node -/
theorem c05_nv_accepts : ∃ fuel p, parse (nvArithCfg (render nvE1 nvWs)) fuel Garith.root = some p ∧ p.err = none ∧
    ∃ (e : PExpr) (ws : Nat → Bytes), e.WF 0 ∧ Admissible ws ∧ (nvArithCfg (render nvE1 nvWs)).file.data = render e ws := by
  obtain ⟨F, hF⟩ := c05_parse_text nvE1 nvWs nvWs_ok nvE1_wf
  obtain ⟨p, hp, _, herr, _⟩ := hF F (Nat.le_refl _)
  obtain ⟨e, ws, h1, h2, h3, _⟩ := c05_accepts_only_expressions _ rfl (Nat.le_refl 1) F p hp herr
  exact ⟨F, p, hp, herr, e, ws, h1, h2, h3⟩

/-- (b) `1 +` is not a rendering; every answer is an error; from some fuel on there is an answer and `Evaluate`
    returns its text -/
theorem c05_nv_reject_dangling_operator : Rejected illA := rejected_of_no_tree _ rfl (by decide) rfl illA_no_tree
/-- `(1` -/
theorem c05_nv_reject_unclosed_paren : Rejected illB := rejected_of_no_tree _ rfl (by decide) rfl illB_no_tree
/-- `1 2` -/
theorem c05_nv_reject_two_literals : Rejected illC := rejected_of_no_tree _ rfl (by decide) rfl illC_no_tree
/-- `)` -/
theorem c05_nv_reject_close_paren : Rejected illD := rejected_of_no_tree _ rfl (by decide) rfl illD_no_tree
/-- the empty text -/
theorem c05_nv_reject_empty : Rejected illE := rejected_of_no_tree _ rfl (by decide) rfl illE_no_tree
/-- `1 + * 2` -/
theorem c05_nv_reject_two_operators : Rejected illF := rejected_of_no_tree _ rfl (by decide) rfl illF_no_tree

/-- the raw text `1 +\r\n2` (CR LF between the tokens) is ACCEPTED with value 3 although 13 is not a whitespace byte
    of the parser: `text.NewFile` has replaced CR LF by LF -/
theorem c05_nv_crlf_accepted : ∃ F, ∀ fuel, F ≤ fuel →
    evaluate (nvArithCfg [49, 32, 43, 13, 10, 50]) arithCustom fuel Garith.root = some (.value (.int 3)) := by
  obtain ⟨F, hF⟩ := c05_decides_text [49, 32, 43, 13, 10, 50]
  refine ⟨F, fun fuel hle => ?_⟩
  obtain ⟨p, _, _, h2, _⟩ := hF fuel hle
  obtain ⟨_, _, h3⟩ := h2 crlfE crlfWs crlfE_wf crlfWs_ok (by decide)
  rw [h3]
  rfl

/-- a lone CR is not whitespace: `1 +\r2` is rejected -/
theorem c05_nv_lone_cr_rejected : Rejected illG := rejected_of_no_tree _ rfl (by decide) rfl illG_no_tree

end PV

namespace PV.A05Acc
def parseIsErr (o : Option ParseOut) : Bool :=
  match o with
  | some p => p.err.isSome && p.res.isNil
  | none => false
end PV.A05Acc

namespace PV
open PV.Text PV.A05 PV.A05Acc

/-! the model itself on the same texts, run by the interpreter at build time (tests, not theorems) -/
#guard parseIsErr (parse illA 1000 Garith.root)
#guard parseIsErr (parse illB 1000 Garith.root)
#guard parseIsErr (parse illC 1000 Garith.root)
#guard parseIsErr (parse illD 1000 Garith.root)
#guard parseIsErr (parse illE 1000 Garith.root)
#guard parseIsErr (parse illF 1000 Garith.root)
#guard parseIsErr (parse illG 1000 Garith.root)
#guard outIsInt (evaluate (nvArithCfg [49, 32, 43, 13, 10, 50]) arithCustom 1000 Garith.root) 3
#guard outIsErr (evaluate illA arithCustom 1000 Garith.root) (tokOf "failed to parse the input: was expecting \"(\" at f:1:4")

end PV
