/-
  C02 — Every memoized grammar terminates (the TERMINATION half; the re-entry bound is Props/C02.lean).

  Hypothesis = a DECIDABLE certificate (Spec/WF.lean, `wf cert env root : Bool`):
    * `cert.nullable k` / `cert.nullM i` over-approximate "rule k / the operand of Memoize i can return a
      zero-width result" (closed under the syntactic `mayBeEmpty`);
    * every left reference (a reference reachable at the start position without passing an element that
      must consume) from rule `k` to rule `k'` that is NOT under a Memoize has `rank k' < rank k`
      — every cycle of the left-call graph passes a Memoize; references under a Memoize are free, so
      direct, indirect and hidden (`P → x? P b`) left recursion are all admitted once memoized, and
      non-left recursion needs no Memoize at all;
    * the operand of Many cannot be empty; value and separator of SepBy cannot both be empty.
  Scope (`C02Scope`): the combinator set without the whitespace trims, terminals that behave
  (`TermGood`, what C08 proves of the built-ins) and never match the empty lexeme (`TermCons`: proved
  below for Rune and Op; false for a Regexp that matches ""), work budget of the driver disabled.

  `c02_terminates`: for every such grammar, every input file, every position, every left-recursion
  context and every state a parse can be in, there is a fuel from which on `run` answers — together with
  `c02_fuel_mono` (Props/C02.lean): the recursion depth of the parser is finite.
  `c02_terminates_parse`: the same for `parsley.Parse` from a fresh context.
  `c02_terminates_auto`: the same with the certificate COMPUTED (`wfAuto`, what the driver command
  `wfcheck` answers and the harness stream C02W compares with the generator's certificate).
-/
import ParsleyVerif.Proofs.WFHalts
import ParsleyVerif.Proofs.TerminalRange
import ParsleyVerif.Proofs.TerminalValue
namespace PV
open PV.Text

/-- terminals in scope: positions as C08 proves them, and no empty match -/
def TermOK (cfg : Cfg) (t : Terminal) : Prop := TermGood cfg t ∧ TermCons cfg t

/-- the grammars and configurations the termination theorem speaks about -/
structure C02Scope (cfg : Cfg) (g : G) : Prop where
  root : g.Core (TermOK cfg)
  env : ∀ g' ∈ cfg.env, g'.Core (TermOK cfg)
  budget : cfg.maxCalls = 0

/-! ### from the decidable check to the hypotheses of the descent -/

mutual
theorem Core_mono {T T' : Terminal → Prop} (h : ∀ t, T t → T' t) : ∀ g : G, g.Core T → g.Core T'
  | .term t, hg => by simp only [G.Core] at hg ⊢; exact h t hg
  | .empty, _ => by simp only [G.Core]
  | .eof, _ => by simp only [G.Core]
  | .ref _, _ => by simp only [G.Core]
  | .memo _ g, hg => by simp only [G.Core] at hg ⊢; exact Core_mono h g hg
  | .any gs, hg => by simp only [G.Core] at hg ⊢; exact CoreList_mono h gs hg
  | .choice gs, hg => by simp only [G.Core] at hg ⊢; exact CoreList_mono h gs hg
  | .seq _ gs _, hg => by simp only [G.Core] at hg ⊢; exact CoreList_mono h gs hg
  | .many g _ _, hg => by simp only [G.Core] at hg ⊢; exact Core_mono h g hg
  | .sepBy v s _ _, hg => by
    simp only [G.Core] at hg ⊢; exact ⟨Core_mono h v hg.1, Core_mono h s hg.2⟩
  | .optional g, hg => by simp only [G.Core] at hg ⊢; exact Core_mono h g hg
  | .name g _, hg => by simp only [G.Core] at hg ⊢; exact Core_mono h g hg
  | .single g, hg => by simp only [G.Core] at hg ⊢; exact Core_mono h g hg
  | .suppress g, hg => by simp only [G.Core] at hg ⊢; exact Core_mono h g hg
  | .ltrim _ _, hg => by simp only [G.Core] at hg
  | .rtrim _ _, hg => by simp only [G.Core] at hg
theorem CoreList_mono {T T' : Terminal → Prop} (h : ∀ t, T t → T' t) : ∀ gs : List G, CoreList T gs → CoreList T' gs
  | [], _ => by simp only [CoreList]
  | g :: gs, hg => by
    simp only [CoreList] at hg ⊢; exact ⟨Core_mono h g hg.1, CoreList_mono h gs hg.2⟩
end

mutual
theorem wfLocal_all (c : WFCert) (cfg : Cfg) : ∀ g : G, wfLocal c g = true → g.Core (TermOK cfg) → g.All (LocalP c cfg)
  | .term t, _, hc => by simp only [G.Core] at hc; simp only [G.All, LocalP]; exact hc.2
  | .empty, _, _ => by simp only [G.All, LocalP]
  | .eof, _, _ => by simp only [G.All, LocalP]
  | .ref _, _, _ => by simp only [G.All, LocalP]
  | .memo i g, hw, hc => by
    simp only [wfLocal, Bool.and_eq_true, Bool.or_eq_true, Bool.not_eq_true', List.contains_eq_mem,
      decide_eq_true_eq] at hw
    simp only [G.Core] at hc
    simp only [G.All, LocalP]
    refine ⟨⟨hw.1.1, fun hm => ?_⟩, wfLocal_all c cfg g hw.2 hc⟩
    cases hw.1.2 with
    | inl h => rw [h] at hm; cases hm
    | inr h => exact h
  | .any gs, hw, hc => by
    simp only [wfLocal] at hw; simp only [G.Core] at hc
    simp only [G.All, LocalP]; exact ⟨trivial, wfLocalList_all c cfg gs hw hc⟩
  | .choice gs, hw, hc => by
    simp only [wfLocal] at hw; simp only [G.Core] at hc
    simp only [G.All, LocalP]; exact ⟨trivial, wfLocalList_all c cfg gs hw hc⟩
  | .seq _ gs _, hw, hc => by
    simp only [wfLocal] at hw; simp only [G.Core] at hc
    simp only [G.All, LocalP]; exact ⟨trivial, wfLocalList_all c cfg gs hw hc⟩
  | .many g _ _, hw, hc => by
    simp only [wfLocal, Bool.and_eq_true, Bool.not_eq_true'] at hw
    simp only [G.Core] at hc
    simp only [G.All, LocalP]; exact ⟨hw.1, wfLocal_all c cfg g hw.2 hc⟩
  | .sepBy v s _ _, hw, hc => by
    simp only [wfLocal, Bool.and_eq_true, Bool.not_eq_true', Bool.and_eq_false_iff] at hw
    simp only [G.Core] at hc
    simp only [G.All, LocalP]
    refine ⟨fun hvs => ?_, wfLocal_all c cfg v hw.1.2 hc.1, wfLocal_all c cfg s hw.2 hc.2⟩
    cases hw.1.1 with
    | inl h => rw [h] at hvs; cases hvs.1
    | inr h => rw [h] at hvs; cases hvs.2
  | .optional g, hw, hc => by
    simp only [wfLocal] at hw; simp only [G.Core] at hc
    simp only [G.All, LocalP]; exact ⟨trivial, wfLocal_all c cfg g hw hc⟩
  | .name g _, hw, hc => by
    simp only [wfLocal] at hw; simp only [G.Core] at hc
    simp only [G.All, LocalP]; exact ⟨trivial, wfLocal_all c cfg g hw hc⟩
  | .single g, hw, hc => by
    simp only [wfLocal] at hw; simp only [G.Core] at hc
    simp only [G.All, LocalP]; exact ⟨trivial, wfLocal_all c cfg g hw hc⟩
  | .suppress g, hw, hc => by
    simp only [wfLocal] at hw; simp only [G.Core] at hc
    simp only [G.All, LocalP]; exact ⟨trivial, wfLocal_all c cfg g hw hc⟩
  | .ltrim _ _, _, hc => by simp only [G.Core] at hc
  | .rtrim _ _, _, hc => by simp only [G.Core] at hc
theorem wfLocalList_all (c : WFCert) (cfg : Cfg) : ∀ gs : List G, wfLocalList c gs = true → CoreList (TermOK cfg) gs →
    AllList (LocalP c cfg) gs
  | [], _, _ => by simp only [AllList]
  | g :: gs, hw, hc => by
    simp only [wfLocalList, Bool.and_eq_true] at hw
    simp only [CoreList] at hc
    simp only [AllList]; exact ⟨wfLocal_all c cfg g hw.1 hc.1, wfLocalList_all c cfg gs hw.2 hc.2⟩
end

theorem GWF_of_wfLocal (c : WFCert) (cfg : Cfg) (g : G) (hw : wfLocal c g = true) (hc : g.Core (TermOK cfg)) :
    GWF c cfg g :=
  ⟨Core_mono (fun _ h => h.1) g hc, wfLocal_all c cfg g hw hc⟩

/-- what the check says about rule `k` -/
theorem wf_rule (c : WFCert) (env : List G) (root : G) (h : wf c env root = true) (k : Nat) (g : G)
    (hk : env[k]? = some g) : wfRule c k g = true := by
  simp only [wf, Bool.and_eq_true, List.all_eq_true, List.mem_range] at h
  have := h.2 k (List.getElem?_eq_some_iff.mp hk).1
  simpa [hk] using this

theorem EnvOK_of_wf (c : WFCert) (cfg : Cfg) (g : G) (hwf : wf c cfg.env g = true) (hs : C02Scope cfg g) :
    EnvOK c cfg ∧ GWF c cfg g := by
  have hroot : wfLocal c g = true := by
    simp only [wf, Bool.and_eq_true] at hwf; exact hwf.1
  have hrule : ∀ k g', cfg.env[k]? = some g' →
      (wfLocal c g' = true ∧ (mayBeEmpty c g' = false ∨ c.nullable k = true)) ∧
        ∀ k' ∈ leftRefsU c g', c.rank k' < c.rank k := by
    intro k g' hk
    have := wf_rule c cfg.env g hwf k g' hk
    simpa [wfRule] using this
  refine ⟨⟨hs.budget, ?_, ?_, ?_⟩, GWF_of_wfLocal c cfg g hroot hs.root⟩
  · intro g' hg'
    obtain ⟨k, hk, hkg⟩ := List.getElem_of_mem hg'
    have hk' : cfg.env[k]? = some g' := by rw [List.getElem?_eq_getElem hk, hkg]
    exact GWF_of_wfLocal c cfg g' (hrule k g' hk').1.1 (hs.env g' hg')
  · intro k g' hk hm
    cases (hrule k g' hk).1.2 with
    | inl h => rw [h] at hm; cases hm
    | inr h => exact h
  · intro k g' hk
    exact (hrule k g' hk).2

/-! ### the theorem -/

/-- **C02 termination.**  `Pre` / `CacheCons` describe the states a parse can be in (they hold of the fresh
    context — `c02t_initial` — and are preserved by every call — `run_pos`, `run_cons`). -/
theorem c02_terminates (cert : WFCert) (cfg : Cfg) (g : G)
    (hwf : wf cert cfg.env g = true) (hscope : C02Scope cfg g)
    (ctx : Ctx) (pos : Nat) (st : St) (hpre : Pre cfg ctx pos st) (hcache : CacheCons cert st) :
    ∃ F, ∀ fuel, F ≤ fuel → (run cfg fuel g ctx pos st).isSome = true := by
  obtain ⟨henv, hg⟩ := EnvOK_of_wf cert cfg g hwf hscope
  obtain ⟨F, x, hx⟩ := halts_all cert cfg henv g hg ctx pos st ⟨hpre, hcache⟩
  refine ⟨F, fun fuel hle => ?_⟩
  rw [run_mono cfg F fuel hle _ _ _ _ _ hx]
  rfl

/-- the fresh context is a state a parse can be in -/
theorem c02t_initial (cert : WFCert) (cfg : Cfg) : Pre cfg [] (cfg.file.pos 0) {} ∧ CacheCons cert {} := by
  refine ⟨⟨⟨by simp [File.pos], by simp [File.pos]⟩,
    ⟨(by intro e he; cases he), (by intro er her; cases her), (by intro i p d hm; cases hm)⟩, ?_⟩,
    (by intro e he; cases he)⟩
  exact ⟨(by intro a ha; cases ha), (by intro k; simp [actCount, Ctx.get])⟩

/-- the invariant is preserved: the state after any answered call is again a state a parse can be in
    (at the same position and context) -/
theorem c02t_preserved (cert : WFCert) (cfg : Cfg) (g : G)
    (hwf : wf cert cfg.env g = true) (hscope : C02Scope cfg g)
    (fuel : Nat) (ctx : Ctx) (pos : Nat) (st : St) (o : Out) (st' : St)
    (hpre : Pre cfg ctx pos st) (hcache : CacheCons cert st) (h : run cfg fuel g ctx pos st = some (o, st')) :
    Pre cfg ctx pos st' ∧ CacheCons cert st' := by
  obtain ⟨henv, hg⟩ := EnvOK_of_wf cert cfg g hwf hscope
  exact Good_after ⟨hpre, hcache⟩ (run_pos cfg henv.core fuel g ctx pos st o st' hg.core hpre h)
    (run_cons cert cfg henv fuel g ctx pos st o st' hg ⟨hpre, hcache⟩ h)

/-- soundness of `mayBeEmpty`, the semantic half of the certificate: a parser the certificate says cannot
    be empty only returns nodes that end strictly after the call position -/
theorem c02_mayBeEmpty_sound (cert : WFCert) (cfg : Cfg) (g : G)
    (hwf : wf cert cfg.env g = true) (hscope : C02Scope cfg g)
    (fuel : Nat) (ctx : Ctx) (pos : Nat) (st : St) (o : Out) (st' : St)
    (hpre : Pre cfg ctx pos st) (hcache : CacheCons cert st) (h : run cfg fuel g ctx pos st = some (o, st'))
    (hne : mayBeEmpty cert g = false) : ∀ x ∈ o.res.alts, x.rpos > pos := by
  obtain ⟨henv, hg⟩ := EnvOK_of_wf cert cfg g hwf hscope
  exact (run_cons cert cfg henv fuel g ctx pos st o st' hg ⟨hpre, hcache⟩ h).cons hne

/-- **C02 termination of `parsley.Parse`** from a fresh context -/
theorem c02_terminates_parse (cert : WFCert) (cfg : Cfg) (g : G)
    (hwf : wf cert cfg.env g = true) (hscope : C02Scope cfg g) :
    ∃ F, ∀ fuel, F ≤ fuel → (parse cfg fuel g).isSome = true := by
  obtain ⟨h1, h2⟩ := c02t_initial cert cfg
  obtain ⟨F, hF⟩ := c02_terminates cert cfg g hwf hscope [] (cfg.file.pos 0) {} h1 h2
  refine ⟨F, fun fuel hle => ?_⟩
  have := hF fuel hle
  cases hr : run cfg fuel g [] (cfg.file.pos 0) {} with
  | none => rw [hr] at this; cases this
  | some r =>
    obtain ⟨o, st1⟩ := r
    simp only [parse, hr]
    split <;> rfl

/-- … with the certificate computed: this is the check the driver command `wfcheck` runs and the harness
    stream C02W compares with the generator's certificate -/
theorem c02_terminates_auto (cfg : Cfg) (g : G) (hwf : wfAuto cfg.env g = true) (hscope : C02Scope cfg g) :
    ∃ F, ∀ fuel, F ≤ fuel → (parse cfg fuel g).isSome = true :=
  c02_terminates_parse (autoCert cfg.env g) cfg g hwf hscope

/-- the certificate check is a boolean function: decidable -/
def c02_wf_decidable (cert : WFCert) (env : List G) (g : G) : Decidable (wf cert env g = true) := inferInstance

/- (the text facts that stood here - condition lists and statement orders of Memoize, ResultCache, Any, Choice, the Sequence
   machinery, ReturnError, SetError, Parse, re-read from the source as normalised text - are subsumed since translator v3: the
   functions themselves are translated from the source on every run and the model is PROVED to agree with the translation
   (Props/C01P.lean, built and audited by this property's check).  Unlike a text comparison, that tie is not broken by an
   equivalent rewrite of the source.) -/
theorem c02_wf_facts : Facts.curtailSlack = 1 := rfl

/-! ### terminals in scope -/

/-- every built-in terminal with construction parameters in their documented domain behaves (C08) -/
theorem termGood_of_wf (cfg : Cfg) (t : Terminal) (wf : t.WF) (hl : cfg.params.LenOk t) : TermGood cfg t := by
  intro pos hin
  have hspec := parse_eq_spec cfg.params cfg.file t pos hin wf hl
  have hr := spec_ranged cfg.params (rest cfg.file pos) pos t hl
  have hlen := rest_length cfg.file pos hin
  obtain ⟨h1, h2⟩ := hin
  refine ⟨fun n hn => ?_, fun e he => ?_⟩
  · rw [hspec] at hn; rw [hn] at hr
    obtain ⟨⟨hp, hlo, hhi⟩, tok, v, p, r, rfl⟩ := hr
    simp only [Node.pos, Node.rpos] at hp hlo hhi
    refine ⟨hp, ?_⟩
    simp only [Node.WF, Cfg.hi]
    omega
  · rw [hspec] at he; rw [he] at hr
    simp only [Ranged] at hr
    unfold Cfg.hi; omega

theorem termOK_rune (cfg : Cfg) (ch : Nat) (name : Bytes) : TermOK cfg (.rune ch name) := by
  refine ⟨termGood_of_wf cfg _ True.intro True.intro, ?_⟩
  intro pos n hin hn
  rw [parse_eq_spec cfg.params cfg.file (.rune ch name) pos hin True.intro True.intro] at hn
  obtain ⟨w, hw, rfl⟩ := (spec_rune_node _ _ _ _ _ _).mp hn
  have := (runeW_bounds ch _ w hw).1
  simp only [Node.rpos]; omega

theorem termOK_op (cfg : Cfg) (s name : Bytes) (hs : s ≠ []) : TermOK cfg (.op s name) := by
  refine ⟨termGood_of_wf cfg _ hs True.intro, ?_⟩
  intro pos n hin hn
  rw [parse_eq_spec cfg.params cfg.file (.op s name) pos hin hs True.intro] at hn
  obtain ⟨_, rfl⟩ := (spec_op_node _ _ _ _ _ _).mp hn
  have : 0 < s.length := List.length_pos_iff.mpr hs
  simp only [Node.rpos]; omega

/-! ### non-vacuity -/

namespace C02NV

def ch (c : Nat) : G := .term (.rune c [34, c, 34])
def certOne (ranks : List Nat) (memos : List Nat) : WFCert :=
  { nullable := fun _ => false, nullM := fun _ => false, rank := fun k => ranks.getD k 0, memos := memos }

/-- `P → P b | a`, memoized (direct left recursion) -/
def envDirect : List G := [.memo 0 (.any [.seq .seqOf [.ref 0, ch 98] {}, ch 97])]
/-- `P → x? P b | a`, memoized (hidden left recursion: the shape of defect D2) -/
def envHidden : List G := [.memo 0 (.any [.seq .seqOf [.optional (ch 120), .ref 0, ch 98] {}, ch 97])]
/-- `P → Q b | a`, `Q → P c | a` with only `P` memoized (indirect left recursion; one Memoize per cycle suffices) -/
def envMutual : List G :=
  [.memo 0 (.any [.seq .seqOf [.ref 1, ch 98] {}, ch 97]), .any [.seq .seqOf [.ref 0, ch 99] {}, ch 97]]
/-- `V → '[' (V sepBy ',')? ']' | a` — JSON-like, right-recursive, NO Memoize anywhere -/
def envJson : List G :=
  [.any [.seq .seqOf [ch 91, .sepBy (.ref 0) (ch 44) true {}, ch 93] {}, ch 97]]
/-- `P → P b | a` WITHOUT Memoize -/
def envBad : List G := [.any [.seq .seqOf [.ref 0, ch 98] {}, ch 97]]
/-- Many over an operand that can be empty -/
def manyOpt : G := .many (.optional (ch 97)) true {}

theorem wf_direct : wf (certOne [] [0]) envDirect (.ref 0) = true := by decide
theorem wf_hidden : wf (certOne [] [0]) envHidden (.ref 0) = true := by decide
theorem wf_mutual : wf (certOne [0, 1] [0]) envMutual (.ref 0) = true := by decide
theorem wf_json : wf (certOne [] []) envJson (.ref 0) = true := by decide
theorem wf_sentence : wf (certOne [] [0]) envHidden (G.sentence (.ref 0)) = true := by decide

/-- the computed certificate accepts them too -/
theorem wfAuto_ok : wfAuto envDirect (.ref 0) = true ∧ wfAuto envHidden (.ref 0) = true ∧
    wfAuto envMutual (.ref 0) = true ∧ wfAuto envJson (.ref 0) = true := by decide

/-- un-memoized left recursion has NO certificate, whatever nullability and ranks are proposed -/
theorem wf_bad_fails (c : WFCert) : wf c envBad (.ref 0) = false := by
  simp [wf, envBad, wfRule, leftRefsU, leftRefsAll, leftRefsSeq, List.range, List.range.loop]

/-- Many over an operand that can be empty has NO certificate -/
theorem wf_manyOpt_fails (c : WFCert) (env : List G) : wf c env manyOpt = false := by
  simp [wf, manyOpt, wfLocal, mayBeEmpty]

theorem wfAuto_bad : wfAuto envBad (.ref 0) = false ∧ wfAuto [] manyOpt = false := by decide

def mkCfg (env : List G) (data : Bytes) : Cfg :=
  { env := env, file := { name := "f", data := data, offset := 1 }, fileSet := {},
    params := { floatOk := fun _ => true, durErr := fun _ => none, regexp := fun _ _ => none } }

set_option maxRecDepth 100000 in
/-- … and indeed the model never answers on them: `P → P b | a` without Memoize on "ab", and
    `Many(Optional('a'))` on "b", run out of every small fuel -/
theorem bad_no_answer :
    (run (mkCfg envBad [97, 98]) 50 (.ref 0) [] 1 {}).isNone = true ∧
    (run (mkCfg envBad [97, 98]) 100 (.ref 0) [] 1 {}).isNone = true ∧
    (run (mkCfg [] [98]) 50 manyOpt [] 1 {}).isNone = true ∧
    (run (mkCfg [] [98]) 100 manyOpt [] 1 {}).isNone = true := by decide

set_option maxRecDepth 100000 in
/-- whereas the certified ones answer: hidden left recursion on "xab" (the input of defect D2) -/
theorem hidden_answers : (run (mkCfg envHidden [120, 97, 98]) 60 (.ref 0) [] 1 {}).isSome = true := by decide

/-- the hypotheses of `c02_terminates_parse` are satisfiable: hidden left recursion terminates on EVERY input -/
theorem hidden_terminates (data : Bytes) :
    ∃ F, ∀ fuel, F ≤ fuel → (parse (mkCfg envHidden data) fuel (G.sentence (.ref 0))).isSome = true := by
  refine c02_terminates_parse (certOne [] [0]) (mkCfg envHidden data) _ wf_sentence ⟨?_, ?_, rfl⟩
  · simp [G.sentence, G.Core, CoreList]
  · intro g' hg'
    simp only [mkCfg, envHidden, List.mem_singleton] at hg'
    subst hg'
    simp [G.Core, CoreList, ch, termOK_rune]

/-- … and so does the JSON-like grammar without any Memoize -/
theorem json_terminates (data : Bytes) :
    ∃ F, ∀ fuel, F ≤ fuel → (parse (mkCfg envJson data) fuel (.ref 0)).isSome = true := by
  refine c02_terminates_parse (certOne [] []) (mkCfg envJson data) _ wf_json ⟨?_, ?_, rfl⟩
  · simp [G.Core]
  · intro g' hg'
    simp only [mkCfg, envJson, List.mem_singleton] at hg'
    subst hg'
    simp [G.Core, CoreList, ch, termOK_rune]

end C02NV

end PV
