/-
  C04 — the Sentence IFF beyond the monotone fragment.

    "Parse returns a node or an error, never neither; a Sentence-rooted parse succeeds iff the grammar derives
     the WHOLE input."

  Props/C04I.lean proves the iff end to end for certified grammars of the MONOTONE fragment
  {term, empty, ref, memo, any, seqOf, optional}.  Here, with the three results that landed since
  (Props/C01S.lean stratified soundness + completeness, Props/C02U.lean termination with trims and every terminal,
  Props/C01B.lean the exact big-step meaning):

  * `c04_sentence_iff_strat`  STRATIFIED grammars — left recursion (direct, indirect, hidden) over memoized
        nonterminals at the top, Choice / Many / SepBy / SeqTry / SeqFirstOrAll / Name / Single / SuppressError
        below: for every grammar with a stratification certificate (`stratOK`, which fixes the MEANING `DerivesS`)
        and a termination certificate (`wfT`; `wf` is the special case `c04_sentence_iff_strat_wf`), every input
        and every sufficiently large fuel

            Parse(Sentence(g)) succeeds   ⟺   some derivation of the stratified meaning of g consumes the entire input,

        a success is rooted in a tree that starts at the first byte and ends at end of input, and the outcome is a
        node or an error, never neither, never both (`c04_xor`).
    `c04_sentence_iff_strat_answered`  the same for EVERY fuel with which Parse answers (no termination
        certificate) — partial correctness, and the form in which one evaluation of the model DECIDES whether a
        derivation exists (`c04s_sx_reject`).
    NEW INGREDIENT (Proofs/S04Strat.lean): soundness through the wrapper for `DerivesS` — `Sentence(g)` returns a
        result only if a `DerivesS`-derivation of `g` ends at the end of the input (`c04_sentence_only_if` has this for the
        weaker monotone reading `Derives` only).

  * The two certificates are INDEPENDENT (`c04s_stratOK_not_termination`): `stratOK` asks nothing of un-memoized
        left recursion in stratum 1 nor of `Many` over an operand that may be empty in stratum 0 — the theorems of
        Props/C01S.lean are "whenever `run` answers" — so it does not imply `wf`, and both are hypotheses.

  * `c04_sentence_iff_memofree`  Memoize-FREE grammars over ALL operators, whitespace trims included (LeftTrim in
        mode WsSpacesNl — the scope of `Big`): success ⟺ the exact result `Big` of `g` at the first byte has an
        alternative that ends at end of input; then the returned tree is the Sentence node over such an
        alternative.  `c04_sentence_iff_memofree_answered`: for every fuel with which Parse answers.
    NEW INGREDIENT (Proofs/S04Big.lean): the exact meaning of `Sentence(g)` by inversion (`c04_big_sentence`) —
        nothing, or exactly ONE tree (the enumeration stops after the first alternative followed by End).

  * With the trims under left recursion:
    `c04_sentence_iff_trim_partial`  for EVERY grammar with a termination certificate (all operators, trims, left
        recursion): termination, node xor error, and the ONLY-IF half with the root's end;
    `c04s_trim_iff_false`  FINDING: the IF half is false for the monotone fragment with RightTrim —
        `SeqOf('x', RightTrim(Optional('a')))` rejects "x " although the derivation x·EMPTY·blank consumes it: RightTrim
        does not trim a result that comes with an error, which is what Optional returns when its operand fails
        (the D9 mechanism through RightTrim; replayed on the Go library);
    `c04_sentence_iff_trim_STATEMENT` (comment at the end): the corrected statement, open — completeness under left
        recursion with trims exists for one closed grammar only (Props/C05V.lean).
-/
import ParsleyVerif.Proofs.S04Strat
import ParsleyVerif.Proofs.S04Big
import ParsleyVerif.Props.C04
import ParsleyVerif.Props.C01S
import ParsleyVerif.Props.C01B
import ParsleyVerif.Props.C02U
namespace PV
open PV.Text PV.Strat PV.WFT

namespace S04

/-- `parsley.Parse` in terms of the run it wraps: success iff the run returned a result and no error -/
theorem parse_cases (cfg : Cfg) (fuel : Nat) (g : G) (p : ParseOut) (h : parse cfg fuel g = some p) :
    ∃ o st1, run cfg fuel g [] (cfg.file.pos 0) {} = some (o, st1) ∧
      (p.err = none ↔ (o.res.isNil = false ∧ o.err = none)) ∧ (p.err = none → p.res = o.res) := by
  cases hr : run cfg fuel g [] (cfg.file.pos 0) {} with
  | none => simp [parse, hr] at h
  | some r =>
    obtain ⟨o, st1⟩ := r
    refine ⟨o, st1, rfl, ?_⟩
    simp only [parse, hr] at h
    by_cases hn : (o.res.isNil && o.err.isNone) = true
    · simp only [hn, ↓reduceIte] at h
      have hnil : o.res.isNil = true := by
        simp only [Bool.and_eq_true] at hn; exact hn.1
      split at h
      · cases h
        exact ⟨⟨(fun hc => by cases hc), (fun hc => by rw [hnil] at hc; cases hc.1)⟩, (fun hc => by cases hc)⟩
      · rename_i he
        cases hc : st1.ctxErr <;> simp [hc] at he
    · simp only [hn] at h
      cases he : o.err with
      | some e =>
        simp only [he] at h
        cases h
        exact ⟨⟨(fun hc => by cases hc), (fun hc => by cases hc.2)⟩, (fun hc => by cases hc)⟩
      | none =>
        simp only [he] at h
        cases h
        have : o.res.isNil = false := by
          cases hnil : o.res.isNil with
          | false => rfl
          | true => simp [hnil, he] at hn
        exact ⟨⟨fun _ => ⟨this, rfl⟩, fun _ => rfl⟩, fun _ => rfl⟩

theorem alts_ne_of_isNil_false {r : Res} (h : r.isNil = false) : r.alts ≠ [] ∨ r = .list [] := by
  cases r with
  | nil => cases h
  | one n => exact .inl (by simp [Res.alts])
  | list l =>
    cases l with
    | nil => exact .inr rfl
    | cons a b => exact .inl (by simp [Res.alts])

/-- a Sequence-family parser never returns the empty LIST of alternatives: a non-nil result of `Sentence(g)` has one -/
theorem sentence_alts_ne (cfg : Cfg) (g : G) (fuel : Nat) (pos : Nat) (st : St) (o : Out) (st' : St)
    (hr : run cfg fuel (G.sentence g) [] pos st = some (o, st')) (hnil : o.res.isNil = false) : o.res.alts ≠ [] := by
  cases alts_ne_of_isNil_false hnil with
  | inl h1 => exact h1
  | inr h1 =>
    exfalso
    obtain ⟨f, rfl⟩ : ∃ f, fuel = f + 1 := by
      cases fuel with
      | zero => simp [run] at hr
      | succ f => exact ⟨f, rfl⟩
    rw [run_seqfam cfg f _ _ [] _ st (sentence_shape g)] at hr
    split at hr
    · cases hr
    · unfold runSeq at hr
      split at hr
      · cases hr
      · rename_i b ss st2 hsp
        have ho : (seqFinish (sentenceShape g) pos ss st2).1 = o := by
          injection hr with hr; rw [hr]
        have hresult := seqParse_result (run cfg f) (sentenceShape g) f ⟨0, [], [], pos, true⟩ {} st b ss st2 rfl hsp
        have hfin : (seqFinish (sentenceShape g) pos ss st2).1.res =
            if ss.result.isNil then .nil else ss.result := by
          by_cases hn : ss.result.isNil = true <;> simp [seqFinish, hn]
        rw [ho, h1] at hfin
        by_cases hn : ss.result.isNil = true
        · rw [if_pos hn] at hfin; cases hfin
        · rw [if_neg hn] at hfin
          cases hresult with
          | inl h2 => rw [h2] at hn; exact hn rfl
          | inr h2 => rw [← hfin] at h2; exact h2 rfl

theorem isEOF_eq_hi {cfg : Cfg} {p : Nat} (he : isEOF cfg.file p = true) (hlo : cfg.file.pos 0 ≤ p) (hhi : p ≤ cfg.hi) :
    p = cfg.hi := by
  have h2 : p - cfg.file.offset ≥ cfg.file.len := by simpa [isEOF] using he
  have h3 : cfg.file.offset ≤ p := by simpa [File.pos] using hlo
  unfold Cfg.hi at hhi ⊢
  omega

end S04

open S04

/-! ## 1. stratified grammars -/

/-- **C04, Sentence iff, stratified grammars, partial correctness**: for EVERY fuel with which `Parse` answers.
    No termination certificate.  The hypotheses are those of Props/C01S.lean. -/
theorem c04_sentence_iff_strat_answered (cert : Cert) (cfg : Cfg) (bodyOf : Nat → G) (g : G)
    (hok : stratOK cert cfg.env g = true) (henv : EScope cfg cert bodyOf) (hg : SScope cfg cert bodyOf g)
    (fuel : Nat) (p : ParseOut) (h : parse cfg fuel (G.sentence g) = some p) :
    (p.err = none ↔ ∃ x, DerivesS cfg cert g (cfg.file.pos 0) x ∧ x.rpos = cfg.hi) ∧
    (p.err = none → p.res.alts ≠ [] ∧ ∀ x ∈ p.res.alts, x.pos = cfg.file.pos 0 ∧ x.rpos = cfg.hi) ∧
    ((p.res.isNil = false ∧ p.err = none ∧ p.msg = none) ∨ (p.res.isNil = true ∧ p.err.isSome ∧ p.msg.isSome)) := by
  obtain ⟨hE, hU⟩ := scope_of_stratOK cert cfg bodyOf g hok henv hg
  have hin : InFile cfg.file (cfg.file.pos 0) := (c01_pre_initial cfg).1
  have hif : (∃ x, DerivesS cfg cert g (cfg.file.pos 0) x ∧ x.rpos = cfg.hi) → p.err = none ∧ p.res.alts ≠ [] :=
    c01_strat_sentence_complete_parse cert cfg bodyOf g hok henv hg fuel p h
  have honly : p.err = none → ∃ x, DerivesS cfg cert g (cfg.file.pos 0) x ∧ x.rpos = cfg.hi := by
    intro hnone
    obtain ⟨o, st1, hr, hiff, _⟩ := parse_cases cfg fuel _ p h
    obtain ⟨hnil, _⟩ := hiff.mp hnone
    have hne : o.res.alts ≠ [] := sentence_alts_ne cfg g fuel _ {} o st1 hr hnil
    obtain ⟨y, hy, he⟩ := sentence_sound_strat cfg cert bodyOf hE g hU fuel _ hin {} MixCache.empty o st1 hr hne
    obtain ⟨b1, b2⟩ := derivesS_pos cfg cert bodyOf hE hy hU hin
    exact ⟨y, hy, isEOF_eq_hi he b1 b2⟩
  refine ⟨⟨honly, fun hex => (hif hex).1⟩, ?_, c04_xor cfg fuel _ {} p h⟩
  intro hnone
  obtain ⟨hs, hgokE, hgokS⟩ := scope_of_strat hE hU
  refine ⟨(hif (honly hnone)).2, fun x hx => ?_⟩
  obtain ⟨h1, h2, _⟩ := c04_sentence_sound cfg bodyOf g hs hgokE hgokS fuel p h x hx
  exact ⟨h1, h2⟩

/-- **C04, Sentence iff, stratified grammars, end to end.**  `cert` is the stratification certificate (decidable
    check `stratOK`; with `EScope` / `SScope` — one parser per Memoize index, terminals that behave, stratum-0
    terminals that consume — the hypotheses of Props/C01S.lean: they fix the meaning `DerivesS`); `wcert` is the
    termination certificate (decidable check `wfT rx`; `RxSound`: a Regexp the certificate declares non-nullable never
    matches the empty string; the driver's work budget is off — the hypotheses of Props/C02U.lean).  Then there is a
    fuel from which on `Parse(Sentence(g))` answers, succeeds exactly when some derivation of the stratified
    meaning of `g` consumes the whole input, a success is rooted in trees that span the whole input, and a failure
    carries an error: a node or an error, never neither, never both. -/
theorem c04_sentence_iff_strat (cert : Cert) (wcert : WFCert) (rx : Nat → Bool) (cfg : Cfg) (bodyOf : Nat → G) (g : G)
    (hok : stratOK cert cfg.env g = true) (henv : EScope cfg cert bodyOf) (hg : SScope cfg cert bodyOf g)
    (hwf : wfT rx wcert cfg.env g = true) (hbudget : cfg.maxCalls = 0) (hrx : RxSound rx cfg.params) :
    ∃ F, ∀ fuel, F ≤ fuel → ∃ p, parse cfg fuel (G.sentence g) = some p ∧
      (p.err = none ↔ ∃ x, DerivesS cfg cert g (cfg.file.pos 0) x ∧ x.rpos = cfg.hi) ∧
      (p.err = none → p.res.alts ≠ [] ∧ ∀ x ∈ p.res.alts, x.pos = cfg.file.pos 0 ∧ x.rpos = cfg.hi) ∧
      ((p.res.isNil = false ∧ p.err = none ∧ p.msg = none) ∨ (p.res.isNil = true ∧ p.err.isSome ∧ p.msg.isSome)) := by
  obtain ⟨F, hF⟩ := c02u_terminates_parse rx wcert cfg (G.sentence g) (by rw [wfT_sentence]; exact hwf) hbudget hrx
  refine ⟨F, fun fuel hle => ?_⟩
  have hsome := hF fuel hle
  cases hp : parse cfg fuel (G.sentence g) with
  | none => rw [hp] at hsome; cases hsome
  | some p => exact ⟨p, rfl, c04_sentence_iff_strat_answered cert cfg bodyOf g hok henv hg fuel p hp⟩

/-- … with the termination certificate of Props/C02T.lean (`wf`: no Regexp may match the empty string) -/
theorem c04_sentence_iff_strat_wf (cert : Cert) (wcert : WFCert) (cfg : Cfg) (bodyOf : Nat → G) (g : G)
    (hok : stratOK cert cfg.env g = true) (henv : EScope cfg cert bodyOf) (hg : SScope cfg cert bodyOf g)
    (hwf : wf wcert cfg.env g = true) (hbudget : cfg.maxCalls = 0) (hrx : RxSound rxNone cfg.params) :
    ∃ F, ∀ fuel, F ≤ fuel → ∃ p, parse cfg fuel (G.sentence g) = some p ∧
      (p.err = none ↔ ∃ x, DerivesS cfg cert g (cfg.file.pos 0) x ∧ x.rpos = cfg.hi) ∧
      (p.err = none → p.res.alts ≠ [] ∧ ∀ x ∈ p.res.alts, x.pos = cfg.file.pos 0 ∧ x.rpos = cfg.hi) ∧
      ((p.res.isNil = false ∧ p.err = none ∧ p.msg = none) ∨ (p.res.isNil = true ∧ p.err.isSome ∧ p.msg.isSome)) :=
  c04_sentence_iff_strat cert wcert rxNone cfg bodyOf g hok henv hg (by rw [c02u_agrees_wf]; exact hwf) hbudget hrx

/-- the new half on its own: **a Sentence-rooted success only if a derivation of the STRATIFIED meaning consumes the
    entire input** (`c04_sentence_only_if` gives a derivation of the weaker monotone reading `Derives`) -/
theorem c04_sentence_only_if_strat (cert : Cert) (cfg : Cfg) (bodyOf : Nat → G) (g : G)
    (hok : stratOK cert cfg.env g = true) (henv : EScope cfg cert bodyOf) (hg : SScope cfg cert bodyOf g)
    (fuel : Nat) (p : ParseOut) (h : parse cfg fuel (G.sentence g) = some p) (hnone : p.err = none) :
    ∃ x, DerivesS cfg cert g (cfg.file.pos 0) x ∧ x.rpos = cfg.hi :=
  (c04_sentence_iff_strat_answered cert cfg bodyOf g hok henv hg fuel p h).1.mp hnone

/-! ### the two certificates are independent -/

namespace S04

def ch (c : Nat) : G := .term (.rune c [34, c, 34])
/-- `P → P b | a` WITHOUT Memoize: a stratum-1 grammar (the monotone fragment), so `stratOK` accepts it -/
def envLR : List G := [.any [.seq .seqOf [.ref 0, ch 98] {}, ch 97]]
/-- `Many(Optional('a'))` as a low leaf: `stratOK` accepts it (stratum 0 is any left-recursion-free sub-grammar) -/
def manyOpt : G := .many (.optional (ch 97)) true {}
def certNone : Cert := Strat.certOf [] [] [] [] []
def cfgOf (env : List G) (data : Bytes) : Cfg :=
  { env := env, file := { name := "f", data := data, offset := 1 }, fileSet := {},
    params := { floatOk := fun _ => true, durErr := fun _ => none, regexp := fun _ _ => none } }

end S04

set_option maxRecDepth 100000 in
/-- **`stratOK` does not imply a termination certificate** — so `c04_sentence_iff_strat` takes both: un-memoized left
    recursion in stratum 1, and `Many` over a nullable operand in stratum 0, pass `stratOK`, have NO `wfT`
    certificate whatever nullability / ranks are proposed, and the model indeed never answers on them (on "ab" and
    on "b": out of fuel at 50 and at 100) -/
theorem c04s_stratOK_not_termination :
    (stratOK certNone envLR (.ref 0) = true ∧ (∀ rx c, wfT rx c envLR (.ref 0) = false) ∧
      (parse (cfgOf envLR [97, 98]) 50 (G.sentence (.ref 0))).isNone = true ∧
      (parse (cfgOf envLR [97, 98]) 100 (G.sentence (.ref 0))).isNone = true) ∧
    (stratOK certNone [] manyOpt = true ∧ (∀ rx c env, wfT rx c env manyOpt = false) ∧
      (parse (cfgOf [] [98]) 50 (G.sentence manyOpt)).isNone = true ∧
      (parse (cfgOf [] [98]) 100 (G.sentence manyOpt)).isNone = true) := by
  refine ⟨⟨by decide, ?_, by decide, by decide⟩, ⟨by decide, ?_, by decide, by decide⟩⟩
  · intro rx c
    simp [wfT, envLR, wfRuleT, leftRefsT, leftRefsAllT, leftRefsSeqT, List.range, List.range.loop]
  · intro rx c env
    simp [wfT, manyOpt, wfLocalT, mayBeEmptyT]

/-! ### non-vacuity: `E → E '+' T | T`, `T → Many1(digit)` (the example of Props/C01S.lean) on EVERY input -/

namespace S04

/-- the configuration of Props/C01S.lean with the input as a parameter (`sxD [49, 50, 43, 51]` is `sxCfg`) -/
def sxD (data : Bytes) : Cfg :=
  { env := sxEnv, file := { name := "f", data := data, offset := 1 }, fileSet := {},
    params := { floatOk := fun _ => true, durErr := fun _ => none, regexp := fun _ _ => none } }

/-- the termination certificate: Memoize index 0, nothing nullable, no un-memoized left reference -/
def sxW : WFCert := PV.certOf [] [] [] [0]

theorem sxD_cert (data : Bytes) : stratOK sxCert (sxD data).env (.ref 0) = true := sx_cert
theorem sxD_wf (data : Bytes) : wf sxW (sxD data).env (.ref 0) = true := by
  show wf sxW sxEnv (.ref 0) = true
  decide

theorem sxD_scope (data : Bytes) : EScope (sxD data) sxCert (fun _ => sxEBody) := by
  intro k g' hk
  match k, hk with
  | 0, hk =>
    simp only [sxD, sxEnv, List.getElem?_cons_zero, Option.some.injEq] at hk
    subst hk
    refine ⟨⟨by simp [GOK, G.All, AllList, LocalOK, sxEBody, sxT], ?_, leafCons_of_cons _ ?_⟩, fun h => absurd h (by decide)⟩
    · simp only [TermsOK, G.All, AllList, sxEBody, sxT, TermS, and_true, true_and]
      exact termS_rune _ _ _ (by decide)
    · simp only [TermsCons, G.All, AllList, sxEBody, sxT, ConsT, and_true, true_and]
      exact consT_rune _ _ _
  | 1, hk =>
    simp only [sxD, sxEnv, List.getElem?_cons_succ, List.getElem?_cons_zero, Option.some.injEq] at hk
    subst hk
    have hc : TermsCons (sxD data) sxTBody := by
      simp only [TermsCons, G.All, AllList, sxTBody, sxDigit, sxT, ConsT, and_true, true_and]
      exact ⟨consT_rune _ _ _, consT_rune _ _ _, consT_rune _ _ _⟩
    refine ⟨⟨by simp [GOK, G.All, AllList, LocalOK, sxTBody, sxDigit, sxT], ?_, leafCons_of_cons _ hc⟩, fun _ => hc⟩
    simp only [TermsOK, G.All, AllList, sxTBody, sxDigit, sxT, TermS, and_true, true_and]
    exact ⟨termS_rune _ _ _ (by decide), termS_rune _ _ _ (by decide), termS_rune _ _ _ (by decide)⟩
  | k + 2, hk => simp [sxD, sxEnv] at hk

theorem sxD_rx (data : Bytes) : RxSound rxNone (sxD data).params := by
  intro id r m gv _ _ hp
  simp [sxD] at hp

end S04

/-- **the theorem instantiated on `E → E '+' T | T`, `T → Many1(digit)`, EVERY input** (file at offset 1): from
    some fuel on `Parse(Sentence(E))` answers, and succeeds exactly when a derivation of the stratified meaning
    of `E` ends at `1 + length of the input` -/
theorem c04s_sx_iff (data : Bytes) :
    ∃ F, ∀ fuel, F ≤ fuel → ∃ p, parse (sxD data) fuel (G.sentence (.ref 0)) = some p ∧
      (p.err = none ↔ ∃ x, DerivesS (sxD data) sxCert (.ref 0) 1 x ∧ x.rpos = 1 + data.length) ∧
      (p.err = none → p.res.alts ≠ [] ∧ ∀ x ∈ p.res.alts, x.pos = 1 ∧ x.rpos = 1 + data.length) ∧
      ((p.res.isNil = false ∧ p.err = none ∧ p.msg = none) ∨ (p.res.isNil = true ∧ p.err.isSome ∧ p.msg.isSome)) :=
  c04_sentence_iff_strat_wf sxCert sxW (sxD data) (fun _ => sxEBody) (.ref 0) (sxD_cert data) (sxD_scope data)
    (sx_root _ _ _) (sxD_wf data) rfl (sxD_rx data)

/-- ACCEPTED, derived from the theorem: "12+3" has the derivation `sxSum` of Props/C01S.lean (left-recursive `E`
    over two exact `Many1` results), which ends at 5 — so `Parse(Sentence(E))` succeeds for every large fuel -/
theorem c04s_sx_accept :
    ∃ F, ∀ fuel, F ≤ fuel → ∃ p, parse (sxD [49, 50, 43, 51]) fuel (G.sentence (.ref 0)) = some p ∧ p.err = none ∧
      ∀ x ∈ p.res.alts, x.pos = 1 ∧ x.rpos = 5 := by
  obtain ⟨F, hF⟩ := c04s_sx_iff [49, 50, 43, 51]
  refine ⟨F, fun fuel hle => ?_⟩
  obtain ⟨p, hp, hiff, hroot, _⟩ := hF fuel hle
  have hnone : p.err = none := hiff.mpr ⟨sxSum, sx_derives_sum, rfl⟩
  exact ⟨p, hp, hnone, (hroot hnone).2⟩

set_option maxRecDepth 100000 in
/-- REJECTED, derived from the theorem in the other direction: on "12+" ONE evaluation of the model fails, hence
    (partial-correctness iff) NO derivation of the stratified meaning of `E` consumes "12+" — a statement about
    an inductive relation over all trees, decided by running the parser —, hence (end-to-end iff) `Parse` fails,
    with an error, for every large fuel -/
theorem c04s_sx_reject :
    (¬ ∃ x, DerivesS (sxD [49, 50, 43]) sxCert (.ref 0) 1 x ∧ x.rpos = 4) ∧
    ∃ F, ∀ fuel, F ≤ fuel → ∃ p, parse (sxD [49, 50, 43]) fuel (G.sentence (.ref 0)) = some p ∧
      p.res.isNil = true ∧ p.err.isSome ∧ p.msg.isSome := by
  have hev : (parse (sxD [49, 50, 43]) 40 (G.sentence (.ref 0))).map (fun p => p.err.isNone) = some false := by decide
  have hno : ¬ ∃ x, DerivesS (sxD [49, 50, 43]) sxCert (.ref 0) 1 x ∧ x.rpos = 4 := by
    intro hex
    cases hp : parse (sxD [49, 50, 43]) 40 (G.sentence (.ref 0)) with
    | none => rw [hp] at hev; cases hev
    | some p =>
      rw [hp] at hev
      have hnone := (c04_sentence_iff_strat_answered sxCert (sxD [49, 50, 43]) (fun _ => sxEBody) (.ref 0) (sxD_cert _)
        (sxD_scope _) (sx_root _ _ _) 40 p hp).1.mpr hex
      simp [hnone] at hev
  refine ⟨hno, ?_⟩
  obtain ⟨F, hF⟩ := c04s_sx_iff [49, 50, 43]
  refine ⟨F, fun fuel hle => ?_⟩
  obtain ⟨p, hp, hiff, _, hxor⟩ := hF fuel hle
  refine ⟨p, hp, ?_⟩
  cases hxor with
  | inl h1 => exact absurd (hiff.mp h1.2.1) hno
  | inr h1 => exact h1

/-! ## 2. Memoize-free grammars, every operator -/

/-- **the exact meaning of `Sentence(g)`** (Spec/BigStep.lean), in terms of the exact meaning of `g`: nothing when no
    alternative of `g`'s result ends at the end of the input; otherwise exactly ONE tree, the Sentence node over an
    alternative that does, and no error -/
theorem c04_big_sentence (cfg : Cfg) (g : G) (pos : Nat) (R : Res) (e : Bool) (h : Big cfg (G.sentence g) pos R e) :
    ∃ Rg eg, Big cfg g pos Rg eg ∧
      (((∀ n ∈ Rg.alts, isEOF cfg.file n.rpos = false) ∧ R = .nil) ∨
       (∃ n ∈ Rg.alts, isEOF cfg.file n.rpos = true ∧
          R = .one (.nt seqTok [n, .eof n.rpos] n.pos n.rpos (.select 0)) ∧ e = false)) :=
  big_sentence_inv h

namespace S04

theorem plain_sentence {g : G} (hg : Big.Plain g) : Big.Plain (G.sentence g) := by
  show (G.seq .seqOf [g, .eof] { interp := .select 0 }).All Big.PlainLocal
  simp only [G.All, AllList, Big.PlainLocal, and_true, true_and]
  exact hg

/-- what a run of `Sentence(g)` returns, for a Memoize-free grammar -/
theorem memofree_run (cfg : Cfg) (hgh : cfg.ghost = true) (henv : ∀ g' ∈ cfg.env, Big.Plain g') (g : G)
    (hg : Big.Plain g) (fuel : Nat) (pos : Nat) (o : Out) (st' : St)
    (h : run cfg fuel (G.sentence g) [] pos {} = some (o, st')) :
    ∃ Rg eg, Big cfg g pos Rg eg ∧
      (((∀ n ∈ Rg.alts, isEOF cfg.file n.rpos = false) ∧ o.res = .nil) ∨
       (∃ n ∈ Rg.alts, isEOF cfg.file n.rpos = true ∧ o.res = .one (sentNode n) ∧ o.err = none)) := by
  have hb := c01_bigstep_memofree cfg hgh henv _ (plain_sentence hg) fuel [] pos o st' h
  obtain ⟨Rg, eg, hbg, hc⟩ := big_sentence_inv hb
  refine ⟨Rg, eg, hbg, ?_⟩
  cases hc with
  | inl h1 => exact .inl h1
  | inr h1 =>
    obtain ⟨n, hn, he, hR, hf⟩ := h1
    refine .inr ⟨n, hn, he, hR, ?_⟩
    cases hoe : o.err with
    | none => rfl
    | some _ => rw [hoe] at hf; cases hf

end S04

/-- **C04, Sentence iff, Memoize-free grammars over ALL operators, partial correctness**: for every fuel with which
    `Parse` answers, success ⟺ the exact result of `g` at the first byte has an alternative after which `End`
    matches; then the returned tree is the Sentence node over such an alternative.  (No certificate; LeftTrim in mode
    WsSpacesNl, the scope of `Big`.) -/
theorem c04_sentence_iff_memofree_answered (cfg : Cfg) (hgh : cfg.ghost = true) (henv : ∀ g' ∈ cfg.env, Big.Plain g')
    (g : G) (hg : Big.Plain g) (fuel : Nat) (p : ParseOut) (h : parse cfg fuel (G.sentence g) = some p) :
    (p.err = none ↔ ∃ R e x, Big cfg g (cfg.file.pos 0) R e ∧ x ∈ R.alts ∧ isEOF cfg.file x.rpos = true) ∧
    (p.err = none → ∃ R e x, Big cfg g (cfg.file.pos 0) R e ∧ x ∈ R.alts ∧ isEOF cfg.file x.rpos = true ∧
      p.res = .one (.nt seqTok [x, .eof x.rpos] x.pos x.rpos (.select 0))) ∧
    ((p.res.isNil = false ∧ p.err = none ∧ p.msg = none) ∨ (p.res.isNil = true ∧ p.err.isSome ∧ p.msg.isSome)) := by
  obtain ⟨o, st1, hr, hiff, hres⟩ := parse_cases cfg fuel _ p h
  obtain ⟨Rg, eg, hbg, hc⟩ := memofree_run cfg hgh henv g hg fuel _ o st1 hr
  have hroot : p.err = none → ∃ R e x, Big cfg g (cfg.file.pos 0) R e ∧ x ∈ R.alts ∧ isEOF cfg.file x.rpos = true ∧
      p.res = .one (.nt seqTok [x, .eof x.rpos] x.pos x.rpos (.select 0)) := by
    intro hnone
    obtain ⟨hnil, _⟩ := hiff.mp hnone
    cases hc with
    | inl h1 => rw [h1.2] at hnil; cases hnil
    | inr h1 =>
      obtain ⟨n, hn, he, hR, _⟩ := h1
      exact ⟨Rg, eg, n, hbg, hn, he, by rw [hres hnone, hR]; rfl⟩
  refine ⟨⟨fun hnone => ?_, ?_⟩, hroot, c04_xor cfg fuel _ {} p h⟩
  · obtain ⟨R, e, x, h1, h2, h3, _⟩ := hroot hnone
    exact ⟨R, e, x, h1, h2, h3⟩
  · rintro ⟨R, e, x, hb, hx, he⟩
    obtain ⟨hRR, _⟩ := big_functional hb hbg
    subst hRR
    cases hc with
    | inl h1 => rw [h1.1 x hx] at he; cases he
    | inr h1 =>
      obtain ⟨n, _, _, hR, hoe⟩ := h1
      exact hiff.mpr ⟨by rw [hR]; rfl, hoe⟩

/-- **C04, Sentence iff, Memoize-free grammars over ALL operators, end to end.**  A grammar without Memoize cannot be
    left-recursive and terminate; `wcert` is its termination certificate (`wfT`: no un-memoized left recursion,
    repetition operands consume).  From some fuel on `Parse(Sentence(g))` answers, and succeeds exactly when the
    exact big-step result of `g` at the first byte has an alternative that ends at end of input; the returned tree
    is then the Sentence node over such an alternative and ends at end of input; a failure carries an error. -/
theorem c04_sentence_iff_memofree (wcert : WFCert) (rx : Nat → Bool) (cfg : Cfg) (hgh : cfg.ghost = true)
    (henv : ∀ g' ∈ cfg.env, Big.Plain g') (g : G) (hg : Big.Plain g)
    (hwf : wfT rx wcert cfg.env g = true) (hbudget : cfg.maxCalls = 0) (hrx : RxSound rx cfg.params) :
    ∃ F, ∀ fuel, F ≤ fuel → ∃ p, parse cfg fuel (G.sentence g) = some p ∧
      (p.err = none ↔ ∃ R e x, Big cfg g (cfg.file.pos 0) R e ∧ x ∈ R.alts ∧ x.rpos = cfg.hi) ∧
      (p.err = none → ∃ R e x, Big cfg g (cfg.file.pos 0) R e ∧ x ∈ R.alts ∧ x.rpos = cfg.hi ∧
        p.res = .one (.nt seqTok [x, .eof cfg.hi] x.pos cfg.hi (.select 0))) ∧
      ((p.res.isNil = false ∧ p.err = none ∧ p.msg = none) ∨ (p.res.isNil = true ∧ p.err.isSome ∧ p.msg.isSome)) := by
  have hwfS : wfT rx wcert cfg.env (G.sentence g) = true := by rw [wfT_sentence]; exact hwf
  obtain ⟨F, hF⟩ := c02u_terminates_parse rx wcert cfg (G.sentence g) hwfS hbudget hrx
  refine ⟨F, fun fuel hle => ?_⟩
  have hsome := hF fuel hle
  cases hp : parse cfg fuel (G.sentence g) with
  | none => rw [hp] at hsome; cases hsome
  | some p =>
    obtain ⟨hiff, hroot, hxor⟩ := c04_sentence_iff_memofree_answered cfg hgh henv g hg fuel p hp
    obtain ⟨o, st1, hr, _, hres⟩ := parse_cases cfg fuel _ p hp
    have hbound := c02u_mayBeEmpty_sound rx wcert cfg (G.sentence g) hwfS hbudget hrx fuel [] _ {} o st1
      (c02u_initial wcert cfg) hr
    have hroot' : p.err = none → ∃ R e x, Big cfg g (cfg.file.pos 0) R e ∧ x ∈ R.alts ∧ x.rpos = cfg.hi ∧
        p.res = .one (.nt seqTok [x, .eof cfg.hi] x.pos cfg.hi (.select 0)) := by
      intro hnone
      obtain ⟨R, e, x, hb, hx, he, hpr⟩ := hroot hnone
      have hmem : Node.nt seqTok [x, .eof x.rpos] x.pos x.rpos (.select 0) ∈ o.res.alts := by
        rw [← hres hnone, hpr]; simp [Res.alts]
      obtain ⟨b1, b2, _⟩ := hbound _ hmem
      have hhi : x.rpos = cfg.hi := isEOF_eq_hi he b1 b2
      exact ⟨R, e, x, hb, hx, hhi, by rw [hpr, hhi]⟩
    refine ⟨p, rfl, ⟨fun hnone => ?_, ?_⟩, hroot', hxor⟩
    · obtain ⟨R, e, x, h1, h2, h3, _⟩ := hroot' hnone
      exact ⟨R, e, x, h1, h2, h3⟩
    · rintro ⟨R, e, x, hb, hx, hhi⟩
      exact hiff.mpr ⟨R, e, x, hb, hx, by rw [hhi]; exact isEOF_hi cfg⟩

/-! ### non-vacuity: `Many1(Choice('a', 'b' 'c'))`, no Memoize, on EVERY input -/

namespace S04

open PV.Big in
/-- `Many1(Choice('a', SeqOf('b','c')))` — first-match Choice under the longest-path Many -/
def mcG : G := .many (.choice [exT 97, .seq .seqOf [exT 98, exT 99] {}]) false {}

theorem mc_plain : Big.Plain mcG := by
  simp [Big.Plain, mcG, G.All, AllList, Big.PlainLocal, Big.exT]

theorem mc_wf (data : Bytes) : wfT rxNone (PV.certOf [] [] [] []) (Big.exCfg data).env mcG = true := by
  show wfT rxNone (PV.certOf [] [] [] []) [] mcG = true
  decide

theorem mc_rx (data : Bytes) : RxSound rxNone (Big.exCfg data).params := by
  intro id r m gv _ _ hp
  simp [Big.exCfg] at hp

end S04

/-- the theorem instantiated on `Many1(Choice('a', 'b' 'c'))`, EVERY input -/
theorem c04s_mc_iff (data : Bytes) :
    ∃ F, ∀ fuel, F ≤ fuel → ∃ p, parse (Big.exCfg data) fuel (G.sentence mcG) = some p ∧
      (p.err = none ↔ ∃ R e x, Big (Big.exCfg data) mcG 1 R e ∧ x ∈ R.alts ∧ x.rpos = 1 + data.length) ∧
      (p.err = none → ∃ R e x, Big (Big.exCfg data) mcG 1 R e ∧ x ∈ R.alts ∧ x.rpos = 1 + data.length ∧
        p.res = .one (.nt seqTok [x, .eof (1 + data.length)] x.pos (1 + data.length) (.select 0))) ∧
      ((p.res.isNil = false ∧ p.err = none ∧ p.msg = none) ∨ (p.res.isNil = true ∧ p.err.isSome ∧ p.msg.isSome)) :=
  c04_sentence_iff_memofree (PV.certOf [] [] [] []) rxNone (Big.exCfg data) rfl (by intro g' hg'; cases hg') mcG mc_plain
    (mc_wf data) rfl (mc_rx data)

/-- the exact meaning of the grammar on "abc": the one chain `a, bc` (one evaluation, through `c01_bigstep`) -/
theorem c04s_mc_meaning : Big (Big.exCfg [97, 98, 99]) mcG 1
    (.one (.nt manyTok [Big.nA 1, .nt seqTok [Big.nB 2, Big.nC 3] 2 4 .none] 1 4 .none)) false :=
  Big.of_eval rfl (fun _ => .empty) (by intro g hg; cases hg) (mc_plain.inScope _) (fuel := 20) (by rfl)

/-- ACCEPTED, derived from the theorem: that chain ends at 4 = end of "abc" -/
theorem c04s_mc_accept :
    ∃ F, ∀ fuel, F ≤ fuel → ∃ p, parse (Big.exCfg [97, 98, 99]) fuel (G.sentence mcG) = some p ∧ p.err = none := by
  obtain ⟨F, hF⟩ := c04s_mc_iff [97, 98, 99]
  refine ⟨F, fun fuel hle => ?_⟩
  obtain ⟨p, hp, hiff, _, _⟩ := hF fuel hle
  exact ⟨p, hp, hiff.mpr ⟨_, _, .nt manyTok [Big.nA 1, .nt seqTok [Big.nB 2, Big.nC 3] 2 4 .none] 1 4 .none,
    c04s_mc_meaning, (by simp [Res.alts]), rfl⟩⟩

/-- REJECTED, derived from the theorem: on "ab" one evaluation fails, hence the exact result of the grammar has no
    alternative ending at 3 (it is `a` alone: Choice commits to `'b' 'c'` only where it matches, and Many stops), and
    `Parse` fails with an error for every large fuel -/
theorem c04s_mc_reject :
    (¬ ∃ R e x, Big (Big.exCfg [97, 98]) mcG 1 R e ∧ x ∈ R.alts ∧ x.rpos = 3) ∧
    ∃ F, ∀ fuel, F ≤ fuel → ∃ p, parse (Big.exCfg [97, 98]) fuel (G.sentence mcG) = some p ∧
      p.res.isNil = true ∧ p.err.isSome ∧ p.msg.isSome := by
  have hev : (parse (Big.exCfg [97, 98]) 20 (G.sentence mcG)).map (fun p => p.err.isNone) = some false := by decide
  obtain ⟨F, hF⟩ := c04s_mc_iff [97, 98]
  have hno : ¬ ∃ R e x, Big (Big.exCfg [97, 98]) mcG 1 R e ∧ x ∈ R.alts ∧ x.rpos = 3 := by
    intro hex
    obtain ⟨p, hp, hiff, _, _⟩ := hF (max F 20) (Nat.le_max_left ..)
    have hnone := hiff.mpr hex
    cases hp20 : parse (Big.exCfg [97, 98]) 20 (G.sentence mcG) with
    | none => rw [hp20] at hev; cases hev
    | some p20 =>
      rw [hp20] at hev
      have := parse_mono (Big.exCfg [97, 98]) 20 (max F 20) (Nat.le_max_right ..) _ {} p20 hp20
      rw [hp] at this
      injection this with this
      subst this
      simp [hnone] at hev
  refine ⟨hno, F, fun fuel hle => ?_⟩
  obtain ⟨p, hp, hiff, _, hxor⟩ := hF fuel hle
  refine ⟨p, hp, ?_⟩
  cases hxor with
  | inl h1 => exact absurd (hiff.mp h1.2.1) hno
  | inr h1 => exact h1

/-! ## 3. with the whitespace trims, under left recursion: what holds, what is FALSE, what is open -/

/-- **C04 for EVERY certified grammar — all operators, the trims, left recursion — the part that holds**
    (`…_partial`: termination, node xor error, and the ONLY-IF half; the IF half is false in general, see
    `c04s_trim_iff_false`, and open for the restricted fragment, see the statement below).
    For every grammar with one parser per Memoize index and a termination certificate `wfT`: from some fuel on
    `Parse(Sentence(g))` answers; a success implies that a derivation of the monotone reading `Derives` of `g`
    consumes the entire input, and every returned tree ends at end of input (with a LeftTrim the root may START
    after the first byte, so the start is not claimed); a failure carries an error. -/
theorem c04_sentence_iff_trim_partial (wcert : WFCert) (rx : Nat → Bool) (cfg : Cfg) (bodyOf : Nat → G) (g : G)
    (henvG : ∀ g' ∈ cfg.env, GOK bodyOf g') (hgG : GOK bodyOf g)
    (hwf : wfT rx wcert cfg.env g = true) (hbudget : cfg.maxCalls = 0) (hrx : RxSound rx cfg.params) :
    ∃ F, ∀ fuel, F ≤ fuel → ∃ p, parse cfg fuel (G.sentence g) = some p ∧
      (p.err = none → (∃ y, Derives cfg g (cfg.file.pos 0) y ∧ y.rpos = cfg.hi) ∧
        p.res.alts ≠ [] ∧ ∀ x ∈ p.res.alts, x.rpos = cfg.hi ∧
          ∃ y, Derives cfg g (cfg.file.pos 0) y ∧ x = .nt seqTok [y, .eof cfg.hi] y.pos cfg.hi (.select 0)) ∧
      ((p.res.isNil = false ∧ p.err = none ∧ p.msg = none) ∨ (p.res.isNil = true ∧ p.err.isSome ∧ p.msg.isSome)) := by
  have hwfS : wfT rx wcert cfg.env (G.sentence g) = true := by rw [wfT_sentence]; exact hwf
  have hgS : GOK bodyOf (G.sentence g) := by
    show (G.seq .seqOf [g, .eof] { interp := .select 0 }).All (LocalOK bodyOf)
    simp only [G.All, AllList, LocalOK, and_true, true_and]
    exact hgG
  obtain ⟨F, hF⟩ := c02u_terminates_parse rx wcert cfg (G.sentence g) hwfS hbudget hrx
  refine ⟨F, fun fuel hle => ?_⟩
  have hsome := hF fuel hle
  cases hp : parse cfg fuel (G.sentence g) with
  | none => rw [hp] at hsome; cases hsome
  | some p =>
    refine ⟨p, rfl, ?_, c04_xor cfg fuel _ {} p hp⟩
    intro hnone
    obtain ⟨o, st1, hr, hiff, hres⟩ := parse_cases cfg fuel _ p hp
    obtain ⟨hnil, _⟩ := hiff.mp hnone
    have hne : o.res.alts ≠ [] := sentence_alts_ne cfg g fuel _ {} o st1 hr hnil
    have hsnd := c01_sound cfg bodyOf henvG fuel _ [] _ {} o st1 hgS (by intro e he; cases he) hr
    have hbound := c02u_mayBeEmpty_sound rx wcert cfg (G.sentence g) hwfS hbudget hrx fuel [] _ {} o st1
      (c02u_initial wcert cfg) hr
    have hall : ∀ x ∈ o.res.alts, x.rpos = cfg.hi ∧
        ∃ y, Derives cfg g (cfg.file.pos 0) y ∧ y.rpos = cfg.hi ∧ x = .nt seqTok [y, .eof cfg.hi] y.pos cfg.hi (.select 0) := by
      intro x hx
      obtain ⟨y, hy, heof, hxe⟩ := derives_sentence_inv cfg g _ x (hsnd x hx)
      obtain ⟨b1, b2, _⟩ := hbound x hx
      have hxy : x.rpos = y.rpos := by rw [hxe]; rfl
      have hyhi : y.rpos = cfg.hi := isEOF_eq_hi heof (by rw [← hxy]; exact b1) (by rw [← hxy]; exact b2)
      exact ⟨by rw [hxy, hyhi], y, hy, hyhi, by rw [hxe, hyhi]⟩
    rw [hres hnone]
    refine ⟨?_, hne, fun x hx => ?_⟩
    · cases ho : o.res.alts with
      | nil => exact absurd ho hne
      | cons x l =>
        obtain ⟨_, y, hy, hyhi, _⟩ := hall x (by rw [ho]; exact List.mem_cons_self ..)
        exact ⟨y, hy, hyhi⟩
    · obtain ⟨h1, y, hy, _, hxe⟩ := hall x hx
      exact ⟨h1, y, hy, hxe⟩

namespace S04

/-- `'x' RightTrim(Optional('a'))`: the monotone fragment plus one RightTrim (mode WsSpacesNl), no recursion -/
def rtG : G := .seq .seqOf [Big.exT 120, .rtrim (.optional (Big.exT 97)) .spacesNl] {}

end S04

/-- **FINDING — the IF half is FALSE for the monotone fragment with trims** (with `Derives` as the meaning, which
    reads `RightTrim(p)` as "a tree of `p` with its end moved past the whitespace"): `RightTrim` does NOT trim a
    result that comes together with an error, and `Optional(p)` returns its EMPTY alternative together with `p`'s
    error whenever `p` fails (the mechanism of known finding D9, through RightTrim instead of Name / Single).
    Witness: `g = SeqOf('x', RightTrim(Optional('a'), WsSpacesNl))` on "x " (an 'x' and one blank).  The grammar has a
    termination certificate; the derivation `x · EMPTY-moved-past-the-blank` consumes the entire input; and
    `Parse(Sentence(g))` answers (fuel 20) and FAILS for every fuel with which it answers ("was expecting "a" at
    1:3"), whereas "x" and "xa " are accepted.
    Replayed on the Go library (pinned tree), same outcome:
      g := combinator.SeqOf(terminal.Rune('x'), text.RightTrim(combinator.Optional(terminal.Rune('a')), text.WsSpacesNl))
      parsley.Parse(ctx, combinator.Sentence(g))   on "x "  → nil, `failed to parse the input: was expecting "a" at f:1:3`
                                                    on "x"   → SEQ{[SEQ{[x EMPTY{2}], 1..2} EOF{2}], 1..2}
                                                    on "xa " → SEQ{[SEQ{[x a{2..4}], 1..4} EOF{4}], 1..4}
    (text/trim.go, RightTrim: `if err != nil { … return res, cp, err }` hands `res` through untrimmed.) -/
theorem c04s_trim_iff_false :
    wfT rxNone (PV.certOf [] [] [] []) (Big.exCfg [120, 32]).env rtG = true ∧
    (∃ y, Derives (Big.exCfg [120, 32]) rtG ((Big.exCfg [120, 32]).file.pos 0) y ∧ y.rpos = (Big.exCfg [120, 32]).hi) ∧
    (parse (Big.exCfg [120, 32]) 20 (G.sentence rtG)).isSome = true ∧
    (∀ fuel p, parse (Big.exCfg [120, 32]) fuel (G.sentence rtG) = some p → p.err.isSome = true ∧ p.res.isNil = true) ∧
    ((parse (Big.exCfg [120]) 20 (G.sentence rtG)).map (fun p => p.err.isNone) = some true) ∧
    ((parse (Big.exCfg [120, 97, 32]) 20 (G.sentence rtG)).map (fun p => p.err.isNone) = some true) := by
  have hev : (parse (Big.exCfg [120, 32]) 20 (G.sentence rtG)).map (fun p => (p.err.isSome, p.res.isNil)) = some (true, true) := by
    decide
  refine ⟨by decide, ?_, ?_, ?_, by decide, by decide⟩
  · have h2 : Derives (Big.exCfg [120, 32]) (.rtrim (.optional (Big.exT 97)) .spacesNl) 2 (.empty 3) :=
      Derives.rtrimMove (x := .empty 2) .optNone
    have hs : rtG.shape = some ⟨fun i => [Big.exT 120, G.rtrim (.optional (Big.exT 97)) .spacesNl][i]?,
        fun len => len == 2, seqTok, .none, false, none⟩ := rfl
    exact ⟨.nt seqTok [.term [120] (.rune 120) 1 2, .empty 3] 1 3 .none,
      Derives.seqfam (nodes := [.term [120] (.rune 120) 1 2, .empty 3]) hs (.cons rfl (.term rfl) (.cons rfl h2 .nil)) rfl,
      rfl⟩
  · cases hp : parse (Big.exCfg [120, 32]) 20 (G.sentence rtG) with
    | none => rw [hp] at hev; cases hev
    | some _ => rfl
  · intro fuel p hp
    cases hp20 : parse (Big.exCfg [120, 32]) 20 (G.sentence rtG) with
    | none => rw [hp20] at hev; cases hev
    | some p20 =>
      rw [hp20] at hev
      simp only [Option.map_some, Option.some.injEq, Prod.mk.injEq] at hev
      have hpp : p = p20 := by
        cases Nat.le_total fuel 20 with
        | inl hle =>
          have := parse_mono _ fuel 20 hle _ {} p hp
          rw [hp20] at this
          injection this with this
          exact this.symm
        | inr hle =>
          have := parse_mono _ 20 fuel hle _ {} p20 hp20
          rw [hp] at this
          injection this
      rw [hpp]
      exact hev

/-
  **C04, Sentence iff, the monotone fragment WITH the whitespace trims under left recursion — NOT proved.**

  As literally asked (fragment of C04I plus ltrim / rtrim, meaning `Derives`) the iff is FALSE: `c04s_trim_iff_false`.
  The statement that is expected to hold, and is open:

    theorem c04_sentence_iff_trim_STATEMENT (rx) (wcert : WFCert) (cfg : Cfg) (bodyOf : Nat → G) (g : G)
        -- g and every rule over {term, empty, ref, memo, any, seqOf, optional, ltrim _ .spacesNl, rtrim _ .spacesNl}
        -- where the operand of every rtrim NEVER returns a result together with an error: syntactically, below
        -- ref / memo / ltrim / rtrim wrappers it is a terminal, an Any or a SeqOf — not an Optional;
        -- one parser per Memoize index; terminals that behave and build no "EOF" token
        (hwf : wfT rx wcert cfg.env g = true) (hbudget : cfg.maxCalls = 0) (hrx : RxSound rx cfg.params) :
        ∃ F, ∀ fuel, F ≤ fuel → ∃ p, parse cfg fuel (G.sentence g) = some p ∧
          (p.err = none ↔ ∃ x, Derives cfg g (cfg.file.pos 0) x ∧ x.rpos = cfg.hi)

  (other modes: LeftTrim / RightTrim answer a whitespace error INSTEAD of the result when the run of whitespace is
  not acceptable in the mode — C10's subject —, so `Derives`, which does not look at the mode, over-approximates
  there too.)

  Proved of it: termination, node xor error and the ONLY-IF half, for every grammar (`c04_sentence_iff_trim_partial`);
  the whole iff when the grammar has no Memoize (`c04_sentence_iff_memofree`: ltrim in mode WsSpacesNl and rtrim in
  every mode are in the scope of `Big`, which carries the "error next to the result" bit that decides whether
  RightTrim trims).
  Missing: completeness (IF) under left recursion.  Half (A), the reuse invariant `run_complete`
  (Proofs/RunComplete.lean), and half (B), the cut argument (Proofs/CurtailCover.lean), are stated for `Frag` — no
  trims; Props/C05V.lean re-proved both with Trim for the ONE closed arithmetic grammar (Proofs/A05*.lean, several
  thousand lines).  The general version needs (1) the curtailed relation `DerivesC` extended by ltrim / rtrim rules, with the
  side condition above so that rtrim is monotone; (2) in (A) the case of LeftTrim, which passes the left-recursion
  context on UNCHANGED across the skipped whitespace (Props/C02U.lean, `trimLR_answers`: curtailment at the position
  after the blank comes one step EARLIER than from a fresh context) — the premise "counters dominated on the
  curtailing set" has to be transported across the position change; (3) in (B) the bound `remaining + slack` of
  `DerivesC.memo` at the position after the blank, where `remaining` is smaller by the skipped bytes while the
  counters were not reset: that the cut derivation still fits has to be argued anew (no counter-example is known:
  on `P → LeftTrim(P) b | a` both parses of " abb" are found), it is not a corollary of the trim-free argument.
-/

end PV
