/-
  C01P — the PARSER CORE, about the functions TRANSLATED from the Go source.

  `factgen -out-core` translates, statement by statement, the parse closures of combinator/*.go, parser/*.go and
  text/trim.go, parsley/context.go, parsley/result_cache.go, parsley/parse.go and ast.AppendNode / NodeList.Append into
  Lean definitions (Generated/FactsCore.lean, regenerated from the repository on every run; run-time: the hand-written
  Generated/CorePrelude.lean).  The theorems below tie every case of the hand-written interpreter `run`
  (Model/Run.lean) to the translated function it transcribes.

  Vocabulary (Proofs/CoreTieBasics.lean).  `eOut`: the model's answer read as a translated (node, curtailing set, error)
  triple; `CtxRel m c`: the translated left-recursion context holds the model context's counters; `StRel s st`: the translated
  `parsley.Context` shows the model state (call count, furthest error, result cache; ghost fields ignored);
  `Corr x y`: the translated outcome `x` is the model outcome `y` (fuel exhausted on both sides, or the embedded triple in
  a related state).  A `parsley.Parser` value is an abstract handle; calling it is the world's `parse`.

    Agrees W cfg fuel p g  :=  ∀ m c pos s st, CtxRel m c → StRel s st →
                                 Corr (W.parse p m pos s) (run cfg fuel g c pos st)
    AgreesF f cfg fuel g   :=  the same for a translated parse function `f` in place of `W.parse p`

  Every combinator tie has the form: IF the world's `parse` agrees with `run cfg fuel` on the operands (`Agrees`), THEN
  the translated closure agrees with `run cfg (fuel+1)` on the combinator node (`AgreesF`).  Further hypotheses, where
  present: `cfg.maxCalls = 0` (the model's work budget is off — the Go code has none); `WorldRel W cfg` (the world's reader
  answers what the model's file functions answer; C10P proves these equations of the TRANSLATED reader).
-/
import ParsleyVerif.Proofs.CoreTieChoice
import ParsleyVerif.Proofs.CoreTieMemo
import ParsleyVerif.Proofs.CoreTieTrim
import ParsleyVerif.Proofs.CoreTieParse
import ParsleyVerif.Proofs.CoreTieSeqCtor
namespace PV
open PV.CoreTie PV.FactsCore

/-- the functions of the core the translator is asked for -/
def coreFunctions : List String :=
  ["Context_RegisterCall", "Context_SetError", "Context_Error", "ResultCache_Save", "ResultCache_Get",
   "NodeList_Append", "AppendNode", "Optional_parse", "Single_parse", "SuppressError_parse", "ReturnError_parse",
   "Empty_parse", "End_parse", "Any_parse", "Choice_parse", "Memoize_parse", "LeftTrim_parse", "RightTrim_parse", "Parse",
   "seqDefaultResultHandler_parse", "sequence_parse", "sequence_parseNext", "sequence_Parse", "Sequence_Parse", "Seq", "SeqOf",
   "SeqTry", "SeqFirstOrAll", "newMany", "newSepBy", "ReturnSingle", "Sequence_Name", "Sequence_Token", "Sequence_HandleResult",
   "Sequence_Bind", "Many", "Many1", "SepBy", "SepBy1"]

/-- everything asked for is translated -/
theorem c01p_all_translated :
    coreFunctions.all (fun f => FactsCore.translatedCore.contains f) = true ∧ FactsCore.untranslatedCore = [] := by
  decide

/-- **Stage 1: the context, the cache, AppendNode** — translated vs. model, for every state -/
theorem c01p_context_cache_append (W : World Context) (s : Context) (st : St) (rel : StRel s st) :
    (∃ s', Context_RegisterCall W s = .ok () s' ∧ StRel s' st.regCall) ∧
    (∀ e, ∃ s', Context_SetError W (eErr e) s = .ok () s' ∧ StRel s' (st.setError e)) ∧
    Context_Error W s = .ok (eErr st.ctxErr) s ∧
    (∀ (idx pos : Nat) (m : IntMap) (ctx : Ctx), CtxRel m ctx →
      match cacheGet st.cache idx pos ctx with
      | none => ResultCache_Get W s.resultCache idx pos m s = .ok (none, false) s
      | some e => ∃ r, ResultCache_Get W s.resultCache idx pos m s = .ok (some r, true) s ∧ ResultRel r e) ∧
    (∀ (r : Result) (e : CacheEntry), ResultRel r e →
      ∃ rc', ResultCache_Save W s.resultCache e.idx e.pos (some r) s = .ok rc' s ∧ CacheRel rc' (cacheSave st.cache e)) ∧
    (∀ a b : Res, AppendNode W (eRes a) (eRes b) s = .ok (eRes (appendNode a b)) s) ∧
    (∀ (nl : List Node) (b : Res), b.isNil = false →
      NodeList_Append W (nl.map eNode) (eRes b) s = .ok ((nlAppend nl b).map eNode) s) :=
  ⟨tie_RegisterCall W s st rel, tie_SetError W s st rel, tie_Error W s st rel,
   fun idx pos m ctx hm => tie_Get W s.resultCache st.cache rel.cache idx pos m ctx hm s,
   fun r e hr => tie_Save W s.resultCache st.cache rel.cache r e hr s,
   fun a b => tie_AppendNode W a b s, fun nl b hb => tie_NodeList_Append W nl b hb s⟩

/-- **The tie of the combinators.**  For every world, configuration without work budget and fuel:
    the translated closure of each combinator agrees with `run` at fuel+1 on the combinator's node, provided the world's
    `parse` agrees with `run` at that fuel on the operands. -/
theorem c01_translated_core (W : World Context) (cfg : Cfg) (h0 : cfg.maxCalls = 0) (fuel : Nat) :
    (∀ p g, Agrees W cfg fuel p g → AgreesF (Optional_parse W p) cfg (fuel + 1) (.optional g)) ∧
    (∀ p g, Agrees W cfg fuel p g → AgreesF (Single_parse W p) cfg (fuel + 1) (.single g)) ∧
    (∀ p g, Agrees W cfg fuel p g → AgreesF (SuppressError_parse W p) cfg (fuel + 1) (.suppress g)) ∧
    (∀ p g nm, Agrees W cfg fuel p g →
      AgreesF (ReturnError_parse W p (CorePrelude.NotFoundError nm)) cfg (fuel + 1) (.name g nm)) ∧
    AgreesF (Empty_parse W) cfg (fuel + 1) .empty ∧
    (WorldRel W cfg →
      AgreesF (End_parse W (CorePrelude.errors_New (CorePrelude.Go.str "was expecting the end of input"))) cfg (fuel + 1) .eof) ∧
    (∀ ps gs, AgreesAll W cfg fuel ps gs → AgreesF (Any_parse W ps) cfg (fuel + 1) (.any gs)) ∧
    (∀ ps gs, AgreesAll W cfg fuel ps gs → AgreesF (Choice_parse W ps) cfg (fuel + 1) (.choice gs)) ∧
    (WorldRel W cfg → ∀ p g (idx : Nat), Agrees W cfg fuel p g →
      AgreesF (Memoize_parse W p (idx : Int)) cfg (fuel + 1) (.memo idx g)) ∧
    (WorldRel W cfg → ∀ p g mode, Agrees W cfg fuel p g →
      AgreesF (LeftTrim_parse W p (modeCode mode)) cfg (fuel + 1) (.ltrim g mode)) ∧
    (WorldRel W cfg → ∀ p g mode, Agrees W cfg fuel p g →
      AgreesF (RightTrim_parse W p (modeCode mode)) cfg (fuel + 1) (.rtrim g mode)) :=
  ⟨fun p g => tie_Optional W cfg h0 fuel p g, fun p g => tie_Single W cfg h0 fuel p g,
   fun p g => tie_SuppressError W cfg h0 fuel p g, fun p g nm => tie_ReturnError W cfg h0 fuel p g nm,
   tie_Empty W cfg h0 fuel, fun hw => tie_End W cfg h0 hw fuel,
   fun ps gs => tie_Any W cfg h0 fuel ps gs, fun ps gs => tie_Choice W cfg h0 fuel ps gs,
   fun hw p g idx => tie_Memoize W cfg h0 hw fuel p g idx,
   fun hw p g mode => tie_LeftTrim W cfg h0 hw fuel p g mode, fun hw p g mode => tie_RightTrim W cfg h0 hw fuel p g mode⟩

/-- **parsley.Parse**, translated, is the model's `parse` (transformation and static check off): same node, the returned
    `error` is `fmt.Errorf("failed to parse the input: %w", fs.ErrorWithPosition(e))` for exactly the model's choice of `e`
    (the rendering of the message is not translated: the value is kept symbolic), related final states. -/
theorem c01p_parse (W : World Context) (cfg : Cfg) (hw : WorldRel W cfg) (fuel : Nat) (p : Parser) (g : G)
    (hp : Agrees W cfg fuel p g) (s : Context) (st : St) (hs : StRel s st) :
    match parse cfg fuel g st with
    | none => Parse W p s = .nofuel
    | some po => ∃ s', Parse W p s = .ok (eRes po.res, eParseErr po.err) s' ∧ StRel s' po.st :=
  tie_Parse W cfg hw fuel p g hp s st hs

/-- **The value-level data package is C15's specification**: the functions the translated core calls for
    `cp.Union`, `data.NewIntSet`, `leftRecCtx.Get / Inc / Filter` are the specification functions that Props/C15P.lean
    proves of the TRANSLATED slice/map-level functions, and on related contexts they compute the model's
    `cpUnion`, `Ctx.get`, `Ctx.inc`, `Ctx.filter`. -/
theorem c01p_data_value_level :
    (∀ a b, CorePrelude.Data.IntSet_Union a b = Data.sMerge a b) ∧
    (∀ vs, CorePrelude.Data.NewIntSet vs = Data.sOfList vs) ∧
    (∀ m k, CorePrelude.Data.IntMap_Get m k = (Data.mget m k).getD 0) ∧
    (∀ m k, CorePrelude.Data.IntMap_Inc m k = Data.mInc m k) ∧
    (∀ m keys, CorePrelude.Data.IntMap_Filter m keys = Data.mFilter m keys) ∧
    (∀ a b : List Nat, eSet (cpUnion a b) = CorePrelude.Data.IntSet_Union (eSet a) (eSet b)) ∧
    CtxRel CorePrelude.Data.EmptyIntMap [] ∧
    (∀ m c, CtxRel m c → ∀ k : Nat, CorePrelude.Data.IntMap_Get m k = (c.get k : Nat)) ∧
    (∀ m c, CtxRel m c → ∀ k : Nat, CtxRel (CorePrelude.Data.IntMap_Inc m k) (c.inc k)) ∧
    (∀ m c, CtxRel m c → ∀ cp : List Nat, CtxRel (CorePrelude.Data.IntMap_Filter m (eSet cp)) (c.filter cp)) :=
  ⟨union_spec, newIntSet_spec, get_spec, inc_spec', filter_spec', eSet_union, CtxRel.nil,
   fun _ _ r k => r.get k, fun _ _ r k => r.inc k, fun _ _ r cp => r.filter cp⟩

/-- **The Sequence machinery (stage 4).**  `sequence.parse` / `sequence.parseNext` are mutually recursive in Go; the
    translation gives them a fuel argument.  For a translated struct `s0` whose static fields show the shape `sh`
    (`Static`: token, interpreter, look-up agreeing with `run cfg fuel` on every operand, length check, result handler =
    the model's `handleResult`), the translated `sequence.parse` with fuel 2·f − 1 simulates the model's `seqParse` with
    fuel f — same early-exit flag, related `SeqSt` (curtailing parsers, result list, furthest error) and context state,
    out of fuel exactly when the model is; the node buffer `s.nodes` agrees with the model's `nodes` on its first `depth`
    entries before and after (`SimB`).  The result handler `seqDefaultResultHandler` is tied to `handleResult`. -/
theorem c01p_sequence_machinery (W : World Context) (cfg : Cfg) (fuel : Nat) (sh : SeqShape) (s0 : sequence)
    (S : Static W cfg fuel sh s0) :
    (∀ f, PSim W cfg fuel sh s0 (2 * f - 1) f) ∧
    (∀ (pos : Nat) (nodes : List Node) (s : Context),
      seqDefaultResultHandler_parse W sh.single pos sh.token (nodes.map eNode) (eInterp sh.interp) s =
        .ok (eNode (handleResult sh pos nodes)) s) :=
  ⟨seq_parse_sim W cfg fuel sh s0 S, tie_handler W sh⟩

/-- **(*Sequence).Parse (stage 4)**: on a translated `Sequence` struct showing the shape of a parser `g` of the Sequence
    family (`SeqStatic`), the translated Parse with fuel 2·fuel − 1 agrees with `run cfg (fuel+1) g`; and the translated
    constructors and setters build such structs: SeqOf / SeqTry / SeqFirstOrAll over operands that agree pairwise, newMany
    (Many, Many1), newSepBy (SepBy, SepBy1), Name / Token / Bind / HandleResult(ReturnSingle()). -/
theorem c01p_sequence_family (W : World Context) (cfg : Cfg) (h0 : cfg.maxCalls = 0) (fuel : Nat) :
    (∀ g sh S, g.shape = some sh → SeqStatic W cfg fuel sh S →
      AgreesF (Sequence_Parse W (2 * fuel - 1) S) cfg (fuel + 1) g) ∧
    (∀ ps gs s, AgreesAll W cfg fuel ps gs → (∀ p ∈ ps, p.isNil = false) →
      (∃ S sh, SeqOf W ps s = .ok (some S) s ∧ (G.seq .seqOf gs {}).shape = some sh ∧ SeqStatic W cfg fuel sh S) ∧
      (∃ S sh, SeqTry W ps s = .ok (some S) s ∧ (G.seq .seqTry gs {}).shape = some sh ∧ SeqStatic W cfg fuel sh S) ∧
      (∃ S sh, SeqFirstOrAll W ps s = .ok (some S) s ∧ (G.seq .seqFirstOrAll gs {}).shape = some sh ∧
        SeqStatic W cfg fuel sh S)) ∧
    (∀ p g ae s, Agrees W cfg fuel p g → p.isNil = false →
      ∃ S sh, newMany W p ae s = .ok (some S) s ∧ (G.many g ae {}).shape = some sh ∧ SeqStatic W cfg fuel sh S) ∧
    (∀ pv psep gv gsep ae s, Agrees W cfg fuel pv gv → Agrees W cfg fuel psep gsep → pv.isNil = false → psep.isNil = false →
      ∃ S sh, newSepBy W pv psep ae s = .ok (some S) s ∧ (G.sepBy gv gsep ae {}).shape = some sh ∧
        SeqStatic W cfg fuel sh S) ∧
    (∀ sh S s, SeqStatic W cfg fuel sh S →
      (∀ nm, ∃ S', Sequence_Name W S nm s = .ok (S', some S') s ∧ SeqStatic W cfg fuel { sh with name := some nm } S') ∧
      (∀ t, ∃ S', Sequence_Token W S t s = .ok (S', some S') s ∧ SeqStatic W cfg fuel { sh with token := t } S') ∧
      (∀ i, ∃ S', Sequence_Bind W S (eInterp i) s = .ok (S', some S') s ∧ SeqStatic W cfg fuel { sh with interp := i } S') ∧
      (∃ S', Sequence_HandleResult W S (some (seqDefaultResultHandler_parse W true)) s = .ok (S', some S') s ∧
        SeqStatic W cfg fuel { sh with single := true } S')) :=
  ⟨fun g sh S hg hS => tie_Sequence_Parse W cfg h0 fuel g sh hg S hS,
   fun ps gs s hall hnn => tie_SeqOf W cfg fuel ps gs hall hnn s,
   fun p g ae s hp hnn => tie_newMany W cfg fuel p g ae hp hnn s,
   fun pv psep gv gsep ae s hv hs hnv hns => tie_newSepBy W cfg fuel pv psep gv gsep ae hv hs hnv hns s,
   fun sh S s h => tie_setters W cfg fuel sh S h s⟩

/-- **combinator.Sentence** = `SeqOf(p, parser.End()).Bind(interpreter.Select(0))` (its one-line body builds a parser VALUE
    from a function literal, which is outside the translated subset; the composition it denotes is tied): for a handle
    `pe` on which the world runs the translated `parser.End`, the translated SeqOf followed by the translated Bind yields a
    struct on which the translated Parse agrees with `run` on `G.sentence g`. -/
theorem c01p_sentence (W : World Context) (cfg : Cfg) (h0 : cfg.maxCalls = 0) (fuel : Nat) (p pe : Parser) (g : G)
    (hp : Agrees W cfg fuel p g) (he : Agrees W cfg fuel pe .eof) (hnp : p.isNil = false) (hne : pe.isNil = false)
    (s : Context) :
    ∃ S0 S, SeqOf W [p, pe] s = .ok (some S0) s ∧ Sequence_Bind W S0 (eInterp (.select 0)) s = .ok (S, some S) s ∧
      AgreesF (Sequence_Parse W (2 * fuel - 1) S) cfg (fuel + 1) g.sentence := by
  obtain ⟨⟨S0, sh, e1, hsh, hst⟩, -, -⟩ := tie_SeqOf W cfg fuel [p, pe] [g, .eof] (.cons hp (.cons he .nil))
    (by intro q hq; simp at hq; rcases hq with rfl | rfl <;> assumption) s
  obtain ⟨-, -, hb, -⟩ := tie_setters W cfg fuel sh S0 hst s
  obtain ⟨S, e2, hst2⟩ := hb (.select 0)
  refine ⟨S0, S, e1, e2, tie_Sequence_Parse W cfg h0 fuel g.sentence { sh with interp := .select 0 } ?_ S hst2⟩
  simp only [G.shape, Option.some.injEq] at hsh
  subst hsh
  rfl

/-! ### non-vacuity: a concrete world in which every hypothesis holds -/

def exMode (m : Int) : Text.WsMode :=
  if m = 0 then .none else if m = 1 then .spaces else if m = 3 then .forceNl else .spacesNl

/-- the reader of a configuration, and no parser -/
def exWorld0 (cfg : Cfg) : World Context :=
  { parse := fun _ _ _ => CorePrelude.Go.panic,
    Reader_Remaining := fun p => (Text.remaining cfg.file p.toNat : Nat),
    Reader_IsEOF := fun p => Text.isEOF cfg.file p.toNat,
    Reader_Pos := fun i => (cfg.file.pos i.toNat : Nat),
    Reader_SkipWhitespaces := fun p m =>
      (((Text.skipWhitespaces cfg.file p.toNat (exMode m)).1 : Nat), eErr (wsToErr (Text.skipWhitespaces cfg.file p.toNat (exMode m)).2)),
    Transform := fun _ n => (n, .nil),
    StaticCheck := fun _ _ => .nil }

/-- the same reader; the handle 0 runs the translated parser.Empty, the handle 1 the translated parser.End -/
def exWorld (cfg : Cfg) : World Context :=
  { exWorld0 cfg with
    parse := fun p m pos => match p with
      | .mk 0 => Empty_parse (exWorld0 cfg) m pos
      | .mk 1 => End_parse (exWorld0 cfg) (CorePrelude.errors_New (CorePrelude.Go.str "was expecting the end of input")) m pos
      | _ => CorePrelude.Go.panic }

/-- a fresh context, as parsley.NewContext makes it -/
def exState : Context :=
  { reader := (), resultCache := CorePrelude.Go.mkMap, err := .nil, callCount := 0, transformationEnabled := false,
    staticCheckEnabled := false, userCtx := [] }

theorem exState_rel : StRel exState {} :=
  ⟨rfl, rfl, ⟨rfl, fun idx m h => by simp [exState, CorePrelude.Go.mkMap, CorePrelude.Map.find] at h,
    fun idx pos => by simp [cacheFind, lookup, exState, CorePrelude.Go.mkMap, CorePrelude.Map.find]⟩, rfl, rfl⟩

theorem exWorld0_rel (cfg : Cfg) : WorldRel (exWorld0 cfg) cfg :=
  ⟨fun p => by simp [exWorld0], fun p => by simp [exWorld0], by simp [exWorld0],
   fun p m => by cases m <;> simp [exWorld0, exMode, modeCode]⟩

theorem exWorld_rel (cfg : Cfg) : WorldRel (exWorld cfg) cfg :=
  ⟨(exWorld0_rel cfg).remaining, (exWorld0_rel cfg).isEOF, (exWorld0_rel cfg).pos0, (exWorld0_rel cfg).skipWs⟩

/-- **non-vacuity**: in the world `exWorld cfg` (any configuration without work budget) the operand hypotheses of
    `c01_translated_core`, `c01p_parse`, `c01p_sentence` hold for the handles 0 (parser.Empty) and 1 (parser.End) at every
    positive fuel, the state relation holds of a fresh context — so the translated Any, Choice, Memoize, Optional, Trim, Parse
    and Sentence over them are tied to `run` unconditionally. -/
theorem c01p_nonvacuous (cfg : Cfg) (h0 : cfg.maxCalls = 0) (fuel : Nat) :
    WorldRel (exWorld cfg) cfg ∧ StRel exState {} ∧
    Agrees (exWorld cfg) cfg (fuel + 1) (.mk 0) .empty ∧ Agrees (exWorld cfg) cfg (fuel + 1) (.mk 1) .eof ∧
    AgreesF (Any_parse (exWorld cfg) [.mk 0, .mk 1]) cfg (fuel + 2) (.any [.empty, .eof]) ∧
    AgreesF (Choice_parse (exWorld cfg) [.mk 1, .mk 0]) cfg (fuel + 2) (.choice [.eof, .empty]) ∧
    AgreesF (Memoize_parse (exWorld cfg) (.mk 1) (7 : Nat)) cfg (fuel + 2) (.memo 7 .eof) ∧
    AgreesF (LeftTrim_parse (exWorld cfg) (.mk 1) (modeCode .spacesNl)) cfg (fuel + 2) (.ltrim .eof .spacesNl) ∧
    (∀ s, ∃ S0 S, SeqOf (exWorld cfg) [.mk 0, .mk 1] s = .ok (some S0) s ∧
      Sequence_Bind (exWorld cfg) S0 (eInterp (.select 0)) s = .ok (S, some S) s ∧
      AgreesF (Sequence_Parse (exWorld cfg) (2 * (fuel + 1) - 1) S) cfg (fuel + 2) (G.sentence .empty)) := by
  have a0 : Agrees (exWorld cfg) cfg (fuel + 1) (.mk 0) .empty := tie_Empty (exWorld0 cfg) cfg h0 fuel
  have a1 : Agrees (exWorld cfg) cfg (fuel + 1) (.mk 1) .eof := tie_End (exWorld0 cfg) cfg h0 (exWorld0_rel cfg) fuel
  exact ⟨exWorld_rel cfg, exState_rel, a0, a1,
    tie_Any _ cfg h0 _ _ _ (.cons a0 (.cons a1 .nil)), tie_Choice _ cfg h0 _ _ _ (.cons a1 (.cons a0 .nil)),
    tie_Memoize _ cfg h0 (exWorld_rel cfg) _ _ _ 7 a1, tie_LeftTrim _ cfg h0 (exWorld_rel cfg) _ _ _ .spacesNl a1,
    fun s => c01p_sentence _ cfg h0 _ _ _ _ a0 a1 rfl rfl s⟩

def exCfgEmpty : Cfg :=
  { env := [], file := { name := "f", data := [], offset := 1 }, fileSet := {},
    params := { floatOk := fun _ => true, durErr := fun _ => none, regexp := fun _ _ => none } }

/-- the translated functions RUN: `Optional(End)` on the file "a" at its start (no match: the EMPTY node together with
    End's error) and `Memoize(End)` on the empty file (the EOF node, stored in the cache with an empty context), evaluated
    by the kernel.  (`Data.IntSet_Union`, like the model's `cpUnion`, is defined by well-founded recursion, so the kernel
    cannot evaluate Any / Choice; they are covered by `c01p_nonvacuous`.) -/
theorem c01p_example :
    (match Optional_parse (exWorld { exCfgEmpty with file := { name := "f", data := [97], offset := 1 } }) (.mk 1) [] 1 exState with
      | .ok (.empty 1, [], .mk 1 (.other 0 _)) s' => s'.callCount
      | _ => -1) = 0 ∧
    (match Memoize_parse (exWorld exCfgEmpty) (.mk 1) 7 [] 1 exState with
      | .ok (.eof 1, [], .nil) s' => (match lookup s'.resultCache 7 1 with | some (some r) => r.LeftRecCtx | _ => [(0, 0)])
      | _ => [(1, 1)]) = [] := by
  decide

end PV
