/-
  C11P — the file set of parsley/file_set.go and text/position.go `Position.String`, about the functions TRANSLATED from
  the Go source.

  `factgen -out-prog` translates `NewFileSet`, `(*FileSet).AddFile`, `(*FileSet).Position` and `Position.String`
  statement by statement into Lean (Generated/FactsProg.lean, regenerated on every run; run-time
  Generated/ProgPrelude.lean).  The methods these functions call on the interface parsley.File (`SetOffset`, `Len`,
  `Position`) are dispatched to the translated methods of text.File — the one implementation the model has; `fs.files`
  is an owned list of file structs (struct pointers are owned values in this translation: the caller's view of a file
  after AddFile is the set's copy, `FS'.files`' last element); `AddFile(nil)` (the documented panic) is outside: the
  translated function takes a file.

  `FSRel st FS fs` (Proofs/TxtTieFileSet.lean): the translated set `FS`, read in state `st`, shows the model set `fs`
  (same `pos`; the offset slice reads as the model's offsets; files related one by one by `FileOk` = `FileRel` + the
  line cache absent or the model's line table; no file array is the offset slice's array).  `posObj` (Proofs/ProgTieText)
  says which opaque interface value stands for which model answer.  `c11_translated_functions` is the tie;
  `c11p_roundtrip`, `c11p_unknown`, `c11p_nopanic` restate C11's statements about the translated `Position` on every set
  built by the translated `NewFileSet` / `AddFile`.

  `(*FileSet).ErrorWithPosition` — the caller of `fs.Position`, the NilPosition answer and `Position.String` — is
  translated as well (progerr.go: error values observed through `Pos()` / `Error()`, fmt.Errorf as the formatted text, the
  call `pos.String()` dispatched on the dynamic type); its tie to the model's `errorWithPosition` is Props/C06Q.lean.
-/
import ParsleyVerif.Proofs.TxtTieFileSet
import ParsleyVerif.Proofs.TxtTieNewFile
import ParsleyVerif.Props.C11
namespace PV.TxtTie
open PV.ProgPrelude PV.FactsProg PV.ProgTie

def c11pFunctions : List String := ["FileSet_AddFile", "FileSet_Position", "NewFileSet", "Position_String"]

/-- **The tie.**  Every file-set function asked for is translated and computes what the model computes. -/
theorem c11_translated_functions :
    c11pFunctions.all (fun f => FactsProg.translatedProg.contains f) = true ∧
    -- AddFile
    (∀ (st : ProgPrelude.St) (FS : FactsProg.FileSet) (fs : Text.FileSet) (F : FactsProg.File) (f : Text.File),
      FSRel st FS fs → FileOk st F f → Apart FS.offset.arr F →
      ∃ (FS' : FactsProg.FileSet) (st' : ProgPrelude.St),
        FileSet_AddFile FS F st = .ok FS' st' ∧ FSRel st' FS' (fs.addFile f).1 ∧ Only FS.offset.arr st st' ∧
        FS'.files = FS.files ++ [{ F with offset := FS.pos }]) ∧
    -- Position
    (∀ (st : ProgPrelude.St) (FS : FactsProg.FileSet) (fs : Text.FileSet) (p : Nat), FSRel st FS fs →
      (fs.position p = .panic → FileSet_Position FS p st = .panic) ∧
      (fs.position p ≠ .panic → ∃ (FS' : FactsProg.FileSet) (st' : ProgPrelude.St),
        FileSet_Position FS p st = .ok (FS', posObj (fs.position p)) st' ∧ FSRel st' FS' fs ∧
        Keeps st.arrays.length st st')) ∧
    -- NewFileSet
    (∀ (st : ProgPrelude.St) (Fs : List FactsProg.File) (fl : List Text.File), FilesRel st Fs fl →
      ∃ (FS : FactsProg.FileSet) (st' : ProgPrelude.St),
        NewFileSet Fs st = .ok FS st' ∧ FSRel st' FS (Text.buildFS fl) ∧ Keeps st.arrays.length st st') ∧
    -- Position.String
    (∀ (st : ProgPrelude.St) (name : String) (l c : Nat),
      Position_String { Filename := name, Line := l, Column := c } st =
        .ok (Go.lit (Text.PosResult.render (.at_ name l c))) st) :=
  ⟨by decide,
   fun st FS fs F f r ok ap => by
     obtain ⟨FS', st', a, b, c, d, _⟩ := tie_AddFile st FS fs r F f ok ap
     exact ⟨FS', st', a, b, c, d⟩,
   fun st FS fs p r => tie_FSPosition st FS fs r p,
   fun st Fs fl h => tie_NewFileSet st Fs fl h,
   fun st name l c => tie_PositionString st name l c⟩

/-- **round trip, about the translated code**: on a set that shows `buildFS files` (for instance the one the translated
    `NewFileSet` returns, `c11p_newFileSet`), the translated `Position` of every global position from a file's first byte
    through its end-of-file position answers that file's name and the line and column of the specification; the set
    stays related and nothing that existed is written -/
theorem c11p_roundtrip (st : ProgPrelude.St) (FS : FactsProg.FileSet) (files : List Text.File)
    (r : FSRel st FS (Text.buildFS files)) (i : Nat) (g : Text.File) (off : Nat)
    (hg : (Text.buildFS files).files[i]? = some g) (hoff : off ≤ g.len) :
    ∃ (FS' : FactsProg.FileSet) (st' : ProgPrelude.St),
      FileSet_Position FS (g.pos off) st =
        .ok (FS', .mk "text.Position" [((Text.lineCol g.data off).1 : Int), ((Text.lineCol g.data off).2 : Int)] [g.name] []) st' ∧
      FSRel st' FS' (Text.buildFS files) ∧ Keeps st.arrays.length st st' := by
  have hm := Text.c11_roundtrip files i g off hg hoff
  obtain ⟨FS', st', e, r', k⟩ := (tie_FSPosition st FS _ r (g.pos off)).2 (by rw [hm]; intro h; cases h)
  rw [hm] at e
  exact ⟨FS', st', e, r', k⟩

/-- … and `String()` of that answer is "name:line:column" ("line:column" for the empty name), as bytes -/
theorem c11p_roundtrip_string (st : ProgPrelude.St) (g : Text.File) (off : Nat) :
    Position_String { Filename := g.name, Line := ((Text.lineCol g.data off).1 : Int), Column := ((Text.lineCol g.data off).2 : Int) } st =
      .ok (Go.lit (if g.name ≠ "" then s!"{g.name}:{(Text.lineCol g.data off).1}:{(Text.lineCol g.data off).2}"
                    else s!"{(Text.lineCol g.data off).1}:{(Text.lineCol g.data off).2}")) st := by
  rw [tie_PositionString]
  rfl

/-- **unknown and no panic, about the translated code**: on such a set the translated `Position` never panics, for any
    position at all, and answers NilPosition exactly for position 0 and everything from `fs.pos` on -/
theorem c11p_unknown (st : ProgPrelude.St) (FS : FactsProg.FileSet) (files : List Text.File)
    (r : FSRel st FS (Text.buildFS files)) (p : Nat) :
    ∃ (FS' : FactsProg.FileSet) (o : Obj) (st' : ProgPrelude.St),
      FileSet_Position FS p st = .ok (FS', o) st' ∧ FSRel st' FS' (Text.buildFS files) ∧
      o = posObj ((Text.buildFS files).position p) ∧
      ((Text.buildFS files).position p = .unknown ↔ p = 0 ∨ (Text.buildFS files).pos ≤ p) := by
  obtain ⟨FS', st', e, r', _⟩ := (tie_FSPosition st FS _ r p).2 (Text.c11_nopanic files p)
  exact ⟨FS', _, st', e, r', rfl, Text.c11_unknown files p⟩

/-- the translated `NewFileSet` on translated files that show the model files returns a set that shows `buildFS files` -/
theorem c11p_newFileSet (st : ProgPrelude.St) (Fs : List FactsProg.File) (files : List Text.File) (h : FilesRel st Fs files) :
    ∃ (FS : FactsProg.FileSet) (st' : ProgPrelude.St),
      NewFileSet Fs st = .ok FS st' ∧ FSRel st' FS (Text.buildFS files) ∧ Keeps st.arrays.length st st' :=
  tie_NewFileSet st Fs files h

/-! non-vacuity: two files ("a\nb" named "x", and the empty file named "") in a concrete state; the translated
    NewFileSet, then Position of every global position 0 … 7 and `String()` of an answer, evaluated by the kernel -/

def c11pSt : ProgPrelude.St := { arrays := [[97, 10, 98], []], maps := [], grow := fun c => 2 * c + 1 }
def c11pF1 : FactsProg.File := { filename := "x", data := { arr := 0, off := 0, len := 3, cap := 3 }, lines := Go.nilSl, len := 3, offset := 1 }
def c11pF2 : FactsProg.File := { filename := "", data := { arr := 1, off := 0, len := 0, cap := 0 }, lines := Go.nilSl, len := 0, offset := 1 }
def c11pf1 : Text.File := { name := "x", data := [97, 10, 98], offset := 1 }
def c11pf2 : Text.File := { name := "", data := [], offset := 1 }

theorem c11p_example_rel : FilesRel c11pSt [c11pF1, c11pF2] [c11pf1, c11pf2] := by
  refine FilesRel.cons_iff.mpr ⟨⟨⟨by decide, rfl, rfl, rfl, rfl⟩, Or.inl rfl, by decide, fun h => by cases h⟩,
    FilesRel.cons_iff.mpr ⟨⟨⟨by decide, rfl, rfl, rfl, rfl⟩, Or.inl rfl, by decide, fun h => by cases h⟩, FilesRel.nil _⟩⟩

def c11pAnswers : List (String × List Int × List String) :=
  match NewFileSet [c11pF1, c11pF2] c11pSt with
  | .ok FS st =>
    (List.range 8).map (fun (p : Nat) => match FileSet_Position FS (p : Int) st with
      | .ok (_, .mk tag ints strs _) _ => (tag, ints, strs)
      | _ => ("panic", [], []))
  | _ => []

theorem c11p_example :
    c11pAnswers =
      [("parsley.nilPosition", [0], []),
       ("text.Position", [1, 1], ["x"]), ("text.Position", [1, 2], ["x"]), ("text.Position", [2, 1], ["x"]),
       ("text.Position", [2, 2], ["x"]),
       ("text.Position", [1, 1], [""]),
       ("parsley.nilPosition", [0], []), ("parsley.nilPosition", [0], [])] ∧
    (match Position_String { Filename := "x", Line := 2, Column := 1 } c11pSt with | .ok s _ => s | _ => []) =
      [120, 58, 50, 58, 49] ∧
    (match Position_String { Filename := "", Line := 12, Column := 3 } c11pSt with | .ok s _ => s | _ => []) =
      [49, 50, 58, 51] := by
  decide

/-! ### text.NewFile (text/file.go), translated

  `NewFile(filename, data)` is translated like the functions above (`FactsProg.NewFile`): `bytes.Replace(data, "\r\n", "\n",
  -1)` is the prelude's general replacement primitive `Go.bytesReplaceAll` (every non-overlapping occurrence from the left,
  the result in a fresh array), the struct literal gets Go's zero values for the fields it does not mention (`lines` nil,
  `len` 0), `f.len = len(f.data)` is a field write of the local struct; the parameter `filename` is only stored, so it is
  text (a Lean `String`, like the field it goes to).  The TEXT fact `Facts.newFileData` that C11 used to pin is subsumed. -/

/-- **NewFile, about the translated code**: for every heap state, every name and every data slice of that state (a header
    into an existing array, or an empty slice — nil included) showing the bytes `raw`, the translated `NewFile` answers (no
    panic) a file that shows the model's `Text.newFile name raw` (`FileOk`: its data reads as `normCRLF raw`, `len` is
    that many, `offset` is `Facts.newFileOffset`, the name is kept, the line cache is absent), the fields spelled out; every
    array that existed is unchanged (`Keeps`), and the data is a fresh array (or the nil slice, when `raw` is empty) -/
theorem c11p_newFile :
    FactsProg.translatedProg.contains "NewFile" = true ∧
    ∀ (st : ProgPrelude.St) (name : String) (D : ProgPrelude.Sl) (raw : List Nat),
      view st D = ints raw → (D.arr < st.arrays.length ∨ D.len = 0) →
      ∃ (F : FactsProg.File) (st' : ProgPrelude.St),
        NewFile name D st = .ok F st' ∧ FileOk st' F (Text.newFile name raw) ∧ F.lines = Go.nilSl ∧
        F.offset = (Facts.newFileOffset : Int) ∧ F.filename = name ∧
        view st' F.data = ints (Text.normCRLF raw) ∧ F.len = ((Text.normCRLF raw).length : Int) ∧
        Keeps st.arrays.length st st' ∧ (F.data.isNil = true ∨ st.arrays.length ≤ F.data.arr) :=
  ⟨by decide, fun st name D raw hv hD => tie_NewFile st name D raw hv hD⟩

/-- the prelude's general replacement, at old = "\r\n" and new = "\n", is the model's normalisation -/
theorem c11p_replace_is_normCRLF (raw : List Nat) :
    ProgPrelude.replaceAll [13, 10] [10] 0 (ints raw) = ints (Text.normCRLF raw) :=
  replaceAll_crlf raw

/-- … and a file made by the translated `NewFile` can be handed to the translated `NewFileSet` (`c11p_newFileSet`) -/
theorem c11p_newFile_filesRel (st : ProgPrelude.St) (name : String) (D : ProgPrelude.Sl) (raw : List Nat)
    (hv : view st D = ints raw) (hD : D.arr < st.arrays.length ∨ D.len = 0) :
    ∃ (F : FactsProg.File) (st' : ProgPrelude.St),
      NewFile name D st = .ok F st' ∧ FilesRel st' [F] [Text.newFile name raw] := by
  obtain ⟨F, st', e, ok, _⟩ := tie_NewFile st name D raw hv hD
  exact ⟨F, st', e, FilesRel.cons_iff.mpr ⟨ok, FilesRel.nil _⟩⟩

/-! non-vacuity: "a\r\nb\r\r\n" (array 0 of a two-array heap, behind a header with offset 1) becomes "a\nb\r\n"; the result
    is array 4 (after the two pattern arrays), array 0 is untouched; an input without "\r\n" is copied; the empty input
    gives the nil slice -/

def c11pNfSt : ProgPrelude.St := { arrays := [[0, 97, 13, 10, 98, 13, 13, 10, 7], [5]], maps := [], grow := fun c => 2 * c + 1 }

/-- the answer as (name, data as read, [lines is nil, len, offset, data is nil], array 0 afterwards) -/
def c11pNfRun (D : ProgPrelude.Sl) : Option (String × List Int × List Int × List Int) :=
  match NewFile "x" D c11pNfSt with
  | .ok F st' =>
    some (F.filename, view st' F.data,
      [if F.lines.isNil then 1 else 0, F.len, F.offset, if F.data.isNil then 1 else 0], ProgPrelude.cells st' 0)
  | _ => none

theorem c11p_newFile_example :
    view c11pNfSt { arr := 0, off := 1, len := 7, cap := 8 } = ints [97, 13, 10, 98, 13, 13, 10] ∧
    c11pNfRun { arr := 0, off := 1, len := 7, cap := 8 } =
      some ("x", [97, 10, 98, 13, 10], [1, 5, 1, 0], [0, 97, 13, 10, 98, 13, 13, 10, 7]) ∧
    c11pNfRun { arr := 1, off := 0, len := 1, cap := 1 } = some ("x", [5], [1, 1, 1, 0], [0, 97, 13, 10, 98, 13, 13, 10, 7]) ∧
    c11pNfRun Go.nilSl = some ("x", [], [1, 0, 1, 1], [0, 97, 13, 10, 98, 13, 13, 10, 7]) ∧
    (Text.newFile "x" [97, 13, 10, 98, 13, 13, 10]).data = [97, 10, 98, 13, 10] := by
  decide

end PV.TxtTie
