/-
  C04 — the Sentence IFF, end to end, for certified grammars of the monotone fragment.

  Puts together: termination (Props/C02T.lean), soundness (Props/C04.lean / C01.lean) and completeness
  (Props/C01C.lean).  For every grammar `g` over {terminals, Empty, references, Memoize, Any, SeqOf, Optional}
  that the termination certificate `wf` accepts (direct, indirect, hidden left recursion included), every input and
  every sufficiently large fuel:

      parsley.Parse(Sentence(g)) succeeds   ⟺   some derivation of g consumes the entire input,

  and then the returned tree starts at the first byte and ends at end of input.
-/
import ParsleyVerif.Props.C04
import ParsleyVerif.Props.C01C
import ParsleyVerif.Props.C02T
namespace PV
open PV.Text

/-- the hypotheses under which all three ingredients apply -/
structure IffScope (cfg : Cfg) (cert : WFCert) (bodyOf : Nat → G) (g : G) : Prop where
  wf : wf cert cfg.env (G.sentence g) = true
  term : C02Scope cfg (G.sentence g)
  envC : ∀ g' ∈ cfg.env, CScope cfg bodyOf g'
  rootC : CScope cfg bodyOf g
  gokS : GOK bodyOf (G.sentence g)

theorem c04_sentence_iff (cfg : Cfg) (cert : WFCert) (bodyOf : Nat → G) (g : G) (hs : IffScope cfg cert bodyOf g) :
    ∃ F, ∀ fuel, F ≤ fuel → ∃ p, parse cfg fuel (G.sentence g) = some p ∧
      ((p.err = none ∧ p.res.alts ≠ []) ↔ ∃ x, Derives cfg g (cfg.file.pos 0) x ∧ x.rpos = cfg.hi) ∧
      (p.err = none → ∀ x ∈ p.res.alts, x.pos = cfg.file.pos 0 ∧ x.rpos = cfg.hi) := by
  obtain ⟨F, hF⟩ := c02_terminates_parse cert cfg (G.sentence g) hs.wf hs.term
  refine ⟨F, fun fuel hle => ?_⟩
  have hsome := hF fuel hle
  cases hp : parse cfg fuel (G.sentence g) with
  | none => rw [hp] at hsome; simp at hsome
  | some p =>
    have hscope : Scope cfg (G.sentence g) :=
      ⟨by
          have hc := hs.rootC.core
          show (G.seq .seqOf [g, .eof] { interp := .select 0 }).Core (TermGood cfg)
          simp only [G.Core, CoreList]
          exact ⟨hc, trivial, trivial⟩,
       fun g' hg' => (hs.envC g' hg').core⟩
    have henvG : ∀ g' ∈ cfg.env, GOK bodyOf g' := fun g' hg' => (hs.envC g' hg').gok
    refine ⟨p, rfl, ⟨?_, ?_⟩, ?_⟩
    · rintro ⟨hok, _⟩
      exact c04_sentence_only_if cfg bodyOf g hscope henvG hs.gokS fuel p hp hok
    · intro hex
      exact c01_sentence_complete_parse cfg bodyOf hs.envC g hs.rootC fuel p hp hex
    · intro _ x hx
      obtain ⟨h1, h2, _⟩ := c04_sentence_sound cfg bodyOf g hscope henvG hs.gokS fuel p hp x hx
      exact ⟨h1, h2⟩

/-- non-vacuity: the hypotheses hold for the left-recursive `P → P b | a` (memoized) on any configuration with that
    environment, e.g. the one of Props/C01.lean on "abb" — so for it `Parse(Sentence(P))` succeeds exactly when the
    input is in a b* -/
theorem c04_iff_scope_example : IffScope nvCfg (C02NV.certOne [] [0]) (fun _ => nvBody) (.ref 0) := by
  refine ⟨by decide, ⟨?_, ?_, rfl⟩, nv_scope, nv_root _ _, ?_⟩
  · show (G.seq .seqOf [G.ref 0, .eof] { interp := .select 0 }).Core (TermOK nvCfg)
    simp [G.Core, CoreList]
  · intro g' hg'
    simp only [nvCfg, nvEnv, List.mem_singleton] at hg'
    subst hg'
    simp only [G.Core, CoreList, and_true, true_and]
    exact ⟨termOK_rune _ _ _, termOK_rune _ _ _⟩
  · simp [GOK, G.All, AllList, LocalOK, G.sentence]

example : ∃ F, ∀ fuel, F ≤ fuel → ∃ p, parse nvCfg fuel (G.sentence (.ref 0)) = some p ∧ p.err = none := by
  obtain ⟨F, hF⟩ := c04_sentence_iff nvCfg _ _ _ c04_iff_scope_example
  refine ⟨F, fun fuel hle => ?_⟩
  obtain ⟨p, hp, hiff, _⟩ := hF fuel hle
  exact ⟨p, hp, (hiff.mpr ⟨nvABB, (nv_trees nvABB).mpr (by simp), rfl⟩).1⟩

end PV
