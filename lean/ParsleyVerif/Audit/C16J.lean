import ParsleyVerif.Props.C16J
#print axioms PV.c16j_source_grammar
#print axioms PV.c16j_decides_source
#print axioms PV.c16j_sentence_trim
