import ParsleyVerif.Props.C12
#print axioms PV.c12_prims
#print axioms PV.c12_sentinel
#print axioms PV.c12_terminal
#print axioms PV.c12_run
#print axioms PV.c12_run_calls
#print axioms PV.c12_run_sentinel
#print axioms PV.c12_positions
#print axioms PV.c12_parse
#print axioms PV.c12_parse_st
#print axioms PV.c12_parse_msg
#print axioms PV.c12_parse_msg_form
#print axioms PV.c12_fileSet
#print axioms PV.c12_fileSet_wf
#print axioms PV.c12_parse_placed
#print axioms PV.c12_facts
