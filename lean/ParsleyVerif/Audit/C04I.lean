import ParsleyVerif.Props.C04I
#print axioms PV.c04_sentence_iff
#print axioms PV.c04_iff_scope_example
