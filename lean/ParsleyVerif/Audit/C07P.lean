import ParsleyVerif.Props.C07P
#print axioms PV.Slice.c07_translated_setReaderPos
#print axioms PV.Slice.c07_translated_setReaderPos_op
#print axioms PV.Slice.c07_translated_setReaderPos_frame
#print axioms PV.Slice.c07_translated_list
