import ParsleyVerif.Props.C07P
#print axioms PV.Slice.c07_translated_setReaderPos
#print axioms PV.Slice.c07_translated_setReaderPos_op
#print axioms PV.Slice.c07_translated_setReaderPos_frame
#print axioms PV.Slice.c07_translated_list
#print axioms PV.Slice.c07_translated_appendNode
#print axioms PV.Slice.c07_translated_nodeListAppend
#print axioms PV.Slice.c07_translated_append
#print axioms PV.Slice.c07_translated_append_frame
#print axioms PV.Slice.c07p_clipped_append_fresh
#print axioms PV.Slice.c07p_clipped_appendNode_fresh
#print axioms PV.Slice.c07p_unclipped_append_corrupts
