import ParsleyVerif.Props.C09
#print axioms PV.Text.c09_readRune_ascii
#print axioms PV.Text.c09_readRune_multibyte
#print axioms PV.Text.c09_decode_encode
#print axioms PV.Text.c09_matchString
#print axioms PV.Text.c09_matchWord
#print axioms PV.Text.c09_readRegexp
#print axioms PV.Text.c09_readf
#print axioms PV.Text.c09_skipWhitespaces
#print axioms PV.Text.c09_remaining
#print axioms PV.Text.c09_isEOF
#print axioms PV.Text.c09_bounds
#print axioms PV.Text.c09_inbounds
#print axioms PV.Text.c09_facts
#print axioms PV.Text.c09_translated_expressions
