import ParsleyVerif.Props.C13P
#print axioms PV.c13p_all_translated
#print axioms PV.c13_translated_walk
#print axioms PV.c13_translated_visits
#print axioms PV.c13_translated_check
#print axioms PV.c13_translated_transform
#print axioms PV.c13_translated_passes
#print axioms PV.c13p_select_check
#print axioms PV.c13p_nonvacuous
#print axioms PV.c13p_example
