import ParsleyVerif.Props.C09P
#print axioms PV.TxtTie.c09_translated_functions
#print axioms PV.TxtTie.c09p_bounds
#print axioms PV.TxtTie.c09p_inbounds
#print axioms PV.TxtTie.c09p_documented_panics
#print axioms PV.TxtTie.c09p_example_rel
#print axioms PV.TxtTie.c09p_example
