import ParsleyVerif.Props.C01T
#print axioms PV.scope_of_builtin
#print axioms PV.c01_spans_builtin
#print axioms PV.c02_reentry_builtin
